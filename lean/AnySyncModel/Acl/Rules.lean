/-
Each `apply*` of the model satisfies the C04 step rules (`StepRules`) when validation is on and the
three repairs are present. One lemma per content kind; `Props/C04.lean` only assembles them.
-/
import AnySyncModel.Acl.Lemmas

namespace AnySync.Acl
open Generated.AclPerm

/-! ### generic ways to establish `StepRules` -/

theorem entry_of_accounts_eq (s s' : State) (h : s'.accounts = s.accounts) (b : Nat) :
    s'.entry b = s.entry b := by simp [State.entry, h]

theorem entry_accounts_insert (s s' : State) (a : Nat) (x : Account)
    (h : s'.accounts = s.accounts.insert a x) (b : Nat) (hb : b ≠ a) : s'.entry b = s.entry b := by
  simp [State.entry, h, AMap.find?_insert, hb]

theorem grantsAdmin_of_invites_eq (s s' : State) (h : s'.invites = s.invites) (i : Nat) :
    GrantsAdmin s' i ↔ GrantsAdmin s i := by simp [GrantsAdmin, h]

theorem sane_of_invites_eq (s s' : State) (h : s'.invites = s.invites) :
    InvitesSane s → InvitesSane s' := by
  intro hs i inv hf; rw [h] at hf; exact hs i inv hf

theorem oneOwner_of_perm_owner_iff (s s' : State)
    (h : ∀ b, s'.perm b = permOwner ↔ s.perm b = permOwner) : OneOwner s → OneOwner s' := by
  rintro ⟨o, ho, hu⟩
  exact ⟨o, (h o).2 ho, fun a ha => hu a ((h a).1 ha)⟩

/-- transitions that leave every permission as it was -/
theorem rules_of_perm_unchanged (s s' : State) (author : Nat)
    (hp : ∀ b, s'.perm b = s.perm b)
    (hopts : s'.opts ≠ s.opts → s.perm author = permOwner)
    (hmem : ∀ a, a ≠ author → s'.entry a ≠ s.entry a → canManageAccounts (s.perm author) = true)
    (hinv : s'.invites ≠ s.invites → canManageAccounts (s.perm author) = true)
    (hai : ∀ i, GrantsAdmin s' i → ¬ GrantsAdmin s i → s.perm author = permOwner)
    (hsane : InvitesSane s → InvitesSane s') :
    StepRules s author s' where
  sane := hsane
  one_owner := oneOwner_of_perm_owner_iff s s' (fun b => by rw [hp])
  admin := fun a h => by rw [hp] at h; exact absurd Iff.rfl h
  owner_untouchable := fun a h _ => by rw [hp]; exact h
  transfer := fun a h => by rw [hp] at h; exact absurd Iff.rfl h
  options := hopts
  membership := hmem
  invites := hinv
  admin_invite := hai
  guest := fun a h => by rw [hp]; exact Or.inl h
  outsider := fun a h h' => by rw [hp] at h'; exact absurd h h'
  self_perm := fun _ _ => hp author

/-- transitions by a manager that touch only accounts, never the author, never an owner, never a
guest except to remove it, and an admin only when the author is the owner -/
theorem rules_of_manager_change (s s' : State) (author : Nat)
    (hm : canManageAccounts (s.perm author) = true)
    (hopts : s'.opts = s.opts) (hinv : s'.invites = s.invites)
    (hp : ∀ b, s'.perm b = s.perm b ∨
      (b ≠ author ∧ s.perm b ≠ permOwner ∧ s'.perm b ≠ permOwner ∧
       (s.perm b = permGuest → s'.perm b = permNone) ∧
       ((s.perm b = permAdmin ∨ s'.perm b = permAdmin) → s.perm author = permOwner))) :
    StepRules s author s' where
  sane := sane_of_invites_eq s s' hinv
  one_owner := oneOwner_of_perm_owner_iff s s' (fun b => by
    rcases hp b with h | ⟨_, h1, h2, _⟩
    · rw [h]
    · exact ⟨fun h => absurd h h2, fun h => absurd h h1⟩)
  admin := fun a h => by
    rcases hp a with h' | ⟨_, _, _, _, h5⟩
    · rw [h'] at h; exact absurd Iff.rfl h
    · left; apply h5
      by_cases ha : s.perm a = permAdmin
      · exact Or.inl ha
      · right
        by_cases hb : s'.perm a = permAdmin
        · exact hb
        · exact absurd ⟨fun x => absurd x ha, fun x => absurd x hb⟩ h
  owner_untouchable := fun a h _ => by
    rcases hp a with h' | ⟨_, h1, _⟩
    · rw [h']; exact h
    · exact absurd h h1
  transfer := fun a h => by
    rcases hp a with h' | ⟨_, h1, h2, _⟩
    · rw [h'] at h; exact absurd Iff.rfl h
    · exact absurd ⟨fun x => absurd x h1, fun x => absurd x h2⟩ h
  options := fun h => absurd hopts h
  membership := fun _ _ _ => hm
  invites := fun h => absurd hinv h
  admin_invite := fun i h h' => absurd ((grantsAdmin_of_invites_eq s s' hinv i).1 h) h'
  guest := fun a h => by
    rcases hp a with h' | ⟨_, _, _, h4, _⟩
    · rw [h']; exact Or.inl h
    · exact Or.inr (h4 h)
  outsider := fun _ _ _ => Or.inl hm
  self_perm := fun h _ => by rw [hm] at h; cases h

/-! ### one lemma per content kind -/

theorem rules_inv (s s' : State) (author rec typ perm key : Nat) (hasRK : Bool)
    (h : applyInvite true s author rec typ perm key hasRK = .ok s') : StepRules s author s' := by
  unfold applyInvite at h
  simp only [Bool.true_and] at h
  repeat' (split at h <;> try contradiction)
  injection h with h; subst h
  have hm : canManageAccounts (s.perm author) = true := by
    cases hc : canManageAccounts (s.perm author) <;> simp_all
  refine rules_of_perm_unchanged _ _ _ (fun _ => rfl) (fun h => absurd rfl h) (fun _ _ _ => hm) (fun _ => hm) ?_ ?_
  · intro i hg hng
    obtain ⟨inv, hf, ht, hp⟩ := hg
    simp only [AMap.find?_insert] at hf
    split at hf
    · injection hf with hf; subst hf
      simp only at ht hp
      simp_all
    · exact absurd ⟨inv, hf, ht, hp⟩ hng
  · intro hs i inv hf ht
    simp only [AMap.find?_insert] at hf
    split at hf
    · injection hf with hf; subst hf
      simp only at ht ⊢
      simp_all
    · exact hs i inv hf ht


theorem rules_ich (s s' : State) (author rec i p : Nat)
    (h : applyInviteChange true s author rec i p = .ok s') : StepRules s author s' := by
  unfold applyInviteChange at h
  simp only [Bool.true_and] at h
  repeat' (split at h <;> try contradiction)
  injection h with h; subst h
  have hm : canManageAccounts (s.perm author) = true := by
    cases hc : canManageAccounts (s.perm author) <;> simp_all
  refine rules_of_perm_unchanged _ _ _ (fun _ => rfl) (fun h => absurd rfl h) (fun _ _ _ => hm) (fun _ => hm) ?_ ?_
  · intro j hg hng
    obtain ⟨inv', hf', ht, hp⟩ := hg
    simp only [AMap.find?_insert] at hf'
    split at hf'
    · injection hf' with hf'; subst hf'
      simp only at ht hp
      simp_all [isAdmin, isOwner]
    · exact absurd ⟨inv', hf', ht, hp⟩ hng
  · intro hs j inv' hf' ht
    simp only [AMap.find?_insert] at hf'
    split at hf'
    · injection hf' with hf'; subst hf'
      simp only at ht ⊢
      simp_all
    · exact hs j inv' hf' ht

theorem rules_irv (s s' : State) (author rec i : Nat)
    (h : applyInviteRevoke true s author rec i = .ok s') : StepRules s author s' := by
  unfold applyInviteRevoke at h
  simp only [Bool.true_and] at h
  repeat' (split at h <;> try contradiction)
  injection h with h; subst h
  have hm : canManageAccounts (s.perm author) = true := by
    cases hc : canManageAccounts (s.perm author) <;> simp_all
  refine rules_of_perm_unchanged _ _ _ (fun _ => rfl) (fun h => absurd rfl h) (fun _ _ _ => hm) (fun _ => hm) ?_ ?_
  · intro j hg hng
    obtain ⟨inv', hf', ht, hp⟩ := hg
    simp only [AMap.find?_erase] at hf'
    split at hf'
    · cases hf'
    · exact absurd ⟨inv', hf', ht, hp⟩ hng
  · intro hs j inv' hf' ht
    simp only [AMap.find?_erase] at hf'
    split at hf'
    · cases hf'
    · exact hs j inv' hf' ht

theorem rules_opt (s s' : State) (author rec x : Nat)
    (h : applyOptions true s author rec x = .ok s') : StepRules s author s' := by
  unfold applyOptions at h
  simp only [Bool.true_and] at h
  repeat' (split at h <;> try contradiction)
  injection h with h; subst h
  have ho : s.perm author = permOwner := by simp_all
  have hm : canManageAccounts (s.perm author) = true := by rw [ho]; decide
  exact rules_of_perm_unchanged _ _ _ (fun _ => rfl) (fun _ => ho) (fun _ _ _ => hm) (fun _ => hm)
    (fun i hg hng => absurd hg hng) (sane_of_invites_eq _ _ rfl)

theorem rules_rkc (cfg : Cfg) (s s' : State) (author rec : Nat) (rk : Rkc)
    (h : applyRkc cfg true s author rec rk true = .ok s') : StepRules s author s' := by
  unfold applyRkc at h
  simp only [Bool.true_and] at h
  repeat' (split at h <;> try contradiction)
  injection h with h; subst h
  have hm : canManageAccounts (s.perm author) = true := by
    cases hc : canManageAccounts (s.perm author) <;> simp_all
  exact rules_of_perm_unchanged _ _ _ (fun _ => rfl) (fun h => absurd rfl h) (fun _ _ _ => hm) (fun _ => hm)
    (fun i hg hng => absurd hg hng) (sane_of_invites_eq _ _ rfl)



/-- only the status (not the permission) of one existing account `k` changes; `k` is the author
itself or the author is a manager -/
theorem rules_of_status_change (s s' : State) (author k : Nat) (x y : Account)
    (hf : s.accounts.find? k = some x) (hy : y.perm = x.perm)
    (hacc : s'.accounts = s.accounts.insert k y) (hopts : s'.opts = s.opts)
    (hinv : s'.invites = s.invites)
    (hk : k = author ∨ canManageAccounts (s.perm author) = true) : StepRules s author s' := by
  have hp : ∀ b, s'.perm b = s.perm b := by
    intro b
    rw [perm_accounts_insert s k y b s' hacc]
    split
    · subst_vars; simp [State.perm, hf, hy]
    · rfl
  refine rules_of_perm_unchanged _ _ _ hp (fun h => absurd hopts h) ?_ (fun h => absurd hinv h)
    (fun i hg hng => absurd ((grantsAdmin_of_invites_eq s s' hinv i).1 hg) hng)
    (sane_of_invites_eq s s' hinv)
  intro a ha hne
  rcases hk with hk | hk
  · exact absurd (entry_accounts_insert s s' k y hacc a (hk ▸ ha)) hne
  · exact hk

/-- the author, who has no permission, (re)writes its own entry with no permission -/
theorem rules_of_self_insert_none (s s' : State) (author : Nat) (y : Account)
    (hn : s.perm author = permNone) (hy : y.perm = permNone)
    (hacc : s'.accounts = s.accounts.insert author y) (hopts : s'.opts = s.opts)
    (hinv : s'.invites = s.invites) : StepRules s author s' := by
  have hp : ∀ b, s'.perm b = s.perm b := by
    intro b
    rw [perm_accounts_insert s author y b s' hacc]
    split
    · subst_vars; simp [hn, hy]
    · rfl
  refine rules_of_perm_unchanged _ _ _ hp (fun h => absurd hopts h) ?_ (fun h => absurd hinv h)
    (fun i hg hng => absurd ((grantsAdmin_of_invites_eq s s' hinv i).1 hg) hng)
    (sane_of_invites_eq s s' hinv)
  intro a ha hne
  exact absurd (entry_accounts_insert s s' author y hacc a ha) hne

theorem rules_rjn (s s' : State) (author rec identity i sk sa : Nat) (big : Bool)
    (h : applyRequestJoin true s author rec identity i sk sa big = .ok s') : StepRules s author s' := by
  unfold applyRequestJoin at h
  simp only [if_true] at h
  split at h <;> try contradiction
  rename_i hv
  injection h with h; subst h
  unfold validateRequestJoin at hv
  repeat' (split at hv <;> try contradiction)
  have hn : s.perm author = permNone := by simp_all
  exact rules_of_self_insert_none s _ author _ hn rfl rfl rfl rfl

theorem rules_dec (s s' : State) (author rec rid : Nat)
    (h : applyRequestDecline true s author rec rid = .ok s') : StepRules s author s' := by
  unfold applyRequestDecline at h
  simp only [Bool.true_and, if_true] at h
  repeat' (split at h <;> try contradiction)
  injection h with h; subst h
  have hm : canManageAccounts (s.perm author) = true := by
    cases hc : canManageAccounts (s.perm author) <;> simp_all
  exact rules_of_status_change s _ author _ _ _ ‹_› (by rfl) rfl rfl rfl (Or.inr hm)

theorem rules_can (s s' : State) (author rec rid : Nat)
    (h : applyRequestCancel true s author rec rid = .ok s') : StepRules s author s' := by
  unfold applyRequestCancel at h
  simp only [Bool.true_and, if_true] at h
  repeat' (split at h <;> try contradiction)
  all_goals
    injection h with h; subst h
    refine rules_of_status_change s _ author _ _ _ ‹_› (by rfl) rfl rfl rfl (Or.inl ?_)
    simp_all

theorem rules_rrm (s s' : State) (author rec : Nat)
    (h : applyRequestRemove true s author rec = .ok s') : StepRules s author s' := by
  unfold applyRequestRemove at h
  simp only [Bool.true_and] at h
  repeat' (split at h <;> try contradiction)
  injection h with h; subst h
  exact rules_of_status_change s _ author _ _ _ ‹_› (by rfl) rfl rfl rfl (Or.inl rfl)

theorem rules_nop (s : State) (author : Nat) : StepRules s author s :=
  rules_of_perm_unchanged _ _ _ (fun _ => rfl) (fun h => absurd rfl h) (fun _ _ h => absurd rfl h)
    (fun h => absurd rfl h) (fun _ hg hng => absurd hg hng) (fun h => h)


theorem perm_of_find (s : State) (a : Nat) (x : Account) (h : s.accounts.find? a = some x) :
    s.perm a = x.perm := by simp [State.perm, h]

theorem rules_pc (cfg : Cfg) (s s' : State) (author rec t p : Nat)
    (h : applyPermissionChange cfg true s author rec t p = .ok s') : StepRules s author s' := by
  unfold applyPermissionChange at h
  simp only [Bool.true_and, if_true] at h
  repeat' (split at h <;> try contradiction)
  injection h with h; subst h
  have hm : canManageAccounts (s.perm author) = true := by
    cases hc : canManageAccounts (s.perm author) <;> simp_all
  have hpt := perm_of_find s t _ ‹_›
  refine rules_of_manager_change s _ author hm rfl rfl ?_
  intro b
  rw [perm_updatePermissions]
  by_cases hb : b = t
  · subst hb
    right
    simp only [if_true]
    have hma := (canManage_iff (s.perm author)).1 hm
    refine ⟨?_, ?_, ?_, ?_, ?_⟩
    · rintro rfl; rcases hma with h1 | h1 <;> simp_all [permAdmin, permOwner]
    · simp_all
    · simp_all
    · simp_all
    · rintro (h1 | h1) <;> simp_all
  · left; simp [hb]


theorem rules_acc (cfg : Cfg) (hfix : cfg.Fixed) (s s' : State) (author rec t rid p : Nat)
    (h : applyRequestAccept cfg true s author rec t rid p = .ok s') : StepRules s author s' := by
  obtain ⟨hf1, hf2, _⟩ := hfix
  unfold applyRequestAccept at h
  simp only [if_true] at h
  split at h <;> try contradiction
  rename_i hv
  unfold validateRequestAccept at hv
  simp only [hf1, hf2, Bool.true_and] at hv
  repeat' (split at hv <;> try contradiction)
  repeat' (split at h <;> try contradiction)
  injection h with h; subst h
  have hm : canManageAccounts (s.perm author) = true := by
    cases hc : canManageAccounts (s.perm author) <;> simp_all
  have hn : s.perm t = permNone := by simp_all
  refine rules_of_manager_change s _ author hm rfl rfl ?_
  intro b
  simp only [perm_dropRequest]
  rw [perm_accounts_insert s t _ b _ rfl]
  by_cases hb : b = t
  · subst hb
    right
    simp only [if_true]
    have hma := (canManage_iff (s.perm author)).1 hm
    refine ⟨?_, ?_, ?_, ?_, ?_⟩
    · rintro rfl; rcases hma with h1 | h1 <;> simp_all [permAdmin, permOwner, permNone]
    · simp_all [permOwner, permNone]
    · simp_all
    · simp_all [permGuest, permNone]
    · rintro (h1 | h1) <;> simp_all [permAdmin, permNone]
  · left; simp [hb]


theorem rules_own (cfg : Cfg) (hfix : cfg.Fixed) (s s' : State) (author rec n op : Nat)
    (h : applyOwnership cfg true s author rec n op = .ok s') : StepRules s author s' := by
  obtain ⟨_, _, hf3⟩ := hfix
  unfold applyOwnership at h
  simp only [Bool.true_and, hf3] at h
  repeat' (split at h <;> try contradiction)
  injection h with h; subst h
  have ho : s.perm author = permOwner := by simp_all
  have hm : canManageAccounts (s.perm author) = true := by rw [ho]; decide
  have hn1 : s.perm n ≠ permOwner := by simp_all
  have hn2 : s.perm n ≠ permGuest := by simp_all
  have hop : op ≠ permOwner := by simp_all
  have hna : n ≠ author := by rintro rfl; exact hn1 ho
  have hp : ∀ b, (updatePermissions (updatePermissions s author op rec) n permOwner rec).perm b
      = if b = n then permOwner else if b = author then op else s.perm b := by
    intro b; simp
  constructor
  · exact sane_of_invites_eq _ _ rfl
  · rintro ⟨o, ho', hu⟩
    refine ⟨n, by simp [hp], ?_⟩
    intro a ha
    rw [hp] at ha
    by_cases h1 : a = n
    · exact h1
    · simp only [h1, if_false] at ha
      by_cases h2 : a = author
      · simp only [h2, if_true] at ha; exact absurd ha hop
      · simp only [h2, if_false] at ha
        exact absurd ((hu a ha).trans (hu author ho).symm) h2
  · intro _ _; exact Or.inl ho
  · intro a ha hne
    rw [hp]
    have : a ≠ n := by rintro rfl; exact hn1 ha
    simp [this, hne, ha]
  · intro _ _; exact ho
  · intro h; exact absurd rfl h
  · intro _ _ _; exact hm
  · intro h; exact absurd rfl h
  · intro i hg hng; exact absurd hg hng
  · intro a ha
    rw [hp]
    have h1 : a ≠ n := by rintro rfl; exact hn2 ha
    have h2 : a ≠ author := by rintro rfl; rw [ho] at ha; cases ha
    simp [h1, h2, ha]
  · intro _ _ _; exact Or.inl hm
  · intro h; rw [hm] at h; cases h


theorem dropRequestOf_accounts (s : State) (x : Nat) : (dropRequestOf s x).accounts = s.accounts := by
  unfold dropRequestOf; split <;> rfl
theorem dropRequestOf_invites (s : State) (x : Nat) : (dropRequestOf s x).invites = s.invites := by
  unfold dropRequestOf; split <;> rfl
theorem dropRequestOf_opts (s : State) (x : Nat) : (dropRequestOf s x).opts = s.opts := by
  unfold dropRequestOf; split <;> rfl

theorem rules_ijn (s s' : State) (author rec t i p sk sa : Nat) (big hasRK : Bool)
    (hsane : InvitesSane s)
    (h : applyInviteJoin true s author rec t i p sk sa big hasRK = .ok s') : StepRules s author s' := by
  unfold applyInviteJoin at h
  simp only [if_true] at h
  split at h <;> try contradiction
  rename_i hv
  unfold validateInviteJoin at hv
  repeat' (split at hv <;> try contradiction)
  split at h <;> try contradiction
  injection h with h
  rename_i inv hfi _ _ _ _ _ _ _ _
  have hn : s.perm author = permNone := by simp_all
  have hta : t = author := by simp_all
  have htyp : inv.typ = itAnyoneCanJoin := by simp_all
  have hle : isLessOrEqual p inv.perm = true := by simp_all
  obtain ⟨hs1, hs2, hs3⟩ := hsane i inv hfi htyp
  subst hta
  -- the permission the joiner ends with
  have hacc : s'.accounts = s.accounts.insert t
      ⟨if isNone p then inv.perm else p, stActive, some s.curKey,
        admitHist s t (if isNone p then inv.perm else p) rec⟩ := by
    rw [← h, dropRequestOf_accounts]; simp [hfi]
  have hinv : s'.invites = s.invites := by rw [← h, dropRequestOf_invites]
  have hopts : s'.opts = s.opts := by rw [← h, dropRequestOf_opts]
  have hp : ∀ b, s'.perm b = if b = t then (if isNone p then inv.perm else p) else s.perm b :=
    fun b => perm_accounts_insert s t _ b s' hacc
  have hq : (if isNone p then inv.perm else p) ≠ permOwner := by
    split
    · exact hs1
    · intro hpo; subst hpo; revert hle; simp [isLessOrEqual, permOwner, permNone, permReader, permWriter, permAdmin]
  have hjoin : JoinsVia s s' t := by
    refine ⟨hn, i, inv, hfi, htyp, ?_⟩
    rw [hp t]; simp only [if_true]
    split
    · exact Or.inl rfl
    · exact Or.inr hle
  have hmf : canManageAccounts (s.perm t) = false := by rw [hn]; decide
  constructor
  · exact sane_of_invites_eq s s' hinv
  · apply oneOwner_of_perm_owner_iff
    intro b; rw [hp b]
    by_cases hb : b = t
    · subst hb; simp only [if_true]
      exact ⟨fun h => absurd h hq, fun h => by rw [hn] at h; cases h⟩
    · simp [hb]
  · intro a ha
    by_cases hb : a = t
    · subst hb; exact Or.inr ⟨rfl, hjoin⟩
    · rw [hp a, if_neg hb] at ha; exact absurd Iff.rfl ha
  · intro a ha hne; rw [hp a]; simp [hne, ha]
  · intro a ha
    by_cases hb : a = t
    · subst hb; rw [hp a, if_pos rfl] at ha
      exact absurd ⟨fun h => by rw [hn] at h; exact absurd h (by decide), fun h => absurd h hq⟩ ha
    · rw [hp a, if_neg hb] at ha; exact absurd Iff.rfl ha
  · intro h; exact absurd hopts h
  · intro a ha hne; exact absurd (entry_accounts_insert s s' t _ hacc a ha) hne
  · intro h; exact absurd hinv h
  · intro j hg hng; exact absurd ((grantsAdmin_of_invites_eq s s' hinv j).1 hg) hng
  · intro a ha
    have : a ≠ t := by rintro rfl; rw [hn] at ha; cases ha
    rw [hp a]; simp [this, ha]
  · intro a ha hne
    by_cases hb : a = t
    · subst hb; exact Or.inr ⟨rfl, hjoin⟩
    · rw [hp a] at hne; simp only [hb, if_false] at hne; exact absurd ha hne
  · intro _ hne; exact absurd hn hne


theorem validateAccountsAdd_none (s : State) (author : Nat) (l : List (Nat × Nat))
    (h : validateAccountsAdd s author l = none) :
    ∀ a p, (a, p) ∈ l → s.perm a = permNone ∧ p ≠ permOwner ∧ p ≠ permNone ∧
      (p = permAdmin → s.perm author = permOwner) := by
  induction l with
  | nil => intro a p hm; cases hm
  | cons hd t ih =>
    obtain ⟨a0, p0⟩ := hd
    unfold validateAccountsAdd at h
    repeat' (split at h <;> try contradiction)
    intro a p hm
    rcases List.mem_cons.1 hm with heq | hm
    · injection heq with h1 h2; subst h1; subst h2
      simp_all
    · exact ih h a p hm

theorem doAccountsAdd_spec (rec : Nat) (l : List (Nat × Nat)) : ∀ (s s' : State),
    doAccountsAdd s rec l = .ok s' →
    s'.opts = s.opts ∧ s'.invites = s.invites ∧
    ∀ b, s'.perm b = s.perm b ∨ ∃ p, (b, p) ∈ l ∧ s'.perm b = p := by
  induction l with
  | nil => intro s s' h; injection h with h; subst h; exact ⟨rfl, rfl, fun b => Or.inl rfl⟩
  | cons hd t ih =>
    obtain ⟨a0, p0⟩ := hd
    intro s s' h
    unfold doAccountsAdd at h
    split at h <;> try contradiction
    obtain ⟨h1, h2, h3⟩ := ih _ _ h
    refine ⟨h1, h2, ?_⟩
    intro b
    rcases h3 b with h4 | ⟨p, hm, hp⟩
    · rw [h4, perm_accounts_insert s a0 _ b _ rfl]
      by_cases hb : b = a0
      · subst hb; right; exact ⟨p0, List.mem_cons_self, by simp⟩
      · left; simp [hb]
    · right; exact ⟨p, List.mem_cons_of_mem _ hm, hp⟩

theorem rules_add (s s' : State) (author rec : Nat) (l : List (Nat × Nat))
    (h : applyAccountsAdd true s author rec l = .ok s') : StepRules s author s' := by
  unfold applyAccountsAdd at h
  simp only [Bool.true_and, if_true] at h
  split at h <;> try contradiction
  split at h <;> try contradiction
  rename_i hv
  have hm : canManageAccounts (s.perm author) = true := by
    cases hc : canManageAccounts (s.perm author) <;> simp_all
  have hval := validateAccountsAdd_none s author l hv
  obtain ⟨h1, h2, h3⟩ := doAccountsAdd_spec rec l s s' h
  refine rules_of_manager_change s s' author hm h1 h2 ?_
  intro b
  rcases h3 b with h4 | ⟨p, hmem, hp⟩
  · exact Or.inl h4
  · obtain ⟨v1, v2, v3, v4⟩ := hval b p hmem
    right
    have hma := (canManage_iff (s.perm author)).1 hm
    refine ⟨?_, ?_, ?_, ?_, ?_⟩
    · rintro rfl; rw [v1] at hma; rcases hma with h | h <;> cases h
    · rw [v1]; decide
    · rw [hp]; exact v2
    · intro hg; rw [v1] at hg; cases hg
    · rintro (hh | hh)
      · rw [v1] at hh; cases hh
      · rw [hp] at hh; exact v4 hh


theorem validateRemoveIds_none (s : State) (author : Nat) (l : List Nat) : ∀ (seen : List Nat),
    validateRemoveIds s author l seen = none →
    ∀ a, a ∈ l → a ≠ author ∧ s.perm a ≠ permNone ∧ s.perm a ≠ permOwner ∧
      (s.perm a = permAdmin → s.perm author = permOwner) := by
  induction l with
  | nil => intro _ _ a hm; cases hm
  | cons a0 t ih =>
    intro seen h
    unfold validateRemoveIds at h
    repeat' (split at h <;> try contradiction)
    intro a hm
    rcases List.mem_cons.1 hm with heq | hm
    · subst heq; simp_all
    · exact ih _ h a hm

theorem removeOne_spec (s s' : State) (rec a : Nat) (h : removeOne s rec a = .ok s') :
    s'.opts = s.opts ∧ s'.invites = s.invites ∧
    ∀ b, s'.perm b = if b = a then permNone else s.perm b := by
  unfold removeOne at h
  split at h <;> try contradiction
  split at h <;> try contradiction
  simp only at h
  split at h
  all_goals
    injection h with h; subst h
    refine ⟨rfl, rfl, fun b => ?_⟩
    first
      | (rw [perm_dropRequest, perm_accounts_insert s a _ b _ rfl])
      | (rw [perm_accounts_insert s a _ b _ rfl])

theorem doRemove_spec (rec : Nat) (l : List Nat) : ∀ (s s' : State),
    doRemove s rec l = .ok s' →
    s'.opts = s.opts ∧ s'.invites = s.invites ∧
    ∀ b, s'.perm b = s.perm b ∨ (b ∈ l ∧ s'.perm b = permNone) := by
  induction l with
  | nil => intro s s' h; injection h with h; subst h; exact ⟨rfl, rfl, fun b => Or.inl rfl⟩
  | cons a0 t ih =>
    intro s s' h
    unfold doRemove at h
    split at h <;> try contradiction
    rename_i s1 h1
    obtain ⟨r1, r2, r3⟩ := removeOne_spec s s1 rec a0 h1
    obtain ⟨q1, q2, q3⟩ := ih s1 s' h
    refine ⟨q1.trans r1, q2.trans r2, fun b => ?_⟩
    rcases q3 b with h4 | ⟨hm, hp⟩
    · rw [h4, r3 b]
      by_cases hb : b = a0
      · subst hb; right; exact ⟨List.mem_cons_self, by simp⟩
      · left; simp [hb]
    · right; exact ⟨List.mem_cons_of_mem _ hm, hp⟩

theorem applyRkc_spec (cfg : Cfg) (v : Bool) (s s' : State) (author rec : Nat) (rk : Rkc) (val : Bool)
    (h : applyRkc cfg v s author rec rk val = .ok s') :
    s'.accounts = s.accounts ∧ s'.opts = s.opts ∧ s'.invites = s.invites := by
  unfold applyRkc at h
  repeat' (split at h <;> try contradiction)
  injection h with h; subst h
  exact ⟨rfl, rfl, rfl⟩

theorem rules_rem (cfg : Cfg) (s s' : State) (author rec : Nat) (l : List Nat) (rk : Rkc)
    (h : applyAccountRemove cfg true s author rec l rk = .ok s') : StepRules s author s' := by
  unfold applyAccountRemove at h
  simp only [Bool.true_and, if_true] at h
  split at h <;> try contradiction
  split at h <;> try contradiction
  rename_i hv
  split at h <;> try contradiction
  split at h <;> try contradiction
  rename_i s1 hrem
  have hm : canManageAccounts (s.perm author) = true := by
    cases hc : canManageAccounts (s.perm author) <;> simp_all
  have hval := validateRemoveIds_none s author l [] hv
  obtain ⟨h1, h2, h3⟩ := doRemove_spec rec l s s1 hrem
  obtain ⟨k1, k2, k3⟩ := applyRkc_spec _ _ _ _ _ _ _ _ h
  refine rules_of_manager_change s s' author hm (k2.trans h1) (k3.trans h2) ?_
  intro b
  rw [perm_of_accounts_eq s1 s' k1 b]
  rcases h3 b with h4 | ⟨hmem, hp⟩
  · exact Or.inl h4
  · obtain ⟨v1, v2, v3, v4⟩ := hval b hmem
    right
    refine ⟨v1, v3, ?_, fun _ => hp, ?_⟩
    · rw [hp]; decide
    · rintro (hh | hh)
      · exact v4 hh
      · rw [hp] at hh; cases hh

/-! ### assembling -/

/-- `AclAccountPermissionChanges` is applied as the sequence of its `AclAccountPermissionChange`s -/
theorem pcs_eq_contents (cfg : Cfg) (v : Bool) (author rec : Nat) (l : List (Nat × Nat)) : ∀ s,
    applyPermissionChanges cfg v s author rec l
      = applyContents cfg v s author rec (l.map fun x => Content.pc x.1 x.2) := by
  induction l with
  | nil => intro s; rfl
  | cons hd t ih =>
    obtain ⟨a, p⟩ := hd
    intro s
    simp only [applyPermissionChanges, List.map_cons, applyContents, applyContent]
    cases applyPermissionChange cfg v s author rec a p with
    | error e => rfl
    | ok s1 => exact ih s1

/-- contents other than the list-of-permission-changes wrapper -/
def Content.atomic : Content → Bool
  | .pcs _ => false
  | _ => true

/-- every atomic content of an accepted record obeys the step rules -/
theorem step_rules (cfg : Cfg) (hfix : cfg.Fixed) (s s' : State) (author rec : Nat) (c : Content)
    (hc : c.atomic = true) (hs : InvitesSane s)
    (h : applyContent cfg true s author rec c = .ok s') : StepRules s author s' := by
  cases c with
  | pcs l => cases hc
  | pc a p => exact rules_pc cfg s s' author rec a p h
  | own a p => exact rules_own cfg hfix s s' author rec a p h
  | add l => exact rules_add s s' author rec l h
  | inv t p k hr => exact rules_inv s s' author rec t p k hr h
  | ich r p => exact rules_ich s s' author rec r p h
  | irv r => exact rules_irv s s' author rec r h
  | ijn a r p sk sa big hr => exact rules_ijn s s' author rec a r p sk sa big hr hs h
  | rjn a r sk sa big => exact rules_rjn s s' author rec a r sk sa big h
  | acc a r p => exact rules_acc cfg hfix s s' author rec a r p h
  | dec r => exact rules_dec s s' author rec r h
  | can r => exact rules_can s s' author rec r h
  | rem l rk => exact rules_rem cfg s s' author rec l rk h
  | rrm => exact rules_rrm s s' author rec h
  | rkc rk => exact rules_rkc cfg s s' author rec rk h
  | opt x => exact rules_opt s s' author rec x h
  | nop => simp only [applyContent] at h; injection h with h; subst h; exact rules_nop s author

end AnySync.Acl
