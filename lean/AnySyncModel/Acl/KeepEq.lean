/-
The strict fast path of the partial decode agrees with the generated decoders + filter whenever it
does not bail out (`fast_eq_full`). Ingredients: protowire's varint / tag / length readers agree
with the inlined varint loops of generated code on every input protowire accepts (`varint_agree`,
`tag_agree`, `bytes_agree`); a generic simulation between the index-based `for i < l` loops of the
fast path and the generated message loops (`loop_sim`); one instance per message level.
-/
import AnySyncModel.Acl.KeepLemmas

namespace AnySync.Acl.Keep

theorem pow7_succ (k : Nat) : 2 ^ (7 * (k + 1)) = 2 ^ (7 * k) * 128 := by
  rw [Nat.mul_add, Nat.pow_add]

theorem pow7_le (k : Nat) (hk : k ≤ 9) : 2 ^ (7 * k) ≤ 2 ^ 63 :=
  Nat.pow_le_pow_right (by omega) (by omega)

theorem varint_agree : ∀ (b : Bytes) (k acc v : Nat) (n : Int), k ≤ 9 → acc < 2 ^ (7 * k) →
    (∀ x ∈ b, x < 256) → pwVarintAux k b acc = (v, n) → 0 ≤ n →
    Vt.varintAux k b acc = some (v, b.drop (n.toNat - k)) := by
  intro b
  induction b with
  | nil => intro k acc v n hk hacc hb h hn; simp [pwVarintAux] at h; omega
  | cons x rest ih =>
    intro k acc v n hk hacc hb h hn
    have hx : x < 256 := hb x List.mem_cons_self
    have hrest : ∀ y ∈ rest, y < 256 := fun y hy => hb y (List.mem_cons_of_mem _ hy)
    have hP := pow7_le k hk
    simp only [pwVarintAux] at h
    simp only [Vt.varintAux]
    have hk10 : ¬ k ≥ 10 := by omega
    simp only [hk10, if_false]
    by_cases h9 : k ≥ 9
    · have hk9 : k = 9 := by omega
      subst hk9
      simp only [h9, if_true] at h
      by_cases hx2 : x < 2
      · simp only [hx2, if_true] at h
        injection h with h1 h2; subst h1; subst h2
        have hx128 : x < 128 := by omega
        have hmod : x % 128 = x := Nat.mod_eq_of_lt hx128
        have hlt : acc + x * 2 ^ 63 < Vt.two64 := by
          have : x * 2 ^ 63 ≤ 1 * 2 ^ 63 := Nat.mul_le_mul_right _ (by omega)
          simp only [Vt.two64]
          have e : (2:Nat) ^ 64 = 2 ^ 63 + 2 ^ 63 := by decide
          have hacc' : acc < 2 ^ 63 := hacc
          omega
        simp [hx128, hmod, Nat.mod_eq_of_lt hlt]
      · simp only [hx2, if_false] at h
        injection h with h1 h2; subst h2; omega
    · simp only [h9, if_false] at h
      have hP2 : 2 ^ (7 * k) * 128 ≤ 2 ^ 63 := by
        rw [← pow7_succ]; exact pow7_le (k + 1) (by omega)
      have e64 : Vt.two64 = 2 ^ 63 + 2 ^ 63 := by decide
      by_cases hx128 : x < 128
      · simp only [hx128, if_true] at h
        injection h with h1 h2; subst h1; subst h2
        have hmod : x % 128 = x := Nat.mod_eq_of_lt hx128
        have hmul : x * 2 ^ (7 * k) ≤ 127 * 2 ^ (7 * k) := Nat.mul_le_mul_right _ (by omega)
        have hlt : acc + x * 2 ^ (7 * k) < Vt.two64 := by omega
        have hd : ((k : Int) + 1).toNat - k = 1 := by omega
        simp [hx128, hmod, Nat.mod_eq_of_lt hlt, hd]
      · simp only [hx128, if_false] at h
        have hmod : x % 128 = x - 128 := by omega
        have hmul : (x - 128) * 2 ^ (7 * k) ≤ 127 * 2 ^ (7 * k) := Nat.mul_le_mul_right _ (by omega)
        have hlt : acc + (x - 128) * 2 ^ (7 * k) < Vt.two64 := by omega
        have hacc2 : acc + (x - 128) * 2 ^ (7 * k) < 2 ^ (7 * (k + 1)) := by rw [pow7_succ]; omega
        have hb2 := pwVarintAux_bounds rest (k + 1) _ v n (by omega) h hn
        have := ih (k + 1) _ v n (by omega) hacc2 hrest h hn
        simp only [hx128, if_false, hmod, Nat.mod_eq_of_lt hlt, this]
        have hd : n.toNat - k = (n.toNat - (k + 1)) + 1 := by omega
        rw [hd, List.drop_succ_cons]

theorem varint_agree0 (b : Bytes) (v : Nat) (n : Int) (hb : ∀ x ∈ b, x < 256)
    (h : pwVarint b = (v, n)) (hn : 0 ≤ n) : Vt.varint b = some (v, b.drop n.toNat) := by
  have := varint_agree b 0 0 v n (by omega) (by decide) hb h hn
  simpa [Vt.varint] using this

theorem tag_agree (b : Bytes) (num typ : Nat) (n : Int) (hb : ∀ x ∈ b, x < 256)
    (h : pwTag b = (num, typ, n)) (hn : 0 ≤ n) (h4 : typ ≠ 4) :
    Vt.tag b = some ((num : Int), typ, b.drop n.toNat) := by
  unfold pwTag at h
  generalize hv : pwVarint b = vn at h
  obtain ⟨v, n0⟩ := vn
  simp only at h
  split at h
  · injection h with _ h; injection h with _ h; omega
  · split at h
    · injection h with _ h; injection h with _ h; omega
    · split at h
      · injection h with _ h; injection h with _ h; omega
      · rename_i hn0 hmax hmin
        injection h with h1 h; injection h with h2 h3; subst h1; subst h2; subst h3
        have hva := varint_agree0 b v n0 hb hv (by omega)
        unfold Vt.tag
        simp only [hva]
        have hlt : v / 8 < 2147483648 := by simp only [maxInt32] at hmax; omega
        have hmod : v / 8 % 4294967296 = v / 8 := Nat.mod_eq_of_lt (by omega)
        simp only [hmod]
        have hge : ¬ (v / 8 ≥ 2147483648) := by omega
        simp only [hge, if_false, h4, if_false]
        have hpos : ¬ (Int.ofNat (v / 8) ≤ 0) := by
          have : (1 : Int) ≤ Int.ofNat (v / 8) := by
            have : 1 ≤ v / 8 := by omega
            exact Int.ofNat_le.2 this
          omega
        simp
        have : 1 ≤ v / 8 := by omega
        omega

theorem bytes_agree (b p : Bytes) (n : Int) (hb : ∀ x ∈ b, x < 256) (hlen : b.length < 2 ^ 63)
    (h : pwBytes b = (p, n)) (hn : 0 ≤ n) :
    Vt.lenDelimited b = some (p, b.drop n.toNat) := by
  unfold pwBytes at h
  generalize hv : pwVarint b = vn at h
  obtain ⟨m, n0⟩ := vn
  simp only at h
  split at h
  · injection h with _ h; omega
  · rename_i hn0
    have hva := varint_agree0 b m n0 hb hv (by omega)
    split at h
    · injection h with _ h; omega
    · rename_i hm
      injection h with h1 h2; subst h1; subst h2
      unfold Vt.lenDelimited
      simp only [hva]
      have hm' : m ≤ (b.drop n0.toNat).length := by omega
      have hm63 : ¬ (m ≥ Vt.two63) := by
        simp only [Vt.two63, List.length_drop] at *
        omega
      have hgt : ¬ (m > (b.drop n0.toNat).length) := by omega
      simp only [hm63, hgt, if_false]
      have : (n0 + (m : Int)).toNat = n0.toNat + m := by omega
      rw [this, ← List.drop_drop]

open Fast

theorem readTag_inv (d : Bytes) (i : Int) (h0 : 0 ≤ i) (h1 : i ≤ d.length) (f wt : Nat) (ni : Int)
    (h : readTag d i = .ok (f, wt, ni)) :
    ∃ n, pwTag (d.drop i.toNat) = (f, wt, n) ∧ 0 ≤ n ∧ ni = i + n ∧ wt ≠ 3 ∧ wt ≠ 4 := by
  unfold readTag at h
  rw [sliceFrom_some d i h0 h1] at h
  simp only at h
  generalize ht : pwTag (d.drop i.toNat) = t at h
  obtain ⟨num, typ, n⟩ := t
  simp only at h
  by_cases hc : n < 0 ∨ typ = 3 ∨ typ = 4
  · simp only [hc, if_true] at h; cases h
  · simp only [hc, if_false] at h
    injection h with h; injection h with e1 h; injection h with e2 e3
    subst e1; subst e2
    refine ⟨n, rfl, ?_, e3.symm, ?_, ?_⟩
    · by_cases hlt : n < 0
      · exact absurd (Or.inl hlt) hc
      · omega
    · intro h3; exact hc (Or.inr (Or.inl h3))
    · intro h4; exact hc (Or.inr (Or.inr h4))

theorem readBytes_inv (d : Bytes) (i : Int) (h0 : 0 ≤ i) (h1 : i ≤ d.length) (p : Bytes) (ni : Int)
    (h : readBytes d i = .ok (p, ni)) :
    ∃ n, pwBytes (d.drop i.toNat) = (p, n) ∧ 0 ≤ n ∧ ni = i + n := by
  unfold readBytes at h
  rw [sliceFrom_some d i h0 h1] at h
  simp only at h
  generalize ht : pwBytes (d.drop i.toNat) = t at h
  obtain ⟨p0, n⟩ := t
  simp only at h
  by_cases hc : n < 0
  · simp only [hc, if_true] at h; cases h
  · simp only [hc, if_false] at h
    injection h with h; injection h with e1 e2
    subst e1
    exact ⟨n, rfl, by omega, e2.symm⟩

theorem drop_drop_int (d : Bytes) (i n : Int) (h0 : 0 ≤ i) (hn : 0 ≤ n) :
    (d.drop i.toNat).drop n.toNat = d.drop (i + n).toNat := by
  rw [List.drop_drop]; congr 1; omega

theorem mem_drop_lt (d : Bytes) (hd : ∀ x ∈ d, x < 256) (k : Nat) : ∀ x ∈ d.drop k, x < 256 :=
  fun x hx => hd x (List.mem_of_mem_drop hx)

theorem loop_sim {σ τ : Type} (stepF : Nat → Bytes → σ → Res σ) (known : Int → Bool)
    (stepV : Int → Bytes → τ → Option τ) (R : σ → τ → Prop) (d : Bytes)
    (hd : ∀ x ∈ d, x < 256) (hlen : d.length < 2 ^ 63)
    (hsim : ∀ (f : Nat) body s s' t, R s t → stepF f body s = .ok s' →
      (∀ x ∈ body, x < 256) → body.length < 2 ^ 63 →
      known (f : Int) = true ∧ ∃ t', stepV (f : Int) body t = some t' ∧ R s' t') :
    ∀ (fuel : Nat) (i : Int) (s s' : σ) (t : τ) (fuel2 : Nat), 0 ≤ i → i ≤ d.length →
      (d.drop i.toNat).length < fuel2 → R s t →
      fieldLoop stepF d fuel i s = .ok s' →
      ∃ t', Vt.msgLoop known stepV fuel2 (d.drop i.toNat) t = some t' ∧ R s' t' := by
  intro fuel
  induction fuel with
  | zero => intro i s s' t fuel2 _ _ _ _ h; simp [fieldLoop] at h
  | succ fuel ih =>
    intro i s s' t fuel2 h0 h1 hf hR h
    have hlenI := drop_len d i h0 h1
    obtain ⟨f2, rfl⟩ : ∃ f2, fuel2 = f2 + 1 := ⟨fuel2 - 1, by omega⟩
    unfold fieldLoop at h
    by_cases hi : i < d.length
    · simp only [hi, not_true_eq_false, if_false] at h
      have hne : (d.drop i.toNat).isEmpty = false := by
        cases hdd : d.drop i.toNat with
        | nil => rw [hdd] at hlenI; simp at hlenI; omega
        | cons _ _ => rfl
      split at h <;> try contradiction
      rename_i f wt ni hrt
      obtain ⟨n, hpt, hn, hni, hw3, hw4⟩ := readTag_inv d i h0 h1 f wt ni hrt
      have ⟨g1, g2⟩ := (readTag_spec d i h0 h1).2 f wt ni hrt
      by_cases hwt : wt ≠ 2
      · rw [if_pos hwt] at h; cases h
      · have hwt2 : wt = 2 := by omega
        subst hwt2
        rw [if_neg (by decide : ¬ (2 ≠ 2))] at h
        split at h <;> try contradiction
        rename_i body ni2 hrb
        obtain ⟨n2, hpb, hn2, hni2⟩ := readBytes_inv d ni (by omega) g2 body ni2 hrb
        have ⟨k1, k2⟩ := (readBytes_spec d ni (by omega) g2).2 body ni2 hrb
        have htag := tag_agree (d.drop i.toNat) f 2 n (mem_drop_lt d hd _) hpt hn (by decide)
        rw [drop_drop_int d i n h0 hn, ← hni] at htag
        have hlb : (d.drop ni.toNat).length < 2 ^ 63 := by
          simp only [List.length_drop]; omega
        have hbytes := bytes_agree (d.drop ni.toNat) body n2 (mem_drop_lt d hd _) hlb hpb hn2
        rw [drop_drop_int d ni n2 (by omega) hn2, ← hni2] at hbytes
        have hbody : (∀ x ∈ body, x < 256) ∧ body.length < 2 ^ 63 := by
          unfold pwBytes at hpb
          generalize pwVarint (d.drop ni.toNat) = vn at hpb
          obtain ⟨m, n0⟩ := vn
          simp only at hpb
          split at hpb
          · injection hpb with _ e; omega
          · split at hpb
            · injection hpb with _ e; omega
            · injection hpb with e _
              subst e
              refine ⟨fun x hx => hd x (List.mem_of_mem_drop (List.mem_of_mem_drop (List.mem_of_mem_take hx))), ?_⟩
              have : ((d.drop ni.toNat).drop n0.toNat).length ≤ d.length := by
                simp only [List.length_drop]; omega
              have := List.length_take_le m ((d.drop ni.toNat).drop n0.toNat)
              omega
        split at h
        · rename_i st' hst
          obtain ⟨hk, t1, hv1, hR1⟩ := hsim f body s st' t hR hst hbody.1 hbody.2
          have hlen2 := drop_len d ni2 (by omega) k2
          have := ih ni2 st' s' t1 f2 (by omega) k2 (by omega) hR1 h
          obtain ⟨t', ht', hR'⟩ := this
          refine ⟨t', ?_, hR'⟩
          simp only [Vt.msgLoop, hne, Bool.false_eq_true, if_false, htag, hk, if_true, ne_eq,
            not_true_eq_false, hbytes, hv1, ht']
        · rename_i r hne2
          exfalso
          cases hr : stepF f body s with
          | ok a => exact hne2 a hr
          | bail => rw [hr] at h; cases h
          | panic => rw [hr] at h; cases h
          | hang => rw [hr] at h; cases h
    · simp only [hi, not_false_eq_true, if_true] at h
      injection h with h; subst h
      have : d.drop i.toNat = [] := by
        apply List.eq_nil_of_length_eq_zero
        have : i = d.length := by omega
        omega
      refine ⟨t, ?_, hR⟩
      simp [Vt.msgLoop, this]

theorem run_sim {σ τ : Type} (stepF : Nat → Bytes → σ → Res σ) (known : Int → Bool)
    (stepV : Int → Bytes → τ → Option τ) (R : σ → τ → Prop) (d : Bytes)
    (hd : ∀ x ∈ d, x < 256) (hlen : d.length < 2 ^ 63)
    (hsim : ∀ (f : Nat) body s s' t, R s t → stepF f body s = .ok s' →
      (∀ x ∈ body, x < 256) → body.length < 2 ^ 63 →
      known (f : Int) = true ∧ ∃ t', stepV (f : Int) body t = some t' ∧ R s' t')
    (s s' : σ) (t : τ) (hR : R s t) (h : runLoop stepF d s = .ok s') :
    ∃ t', Vt.runMsg known stepV d t = some t' ∧ R s' t' := by
  have := loop_sim stepF known stepV R d hd hlen hsim (d.length + 1) 0 s s' t (d.length + 1)
    (by omega) (by omega) (by simp) hR h
  simpa [Vt.runMsg] using this

/-- the strict element check agrees with the generated element decoder -/
theorem erk_agree (isOurs : Bytes → Bool) (elem : Bytes) (b : Bool)
    (hd : ∀ x ∈ elem, x < 256) (hlen : elem.length < 2 ^ 63)
    (h : erkMatches isOurs elem = .ok b) :
    ∃ e, Vt.decodeERK elem = some e ∧ isOurs e.identity = b := by
  unfold erkMatches at h
  split at h <;> try contradiction
  rename_i st hst
  injection h with h
  have := run_sim erkStep (fun f => f = 1 || f = 2)
    (fun f body (e : ERK) => some (if f = 1 then { e with identity := body } else { e with key := body }))
    (fun s e => e.identity = s.1) elem hd hlen
    (by
      intro f body s s' t hR hs _ _
      unfold erkStep at hs
      by_cases h1 : f = 1
      · subst h1
        simp only [if_true] at hs
        split at hs <;> try contradiction
        injection hs with hs; subst hs
        exact ⟨by decide, _, rfl, by simp⟩
      · by_cases h2 : f = 2
        · subst h2
          simp only [h1, if_false, if_true] at hs
          split at hs <;> try contradiction
          injection hs with hs; subst hs
          exact ⟨by decide, _, rfl, by simpa using hR⟩
        · simp only [h1, h2, if_false] at hs; cases hs)
    ([], false, false) st ⟨[], []⟩ rfl hst
  obtain ⟨e, he, hR⟩ := this
  exact ⟨e, he, by rw [hR]; exact h⟩

/-- the step function of the generated `AclReadKeyChange.UnmarshalVT` -/
def vtRkcStep (f : Int) (body : Bytes) (k : RKC) : Option RKC :=
  if f = 1 then (Vt.decodeERK body).map fun e => { k with accountKeys := k.accountKeys ++ [e] }
  else if f = 2 then some { k with mdPub := body }
  else if f = 3 then some { k with encMeta := body }
  else if f = 4 then some { k with encOld := body }
  else (Vt.decodeERK body).map fun e => { k with inviteKeys := k.inviteKeys ++ [e] }

theorem decodeRKCOnto_eq (k0 : RKC) (b : Bytes) :
    Vt.decodeRKCOnto k0 b = Vt.runMsg (fun f => f = 1 || f = 2 || f = 3 || f = 4 || f = 5) vtRkcStep b k0 := rfl

theorem filter_append_one (isOurs : Bytes → Bool) (l : List ERK) (e : ERK) :
    (l ++ [e]).filter (fun x => isOurs x.identity) =
      l.filter (fun x => isOurs x.identity) ++ (if isOurs e.identity then [e] else []) := by
  simp [List.filter_append, List.filter_cons]

theorem rkc_agree (isOurs : Bytes → Bool) (d : Bytes) (out : RKC)
    (hd : ∀ x ∈ d, x < 256) (hlen : d.length < 2 ^ 63)
    (h : keepRkc Vt.decodeERK isOurs d = .ok out) :
    ∃ k, Vt.decodeRKCOnto RKC.empty d = some k ∧ out = filterRKC isOurs k := by
  unfold keepRkc at h
  split at h <;> try contradiction
  rename_i st hst
  injection h with h
  rw [decodeRKCOnto_eq]
  have := run_sim (rkcStep Vt.decodeERK isOurs) (fun f => f = 1 || f = 2 || f = 3 || f = 4 || f = 5)
    vtRkcStep (fun s k => s.1 = filterRKC isOurs k) d hd hlen
    (by
      intro f body s s' t hR hs hb hbl
      obtain ⟨o, sm, se, so⟩ := s
      simp only at hR
      unfold rkcStep at hs
      simp only at hs
      by_cases h1 : f = 1
      · subst h1
        simp only [if_true] at hs
        refine ⟨by decide, ?_⟩
        cases hm : erkMatches isOurs body with
        | ok b =>
          obtain ⟨e, he, hb'⟩ := erk_agree isOurs body b hb hbl hm
          rw [hm] at hs
          cases b with
          | true =>
            simp only [he] at hs
            injection hs with hs; subst hs
            refine ⟨{ t with accountKeys := t.accountKeys ++ [e] }, by simp [vtRkcStep, he], ?_⟩
            subst hR
            simp [filterRKC, filter_append_one, hb']
          | false =>
            simp only at hs
            injection hs with hs; subst hs
            refine ⟨{ t with accountKeys := t.accountKeys ++ [e] }, by simp [vtRkcStep, he], ?_⟩
            subst hR
            simp [filterRKC, filter_append_one, hb']
        | bail => rw [hm] at hs; cases hs
        | panic => rw [hm] at hs; cases hs
        | hang => rw [hm] at hs; cases hs
      · simp only [h1, if_false] at hs
        by_cases h2 : f = 2
        · subst h2
          simp only [if_true] at hs
          split at hs <;> try contradiction
          injection hs with hs; subst hs
          exact ⟨by decide, { t with mdPub := body }, by simp [vtRkcStep], by subst hR; simp [filterRKC]⟩
        · simp only [h2, if_false] at hs
          by_cases h3 : f = 3
          · subst h3
            simp only [if_true] at hs
            split at hs <;> try contradiction
            injection hs with hs; subst hs
            exact ⟨by decide, { t with encMeta := body }, by simp [vtRkcStep], by subst hR; simp [filterRKC]⟩
          · simp only [h3, if_false] at hs
            by_cases h4 : f = 4
            · subst h4
              simp only [if_true] at hs
              split at hs <;> try contradiction
              injection hs with hs; subst hs
              exact ⟨by decide, { t with encOld := body }, by simp [vtRkcStep], by subst hR; simp [filterRKC]⟩
            · simp only [h4, if_false] at hs
              by_cases h5 : f = 5
              · subst h5
                simp only [if_true] at hs
                cases hdec : Vt.decodeERK body with
                | none => rw [hdec] at hs; cases hs
                | some ek =>
                  rw [hdec] at hs
                  injection hs with hs; subst hs
                  exact ⟨by decide, { t with inviteKeys := t.inviteKeys ++ [ek] }, by simp [vtRkcStep, hdec],
                    by subst hR; simp [filterRKC]⟩
              · simp only [h5, if_false] at hs; cases hs)
    (RKC.empty, false, false, false) st RKC.empty rfl hst
  obtain ⟨k, hk, hR⟩ := this
  exact ⟨k, hk, by rw [← h]; exact hR⟩

def vtRemStep (f : Int) (body : Bytes) (st : List Bytes × Option RKC) : Option (List Bytes × Option RKC) :=
  if f = 1 then some (st.1 ++ [body], st.2)
  else (Vt.decodeRKCOnto (st.2.getD RKC.empty) body).map fun k => (st.1, some k)

theorem decodeRemOnto_eq (st0 : List Bytes × Option RKC) (b : Bytes) :
    Vt.decodeRemOnto st0 b = Vt.runMsg (fun f => f = 1 || f = 2) vtRemStep b st0 := rfl

theorem rem_agree (isOurs : Bytes → Bool) (d : Bytes) (c : Cnt)
    (hd : ∀ x ∈ d, x < 256) (hlen : d.length < 2 ^ 63)
    (h : keepRem Vt.decodeERK isOurs d = .ok c) :
    ∃ st, Vt.decodeRemOnto ([], none) d = some st ∧ c = filterCnt isOurs (.rem st.1 st.2) := by
  unfold keepRem at h
  split at h <;> try contradiction
  rename_i st hst
  injection h with h
  rw [decodeRemOnto_eq]
  have := run_sim (remStep Vt.decodeERK isOurs) (fun f => f = 1 || f = 2) vtRemStep
    (fun s t => s.1 = t.1 ∧ s.2.1 = t.2.map (filterRKC isOurs) ∧ (s.2.2 = false → t.2 = none)) d hd hlen
    (by
      intro f body s s' t hR hs hb hbl
      obtain ⟨ids, ok, seen⟩ := s
      obtain ⟨tids, tk⟩ := t
      simp only at hR
      obtain ⟨r1, r2, r3⟩ := hR
      unfold remStep at hs
      simp only at hs
      by_cases h1 : f = 1
      · subst h1
        simp only [if_true] at hs
        injection hs with hs; subst hs
        exact ⟨by decide, (tids ++ [body], tk), by simp [vtRemStep], by simp [r1, r2], r2, r3⟩
      · simp only [h1, if_false] at hs
        by_cases h2 : f = 2
        · subst h2
          simp only [if_true] at hs
          cases seen with
          | true => simp at hs
          | false =>
            simp only [Bool.false_eq_true, if_false] at hs
            have htk : tk = none := r3 rfl
            subst htk
            cases hk : keepRkc Vt.decodeERK isOurs body with
            | ok k =>
              rw [hk] at hs
              injection hs with hs; subst hs
              obtain ⟨k', hk', hf⟩ := rkc_agree isOurs body k hb hbl hk
              refine ⟨by decide, (tids, some k'), by simp [vtRemStep, hk'], r1, by simp [hf], by simp⟩
            | bail => rw [hk] at hs; cases hs
            | panic => rw [hk] at hs; cases hs
            | hang => rw [hk] at hs; cases hs
        · simp only [h2, if_false] at hs; cases hs)
    ([], none, false) st ([], none) ⟨rfl, rfl, fun _ => rfl⟩ hst
  obtain ⟨t, ht, r1, r2, _⟩ := this
  refine ⟨t, ht, ?_⟩
  rw [← h]
  obtain ⟨tids, tk⟩ := t
  obtain ⟨ids, ok, seen⟩ := st
  simp only at r1 r2
  subst r1; subst r2
  cases tk <;> rfl

def vtCntStep (other : Int → Bytes → Bool) (f : Int) (body : Bytes) (c : Cnt) : Option Cnt :=
  if f = 7 then
    (match c with
     | .rkc k => (Vt.decodeRKCOnto k body).map .rkc
     | _ => (Vt.decodeRKCOnto RKC.empty body).map .rkc)
  else if f = 6 then
    (match c with
     | .rem ids k => (Vt.decodeRemOnto (ids, k) body).map fun st => .rem st.1 st.2
     | _ => (Vt.decodeRemOnto ([], none) body).map fun st => .rem st.1 st.2)
  else if other f body then some .other else none

theorem decodeContent_eq (other : Int → Bytes → Bool) (b : Bytes) :
    Vt.decodeContent other b = Vt.runMsg (fun f => decide (1 ≤ f ∧ f ≤ 16)) (vtCntStep other) b .other := rfl

/-- `keepContentValue` seen as a one-iteration field loop: its success means the buffer is exactly
one length-delimited field 6 or 7 -/
theorem content_agree (other : Int → Bytes → Bool) (isOurs : Bytes → Bool) (cv : Bytes) (c : Cnt)
    (hd : ∀ x ∈ cv, x < 256) (hlen : cv.length < 2 ^ 63)
    (h : keepContent Vt.decodeERK isOurs cv = .ok c) :
    ∃ c', Vt.decodeContent other cv = some c' ∧ c = filterCnt isOurs c' := by
  unfold keepContent at h
  split at h <;> try contradiction
  rename_i f wt ni hrt
  obtain ⟨n, hpt, hn, hni, _, _⟩ := readTag_inv cv 0 (by omega) (by omega) f wt ni hrt
  have ⟨g1, g2⟩ := (readTag_spec cv 0 (by omega) (by omega)).2 f wt ni hrt
  by_cases hwt : wt ≠ 2
  · rw [if_pos hwt] at h; cases h
  · have hwt2 : wt = 2 := by omega
    subst hwt2
    rw [if_neg (by decide : ¬ (2 ≠ 2))] at h
    split at h <;> try contradiction
    rename_i body next hrb
    obtain ⟨n2, hpb, hn2, hni2⟩ := readBytes_inv cv ni (by omega) g2 body next hrb
    by_cases hnx : next ≠ cv.length
    · rw [if_pos hnx] at h; cases h
    · rw [if_neg hnx] at h
      have hnext : next = cv.length := by omega
      have htag := tag_agree cv f 2 n hd (by simpa using hpt) hn (by decide)
      have hni' : ni = n := by omega
      have hlb : (cv.drop ni.toNat).length < 2 ^ 63 := by simp only [List.length_drop]; omega
      have hbytes := bytes_agree (cv.drop ni.toNat) body n2 (mem_drop_lt cv hd _) hlb hpb hn2
      rw [drop_drop_int cv ni n2 (by omega) hn2, ← hni2, hnext] at hbytes
      have hnil : cv.drop (cv.length : Int).toNat = [] := by simp
      rw [hnil] at hbytes
      have hbody : (∀ x ∈ body, x < 256) ∧ body.length < 2 ^ 63 := by
        unfold pwBytes at hpb
        generalize pwVarint (cv.drop ni.toNat) = vn at hpb
        obtain ⟨m, n0⟩ := vn
        simp only at hpb
        split at hpb
        · injection hpb with _ e; omega
        · split at hpb
          · injection hpb with _ e; omega
          · injection hpb with e _
            subst e
            refine ⟨fun x hx => hd x (List.mem_of_mem_drop (List.mem_of_mem_drop (List.mem_of_mem_take hx))), ?_⟩
            have : ((cv.drop ni.toNat).drop n0.toNat).length ≤ cv.length := by
              simp only [List.length_drop]; omega
            have := List.length_take_le m ((cv.drop ni.toNat).drop n0.toNat)
            omega
      have hne : cv.isEmpty = false := by
        cases hcv : cv with
        | nil => rw [hcv] at g2; simp at g2; omega
        | cons _ _ => rfl
      rw [decodeContent_eq]
      -- one iteration of the generated loop, then the empty rest
      have hloop : ∀ c', vtCntStep other (f : Int) body .other = some c' →
          (1 ≤ (f : Int) ∧ (f : Int) ≤ 16) →
          Vt.runMsg (fun f => decide (1 ≤ f ∧ f ≤ 16)) (vtCntStep other) cv .other = some c' := by
        intro c' hstep hk
        have hni0 : n.toNat = ni.toNat := by omega
        simp only [Vt.runMsg, Vt.msgLoop, hne, Bool.false_eq_true, if_false, htag, hk, decide_true,
          if_true, ne_eq, not_true_eq_false, hni0, hbytes, hstep]
        cases hl : cv.length with
        | zero => rw [hl] at g2; simp at g2; omega
        | succ m => simp [Vt.msgLoop]
      by_cases h7 : f = 7
      · subst h7
        simp only [if_true] at h
        cases hk : keepRkc Vt.decodeERK isOurs body with
        | ok k =>
          rw [hk] at h; injection h with h; subst h
          obtain ⟨k', hk', hf⟩ := rkc_agree isOurs body k hbody.1 hbody.2 hk
          refine ⟨.rkc k', hloop _ (by simp [vtCntStep, hk']) (by decide), by simp [filterCnt, hf]⟩
        | bail => rw [hk] at h; cases h
        | panic => rw [hk] at h; cases h
        | hang => rw [hk] at h; cases h
      · simp only [h7, if_false] at h
        by_cases h6 : f = 6
        · subst h6
          simp only [if_true] at h
          obtain ⟨st, hst, hf⟩ := rem_agree isOurs body c hbody.1 hbody.2 h
          exact ⟨.rem st.1 st.2, hloop _ (by simp [vtCntStep, hst]) (by decide), hf⟩
        · simp only [h6, if_false] at h; cases h

def vtTopStep (other : Int → Bytes → Bool) (_ : Int) (body : Bytes) (l : List Cnt) : Option (List Cnt) :=
  (Vt.decodeContent other body).map fun c => l ++ [c]

theorem decodeData_eq (other : Int → Bytes → Bool) (b : Bytes) :
    Vt.decodeData other b = Vt.runMsg (fun f => f = 1) (vtTopStep other) b [] := rfl

/-- whenever the strict fast path does not bail out, the generated decoders followed by
`filterAccountKeys` succeed with the same message -/
theorem fast_eq_full (other : Int → Bytes → Bool) (isOurs : Bytes → Bool) (d : Bytes) (out : List Cnt)
    (hd : ∀ x ∈ d, x < 256) (hlen : d.length < 2 ^ 63)
    (h : fast isOurs d = .ok out) : fullDecodeFilter other isOurs d = some out := by
  unfold fast keepIdentityFast at h
  unfold fullDecodeFilter
  rw [decodeData_eq]
  have := run_sim (topStep Vt.decodeERK isOurs) (fun f => f = 1) (vtTopStep other)
    (fun l l' => l = l'.map (filterCnt isOurs)) d hd hlen
    (by
      intro f body s s' t hR hs hb hbl
      unfold topStep at hs
      by_cases h1 : f ≠ 1
      · rw [if_pos h1] at hs; cases hs
      · rw [if_neg h1] at hs
        have hf : f = 1 := by omega
        subst hf
        cases hk : keepContent Vt.decodeERK isOurs body with
        | ok c =>
          rw [hk] at hs; injection hs with hs; subst hs
          obtain ⟨c', hc', hf'⟩ := content_agree other isOurs body c hb hbl hk
          exact ⟨by decide, t ++ [c'], by simp [vtTopStep, hc'], by simp [hR, hf']⟩
        | bail => rw [hk] at hs; cases hs
        | panic => rw [hk] at hs; cases hs
        | hang => rw [hk] at hs; cases hs)
    [] out [] rfl h
  obtain ⟨t, ht, hR⟩ := this
  simp [ht, hR]
end AnySync.Acl.Keep
