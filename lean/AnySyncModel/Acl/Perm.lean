/-
`AclPermissions` and its predicates (`commonspace/object/acl/list/models.go`), over the wire value
(`aclrecordproto.AclUserPermissions`) as a `Nat` so that out-of-enum values are representable.
The definitions themselves are regenerated from the Go source by the extractor
(`Generated/AclPerm.lean`); this file only re-exports them under the model's namespace.
-/
import AnySyncModel.Generated.AclPerm

namespace AnySync.Acl
export Generated.AclPerm (permNone permOwner permAdmin permWriter permReader permGuest
  isNone isOwner isGuest isAdmin canWrite canManageAccounts canRequestRemove isLessOrEqual)
end AnySync.Acl
