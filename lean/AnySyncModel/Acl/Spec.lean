/-
Specification vocabulary for the ACL privilege rules (C04) and the log (C03): predicates over a
transition `(s, author, s')` of the model. Nothing here refers to how a transition is computed.
-/
import AnySyncModel.Acl.State

namespace AnySync.Acl

/-- exactly one account holds the Owner permission -/
def OneOwner (s : State) : Prop :=
  ∃ o, s.perm o = permOwner ∧ ∀ a, s.perm a = permOwner → a = o

/-- what the privilege rules observe of an account: (permission, status); `none` = no entry -/
def State.entry (s : State) (a : Nat) : Option (Nat × Nat) :=
  (s.accounts.find? a).map fun x => (x.perm, x.status)

/-- account `a` had no permission and ends with at most the permission of a live
AnyoneCanJoin invite of the pre-state -/
def JoinsVia (s s' : State) (a : Nat) : Prop :=
  s.perm a = permNone ∧
  ∃ i inv, s.invites.find? i = some inv ∧ inv.typ = itAnyoneCanJoin ∧
    (s'.perm a = inv.perm ∨ isLessOrEqual (s'.perm a) inv.perm = true)

/-- state invariant: an AnyoneCanJoin invite never carries Owner, None or Guest
(`ValidateInvite` / `ValidateInviteChange` refuse them); needed because a join with permission
None takes the invite's permission verbatim -/
def InvitesSane (s : State) : Prop :=
  ∀ i inv, s.invites.find? i = some inv → inv.typ = itAnyoneCanJoin →
    inv.perm ≠ permOwner ∧ inv.perm ≠ permNone ∧ inv.perm ≠ permGuest

/-- the repairs F-acl-accept-remove, F-acl-accept-stale-join and F-acl-owner-guest are present -/
def Cfg.Fixed (cfg : Cfg) : Prop :=
  cfg.acceptRequiresJoin = true ∧ cfg.acceptRequiresNoPerm = true ∧ cfg.ownerNotGuest = true

/-- invite `i` grants Admin to whoever joins through it -/
def GrantsAdmin (s : State) (i : Nat) : Prop :=
  ∃ inv, s.invites.find? i = some inv ∧ inv.typ = itAnyoneCanJoin ∧ inv.perm = permAdmin

/-- The privilege rules of C04 for one transition `s → s'` caused by `author`
(one content of a record; `author`'s permission is read in `s`). -/
structure StepRules (s : State) (author : Nat) (s' : State) : Prop where
  /-- the invite invariant is preserved -/
  sane : InvitesSane s → InvitesSane s'
  /-- exactly one owner is preserved -/
  one_owner : OneOwner s → OneOwner s'
  /-- the Admin role of any account changes only by the owner's hand — or by the account itself
  joining through a live invite that grants Admin (such invites are owner-made: `admin_invite`) -/
  admin : ∀ a, ¬(s.perm a = permAdmin ↔ s'.perm a = permAdmin) →
    s.perm author = permOwner ∨ (a = author ∧ JoinsVia s s' a)
  /-- nobody but the owner itself changes the owner's permission -/
  owner_untouchable : ∀ a, s.perm a = permOwner → a ≠ author → s'.perm a = permOwner
  /-- the Owner role moves only by the owner's hand -/
  transfer : ∀ a, ¬(s.perm a = permOwner ↔ s'.perm a = permOwner) → s.perm author = permOwner
  /-- space options change only by the owner's hand -/
  options : s'.opts ≠ s.opts → s.perm author = permOwner
  /-- another account's entry (permission, status, existence) changes only by a manager's hand -/
  membership : ∀ a, a ≠ author → s'.entry a ≠ s.entry a → canManageAccounts (s.perm author) = true
  /-- invites are created / changed / revoked only by managers -/
  invites : s'.invites ≠ s.invites → canManageAccounts (s.perm author) = true
  /-- an invite starts granting Admin only by the owner's hand -/
  admin_invite : ∀ i, GrantsAdmin s' i → ¬ GrantsAdmin s i → s.perm author = permOwner
  /-- a guest is never re-permissioned, only removed -/
  guest : ∀ a, s.perm a = permGuest → s'.perm a = permGuest ∨ s'.perm a = permNone
  /-- an account without permission gains one only by a manager's record or by joining itself
  through a live AnyoneCanJoin invite with at most the invite's permission -/
  outsider : ∀ a, s.perm a = permNone → s'.perm a ≠ permNone →
    canManageAccounts (s.perm author) = true ∨ (a = author ∧ JoinsVia s s' a)
  /-- an ordinary member never changes its own permission -/
  self_perm : canManageAccounts (s.perm author) = false → s.perm author ≠ permNone →
    s'.perm author = s.perm author

end AnySync.Acl
