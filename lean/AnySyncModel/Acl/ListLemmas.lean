/-
Lemmas about the list container (`Acl/List.lean`) and about validating vs non-validating
application of the same record.
-/
import AnySyncModel.Acl.List
import AnySyncModel.Acl.Lemmas

namespace AnySync.Acl

/-- the list is what its log says: state = fold of `ApplyRecord` over the accepted records from
the root state, storage holds exactly the accepted ids, the head is the last id -/
structure Consistent (cfg : Cfg) (m : Mode) (root : State) (l : AclList) : Prop where
  fold   : replay cfg m.validate root l.log = some l.state
  stored : l.stored = l.ids
  idsLog : l.ids = 0 :: l.log.map (·.1)

theorem replay_append (cfg : Cfg) (v : Bool) (l1 l2 : List (Nat × Record)) : ∀ s,
    replay cfg v s (l1 ++ l2) = (replay cfg v s l1).bind fun s1 => replay cfg v s1 l2 := by
  induction l1 with
  | nil => intro s; rfl
  | cons hd t ih =>
    obtain ⟨id, r⟩ := hd
    intro s
    simp only [List.cons_append, replay]
    cases applyRecord cfg v s id r with
    | error e => rfl
    | ok s1 => exact ih s1

theorem addRaw_cases (cfg : Cfg) (lc : LCfg) (m : Mode) (ok : Bool) (l : AclList) (raw : Raw) :
    (∃ e, addRaw cfg lc m ok l raw = (l, some e)) ∨
    (∃ s', applyRecord cfg m.validate l.state raw.id raw.body = .ok s' ∧ raw.id ∉ l.ids ∧
      unmarshal m raw = none ∧
      ((ok = true ∧ addRaw cfg lc m ok l raw =
          ({ l with state := s', ids := l.ids ++ [raw.id], log := l.log ++ [(raw.id, raw.body)],
                    stored := l.stored ++ [raw.id] }, none)) ∨
       (ok = false ∧ lc.writeBeforeSwap = false ∧ addRaw cfg lc m ok l raw =
          ({ l with state := s', ids := l.ids ++ [raw.id], log := l.log ++ [(raw.id, raw.body)] }, some .storage)))) := by
  unfold addRaw
  by_cases h1 : raw.id ∈ l.ids
  · left; exact ⟨.exists_, by simp [h1]⟩
  · simp only [List.contains_iff_mem, h1, if_false]
    cases h2 : unmarshal m raw with
    | some e => left; exact ⟨e, by simp⟩
    | none =>
      cases h3 : applyRecord cfg m.validate l.state raw.id raw.body with
      | error e => left; exact ⟨.apply e, by simp⟩
      | ok s' =>
        cases hw : lc.writeBeforeSwap <;> cases ok <;> simp_all

/-! ### a record accepted under full validation is applied identically without validation -/


theorem nv_pc (cfg : Cfg) (s s' : State) (a rec t p : Nat)
    (h : applyPermissionChange cfg true s a rec t p = .ok s') :
    applyPermissionChange cfg false s a rec t p = .ok s' := by
  unfold applyPermissionChange at h ⊢
  simp only [Bool.true_and, Bool.false_and, if_true] at h ⊢
  repeat' (split at h <;> try contradiction)
  simp_all

theorem nv_pcs (cfg : Cfg) (a rec : Nat) (l : List (Nat × Nat)) : ∀ (s s' : State),
    applyPermissionChanges cfg true s a rec l = .ok s' →
    applyPermissionChanges cfg false s a rec l = .ok s' := by
  induction l with
  | nil => intro s s' h; exact h
  | cons hd t ih =>
    obtain ⟨x, p⟩ := hd
    intro s s' h
    simp only [applyPermissionChanges] at h ⊢
    split at h <;> try contradiction
    rename_i s1 h1
    rw [nv_pc cfg s s1 a rec x p h1]
    exact ih s1 s' h

theorem nv_own (cfg : Cfg) (s s' : State) (a rec n op : Nat)
    (h : applyOwnership cfg true s a rec n op = .ok s') : applyOwnership cfg false s a rec n op = .ok s' := by
  unfold applyOwnership at h ⊢
  simp only [Bool.true_and, Bool.false_and] at h ⊢
  repeat' (split at h <;> try contradiction)
  simp_all

theorem nv_add (s s' : State) (a rec : Nat) (l : List (Nat × Nat))
    (h : applyAccountsAdd true s a rec l = .ok s') : applyAccountsAdd false s a rec l = .ok s' := by
  unfold applyAccountsAdd at h ⊢
  simp only [Bool.true_and, Bool.false_and, if_true] at h ⊢
  repeat' (split at h <;> try contradiction)
  simp_all

theorem nv_inv (s s' : State) (a rec t p k : Nat) (hr : Bool)
    (h : applyInvite true s a rec t p k hr = .ok s') : applyInvite false s a rec t p k hr = .ok s' := by
  unfold applyInvite at h ⊢
  simp only [Bool.true_and, Bool.false_and] at h ⊢
  repeat' (split at h <;> try contradiction)
  simp_all

theorem nv_ich (s s' : State) (a rec i p : Nat)
    (h : applyInviteChange true s a rec i p = .ok s') : applyInviteChange false s a rec i p = .ok s' := by
  unfold applyInviteChange at h ⊢
  simp only [Bool.true_and, Bool.false_and] at h ⊢
  repeat' (split at h <;> try contradiction)
  simp_all

theorem nv_irv (s s' : State) (a rec i : Nat)
    (h : applyInviteRevoke true s a rec i = .ok s') : applyInviteRevoke false s a rec i = .ok s' := by
  unfold applyInviteRevoke at h ⊢
  simp only [Bool.true_and, Bool.false_and] at h ⊢
  repeat' (split at h <;> try contradiction)
  simp_all

theorem nv_ijn (s s' : State) (a rec t i p sk sa : Nat) (big hr : Bool)
    (h : applyInviteJoin true s a rec t i p sk sa big hr = .ok s') :
    applyInviteJoin false s a rec t i p sk sa big hr = .ok s' := by
  unfold applyInviteJoin at h ⊢
  simp only [if_true] at h
  split at h <;> try contradiction
  simpa using h

theorem nv_rjn (s s' : State) (a rec t i sk sa : Nat) (big : Bool)
    (h : applyRequestJoin true s a rec t i sk sa big = .ok s') :
    applyRequestJoin false s a rec t i sk sa big = .ok s' := by
  unfold applyRequestJoin at h ⊢
  simp only [if_true] at h
  split at h <;> try contradiction
  simpa using h

theorem nv_acc (cfg : Cfg) (s s' : State) (a rec t rid p : Nat)
    (h : applyRequestAccept cfg true s a rec t rid p = .ok s') :
    applyRequestAccept cfg false s a rec t rid p = .ok s' := by
  unfold applyRequestAccept at h ⊢
  simp only [if_true] at h
  split at h <;> try contradiction
  simpa using h

theorem nv_dec (s s' : State) (a rec rid : Nat)
    (h : applyRequestDecline true s a rec rid = .ok s') : applyRequestDecline false s a rec rid = .ok s' := by
  unfold applyRequestDecline at h ⊢
  simp only [Bool.true_and, Bool.false_and, if_true] at h ⊢
  repeat' (split at h <;> try contradiction)
  simp_all

theorem nv_can (s s' : State) (a rec rid : Nat)
    (h : applyRequestCancel true s a rec rid = .ok s') : applyRequestCancel false s a rec rid = .ok s' := by
  unfold applyRequestCancel at h ⊢
  simp only [Bool.true_and, Bool.false_and, if_true] at h ⊢
  repeat' (split at h <;> try contradiction)
  all_goals simp_all

theorem nv_rrm (s s' : State) (a rec : Nat)
    (h : applyRequestRemove true s a rec = .ok s') : applyRequestRemove false s a rec = .ok s' := by
  unfold applyRequestRemove at h ⊢
  simp only [Bool.true_and, Bool.false_and] at h ⊢
  repeat' (split at h <;> try contradiction)
  simp_all

theorem nv_rkc (cfg : Cfg) (s s' : State) (a rec : Nat) (rk : Rkc) (val : Bool)
    (h : applyRkc cfg true s a rec rk val = .ok s') : applyRkc cfg false s a rec rk val = .ok s' := by
  unfold applyRkc at h ⊢
  simp only [Bool.true_and, Bool.false_and] at h ⊢
  repeat' (split at h <;> try contradiction)
  simp_all

theorem nv_rem (cfg : Cfg) (s s' : State) (a rec : Nat) (l : List Nat) (rk : Rkc)
    (h : applyAccountRemove cfg true s a rec l rk = .ok s') : applyAccountRemove cfg false s a rec l rk = .ok s' := by
  unfold applyAccountRemove at h ⊢
  simp only [Bool.true_and, Bool.false_and, if_true] at h ⊢
  repeat' (split at h <;> try contradiction)
  rename_i s1 h1
  simp only [Bool.false_eq_true, if_false, h1]
  exact nv_rkc _ _ _ _ _ _ _ h

theorem nv_opt (s s' : State) (a rec x : Nat)
    (h : applyOptions true s a rec x = .ok s') : applyOptions false s a rec x = .ok s' := by
  unfold applyOptions at h ⊢
  simp only [Bool.true_and, Bool.false_and] at h ⊢
  repeat' (split at h <;> try contradiction)
  simp_all

theorem nv_content (cfg : Cfg) (s s' : State) (a rec : Nat) (c : Content)
    (h : applyContent cfg true s a rec c = .ok s') : applyContent cfg false s a rec c = .ok s' := by
  cases c with
  | pc t p => exact nv_pc cfg s s' a rec t p h
  | pcs l => exact nv_pcs cfg a rec l s s' h
  | own n p => exact nv_own cfg s s' a rec n p h
  | add l => exact nv_add s s' a rec l h
  | inv t p k hr => exact nv_inv s s' a rec t p k hr h
  | ich r p => exact nv_ich s s' a rec r p h
  | irv r => exact nv_irv s s' a rec r h
  | ijn t r p sk sa big hr => exact nv_ijn s s' a rec t r p sk sa big hr h
  | rjn t r sk sa big => exact nv_rjn s s' a rec t r sk sa big h
  | acc t r p => exact nv_acc cfg s s' a rec t r p h
  | dec r => exact nv_dec s s' a rec r h
  | can r => exact nv_can s s' a rec r h
  | rem l rk => exact nv_rem cfg s s' a rec l rk h
  | rrm => exact nv_rrm s s' a rec h
  | rkc rk => exact nv_rkc cfg s s' a rec rk true h
  | opt x => exact nv_opt s s' a rec x h
  | nop => exact h

theorem nv_contents (cfg : Cfg) (a rec : Nat) (cs : List Content) : ∀ (s s' : State),
    applyContents cfg true s a rec cs = .ok s' → applyContents cfg false s a rec cs = .ok s' := by
  induction cs with
  | nil => intro s s' h; exact h
  | cons c t ih =>
    intro s s' h
    simp only [applyContents] at h ⊢
    split at h <;> try contradiction
    rename_i s1 h1
    rw [nv_content cfg s s1 a rec c h1]
    exact ih s1 s' h

theorem applyRecord_novalidate (cfg : Cfg) (s s' : State) (rec : Nat) (r : Record)
    (h : applyRecord cfg true s rec r = .ok s') : applyRecord cfg false s rec r = .ok s' := by
  unfold applyRecord at h ⊢
  repeat' (split at h <;> try contradiction)
  rename_i s1 h1
  simp_all [nv_contents cfg r.author rec r.contents s s1 h1]

/-! ### loadRecords -/

theorem linked_snoc (l : List Item) (y z : Item) :
    linked (l ++ [y] ++ [z]) = (linked (l ++ [y]) && z.prev == some y.id) := by
  induction l with
  | nil => simp [linked]
  | cons a t ih =>
    cases t with
    | nil => simp [linked]
    | cons b t' =>
      simp only [List.cons_append, linked] at ih ⊢
      rw [ih]; simp [Bool.and_assoc]

/-- a verified, linked list that ends at `z`, starts at an item without PrevId and consists of
items `Get` returns is what the PrevId walk from `z.id` returns (`r` = the items before `z`, in
reverse order) -/
theorem walkUp_of_linked (get : Nat → Option Item) : ∀ (r : List Item) (z : Item) (fuel : Nat),
    (∀ it ∈ r.reverse ++ [z], get it.id = some it) → linked (r.reverse ++ [z]) = true →
    ((r.reverse ++ [z]).head?.bind (·.prev)) = none →
    (r.reverse ++ [z]).length ≤ fuel → walkUp get fuel z.id = some (r.reverse ++ [z]) := by
  intro r
  induction r with
  | nil =>
    intro z fuel hget _ hroot hf
    cases fuel with
    | zero => simp at hf
    | succ f =>
      have := hget z (by simp)
      simp only [List.reverse_nil, List.nil_append, List.head?_cons, Option.bind_some] at hroot
      simp [walkUp, this, hroot]
  | cons y r' ih =>
    intro z fuel hget hl hroot hf
    cases fuel with
    | zero => simp at hf
    | succ f =>
      have hz := hget z (by simp)
      simp only [List.reverse_cons] at hget hl hroot hf ⊢
      rw [linked_snoc] at hl
      simp only [Bool.and_eq_true, beq_iff_eq] at hl
      have hrec := ih y f (fun it hit => hget it (by simp at hit ⊢; rcases hit with h | h; exact Or.inl h; exact Or.inr (Or.inl h)))
        hl.1
        (by
          cases hr : r'.reverse with
          | nil => rw [hr] at hroot; simpa using hroot
          | cons a t => rw [hr] at hroot; simpa using hroot)
        (by simp at hf ⊢; omega)
      simp [walkUp, hz, hl.2, hrec]

theorem exists_rev_snoc (l : List Item) (z : Item) (h : l.getLast? = some z) :
    ∃ r : List Item, l = r.reverse ++ [z] := by
  refine ⟨l.dropLast.reverse, ?_⟩
  rw [List.reverse_reverse]
  have hne : l ≠ [] := by intro hn; rw [hn] at h; cases h
  have := List.dropLast_concat_getLast hne
  rw [List.getLast?_eq_some_getLast hne] at h
  injection h with h
  rw [← h]; exact this.symm

/-- **the order-index scan never decides the outcome of `build`**: whatever it returns — an error,
leftover or foreign documents, gaps, duplicates, a wrong order — `loadRecords` yields the PrevId
chain from the head. Hypotheses: every scanned item passed verification and is the document `Get`
returns for its id (ids are hashes), the root has no PrevId. -/
theorem loadRecords_eq_walk (get : Nat → Option Item) (scan : Option (List Item))
    (rootId head fuel : Nat) (chain : List Item)
    (hwalk : walkUp get fuel head = some chain)
    (hver : ∀ l, scan = some l → ∀ it ∈ l, get it.id = some it)
    (hroot : ∀ it, get rootId = some it → it.prev = none)
    (hfuel : ∀ l, scan = some l → l.length ≤ fuel) :
    loadRecords scan (walkUp get fuel head) rootId head = some chain := by
  unfold loadRecords
  cases scan with
  | none => exact hwalk
  | some l =>
    simp only
    by_cases hc : contiguous l rootId head = true
    · simp only [hc, if_true]
      unfold contiguous at hc
      cases hf : l.head? with
      | none => rw [hf] at hc; simp at hc
      | some f =>
        cases hz : l.getLast? with
        | none => rw [hf, hz] at hc; simp at hc
        | some z =>
          rw [hf, hz] at hc
          simp only [Bool.and_eq_true, beq_iff_eq] at hc
          obtain ⟨⟨hfid, hzid⟩, hlink⟩ := hc
          obtain ⟨r, hr⟩ := exists_rev_snoc l z hz
          have hfget := hver l rfl f (List.mem_of_mem_head? hf)
          have hfprev : f.prev = none := hroot f (hfid ▸ hfget)
          have hw := walkUp_of_linked get r z fuel (by rw [← hr]; exact hver l rfl) (by rw [← hr]; exact hlink)
            (by rw [← hr, hf]; simpa using hfprev) (by rw [← hr]; exact hfuel l rfl)
          rw [hzid, hwalk] at hw
          rw [hr]; exact hw.symm ▸ rfl
    · simp only [hc, Bool.false_eq_true, if_false]
      exact hwalk

/-! ### the partial decode is invisible to a non-validating list -/

theorem applyRkc_shrink (cfg : Cfg) (s : State) (a rec me : Nat) (rk : Rkc) (val : Bool) :
    applyRkc cfg false s a rec (shrinkRkc me rk) val = applyRkc cfg false s a rec rk val := by
  simp [applyRkc, shrinkRkc]

theorem applyContent_shrink (cfg : Cfg) (s : State) (a rec me : Nat) (c : Content) :
    applyContent cfg false s a rec (shrinkContent me c) = applyContent cfg false s a rec c := by
  cases c <;> rfl

theorem applyContents_shrink (cfg : Cfg) (a rec me : Nat) (cs : List Content) : ∀ s,
    applyContents cfg false s a rec (cs.map (shrinkContent me)) = applyContents cfg false s a rec cs := by
  induction cs with
  | nil => intro s; rfl
  | cons c t ih =>
    intro s
    simp only [List.map_cons, applyContents, applyContent_shrink]
    cases applyContent cfg false s a rec c with
    | error e => rfl
    | ok s1 => exact ih s1

theorem applyRecord_shrink (cfg : Cfg) (s : State) (rec me : Nat) (r : Record) :
    applyRecord cfg false s rec (shrinkRecord me r) = applyRecord cfg false s rec r := by
  simp only [applyRecord, shrinkRecord, applyContents_shrink]

end AnySync.Acl
