/-
Model of the ACL state machine of any-sync:
`commonspace/object/acl/list/{aclstate,validator,models}.go`.

Every `apply*` function of `aclstate.go` is mirrored, and inside it the matching `Validate*` of
`validator.go`, guard by guard and in the code's order (so that the *error* of a rejected record is
the same one, not only the verdict). `v : Bool` is `verifier.ShouldValidate()`: `true` on the
consensus node / in client preflight (`recordverifier.NewValidateFull`), `false` on clients that
trust the acceptor signature.

Identifiers are the small integers the harness interns: accounts, invite keys, record ids (the
n-th accepted record of the log has id n; the root has id 0). `garbage` is the identity / key that
does not parse (`PubKeyFromProto` fails). Invite signatures are symbolic: a signature made with
invite key `k` over identity `a` is the pair `(k, a)`.

Go maps are sorted association lists (`AMap`); all lookups go through `find?`.

Not modelled (trusted / other properties): read-key decryption for the observer's own account
(`unpackAllKeys`, C05), request metadata bytes, one-to-one spaces (root with `OneToOneInfo`),
timestamps.
-/
import AnySyncModel.Acl.Perm

namespace AnySync.Acl

/-! ## finite maps -/

abbrev AMap (α : Type) := List (Nat × α)

namespace AMap
variable {α : Type}

def find? : AMap α → Nat → Option α
  | [], _ => none
  | (k', v) :: t, k => if k = k' then some v else find? t k

/-- insert-or-replace, keeping ascending key order -/
def insert : AMap α → Nat → α → AMap α
  | [], k, v => [(k, v)]
  | (k', v') :: t, k, v =>
    if k < k' then (k, v) :: (k', v') :: t
    else if k = k' then (k, v) :: t
    else (k', v') :: insert t k v

def erase (m : AMap α) (k : Nat) : AMap α := m.filter (fun p => p.1 != k)

def contains (m : AMap α) (k : Nat) : Bool := (find? m k).isSome

end AMap

/-! ## state -/

/-- `AclStatus` (models.go iota) -/
def stNone : Nat := 0
def stJoining : Nat := 1
def stActive : Nat := 2
def stRemoved : Nat := 3
def stDeclined : Nat := 4
def stRemoving : Nat := 5
def stCanceled : Nat := 6

/-- `RequestType` (models.go iota) -/
def rtRemove : Nat := 0
def rtJoin : Nat := 1

/-- `AclInviteType` -/
def itRequestToJoin : Nat := 0
def itAnyoneCanJoin : Nat := 1

/-- `AccountState` (PubKey = the map key; RequestMetadata not modelled). `keyRec = none` is the
empty string. -/
structure Account where
  perm   : Nat
  status : Nat
  keyRec : Option Nat
  hist   : List (Nat × Nat)      -- PermissionChanges: (record id, permission)
deriving DecidableEq, Repr, Inhabited

/-- Go zero value `AccountState{}` -/
def Account.zero : Account := ⟨0, 0, none, []⟩

structure Invite where
  typ  : Nat
  perm : Nat
  key  : Nat
deriving DecidableEq, Repr, Inhabited

structure Request where
  acc    : Nat
  typ    : Nat
  keyRec : Option Nat
deriving DecidableEq, Repr, Inhabited

structure State where
  accounts : AMap Account
  invites  : AMap Invite
  requests : AMap Request          -- requestRecords: record id → request
  pending  : AMap Nat              -- pendingRequests: account → record id
  keys     : List Nat              -- readKeyChanges
  opts     : List (Nat × Nat)      -- optionChanges: (record id, deleteRestricted)
  last     : Nat                   -- lastRecordId
deriving DecidableEq, Repr, Inhabited

/-- `AclState.Permissions(identity)` -/
def State.perm (s : State) (a : Nat) : Nat :=
  match s.accounts.find? a with
  | some x => x.perm
  | none => permNone

/-- `CurrentReadKeyId()`; the list is never empty after `applyRoot` (Go would panic on an empty one) -/
def State.curKey (s : State) : Nat := s.keys.getLast?.getD 0

/-! ## records -/

structure Rkc where
  mdOK    : Bool               -- MetadataPubKey parses
  hasMeta : Bool               -- EncryptedMetadataPrivKey != nil
  hasOld  : Bool               -- EncryptedOldReadKey != nil
  accs    : List Nat           -- AccountKeys identities
  invs    : List Nat           -- InviteKeys identities
deriving DecidableEq, Repr, Inhabited

inductive Content where
  | pc  (acc perm : Nat)                                   -- AclAccountPermissionChange
  | pcs (l : List (Nat × Nat))                             -- AclAccountPermissionChanges
  | own (acc perm : Nat)                                   -- AclOwnershipChange(new owner, old owner's new permission)
  | add (l : List (Nat × Nat))                             -- AclAccountsAdd
  | inv (typ perm key : Nat) (hasRK : Bool)                -- AclAccountInvite
  | ich (rec perm : Nat)                                   -- AclAccountInviteChange
  | irv (rec : Nat)                                        -- AclAccountInviteRevoke
  | ijn (acc rec perm sigKey sigAcc : Nat) (big hasRK : Bool)  -- AclAccountInviteJoin
  | rjn (acc rec sigKey sigAcc : Nat) (big : Bool)         -- AclAccountRequestJoin
  | acc (acc rec perm : Nat)                               -- AclAccountRequestAccept
  | dec (rec : Nat)                                        -- AclAccountRequestDecline
  | can (rec : Nat)                                        -- AclAccountRequestCancel
  | rem (accs : List Nat) (rk : Rkc)                       -- AclAccountRemove
  | rrm                                                    -- AclAccountRequestRemove
  | rkc (rk : Rkc)                                         -- AclReadKeyChange
  | opt (v : Nat)                                          -- AclSpaceOptionsChange
  | nop                                                    -- content value with no variant set
deriving DecidableEq, Repr, Inhabited

structure Record where
  author   : Nat
  prev     : Nat
  contents : List Content
deriving DecidableEq, Repr, Inhabited

inductive Err where
  | nosuchaccount | pending | badident | nomdkey | nosuchreq | nosuchinv | perm | isowner
  | numacc | dup | readkey | sig | seq | metaBig | badkey
  | rkcTwice       -- ErrReadKeyChangeNotAlone from applyReadKeyChange
  | panic          -- Go would dereference a nil key (only reachable with `v = false`)
deriving DecidableEq, Repr, Inhabited

abbrev Res := Except Err State

/-- the identity / key bytes that `PubKeyFromProto` rejects -/
def garbage : Nat := 99
def parses (a : Nat) : Bool := a != garbage

/-- facts about the code that may legitimately differ between trees and are read from the source
by the extractor (see `Generated/AclFacts.lean`). -/
structure Cfg where
  /-- `ValidatePermissionChange` ends with `if currentState.Permissions.NoPermissions() { return
  ErrNoSuchAccount }` (repair of another area; no theorem here depends on it) -/
  pcRejectsNone : Bool
  /-- `ValidateRequestAccept` requires a join-type request (fix F-acl-accept-remove) -/
  acceptRequiresJoin : Bool
  /-- `ValidateRequestAccept` requires that the requester has no permissions (fix F-acl-accept-stale-join) -/
  acceptRequiresNoPerm : Bool
  /-- `ValidateOwnershipChange` refuses a Guest as the new owner (fix F-acl-owner-guest) -/
  ownerNotGuest : Bool
  /-- `applyReadKeyChange` refuses a second key rotation in the same record (fix F-acl-double-rotation) -/
  oneRotationPerRecord : Bool
deriving DecidableEq, Repr, Inhabited

/-! ## helpers mirrored from aclstate.go -/

/-- `updatePermissions(identityKey, permissions, record)` -/
def updatePermissions (s : State) (a p rec : Nat) : State :=
  let st := (s.accounts.find? a).getD Account.zero
  { s with accounts := s.accounts.insert a { st with perm := p, hist := st.hist ++ [(rec, p)] } }

/-- history of a (re-)admitted account in applyRequestAccept / applyInviteJoinWithoutApprove -/
def admitHist (s : State) (a p rec : Nat) : List (Nat × Nat) :=
  match s.accounts.find? a with
  | some st => st.hist ++ [(rec, p)]
  | none => [(rec, p)]

/-- delete(pendingRequests, requester); delete(requestRecords, id) -/
def dropRequest (s : State) (requester rid : Nat) : State :=
  { s with pending := s.pending.erase requester, requests := s.requests.erase rid }

/-- `invite.Key.Verify(rawIdentity, signature)` on the symbolic signature `(sigKey, sigAcc)` -/
def sigOk (inviteKey identity sigKey sigAcc : Nat) : Bool :=
  parses sigKey && sigKey == inviteKey && sigAcc == identity

/-! ## validateReadKeyChange -/

def activeUsers (s : State) (removed : List Nat) : List Nat :=
  (s.accounts.filter (fun p => !(isNone p.2.perm) && !(removed.contains p.1))).map (·.1)

def activeInvites (s : State) : List Nat :=
  (s.invites.filter (fun p => p.2.typ == itAnyoneCanJoin)).map (·.2.key)

/-- first identity that does not parse → the parser's error -/
def allParse (l : List Nat) : Bool := l.all parses

def validateRkc (s : State) (rk : Rkc) (removed : List Nat) : Option Err :=
  if !rk.mdOK then some .nomdkey
  else if !rk.hasMeta || !rk.hasOld then some .readkey
  else if !allParse rk.accs then some .badkey
  else if !allParse rk.invs then some .badkey
  else if !((activeUsers s removed).isPerm rk.accs) then some .numacc
  else if !((activeInvites s).isPerm rk.invs) then some .numacc
  else none

/-- `applyReadKeyChange(ch, record, validate)` -/
def applyRkc (cfg : Cfg) (v : Bool) (s : State) (author rec : Nat) (rk : Rkc) (validate : Bool) : Res :=
  if v && validate && !(canManageAccounts (s.perm author)) then .error .perm
  else match (if v && validate then validateRkc s rk [] else none) with
  | some e => .error e
  | none =>
    if cfg.oneRotationPerRecord && s.keys.contains rec then .error .rkcTwice
    else if !rk.mdOK then .error .badkey
    else if !allParse rk.invs then .error .badkey
    else .ok { s with keys := s.keys ++ [rec] }

/-! ## apply* with their Validate* -/

def applyOwnership (cfg : Cfg) (v : Bool) (s : State) (author rec newOwner oldPerm : Nat) : Res :=
  if v && !(isOwner (s.perm author)) then .error .perm
  else if !(parses newOwner) then .error .badkey
  else if v && isNone (s.perm newOwner) then .error .nosuchaccount
  else if v && (((s.accounts.find? newOwner).getD Account.zero).status != stActive
      || isOwner (s.perm newOwner)
      || (cfg.ownerNotGuest && isGuest (s.perm newOwner))
      || isOwner oldPerm || isNone oldPerm) then .error .perm
  else .ok (updatePermissions (updatePermissions s author oldPerm rec) newOwner permOwner rec)

def applyInviteChange (v : Bool) (s : State) (author _rec inviteId perm : Nat) : Res :=
  if v && !(canManageAccounts (s.perm author)) then .error .perm
  else match s.invites.find? inviteId with
  | none =>
    if v then .error .nosuchinv
    else .ok { s with invites := s.invites.insert inviteId ⟨0, perm, garbage⟩ }
  | some i =>
    if v && i.typ != itAnyoneCanJoin then .error .nosuchinv
    else if v && i.perm == perm then .error .perm
    else if v && (isOwner perm || isNone perm || isGuest perm) then .error .perm
    else if v && isAdmin perm && !(isOwner (s.perm author)) then .error .perm
    else .ok { s with invites := s.invites.insert inviteId { i with perm := perm } }

def applyPermissionChange (cfg : Cfg) (v : Bool) (s : State) (author rec target perm : Nat) : Res :=
  if !(parses target) then .error .badkey
  else if v && !(canManageAccounts (s.perm author)) then .error .perm
  else match (if v then s.accounts.find? target else some Account.zero) with
  | none => .error .nosuchaccount
  | some cur =>
    if v && cur.perm == permGuest then .error .perm
    else if v && cur.perm == permOwner then .error .perm
    else if v && isAdmin cur.perm && !(isOwner (s.perm author)) then .error .perm
    else if v && perm == permOwner then .error .perm
    else if v && perm == permAdmin && !(isOwner (s.perm author)) then .error .perm
    else if v && perm == permGuest && cur.perm != permReader then .error .perm
    else if v && cfg.pcRejectsNone && isNone cur.perm then .error .nosuchaccount
    else .ok (updatePermissions s target perm rec)

def applyPermissionChanges (cfg : Cfg) (v : Bool) (s : State) (author rec : Nat) : List (Nat × Nat) → Res
  | [] => .ok s
  | (t, p) :: rest =>
    match applyPermissionChange cfg v s author rec t p with
    | .error e => .error e
    | .ok s' => applyPermissionChanges cfg v s' author rec rest

def applyInvite (v : Bool) (s : State) (author rec typ perm key : Nat) (hasRK : Bool) : Res :=
  if !(parses key) then .error .badkey
  else if v && !(canManageAccounts (s.perm author)) then .error .perm
  else if v && typ == itAnyoneCanJoin && (isOwner perm || isNone perm || isGuest perm) then .error .perm
  else if v && typ == itAnyoneCanJoin && isAdmin perm && !(isOwner (s.perm author)) then .error .perm
  else if v && typ == itAnyoneCanJoin && !hasRK then .error .readkey
  else .ok { s with invites := s.invites.insert rec ⟨typ, perm, key⟩ }

def applyInviteRevoke (v : Bool) (s : State) (author _rec inviteId : Nat) : Res :=
  if v && !(canManageAccounts (s.perm author)) then .error .perm
  else if v && !(s.invites.contains inviteId) then .error .nosuchinv
  else .ok { s with invites := s.invites.erase inviteId }

def joiningAccount (s : State) (a : Nat) : Account :=
  ⟨permNone, stJoining, some s.curKey, ((s.accounts.find? a).map (·.hist)).getD []⟩

def validateRequestJoin (s : State) (author identity inviteId sigKey sigAcc : Nat) (big : Bool) : Option Err :=
  match s.invites.find? inviteId with
  | none => some .nosuchinv
  | some i =>
    if !(isNone (s.perm author)) then some .perm
    else if i.typ != itRequestToJoin then some .nosuchinv
    else if !(parses identity) then some .badkey
    else if s.pending.contains identity then some .pending
    else if author != identity then some .badident
    else if !(sigOk i.key identity sigKey sigAcc) then some .sig
    else if big then some .metaBig
    else none

def applyRequestJoin (v : Bool) (s : State) (author rec identity inviteId sigKey sigAcc : Nat) (big : Bool) : Res :=
  match (if v then validateRequestJoin s author identity inviteId sigKey sigAcc big else none) with
  | some e => .error e
  | none =>
    .ok { s with
      pending := s.pending.insert author rec,
      requests := s.requests.insert rec ⟨author, rtJoin, some s.curKey⟩,
      accounts := s.accounts.insert author (joiningAccount s author) }

def validateAccountsAdd (s : State) (author : Nat) : List (Nat × Nat) → Option Err
  | [] => none
  | (a, p) :: rest =>
    if !(parses a) then some .badkey
    else if !(isNone (s.perm a)) then some .dup
    else if isOwner p then some .isowner
    else if isNone p then some .perm
    else if isAdmin p && !(isOwner (s.perm author)) then some .perm
    else validateAccountsAdd s author rest

def doAccountsAdd (s : State) (rec : Nat) : List (Nat × Nat) → Res
  | [] => .ok s
  | (a, p) :: rest =>
    if !(parses a) then .error .badkey
    else doAccountsAdd { s with accounts := s.accounts.insert a ⟨p, stActive, some s.curKey, admitHist s a p rec⟩ } rec rest

def applyAccountsAdd (v : Bool) (s : State) (author rec : Nat) (l : List (Nat × Nat)) : Res :=
  if v && !(canManageAccounts (s.perm author)) then .error .perm
  else match (if v then validateAccountsAdd s author l else none) with
  | some e => .error e
  | none => doAccountsAdd s rec l

def validateRequestAccept (cfg : Cfg) (s : State) (author identity rid perm : Nat) : Option Err :=
  if !(canManageAccounts (s.perm author)) then some .perm
  else match s.requests.find? rid with
  | none => some .nosuchreq
  | some rq =>
    if !(parses identity) then some .badkey
    else if identity != rq.acc then some .badident
    else if cfg.acceptRequiresJoin && rq.typ != rtJoin then some .nosuchreq
    else if cfg.acceptRequiresNoPerm && !(isNone (s.perm identity)) then some .perm
    else if perm == permOwner then some .perm
    else if perm == permAdmin && !(isOwner (s.perm author)) then some .perm
    else none

def applyRequestAccept (cfg : Cfg) (v : Bool) (s : State) (author rec identity rid perm : Nat) : Res :=
  match (if v then validateRequestAccept cfg s author identity rid perm else none) with
  | some e => .error e
  | none =>
    if !(parses identity) then .error .badkey
    else match s.requests.find? rid with
    | none => .error .panic       -- mapKeyFromPubKey(nil RequestIdentity)
    | some rq =>
      let s1 := { s with accounts := s.accounts.insert identity ⟨perm, stActive, rq.keyRec, admitHist s identity perm rec⟩ }
      .ok (dropRequest s1 rq.acc rid)

def validateInviteJoin (s : State) (author identity inviteId perm sigKey sigAcc : Nat) (big hasRK : Bool) : Option Err :=
  if !(isNone (s.perm author)) then some .perm
  else match s.invites.find? inviteId with
  | none => some .nosuchinv
  | some i =>
    if i.typ != itAnyoneCanJoin then some .nosuchinv
    else if !(isLessOrEqual perm i.perm) then some .perm
    else if !(parses identity) then some .badkey
    else if author != identity then some .badident
    else if !(sigOk i.key identity sigKey sigAcc) then some .sig
    else if big then some .metaBig
    else if !hasRK then some .readkey
    else none

/-- the `for _, rec := range st.requestRecords` loop: drop the (first) request of `identity` -/
def dropRequestOf (s : State) (identity : Nat) : State :=
  match List.find? (fun p => p.2.acc == identity) s.requests with
  | some (rid, rq) => dropRequest s rq.acc rid
  | none => s

def applyInviteJoin (v : Bool) (s : State) (author rec identity inviteId perm sigKey sigAcc : Nat) (big hasRK : Bool) : Res :=
  match (if v then validateInviteJoin s author identity inviteId perm sigKey sigAcc big hasRK else none) with
  | some e => .error e
  | none =>
    if !(parses identity) then .error .badkey
    else
      let ip := ((s.invites.find? inviteId).map (·.perm)).getD permNone
      let p := if isNone perm then ip else perm
      let s1 := { s with accounts := s.accounts.insert identity ⟨p, stActive, some s.curKey, admitHist s identity p rec⟩ }
      .ok (dropRequestOf s1 identity)

def applyRequestDecline (v : Bool) (s : State) (author _rec rid : Nat) : Res :=
  if v && !(canManageAccounts (s.perm author)) then .error .perm
  else match s.requests.find? rid with
  | none => if v then .error .nosuchreq else .error .panic
  | some rq =>
    if v && rq.typ != rtJoin then .error .nosuchreq
    else match s.accounts.find? rq.acc with
    | none => .error .nosuchaccount
    | some a =>
      .ok (dropRequest { s with accounts := s.accounts.insert rq.acc { a with status := stDeclined } } rq.acc rid)

def applyRequestCancel (v : Bool) (s : State) (author _rec rid : Nat) : Res :=
  match s.requests.find? rid with
  | none => if v then .error .nosuchreq else .error .panic
  | some rq =>
    if v && rq.acc != author then .error .perm
    else match s.accounts.find? rq.acc with
    | none => .error .nosuchaccount
    | some a =>
      let st := if rq.typ == rtJoin then stCanceled else stActive
      .ok (dropRequest { s with accounts := s.accounts.insert rq.acc { a with status := st } } rq.acc rid)

def applyRequestRemove (v : Bool) (s : State) (author rec : Nat) : Res :=
  if v && isNone (s.perm author) then .error .perm
  else if v && isOwner (s.perm author) then .error .isowner
  else if v && s.pending.contains author then .error .pending
  else if !(canRequestRemove (s.perm author)) then .error .perm
  else match s.accounts.find? author with
  | none => .error .nosuchaccount
  | some a =>
    .ok { s with
      requests := s.requests.insert rec ⟨author, rtRemove, none⟩,
      pending := s.pending.insert author rec,
      accounts := s.accounts.insert author { a with status := stRemoving } }

def validateRemoveIds (s : State) (author : Nat) : List Nat → List Nat → Option Err
  | [], _ => none
  | a :: rest, seen =>
    if !(parses a) then some .badkey
    else if a == author then some .perm
    else if isNone (s.perm a) then some .nosuchaccount
    else if isOwner (s.perm a) then some .perm
    else if isAdmin (s.perm a) && !(isOwner (s.perm author)) then some .perm
    else if seen.contains a then some .dup
    else validateRemoveIds s author rest (a :: seen)

def removeOne (s : State) (rec a : Nat) : Res :=
  if !(parses a) then .error .badkey
  else match s.accounts.find? a with
  | none => .error .nosuchaccount
  | some st =>
    let s1 := { s with accounts := s.accounts.insert a { st with status := stRemoved, perm := permNone, hist := st.hist ++ [(rec, permNone)] } }
    match s1.pending.find? a with
    | some rid => .ok (dropRequest s1 a rid)
    | none => .ok s1

def doRemove (s : State) (rec : Nat) : List Nat → Res
  | [] => .ok s
  | a :: rest =>
    match removeOne s rec a with
    | .error e => .error e
    | .ok s' => doRemove s' rec rest

def applyAccountRemove (cfg : Cfg) (v : Bool) (s : State) (author rec : Nat) (ids : List Nat) (rk : Rkc) : Res :=
  if v && !(canManageAccounts (s.perm author)) then .error .perm
  else match (if v then validateRemoveIds s author ids [] else none) with
  | some e => .error e
  | none =>
    match (if v then validateRkc s rk ids else none) with
    | some e => .error e
    | none =>
      match doRemove s rec ids with
      | .error e => .error e
      | .ok s' => applyRkc cfg v s' author rec rk false

def applyOptions (v : Bool) (s : State) (author rec val : Nat) : Res :=
  if v && !(isOwner (s.perm author)) then .error .perm
  else .ok { s with opts := s.opts ++ [(rec, val)] }

/-- `applyChangeContent` -/
def applyContent (cfg : Cfg) (v : Bool) (s : State) (author rec : Nat) : Content → Res
  | .pc a p => applyPermissionChange cfg v s author rec a p
  | .pcs l => applyPermissionChanges cfg v s author rec l
  | .own a p => applyOwnership cfg v s author rec a p
  | .add l => applyAccountsAdd v s author rec l
  | .inv t p k h => applyInvite v s author rec t p k h
  | .ich r p => applyInviteChange v s author rec r p
  | .irv r => applyInviteRevoke v s author rec r
  | .ijn a r p sk sa big h => applyInviteJoin v s author rec a r p sk sa big h
  | .rjn a r sk sa big => applyRequestJoin v s author rec a r sk sa big
  | .acc a r p => applyRequestAccept cfg v s author rec a r p
  | .dec r => applyRequestDecline v s author rec r
  | .can r => applyRequestCancel v s author rec r
  | .rem l rk => applyAccountRemove cfg v s author rec l rk
  | .rrm => applyRequestRemove v s author rec
  | .rkc rk => applyRkc cfg v s author rec rk true
  | .opt x => applyOptions v s author rec x
  | .nop => .ok s

/-- `applyChangeData`: contents in order on the same (copied) state; the first error aborts -/
def applyContents (cfg : Cfg) (v : Bool) (s : State) (author rec : Nat) : List Content → Res
  | [] => .ok s
  | c :: rest =>
    match applyContent cfg v s author rec c with
    | .error e => .error e
    | .ok s' => applyContents cfg v s' author rec rest

/-- `AclState.ApplyRecord` on the copy made by `AddRawRecord`; `rec` is the id of the record -/
def applyRecord (cfg : Cfg) (v : Bool) (s : State) (rec : Nat) (r : Record) : Res :=
  if !(parses r.author) then .error .badkey          -- Unmarshall: PubKeyFromProto(record.Identity)
  else if s.last != r.prev then .error .seq
  else match applyContents cfg v s r.author rec r.contents with
  | .error e => .error e
  | .ok s' => .ok { s' with last := rec }

/-- `applyRoot` for a regular (not one-to-one) space -/
def applyRoot (owner : Nat) (opts : Option Nat) : State :=
  { accounts := [(owner, ⟨permOwner, stActive, some 0, [(0, permOwner)]⟩)],
    invites := [], requests := [], pending := [],
    keys := [0],
    opts := match opts with | some o => [(0, o)] | none => [],
    last := 0 }

end AnySync.Acl
