/-
Model of the ACL log container `commonspace/object/acl/list/list.go`:
`AddRawRecord` / `AddRawRecords` / `build` over the state machine of `Acl/State.lean`, with a
symbolic model of the envelope (`RawRecordWithId` → `RawRecord` → `Record`).

Symbolic crypto (trusted base): ids are hashes — `cid` is the hash of the bytes that were sent,
`id` the id the sender claims; a signature is described by *who made it over exactly this payload*
(`sigBy`, `accBy`; `none` = the bytes are not a signature over this payload by anybody), so
"the signature verifies under key k" is `= some k` (unforgeability + payload binding).
-/
import AnySyncModel.Acl.State

namespace AnySync.Acl

/-- what `UnmarshallWithId` sees of a `RawRecordWithId` -/
structure Raw where
  id    : Nat            -- RawRecordWithId.Id
  cid   : Nat            -- hash of RawRecordWithId.Payload
  sigBy : Option Nat     -- key whose signature over RawRecord.Payload is in RawRecord.Signature
  accBy : Option Nat     -- key whose signature over RawRecord.Payload is in AcceptorSignature (= AcceptorIdentity)
  body  : Record         -- the decoded consensusproto.Record (identity, prevId, data)
deriving DecidableEq, Repr, Inhabited

/-- how a list was built: `validate = true` is `recordverifier.NewValidateFull()` (acceptor not
looked at); `validate = false` is `recordverifier.New(networkKey)` -/
structure Mode where
  validate : Bool
  network  : Nat
deriving DecidableEq, Repr, Inhabited

inductive LErr where
  | exists_ | acceptor | sig | cid | storage
  | apply (e : Err)
deriving DecidableEq, Repr, Inhabited

/-- `aclList`: records (ids, in order), derived state, storage; `log` remembers the decoded records
that were accepted (ghost: what the state is a fold of) -/
structure AclList where
  ids    : List Nat
  state  : State
  stored : List Nat
  log    : List (Nat × Record)
deriving DecidableEq, Repr, Inhabited

/-- source facts read by the extractor: `AddRawRecord` calls `storage.AddAll` before it swaps the
state (fix F-acl-order) -/
structure LCfg where
  writeBeforeSwap : Bool
deriving DecidableEq, Repr, Inhabited

/-- `UnmarshallWithId`: VerifyAcceptor, identity, (decode), verifyRaw (signature, then CID) -/
def unmarshal (m : Mode) (raw : Raw) : Option LErr :=
  if !m.validate && raw.accBy != some m.network then some .acceptor
  else if !(parses raw.body.author) then some (.apply .badkey)
  else if raw.sigBy != some raw.body.author then some .sig
  else if raw.id != raw.cid then some .cid
  else none

/-- `AddRawRecord`; `storageOk` = whether `storage.AddAll` succeeds -/
def addRaw (cfg : Cfg) (lc : LCfg) (m : Mode) (storageOk : Bool) (l : AclList) (raw : Raw) :
    AclList × Option LErr :=
  if l.ids.contains raw.id then (l, some .exists_)
  else match unmarshal m raw with
  | some e => (l, some e)
  | none =>
    match applyRecord cfg m.validate l.state raw.id raw.body with      -- on aclState.Copy()
    | .error e => (l, some (.apply e))
    | .ok s' =>
      let swapped : AclList := { l with state := s', ids := l.ids ++ [raw.id], log := l.log ++ [(raw.id, raw.body)] }
      if lc.writeBeforeSwap then
        if storageOk then ({ swapped with stored := l.stored ++ [raw.id] }, none)
        else (l, some .storage)
      else
        if storageOk then ({ swapped with stored := l.stored ++ [raw.id] }, none)
        else (swapped, some .storage)

/-- `AddRawRecords`: one at a time, `ErrRecordAlreadyExists` skipped, any other error aborts -/
def addRaws (cfg : Cfg) (lc : LCfg) (m : Mode) (l : AclList) : List Raw → AclList × Option LErr
  | [] => (l, none)
  | r :: rest =>
    match addRaw cfg lc m true l r with
    | (l', none) => addRaws cfg lc m l' rest
    | (l', some .exists_) => addRaws cfg lc m l' rest
    | (l', some e) => (l', some e)

/-- `aclStateBuilder.Build`: fold `ApplyRecord` over the stored records after the root -/
def replay (cfg : Cfg) (v : Bool) (s : State) : List (Nat × Record) → Option State
  | [] => some s
  | (id, r) :: rest =>
    match applyRecord cfg v s id r with
    | .error _ => none
    | .ok s' => replay cfg v s' rest

/-- a freshly built list over a root -/
def rootList (owner : Nat) (opts : Option Nat) : AclList :=
  { ids := [0], state := applyRoot owner opts, stored := [0], log := [] }

/-! ### `loadRecords`: order-index scan with fallback to the PrevId walk (list.go) -/

/-- a stored record as `build` sees it after `unmarshalForState` verified it: id, PrevId
(`none` = the root's empty PrevId), decoded body (`none` for the root) -/
structure Item where
  id   : Nat
  prev : Option Nat
  body : Option Record
deriving DecidableEq, Repr, Inhabited

/-- the PrevId cross-check of `isContiguousChain` -/
def linked : List Item → Bool
  | a :: b :: t => b.prev == some a.id && linked (b :: t)
  | _ => true

/-- `isContiguousChain(records, rootId, head)` -/
def contiguous (l : List Item) (rootId head : Nat) : Bool :=
  match l.head?, l.getLast? with
  | some f, some z => f.id == rootId && z.id == head && linked l
  | _, _ => false

/-- `loadRecordsByPrevId`: from `head` follow PrevId with `storage.Get` until the empty PrevId;
`none` = a `Get` failed (or the chain is longer than the fuel) -/
def walkUp (get : Nat → Option Item) : Nat → Nat → Option (List Item)
  | 0, _ => none
  | fuel + 1, id =>
    match get id with
    | none => none
    | some it =>
      match it.prev with
      | none => some [it]
      | some p => (walkUp get fuel p).map fun l => l ++ [it]

/-- `loadRecords`: the order-index scan (`none` = it returned an error) is used only if it is the
exact head→root chain; otherwise the authoritative PrevId walk -/
def loadRecords (scan : Option (List Item)) (walk : Option (List Item)) (rootId head : Nat) :
    Option (List Item) :=
  match scan with
  | some l => if contiguous l rootId head then some l else walk
  | none => walk

/-! ### the keep-only-ours partial decode (`keepidentity.go`, as a projection of the decoded record) -/

/-- `filterAccountKeys`: keep only the observer's own entry -/
def shrinkRkc (me : Nat) (rk : Rkc) : Rkc := { rk with accs := rk.accs.filter (· == me) }

/-- `fullDecodeFilter` / `unmarshalAclDataKeepIdentity`: the keep-only-ours view of a content -/
def shrinkContent (me : Nat) : Content → Content
  | .rkc rk => .rkc (shrinkRkc me rk)
  | .rem l rk => .rem l (shrinkRkc me rk)
  | c => c

def shrinkRecord (me : Nat) (r : Record) : Record := { r with contents := r.contents.map (shrinkContent me) }


end AnySync.Acl
