/-
Helper lemmas for the ACL model: finite-map algebra, how each primitive state update acts on
`State.perm`, and the loop invariants of the list-shaped contents.
-/
import AnySyncModel.Acl.Spec

namespace AnySync.Acl

namespace AMap
variable {α : Type}

@[simp] theorem find?_nil (k : Nat) : find? ([] : AMap α) k = none := rfl

theorem find?_insert (m : AMap α) (k : Nat) (v : α) (k' : Nat) :
    find? (insert m k v) k' = if k' = k then some v else find? m k' := by
  induction m with
  | nil => simp [insert, find?]
  | cons hd t ih =>
    obtain ⟨k0, v0⟩ := hd
    simp only [insert]
    split
    · simp [find?]
    · split
      · subst_vars; simp only [find?]; split <;> simp_all
      · simp only [find?]
        by_cases h : k' = k0
        · have : k' ≠ k := by omega
          simp [h]; intro hh; omega
        · simp [h, ih]

theorem find?_erase (m : AMap α) (k k' : Nat) :
    find? (erase m k) k' = if k' = k then none else find? m k' := by
  induction m with
  | nil => simp [erase, find?]
  | cons hd t ih =>
    obtain ⟨k0, v0⟩ := hd
    simp only [erase, List.filter_cons] at ih ⊢
    by_cases h0 : k0 = k
    · subst h0
      simp only [bne_self_eq_false, Bool.false_eq_true, if_false]
      rw [ih]; simp only [find?]
      by_cases h : k' = k0 <;> simp [h]
    · have : (k0 != k) = true := by simp [h0]
      simp only [this, if_true, find?]
      by_cases h : k' = k0
      · simp [h, h0]
      · simp [h, ih]

end AMap

/-! ### the generated permission predicates, as propositions -/
open Generated.AclPerm in
@[simp] theorem isOwner_iff (p : Nat) : isOwner p = true ↔ p = permOwner := by simp [isOwner]
open Generated.AclPerm in
@[simp] theorem isNone_iff (p : Nat) : isNone p = true ↔ p = permNone := by simp [isNone]
open Generated.AclPerm in
@[simp] theorem isAdmin_iff (p : Nat) : isAdmin p = true ↔ p = permAdmin := by simp [isAdmin]
open Generated.AclPerm in
@[simp] theorem isGuest_iff (p : Nat) : isGuest p = true ↔ p = permGuest := by simp [isGuest]
open Generated.AclPerm in
theorem canManage_iff (p : Nat) : canManageAccounts p = true ↔ p = permAdmin ∨ p = permOwner := by
  simp only [canManageAccounts]; split <;> simp_all
open Generated.AclPerm in
theorem canManage_false_iff (p : Nat) : canManageAccounts p = false ↔ p ≠ permAdmin ∧ p ≠ permOwner := by
  simp only [canManageAccounts]; split <;> simp_all

/-! ### `perm` through the primitive updates -/

theorem perm_def (s : State) (a : Nat) :
    s.perm a = match s.accounts.find? a with | some x => x.perm | none => permNone := rfl

theorem perm_accounts_insert (s : State) (a : Nat) (x : Account) (b : Nat) (s' : State)
    (h : s'.accounts = s.accounts.insert a x) :
    s'.perm b = if b = a then x.perm else s.perm b := by
  simp only [State.perm, h, AMap.find?_insert]
  by_cases hb : b = a <;> simp [hb]

theorem perm_of_accounts_eq (s s' : State) (h : s'.accounts = s.accounts) (b : Nat) :
    s'.perm b = s.perm b := by simp [State.perm, h]

@[simp] theorem perm_updatePermissions (s : State) (a p r b : Nat) :
    (updatePermissions s a p r).perm b = if b = a then p else s.perm b := by
  rw [perm_accounts_insert s a _ b _ rfl]

@[simp] theorem perm_dropRequest (s : State) (x r b : Nat) : (dropRequest s x r).perm b = s.perm b := rfl

end AnySync.Acl
