/-
Byte-level model of the keep-only-ours partial decode,
`commonspace/object/acl/list/keepidentity.go`.

* `Fast.*` mirrors the strict fast path (`keepIdentityFast` and its helpers) statement by
  statement, over `protowire.ConsumeVarint / ConsumeTag / ConsumeBytes`. Indices are `Int`, every
  Go slice expression `d[i:]` is a *checked* operation that yields `.panic` when Go would panic, and
  every `for i < l` loop runs on explicit fuel that yields `.hang` when exhausted — so that
  "never panics, always terminates" is a theorem (`Props/C03.lean`), not an artefact of the encoding.
* `Vt.*` mirrors the generated vtprotobuf decoders the fast path is compared with
  (`AclData / AclContentValue / AclReadKeyChange / AclAccountRemove / AclEncryptedReadKey
  .UnmarshalVT`, `protohelpers.Skip`), restricted to what `fullDecodeFilter` needs: contents other
  than readKeyChange / accountRemove are decoded to `.other` (their inner structure is irrelevant
  to the filter), unknown fields are skipped (their retention in `unknownFields` is not modelled).
  Generated code is assumed not to panic (it bounds-checks every index; trusted).

Bytes are `Nat`s below 256 (the driver parses hex).
-/
namespace AnySync.Acl.Keep

abbrev Bytes := List Nat

inductive Res (α : Type) where
  | ok (a : α)
  | bail            -- errNonCanonical / any decoder error: the caller defers to the full decode
  | panic           -- Go would panic (slice bounds out of range)
  | hang            -- loop fuel exhausted (never happens: `fast_total`)
deriving Repr, DecidableEq

/-! ## decoded messages -/

structure ERK where
  identity : Bytes
  key      : Bytes
deriving Repr, DecidableEq, Inhabited

structure RKC where
  accountKeys : List ERK
  mdPub       : Bytes
  encMeta     : Bytes
  encOld      : Bytes
  inviteKeys  : List ERK
deriving Repr, DecidableEq, Inhabited

def RKC.empty : RKC := ⟨[], [], [], [], []⟩

inductive Cnt where
  | rkc (k : RKC)
  | rem (ids : List Bytes) (k : Option RKC)
  | other
deriving Repr, DecidableEq, Inhabited

/-! ## protowire (google.golang.org/protobuf/encoding/protowire) -/

/-- `ConsumeVarint`: `(value, n)`, `n < 0` = error. `k` bytes were read already. -/
def pwVarintAux : Nat → Bytes → Nat → Nat × Int
  | _, [], _ => (0, -1)
  | k, b :: rest, acc =>
    if k ≥ 9 then (if b < 2 then (acc + b * 2 ^ 63, 10) else (0, -3))
    else if b < 128 then (acc + b * 2 ^ (7 * k), (k : Int) + 1)
    else pwVarintAux (k + 1) rest (acc + (b - 128) * 2 ^ (7 * k))

def pwVarint (b : Bytes) : Nat × Int := pwVarintAux 0 b 0

def maxInt32 : Nat := 2147483647

/-- `ConsumeTag`: `(number, type, n)` -/
def pwTag (b : Bytes) : Nat × Nat × Int :=
  let (v, n) := pwVarint b
  if n < 0 then (0, 0, n)
  else if v / 8 > maxInt32 then (0, 0, -2)
  else if v / 8 < 1 then (0, 0, -2)
  else (v / 8, v % 8, n)

/-- `ConsumeBytes`: `(payload, n)` -/
def pwBytes (b : Bytes) : Bytes × Int :=
  let (m, n) := pwVarint b
  if n < 0 then ([], n)
  else if m > (b.drop n.toNat).length then ([], -1)
  else ((b.drop n.toNat).take m, n + m)

/-! ## the fast path -/
namespace Fast

/-- Go `d[i:]` -/
def sliceFrom (d : Bytes) (i : Int) : Option Bytes :=
  if 0 ≤ i ∧ i ≤ d.length then some (d.drop i.toNat) else none

/-- `readTag(dAtA, i)` -/
def readTag (d : Bytes) (i : Int) : Res (Nat × Nat × Int) :=
  match sliceFrom d i with
  | none => .panic
  | some b =>
    let (num, typ, n) := pwTag b
    if n < 0 ∨ typ = 3 ∨ typ = 4 then .bail else .ok (num, typ, i + n)

/-- `readBytes(dAtA, i)` -/
def readBytes (d : Bytes) (i : Int) : Res (Bytes × Int) :=
  match sliceFrom d i with
  | none => .panic
  | some b =>
    let (p, n) := pwBytes b
    if n < 0 then .bail else .ok (p, i + n)

/-- the common shape of the four `for i < l` loops: tag, must be length-delimited, payload, `step` -/
def fieldLoop {σ : Type} (step : Nat → Bytes → σ → Res σ) (d : Bytes) : Nat → Int → σ → Res σ
  | 0, _, _ => .hang
  | fuel + 1, i, st =>
    if ¬ (i < d.length) then .ok st
    else match readTag d i with
    | .panic => .panic | .hang => .hang | .bail => .bail
    | .ok (field, wt, ni) =>
      if wt ≠ 2 then .bail
      else match readBytes d ni with
      | .panic => .panic | .hang => .hang | .bail => .bail
      | .ok (body, ni2) =>
        match step field body st with
        | .ok st' => fieldLoop step d fuel ni2 st'
        | r => r

def runLoop {σ : Type} (step : Nat → Bytes → σ → Res σ) (d : Bytes) (st : σ) : Res σ :=
  fieldLoop step d (d.length + 1) 0 st

/-- the generated `AclEncryptedReadKey.UnmarshalVT`, as a parameter of the fast path -/
abbrev ErkDecoder := Bytes → Option ERK

/-- `encryptedReadKeyMatches`: state = (identity, seenIdentity, seenKey) -/
def erkStep (field : Nat) (body : Bytes) (st : Bytes × Bool × Bool) : Res (Bytes × Bool × Bool) :=
  if field = 1 then (if st.2.1 then .bail else .ok (body, true, st.2.2))
  else if field = 2 then (if st.2.2 then .bail else .ok (st.1, st.2.1, true))
  else .bail

def erkMatches (isOurs : Bytes → Bool) (elem : Bytes) : Res Bool :=
  match runLoop erkStep elem ([], false, false) with
  | .ok st => .ok (isOurs st.1)
  | .bail => .bail | .panic => .panic | .hang => .hang

/-- `keepReadKeyChange`: state = (out, seenMeta, seenEncMeta, seenOldKey) -/
def rkcStep (dec : ErkDecoder) (isOurs : Bytes → Bool) (field : Nat) (body : Bytes)
    (st : RKC × Bool × Bool × Bool) : Res (RKC × Bool × Bool × Bool) :=
  let (out, sm, se, so) := st
  if field = 1 then
    match erkMatches isOurs body with
    | .ok true =>
      (match dec body with
       | some ek => .ok ({ out with accountKeys := out.accountKeys ++ [ek] }, sm, se, so)
       | none => .bail)
    | .ok false => .ok st
    | .bail => .bail | .panic => .panic | .hang => .hang
  else if field = 2 then (if sm then .bail else .ok ({ out with mdPub := body }, true, se, so))
  else if field = 3 then (if se then .bail else .ok ({ out with encMeta := body }, sm, true, so))
  else if field = 4 then (if so then .bail else .ok ({ out with encOld := body }, sm, se, true))
  else if field = 5 then
    (match dec body with
     | some ek => .ok ({ out with inviteKeys := out.inviteKeys ++ [ek] }, sm, se, so)
     | none => .bail)
  else .bail

def keepRkc (dec : ErkDecoder) (isOurs : Bytes → Bool) (d : Bytes) : Res RKC :=
  match runLoop (rkcStep dec isOurs) d (RKC.empty, false, false, false) with
  | .ok st => .ok st.1
  | .bail => .bail | .panic => .panic | .hang => .hang

/-- `keepAccountRemove`: state = (identities, readKeyChange, seenReadKeyChange) -/
def remStep (dec : ErkDecoder) (isOurs : Bytes → Bool) (field : Nat) (body : Bytes)
    (st : List Bytes × Option RKC × Bool) : Res (List Bytes × Option RKC × Bool) :=
  if field = 1 then .ok (st.1 ++ [body], st.2.1, st.2.2)
  else if field = 2 then
    (if st.2.2 then .bail
     else match keepRkc dec isOurs body with
       | .ok k => .ok (st.1, some k, true)
       | .bail => .bail | .panic => .panic | .hang => .hang)
  else .bail

def keepRem (dec : ErkDecoder) (isOurs : Bytes → Bool) (d : Bytes) : Res Cnt :=
  match runLoop (remStep dec isOurs) d ([], none, false) with
  | .ok st => .ok (.rem st.1 st.2.1)
  | .bail => .bail | .panic => .panic | .hang => .hang

/-- `keepContentValue` -/
def keepContent (dec : ErkDecoder) (isOurs : Bytes → Bool) (cv : Bytes) : Res Cnt :=
  match readTag cv 0 with
  | .panic => .panic | .hang => .hang | .bail => .bail
  | .ok (field, wt, ni) =>
    if wt ≠ 2 then .bail
    else match readBytes cv ni with
    | .panic => .panic | .hang => .hang | .bail => .bail
    | .ok (body, next) =>
      if next ≠ cv.length then .bail
      else if field = 7 then
        (match keepRkc dec isOurs body with
         | .ok k => .ok (.rkc k)
         | .bail => .bail | .panic => .panic | .hang => .hang)
      else if field = 6 then keepRem dec isOurs body
      else .bail

def topStep (dec : ErkDecoder) (isOurs : Bytes → Bool) (field : Nat) (body : Bytes) (st : List Cnt) :
    Res (List Cnt) :=
  if field ≠ 1 then .bail
  else match keepContent dec isOurs body with
    | .ok c => .ok (st ++ [c])
    | .bail => .bail | .panic => .panic | .hang => .hang

/-- `keepIdentityFast` -/
def keepIdentityFast (dec : ErkDecoder) (isOurs : Bytes → Bool) (d : Bytes) : Res (List Cnt) :=
  runLoop (topStep dec isOurs) d []

end Fast

/-! ## the generated decoders (vtprotobuf) -/
namespace Vt

def two64 : Nat := 2 ^ 64
def two63 : Nat := 2 ^ 63

/-- the inlined varint loop of generated code: `shift` runs 0,7,…,63; the value wraps at 64 bits;
returns (value, rest) or `none` (ErrIntOverflow / ErrUnexpectedEOF) -/
def varintAux : Nat → Bytes → Nat → Option (Nat × Bytes)
  | _, [], _ => none
  | k, b :: rest, acc =>
    if k ≥ 10 then none
    else
      let acc' := (acc + (b % 128) * 2 ^ (7 * k)) % two64
      if b < 128 then some (acc', rest) else varintAux (k + 1) rest acc'

def varint (b : Bytes) : Option (Nat × Bytes) := varintAux 0 b 0

/-- the varint loop of `Skip` for wire type 0 (value ignored) -/
def skipVarintAux : Nat → Bytes → Option Bytes
  | _, [] => none
  | k, b :: rest => if k ≥ 10 then none else if b < 128 then some rest else skipVarintAux (k + 1) rest

/-- length-delimited payload after the tag: `byteLen < 0`, `postIndex < 0`, `postIndex > l` are errors -/
def lenDelimited (b : Bytes) : Option (Bytes × Bytes) :=
  match varint b with
  | none => none
  | some (m, rest) =>
    if m ≥ two63 then none
    else if m > rest.length then none
    else some (rest.take m, rest.drop m)

/-- `protohelpers.Skip` followed by the caller's bound check: the bytes after one complete unknown
field (groups are skipped by depth counting). `fuel` bounds the number of tags. -/
def skipAux : Nat → Nat → Bytes → Option Bytes
  | 0, _, _ => none
  | fuel + 1, depth, b =>
    if b.isEmpty then none
    else match varint b with
    | none => none
    | some (wire, rest) =>
      let wt := wire % 8
      let after : Option (Nat × Bytes) :=
        if wt = 0 then (skipVarintAux 0 rest).map fun r => (depth, r)
        else if wt = 1 then (if rest.length < 8 then none else some (depth, rest.drop 8))
        else if wt = 2 then
          (match varint rest with
           | none => none
           | some (m, r) => if m ≥ two63 then none else if m > r.length then none else some (depth, r.drop m))
        else if wt = 3 then some (depth + 1, rest)
        else if wt = 4 then (if depth = 0 then none else some (depth - 1, rest))
        else if wt = 5 then (if rest.length < 4 then none else some (depth, rest.drop 4))
        else none
      match after with
      | none => none
      | some (d', r) => if d' = 0 then some r else skipAux fuel d' r

def skip (b : Bytes) : Option Bytes := skipAux (b.length + 1) 0 b

/-- tag of a generated decoder: (fieldNum as int32, wireType, rest); `none` = error. -/
def tag (b : Bytes) : Option (Int × Nat × Bytes) :=
  match varint b with
  | none => none
  | some (wire, rest) =>
    let f32 : Nat := (wire / 8) % 4294967296
    let fieldNum : Int := if f32 ≥ 2147483648 then Int.ofNat f32 - 4294967296 else Int.ofNat f32
    let wt : Nat := wire % 8
    if wt = 4 then none else if fieldNum ≤ 0 then none else some (fieldNum, wt, rest)

/-- the common shape of a generated `UnmarshalVT` whose known fields are all length-delimited:
`known field` decides whether a field number is known; known fields must have wire type 2 -/
def msgLoop {σ : Type} (known : Int → Bool) (step : Int → Bytes → σ → Option σ) :
    Nat → Bytes → σ → Option σ
  | 0, _, _ => none
  | fuel + 1, b, st =>
    if b.isEmpty then some st
    else match tag b with
    | none => none
    | some (f, wt, rest) =>
      if known f then
        (if wt ≠ 2 then none
         else match lenDelimited rest with
         | none => none
         | some (body, rest') =>
           match step f body st with
           | none => none
           | some st' => msgLoop known step fuel rest' st')
      else match skip b with
        | none => none
        | some rest' => msgLoop known step fuel rest' st

def runMsg {σ : Type} (known : Int → Bool) (step : Int → Bytes → σ → Option σ) (b : Bytes) (st : σ) :
    Option σ := msgLoop known step (b.length + 1) b st

/-- `AclEncryptedReadKey.UnmarshalVT` -/
def decodeERK (b : Bytes) : Option ERK :=
  runMsg (fun f => f = 1 || f = 2)
    (fun f body (e : ERK) => some (if f = 1 then { e with identity := body } else { e with key := body }))
    b ⟨[], []⟩

/-- `AclReadKeyChange.UnmarshalVT` -/
def decodeRKC (b : Bytes) : Option RKC :=
  runMsg (fun f => f = 1 || f = 2 || f = 3 || f = 4 || f = 5)
    (fun f body (k : RKC) =>
      if f = 1 then (decodeERK body).map fun e => { k with accountKeys := k.accountKeys ++ [e] }
      else if f = 2 then some { k with mdPub := body }
      else if f = 3 then some { k with encMeta := body }
      else if f = 4 then some { k with encOld := body }
      else (decodeERK body).map fun e => { k with inviteKeys := k.inviteKeys ++ [e] })
    b RKC.empty

/-- merging a second `readKeyChange` submessage into an existing one (generated code calls
`UnmarshalVT` on the same struct): repeated fields append, scalars are overwritten when present.
Modelled by decoding on top of the previous value. -/
def decodeRKCOnto (k0 : RKC) (b : Bytes) : Option RKC :=
  runMsg (fun f => f = 1 || f = 2 || f = 3 || f = 4 || f = 5)
    (fun f body (k : RKC) =>
      if f = 1 then (decodeERK body).map fun e => { k with accountKeys := k.accountKeys ++ [e] }
      else if f = 2 then some { k with mdPub := body }
      else if f = 3 then some { k with encMeta := body }
      else if f = 4 then some { k with encOld := body }
      else (decodeERK body).map fun e => { k with inviteKeys := k.inviteKeys ++ [e] })
    b k0

/-- `AclAccountRemove.UnmarshalVT` onto an existing value (merge) -/
def decodeRemOnto (st0 : List Bytes × Option RKC) (b : Bytes) : Option (List Bytes × Option RKC) :=
  runMsg (fun f => f = 1 || f = 2)
    (fun f body (st : List Bytes × Option RKC) =>
      if f = 1 then some (st.1 ++ [body], st.2)
      else (decodeRKCOnto (st.2.getD RKC.empty) body).map fun k => (st.1, some k))
    b st0

/-- `AclContentValue.UnmarshalVT`: sixteen length-delimited oneof members. A member of the variant
already held is merged into it, any other member replaces the value. The fourteen variants that
carry no read keys are decoded by `other` (their generated decoders, abstract: `true` = no error)
and yield `.other`. -/
def decodeContent (other : Int → Bytes → Bool) (b : Bytes) : Option Cnt :=
  runMsg (fun f => decide (1 ≤ f ∧ f ≤ 16))
    (fun f body (c : Cnt) =>
      if f = 7 then
        (match c with
         | .rkc k => (decodeRKCOnto k body).map .rkc
         | _ => (decodeRKCOnto RKC.empty body).map .rkc)
      else if f = 6 then
        (match c with
         | .rem ids k => (decodeRemOnto (ids, k) body).map fun st => .rem st.1 st.2
         | _ => (decodeRemOnto ([], none) body).map fun st => .rem st.1 st.2)
      else if other f body then some .other else none)
    b .other

/-- `AclData.UnmarshalVT` -/
def decodeData (other : Int → Bytes → Bool) (b : Bytes) : Option (List Cnt) :=
  runMsg (fun f => f = 1)
    (fun _ body (l : List Cnt) => (decodeContent other body).map fun c => l ++ [c])
    b []

end Vt

/-- `filterAccountKeys` inside `fullDecodeFilter` -/
def filterRKC (isOurs : Bytes → Bool) (k : RKC) : RKC :=
  { k with accountKeys := k.accountKeys.filter fun e => isOurs e.identity }

def filterCnt (isOurs : Bytes → Bool) : Cnt → Cnt
  | .rkc k => .rkc (filterRKC isOurs k)
  | .rem ids (some k) => .rem ids (some (filterRKC isOurs k))
  | c => c

/-- `fullDecodeFilter` -/
def fullDecodeFilter (other : Int → Bytes → Bool) (isOurs : Bytes → Bool) (d : Bytes) : Option (List Cnt) :=
  (Vt.decodeData other d).map fun l => l.map (filterCnt isOurs)

/-- the fast path instantiated with the generated element decoder -/
def fast (isOurs : Bytes → Bool) (d : Bytes) : Res (List Cnt) :=
  Fast.keepIdentityFast Vt.decodeERK isOurs d

end AnySync.Acl.Keep
