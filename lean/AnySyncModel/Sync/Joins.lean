import AnySyncModel.Sync.Exchange
/-! the anti-entropy exchange, step by step (helper lemmas for `antiEntropy_joins`) -/
namespace AnySync.Sync

/-- what one successful step keeps -/
structure Keeps (s s' : State) : Prop where
  inv : Inv s'
  n : s'.n = s.n
  dag : s'.dag = s.dag

theorem sync_step (s : State) (r q : Nat) (h : Inv s) (hr : r < s.n) (hq : q < s.n) (hne : r ≠ q) :
    ∃ s', step s (.sync r q) = some s' ∧ Keeps s s' ∧ (∀ x, s'.get x = s.get x) ∧
      s'.nextMid = s.nextMid + 1 ∧
      findMsg s' s.nextMid = some (Msg.mk .req r q (heads s.dag (s.get r)) [] (s.get r)) := by
  have hc : (decide (r < s.n) && decide (q < s.n) && r != q) = true := by simp [hr, hq, hne]
  have hs : step s (.sync r q) = some (enqueue s [{ kind := .req, src := r, dst := q, heads := heads s.dag (s.get r), changes := [], have_ := s.get r }]) := by
    simp only [step, stepE, hc, if_true, Option.map_some]
  exact ⟨_, hs, ⟨inv_step _ _ _ h hs, rfl, rfl⟩, fun _ => rfl, rfl, findMsg_enqueue_new0 h.fresh⟩

theorem guard_ok {s : State} {m : Msg} (hm : MsgOk s m) :
    (!(decide (m.dst < s.n) && decide (m.src < s.n) && m.src != m.dst)) = false := by
  simp [hm.dst_lt, hm.src_lt, hm.ne]

/-- the reference answer to a full-sync request -/
theorem canon_req (s : State) (mid : Nat) (m : Msg) (h : Inv s) (hf : findMsg s mid = some m)
    (hk : m.kind = .req) :
    ∃ s', step s (canonDeliver s mid) = some s' ∧ Keeps s s' ∧ (∀ x, s'.get x = s.get x) ∧
      s.nextMid + 1 ≤ s'.nextMid ∧
      findMsg s' s.nextMid = some (Msg.mk .resp m.dst m.src (heads s.dag (s.get m.dst))
        (respond s.dag (s.get m.dst) m.heads) (s.get m.dst)) ∧
      ((heads s.dag (s.get m.dst) != m.heads) = true →
        findMsg s' (s.nextMid + 1) = some (Msg.mk .req m.dst m.src (heads s.dag (s.get m.dst)) []
          (s.get m.dst))) ∧
      (∀ mid' m', mid' ≠ mid → findMsg s mid' = some m' → findMsg s' mid' = some m') := by
  have hm := h.msgs _ (findMsg_mem hf)
  have hm' : MsgOk (removeMsg s mid) m := hm.mono rfl rfl (fun _ _ hx => hx)
  have hcan : canonDeliver s mid = .deliver mid false (heads s.dag (s.get m.dst) != m.heads)
      [(heads s.dag (s.get m.dst), respond s.dag (s.get m.dst) m.heads)] := by
    simp only [canonDeliver, hf, hk]
  have hvalid : validResps s.dag (s.get m.dst) m.have_
      [(heads s.dag (s.get m.dst), respond s.dag (s.get m.dst) m.heads)] = true :=
    validResps_canon _ _ _ _ (h.closed _) (h.bounded _) hm.have_closed hm.heads_have
  have hok : okReq (removeMsg s mid) m false (heads s.dag (s.get m.dst) != m.heads)
      [(heads s.dag (s.get m.dst), respond s.dag (s.get m.dst) m.heads)] = true := by
    simp only [okReq, Bool.and_eq_true]
    exact ⟨⟨by simp [removeMsg, State.get], by simp⟩, hvalid⟩
  have hstep : step s (canonDeliver s mid) = some (enqueue (removeMsg s mid)
      (outReq (removeMsg s mid) m (heads s.dag (s.get m.dst) != m.heads)
        [(heads s.dag (s.get m.dst), respond s.dag (s.get m.dst) m.heads)])) := by
    rw [hcan]
    simp only [step, stepE, hf, deliverMsg, guard_ok hm', hk, hok, if_true, Option.map_some,
      Bool.false_eq_true, if_false]
  refine ⟨_, hstep, ⟨inv_step _ _ _ h hstep, rfl, rfl⟩, fun _ => rfl, ?_, ?_, ?_, ?_⟩
  · simp [enqueue, outReq, removeMsg]
  · have hfr := (inv_removeMsg s mid h).fresh
    simp only [outReq, List.map_cons, List.map_nil, List.cons_append, List.nil_append]
    exact findMsg_enqueue_new0 (s := removeMsg s mid) hfr
  · intro hne
    have hfr := (inv_removeMsg s mid h).fresh
    simp only [outReq, List.map_cons, List.map_nil, List.cons_append, List.nil_append, hne, if_true]
    exact findMsg_enqueue_new1 (s := removeMsg s mid) hfr
  · intro mid' m' hne hf'
    apply findMsg_enqueue_old
    rw [findMsg_removeMsg_ne hne]; exact hf'

/-- the reference handling of a head update or a response batch -/
theorem canon_changes (s : State) (mid : Nat) (m : Msg) (h : Inv s) (hf : findMsg s mid = some m)
    (hk : m.kind ≠ .req) :
    ∃ s', step s (canonDeliver s mid) = some s' ∧ Keeps s s' ∧
      s'.get m.dst = attach s.dag (s.get m.dst) m.changes ∧
      (∀ x, x ≠ m.dst → s'.get x = s.get x) ∧ s.nextMid ≤ s'.nextMid ∧
      (∀ mid' m', mid' ≠ mid → findMsg s mid' = some m' → findMsg s' mid' = some m') := by
  have hm := h.msgs _ (findMsg_mem hf)
  have hm' : MsgOk (removeMsg s mid) m := hm.mono rfl rfl (fun _ _ hx => hx)
  have hjl : m.dst < (removeMsg s mid).sets.length := h.len ▸ hm.dst_lt
  obtain ⟨bh, bq, hcan, hokk⟩ : ∃ bh bq, canonDeliver s mid = .deliver mid bh bq [] ∧
      ((m.kind = .hu ∧ okHU (removeMsg s mid) m bh bq = true) ∨
       (m.kind = .resp ∧ okResp (removeMsg s mid) m bh bq = true)) := by
    cases hkk : m.kind with
    | req => exact absurd hkk hk
    | hu =>
      refine ⟨!(newly (s.get m.dst) (attach s.dag (s.get m.dst) m.changes)).isEmpty,
        !(hasAll (attach s.dag (s.get m.dst) m.changes) m.heads), by simp only [canonDeliver, hf, hkk], Or.inl ⟨rfl, ?_⟩⟩
      simp only [okHU, removeMsg, State.get]
      cases (newly (s.sets.getD m.dst []) (attach s.dag (s.sets.getD m.dst []) m.changes)).isEmpty <;>
        cases hasAll (attach s.dag (s.sets.getD m.dst []) m.changes) m.heads <;> simp
    | resp =>
      refine ⟨!(newly (s.get m.dst) (attach s.dag (s.get m.dst) m.changes)).isEmpty, false,
        by simp only [canonDeliver, hf, hkk], Or.inr ⟨rfl, ?_⟩⟩
      simp only [okResp, removeMsg, State.get]
      cases (newly (s.sets.getD m.dst []) (attach s.dag (s.sets.getD m.dst []) m.changes)).isEmpty <;> simp
  have hstep : step s (canonDeliver s mid) = some (enqueue (applyChanges (removeMsg s mid) m bh bq).1
      (applyChanges (removeMsg s mid) m bh bq).2) := by
    rw [hcan]
    rcases hokk with ⟨hkk, hok⟩ | ⟨hkk, hok⟩ <;>
      simp only [step, stepE, hf, deliverMsg, guard_ok hm', hkk, hok, List.isEmpty_nil, Bool.and_self,
        if_true, Option.map_some, Bool.false_eq_true, if_false]
  refine ⟨_, hstep, ⟨inv_step _ _ _ h hstep, rfl, rfl⟩, ?_, ?_, ?_, ?_⟩
  · show (setSet (removeMsg s mid) m.dst _).get m.dst = _
    rw [get_setSet_same _ _ _ hjl]; rfl
  · intro x hx
    show (setSet (removeMsg s mid) m.dst _).get x = _
    rw [get_setSet_ne _ _ _ _ (Ne.symm hx)]; rfl
  · simp [enqueue, applyChanges, setSet, removeMsg]
  · intro mid' m' hne hf'
    apply findMsg_enqueue_old
    show findMsg (removeMsg s mid) mid' = some m'
    rw [findMsg_removeMsg_ne hne]; exact hf'

end AnySync.Sync

namespace AnySync.Sync

theorem antiEntropy_spec (s : State) (r q : Nat) (h : Inv s) (hr : r < s.n) (hq : q < s.n)
    (hne : r ≠ q) :
    ∃ s', antiEntropy s r q = some s' ∧ Keeps s s' ∧
      (∀ x, x ∈ s'.get r ↔ x ∈ s.get r ∨ x ∈ s.get q) ∧
      (∀ x, x ∈ s'.get q ↔ x ∈ s.get r ∨ x ∈ s.get q) ∧
      (∀ z, z ≠ r → z ≠ q → s'.get z = s.get z) := by
  -- 1. r: SyncWithPeer(q)
  obtain ⟨s1, h1, k1, g1, n1, f1⟩ := sync_step s r q h hr hq hne
  -- 2. q answers
  obtain ⟨s2, h2, k2, g2, _, fR, fQ, _⟩ := canon_req s1 s.nextMid _ k1.inv f1 rfl
  simp only [g1, k1.dag, n1] at fR fQ
  -- 3. r applies the response
  obtain ⟨s3, h3, k3, g3r, g3o, _, fold3⟩ := canon_changes s2 (s.nextMid + 1) _ k2.inv fR (by simp)
  simp only [g2, g1, k2.dag, k1.dag] at g3r g3o
  have hd3 : s3.dag = s.dag := k3.dag.trans (k2.dag.trans k1.dag)
  have hr3 : ∀ x, x ∈ s3.get r ↔ x ∈ s.get r ∨ x ∈ s.get q := by
    intro x
    rw [g3r]
    exact attach_respond s.dag (s.get r) (s.get q) (s.get r) (heads s.dag (s.get r)) h.wf (h.closed q)
      (h.bounded q) (h.closed r) (fun y hy => (mem_heads.1 hy).2.1) (fun _ hy => hy) x
  have hq3 : s3.get q = s.get q := g3o q (Ne.symm hne)
  by_cases hdiff : (heads s.dag (s.get q) != heads s.dag (s.get r)) = true
  · -- 4. r answers the counter-request, 5. q applies
    have fQ3 := fold3 (s.nextMid + 2) _ (by omega) (fQ hdiff)
    obtain ⟨s4, h4, k4, g4, _, fR2, _, _⟩ := canon_req s3 (s.nextMid + 2) _ k3.inv fQ3 rfl
    simp only [hd3] at fR2
    obtain ⟨s5, h5, k5, g5q, g5o, _, _⟩ := canon_changes s4 s3.nextMid _ k4.inv fR2 (by simp)
    simp only [g4, k4.dag, hd3, hq3] at g5q g5o
    refine ⟨s5, ?_, ⟨k5.inv, ?_, ?_⟩, ?_, ?_, ?_⟩
    · simp only [antiEntropy, h1, h2, h3, hdiff, if_true, h4, h5]
    · rw [k5.n, k4.n, k3.n, k2.n, k1.n]
    · rw [k5.dag, k4.dag, hd3]
    · intro x; rw [g5o r hne]; exact hr3 x
    · intro x
      rw [g5q]
      have hcl3 : Closed s.dag (s3.get r) := hd3 ▸ k3.inv.closed r
      have hb3 : Bounded s.dag (s3.get r) := hd3 ▸ k3.inv.bounded r
      rw [attach_respond s.dag (s.get q) (s3.get r) (s.get q) (heads s.dag (s.get q)) h.wf hcl3 hb3
        (h.closed q) (fun y hy => (mem_heads.1 hy).2.1) (fun _ hy => hy) x, hr3 x]
      constructor
      · rintro (hx | hx | hx)
        · exact Or.inr hx
        · exact Or.inl hx
        · exact Or.inr hx
      · rintro (hx | hx)
        · exact Or.inr (Or.inl hx)
        · exact Or.inl hx
    · intro z hzr hzq
      rw [g5o z hzq, g3o z hzr]
  · -- equal heads: the two sets were already equal
    have heq : heads s.dag (s.get q) = heads s.dag (s.get r) := by
      simpa [bne_iff_ne] using hdiff
    have hqr : ∀ x ∈ s.get q, x ∈ s.get r :=
      sub_of_heads_sub s.dag _ _ h.wf (h.bounded q) (h.closed r)
        (fun x hx => (mem_heads.1 (heq ▸ hx)).2.1)
    have hrq : ∀ x ∈ s.get r, x ∈ s.get q :=
      sub_of_heads_sub s.dag _ _ h.wf (h.bounded r) (h.closed q)
        (fun x hx => (mem_heads.1 (heq ▸ hx)).2.1)
    refine ⟨s3, ?_, ⟨k3.inv, ?_, hd3⟩, hr3, ?_, ?_⟩
    · simp only [antiEntropy, h1, h2, h3, hdiff]
      simp
    · rw [k3.n, k2.n, k1.n]
    · intro x
      rw [hq3]
      exact ⟨fun hx => Or.inr hx, fun hx => hx.elim (hrq x) id⟩
    · intro z hzr _
      exact g3o z hzr

end AnySync.Sync
