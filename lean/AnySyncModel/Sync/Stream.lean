import AnySyncModel.Sync.Phase
/-! applying a whole (multi-batch) response stream in order (helper lemmas) -/
namespace AnySync.Sync

/-- `HandleResponse` for each batch of a response stream, in order -/
def applyBatches (g : Dag) (T : List Nat) : List (List Nat × List Nat) → List Nat
  | [] => T
  | (_, c) :: rest => applyBatches g (attach g T c) rest

theorem applyBatches_mono (g : Dag) (T : List Nat) (resps : List (List Nat × List Nat)) (x : Nat)
    (h : x ∈ T) : x ∈ applyBatches g T resps := by
  induction resps generalizing T with
  | nil => exact h
  | cons hc rest ih => exact ih _ (attach_mono _ _ _ x h)

theorem applyBatches_closed (g : Dag) (T : List Nat) (resps : List (List Nat × List Nat))
    (h : Closed g T) : Closed g (applyBatches g T resps) := by
  induction resps generalizing T with
  | nil => exact h
  | cons hc rest ih => exact ih _ (attach_closed _ _ _ h)

theorem applyBatches_sub (g : Dag) (T : List Nat) (resps : List (List Nat × List Nat)) (x : Nat)
    (h : x ∈ applyBatches g T resps) : x ∈ T ∨ x ∈ batchChanges resps := by
  induction resps generalizing T with
  | nil => exact Or.inl h
  | cons hc rest ih =>
    simp only [batchChanges, List.flatMap_cons, List.mem_append]
    rcases ih _ h with h1 | h1
    · rcases attach_sub _ _ _ x h1 with h2 | h2
      · exact Or.inl h2
      · exact Or.inr (Or.inl h2.2)
    · exact Or.inr (Or.inr h1)

/-- if the requester holds `base`, and batch by batch `base ∪ batches so far` is closed under
parents, then after applying the batches in order it holds `base` and every batch -/
theorem applyBatches_complete (g : Dag) (hwf : WF g) (base T : List Nat)
    (resps : List (List Nat × List Nat)) (hb : ∀ x ∈ base, x ∈ T)
    (hlt : ∀ x ∈ batchChanges resps, x < g.length) (hc : cumClosed g base resps = true) :
    ∀ x, x ∈ base ∨ x ∈ batchChanges resps → x ∈ applyBatches g T resps := by
  induction resps generalizing base T with
  | nil =>
    intro x hx
    simp only [batchChanges, List.flatMap_nil, List.not_mem_nil, or_false] at hx
    exact hb x hx
  | cons hcb rest ih =>
    obtain ⟨hd, c⟩ := hcb
    simp only [cumClosed, Bool.and_eq_true, closedRel, List.all_eq_true, mem_hasAll] at hc
    simp only [batchChanges, List.flatMap_cons, List.mem_append] at hlt
    have hatt : ∀ x, x ∈ base ++ c → x ∈ attach g T c := by
      intro x hx
      rcases List.mem_append.1 hx with hx | hx
      · exact attach_mono _ _ _ x (hb x hx)
      · apply attach_complete g T c hwf _ x hx (hlt x (Or.inl hx))
        intro y hy p hp
        rcases List.mem_append.1 (hc.1 y hy p hp) with h1 | h1
        · exact Or.inl (hb p h1)
        · exact Or.inr h1
    intro x hx
    have := ih (base ++ c) (attach g T c) hatt (fun y hy => hlt y (Or.inr hy)) hc.2 x
    simp only [applyBatches]
    apply this
    simp only [batchChanges, List.flatMap_cons, List.mem_append] at hx
    rcases hx with hx | hx | hx
    · exact Or.inl (List.mem_append_left _ hx)
    · exact Or.inl (List.mem_append_right _ hx)
    · exact Or.inr hx

end AnySync.Sync
