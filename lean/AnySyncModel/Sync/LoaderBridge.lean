import AnySyncModel.Sync.SnapStep
import AnySyncModel.Tree.LoaderLemmas
/-!
Bridge between the loader model of the `tree` area (`AnySync.Tree.respond`: the stored sequence from
the common snapshot on, minus the marked ancestors of the requester's heads, cut into batches) and the
admissibility predicate `validResps` of the abstract synchronisation model (helper lemmas).
-/
namespace AnySync.Sync
open AnySync.Tree (SChange Batch)

/-- `cache` is what `GetAfterOrder(cs.OrderId)` returns for a responder holding `S`: stored changes
of `S` with their parent lists, and everything of `S` at/after `cs` is among them -/
structure CacheOf (g : Dag) (S : List Nat) (cs : Nat) (cache : List SChange) : Prop where
  ids : ∀ c ∈ cache, c.id ∈ S ∧ c.prevs = parents g c.id
  cover : ∀ x ∈ S, x ∉ cache.map (·.id) → ¬ AncEq g cs x

/-- the batches as the abstract model sees them: (announced heads, change ids) -/
def toResps (bs : List Batch) : List (List Nat × List Nat) := bs.map (fun b => (b.heads, b.ids))

theorem batchChanges_toResps (bs : List Batch) :
    batchChanges (toResps bs) = (AnySync.Tree.flat bs).map (·.id) := by
  simp [batchChanges, toResps, AnySync.Tree.flat, List.flatMap_map, List.map_flatMap, Batch.ids]

theorem respond_flat (cache : List SChange) (H : List Nat) (max : Nat) :
    AnySync.Tree.flat (AnySync.Tree.respond cache H max) =
      AnySync.Tree.keep (fun x => (AnySync.Tree.removedSet cache H).contains x) cache :=
  AnySync.Tree.batches_flat _ max _ cache (Nat.lt_succ_self _)

theorem reach_anc {g : Dag} {S : List Nat} {cs : Nat} {cache : List SChange} (hc : CacheOf g S cs cache)
    {h x : Nat} (hr : AnySync.Tree.Reach cache h x) : AncEq g x h := by
  induction hr with
  | refl => exact .refl _
  | step e _ ih =>
    obtain ⟨d, hd, hid, hp⟩ := e
    rw [(hc.ids d hd).2, hid] at hp
    exact .step ih hp

theorem cumClosed_of (g : Dag) (base : List Nat) (resps : List (List Nat × List Nat))
    (h : ∀ pre b post, resps = pre ++ b :: post → ∀ x ∈ b.2, ∀ p ∈ parents g x,
      p ∈ base ∨ p ∈ batchChanges (pre ++ [b])) : cumClosed g base resps = true := by
  induction resps generalizing base with
  | nil => rfl
  | cons b rest ih =>
    obtain ⟨hd, c⟩ := b
    simp only [cumClosed, Bool.and_eq_true, closedRel, List.all_eq_true, mem_hasAll]
    constructor
    · intro x hx p hp
      rcases h [] (hd, c) rest rfl x hx p hp with h1 | h1
      · exact List.mem_append_left _ h1
      · exact List.mem_append_right _ (by simpa [batchChanges] using h1)
    · apply ih
      intro pre b' post hrest x hx p hp
      rcases h ((hd, c) :: pre) b' post (by rw [hrest]; rfl) x hx p hp with h1 | h1
      · exact Or.inl (List.mem_append_left _ h1)
      · simp only [List.cons_append, batchChanges, List.flatMap_cons, List.mem_append] at h1
        rcases h1 with h1 | h1
        · exact Or.inl (List.mem_append_right _ h1)
        · exact Or.inr h1

/-- **the loader's answer is admissible**, given that what lies before the common snapshot is held
by the requester (`hcut`) and the stored order is a linear extension (`hlin`, C06) -/
theorem loader_valid (g : Dag) (S hv H : List Nat) (cs : Nat) (cache : List SChange) (max : Nat)
    (hS : Closed g S) (hhv : Closed g hv) (hH : ∀ x ∈ H, x ∈ hv) (hc : CacheOf g S cs cache)
    (hlin : AnySync.Tree.LinExt cache) (hcut : ∀ x ∈ S, ¬ AncEq g cs x → x ∈ hv) :
    cumClosed g hv (toResps (AnySync.Tree.respond cache H max)) = true ∧
    hasAll (hv ++ batchChanges (toResps (AnySync.Tree.respond cache H max))) S = true ∧
    (∀ hc' ∈ toResps (AnySync.Tree.respond cache H max), ∀ x ∈ hc'.2, x ∈ S) := by
  have hrm : ∀ x ∈ AnySync.Tree.removedSet cache H, x ∈ hv := by
    intro x hx
    obtain ⟨h, hh, hr⟩ := AnySync.Tree.removedSet_sound cache H x hx
    exact ancEq_closed hhv (reach_anc hc hr) (hH h hh)
  refine ⟨?_, ?_, ?_⟩
  · apply cumClosed_of
    intro pre b post hsplit x hx p hp
    -- locate the change inside the flat answer
    obtain ⟨bs1, bb, bs2, hbs, hpre, hb, _⟩ : ∃ bs1 bb bs2,
        AnySync.Tree.respond cache H max = bs1 ++ bb :: bs2 ∧ pre = toResps bs1 ∧
        b = (bb.heads, bb.ids) ∧ post = toResps bs2 := by
      unfold toResps at hsplit
      obtain ⟨l1, l2, h1, h2, h3⟩ := List.map_eq_append_iff.1 hsplit
      obtain ⟨bb, bs2, h4, h5, h6⟩ := List.map_eq_cons_iff.1 h3
      exact ⟨l1, bb, bs2, by rw [h1, h4], h2.symm, h5.symm, h6.symm⟩
    subst hb
    simp only [Batch.ids, List.mem_map] at hx
    obtain ⟨c, hcb, rfl⟩ := hx
    obtain ⟨l1, l2, hl⟩ := List.append_of_mem hcb
    have hflat : AnySync.Tree.flat (AnySync.Tree.respond cache H max) =
        (AnySync.Tree.flat bs1 ++ l1) ++ c :: (l2 ++ AnySync.Tree.flat bs2) := by
      rw [hbs]; simp [AnySync.Tree.flat, hl]
    have hcc : c ∈ cache := by
      have : c ∈ AnySync.Tree.flat (AnySync.Tree.respond cache H max) := by rw [hflat]; simp
      rw [respond_flat] at this
      exact (List.mem_filter.1 this).1
    have hpp : p ∈ c.prevs := by rw [(hc.ids c hcc).2]; exact hp
    rw [respond_flat] at hflat
    rcases AnySync.Tree.keep_causal _ cache hlin _ c _ hflat p hpp with h1 | h1 | h1
    · right
      rw [hpre, ← List.map_singleton (f := fun b : Batch => (b.heads, b.ids)), ← toResps.eq_1,
        show toResps bs1 ++ toResps [bb] = toResps (bs1 ++ [bb]) by simp [toResps], batchChanges_toResps]
      simp only [List.map_append, List.mem_append] at h1
      simp only [AnySync.Tree.flat, List.flatMap_append, List.flatMap_cons, List.flatMap_nil,
        List.append_nil, List.map_append, List.mem_append]
      rcases h1 with h1 | h1
      · exact Or.inl h1
      · right; rw [hl]; simp only [List.map_append, List.mem_append]; exact Or.inl h1
    · exact Or.inl (hrm p (by simpa using h1))
    · exact Or.inl (hcut p (hS c.id (hc.ids c hcc).1 p hp) (hc.cover p (hS c.id (hc.ids c hcc).1 p hp) h1))
  · rw [mem_hasAll]
    intro x hx
    by_cases hin : x ∈ cache.map (·.id)
    · obtain ⟨c, hcc, rfl⟩ := List.mem_map.1 hin
      by_cases hr : c.id ∈ AnySync.Tree.removedSet cache H
      · exact List.mem_append_left _ (hrm _ hr)
      · apply List.mem_append_right
        rw [batchChanges_toResps, respond_flat]
        exact List.mem_map.2 ⟨c, List.mem_filter.2 ⟨hcc, by simpa using hr⟩, rfl⟩
    · exact List.mem_append_left _ (hcut x hx (hc.cover x hx hin))
  · intro hc' hmem x hx
    have : x ∈ batchChanges (toResps (AnySync.Tree.respond cache H max)) := by
      simp only [batchChanges, List.mem_flatMap]; exact ⟨hc', hmem, hx⟩
    rw [batchChanges_toResps, respond_flat] at this
    obtain ⟨c, hcm, rfl⟩ := List.mem_map.1 this
    exact (hc.ids c (List.mem_filter.1 hcm).1).1

end AnySync.Sync
