import AnySyncModel.Sync.Snapshot
/-!
The message-level model annotated with snapshot bases and in-memory roots, and the proof that the
snapshot invariant holds in every reachable state.

* a local add cites the adder's current root as its snapshot base (`AddContent`:
  `SnapshotBaseId = tree.RootId()`); a snapshot add makes the new change the root;
* a delivery may move the receiver's root to any snapshot that is held and lies on the chain of
  every head of the new set (`reduceTree` / `rebuildFromStorage` pick such a snapshot; the choice is
  part of the operation and validated, like the other resolutions of `step`).
-/
namespace AnySync.Sync

structure SState where
  base  : State
  sn    : List Nat
  roots : List Nat
deriving Repr

def SState.root (ss : SState) (r : Nat) : Nat := ss.roots.getD r 0

def sinit (n : Nat) : SState := { base := init n, sn := [0], roots := List.replicate n 0 }

inductive SOp where
  | add     (r c : Nat) (ps : List Nat) (isSnap : Bool)
  | deliver (mid : Nat) (bh bq : Bool) (resps : List (List Nat × List Nat)) (root' : Nat)
  | drop    (mid : Nat)
  | dup     (mid : Nat)
  | sync    (r q : Nat)
  /-- a replica rebuilds its in-memory tree from storage (rollback after a failed storage write,
  restart): nothing but the root may change -/
  | reroot  (r root' : Nat)
deriving Repr

def sstep (ss : SState) : SOp → Option SState
  | .add r c ps isSnap =>
    match step ss.base (.add r c ps) with
    | none => none
    | some b => some { base := b, sn := ss.sn ++ [ss.root r],
                       roots := ss.roots.set r (if isSnap then c else ss.root r) }
  | .deliver mid bh bq resps root' =>
    match findMsg ss.base mid with
    | none => none
    | some m =>
      match step ss.base (.deliver mid bh bq resps) with
      | none => none
      | some b =>
        if rootOkB b.dag ss.sn (b.get m.dst) root' then
          some { base := b, sn := ss.sn, roots := ss.roots.set m.dst root' }
        else none
  | .drop mid => (step ss.base (.drop mid)).map (fun b => { ss with base := b })
  | .dup mid => (step ss.base (.dup mid)).map (fun b => { ss with base := b })
  | .sync r q => (step ss.base (.sync r q)).map (fun b => { ss with base := b })
  | .reroot r root' =>
    if decide (r < ss.base.n) && rootOkB ss.base.dag ss.sn (ss.base.get r) root' then
      some { ss with roots := ss.roots.set r root' }
    else none

def srun (ss : SState) : List SOp → Option SState
  | [] => some ss
  | op :: ops => match sstep ss op with
    | none => none
    | some ss' => srun ss' ops

/-- the invariant of the annotated model -/
structure SInv (ss : SState) : Prop where
  inv : Inv ss.base
  snap : SnapInv ss.base.dag ss.sn
  rlen : ss.roots.length = ss.base.n
  rootOk : ∀ r, r < ss.base.n → RootOk ss.base.dag ss.sn (ss.base.get r) (ss.root r)

/-! ### extension by a local add -/

theorem snapOf_append_old (sn : List Nat) (b c : Nat) (h : c < sn.length) :
    snapOf (sn ++ [b]) c = snapOf sn c := by
  simp [snapOf, List.getD_eq_getElem?_getD, List.getElem?_append_left h]

theorem snapOf_append_new (sn : List Nat) (b : Nat) : snapOf (sn ++ [b]) sn.length = b := by
  simp [snapOf, List.getD_eq_getElem?_getD]

theorem onChain_append {g : Dag} {sn : List Nat} (hwf : WF g) (hs : SnapInv g sn) (b : Nat)
    {c cs : Nat} (h : OnChain sn c cs) (hc : c < g.length) : OnChain (sn ++ [b]) c cs := by
  induction h with
  | here => exact .here _
  | next _ ih =>
    apply OnChain.next
    rw [snapOf_append_old sn b _ (hs.len ▸ hc)]
    exact ih (snap_lt hwf hs hc)

theorem snapInv_extend {g : Dag} {sn S : List Nat} {b : Nat} (hwf : WF g) (hs : SnapInv g sn)
    (hcl : Closed g S) (hb : Bounded g S) (hr : RootOk g sn S b) :
    SnapInv (g ++ [heads g S]) (sn ++ [b]) := by
  have hbS : b < g.length := hb b hr.1
  -- the root is below the new change
  have hroot : AncEq (g ++ [heads g S]) b g.length := by
    obtain ⟨h, hh, ha⟩ := exists_head_above g S hwf hb b hr.1
    exact .step (ancEq_append _ ha) (by rw [parents_append_new]; exact hh)
  refine ⟨by simp [hs.len], ?_, ?_⟩
  · intro c hc
    simp only [List.length_append, List.length_cons, List.length_nil] at hc
    by_cases hc' : c < g.length
    · rw [snapOf_append_old sn b c (hs.len ▸ hc')]
      exact ancEq_append _ (hs.base c hc')
    · have : c = g.length := by omega
      subst this
      rw [← hs.len, snapOf_append_new]
      rw [hs.len]; exact hroot
  · intro c hc a ha
    simp only [List.length_append, List.length_cons, List.length_nil] at hc
    by_cases hc' : c < g.length
    · rw [snapOf_append_old sn b c (hs.len ▸ hc')]
      rcases hs.comp c hc' a (ancEq_append_old hwf _ ha hc') with h | h
      · exact Or.inl (ancEq_append _ h)
      · exact Or.inr (ancEq_append _ h)
    · have : c = g.length := by omega
      subst this
      have hsn : snapOf (sn ++ [b]) g.length = b := by rw [← hs.len, snapOf_append_new]
      rw [hsn]
      rcases ancEq_append_new hwf _ (fun p hp => (mem_heads.1 hp).1) ha with rfl | ⟨p, hp, hap⟩
      · exact Or.inr hroot
      · have haS : a ∈ S := ancEq_closed hcl hap (mem_heads.1 hp).2.1
        rcases comparable_set hwf hs hb hr (.here b) a haS with h | h
        · exact Or.inl (ancEq_append _ h)
        · exact Or.inr (ancEq_append _ h)

theorem rootOk_extend_other {g : Dag} {sn T : List Nat} {root : Nat} (hwf : WF g) (hs : SnapInv g sn)
    (ps : List Nat) (b : Nat) (hb : Bounded g T) (hr : RootOk g sn T root) :
    RootOk (g ++ [ps]) (sn ++ [b]) T root := by
  refine ⟨hr.1, fun h hh => ?_⟩
  have hh' := (mem_heads_append g ps T hb h).1 hh
  exact onChain_append hwf hs b (hr.2 h hh') (mem_heads.1 hh').1

theorem rootOk_extend_self {g : Dag} {sn S : List Nat} {b : Nat} (hwf : WF g) (hs : SnapInv g sn)
    (hb : Bounded g S) (hr : RootOk g sn S b) (isSnap : Bool) :
    RootOk (g ++ [heads g S]) (sn ++ [b]) (S ++ [g.length]) (if isSnap then g.length else b) := by
  constructor
  · cases isSnap
    · simpa using Or.inl hr.1
    · simp
  · intro h hh
    have : h = g.length := by
      have := (heads_after_add g S hwf hb h).2 hh
      simpa using this
    subst this
    cases isSnap
    · simp only [Bool.false_eq_true, if_false]
      apply OnChain.next
      rw [← hs.len, snapOf_append_new]
      exact .here b
    · simp only [if_true]; exact .here _

/-! ### shapes of the base steps -/

theorem step_add_shape {s s' : State} {r c : Nat} {ps : List Nat} (h : step s (.add r c ps) = some s') :
    r < s.n ∧ c = s.dag.length ∧ ps = heads s.dag (s.get r) ∧ s'.dag = s.dag ++ [ps] ∧ s'.n = s.n ∧
    s'.sets = s.sets.set r (s.get r ++ [c]) := by
  simp only [step, stepE] at h
  split at h
  · rename_i hc
    simp only [Bool.and_eq_true, decide_eq_true_eq, beq_iff_eq] at hc
    simp only [Option.map_some, Option.some.injEq] at h
    subst h
    exact ⟨hc.1.1, hc.1.2, hc.2, rfl, rfl, rfl⟩
  · simp at h

theorem step_deliver_shape {s s' : State} {mid : Nat} {bh bq : Bool} {resps : List (List Nat × List Nat)}
    {m : Msg} (hf : findMsg s mid = some m) (h : step s (.deliver mid bh bq resps) = some s') :
    s'.dag = s.dag ∧ s'.n = s.n ∧ ∀ x, x ≠ m.dst → s'.get x = s.get x := by
  simp only [step, stepE, hf] at h
  cases hd : deliverMsg (removeMsg s mid) m bh bq resps with
  | none => simp [hd] at h
  | some p =>
    obtain ⟨s1, out⟩ := p
    simp only [hd, Option.map_some, Option.some.injEq] at h
    subst h
    rcases deliverMsg_cases hd with ⟨_, rfl, _, _⟩ | ⟨_, ha⟩
    · exact ⟨rfl, rfl, fun _ _ => rfl⟩
    · simp only [applyChanges, Prod.mk.injEq] at ha
      obtain ⟨rfl, _⟩ := ha
      refine ⟨rfl, rfl, fun x hx => ?_⟩
      show (setSet (removeMsg s mid) m.dst _).get x = _
      rw [get_setSet_ne _ _ _ _ (Ne.symm hx)]; rfl

theorem root_set_same (ss : SState) (r v : Nat) (h : r < ss.roots.length) :
    (ss.roots.set r v).getD r 0 = v := by
  simp [List.getD_eq_getElem?_getD, h]

theorem root_set_ne (ss : SState) (r r' v : Nat) (h : r ≠ r') :
    (ss.roots.set r v).getD r' 0 = ss.roots.getD r' 0 := by
  simp [List.getD_eq_getElem?_getD, List.getElem?_set, h]

/-! ### preservation -/

theorem sinv_init (n : Nat) : SInv (sinit n) :=
  { inv := inv_init n
    snap :=
      { len := by simp [sinit, init]
        base := by
          intro c hc
          simp [sinit, init] at hc; subst hc
          simp [sinit, snapOf]; exact .refl 0
        comp := by
          intro c hc a ha
          simp [sinit, init] at hc; subst hc
          exact Or.inl (by simpa [sinit, snapOf] using ha) }
    rlen := by simp [sinit, init]
    rootOk := by
      intro r hr
      have hn : r < n := by simpa [sinit, init] using hr
      have hget : (sinit n).base.get r = [0] := by
        simp [sinit, init, State.get, List.getD_eq_getElem?_getD, hn]
      have hroot : (sinit n).root r = 0 := by
        simp [sinit, SState.root, List.getD_eq_getElem?_getD, hn]
      rw [hget, hroot]
      refine ⟨by simp, fun h hh => ?_⟩
      have := (mem_heads.1 hh).2.1
      simp at this; subst this; exact .here 0 }

theorem sinv_other (ss : SState) (b : State) (h : SInv ss) (hinv : Inv b) (hd : b.dag = ss.base.dag)
    (hn : b.n = ss.base.n) (hg : ∀ x, b.get x = ss.base.get x) : SInv { ss with base := b } :=
  { inv := hinv, snap := hd ▸ h.snap, rlen := h.rlen.trans hn.symm,
    rootOk := by
      intro r hr
      show RootOk b.dag ss.sn (b.get r) (ss.root r)
      rw [hd, hg r]; exact h.rootOk r (hn ▸ hr) }

theorem sinv_reroot (ss : SState) (r root' : Nat) (h : SInv ss) (hr : r < ss.base.n)
    (hok : rootOkB ss.base.dag ss.sn (ss.base.get r) root' = true) :
    SInv { ss with roots := ss.roots.set r root' } :=
  { inv := h.inv, snap := h.snap
    rlen := by simp [h.rlen]
    rootOk := by
      intro x hx
      show RootOk ss.base.dag ss.sn (ss.base.get x) ((ss.roots.set r root').getD x 0)
      by_cases hxr : x = r
      · subst hxr
        rw [root_set_same ss _ _ (h.rlen ▸ hr)]
        exact rootOkB_sound hok
      · rw [root_set_ne ss _ x _ (Ne.symm hxr)]
        exact h.rootOk x hx }

theorem sinv_sstep (ss ss' : SState) (op : SOp) (h : SInv ss) (hs : sstep ss op = some ss') :
    SInv ss' := by
  cases op with
  | add r c ps isSnap =>
    simp only [sstep] at hs
    cases hb : step ss.base (.add r c ps) with
    | none => simp [hb] at hs
    | some b =>
      simp only [hb, Option.some.injEq] at hs
      subst hs
      obtain ⟨hr, rfl, rfl, hdag, hn, hsets⟩ := step_add_shape hb
      have hinv := inv_step _ _ _ h.inv hb
      have hrl : r < ss.base.sets.length := h.inv.len ▸ hr
      have hget_r : b.get r = ss.base.get r ++ [ss.base.dag.length] := by
        simp [State.get, hsets, List.getD_eq_getElem?_getD, hrl]
      have hget_o : ∀ x, x ≠ r → b.get x = ss.base.get x := by
        intro x hx
        simp [State.get, hsets, List.getD_eq_getElem?_getD, List.getElem?_set, Ne.symm hx]
      have hrk := h.rootOk r hr
      refine ⟨hinv, ?_, ?_, ?_⟩
      · show SnapInv b.dag (ss.sn ++ [ss.root r])
        rw [hdag]
        exact snapInv_extend h.inv.wf h.snap (h.inv.closed r) (h.inv.bounded r) hrk
      · show (ss.roots.set r _).length = b.n
        simp [h.rlen, hn]
      · intro x hx
        show RootOk b.dag (ss.sn ++ [ss.root r]) (b.get x) ((ss.roots.set r _).getD x 0)
        rw [hdag]
        by_cases hxr : x = r
        · subst hxr
          rw [hget_r, root_set_same ss x _ (h.rlen ▸ hr)]
          exact rootOk_extend_self h.inv.wf h.snap (h.inv.bounded x) hrk isSnap
        · rw [hget_o x hxr, root_set_ne ss r x _ (Ne.symm hxr)]
          exact rootOk_extend_other h.inv.wf h.snap _ _ (h.inv.bounded x) (h.rootOk x (hn ▸ hx))
  | deliver mid bh bq resps root' =>
    simp only [sstep] at hs
    cases hf : findMsg ss.base mid with
    | none => simp [hf] at hs
    | some m =>
      simp only [hf] at hs
      cases hb : step ss.base (.deliver mid bh bq resps) with
      | none => simp [hb] at hs
      | some b =>
        simp only [hb] at hs
        split at hs
        · rename_i hok
          simp only [Option.some.injEq] at hs
          subst hs
          obtain ⟨hdag, hn, hgo⟩ := step_deliver_shape hf hb
          have hm := h.inv.msgs _ (findMsg_mem hf)
          refine ⟨inv_step _ _ _ h.inv hb, hdag ▸ h.snap, ?_, ?_⟩
          · show (ss.roots.set m.dst root').length = b.n
            simp [h.rlen, hn]
          · intro x hx
            show RootOk b.dag ss.sn (b.get x) ((ss.roots.set m.dst root').getD x 0)
            by_cases hxd : x = m.dst
            · subst hxd
              rw [root_set_same ss _ _ (h.rlen ▸ hm.dst_lt)]
              exact rootOkB_sound hok
            · rw [root_set_ne ss _ x _ (Ne.symm hxd), hgo x hxd, hdag]
              exact h.rootOk x (hn ▸ hx)
        · simp at hs
  | drop mid =>
    simp only [sstep] at hs
    cases hb : step ss.base (.drop mid) with
    | none => simp [hb] at hs
    | some b =>
      simp only [hb, Option.map_some, Option.some.injEq] at hs
      subst hs
      have hf := step_facts hb
      exact sinv_other ss b h (inv_step _ _ _ h.inv hb) (hf.2.2 rfl) hf.1 (by
        intro x
        simp only [step, stepE] at hb
        cases hfm : findMsg ss.base mid with
        | none => simp [hfm] at hb
        | some m => simp [hfm] at hb; subst hb; rfl)
  | dup mid =>
    simp only [sstep] at hs
    cases hb : step ss.base (.dup mid) with
    | none => simp [hb] at hs
    | some b =>
      simp only [hb, Option.map_some, Option.some.injEq] at hs
      subst hs
      have hf := step_facts hb
      exact sinv_other ss b h (inv_step _ _ _ h.inv hb) (hf.2.2 rfl) hf.1 (by
        intro x
        simp only [step, stepE] at hb
        cases hfm : findMsg ss.base mid with
        | none => simp [hfm] at hb
        | some m => simp [hfm] at hb; subst hb; rfl)
  | sync r q =>
    simp only [sstep] at hs
    cases hb : step ss.base (.sync r q) with
    | none => simp [hb] at hs
    | some b =>
      simp only [hb, Option.map_some, Option.some.injEq] at hs
      subst hs
      have hf := step_facts hb
      exact sinv_other ss b h (inv_step _ _ _ h.inv hb) (hf.2.2 rfl) hf.1 (by
        intro x
        simp only [step, stepE] at hb
        split at hb
        · simp at hb; subst hb; rfl
        · simp at hb)
  | reroot r root' =>
    simp only [sstep] at hs
    split at hs
    · rename_i hc
      simp only [Bool.and_eq_true, decide_eq_true_eq] at hc
      simp only [Option.some.injEq] at hs
      subst hs
      exact sinv_reroot ss r root' h hc.1 hc.2
    · simp at hs

theorem sinv_srun (ss ss' : SState) (ops : List SOp) (h : SInv ss) (hr : srun ss ops = some ss') :
    SInv ss' := by
  induction ops generalizing ss with
  | nil => simp [srun] at hr; subst hr; exact h
  | cons op ops ih =>
    simp only [srun] at hr
    cases hs : sstep ss op with
    | none => simp [hs] at hr
    | some s1 => simp only [hs] at hr; exact ih s1 (sinv_sstep ss s1 op h hs) hr

end AnySync.Sync
