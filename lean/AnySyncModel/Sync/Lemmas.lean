import AnySyncModel.Sync.Spec
/-! helper lemmas for C01 (no property theorems here) -/
namespace AnySync.Sync

theorem mem_hasAll {S l : List Nat} : hasAll S l = true ↔ ∀ x ∈ l, x ∈ S := by
  simp [hasAll, List.all_eq_true]

theorem parents_append_old (g : Dag) (ps : List Nat) (c : Nat) (h : c < g.length) :
    parents (g ++ [ps]) c = parents g c := by
  simp [parents, List.getD_eq_getElem?_getD, List.getElem?_append_left h]

theorem parents_append_new (g : Dag) (ps : List Nat) : parents (g ++ [ps]) g.length = ps := by
  simp [parents, List.getD_eq_getElem?_getD]

theorem parents_out (g : Dag) (c : Nat) (h : g.length ≤ c) : parents g c = [] := by
  simp [parents, List.getD_eq_getElem?_getD, List.getElem?_eq_none h]

theorem mem_heads {g : Dag} {S : List Nat} {c : Nat} :
    c ∈ heads g S ↔ c < g.length ∧ c ∈ S ∧ ∀ d ∈ S, c ∉ parents g d := by
  simp [heads, List.mem_filter, List.mem_range]

theorem mem_canon {g : Dag} {S : List Nat} {c : Nat} : c ∈ canon g S ↔ c < g.length ∧ c ∈ S := by
  simp [canon, List.mem_filter, List.mem_range]

theorem mem_newly {S S' : List Nat} {c : Nat} : c ∈ newly S S' ↔ c ∈ S' ∧ c ∉ S := by
  simp [newly, List.mem_filter]

theorem heads_congr (g : Dag) (S T : List Nat) (h : ∀ x, x ∈ S ↔ x ∈ T) : heads g S = heads g T := by
  unfold heads
  apply List.filter_congr
  intro c _
  have h1 : S.contains c = T.contains c := by
    rw [Bool.eq_iff_iff]; simp [h c]
  have h2 : (S.any fun d => (parents g d).contains c) = (T.any fun d => (parents g d).contains c) := by
    rw [Bool.eq_iff_iff]; simp only [List.any_eq_true]
    constructor
    · rintro ⟨d, hd, hp⟩; exact ⟨d, (h d).1 hd, hp⟩
    · rintro ⟨d, hd, hp⟩; exact ⟨d, (h d).2 hd, hp⟩
  rw [h1, h2]

/-! ### attach -/

theorem attachStep_mono (g : Dag) (C acc : List Nat) (c x : Nat) (h : x ∈ acc) :
    x ∈ attachStep g C acc c := by
  unfold attachStep; split <;> simp [h]

theorem attachStep_sub (g : Dag) (C acc : List Nat) (c x : Nat) (h : x ∈ attachStep g C acc c) :
    x ∈ acc ∨ (x = c ∧ x ∈ C) := by
  unfold attachStep at h
  split at h
  · rename_i hc
    simp only [Bool.and_eq_true, List.contains_iff_mem] at hc
    rcases List.mem_append.1 h with h | h
    · exact Or.inl h
    · simp at h; subst h; exact Or.inr ⟨rfl, hc.1.1⟩
  · exact Or.inl h

theorem attachStep_closed (g : Dag) (C acc : List Nat) (c : Nat) (h : Closed g acc) :
    Closed g (attachStep g C acc c) := by
  unfold attachStep
  split
  · rename_i hc
    simp only [Bool.and_eq_true] at hc
    have hp := mem_hasAll.1 hc.2
    intro x hx p hpx
    rcases List.mem_append.1 hx with hx | hx
    · exact List.mem_append_left _ (h x hx p hpx)
    · simp at hx; subst hx; exact List.mem_append_left _ (hp p hpx)
  · exact h

theorem foldAttach_mono (g : Dag) (C : List Nat) (l : List Nat) (S : List Nat) (x : Nat) (h : x ∈ S) :
    x ∈ l.foldl (attachStep g C) S := by
  induction l generalizing S with
  | nil => simpa
  | cons c l ih => simp only [List.foldl_cons]; exact ih _ (attachStep_mono g C S c x h)

theorem foldAttach_sub (g : Dag) (C : List Nat) (l : List Nat) (S : List Nat) (x : Nat)
    (h : x ∈ l.foldl (attachStep g C) S) : x ∈ S ∨ (x ∈ l ∧ x ∈ C) := by
  induction l generalizing S with
  | nil => exact Or.inl (by simpa using h)
  | cons c l ih =>
    simp only [List.foldl_cons] at h
    rcases ih _ h with h1 | h1
    · rcases attachStep_sub g C S c x h1 with h2 | h2
      · exact Or.inl h2
      · exact Or.inr ⟨by simp [h2.1], h2.2⟩
    · exact Or.inr ⟨List.mem_cons_of_mem _ h1.1, h1.2⟩

theorem foldAttach_closed (g : Dag) (C : List Nat) (l : List Nat) (S : List Nat) (h : Closed g S) :
    Closed g (l.foldl (attachStep g C) S) := by
  induction l generalizing S with
  | nil => simpa
  | cons c l ih => simp only [List.foldl_cons]; exact ih _ (attachStep_closed g C S c h)

theorem attach_mono (g : Dag) (S C : List Nat) (x : Nat) (h : x ∈ S) : x ∈ attach g S C :=
  foldAttach_mono g C _ S x h

theorem attach_sub (g : Dag) (S C : List Nat) (x : Nat) (h : x ∈ attach g S C) :
    x ∈ S ∨ (x < g.length ∧ x ∈ C) := by
  rcases foldAttach_sub g C _ S x h with h | h
  · exact Or.inl h
  · exact Or.inr ⟨List.mem_range.1 h.1, h.2⟩

theorem attach_closed (g : Dag) (S C : List Nat) (h : Closed g S) : Closed g (attach g S C) :=
  foldAttach_closed g C _ S h

theorem attachStep_attaches (g : Dag) (C acc : List Nat) (c : Nat) (hc : c ∈ C)
    (hp : ∀ p ∈ parents g c, p ∈ acc) : c ∈ attachStep g C acc c := by
  unfold attachStep
  split
  · simp
  · rename_i hnot
    by_cases hin : c ∈ acc
    · exact hin
    · exfalso; apply hnot
      simp only [Bool.and_eq_true, List.contains_iff_mem, Bool.not_eq_true']
      exact ⟨⟨hc, by simpa using hin⟩, mem_hasAll.2 hp⟩

/-- everything offered attaches when the offer together with what is held is closed under parents -/
theorem attach_complete (g : Dag) (S C : List Nat) (hwf : WF g)
    (hcl : ∀ c ∈ C, ∀ p ∈ parents g c, p ∈ S ∨ p ∈ C) :
    ∀ c ∈ C, c < g.length → c ∈ attach g S C := by
  have key : ∀ n : Nat, ∀ c : Nat, c ∈ C → c < n → c ∈ (List.range n).foldl (attachStep g C) S := by
    intro n
    induction n with
    | zero => intro c _ h; exact absurd h (Nat.not_lt_zero _)
    | succ n ih =>
      intro c hc hlt
      rw [List.range_succ, List.foldl_append]
      simp only [List.foldl_cons, List.foldl_nil]
      by_cases hcn : c < n
      · exact attachStep_mono _ _ _ _ _ (ih c hc hcn)
      · have hcn' : c = n := Nat.le_antisymm (Nat.le_of_lt_succ hlt) (Nat.le_of_not_lt hcn)
        subst hcn'
        apply attachStep_attaches g C _ c hc
        intro p hp
        rcases hcl c hc p hp with h | h
        · exact foldAttach_mono g C _ S p h
        · exact ih p h (hwf c p hp)
  intro c hc hlt
  exact key g.length c hc hlt

/-! ### down / respond -/

theorem foldDown_sub (g : Dag) (T : List Nat) (hT : Closed g T) (l : List Nat) (acc : List Nat)
    (hacc : ∀ x ∈ acc, x ∈ T) : ∀ x ∈ l.foldl (downStep g) acc, x ∈ T := by
  induction l generalizing acc with
  | nil => simpa using hacc
  | cons c l ih =>
    simp only [List.foldl_cons]
    apply ih
    intro x hx
    unfold downStep at hx
    split at hx
    · rename_i hc
      rcases List.mem_append.1 hx with hx | hx
      · exact hacc x hx
      · exact hT c (hacc c (by simpa using hc)) x hx
    · exact hacc x hx

/-- the ancestors-or-equal of members of a closed set stay in that set -/
theorem down_sub (g : Dag) (T H : List Nat) (hT : Closed g T) (hH : ∀ x ∈ H, x ∈ T) :
    ∀ x ∈ down g H, x ∈ T := foldDown_sub g T hT _ H hH

theorem mem_respond {g : Dag} {S H : List Nat} {x : Nat} :
    x ∈ respond g S H ↔ x < g.length ∧ x ∈ S ∧ x ∉ down g (H.filter (fun h => S.contains h)) := by
  simp [respond, List.mem_filter, List.mem_range]

/-- what the reference responder leaves out is held by anybody who holds (closed) the cited heads -/
theorem respond_omits (g : Dag) (S H hv : List Nat) (hcl : Closed g hv) (hH : ∀ x ∈ H, x ∈ hv)
    (x : Nat) (hx : x ∈ S) (hlt : x < g.length) : x ∈ respond g S H ∨ x ∈ hv := by
  by_cases hd : x ∈ down g (H.filter (fun h => S.contains h))
  · right
    exact down_sub g hv _ hcl (fun y hy => hH y (List.mem_filter.1 hy).1) x hd
  · left; exact mem_respond.2 ⟨hlt, hx, hd⟩

end AnySync.Sync
