import AnySyncModel.Sync.Stream
/-!
Snapshots on the abstract DAG (C01, refinement of the responder's cut).

Every change cites a *snapshot base* (`snapOf sn c`; the tree root cites itself).  A replica keeps
an in-memory *root*: a snapshot that lies on the snapshot chain of each of its heads; its snapshot
path is the chain from that root down to the tree root.  The snapshot invariant (DESIGN §3, Inv-S):

* the base of a change is an ancestor-or-equal of the change;
* every ancestor-or-equal of a change is comparable (ancestor-or-equal / descendant-or-equal) with
  the base of that change.

From it: every change a replica holds is comparable with every snapshot on the replica's path, so
what a responder leaves out because it is not at/after the common snapshot `cs` is an ancestor of
`cs`, which the requester (whose path contains `cs`) holds.
-/
namespace AnySync.Sync

def snapOf (sn : List Nat) (c : Nat) : Nat := sn.getD c 0

/-- `cs` is on the snapshot chain of `c`: `c`, its base, the base of its base, … -/
inductive OnChain (sn : List Nat) : Nat → Nat → Prop where
  | here (c : Nat) : OnChain sn c c
  | next {c cs : Nat} : OnChain sn (snapOf sn c) cs → OnChain sn c cs

/-- executable version (fuel = number of chain steps) -/
def onChainB (sn : List Nat) : Nat → Nat → Nat → Bool
  | 0, c, cs => c == cs
  | f + 1, c, cs => c == cs || onChainB sn f (snapOf sn c) cs

theorem onChainB_sound (sn : List Nat) (f c cs : Nat) (h : onChainB sn f c cs = true) :
    OnChain sn c cs := by
  induction f generalizing c with
  | zero => simp [onChainB] at h; subst h; exact .here c
  | succ f ih =>
    simp only [onChainB, Bool.or_eq_true, beq_iff_eq] at h
    rcases h with h | h
    · subst h; exact .here c
    · exact .next (ih _ h)

theorem OnChain.trans {sn : List Nat} {a b c : Nat} (h1 : OnChain sn a b) (h2 : OnChain sn b c) :
    OnChain sn a c := by
  induction h1 with
  | here => exact h2
  | next _ ih => exact .next (ih h2)

/-- the snapshot invariant of the global DAG -/
structure SnapInv (g : Dag) (sn : List Nat) : Prop where
  len : sn.length = g.length
  base : ∀ c, c < g.length → AncEq g (snapOf sn c) c
  comp : ∀ c, c < g.length → ∀ a, AncEq g a c → AncEq g a (snapOf sn c) ∨ AncEq g (snapOf sn c) a

/-- a replica's in-memory root: held, and on the snapshot chain of every head -/
def RootOk (g : Dag) (sn : List Nat) (S : List Nat) (root : Nat) : Prop :=
  root ∈ S ∧ ∀ h ∈ heads g S, OnChain sn h root

def rootOkB (g : Dag) (sn : List Nat) (S : List Nat) (root : Nat) : Bool :=
  S.contains root && (heads g S).all (fun h => onChainB sn h h root)

theorem rootOkB_sound {g : Dag} {sn S : List Nat} {root : Nat} (h : rootOkB g sn S root = true) :
    RootOk g sn S root := by
  simp only [rootOkB, Bool.and_eq_true, List.contains_iff_mem, List.all_eq_true] at h
  exact ⟨h.1, fun x hx => onChainB_sound sn x x root (h.2 x hx)⟩

/-! ### ancestors -/

theorem ancEq_trans {g : Dag} {a b c : Nat} (h1 : AncEq g a b) (h2 : AncEq g b c) : AncEq g a c := by
  induction h2 with
  | refl => exact h1
  | step _ hp ih => exact .step ih hp

theorem ancEq_le {g : Dag} (hwf : WF g) {a b : Nat} (h : AncEq g a b) : a ≤ b := by
  induction h with
  | refl => exact Nat.le_refl _
  | step _ hp ih => exact Nat.le_trans ih (Nat.le_of_lt (hwf _ _ hp))

theorem parents_lt_len {g : Dag} {b p : Nat} (hp : p ∈ parents g b) : b < g.length := by
  by_cases h : b < g.length
  · exact h
  · rw [parents_out g b (Nat.le_of_not_lt h)] at hp; simp at hp

theorem ancEq_append {g : Dag} (ps : List Nat) {a b : Nat} (h : AncEq g a b) :
    AncEq (g ++ [ps]) a b := by
  induction h with
  | refl => exact .refl _
  | step _ hp ih =>
    refine .step ih ?_
    rw [parents_append_old g ps _ (parents_lt_len hp)]; exact hp

theorem ancEq_append_old {g : Dag} (hwf : WF g) (ps : List Nat) {a b : Nat}
    (h : AncEq (g ++ [ps]) a b) (hb : b < g.length) : AncEq g a b := by
  induction h with
  | refl => exact .refl _
  | step _ hp ih =>
    rw [parents_append_old g ps _ hb] at hp
    exact .step (ih (Nat.lt_trans (hwf _ _ hp) hb)) hp

theorem ancEq_append_new {g : Dag} (hwf : WF g) (ps : List Nat) (hps : ∀ p ∈ ps, p < g.length)
    {a : Nat} (h : AncEq (g ++ [ps]) a g.length) : a = g.length ∨ ∃ p ∈ ps, AncEq g a p := by
  cases h with
  | refl => exact Or.inl rfl
  | step h' hp =>
    rw [parents_append_new] at hp
    exact Or.inr ⟨_, hp, ancEq_append_old hwf ps h' (hps _ hp)⟩

/-- every held change is below some head -/
theorem exists_head_above (g : Dag) (S : List Nat) (hwf : WF g) (hb : Bounded g S) :
    ∀ x ∈ S, ∃ h ∈ heads g S, AncEq g x h := by
  have key : ∀ k x, g.length - x = k → x ∈ S → ∃ h ∈ heads g S, AncEq g x h := by
    intro k
    induction k using Nat.strongRecOn with
    | _ k ih =>
      intro x hk hx
      by_cases hhd : x ∈ heads g S
      · exact ⟨x, hhd, .refl x⟩
      · have : ∃ d, d ∈ S ∧ x ∈ parents g d := by
          apply Classical.byContradiction
          intro hne
          exact hhd (mem_heads.2 ⟨hb x hx, hx, fun d hd hp => hne ⟨d, hd, hp⟩⟩)
        obtain ⟨d, hd, hp⟩ := this
        have h1 := hwf d x hp
        have h2 := hb d hd
        obtain ⟨h, hh, ha⟩ := ih (g.length - d) (by omega) d rfl hd
        exact ⟨h, hh, ancEq_trans (.step (.refl x) hp) ha⟩
  intro x hx
  exact key _ x rfl hx

/-! ### chains -/

theorem snap_lt {g : Dag} {sn : List Nat} (hwf : WF g) (hs : SnapInv g sn) {c : Nat} (hc : c < g.length) :
    snapOf sn c < g.length := Nat.lt_of_le_of_lt (ancEq_le hwf (hs.base c hc)) hc

/-- a snapshot on the chain of `c` is an ancestor-or-equal of `c` -/
theorem chain_anc {g : Dag} {sn : List Nat} (hwf : WF g) (hs : SnapInv g sn) {c cs : Nat}
    (h : OnChain sn c cs) (hc : c < g.length) : AncEq g cs c := by
  induction h with
  | here => exact .refl _
  | next _ ih => exact ancEq_trans (ih (snap_lt hwf hs hc)) (hs.base _ hc)

/-- everything below `c` is comparable with every snapshot on the chain of `c` -/
theorem comparable_chain {g : Dag} {sn : List Nat} (hwf : WF g) (hs : SnapInv g sn) {c cs : Nat}
    (h : OnChain sn c cs) (hc : c < g.length) : ∀ x, AncEq g x c → AncEq g x cs ∨ AncEq g cs x := by
  induction h with
  | here => exact fun x hx => Or.inl hx
  | next hch ih =>
    intro x hx
    rcases hs.comp _ hc x hx with h1 | h1
    · exact ih (snap_lt hwf hs hc) x h1
    · exact Or.inr (ancEq_trans (chain_anc hwf hs hch (snap_lt hwf hs hc)) h1)

/-- **comparability**: a replica with an admissible root holds only changes comparable with every
snapshot on its snapshot path -/
theorem comparable_set {g : Dag} {sn S : List Nat} {root cs : Nat} (hwf : WF g) (hs : SnapInv g sn)
    (hb : Bounded g S) (hr : RootOk g sn S root) (hcs : OnChain sn root cs) :
    ∀ x ∈ S, AncEq g x cs ∨ AncEq g cs x := by
  intro x hx
  obtain ⟨h, hh, ha⟩ := exists_head_above g S hwf hb x hx
  exact comparable_chain hwf hs ((hr.2 h hh).trans hcs) (mem_heads.1 hh).1 x ha

/-- **what is cut at the common snapshot is held by the requester**: `cs` on the responder's path
(set `S`, root `rr`) and on the requester's path (closed set `hv`, root `rq ∈ hv`); a change of `S`
that is not at/after `cs` is held by the requester -/
theorem cut_held {g : Dag} {sn S hv : List Nat} {rr rq cs : Nat} (hwf : WF g) (hs : SnapInv g sn)
    (hb : Bounded g S) (hr : RootOk g sn S rr) (hcs : OnChain sn rr cs)
    (hhv : Closed g hv) (hrq : rq ∈ hv) (hrqb : rq < g.length) (hcq : OnChain sn rq cs) :
    ∀ x ∈ S, ¬ AncEq g cs x → x ∈ hv := by
  intro x hx hn
  have hcsv : cs ∈ hv := ancEq_closed hhv (chain_anc hwf hs hcq hrqb) hrq
  rcases comparable_set hwf hs hb hr hcs x hx with h | h
  · exact ancEq_closed hhv h hcsv
  · exact absurd h hn

end AnySync.Sync
