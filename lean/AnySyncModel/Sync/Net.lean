/-
Abstract message-level model of object-tree synchronisation (C01).

A replica is *just* the finite set of changes it stores, a subset of one global DAG of changes
(ids are `Nat`, the parents of a change have smaller ids — creation order).  Everything a replica
advertises is a function of that set: its heads are the maximal elements.

The protocol mirrored here is the one of `commonspace/object/tree/synctree`:

* `syncTree.AddContent`            → `Op.add`: new change on top of all current heads, head update
                                      (heads, the new change) broadcast to every other replica;
* `syncHandler.HandleHeadUpdate`   → `Op.deliver` of a `hu`: attach what attaches
                                      (`AddRawChangesFromPeer`), forward a head update when something
                                      was added (empty for the peer it came from), full-sync request
                                      to the sender when the announced heads are still not all held;
* `syncHandler.HandleStreamRequest`→ `Op.deliver` of a `req`: response batches, and a counter-request
                                      iff the two head sets differ;
* `syncHandler.HandleResponse`     → `Op.deliver` of a `resp`: attach what attaches, forward;
* `syncTree.SyncWithPeer`          → `Op.sync`: full-sync request carrying the current heads;
* the network may drop, duplicate and reorder (`Op.drop`, `Op.dup`, delivery by message id).

Where the real code has freedom the abstract level does not fix (it decides "do I already have
these heads?" on its in-memory window, which may answer *no* for a change that is stored; it cuts
a response into batches by byte size and starts it at the common snapshot), the operation carries
the resolution: `bh` (a head update was broadcast), `bq` (a request was emitted), `resps` (the
response batches).  `step` *validates* the resolution against what the protocol requires
(a broadcast when something was attached, a request when announced heads are missing, a response
that is complete for the requester and causally closed batch by batch) and returns `none` otherwise.
Each message records, as a ghost field, the set its sender held when it was emitted (`have_`).

The reference resolution (`canonDeliver`) is the deterministic protocol "answer with my set minus
the ancestors of the requester's heads that I know".

No Mathlib; everything is computable (the driver links this file).
-/
namespace AnySync.Sync



/-- the global DAG: `g[c]` is the parent list of change `c` -/
abbrev Dag := List (List Nat)

def parents (g : Dag) (c : Nat) : List Nat := g.getD c []

/-- `l ⊆ S` -/
def hasAll (S l : List Nat) : Bool := l.all (fun x => S.contains x)

/-- maximal elements of `S` (ascending): members that no member has as a parent -/
def heads (g : Dag) (S : List Nat) : List Nat :=
  (List.range g.length).filter
    (fun c => S.contains c && !(S.any (fun d => (parents g d).contains c)))

/-- canonical (ascending, duplicate free) listing of a set -/
def canon (g : Dag) (S : List Nat) : List Nat := (List.range g.length).filter (fun c => S.contains c)

/-- one candidate: attach `c` when it was offered, is new, and all its parents are held -/
def attachStep (g : Dag) (C : List Nat) (acc : List Nat) (c : Nat) : List Nat :=
  if C.contains c && !acc.contains c && hasAll acc (parents g c) then acc ++ [c] else acc

/-- `AddRawChanges` at the level of sets: the offered changes are tried in creation order, each is
kept iff all its parents are (by then) held — the result is the largest ancestor-closed extension
of `S` by elements of `C`. -/
def attach (g : Dag) (S C : List Nat) : List Nat := (List.range g.length).foldl (attachStep g C) S

/-- elements of `S'` not in `S` -/
def newly (S S' : List Nat) : List Nat := S'.filter (fun c => !S.contains c)

def downStep (g : Dag) (acc : List Nat) (c : Nat) : List Nat :=
  if acc.contains c then acc ++ parents g c else acc

/-- all ancestors-or-equal of `H` (ids visited from the newest to the oldest) -/
def down (g : Dag) (H : List Nat) : List Nat := ((List.range g.length).reverse).foldl (downStep g) H

/-- reference responder: my set minus the ancestors of those requester heads that I hold -/
def respond (g : Dag) (S H : List Nat) : List Nat :=
  let rm := down g (H.filter (fun h => S.contains h))
  (List.range g.length).filter (fun c => S.contains c && !rm.contains c)

inductive Kind where
  | hu | req | resp
deriving DecidableEq, Repr

structure Msg where
  kind    : Kind
  src     : Nat
  dst     : Nat
  heads   : List Nat
  changes : List Nat
  /-- ghost: the set the sender held when it emitted the message -/
  have_   : List Nat
deriving DecidableEq, Repr

structure State where
  n       : Nat
  dag     : Dag
  sets    : List (List Nat)
  net     : List (Nat × Msg)
  nextMid : Nat
deriving Repr

def State.get (s : State) (r : Nat) : List Nat := s.sets.getD r []

/-- `n` replicas holding the root change `0` -/
def init (n : Nat) : State :=
  { n := n, dag := [[]], sets := List.replicate n [0], net := [], nextMid := 0 }

def number : Nat → List Msg → List (Nat × Msg)
  | _, [] => []
  | k, m :: ms => (k, m) :: number (k + 1) ms

def enqueue (s : State) (out : List Msg) : State :=
  { s with net := s.net ++ number s.nextMid out, nextMid := s.nextMid + out.length }

def setSet (s : State) (r : Nat) (S : List Nat) : State := { s with sets := s.sets.set r S }

/-- `syncClient.Broadcast` of a head update: one copy per other replica; the peer the changes came
from gets the update without changes (`BroadcastOptions.EmptyPeers`). -/
def huGroup (n j : Nat) (ignored : Option Nat) (hd A S' : List Nat) : List Msg :=
  ((List.range n).filter (fun k => k != j)).map
    (fun k => { kind := .hu, src := j, dst := k, heads := hd,
                changes := if ignored = some k then [] else A, have_ := S' })

/-- every parent of every element of `c` is in `T` -/
def closedRel (g : Dag) (T c : List Nat) : Bool := c.all (fun x => hasAll T (parents g x))

/-- batch by batch, what the requester has (`base`) plus the batches so far is closed under parents -/
def cumClosed (g : Dag) : List Nat → List (List Nat × List Nat) → Bool
  | _, [] => true
  | base, (_, c) :: rest => closedRel g (base ++ c) c && cumClosed g (base ++ c) rest

def batchChanges (resps : List (List Nat × List Nat)) : List Nat := resps.flatMap (fun hc => hc.2)

/-- a full-sync answer of a replica holding `S` to a requester that held `hv`: at least one batch,
only held changes and heads, causally closed batch by batch, and complete (`S ⊆ hv ∪ batches`) -/
def validResps (g : Dag) (S hv : List Nat) (resps : List (List Nat × List Nat)) : Bool :=
  !resps.isEmpty && resps.all (fun hc => hasAll S hc.1 && hasAll S hc.2)
    && cumClosed g hv resps && hasAll (hv ++ batchChanges resps) S

inductive Op where
  | add     (r : Nat) (c : Nat) (ps : List Nat)
  | deliver (mid : Nat) (bh bq : Bool) (resps : List (List Nat × List Nat))
  | drop    (mid : Nat)
  | dup     (mid : Nat)
  | sync    (r q : Nat)
deriving Repr

def findMsg (s : State) (mid : Nat) : Option Msg := (s.net.find? (fun p => p.1 == mid)).map (·.2)

def removeMsg (s : State) (mid : Nat) : State := { s with net := s.net.filter (fun p => p.1 != mid) }

/-- receiver side of a head update / response batch: attach what attaches; emitted are the
forwarding broadcast (if `bh`) and a full-sync request to the sender (if `bq`) -/
def applyChanges (s : State) (m : Msg) (bh bq : Bool) : State × List Msg :=
  let S := s.get m.dst
  let S' := attach s.dag S m.changes
  let hd := heads s.dag S'
  (setSet s m.dst S',
    (if bh then huGroup s.n m.dst (some m.src) hd (newly S S') S' else [])
      ++ (if bq then [{ kind := .req, src := m.dst, dst := m.src, heads := hd, changes := [], have_ := S' }] else []))

/-- `HandleHeadUpdate`: a broadcast is required when something was attached, a request when the
announced heads are still not all held -/
def okHU (s : State) (m : Msg) (bh bq : Bool) : Bool :=
  let S := s.get m.dst
  let S' := attach s.dag S m.changes
  ((newly S S').isEmpty || bh) && (hasAll S' m.heads || bq)

/-- `HandleResponse`: never a request -/
def okResp (s : State) (m : Msg) (bh bq : Bool) : Bool :=
  let S := s.get m.dst
  ((newly S (attach s.dag S m.changes)).isEmpty || bh) && !bq

/-- `HandleStreamRequest`: counter-request iff the head sets differ; a valid answer; no broadcast -/
def okReq (s : State) (m : Msg) (bh bq : Bool) (resps : List (List Nat × List Nat)) : Bool :=
  let S := s.get m.dst
  (bq == (heads s.dag S != m.heads)) && !bh && validResps s.dag S m.have_ resps

def outReq (s : State) (m : Msg) (bq : Bool) (resps : List (List Nat × List Nat)) : List Msg :=
  let S := s.get m.dst
  resps.map (fun hc => { kind := .resp, src := m.dst, dst := m.src, heads := hc.1, changes := hc.2, have_ := S })
    ++ (if bq then [{ kind := .req, src := m.dst, dst := m.src, heads := heads s.dag S, changes := [], have_ := S }] else [])

/-- effect of delivering `m` (already removed from the network) with the given resolution:
new state and emitted messages, or `none` when the resolution breaks a protocol requirement -/
def deliverMsg (s : State) (m : Msg) (bh bq : Bool) (resps : List (List Nat × List Nat)) :
    Option (State × List Msg) :=
  if !(decide (m.dst < s.n) && decide (m.src < s.n) && m.src != m.dst) then none else
  match m.kind with
  | .hu => if okHU s m bh bq && resps.isEmpty then some (applyChanges s m bh bq) else none
  | .resp => if okResp s m bh bq && resps.isEmpty then some (applyChanges s m bh bq) else none
  | .req => if okReq s m bh bq resps then some (s, outReq s m bq resps) else none

/-- one step: new state (emitted messages not yet enqueued) and the emitted messages -/
def stepE (s : State) : Op → Option (State × List Msg)
  | .add r c ps =>
    let S := s.get r
    if decide (r < s.n) && (c == s.dag.length) && (ps == heads s.dag S) then
      let S' := S ++ [c]
      some (setSet { s with dag := s.dag ++ [ps] } r S', huGroup s.n r none [c] [c] S')
    else none
  | .deliver mid bh bq resps =>
    match findMsg s mid with
    | none => none
    | some m => deliverMsg (removeMsg s mid) m bh bq resps
  | .drop mid =>
    match findMsg s mid with
    | none => none
    | some _ => some (removeMsg s mid, [])
  | .dup mid =>
    match findMsg s mid with
    | none => none
    | some m => some (s, [m])
  | .sync r q =>
    if decide (r < s.n) && decide (q < s.n) && r != q then
      some (s, [{ kind := .req, src := r, dst := q, heads := heads s.dag (s.get r), changes := [], have_ := s.get r }])
    else none

def step (s : State) (op : Op) : Option State := (stepE s op).map (fun p => enqueue p.1 p.2)

def run (s : State) : List Op → Option State
  | [] => some s
  | op :: ops => match step s op with
    | none => none
    | some s' => run s' ops

/-! ### the reference (deterministic) resolution and the anti-entropy exchange -/

/-- the resolution the reference protocol chooses for delivering message `m` in state `s`:
broadcast iff something was attached, request iff announced heads are missing / head sets differ,
one response batch = my set minus the known ancestors of the requester's heads -/
def canonDeliver (s : State) (mid : Nat) : Op :=
  match findMsg s mid with
  | none => .deliver mid false false []
  | some m =>
    let S := s.get m.dst
    match m.kind with
    | .req => .deliver mid false (heads s.dag S != m.heads) [(heads s.dag S, respond s.dag S m.heads)]
    | .hu =>
      let S' := attach s.dag S m.changes
      .deliver mid (!(newly S S').isEmpty) (!(hasAll S' m.heads)) []
    | .resp =>
      let S' := attach s.dag S m.changes
      .deliver mid (!(newly S S').isEmpty) false []

/-- `antiEntropy r q`: `r` calls `SyncWithPeer(q)` (request, id `k0`); `q` answers (response `k0+1`,
and a counter-request `k0+2` iff the head sets differ); `r` applies the response; then, if there
was a counter-request, `r` answers it (response id `k3`) and `q` applies that.  All five are
ordinary `step`s with the reference resolution; everything else in flight stays in flight
(including the forwarding broadcasts and a possible further counter-request). -/
def antiEntropy (s : State) (r q : Nat) : Option State :=
  let k0 := s.nextMid
  match step s (.sync r q) with
  | none => none
  | some s1 =>
    match step s1 (canonDeliver s1 k0) with
    | none => none
    | some s2 =>
      match step s2 (canonDeliver s2 (k0 + 1)) with
      | none => none
      | some s3 =>
        if heads s.dag (s.get q) != heads s.dag (s.get r) then
          let k3 := s3.nextMid
          match step s3 (canonDeliver s3 (k0 + 2)) with
          | none => none
          | some s4 => step s4 (canonDeliver s4 k3)
        else some s3

end AnySync.Sync
