import AnySyncModel.Sync.Invariant
/-! `Inv` is preserved by `step`; sets only grow; without local adds nothing new appears -/
namespace AnySync.Sync

theorem mem_huGroup {n j : Nat} {ig : Option Nat} {hd A S' : List Nat} {m : Msg}
    (h : m ∈ huGroup n j ig hd A S') :
    ∃ k, k < n ∧ k ≠ j ∧ m = { kind := .hu, src := j, dst := k, heads := hd,
                                changes := if ig = some k then [] else A, have_ := S' } := by
  simp only [huGroup, List.mem_map, List.mem_filter, List.mem_range, bne_iff_ne] at h
  rcases h with ⟨k, ⟨hk, hne⟩, rfl⟩
  exact ⟨k, hk, hne, rfl⟩

/-- result of delivering a head update / response: the receiver's set becomes `attach …` -/
theorem inv_attachAt (s : State) (j : Nat) (C : List Nat) (h : Inv s) :
    Inv (setSet s j (attach s.dag (s.get j) C)) := by
  apply inv_setSet s j _ h
  · exact fun x hx => attach_mono _ _ _ x hx
  · intro x hx
    rcases attach_sub _ _ _ x hx with h1 | h1
    · exact h.bounded j x h1
    · exact h1.1
  · exact attach_closed _ _ _ (h.closed j)

theorem huGroup_ok (s : State) (j : Nat) (ig : Option Nat) (A : List Nat) (hj : j < s.n)
    (hcl : Closed s.dag (s.get j)) (hA : ∀ c ∈ A, c ∈ s.get j) :
    ∀ m ∈ huGroup s.n j ig (heads s.dag (s.get j)) A (s.get j), MsgOk s m := by
  intro m hm
  rcases mem_huGroup hm with ⟨k, hk, hne, rfl⟩
  apply msgOk_own s .hu j k _ hj hk (Ne.symm hne) hcl
  intro c hc
  split at hc
  · simp at hc
  · exact hA c hc

theorem inv_applyChanges (s : State) (m : Msg) (bh bq : Bool) (h : Inv s) (hm : MsgOk s m) :
    Inv (enqueue (applyChanges s m bh bq).1 (applyChanges s m bh bq).2) := by
  have hjl : m.dst < s.sets.length := h.len ▸ hm.dst_lt
  have hinv := inv_attachAt s m.dst m.changes h
  have hget := get_setSet_same s m.dst (attach s.dag (s.get m.dst) m.changes) hjl
  simp only [applyChanges]
  apply inv_enqueue _ _ hinv
  intro x hx
  rcases List.mem_append.1 hx with hx | hx
  · split at hx
    · have := huGroup_ok (setSet s m.dst (attach s.dag (s.get m.dst) m.changes)) m.dst (some m.src)
        (newly (s.get m.dst) (attach s.dag (s.get m.dst) m.changes)) hm.dst_lt (hinv.closed _)
        (by rw [hget]; intro c hc; exact (mem_newly.1 hc).1)
      rw [hget] at this
      exact this x hx
    · simp at hx
  · split at hx
    · simp only [List.mem_singleton] at hx
      subst hx
      have := msgOk_own (setSet s m.dst (attach s.dag (s.get m.dst) m.changes)) .req m.dst m.src []
        hm.dst_lt hm.src_lt (Ne.symm hm.ne) (hinv.closed _) (by simp)
      rw [hget] at this
      exact this
    · simp at hx

theorem inv_outReq (s : State) (m : Msg) (bh bq : Bool) (resps : List (List Nat × List Nat))
    (h : Inv s) (hm : MsgOk s m) (hok : okReq s m bh bq resps = true) :
    Inv (enqueue s (outReq s m bq resps)) := by
  simp only [okReq, Bool.and_eq_true, validResps] at hok
  have hall := hok.2.1.1.2
  apply inv_enqueue _ _ h
  intro x hx
  simp only [outReq] at hx
  rcases List.mem_append.1 hx with hx | hx
  · simp only [List.mem_map] at hx
    rcases hx with ⟨hc, hmem, rfl⟩
    have := List.all_eq_true.1 hall hc hmem
    simp only [Bool.and_eq_true] at this
    exact msgOk_resp s m.dst m.src hc.1 hc.2 hm.dst_lt hm.src_lt (Ne.symm hm.ne) (h.closed _)
      (mem_hasAll.1 this.1) (mem_hasAll.1 this.2)
  · split at hx
    · simp only [List.mem_singleton] at hx
      subst hx
      exact msgOk_own s .req m.dst m.src [] hm.dst_lt hm.src_lt (Ne.symm hm.ne) (h.closed _) (by simp)
    · simp at hx

theorem inv_deliverMsg (s : State) (m : Msg) (bh bq : Bool) (resps : List (List Nat × List Nat))
    (s1 : State) (out : List Msg) (h : Inv s) (hm : MsgOk s m)
    (hd : deliverMsg s m bh bq resps = some (s1, out)) : Inv (enqueue s1 out) := by
  unfold deliverMsg at hd
  by_cases hg : (!(decide (m.dst < s.n) && decide (m.src < s.n) && m.src != m.dst)) = true
  · simp [hg] at hd
  · simp only [hg] at hd
    cases hk : m.kind with
    | hu =>
      simp only [hk] at hd
      by_cases hc : (okHU s m bh bq && resps.isEmpty) = true
      · simp [hc] at hd
        have := inv_applyChanges s m bh bq h hm
        rw [hd] at this; exact this
      · simp [hc] at hd
    | resp =>
      simp only [hk] at hd
      by_cases hc : (okResp s m bh bq && resps.isEmpty) = true
      · simp [hc] at hd
        have := inv_applyChanges s m bh bq h hm
        rw [hd] at this; exact this
      · simp [hc] at hd
    | req =>
      simp only [hk] at hd
      by_cases hc : okReq s m bh bq resps = true
      · simp [hc] at hd
        obtain ⟨rfl, rfl⟩ := hd
        exact inv_outReq s m bh bq resps h hm hc
      · simp [hc] at hd

end AnySync.Sync

namespace AnySync.Sync

/-- extending the dag by a fresh change whose parents are already there -/
theorem inv_extend (s : State) (ps : List Nat) (h : Inv s) (hps : ∀ p ∈ ps, p < s.dag.length) :
    Inv { s with dag := s.dag ++ [ps] } :=
  { wf := by
      intro c p hp
      show p < c
      by_cases hc : c < s.dag.length
      · rw [parents_append_old _ _ _ hc] at hp; exact h.wf c p hp
      · by_cases hc' : c = s.dag.length
        · subst hc'; rw [parents_append_new] at hp; exact hps p hp
        · rw [parents_out] at hp
          · simp at hp
          · simp; omega
    len := h.len
    bounded := by
      intro r c hc
      have := h.bounded r c hc
      show c < (s.dag ++ [ps]).length
      simp; omega
    closed := fun r => closed_append _ _ _ (h.bounded r) (h.closed r)
    fresh := h.fresh
    msgs := by
      intro p hp
      have hm := h.msgs p hp
      have hb : Bounded s.dag p.2.have_ := fun c hc => h.bounded _ c (hm.have_held c hc)
      exact
      { src_lt := hm.src_lt, dst_lt := hm.dst_lt, ne := hm.ne, have_held := hm.have_held,
        have_closed := closed_append _ _ _ hb hm.have_closed,
        heads_have := hm.heads_have, changes_have := hm.changes_have,
        heads_max := fun hk c => (hm.heads_max hk c).trans (mem_heads_append _ _ _ hb c).symm } }

theorem heads_after_add (g : Dag) (S : List Nat) (hwf : WF g) (hb : Bounded g S) (x : Nat) :
    x ∈ [g.length] ↔ x ∈ heads (g ++ [heads g S]) (S ++ [g.length]) := by
  simp only [List.mem_singleton, mem_heads, List.length_append, List.length_cons, List.length_nil,
    List.mem_append]
  constructor
  · rintro rfl
    refine ⟨by omega, Or.inr rfl, ?_⟩
    rintro d (hd | rfl)
    · rw [parents_append_old _ _ _ (hb d hd)]
      intro hp
      have := hwf d _ hp
      have := hb d hd
      omega
    · rw [parents_append_new]
      intro hp
      have := (mem_heads.1 hp).1
      omega
  · rintro ⟨_, hx | hx, hn⟩
    · exfalso
      by_cases hh : x ∈ heads g S
      · apply hn g.length (Or.inr rfl)
        rw [parents_append_new]; exact hh
      · apply hh
        rw [mem_heads]
        refine ⟨hb x hx, hx, fun d hd hp => ?_⟩
        apply hn d (Or.inl hd)
        rw [parents_append_old _ _ _ (hb d hd)]; exact hp
    · exact hx

theorem inv_stepE (s : State) (op : Op) (s1 : State) (out : List Msg) (h : Inv s)
    (hs : stepE s op = some (s1, out)) : Inv (enqueue s1 out) := by
  cases op with
  | add r c ps =>
    simp only [stepE] at hs
    split at hs
    · rename_i hc
      simp only [Bool.and_eq_true, decide_eq_true_eq, beq_iff_eq] at hc
      obtain ⟨⟨hr, rfl⟩, rfl⟩ := hc
      simp only [Option.some.injEq, Prod.mk.injEq] at hs
      obtain ⟨rfl, rfl⟩ := hs
      have h0 := inv_extend s (heads s.dag (s.get r)) h (fun p hp => (mem_heads.1 hp).1)
      have hrl : r < s.sets.length := h.len ▸ hr
      have hget0 : ({ s with dag := s.dag ++ [heads s.dag (s.get r)] } : State).get r = s.get r := rfl
      have h1 := inv_setSet _ r (s.get r ++ [s.dag.length]) h0
        (by intro x hx; rw [hget0] at hx; exact List.mem_append_left _ hx)
        (by
          intro x hx
          show x < (s.dag ++ [heads s.dag (s.get r)]).length
          rcases List.mem_append.1 hx with hx | hx
          · have := h.bounded r x hx; simp; omega
          · simp at hx; subst hx; simp)
        (by
          intro x hx p hp
          rcases List.mem_append.1 hx with hx | hx
          · exact List.mem_append_left _ (h0.closed r x hx p hp)
          · simp at hx; subst hx
            have hp' : p ∈ heads s.dag (s.get r) := by
              have := parents_append_new s.dag (heads s.dag (s.get r))
              simp only at hp
              rw [this] at hp; exact hp
            exact List.mem_append_left _ (mem_heads.1 hp').2.1)
      have hget := get_setSet_same { s with dag := s.dag ++ [heads s.dag (s.get r)] } r
        (s.get r ++ [s.dag.length]) hrl
      apply inv_enqueue _ _ h1
      intro m hm
      rcases mem_huGroup hm with ⟨k, hk, hne, rfl⟩
      have := msgOk_own' (setSet { s with dag := s.dag ++ [heads s.dag (s.get r)] } r (s.get r ++ [s.dag.length]))
        .hu r k [s.dag.length] [s.dag.length] hr hk (Ne.symm hne) (h1.closed r)
        (by
          intro c
          rw [hget]
          exact heads_after_add s.dag (s.get r) h.wf (h.bounded r) c)
        (by rw [hget]; intro c hc; exact List.mem_append_right _ hc)
      rw [hget] at this
      simpa using this
    · simp at hs
  | deliver mid bh bq resps =>
    simp only [stepE] at hs
    cases hf : findMsg s mid with
    | none => simp [hf] at hs
    | some m =>
      simp only [hf] at hs
      have hmem := findMsg_mem hf
      have hm : MsgOk (removeMsg s mid) m := (h.msgs _ hmem).mono rfl rfl (fun _ _ hx => hx)
      exact inv_deliverMsg _ m bh bq resps s1 out (inv_removeMsg s mid h) hm hs
  | drop mid =>
    simp only [stepE] at hs
    cases hf : findMsg s mid with
    | none => simp [hf] at hs
    | some m =>
      simp only [hf, Option.some.injEq, Prod.mk.injEq] at hs
      obtain ⟨rfl, rfl⟩ := hs
      exact inv_enqueue _ _ (inv_removeMsg s mid h) (by simp)
  | dup mid =>
    simp only [stepE] at hs
    cases hf : findMsg s mid with
    | none => simp [hf] at hs
    | some m =>
      simp only [hf, Option.some.injEq, Prod.mk.injEq] at hs
      obtain ⟨rfl, rfl⟩ := hs
      apply inv_enqueue _ _ h
      intro x hx
      simp only [List.mem_singleton] at hx
      subst hx
      exact h.msgs _ (findMsg_mem hf)
  | sync r q =>
    simp only [stepE] at hs
    split at hs
    · rename_i hc
      simp only [Bool.and_eq_true, decide_eq_true_eq, bne_iff_ne] at hc
      simp only [Option.some.injEq, Prod.mk.injEq] at hs
      obtain ⟨rfl, rfl⟩ := hs
      apply inv_enqueue _ _ h
      intro x hx
      simp only [List.mem_singleton] at hx
      subst hx
      exact msgOk_own s .req r q [] hc.1.1 hc.1.2 hc.2 (h.closed r) (by simp)
    · simp at hs

theorem inv_step (s s' : State) (op : Op) (h : Inv s) (hs : step s op = some s') : Inv s' := by
  unfold step at hs
  cases he : stepE s op with
  | none => simp [he] at hs
  | some p =>
    simp only [he, Option.map_some, Option.some.injEq] at hs
    subst hs
    exact inv_stepE s op p.1 p.2 h (by simp [he])

theorem inv_run (s s' : State) (ops : List Op) (h : Inv s) (hr : run s ops = some s') : Inv s' := by
  induction ops generalizing s with
  | nil => simp [run] at hr; subst hr; exact h
  | cons op ops ih =>
    simp only [run] at hr
    cases hs : step s op with
    | none => simp [hs] at hr
    | some s1 => simp only [hs] at hr; exact ih s1 (inv_step s s1 op h hs) hr

end AnySync.Sync
