import AnySyncModel.Sync.Lemmas
/-! the invariant `Inv` is established by `init` and preserved by every `step` (helper lemmas) -/
namespace AnySync.Sync

theorem get_setSet_same (s : State) (r : Nat) (S : List Nat) (h : r < s.sets.length) :
    (setSet s r S).get r = S := by
  simp [setSet, State.get, List.getD_eq_getElem?_getD, h]

theorem get_setSet_ne (s : State) (r r' : Nat) (S : List Nat) (h : r ≠ r') :
    (setSet s r S).get r' = s.get r' := by
  simp [setSet, State.get, List.getD_eq_getElem?_getD, h]

theorem get_setSet_out (s : State) (r r' : Nat) (S : List Nat) (h : s.sets.length ≤ r) :
    (setSet s r S).get r' = s.get r' := by
  by_cases hr : r = r'
  · subst hr
    simp [setSet, State.get, List.getD_eq_getElem?_getD, List.getElem?_set, Nat.not_lt.2 h,
      List.getElem?_eq_none h]
  · exact get_setSet_ne s r r' S hr

theorem mem_number {k : Nat} {out : List Msg} {p : Nat × Msg} (h : p ∈ number k out) :
    k ≤ p.1 ∧ p.1 < k + out.length ∧ p.2 ∈ out := by
  induction out generalizing k with
  | nil => simp [number] at h
  | cons m ms ih =>
    simp only [number, List.mem_cons] at h
    rcases h with h | h
    · subst h; simp
    · have := ih h
      simp only [List.length_cons, List.mem_cons]
      refine ⟨by omega, by omega, Or.inr this.2.2⟩

theorem closed_append (g : Dag) (ps S : List Nat) (hb : Bounded g S) (h : Closed g S) :
    Closed (g ++ [ps]) S := by
  intro c hc p hp
  rw [parents_append_old g ps c (hb c hc)] at hp
  exact h c hc p hp

theorem mem_heads_append (g : Dag) (ps S : List Nat) (hb : Bounded g S) (c : Nat) :
    c ∈ heads (g ++ [ps]) S ↔ c ∈ heads g S := by
  simp only [mem_heads, List.length_append, List.length_cons, List.length_nil]
  constructor
  · rintro ⟨_, hc, hn⟩
    refine ⟨hb c hc, hc, fun d hd => ?_⟩
    have := hn d hd
    rwa [parents_append_old g ps d (hb d hd)] at this
  · rintro ⟨hlt, hc, hn⟩
    refine ⟨by omega, hc, fun d hd => ?_⟩
    rw [parents_append_old g ps d (hb d hd)]
    exact hn d hd

/-- `MsgOk` only looks at `n`, the dag and the sets; it survives growth of the sets -/
theorem MsgOk.mono {s s' : State} {m : Msg} (h : MsgOk s m) (hn : s'.n = s.n) (hd : s'.dag = s.dag)
    (hg : ∀ r x, x ∈ s.get r → x ∈ s'.get r) : MsgOk s' m :=
  { src_lt := hn ▸ h.src_lt, dst_lt := hn ▸ h.dst_lt, ne := h.ne,
    have_held := fun c hc => hg _ _ (h.have_held c hc),
    have_closed := hd ▸ h.have_closed, heads_have := h.heads_have, changes_have := h.changes_have,
    heads_max := hd ▸ h.heads_max }

/-- a message a replica emits about its current set -/
theorem msgOk_own' (s : State) (k : Kind) (src dst : Nat) (hds changes : List Nat)
    (hs : src < s.n) (hd : dst < s.n) (hne : src ≠ dst) (hcl : Closed s.dag (s.get src))
    (hh : ∀ c, c ∈ hds ↔ c ∈ heads s.dag (s.get src))
    (hch : ∀ c ∈ changes, c ∈ s.get src) :
    MsgOk s { kind := k, src := src, dst := dst, heads := hds,
              changes := changes, have_ := s.get src } :=
  { src_lt := hs, dst_lt := hd, ne := hne, have_held := fun _ h => h, have_closed := hcl,
    heads_have := fun c h => (mem_heads.1 ((hh c).1 h)).2.1, changes_have := hch,
    heads_max := fun _ => hh }

theorem msgOk_own (s : State) (k : Kind) (src dst : Nat) (changes : List Nat)
    (hs : src < s.n) (hd : dst < s.n) (hne : src ≠ dst) (hcl : Closed s.dag (s.get src))
    (hch : ∀ c ∈ changes, c ∈ s.get src) :
    MsgOk s { kind := k, src := src, dst := dst, heads := heads s.dag (s.get src),
              changes := changes, have_ := s.get src } :=
  msgOk_own' s k src dst _ changes hs hd hne hcl (fun _ => Iff.rfl) hch

theorem msgOk_resp (s : State) (src dst : Nat) (hdz changes : List Nat)
    (hs : src < s.n) (hd : dst < s.n) (hne : src ≠ dst) (hcl : Closed s.dag (s.get src))
    (hh : ∀ c ∈ hdz, c ∈ s.get src) (hch : ∀ c ∈ changes, c ∈ s.get src) :
    MsgOk s { kind := .resp, src := src, dst := dst, heads := hdz, changes := changes, have_ := s.get src } :=
  { src_lt := hs, dst_lt := hd, ne := hne, have_held := fun _ h => h, have_closed := hcl,
    heads_have := hh, changes_have := hch, heads_max := fun h => absurd rfl h }

theorem inv_enqueue (s : State) (out : List Msg) (h : Inv s) (hout : ∀ m ∈ out, MsgOk s m) :
    Inv (enqueue s out) :=
  { wf := h.wf, len := h.len, bounded := h.bounded, closed := h.closed,
    fresh := by
      intro p hp
      simp only [enqueue] at hp ⊢
      rcases List.mem_append.1 hp with hp | hp
      · have := h.fresh p hp; omega
      · exact (mem_number hp).2.1
    msgs := by
      intro p hp
      simp only [enqueue] at hp
      rcases List.mem_append.1 hp with hp | hp
      · exact (h.msgs p hp).mono rfl rfl (fun _ _ hx => hx)
      · exact (hout p.2 (mem_number hp).2.2).mono rfl rfl (fun _ _ hx => hx) }

theorem inv_removeMsg (s : State) (mid : Nat) (h : Inv s) : Inv (removeMsg s mid) :=
  { wf := h.wf, len := h.len, bounded := h.bounded, closed := h.closed,
    fresh := fun p hp => h.fresh p (List.mem_filter.1 hp).1,
    msgs := fun p hp => (h.msgs p (List.mem_filter.1 hp).1).mono rfl rfl (fun _ _ hx => hx) }

theorem findMsg_mem {s : State} {mid : Nat} {m : Msg} (h : findMsg s mid = some m) :
    (mid, m) ∈ s.net := by
  unfold findMsg at h
  cases hf : s.net.find? (fun p => p.1 == mid) with
  | none => simp [hf] at h
  | some p =>
    simp only [hf, Option.map_some, Option.some.injEq] at h
    have h1 := List.mem_of_find?_eq_some hf
    have h2 := List.find?_some hf
    simp only [beq_iff_eq] at h2
    rcases p with ⟨a, b⟩
    simp only at h h2
    subst h; subst h2; exact h1

theorem get_setSet_mono (s : State) (j : Nat) (S' : List Nat) (hsup : ∀ x ∈ s.get j, x ∈ S') :
    ∀ r x, x ∈ s.get r → x ∈ (setSet s j S').get r := by
  intro r x hx
  by_cases hr : j = r
  · subst hr
    by_cases hl : j < s.sets.length
    · rw [get_setSet_same s j S' hl]; exact hsup x hx
    · rw [get_setSet_out s j j S' (Nat.le_of_not_lt hl)]; exact hx
  · rw [get_setSet_ne s j r S' hr]; exact hx

theorem get_mem_lt {s : State} {r x : Nat} (h : x ∈ s.get r) : r < s.sets.length := by
  by_cases hl : r < s.sets.length
  · exact hl
  · simp [State.get, List.getD_eq_getElem?_getD, List.getElem?_eq_none (Nat.le_of_not_lt hl)] at h

/-- replacing one replica's set by a closed, bounded superset keeps the invariant -/
theorem inv_setSet (s : State) (j : Nat) (S' : List Nat) (h : Inv s)
    (hsup : ∀ x ∈ s.get j, x ∈ S') (hb : Bounded s.dag S') (hc : Closed s.dag S') :
    Inv (setSet s j S') := by
  have hget : ∀ r x, x ∈ s.get r → x ∈ (setSet s j S').get r := by
    intro r x hx
    by_cases hr : j = r
    · subst hr
      by_cases hl : j < s.sets.length
      · rw [get_setSet_same s j S' hl]; exact hsup x hx
      · rw [get_setSet_out s j j S' (Nat.le_of_not_lt hl)]; exact hx
    · rw [get_setSet_ne s j r S' hr]; exact hx
  have hcases : ∀ r, (setSet s j S').get r = S' ∨ (setSet s j S').get r = s.get r := by
    intro r
    by_cases hr : j = r
    · subst hr
      by_cases hl : j < s.sets.length
      · exact Or.inl (get_setSet_same s j S' hl)
      · exact Or.inr (get_setSet_out s j j S' (Nat.le_of_not_lt hl))
    · exact Or.inr (get_setSet_ne s j r S' hr)
  exact
  { wf := h.wf
    len := by simp [setSet, h.len]
    bounded := by
      intro r
      rcases hcases r with e | e <;> rw [e]
      · exact hb
      · exact h.bounded r
    closed := by
      intro r
      rcases hcases r with e | e <;> rw [e]
      · exact hc
      · exact h.closed r
    fresh := h.fresh
    msgs := fun p hp => (h.msgs p hp).mono rfl rfl hget }

theorem inv_init (n : Nat) : Inv (init n) :=
  { wf := by
      intro c p hp
      simp only [init, parents, List.getD_eq_getElem?_getD] at hp
      cases c with
      | zero => simp at hp
      | succ c => simp at hp
    len := by simp [init]
    bounded := by
      intro r c hc
      simp only [init, State.get, List.getD_eq_getElem?_getD, List.getElem?_replicate] at hc
      split at hc <;> simp at hc
      subst hc; simp [init]
    closed := by
      intro r c hc p hp
      simp only [init, State.get, List.getD_eq_getElem?_getD, List.getElem?_replicate] at hc
      split at hc <;> simp at hc
      subst hc
      simp [init, parents] at hp
    fresh := by intro p hp; simp [init] at hp
    msgs := by intro p hp; simp [init] at hp }

end AnySync.Sync
