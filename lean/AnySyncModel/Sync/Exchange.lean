import AnySyncModel.Sync.Step
/-! effect of steps on the sets; message bookkeeping; the anti-entropy exchange (helper lemmas) -/
namespace AnySync.Sync

theorem deliverMsg_cases {s : State} {m : Msg} {bh bq : Bool} {resps : List (List Nat × List Nat)}
    {s1 : State} {out : List Msg} (hd : deliverMsg s m bh bq resps = some (s1, out)) :
    (m.kind = .req ∧ s1 = s ∧ out = outReq s m bq resps ∧ okReq s m bh bq resps = true) ∨
    (m.kind ≠ .req ∧ applyChanges s m bh bq = (s1, out)) := by
  unfold deliverMsg at hd
  by_cases hg : (!(decide (m.dst < s.n) && decide (m.src < s.n) && m.src != m.dst)) = true
  · simp [hg] at hd
  · simp only [hg] at hd
    cases hk : m.kind with
    | hu =>
      simp only [hk] at hd
      by_cases hc : (okHU s m bh bq && resps.isEmpty) = true
      · simp [hc] at hd; exact Or.inr ⟨by simp, hd⟩
      · simp [hc] at hd
    | resp =>
      simp only [hk] at hd
      by_cases hc : (okResp s m bh bq && resps.isEmpty) = true
      · simp [hc] at hd; exact Or.inr ⟨by simp, hd⟩
      · simp [hc] at hd
    | req =>
      simp only [hk] at hd
      by_cases hc : okReq s m bh bq resps = true
      · simp [hc] at hd; exact Or.inl ⟨rfl, hd.1.symm, hd.2.symm, hc⟩
      · simp [hc] at hd

theorem stepE_facts {s : State} {op : Op} {s1 : State} {out : List Msg}
    (hs : stepE s op = some (s1, out)) :
    s1.n = s.n ∧ (∀ r x, x ∈ s.get r → x ∈ s1.get r) ∧ (op.isAdd = false → s1.dag = s.dag) := by
  cases op with
  | add r c ps =>
    simp only [stepE] at hs
    split at hs
    · simp only [Option.some.injEq, Prod.mk.injEq] at hs
      obtain ⟨rfl, rfl⟩ := hs
      refine ⟨rfl, ?_, by simp [Op.isAdd]⟩
      exact get_setSet_mono { s with dag := s.dag ++ [ps] } r _ (fun x hx => List.mem_append_left _ hx)
    · simp at hs
  | deliver mid bh bq resps =>
    simp only [stepE] at hs
    cases hf : findMsg s mid with
    | none => simp [hf] at hs
    | some m =>
      simp only [hf] at hs
      rcases deliverMsg_cases hs with ⟨_, rfl, _, _⟩ | ⟨_, ha⟩
      · exact ⟨rfl, fun _ _ hx => hx, fun _ => rfl⟩
      · simp only [applyChanges, Prod.mk.injEq] at ha
        obtain ⟨rfl, _⟩ := ha
        refine ⟨rfl, ?_, fun _ => rfl⟩
        exact get_setSet_mono (removeMsg s mid) m.dst _ (fun x hx => attach_mono _ _ _ x hx)
  | drop mid =>
    simp only [stepE] at hs
    cases hf : findMsg s mid with
    | none => simp [hf] at hs
    | some m =>
      simp only [hf, Option.some.injEq, Prod.mk.injEq] at hs
      obtain ⟨rfl, rfl⟩ := hs
      exact ⟨rfl, fun _ _ hx => hx, fun _ => rfl⟩
  | dup mid =>
    simp only [stepE] at hs
    cases hf : findMsg s mid with
    | none => simp [hf] at hs
    | some m =>
      simp only [hf, Option.some.injEq, Prod.mk.injEq] at hs
      obtain ⟨rfl, rfl⟩ := hs
      exact ⟨rfl, fun _ _ hx => hx, fun _ => rfl⟩
  | sync r q =>
    simp only [stepE] at hs
    split at hs
    · simp only [Option.some.injEq, Prod.mk.injEq] at hs
      obtain ⟨rfl, rfl⟩ := hs
      exact ⟨rfl, fun _ _ hx => hx, fun _ => rfl⟩
    · simp at hs

theorem step_facts {s s' : State} {op : Op} (hs : step s op = some s') :
    s'.n = s.n ∧ (∀ r x, x ∈ s.get r → x ∈ s'.get r) ∧ (op.isAdd = false → s'.dag = s.dag) := by
  unfold step at hs
  cases he : stepE s op with
  | none => simp [he] at hs
  | some p =>
    simp only [he, Option.map_some, Option.some.injEq] at hs
    subst hs
    exact stepE_facts (s1 := p.1) (out := p.2) (by simp [he])

/-- without a local add a replica only ever stores what some replica stored before -/
theorem step_noNew {s s' : State} {op : Op} (h : Inv s) (hs : step s op = some s')
    (hna : op.isAdd = false) : ∀ r x, x ∈ s'.get r → Held s x := by
  have hold : ∀ r x, x ∈ s.get r → Held s x :=
    fun r x hx => ⟨r, h.len ▸ get_mem_lt hx, hx⟩
  unfold step at hs
  cases he : stepE s op with
  | none => simp [he] at hs
  | some p =>
    simp only [he, Option.map_some, Option.some.injEq] at hs
    subst hs
    obtain ⟨s1, out⟩ := p
    show ∀ r x, x ∈ s1.get r → Held s x
    cases op with
    | add r c ps => simp [Op.isAdd] at hna
    | deliver mid bh bq resps =>
      simp only [stepE] at he
      cases hf : findMsg s mid with
      | none => simp [hf] at he
      | some m =>
        simp only [hf] at he
        have hm := h.msgs _ (findMsg_mem hf)
        rcases deliverMsg_cases he with ⟨_, rfl, _, _⟩ | ⟨_, ha⟩
        · exact hold
        · simp only [applyChanges, Prod.mk.injEq] at ha
          obtain ⟨rfl, _⟩ := ha
          intro r x hx
          by_cases hr : m.dst = r
          · subst hr
            by_cases hl : m.dst < (removeMsg s mid).sets.length
            · rw [get_setSet_same _ _ _ hl] at hx
              rcases attach_sub _ _ _ x hx with h1 | h1
              · exact hold m.dst x h1
              · exact ⟨m.src, hm.src_lt, hm.have_held x (hm.changes_have x h1.2)⟩
            · rw [get_setSet_out _ _ _ _ (Nat.le_of_not_lt hl)] at hx
              exact hold m.dst x hx
          · rw [get_setSet_ne _ _ _ _ hr] at hx
            exact hold r x hx
    | drop mid =>
      simp only [stepE] at he
      cases hf : findMsg s mid with
      | none => simp [hf] at he
      | some m =>
        simp only [hf, Option.some.injEq, Prod.mk.injEq] at he
        obtain ⟨rfl, rfl⟩ := he
        exact hold
    | dup mid =>
      simp only [stepE] at he
      cases hf : findMsg s mid with
      | none => simp [hf] at he
      | some m =>
        simp only [hf, Option.some.injEq, Prod.mk.injEq] at he
        obtain ⟨rfl, rfl⟩ := he
        exact hold
    | sync r q =>
      simp only [stepE] at he
      split at he
      · simp only [Option.some.injEq, Prod.mk.injEq] at he
        obtain ⟨rfl, rfl⟩ := he
        exact hold
      · simp at he

def addFree (ops : List Op) : Prop := ∀ op ∈ ops, op.isAdd = false

theorem run_facts {s s' : State} {ops : List Op} (hr : run s ops = some s') :
    s'.n = s.n ∧ (∀ r x, x ∈ s.get r → x ∈ s'.get r) := by
  induction ops generalizing s with
  | nil => simp [run] at hr; subst hr; exact ⟨rfl, fun _ _ h => h⟩
  | cons op ops ih =>
    simp only [run] at hr
    cases hs : step s op with
    | none => simp [hs] at hr
    | some s1 =>
      simp only [hs] at hr
      have h1 := step_facts hs
      have h2 := ih hr
      exact ⟨h2.1.trans h1.1, fun r x hx => h2.2 r x (h1.2.1 r x hx)⟩

theorem run_noNew {s s' : State} {ops : List Op} (h : Inv s) (hr : run s ops = some s')
    (hf : addFree ops) : s'.dag = s.dag ∧ ∀ r x, x ∈ s'.get r → Held s x := by
  induction ops generalizing s with
  | nil =>
    simp [run] at hr; subst hr
    exact ⟨rfl, fun r x hx => ⟨r, h.len ▸ get_mem_lt hx, hx⟩⟩
  | cons op ops ih =>
    simp only [run] at hr
    cases hs : step s op with
    | none => simp [hs] at hr
    | some s1 =>
      simp only [hs] at hr
      have hna := hf op (by simp)
      have h1 := step_facts hs
      have h2 := ih (inv_step s s1 op h hs) hr (fun o ho => hf o (List.mem_cons_of_mem _ ho))
      refine ⟨h2.1.trans (h1.2.2 hna), fun r x hx => ?_⟩
      obtain ⟨r1, hr1, hx1⟩ := h2.2 r x hx
      exact step_noNew h hs hna r1 x hx1

theorem run_append {s : State} {ops1 ops2 : List Op} :
    run s (ops1 ++ ops2) = (run s ops1).bind (fun s1 => run s1 ops2) := by
  induction ops1 generalizing s with
  | nil => simp [run]
  | cons op ops ih =>
    simp only [List.cons_append, run]
    cases step s op with
    | none => simp
    | some s1 => simp [ih]

end AnySync.Sync

namespace AnySync.Sync

/-! ### message bookkeeping -/

theorem findMsg_enqueue_old {s : State} {out : List Msg} {mid : Nat} {m : Msg}
    (h : findMsg s mid = some m) : findMsg (enqueue s out) mid = some m := by
  unfold findMsg at h ⊢
  simp only [enqueue, List.find?_append]
  cases hf : s.net.find? (fun p => p.1 == mid) with
  | none => simp [hf] at h
  | some p => simp [hf] at h ⊢; exact h

theorem find_old_none {s : State} (hf : ∀ p ∈ s.net, p.1 < s.nextMid) (i : Nat) :
    s.net.find? (fun p => p.1 == s.nextMid + i) = none := by
  rw [List.find?_eq_none]
  intro p hp
  have := hf p hp
  simp only [beq_iff_eq]
  omega

theorem findMsg_enqueue_new0 {s : State} {m0 : Msg} {rest : List Msg}
    (hf : ∀ p ∈ s.net, p.1 < s.nextMid) : findMsg (enqueue s (m0 :: rest)) s.nextMid = some m0 := by
  have := find_old_none hf 0
  simp only [Nat.add_zero] at this
  simp [findMsg, enqueue, List.find?_append, this, number]

theorem findMsg_enqueue_new1 {s : State} {m0 m1 : Msg} {rest : List Msg}
    (hf : ∀ p ∈ s.net, p.1 < s.nextMid) :
    findMsg (enqueue s (m0 :: m1 :: rest)) (s.nextMid + 1) = some m1 := by
  have := find_old_none hf 1
  simp [findMsg, enqueue, List.find?_append, this, number]

theorem findMsg_removeMsg_ne {s : State} {mid mid' : Nat} (h : mid' ≠ mid) :
    findMsg (removeMsg s mid) mid' = findMsg s mid' := by
  unfold findMsg removeMsg
  simp only
  congr 1
  induction s.net with
  | nil => simp
  | cons p l ih =>
    by_cases hp : p.1 = mid
    · have hne : (mid == mid') = false := by simp; omega
      have hf : (p.1 != mid) = false := by simp [hp]
      rw [List.filter_cons, hf]
      simp only [Bool.false_eq_true, if_false, List.find?_cons, hp, hne]
      exact ih
    · have hf : (p.1 != mid) = true := by simp [hp]
      rw [List.filter_cons, hf]
      simp only [if_true, List.find?_cons]
      by_cases hp' : p.1 = mid'
      · simp [hp']
      · have : (p.1 == mid') = false := by simp [hp']
        simp only [this]
        exact ih

/-! ### the reference responder is valid -/

theorem validResps_canon (g : Dag) (S hv H : List Nat) (hS : Closed g S) (hb : Bounded g S)
    (hhv : Closed g hv) (hH : ∀ x ∈ H, x ∈ hv) :
    validResps g S hv [(heads g S, respond g S H)] = true := by
  simp only [validResps, List.isEmpty_cons, Bool.not_false, List.all_cons, List.all_nil, Bool.and_true,
    Bool.true_and, cumClosed, batchChanges, List.flatMap_cons, List.flatMap_nil, List.append_nil,
    Bool.and_eq_true, mem_hasAll, closedRel, List.all_eq_true]
  refine ⟨⟨⟨fun x hx => (mem_heads.1 hx).2.1, fun x hx => (mem_respond.1 hx).2.1⟩, ?_⟩, ?_⟩
  · intro x hx p hp
    have hxS := (mem_respond.1 hx).2.1
    have hpS := hS x hxS p hp
    rcases respond_omits g S H hv hhv hH p hpS (hb p hpS) with h | h
    · exact List.mem_append_right _ h
    · exact List.mem_append_left _ h
  · intro x hx
    rcases respond_omits g S H hv hhv hH x hx (hb x hx) with h | h
    · exact List.mem_append_right _ h
    · exact List.mem_append_left _ h

/-- applying the reference response of a replica holding `T` makes the requester hold `S ∪ T` -/
theorem attach_respond (g : Dag) (S T hv H : List Nat) (hwf : WF g) (hT : Closed g T)
    (hbT : Bounded g T) (hhv : Closed g hv) (hH : ∀ x ∈ H, x ∈ hv) (hsub : ∀ x ∈ hv, x ∈ S) (x : Nat) :
    x ∈ attach g S (respond g T H) ↔ x ∈ S ∨ x ∈ T := by
  constructor
  · intro hx
    rcases attach_sub _ _ _ x hx with h | h
    · exact Or.inl h
    · exact Or.inr (mem_respond.1 h.2).2.1
  · rintro (hx | hx)
    · exact attach_mono _ _ _ x hx
    · rcases respond_omits g T H hv hhv hH x hx (hbT x hx) with h | h
      · apply attach_complete g S _ hwf _ x h (hbT x hx)
        intro c hc p hp
        have hpT := hT c (mem_respond.1 hc).2.1 p hp
        rcases respond_omits g T H hv hhv hH p hpT (hbT p hpT) with h' | h'
        · exact Or.inr h'
        · exact Or.inl (hsub p h')
      · exact attach_mono _ _ _ x (hsub x h)

/-- a bounded set lies inside every closed set that contains its heads -/
theorem sub_of_heads_sub (g : Dag) (S T : List Nat) (hwf : WF g) (hb : Bounded g S) (hT : Closed g T)
    (hh : ∀ x ∈ heads g S, x ∈ T) : ∀ x ∈ S, x ∈ T := by
  have key : ∀ k x, g.length - x = k → x ∈ S → x ∈ T := by
    intro k
    induction k using Nat.strongRecOn with
    | _ k ih =>
      intro x hk hx
      by_cases hhd : x ∈ heads g S
      · exact hh x hhd
      · have : ∃ d, d ∈ S ∧ x ∈ parents g d := by
          apply Classical.byContradiction
          intro hne
          apply hhd
          rw [mem_heads]
          exact ⟨hb x hx, hx, fun d hd hp => hne ⟨d, hd, hp⟩⟩
        obtain ⟨d, hd, hp⟩ := this
        have h1 := hwf d x hp
        have h2 := hb d hd
        exact hT d (ih (g.length - d) (by omega) d rfl hd) x hp
  intro x hx
  exact key _ x rfl hx

end AnySync.Sync
