import AnySyncModel.Sync.Joins
/-! the fair phase (helper lemmas for `converge`) -/
namespace AnySync.Sync

theorem ancEq_closed {g : Dag} {S : List Nat} (hS : Closed g S) {a c : Nat} (h : AncEq g a c)
    (hc : c ∈ S) : a ∈ S := by
  induction h with
  | refl => exact hc
  | step _ hp ih => exact ih (hS _ hc _ hp)

theorem antiEntropy_guard {s s' : State} {r q : Nat} (h : antiEntropy s r q = some s') :
    r < s.n ∧ q < s.n ∧ r ≠ q := by
  unfold antiEntropy at h
  cases hs : step s (.sync r q) with
  | none => simp [hs] at h
  | some s1 =>
    simp only [step, stepE] at hs
    split at hs
    · rename_i hc
      simp only [Bool.and_eq_true, decide_eq_true_eq, bne_iff_ne] at hc
      exact ⟨hc.1.1, hc.1.2, hc.2⟩
    · simp at hs

structure PhaseKeeps (s s' : State) : Prop where
  inv : Inv s'
  n : s'.n = s.n
  dag : s'.dag = s.dag
  mono : ∀ r x, x ∈ s.get r → x ∈ s'.get r
  noNew : ∀ r x, x ∈ s'.get r → Held s x

theorem PhaseKeeps.trans {s s1 s2 : State} (a : PhaseKeeps s s1) (b : PhaseKeeps s1 s2) :
    PhaseKeeps s s2 :=
  { inv := b.inv, n := b.n.trans a.n, dag := b.dag.trans a.dag,
    mono := fun r x hx => b.mono r x (a.mono r x hx),
    noNew := by
      intro r x hx
      obtain ⟨r1, _, hx1⟩ := b.noNew r x hx
      exact a.noNew r1 x hx1 }

theorem phaseKeeps_refl (s : State) (h : Inv s) : PhaseKeeps s s :=
  { inv := h, n := rfl, dag := rfl, mono := fun _ _ hx => hx,
    noNew := fun r x hx => ⟨r, h.len ▸ get_mem_lt hx, hx⟩ }

theorem phaseKeeps_step {s s' : State} {op : Op} (h : Inv s) (hs : step s op = some s')
    (hna : op.isAdd = false) : PhaseKeeps s s' :=
  { inv := inv_step s s' op h hs, n := (step_facts hs).1, dag := (step_facts hs).2.2 hna,
    mono := (step_facts hs).2.1, noNew := step_noNew h hs hna }

theorem phaseKeeps_ae {s s' : State} {r q : Nat} (h : Inv s) (hs : antiEntropy s r q = some s') :
    PhaseKeeps s s' ∧ (∀ x, x ∈ s.get r → x ∈ s'.get q) ∧ (∀ x, x ∈ s.get q → x ∈ s'.get r) := by
  obtain ⟨hr, hq, hne⟩ := antiEntropy_guard hs
  obtain ⟨s'', hs'', k, er, eq, eo⟩ := antiEntropy_spec s r q h hr hq hne
  rw [hs] at hs''
  simp only [Option.some.injEq] at hs''
  subst hs''
  refine ⟨⟨k.inv, k.n, k.dag, ?_, ?_⟩, fun x hx => (eq x).2 (Or.inl hx), fun x hx => (er x).2 (Or.inr hx)⟩
  · intro z x hx
    by_cases hzr : z = r
    · subst hzr; exact (er x).2 (Or.inl hx)
    · by_cases hzq : z = q
      · subst hzq; exact (eq x).2 (Or.inr hx)
      · rw [eo z hzr hzq]; exact hx
  · intro z x hx
    by_cases hzr : z = r
    · subst hzr
      rcases (er x).1 hx with h1 | h1
      · exact ⟨z, hr, h1⟩
      · exact ⟨q, hq, h1⟩
    · by_cases hzq : z = q
      · subst hzq
        rcases (eq x).1 hx with h1 | h1
        · exact ⟨r, hr, h1⟩
        · exact ⟨z, hq, h1⟩
      · rw [eo z hzr hzq] at hx
        exact ⟨z, h.len ▸ get_mem_lt hx, hx⟩

theorem runPhase_keeps {s s' : State} {ops : List PhaseOp} (h : Inv s)
    (hr : runPhase s ops = some s') : PhaseKeeps s s' := by
  induction ops generalizing s with
  | nil => simp [runPhase] at hr; subst hr; exact phaseKeeps_refl s h
  | cons op ops ih =>
    cases op with
    | net o =>
      simp only [runPhase] at hr
      split at hr
      · simp at hr
      · rename_i hna
        cases hs : step s o with
        | none => simp [hs] at hr
        | some s1 =>
          simp only [hs] at hr
          have k1 := phaseKeeps_step h hs (by simpa using hna)
          exact k1.trans (ih k1.inv hr)
    | ae r q =>
      simp only [runPhase] at hr
      cases hs : antiEntropy s r q with
      | none => simp [hs] at hr
      | some s1 =>
        simp only [hs] at hr
        have k1 := (phaseKeeps_ae h hs).1
        exact k1.trans (ih k1.inv hr)

/-- what `a` held before the phase, `b` holds after it, if the two completed an exchange -/
theorem runPhase_spread {s s' : State} {ops : List PhaseOp} (h : Inv s)
    (hr : runPhase s ops = some s') (a b : Nat)
    (hab : PhaseOp.ae a b ∈ ops ∨ PhaseOp.ae b a ∈ ops) : ∀ x, x ∈ s.get a → x ∈ s'.get b := by
  induction ops generalizing s with
  | nil => simp at hab
  | cons op ops ih =>
    cases op with
    | net o =>
      simp only [runPhase] at hr
      split at hr
      · simp at hr
      · rename_i hna
        cases hs : step s o with
        | none => simp [hs] at hr
        | some s1 =>
          simp only [hs] at hr
          have k1 := phaseKeeps_step h hs (by simpa using hna)
          have hab' : PhaseOp.ae a b ∈ ops ∨ PhaseOp.ae b a ∈ ops := by
            rcases hab with hab | hab <;> simp at hab
            · exact Or.inl hab
            · exact Or.inr hab
          intro x hx
          exact ih k1.inv hr hab' x (k1.mono a x hx)
    | ae r q =>
      simp only [runPhase] at hr
      cases hs : antiEntropy s r q with
      | none => simp [hs] at hr
      | some s1 =>
        simp only [hs] at hr
        obtain ⟨k1, hrq, hqr⟩ := phaseKeeps_ae h hs
        have krest := runPhase_keeps k1.inv hr
        intro x hx
        by_cases hhere : (r = a ∧ q = b) ∨ (r = b ∧ q = a)
        · rcases hhere with ⟨rfl, rfl⟩ | ⟨rfl, rfl⟩
          · exact krest.mono _ x (hrq x hx)
          · exact krest.mono _ x (hqr x hx)
        · have hab' : PhaseOp.ae a b ∈ ops ∨ PhaseOp.ae b a ∈ ops := by
            rcases hab with hab | hab
            · simp only [List.mem_cons, PhaseOp.ae.injEq] at hab
              rcases hab with ⟨rfl, rfl⟩ | hab
              · exact absurd (Or.inl ⟨rfl, rfl⟩) hhere
              · exact Or.inl hab
            · simp only [List.mem_cons, PhaseOp.ae.injEq] at hab
              rcases hab with ⟨rfl, rfl⟩ | hab
              · exact absurd (Or.inr ⟨rfl, rfl⟩) hhere
              · exact Or.inr hab
          exact ih k1.inv hr hab' x (k1.mono a x hx)

end AnySync.Sync
