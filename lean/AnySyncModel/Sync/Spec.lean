import AnySyncModel.Sync.Net
/-! specification vocabulary for C01 -/
namespace AnySync.Sync

/-- parents precede children in creation order -/
def WF (g : Dag) : Prop := ∀ c p, p ∈ parents g c → p < c

/-- ancestor-closed: with a change, all its parents (hence all its ancestors) -/
def Closed (g : Dag) (S : List Nat) : Prop := ∀ c ∈ S, ∀ p ∈ parents g c, p ∈ S

def Bounded (g : Dag) (S : List Nat) : Prop := ∀ c ∈ S, c < g.length

/-- `a` is an ancestor-or-equal of `b` -/
inductive AncEq (g : Dag) : Nat → Nat → Prop where
  | refl (a : Nat) : AncEq g a a
  | step {a p b : Nat} : AncEq g a p → p ∈ parents g b → AncEq g a b

/-- what must hold of an in-flight message -/
structure MsgOk (s : State) (m : Msg) : Prop where
  src_lt : m.src < s.n
  dst_lt : m.dst < s.n
  ne : m.src ≠ m.dst
  have_held : ∀ c ∈ m.have_, c ∈ s.get m.src
  have_closed : Closed s.dag m.have_
  heads_have : ∀ c ∈ m.heads, c ∈ m.have_
  changes_have : ∀ c ∈ m.changes, c ∈ m.have_
  heads_max : m.kind ≠ .resp → ∀ c, c ∈ m.heads ↔ c ∈ heads s.dag m.have_

/-- the invariant of every reachable state -/
structure Inv (s : State) : Prop where
  wf : WF s.dag
  len : s.sets.length = s.n
  bounded : ∀ r, Bounded s.dag (s.get r)
  closed : ∀ r, Closed s.dag (s.get r)
  fresh : ∀ p ∈ s.net, p.1 < s.nextMid
  msgs : ∀ p ∈ s.net, MsgOk s p.2

def Op.isAdd : Op → Bool
  | .add .. => true
  | _ => false

/-- a step of the fair phase: any network step that is not a local add, or a complete exchange -/
inductive PhaseOp where
  | net (op : Op)
  | ae (r q : Nat)

def runPhase (s : State) : List PhaseOp → Option State
  | [] => some s
  | .net op :: rest => if op.isAdd then none else
      match step s op with
      | none => none
      | some s' => runPhase s' rest
  | .ae r q :: rest =>
      match antiEntropy s r q with
      | none => none
      | some s' => runPhase s' rest

/-- somebody holds `x` -/
def Held (s : State) (x : Nat) : Prop := ∃ r, r < s.n ∧ x ∈ s.get r

end AnySync.Sync
