/- helper lemmas for Props/C18.lean -/
import AnySyncModel.NodeConf.Spec

namespace AnySync.NodeConf
open AnySync.Generated.NodeConf

/-! ### index search -/

theorem lastIndexOf_none {c : Char} {l : List Char} (h : c ∉ l) : lastIndexOf c l = none := by
  induction l with
  | nil => rfl
  | cons x xs ih =>
    simp only [List.mem_cons, not_or] at h
    simp [lastIndexOf, ih h.2, Ne.symm h.1]

theorem lastIndexOf_append_cons {c : Char} (a k : List Char) (h : c ∉ k) :
    lastIndexOf c (a ++ c :: k) = some a.length := by
  induction a with
  | nil => simp [lastIndexOf, lastIndexOf_none h]
  | cons x xs ih => simp [lastIndexOf, ih]

theorem lastIndexOf_lt {c : Char} {l : List Char} {i : Nat} (h : lastIndexOf c l = some i) : i < l.length := by
  induction l generalizing i with
  | nil => simp [lastIndexOf] at h
  | cons x xs ih =>
    simp only [lastIndexOf] at h
    split at h
    · rename_i j hj
      have := ih hj
      simp at h; simp; omega
    · split at h <;> simp at h
      simp; omega

theorem indexOf_lt {c : Char} {l : List Char} {i : Nat} (h : indexOf c l = some i) : i < l.length := by
  induction l generalizing i with
  | nil => simp [indexOf] at h
  | cons x xs ih =>
    simp only [indexOf] at h
    split at h
    · simp at h; simp; omega
    · simp only [Option.map_eq_some_iff] at h
      obtain ⟨j, hj, rfl⟩ := h
      have := ih hj
      simp; omega

/-- after the last `c` there is no `c` -/
theorem lastIndexOf_drop {c : Char} {l : List Char} {i : Nat} (h : lastIndexOf c l = some i) :
    c ∉ l.drop (i + 1) ∧ l[i]? = some c := by
  induction l generalizing i with
  | nil => simp [lastIndexOf] at h
  | cons x xs ih =>
    simp only [lastIndexOf] at h
    split at h
    · rename_i j hj
      simp at h; subst h
      simpa using ih hj
    · rename_i hn
      split at h <;> simp at h
      subst h
      rename_i hx
      subst hx
      simp
      intro hmem
      -- x ∈ xs contradicts lastIndexOf = none
      have : ∀ (l : List Char), x ∈ l → lastIndexOf x l ≠ none := by
        intro l
        induction l with
        | nil => simp
        | cons y ys ihy =>
          intro hm
          simp only [lastIndexOf]
          split
          · simp
          · rename_i hnone
            by_cases hy : y = x
            · simp [hy]
            · simp only [List.mem_cons] at hm
              rcases hm with hm | hm
              · exact absurd hm.symm hy
              · exact absurd hnone (ihy hm)
      exact this xs hmem hn

/-! ### sync nodes -/

theorem mem_syncNodes {cfg : Config} {m : Nat} :
    m ∈ syncNodes cfg ↔ ∃ n ∈ cfg, n.hasType syncType = true ∧ n.id = m := by
  induction cfg with
  | nil => simp [syncNodes]
  | cons n rest ih =>
    simp only [syncNodes]
    split
    · rename_i h
      simp only [List.mem_cons, ih]
      constructor
      · rintro (rfl | ⟨x, hx, hh⟩)
        · exact ⟨n, Or.inl rfl, h, rfl⟩
        · exact ⟨x, Or.inr hx, hh⟩
      · rintro ⟨x, (rfl | hx), hh⟩
        · exact Or.inl hh.2.symm
        · exact Or.inr ⟨x, hx, hh⟩
    · rename_i h
      simp only [List.mem_cons, ih]
      constructor
      · rintro ⟨x, hx, hh⟩; exact ⟨x, Or.inr hx, hh⟩
      · rintro ⟨x, (rfl | hx), hh⟩
        · exact absurd hh.1 h
        · exact ⟨x, hx, hh⟩

theorem syncNodes_eq_filter_map (cfg : Config) :
    syncNodes cfg = (cfg.filter (·.hasType syncType)).map (·.id) := by
  induction cfg with
  | nil => rfl
  | cons n rest ih =>
    simp only [syncNodes, List.filter_cons]
    split <;> simp_all

theorem syncNodes_perm {c₁ c₂ : Config} (h : c₁.Perm c₂) : (syncNodes c₁).Perm (syncNodes c₂) := by
  rw [syncNodes_eq_filter_map, syncNodes_eq_filter_map]
  exact (h.filter _).map _

theorem syncNodes_append (c₁ c₂ : Config) : syncNodes (c₁ ++ c₂) = syncNodes c₁ ++ syncNodes c₂ := by
  simp [syncNodes_eq_filter_map]

theorem syncNodes_of_none {c : Config} (h : ∀ n ∈ c, n.hasType syncType = false) : syncNodes c = [] := by
  rw [syncNodes_eq_filter_map]
  simp only [List.map_eq_nil_iff, List.filter_eq_nil_iff]
  intro n hn; simp [h n hn]

/-! ### the two loops -/

theorem dropSelf_eq_filter (self : Nat) (l : List Nat) : dropSelf self l = l.filter (· ≠ self) := by
  induction l with
  | nil => rfl
  | cons m ms ih => simp only [dropSelf, List.filter_cons]; split <;> simp_all

theorem hasSelf_iff (self : Nat) (l : List Nat) : hasSelf self l = true ↔ self ∈ l := by
  induction l with
  | nil => simp [hasSelf]
  | cons m ms ih =>
    simp only [hasSelf, List.mem_cons]
    split
    · rename_i h; simp [h]
    · rename_i h; rw [ih]; constructor
      · exact Or.inr
      · rintro (h' | h')
        · exact absurd h'.symm h
        · exact h'

/-! ### the toy ring satisfies the assumptions -/

theorem ins_perm (a : Nat) (l : List Nat) : (ins a l).Perm (a :: l) := by
  induction l with
  | nil => exact List.Perm.refl _
  | cons b bs ih =>
    simp only [ins]; split
    · exact List.Perm.refl _
    · exact (List.Perm.cons b ih).trans (List.Perm.swap a b bs)

theorem isort_perm (l : List Nat) : (isort l).Perm l := by
  induction l with
  | nil => exact List.Perm.refl _
  | cons a as ih => exact (ins_perm a _).trans (List.Perm.cons a ih)

theorem ins_sorted (a : Nat) (l : List Nat) (h : l.Pairwise (· ≤ ·)) : (ins a l).Pairwise (· ≤ ·) := by
  induction l with
  | nil => simp [ins]
  | cons b bs ih =>
    simp only [ins]; split
    · rename_i hab
      refine List.Pairwise.cons ?_ h
      intro x hx
      rcases List.mem_cons.mp hx with rfl | hx
      · exact hab
      · exact Nat.le_trans hab ((List.pairwise_cons.mp h).1 x hx)
    · rename_i hab
      refine List.Pairwise.cons ?_ (ih (List.pairwise_cons.mp h).2)
      intro x hx
      rcases List.mem_cons.mp ((ins_perm a bs).mem_iff.mp hx) with rfl | hx
      · omega
      · exact (List.pairwise_cons.mp h).1 x hx

theorem isort_sorted (l : List Nat) : (isort l).Pairwise (· ≤ ·) := by
  induction l with
  | nil => simp [isort]
  | cons a as ih => exact ins_sorted a _ ih

theorem isort_perm_eq {a b : List Nat} (h : a.Perm b) : isort a = isort b := by
  apply List.Perm.eq_of_pairwise (le := (· ≤ ·))
  · intro x y _ _ h1 h2; exact Nat.le_antisymm h1 h2
  · exact isort_sorted a
  · exact isort_sorted b
  · exact ((isort_perm a).trans h).trans (isort_perm b).symm

theorem toyRing_ok (rf : Nat) : RingOK (toyRing rf) rf := by
  have rot : ∀ (s : List Nat) (i : Nat), (s.drop i ++ s.take i).Perm s := by
    intro s i
    exact List.perm_append_comm.trans (by rw [List.take_append_drop])
  refine ⟨?_, ?_, ?_, ?_⟩
  · intro ns k hn
    simp only [toyRing, toyMembers]
    have hs : (isort ns).Nodup := (isort_perm ns).nodup_iff.mpr hn
    exact ((rot _ _).nodup_iff.mpr hs).sublist (List.take_sublist _ _)
  · intro ns k m hm
    simp only [toyRing, toyMembers] at hm
    have := (rot _ _).mem_iff.mp (List.mem_of_mem_take hm)
    exact (isort_perm ns).mem_iff.mp this
  · intro ns k _
    simp only [toyRing, toyMembers]
    rw [List.length_take, (rot _ _).length_eq, (isort_perm ns).length_eq]
  · intro ns ns' k _ hp
    simp only [toyRing, toyMembers]
    rw [isort_perm_eq hp]

end AnySync.NodeConf
