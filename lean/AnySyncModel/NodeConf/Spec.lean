/-
Specification vocabulary for C18: the properties of the consistent-hash ring that the theorems
ASSUME (go-chash is third-party code: modelled as a parameter, not verified; the harness checks these
properties on every sample), and a small concrete ring that satisfies them (non-vacuity).
-/
import AnySyncModel.NodeConf.Model

namespace AnySync.NodeConf

/-- assumed properties of `go-chash` for a ring with replication factor `rf`, for duplicate-free
member lists `ns` (nodeconf never adds a duplicate: `AddMembers` is called once per ring):
* `GetMembers` returns distinct members,
* only members that were added,
* exactly `min rf (number of members)` of them,
* and the answer is a function of the member **set** (independent of the order of `AddMembers`). -/
structure RingOK (r : Ring) (rf : Nat) : Prop where
  nodup : ∀ ns k, ns.Nodup → (r.members ns k).Nodup
  subset : ∀ ns k m, m ∈ r.members ns k → m ∈ ns
  length : ∀ ns k, ns.Nodup → (r.members ns k).length = min rf ns.length
  setFun : ∀ ns ns' k, ns.Nodup → ns.Perm ns' → r.members ns k = r.members ns' k

/-- insertion sort (structural, so that `decide` evaluates the examples) -/
def ins (a : Nat) : List Nat → List Nat
  | [] => [a]
  | b :: bs => if a ≤ b then a :: b :: bs else b :: ins a bs

def isort : List Nat → List Nat
  | [] => []
  | a :: as => ins a (isort as)

/-- a concrete toy ring: sort the members, start at `key length mod n`, take `rf` cyclically -/
def toyMembers (rf : Nat) (ns : List Nat) (k : String) : List Nat :=
  let s := isort ns
  ((s.drop (k.toList.length % s.length)) ++ (s.take (k.toList.length % s.length))).take rf

def toyRing (rf : Nat) : Ring := ⟨toyMembers rf, fun k => k.toList.length % 10⟩

end AnySync.NodeConf
