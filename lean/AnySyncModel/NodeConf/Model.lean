/-
Model of `nodeconf/nodeconf.go` (C18): `ReplKey`, the construction of the sync ring from a
configuration (`сonfigurationToNodeConf`), `NodeIds`, `IsResponsible`, `Partition`.

The consistent-hash ring (third-party `go-chash`) is NOT modelled: it is a parameter `Ring`
(`members`, `partition`) whose assumed properties are collected in `Spec.lean` (`RingOK`) and
checked on every harness sample. Core Lean only (linked into `modeld`).
-/
import AnySyncModel.Generated.NodeConfShape

namespace AnySync.NodeConf
open AnySync.Generated.NodeConf

/-! ## ReplKey -/

/-- `strings.LastIndex(s, c)`; `none` is Go's `-1` -/
def lastIndexOf (c : Char) : List Char → Option Nat
  | [] => none
  | x :: xs =>
    match lastIndexOf c xs with
    | some i => some (i + 1)
    | none => if x = c then some 0 else none

/-- `strings.Index(s, c)`; `none` is Go's `-1` -/
def indexOf (c : Char) : List Char → Option Nat
  | [] => none
  | x :: xs => if x = c then some 0 else (indexOf c xs).map (· + 1)

/-- the search `ReplKey` performs (regenerated: `strings.LastIndex` on the unchanged tree) -/
def dotIndex (l : List Char) : Option Nat :=
  if replKeyLastDot then lastIndexOf '.' l else indexOf '.' l

/-- outcome of a Go slice expression `s[i:]`: `none` = run-time panic (slice bounds out of range) -/
def sliceFrom (l : List Char) (i : Nat) : Option (List Char) :=
  if i ≤ l.length then some (l.drop i) else none

/-- `ReplKey` on code-unit lists, with the slice checked: `none` = panic -/
def replKeyChecked (l : List Char) : Option (List Char) :=
  match dotIndex l with
  | some i => sliceFrom l (i + replKeySkip)
  | none => some l

/-- `ReplKey` on code-unit lists (total; `replKeyChecked_eq` shows the slice never panics) -/
def replKeyL (l : List Char) : List Char :=
  match dotIndex l with
  | some i => l.drop (i + replKeySkip)
  | none => l

/-- `func ReplKey(spaceId string) (replKey string)` -/
def replKey (spaceId : String) : String := String.ofList (replKeyL spaceId.toList)

/-! ## configuration → ring members -/

inductive NodeType where
  | tree | consensus | file | fileV2 | coordinator | namingNode | paymentProcessingNode | other
  deriving DecidableEq, Repr

structure Node where
  id : Nat
  types : List NodeType
  deriving Repr

/-- the loop of `Node.HasType` over `n.Types`: `true` on the first match -/
def hasTypeIn (t : NodeType) : List NodeType → Bool
  | [] => false
  | x :: xs => if x = t then true else hasTypeIn t xs

def Node.hasType (n : Node) (t : NodeType) : Bool := hasTypeIn t n.types

abbrev Config := List Node

/-- the type whose nodes are put on the sync ring (regenerated: `NodeTypeTree`) -/
def syncType : NodeType := if syncRingTypeIsTree then .tree else .other

/-- `members` of `сonfigurationToNodeConf`: ids of the nodes with the tree type, in configuration order -/
def syncNodes : Config → List Nat
  | [] => []
  | n :: rest => if n.hasType syncType then n.id :: syncNodes rest else syncNodes rest

/-! ## the ring (go-chash, a parameter) and the three queries -/

/-- what `nodeConf` uses of `chash.CHash` after `AddMembers(members...)`:
`members ns key` = `GetMembers(key)` of a ring that holds the nodes `ns`; `partition key` = `GetPartition(key)` -/
structure Ring where
  members : List Nat → String → List Nat
  partition : String → Nat

/-- one participant: its own account id and its own copy of the configuration -/
structure View where
  self : Nat
  cfg : Config

/-- `c.chash.GetMembers(ReplKey(spaceId))` -/
def responsible (r : Ring) (cfg : Config) (spaceId : String) : List Nat :=
  r.members (syncNodes cfg) (replKey spaceId)

/-- the loop of `NodeIds`: append every member whose id differs from the account id -/
def dropSelf (self : Nat) : List Nat → List Nat
  | [] => []
  | m :: ms => if m ≠ self then m :: dropSelf self ms else dropSelf self ms

/-- the loop of `IsResponsible`: `true` on the first member whose id equals the account id -/
def hasSelf (self : Nat) : List Nat → Bool
  | [] => false
  | m :: ms => if m = self then true else hasSelf self ms

def nodeIds (r : Ring) (v : View) (spaceId : String) : List Nat :=
  dropSelf v.self (responsible r v.cfg spaceId)

def isResponsible (r : Ring) (v : View) (spaceId : String) : Bool :=
  hasSelf v.self (responsible r v.cfg spaceId)

def partition (r : Ring) (spaceId : String) : Nat :=
  r.partition (replKey spaceId)

end AnySync.NodeConf
