import AnySyncModel.Ldiff.Arith
/-! Lemmas about the diff: element comparison, range answers of canonical indexes. -/
namespace AnySync.Ldiff

/-! ### `compareElementsEqual` / `compareElementsGreater` are exactly the specification -/

theorem foldMyEqual (other : List (Nat × Nat)) : ∀ (my : List (Nat × Nat)) (c : DCtx),
    my.foldl (stepMyEqual other) c
    = { c with changed := c.changed ++ specChanged my other,
               removed := c.removed ++ specRemoved my other } := by
  intro my
  induction my with
  | nil => intro c; simp [specChanged, specRemoved]
  | cons e es ih =>
    intro c
    rw [List.foldl_cons, ih]
    cases hl : lookupHead other e.1 with
    | none => simp [stepMyEqual, specChanged, specRemoved, filterRel, relNe, List.filter_cons, hl]
    | some h =>
      by_cases hh : h = e.2
      · simp [stepMyEqual, specChanged, specRemoved, filterRel, relNe, List.filter_cons, hl, hh]
      · simp [stepMyEqual, specChanged, specRemoved, filterRel, relNe, List.filter_cons, hl, hh]

theorem foldOtherNew (my : List (Nat × Nat)) : ∀ (other : List (Nat × Nat)) (c : DCtx),
    other.foldl (stepOtherNew my) c
    = { c with newIds := c.newIds ++ specNew my other } := by
  intro other
  induction other with
  | nil => intro c; simp [specNew]
  | cons e es ih =>
    intro c
    rw [List.foldl_cons, ih]
    cases hl : lookupHead my e.1 with
    | none => simp [stepOtherNew, specNew, List.filter_cons, hl]
    | some h => simp [stepOtherNew, specNew, List.filter_cons, hl]

/-- **compareElementsEqual is exact**: it appends exactly the specified ids, in order -/
theorem cmpEqual_exact (c : DCtx) (my other : List (Nat × Nat)) :
    cmpEqual c my other =
      { c with newIds := c.newIds ++ specNew my other,
               changed := c.changed ++ specChanged my other,
               removed := c.removed ++ specRemoved my other } := by
  unfold cmpEqual
  rw [foldMyEqual, foldOtherNew]

theorem foldMyGreater (other : List (Nat × Nat)) : ∀ (my : List (Nat × Nat)) (c : DCtx),
    my.foldl (stepMyGreater other) c
    = { c with changed := c.changed ++ specOurChanged my other,
               theirChanged := c.theirChanged ++ specTheirChanged my other,
               removed := c.removed ++ specRemoved my other } := by
  intro my
  induction my with
  | nil => intro c; simp [specOurChanged, specTheirChanged, specRemoved]
  | cons e es ih =>
    intro c
    rw [List.foldl_cons, ih]
    cases hl : lookupHead other e.1 with
    | none => simp [stepMyGreater, specOurChanged, specTheirChanged, specRemoved, filterRel, relOur, relTheir, List.filter_cons, hl]
    | some h =>
      by_cases hh : h = e.2
      · simp [stepMyGreater, specOurChanged, specTheirChanged, specRemoved, filterRel, relOur, relTheir, List.filter_cons, hl, hh]
      · by_cases hg : h > e.2
        · simp [stepMyGreater, specOurChanged, specTheirChanged, specRemoved, filterRel, relOur, relTheir, List.filter_cons, hl, hh, hg]
        · have hle : h ≤ e.2 := by omega
          simp [stepMyGreater, specOurChanged, specTheirChanged, specRemoved, filterRel, relOur, relTheir, List.filter_cons, hl, hh, hg, hle]

/-- **compareElementsGreater is exact** -/
theorem cmpGreater_exact (c : DCtx) (my other : List (Nat × Nat)) :
    cmpGreater c my other =
      { c with newIds := c.newIds ++ specNew my other,
               changed := c.changed ++ specOurChanged my other,
               theirChanged := c.theirChanged ++ specTheirChanged my other,
               removed := c.removed ++ specRemoved my other } := by
  unfold cmpGreater
  rw [foldMyGreater, foldOtherNew]

/-! ### digests of canonical subtrees determine the contents of their ranges -/

/-- digests are collision free and the two kinds never collide (blake3; trusted) -/
structure DigOk {D} (A : DigAlg D) : Prop where
  hE_inj : Function.Injective A.hE
  hN_inj : Function.Injective A.hN
  sep : ∀ l l', A.hE l ≠ A.hN l'

theorem elemsHash_none_iff {D} (A : DigAlg D) (els : List Elem) :
    elemsHash A els = none ↔ els = [] := by
  unfold elemsHash; cases els <;> simp

theorem elemsHash_inj {D} (A : DigAlg D) (h : DigOk A) (l l' : List Elem)
    (he : elemsHash A l = elemsHash A l') : pairs l = pairs l' := by
  unfold elemsHash at he
  cases l <;> cases l' <;> simp_all [pairs]
  simpa using h.hE_inj he

theorem elems_ne_divided {D} (A : DigAlg D) (h : DigOk A) (l : List Elem) (ts : List (Tree D)) :
    elemsHash A l ≠ kidsHash A ts := by
  unfold elemsHash kidsHash
  split
  · simp
  · intro he; exact h.sep _ _ (Option.some.inj he)

section inj
variable {D : Type} (A : DigAlg D) (S : Splitter) (p : Params)

/-- a canonical subtree with a nil digest is an empty range (there is no `stuck` under `WidthOk`) -/
theorem hash_none_empty (sl : List Elem) (f lo hi : Nat) (hw : WidthOk S p sl f lo hi)
    (hn : (build A S p sl f lo hi).hash = none) : slRange sl lo hi = [] := by
  cases f with
  | zero =>
    simp only [WidthOk, Div] at hw
    rw [build_zero, if_neg hw] at hn
    exact (elemsHash_none_iff A _).mp hn
  | succ f =>
    rw [build_succ] at hn
    by_cases hc : (slRange sl lo hi).length > p.thr ∧ S.wide lo hi p.df = true
    · rw [if_pos hc] at hn; simp [Tree.hash, kidsHash] at hn
    · rw [if_neg hc] at hn; exact (elemsHash_none_iff A _).mp hn

/-- the contents of a well-split range are the union of the contents of its parts -/
theorem content_union (sl : List Elem) (lo hi : Nat) (hs : SplitOk S p.df lo hi) (x : Nat × Nat) :
    x ∈ pairs (slRange sl lo hi) ↔
      ∃ i, i < p.df ∧ x ∈ pairs (slRange sl (S.child lo hi p.df i).1 (S.child lo hi p.df i).2) := by
  simp only [pairs, List.mem_map]
  constructor
  · rintro ⟨e, he, rfl⟩
    have hm := mem_slRange.mp he
    obtain ⟨i, _, hi', hin, _⟩ := hs.bucket e.hash hm.2.1 hm.2.2
    exact ⟨i, hi', e, mem_slRange.mpr ⟨hm.1, hin.1, hin.2⟩, rfl⟩
  · rintro ⟨i, hi', e, he, rfl⟩
    have hm := mem_slRange.mp he
    have hsub := hs.sub i hi'
    exact ⟨e, mem_slRange.mpr ⟨hm.1, by omega, by omega⟩, rfl⟩

theorem mem_kids_hash (sl : List Elem) (f lo hi : Nat) (d : D) :
    d ∈ (buildKids A S p sl f lo hi).filterMap Tree.hash ↔
      ∃ i, i < p.df ∧ (build A S p sl f (S.child lo hi p.df i).1 (S.child lo hi p.df i).2).hash = some d := by
  unfold buildKids
  simp only [List.mem_filterMap, List.mem_map, List.mem_range]
  constructor
  · rintro ⟨t, ⟨i, hi', rfl⟩, ht⟩; exact ⟨i, hi', ht⟩
  · rintro ⟨i, hi', ht⟩; exact ⟨_, ⟨i, hi', rfl⟩, ht⟩

/-- the two shapes of a canonical subtree under the width hypothesis -/
theorem build_cases (sl : List Elem) (f lo hi : Nat) (hw : WidthOk S p sl f lo hi) :
    (¬ Div S p sl lo hi ∧ build A S p sl f lo hi = mkLeaf A sl lo hi) ∨
    (∃ g, f = g + 1 ∧ Div S p sl lo hi ∧
      build A S p sl f lo hi = .div (slRange sl lo hi).length
        (kidsHash A (buildKids A S p sl g lo hi)) (buildKids A S p sl g lo hi) ∧
      SplitOk S p.df lo hi ∧
      ∀ i, i < p.df → WidthOk S p sl g (S.child lo hi p.df i).1 (S.child lo hi p.df i).2) := by
  cases f with
  | zero =>
    simp only [WidthOk, Div] at hw
    left; exact ⟨hw, by rw [build_zero, if_neg hw]⟩
  | succ g =>
    by_cases hc : (slRange sl lo hi).length > p.thr ∧ S.wide lo hi p.df = true
    · right
      rcases hw with h | h
      · exact absurd hc h
      · exact ⟨g, rfl, hc, by rw [build_succ, if_pos hc], h.1, h.2⟩
    · left; exact ⟨hc, by rw [build_succ, if_neg hc]⟩

/-- equal divided digests: the unions of the children's contents agree, provided equal child
digests mean equal child contents. No positional argument is needed although `calcDividedHash`
drops nil children. -/
theorem kids_match (hA : DigOk A) (sl sl' : List Elem) (g g' lo hi lo' hi' : Nat)
    (hs : SplitOk S p.df lo hi) (hs' : SplitOk S p.df lo' hi')
    (hwk : ∀ i, i < p.df → WidthOk S p sl g (S.child lo hi p.df i).1 (S.child lo hi p.df i).2)
    (hwk' : ∀ i, i < p.df → WidthOk S p sl' g' (S.child lo' hi' p.df i).1 (S.child lo' hi' p.df i).2)
    (H : ∀ i j, i < p.df → j < p.df →
      (build A S p sl g (S.child lo hi p.df i).1 (S.child lo hi p.df i).2).hash
        = (build A S p sl' g' (S.child lo' hi' p.df j).1 (S.child lo' hi' p.df j).2).hash →
      ∀ x, x ∈ pairs (slRange sl (S.child lo hi p.df i).1 (S.child lo hi p.df i).2) ↔
           x ∈ pairs (slRange sl' (S.child lo' hi' p.df j).1 (S.child lo' hi' p.df j).2))
    (hk : kidsHash A (buildKids A S p sl g lo hi) = kidsHash A (buildKids A S p sl' g' lo' hi')) :
    ∀ x, x ∈ pairs (slRange sl lo hi) ↔ x ∈ pairs (slRange sl' lo' hi') := by
  intro x
  have hk' : (buildKids A S p sl g lo hi).filterMap Tree.hash
      = (buildKids A S p sl' g' lo' hi').filterMap Tree.hash := by
    simp only [kidsHash, Option.some.injEq] at hk
    exact hA.hN_inj hk
  rw [content_union S p sl lo hi hs, content_union S p sl' lo' hi' hs']
  constructor
  · rintro ⟨i, hid, hx⟩
    have hne : slRange sl (S.child lo hi p.df i).1 (S.child lo hi p.df i).2 ≠ [] := by
      intro he; rw [he] at hx; simp [pairs] at hx
    cases hd : (build A S p sl g (S.child lo hi p.df i).1 (S.child lo hi p.df i).2).hash with
    | none => exact absurd (hash_none_empty A S p sl g _ _ (hwk i hid) hd) hne
    | some d =>
      have hm : d ∈ (buildKids A S p sl g lo hi).filterMap Tree.hash :=
        (mem_kids_hash A S p sl g lo hi d).mpr ⟨i, hid, hd⟩
      rw [hk'] at hm
      obtain ⟨j, hj, hdj⟩ := (mem_kids_hash A S p sl' g' lo' hi' d).mp hm
      exact ⟨j, hj, (H i j hid hj (by rw [hd, hdj]) x).mp hx⟩
  · rintro ⟨j, hj, hx⟩
    have hne : slRange sl' (S.child lo' hi' p.df j).1 (S.child lo' hi' p.df j).2 ≠ [] := by
      intro he; rw [he] at hx; simp [pairs] at hx
    cases hd : (build A S p sl' g' (S.child lo' hi' p.df j).1 (S.child lo' hi' p.df j).2).hash with
    | none => exact absurd (hash_none_empty A S p sl' g' _ _ (hwk' j hj) hd) hne
    | some d =>
      have hm : d ∈ (buildKids A S p sl' g' lo' hi').filterMap Tree.hash :=
        (mem_kids_hash A S p sl' g' lo' hi' d).mpr ⟨j, hj, hd⟩
      rw [← hk'] at hm
      obtain ⟨i, hid, hdi⟩ := (mem_kids_hash A S p sl g lo hi d).mp hm
      exact ⟨i, hid, (H i j hid hj (by rw [hd, hdi]) x).mpr hx⟩

/-- **equal digests, equal contents** — for two canonical subtrees, over possibly different
ranges, contents and depth budgets. -/
theorem build_hash_inj (hA : DigOk A) (sl sl' : List Elem) :
    ∀ f f' lo hi lo' hi', WidthOk S p sl f lo hi → WidthOk S p sl' f' lo' hi' →
      (build A S p sl f lo hi).hash = (build A S p sl' f' lo' hi').hash →
      ∀ x, x ∈ pairs (slRange sl lo hi) ↔ x ∈ pairs (slRange sl' lo' hi') := by
  intro f
  induction f with
  | zero =>
    intro f' lo hi lo' hi' hw hw' hh x
    rcases build_cases A S p sl 0 lo hi hw with ⟨_, hb⟩ | ⟨g, hg, _⟩
    · rcases build_cases A S p sl' f' lo' hi' hw' with ⟨_, hb'⟩ | ⟨g', _, _, hb', _, _⟩
      · rw [hb, hb'] at hh
        rw [elemsHash_inj A hA _ _ hh]
      · rw [hb, hb'] at hh
        exact absurd hh (elems_ne_divided A hA _ _)
    · omega
  | succ f ih =>
    intro f' lo hi lo' hi' hw hw' hh x
    rcases build_cases A S p sl (f + 1) lo hi hw with ⟨_, hb⟩ | ⟨g, hg, _, hb, hs, hwk⟩
    · rcases build_cases A S p sl' f' lo' hi' hw' with ⟨_, hb'⟩ | ⟨g', _, _, hb', _, _⟩
      · rw [hb, hb'] at hh
        rw [elemsHash_inj A hA _ _ hh]
      · rw [hb, hb'] at hh
        exact absurd hh (elems_ne_divided A hA _ _)
    · have hgf : g = f := by omega
      subst hgf
      rcases build_cases A S p sl' f' lo' hi' hw' with ⟨_, hb'⟩ | ⟨g', _, _, hb', hs', hwk'⟩
      · rw [hb, hb'] at hh
        exact absurd hh.symm (elems_ne_divided A hA _ _)
      · rw [hb, hb'] at hh
        exact kids_match A S p hA sl sl' g g' lo hi lo' hi' hs hs' hwk hwk'
          (fun i j hid hj he => ih g' _ _ _ _ (hwk i hid) (hwk' j hj) he) hh x

/-- the digest of the elements of a range without a node against the digest of a canonical node -/
theorem elems_vs_node_inj (hA : DigOk A) (sl sl' : List Elem) (f lo hi lo' hi' : Nat)
    (hw : WidthOk S p sl' f lo' hi')
    (hh : elemsHash A (slRange sl lo hi) = (build A S p sl' f lo' hi').hash) :
    pairs (slRange sl lo hi) = pairs (slRange sl' lo' hi') := by
  cases f with
  | zero =>
    simp only [WidthOk, Div] at hw
    rw [build_zero, if_neg hw] at hh
    exact elemsHash_inj A hA _ _ hh
  | succ f =>
    rw [build_succ] at hh
    split at hh
    · exact absurd hh (elems_ne_divided A hA _ _)
    · exact elemsHash_inj A hA _ _ hh

end inj

end AnySync.Ldiff
