import AnySyncModel.Ldiff.Arith
/-! Lemmas about the diff: element comparison, range answers of canonical indexes. -/
namespace AnySync.Ldiff

/-! ### `compareElementsEqual` / `compareElementsGreater` are exactly the specification -/

theorem foldMyEqual (other : List (Nat × Nat)) : ∀ (my : List (Nat × Nat)) (c : DCtx),
    my.foldl (stepMyEqual other) c
    = { c with changed := c.changed ++ specChanged my other,
               removed := c.removed ++ specRemoved my other } := by
  intro my
  induction my with
  | nil => intro c; simp [specChanged, specRemoved]
  | cons e es ih =>
    intro c
    rw [List.foldl_cons, ih]
    cases hl : lookupHead other e.1 with
    | none => simp [stepMyEqual, specChanged, specRemoved, List.filter_cons, hl]
    | some h =>
      by_cases hh : h = e.2
      · simp [stepMyEqual, specChanged, specRemoved, List.filter_cons, hl, hh]
      · simp [stepMyEqual, specChanged, specRemoved, List.filter_cons, hl, hh]

theorem foldOtherNew (my : List (Nat × Nat)) : ∀ (other : List (Nat × Nat)) (c : DCtx),
    other.foldl (stepOtherNew my) c
    = { c with newIds := c.newIds ++ specNew my other } := by
  intro other
  induction other with
  | nil => intro c; simp [specNew]
  | cons e es ih =>
    intro c
    rw [List.foldl_cons, ih]
    cases hl : lookupHead my e.1 with
    | none => simp [stepOtherNew, specNew, List.filter_cons, hl]
    | some h => simp [stepOtherNew, specNew, List.filter_cons, hl]

/-- **compareElementsEqual is exact**: it appends exactly the specified ids, in order -/
theorem cmpEqual_exact (c : DCtx) (my other : List (Nat × Nat)) :
    cmpEqual c my other =
      { c with newIds := c.newIds ++ specNew my other,
               changed := c.changed ++ specChanged my other,
               removed := c.removed ++ specRemoved my other } := by
  unfold cmpEqual
  rw [foldMyEqual, foldOtherNew]

theorem foldMyGreater (other : List (Nat × Nat)) : ∀ (my : List (Nat × Nat)) (c : DCtx),
    my.foldl (stepMyGreater other) c
    = { c with changed := c.changed ++ specOurChanged my other,
               theirChanged := c.theirChanged ++ specTheirChanged my other,
               removed := c.removed ++ specRemoved my other } := by
  intro my
  induction my with
  | nil => intro c; simp [specOurChanged, specTheirChanged, specRemoved]
  | cons e es ih =>
    intro c
    rw [List.foldl_cons, ih]
    cases hl : lookupHead other e.1 with
    | none => simp [stepMyGreater, specOurChanged, specTheirChanged, specRemoved, List.filter_cons, hl]
    | some h =>
      by_cases hh : h = e.2
      · simp [stepMyGreater, specOurChanged, specTheirChanged, specRemoved, List.filter_cons, hl, hh]
      · by_cases hg : h > e.2
        · simp [stepMyGreater, specOurChanged, specTheirChanged, specRemoved, List.filter_cons, hl, hh, hg]
        · have hle : h ≤ e.2 := by omega
          simp [stepMyGreater, specOurChanged, specTheirChanged, specRemoved, List.filter_cons, hl, hh, hg, hle]

/-- **compareElementsGreater is exact** -/
theorem cmpGreater_exact (c : DCtx) (my other : List (Nat × Nat)) :
    cmpGreater c my other =
      { c with newIds := c.newIds ++ specNew my other,
               changed := c.changed ++ specOurChanged my other,
               theirChanged := c.theirChanged ++ specTheirChanged my other,
               removed := c.removed ++ specRemoved my other } := by
  unfold cmpGreater
  rw [foldMyGreater, foldOtherNew]

end AnySync.Ldiff
