import AnySyncModel.Ldiff.Lemmas
/-!
The uint64 arithmetic of `genTupleRanges` / `getBottomRange` (model: `perRange`, `align`,
`childRange`, `bucketOf`, `genLoop`): for `lo ≤ hi < 2^64`, `df ≥ 2` and a range not narrower than
`df`, the `df` parts are consecutive, non-empty, lie inside `[lo,hi]`, cover it, and `bucketOf`
returns the part containing the hash. This discharges `SplitOk goSplit`.
-/
namespace AnySync.Ldiff

theorem span_eq (lo hi : Nat) (h1 : lo ≤ hi) (h2 : hi < M) : (hi + M - lo) % M = hi - lo := by
  simp only [M] at h2 ⊢; omega

/-- a range that can be divided into `df` non-empty parts -/
structure Wide (lo hi df : Nat) : Prop where
  le : lo ≤ hi
  lt : hi < M
  df2 : 2 ≤ df
  wide : df ≤ hi - lo + 1

theorem mod_small (a : Nat) (h : a < M) : a % M = a := Nat.mod_eq_of_lt h

theorem end_mod (a : Nat) (h1 : 1 ≤ a) (h2 : a ≤ M) : (a + M - 1) % M = a - 1 := by
  simp only [M] at h2 ⊢; omega

/-- width = df * perRange + align, with 1 ≤ perRange and align < df -/
theorem split_facts (lo hi df : Nat) (w : Wide lo hi df) :
    1 ≤ perRange lo hi df ∧ align lo hi df < df ∧
      hi - lo + 1 = df * perRange lo hi df + align lo hi df := by
  obtain ⟨h1, h2, hdf, hw⟩ := w
  have hs := span_eq lo hi h1 h2
  simp only [perRange, align, hs]
  generalize hi - lo = s at *
  have hd := Nat.div_add_mod s df
  have hr := Nat.mod_lt s (show df > 0 by omega)
  generalize s / df = q at *
  generalize s % df = r at *
  by_cases ha : (r + 1) % df = 0
  · have he : r + 1 = df := by
      by_cases hlt : r + 1 < df
      · rw [Nat.mod_eq_of_lt hlt] at ha; omega
      · omega
    simp only [ha, if_true]
    rw [Nat.mul_add, Nat.mul_one]
    omega
  · have hlt : r + 1 < df := by
      by_cases he : r + 1 = df
      · rw [he, Nat.mod_self] at ha; exact absurd rfl ha
      · omega
    have hq : 1 ≤ q := by
      by_cases h0 : q = 0
      · rw [h0, Nat.mul_zero] at hd; omega
      · omega
    simp only [ha, if_false]
    rw [Nat.mod_eq_of_lt hlt]
    omega

/-- closed form of the `i`-th part -/
theorem child_closed (lo hi df i : Nat) (w : Wide lo hi df) (hi' : i < df) :
    childRange lo hi df i =
      (lo + i * perRange lo hi df,
       if i = df - 1 then hi else lo + i * perRange lo hi df + perRange lo hi df - 1) := by
  obtain ⟨hP, hal, hsum⟩ := split_facts lo hi df w
  obtain ⟨h1, h2, hdf, hw⟩ := w
  have e1 : df * perRange lo hi df = (df - 1) * perRange lo hi df + perRange lo hi df := by
    have := Nat.succ_mul (df - 1) (perRange lo hi df)
    rw [Nat.succ_eq_add_one, Nat.sub_add_cancel (by omega)] at this
    exact this
  have e2 : i * perRange lo hi df ≤ (df - 1) * perRange lo hi df :=
    Nat.mul_le_mul_right _ (by omega)
  simp only [childRange]
  rw [mod_small (lo + i * perRange lo hi df) (by omega)]
  by_cases hlast : i = df - 1
  · subst hlast
    simp only [if_true]
    rw [end_mod _ (by omega) (by omega)]
    congr 1
    omega
  · simp only [hlast, if_false]
    have e3 : (i + 1) * perRange lo hi df ≤ (df - 1) * perRange lo hi df :=
      Nat.mul_le_mul_right _ (by omega)
    rw [Nat.succ_mul] at e3
    rw [end_mod _ (by omega) (by omega)]

/-- `getBottomRange` (with the clamp of fix-bottomrange) in closed form -/
theorem bucket_closed (lo hi df h : Nat) (w : Wide lo hi df) (h1 : lo ≤ h) (h2 : h ≤ hi) :
    bucketOf lo hi df h =
      some (if (h - lo) / perRange lo hi df > df - 1 then df - 1 else (h - lo) / perRange lo hi df) := by
  obtain ⟨hP, _, _⟩ := split_facts lo hi df w
  have hs := span_eq lo h h1 (by have := w.lt; omega)
  simp only [bucketOf, hs]
  have : perRange lo hi df ≠ 0 := by omega
  simp only [this, if_false]

theorem succ_mul' (i P : Nat) : (i + 1) * P = i * P + P := by rw [Nat.add_mul, Nat.one_mul]

/-- every part of a wide range is a non-empty sub-range -/
theorem child_wf (lo hi df i : Nat) (w : Wide lo hi df) (hi' : i < df) :
    lo ≤ (childRange lo hi df i).1 ∧ (childRange lo hi df i).1 ≤ (childRange lo hi df i).2 ∧
      (childRange lo hi df i).2 ≤ hi := by
  obtain ⟨hP, hal, hsum⟩ := split_facts lo hi df w
  have h1 := w.le
  have hdf := w.df2
  have e1 : df * perRange lo hi df = (df - 1) * perRange lo hi df + perRange lo hi df := by
    have := succ_mul' (df - 1) (perRange lo hi df)
    rw [Nat.sub_add_cancel (by omega)] at this
    exact this
  have e2 : i * perRange lo hi df ≤ (df - 1) * perRange lo hi df :=
    Nat.mul_le_mul_right _ (by omega)
  rw [child_closed lo hi df i w hi']
  simp only []
  by_cases hlast : i = df - 1
  · simp only [hlast, if_true]
    rw [hlast] at e2
    omega
  · simp only [hlast, if_false]
    have e3 : (i + 1) * perRange lo hi df ≤ (df - 1) * perRange lo hi df :=
      Nat.mul_le_mul_right _ (by omega)
    rw [succ_mul'] at e3
    omega

theorem genLoop_zero (df per al i j : Nat) : genLoop df per al 0 i j = [] := rfl

theorem genLoop_succ (df per al n i j : Nat) :
    genLoop df per al (n + 1) i j =
      (j, (j + (if i = df - 1 then per + al else per) + M - 1) % M) ::
        genLoop df per al n (i + 1) ((j + (if i = df - 1 then per + al else per)) % M) := rfl

/-- the loop of `genTupleRanges` produces exactly the closed-form parts, in order -/
theorem genLoop_eq (lo hi df : Nat) (w : Wide lo hi df) :
    ∀ n i, i + n = df →
      genLoop df (perRange lo hi df) (align lo hi df) n i (lo + i * perRange lo hi df)
        = (List.range' i n).map (childRange lo hi df) := by
  obtain ⟨hP, hal, hsum⟩ := split_facts lo hi df w
  have e1 : df * perRange lo hi df = (df - 1) * perRange lo hi df + perRange lo hi df := by
    have := succ_mul' (df - 1) (perRange lo hi df)
    rw [Nat.sub_add_cancel (by have := w.df2; omega)] at this
    exact this
  have h1 := w.le
  have h2 := w.lt
  intro n
  induction n with
  | zero => intro i _; rfl
  | succ n ih =>
    intro i hin
    have hi' : i < df := by omega
    have e2 : i * perRange lo hi df ≤ (df - 1) * perRange lo hi df :=
      Nat.mul_le_mul_right _ (by omega)
    rw [List.range'_succ, List.map_cons, child_closed lo hi df i w hi', genLoop_succ]
    by_cases hlast : i = df - 1
    · have hn : n = 0 := by omega
      subst hn
      rw [if_pos hlast, if_pos hlast, genLoop_zero, List.range'_zero, List.map_nil]
      have hend : (lo + i * perRange lo hi df + (perRange lo hi df + align lo hi df) + M - 1) % M = hi := by
        rw [end_mod _ (by omega) (by rw [hlast]; omega)]
        rw [hlast]; omega
      rw [hend]
    · have e3 : (i + 1) * perRange lo hi df ≤ (df - 1) * perRange lo hi df :=
        Nat.mul_le_mul_right _ (by omega)
      have e4 := succ_mul' i (perRange lo hi df)
      rw [if_neg hlast, if_neg hlast]
      rw [end_mod _ (by omega) (by omega), mod_small _ (by omega)]
      have hj : lo + i * perRange lo hi df + perRange lo hi df = lo + (i + 1) * perRange lo hi df := by
        omega
      rw [hj, ih (i + 1) (by omega)]

/-- **genTupleRanges_partition**: for a wide range the Go loop returns the `df` parts
`childRange lo hi df 0 … df-1`, which by `goSplit_ok` / `parts_consecutive` are consecutive,
non-empty, disjoint, inside `[lo,hi]` and cover it. -/
theorem genTupleRanges_eq (lo hi df : Nat) (w : Wide lo hi df) :
    genTupleRanges lo hi df = (List.range df).map (childRange lo hi df) := by
  unfold genTupleRanges
  have := genLoop_eq lo hi df w df 0 (by omega)
  simp only [Nat.zero_mul, Nat.add_zero] at this
  rw [this, List.range_eq_range']

/-- **genTupleRanges_partition** for the Go arithmetic: every wide range splits properly. -/
theorem goSplit_ok (lo hi df : Nat) (w : Wide lo hi df) : SplitOk goSplit df lo hi := by
  obtain ⟨hP, hal, hsum⟩ := split_facts lo hi df w
  have e1 : df * perRange lo hi df = (df - 1) * perRange lo hi df + perRange lo hi df := by
    have := Nat.succ_mul (df - 1) (perRange lo hi df)
    rw [Nat.succ_eq_add_one, Nat.sub_add_cancel (by have := w.df2; omega)] at this
    exact this
  have hle := w.le
  have hdf := w.df2
  refine ⟨?_, ?_, fun i hi' => (child_wf lo hi df i w hi').2.1, genTupleRanges_eq lo hi df w⟩
  · intro i hi'
    show lo ≤ (childRange lo hi df i).1 ∧ (childRange lo hi df i).2 ≤ hi
    rw [child_closed lo hi df i w hi']
    have e2 : i * perRange lo hi df ≤ (df - 1) * perRange lo hi df :=
      Nat.mul_le_mul_right _ (by omega)
    constructor
    · simp only []; omega
    · simp only []
      split
      · omega
      · have e3 : (i + 1) * perRange lo hi df ≤ (df - 1) * perRange lo hi df :=
          Nat.mul_le_mul_right _ (by omega)
        rw [Nat.succ_mul] at e3
        omega
  · intro h h1 h2
    have hb := bucket_closed lo hi df h w h1 h2
    -- q = (h - lo) / P, with P*q ≤ h - lo < P*q + P
    have hd := Nat.div_add_mod (h - lo) (perRange lo hi df)
    have hr := Nat.mod_lt (h - lo) (show perRange lo hi df > 0 by omega)
    refine ⟨_, hb, ?_, ?_, ?_⟩
    · split <;> omega
    · show (childRange lo hi df _).1 ≤ h ∧ h ≤ (childRange lo hi df _).2
      by_cases hq : (h - lo) / perRange lo hi df > df - 1
      · simp only [hq, if_true]
        rw [child_closed lo hi df (df - 1) w (by omega)]
        simp only [if_true]
        have e4 : (df - 1) * perRange lo hi df ≤ ((h - lo) / perRange lo hi df) * perRange lo hi df :=
          Nat.mul_le_mul_right _ (by omega)
        rw [Nat.mul_comm ((h - lo) / perRange lo hi df)] at e4
        omega
      · simp only [hq, if_false]
        rw [child_closed lo hi df _ w (by omega)]
        simp only []
        rw [Nat.mul_comm ((h - lo) / perRange lo hi df)]
        split <;> omega
    · intro j hj hne
      show ¬ ((childRange lo hi df j).1 ≤ h ∧ h ≤ (childRange lo hi df j).2)
      rw [child_closed lo hi df j w hj]
      simp only []
      by_cases hq : (h - lo) / perRange lo hi df > df - 1
      · simp only [hq, if_true] at hne
        -- j < df - 1, so the j-th part ends before the last part starts, and h is in or beyond it
        have hj' : j ≠ df - 1 := hne
        simp only [hj', if_false]
        have e3 : (j + 1) * perRange lo hi df ≤ (df - 1) * perRange lo hi df :=
          Nat.mul_le_mul_right _ (by omega)
        rw [Nat.succ_mul] at e3
        have e4 : (df - 1) * perRange lo hi df ≤ ((h - lo) / perRange lo hi df) * perRange lo hi df :=
          Nat.mul_le_mul_right _ (by omega)
        rw [Nat.mul_comm ((h - lo) / perRange lo hi df)] at e4
        omega
      · simp only [hq, if_false] at hne
        rw [Nat.mul_comm] at hd
        by_cases hlt : j < (h - lo) / perRange lo hi df
        · have hj' : j ≠ df - 1 := by omega
          simp only [hj', if_false]
          have e3 : (j + 1) * perRange lo hi df ≤ ((h - lo) / perRange lo hi df) * perRange lo hi df :=
            Nat.mul_le_mul_right _ (by omega)
          rw [Nat.succ_mul] at e3
          omega
        · have e3 : ((h - lo) / perRange lo hi df + 1) * perRange lo hi df ≤ j * perRange lo hi df :=
            Nat.mul_le_mul_right _ (by omega)
          rw [Nat.succ_mul] at e3
          omega

/-- part `i+1` starts right after part `i` ends; the first starts at `lo`, the last ends at `hi` -/
theorem parts_consecutive (lo hi df i : Nat) (w : Wide lo hi df) (hi' : i + 1 < df) :
    (childRange lo hi df (i + 1)).1 = (childRange lo hi df i).2 + 1 ∧
    (childRange lo hi df 0).1 = lo ∧ (childRange lo hi df (df - 1)).2 = hi := by
  obtain ⟨hP, _, _⟩ := split_facts lo hi df w
  have hdf := w.df2
  refine ⟨?_, ?_, ?_⟩
  · rw [child_closed lo hi df (i + 1) w hi', child_closed lo hi df i w (by omega)]
    have hne : i ≠ df - 1 := by omega
    simp only [hne, if_false]
    rw [succ_mul' i (perRange lo hi df)]
    omega
  · rw [child_closed lo hi df 0 w (by omega)]
    simp only [Nat.zero_mul, Nat.add_zero]
  · rw [child_closed lo hi df (df - 1) w (by omega)]
    simp only [if_true]

/-! ### fix-width for the Go arithmetic: `canDivide`, and the depth budget always suffices -/

theorem canDivide_iff (lo hi df : Nat) (h1 : lo ≤ hi) (h2 : hi < M) (hdf : 2 ≤ df) (hM : df ≤ M) :
    canDivide lo hi df = true ↔ df ≤ hi - lo + 1 := by
  unfold canDivide
  rw [span_eq lo hi h1 h2]
  have : (df + M - 1) % M = df - 1 := by
    have := end_mod df (by omega) hM
    exact this
  rw [this]
  simp only [decide_eq_true_eq]
  omega

theorem goSplit_wide (lo hi df : Nat) : goSplit.wide lo hi df = canDivide lo hi df := rfl
theorem goSplit_child (lo hi df i : Nat) : goSplit.child lo hi df i = childRange lo hi df i := rfl

theorem kstep (d f : Nat) : d * (2 ^ (f + 1) + 1) + d = 2 * (d * (2 ^ f + 1)) := by
  have h1 : 2 ^ (f + 1) + 1 + 1 = 2 * (2 ^ f + 1) := by rw [Nat.pow_succ]; omega
  have h2 : d * (2 ^ (f + 1) + 1) + d = d * (2 ^ (f + 1) + 1 + 1) := by
    rw [Nat.mul_add d (2 ^ (f + 1) + 1) 1, Nat.mul_one]
  rw [h2, h1, Nat.mul_left_comm]

/-- widths of the parts: every part is at most `w - (df-1)` and at most `(w + df - 1)/2` wide -/
theorem child_width (lo hi df i : Nat) (w : Wide lo hi df) (hi' : i < df) :
    (childRange lo hi df i).2 - (childRange lo hi df i).1 + 1 + (df - 1) ≤ hi - lo + 1 ∧
    2 * ((childRange lo hi df i).2 - (childRange lo hi df i).1 + 1) ≤ hi - lo + 1 + (df - 1) := by
  obtain ⟨hP, hal, hsum⟩ := split_facts lo hi df w
  have h1 := w.le
  have hdf := w.df2
  have e1 : df * perRange lo hi df = (df - 1) * perRange lo hi df + perRange lo hi df := by
    have := succ_mul' (df - 1) (perRange lo hi df)
    rw [Nat.sub_add_cancel (by omega)] at this
    exact this
  have e2 : i * perRange lo hi df ≤ (df - 1) * perRange lo hi df :=
    Nat.mul_le_mul_right _ (by omega)
  have e5 : df - 1 ≤ (df - 1) * perRange lo hi df := Nat.le_mul_of_pos_right _ (by omega)
  have e6 : 2 * perRange lo hi df ≤ df * perRange lo hi df := Nat.mul_le_mul_right _ hdf
  rw [child_closed lo hi df i w hi']
  simp only []
  by_cases hlast : i = df - 1
  · simp only [hlast, if_true]
    rw [hlast] at e2
    omega
  · simp only [hlast, if_false]
    omega

/-- a well-formed range of width at most `(df-1)(2^f+1)` is `NarrowBy (f+1)` -/
theorem narrowBy_go (df : Nat) (hdf : 2 ≤ df) (hM : df ≤ M) :
    ∀ f lo hi, lo ≤ hi → hi < M → hi - lo + 1 ≤ (df - 1) * (2 ^ f + 1) →
      NarrowBy goSplit df (f + 1) lo hi := by
  intro f
  induction f with
  | zero =>
    intro lo hi h1 h2 hb
    simp only [NarrowBy]
    by_cases hw : canDivide lo hi df = true
    · right
      have w : Wide lo hi df := ⟨h1, h2, hdf, (canDivide_iff lo hi df h1 h2 hdf hM).mp hw⟩
      refine ⟨goSplit_ok lo hi df w, ?_⟩
      intro i hi'
      rw [goSplit_child, goSplit_wide]
      have hc := child_wf lo hi df i w hi'
      have hcw := child_width lo hi df i w hi'
      cases hcd : canDivide (childRange lo hi df i).1 (childRange lo hi df i).2 df with
      | false => rfl
      | true =>
        have := (canDivide_iff _ _ df hc.2.1 (by omega) hdf hM).mp hcd
        simp only [Nat.pow_zero] at hb
        omega
    · left
      rw [goSplit_wide]
      cases h : canDivide lo hi df with
      | false => rfl
      | true => exact absurd h hw
  | succ f ih =>
    intro lo hi h1 h2 hb
    simp only [NarrowBy]
    by_cases hw : canDivide lo hi df = true
    · right
      have w : Wide lo hi df := ⟨h1, h2, hdf, (canDivide_iff lo hi df h1 h2 hdf hM).mp hw⟩
      refine ⟨goSplit_ok lo hi df w, ?_⟩
      intro i hi'
      have hc := child_wf lo hi df i w hi'
      have hcw := child_width lo hi df i w hi'
      have := ih (childRange lo hi df i).1 (childRange lo hi df i).2 hc.2.1 (by omega) (by
        have hk := kstep (df - 1) f
        omega)
      simp only [NarrowBy] at this
      exact this
    · left
      rw [goSplit_wide]
      cases h : canDivide lo hi df with
      | false => rfl
      | true => exact absurd h hw

/-- **the depth budget always suffices**: the Go splitter is good for every divide factor -/
theorem splitterOk_go (df : Nat) (hdf : 2 ≤ df) (hM : df ≤ M) : SplitterOk goSplit df := by
  have hM0 : 0 < M := by simp [M]
  have w : Wide 0 (M - 1) df := ⟨Nat.zero_le _, by omega, hdf, by omega⟩
  refine ⟨goSplit_ok 0 (M - 1) df w, ?_⟩
  intro i hi'
  show NarrowBy goSplit df depthFuel (childRange 0 (M - 1) df i).1 (childRange 0 (M - 1) df i).2
  have hc := child_wf 0 (M - 1) df i w hi'
  have hcw := child_width 0 (M - 1) df i w hi'
  apply narrowBy_go df hdf hM 69 _ _ hc.2.1 (by omega)
  have hbig : M ≤ (df - 1) * (2 ^ 69 + 1) := by
    have h1 : M ≤ 2 ^ 69 + 1 := by decide
    have h2 : 2 ^ 69 + 1 ≤ (df - 1) * (2 ^ 69 + 1) := Nat.le_mul_of_pos_left _ (by omega)
    omega
  omega

end AnySync.Ldiff
