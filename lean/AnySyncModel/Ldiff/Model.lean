/-
Model of `app/ldiff` (diff.go, hashrange.go) — the range-hash index and the diff recursion,
with the five `fix:` repairs applied (nilhash, update, merge, bottomrange, width).

What is mirrored, function by function:

  Go                                   model
  ------------------------------------ ---------------------------------------------
  skiplist ordered by (xxhash(id),id)  `List Elem` kept sorted by `Elem.lt` (`slInsert`, `slRemove`)
  genTupleRanges                       `genTupleRanges` / `childRange` (uint64 arithmetic, explicit `% M`)
  getBottomRange (bucket clamp)        `bucketOf`
  canDivide (fix-width)                `canDivide` (= `Splitter.wide`): a narrower range is never divided
                                       both packaged as `goSplit : Splitter`; the tree functions take
                                       an arbitrary `Splitter` (theorems hold for every one with `SplitOk`)
  hashRange{elements,isDivided,hash}   `Tree.leaf cnt hash` / `Tree.div cnt hash kids`
  map[rangeTuple]*hashRange            the position in the tree (`findNode` descends from the top)
  makeRange / makeBottomRanges         `build` / `buildKids` (explicit depth budget)
  the top range (always divided)       `buildTop`, `topOp`
  addElement + recalculateHashes       `addEl`   (dirty marks = recomputation along the walked path)
  updateElement (fix-update)           `updEl`
  removeElement (fix-merge)            `rmEl`    (the upward merge loop = the Boolean `active` result)
  calcElementsHash / calcDividedHash   `elemsHash` / `kidsHash` over an abstract digest algebra
  diff.getRange (fix-nilhash)          `Index.getRange`
  compareResults / compareElements*    `compareResults` / `cmpEqual` / `cmpGreater`
  Diff / CompareDiff round loop        `rounds` (80 rounds; `none` = still running)

xxhash64 values are DATA supplied with every element (field `hash`); blake3 is an abstract
`DigAlg D` (`hE` over the serialised elements, `hN` over the concatenated child digests).
`Tree.stuck` marks the places where Go does not return (unbounded recursion, division by zero,
nil child). Core Lean only (this file is linked into `modeld`).
-/
namespace AnySync.Ldiff

/-- 2^64 -/
abbrev M : Nat := 18446744073709551616

structure Elem where
  id : Nat
  hash : Nat
  head : Nat
deriving DecidableEq, Repr

/-- `diff.Compare`: order by hash, then by id -/
def Elem.lt (a b : Elem) : Bool :=
  a.hash < b.hash || (a.hash == b.hash && a.id < b.id)

/-- `sl.Set` of an id that is not in the list -/
def slInsert (e : Elem) : List Elem → List Elem
  | [] => [e]
  | x :: xs => if e.lt x then e :: x :: xs else x :: slInsert e xs

/-- `sl.Remove` (keys compare equal iff the ids are equal) -/
def slRemove (id : Nat) (l : List Elem) : List Elem := l.filter (fun e => e.id != id)

def slHas (id : Nat) (l : List Elem) : Bool := l.any (fun e => e.id == id)

/-- `sl.Find(&element{hash: from})` followed by `Next()` while `hash <= to` (the list is sorted) -/
def slRange (l : List Elem) (lo hi : Nat) : List Elem :=
  l.filter (fun e => decide (lo ≤ e.hash) && decide (e.hash ≤ hi))

structure Params where
  df : Nat
  thr : Nat
deriving DecidableEq, Repr

/-- `newDiff` clamps the parameters -/
def Params.clamp (df thr : Nat) : Params := ⟨if df < 2 then 2 else df, if thr < 1 then 1 else thr⟩

/-! ### range arithmetic (uint64) -/

def align (lo hi df : Nat) : Nat := ((hi + M - lo) % M % df + 1) % df

def perRange (lo hi df : Nat) : Nat :=
  let p := (hi + M - lo) % M / df
  if align lo hi df = 0 then p + 1 else p

/-- the loop of `genTupleRanges`: `i` counts up to `df`, `j` is the running start -/
def genLoop (df per al : Nat) : (n : Nat) → (i : Nat) → (j : Nat) → List (Nat × Nat)
  | 0, _, _ => []
  | n + 1, i, j =>
    let per' := if i = df - 1 then per + al else per
    (j, (j + per' + M - 1) % M) :: genLoop df per al n (i + 1) ((j + per') % M)

def genTupleRanges (lo hi df : Nat) : List (Nat × Nat) :=
  genLoop df (perRange lo hi df) (align lo hi df) df 0 lo

/-- the `i`-th tuple of `genTupleRanges`, in closed form (equal to it by `genTupleRanges_eq`) -/
def childRange (lo hi df i : Nat) : Nat × Nat :=
  let per := perRange lo hi df
  let a := (lo + i * per) % M
  if i = df - 1 then (a, (a + per + align lo hi df + M - 1) % M) else (a, (a + per + M - 1) % M)

/-- `getBottomRange` with the clamp of fix-bottomrange. `none` = division by zero (Go panics). -/
def bucketOf (lo hi df h : Nat) : Option Nat :=
  let per := perRange lo hi df
  if per = 0 then none
  else
    let b := (h + M - lo) % M / per
    some (if b > df - 1 then df - 1 else b)

/-! ### digests -/

/-- blake3 as an abstract algebra: `hE` hashes the serialised `(id, head)` list of a range,
`hN` hashes the concatenation of the (non-nil) child digests. -/
structure DigAlg (D : Type) where
  hE : List (Nat × Nat) → D
  hN : List D → D

/-- `calcElementsHash`: nil for an empty range -/
def elemsHash {D} (A : DigAlg D) (els : List Elem) : Option D :=
  if els.isEmpty then none else some (A.hE (els.map fun e => (e.id, e.head)))

/-! ### the range tree -/

/-- how a range is divided: `child lo hi df i` is the `i`-th tuple of `genTupleRanges`,
`bucket lo hi df h` the index `getBottomRange` computes. The tree functions below are written
against this interface (the refinement theorems hold for every splitter satisfying `SplitOk`);
the Go arithmetic is the instance `goSplit`. -/
structure Splitter where
  child : (lo hi df i : Nat) → Nat × Nat
  bucket : (lo hi df h : Nat) → Option Nat
  /-- `canDivide` (fix-width): the range holds at least `df` hash values -/
  wide : (lo hi df : Nat) → Bool

/-- `canDivide(from, to, divideFactor)`: `to-from >= uint64(divideFactor)-1` -/
@[irreducible] def canDivide (lo hi df : Nat) : Bool := decide ((hi + M - lo) % M ≥ (df + M - 1) % M)

def goSplit : Splitter := ⟨childRange, bucketOf, canDivide⟩

inductive Tree (D : Type) where
  | leaf (cnt : Nat) (hash : Option D)
  | div (cnt : Nat) (hash : Option D) (kids : List (Tree D))
  /-- Go does not produce a result here: unbounded recursion (a range narrower than `df` over the
  threshold), division by zero, or a nil child -/
  | stuck

namespace Tree
def cnt {D} : Tree D → Nat
  | leaf c _ => c | div c _ _ => c | stuck => 0
def hash {D} : Tree D → Option D
  | leaf _ h => h | div _ h _ => h | stuck => none
end Tree

/-- `calcDividedHash`: the child digests in range order, nil ones contribute nothing -/
def kidsHash {D} (A : DigAlg D) (kids : List (Tree D)) : Option D :=
  some (A.hN (kids.filterMap Tree.hash))

/-- `h.ranges[tuple]` for the `i`-th child (a missing child is a nil pointer in Go) -/
def kid {D} (kids : List (Tree D)) (i : Nat) : Tree D := kids.getD i .stuck

/-- `makeRange`: an undivided range computed from the skip list -/
def mkLeaf {D} (A : DigAlg D) (sl : List Elem) (lo hi : Nat) : Tree D :=
  .leaf (slRange sl lo hi).length (elemsHash A (slRange sl lo hi))

/-- `makeRange` + the `elements > compareThreshold` branch of `makeBottomRanges`, for one range.
`fuel` is the depth budget; when it is exhausted a further division is `stuck`. -/
def build {D} (A : DigAlg D) (S : Splitter) (p : Params) (sl : List Elem) : (fuel : Nat) → (lo hi : Nat) → Tree D
  | 0, lo, hi =>
    if (slRange sl lo hi).length > p.thr ∧ S.wide lo hi p.df = true then .stuck else mkLeaf A sl lo hi
  | fuel + 1, lo, hi =>
    if (slRange sl lo hi).length > p.thr ∧ S.wide lo hi p.df = true then
      .div (slRange sl lo hi).length
        (kidsHash A ((List.range p.df).map fun i =>
          build A S p sl fuel (S.child lo hi p.df i).1 (S.child lo hi p.df i).2))
        ((List.range p.df).map fun i =>
          build A S p sl fuel (S.child lo hi p.df i).1 (S.child lo hi p.df i).2)
    else mkLeaf A sl lo hi

/-- depth budget: 64 levels suffice for df ≥ 2 when no narrow range is divided -/
abbrev depthFuel : Nat := 70

/-- the children of a range that has just been divided (`makeBottomRanges`) -/
def buildKids {D} (A : DigAlg D) (S : Splitter) (p : Params) (sl : List Elem) (fuel lo hi : Nat) : List (Tree D) :=
  (List.range p.df).map fun i => build A S p sl fuel (S.child lo hi p.df i).1 (S.child lo hi p.df i).2

/-- the top range is always divided (`newHashRanges`) -/
def buildTop {D} (A : DigAlg D) (S : Splitter) (p : Params) (sl : List Elem) : Tree D :=
  .div sl.length (kidsHash A (buildKids A S p sl depthFuel 0 (M - 1))) (buildKids A S p sl depthFuel 0 (M - 1))

/-- `addElement(h)` followed by `recalculateHashes`, after the skip list became `sl`, below the
top range. `fuel` is the remaining depth budget at this range (the one `build` has there). -/
def addEl {D} (A : DigAlg D) (S : Splitter) (p : Params) (sl : List Elem) (h : Nat) :
    (fuel : Nat) → Tree D → (lo hi : Nat) → Tree D
  | 0, t, lo, hi =>
    match t with
    | .leaf cnt _ => if cnt + 1 > p.thr ∧ S.wide lo hi p.df = true then .stuck else mkLeaf A sl lo hi
    | _ => .stuck
  | f + 1, t, lo, hi =>
    match t with
    | .leaf cnt _ =>
      if cnt + 1 > p.thr ∧ S.wide lo hi p.df = true then
        .div (cnt + 1) (kidsHash A (buildKids A S p sl f lo hi)) (buildKids A S p sl f lo hi)
      else mkLeaf A sl lo hi
    | .div cnt _ kids =>
      match S.bucket lo hi p.df h with
      | none => .stuck
      | some i =>
        .div (cnt + 1)
          (kidsHash A (kids.set i
            (addEl A S p sl h f (kid kids i) (S.child lo hi p.df i).1 (S.child lo hi p.df i).2)))
          (kids.set i
            (addEl A S p sl h f (kid kids i) (S.child lo hi p.df i).1 (S.child lo hi p.df i).2))
    | .stuck => .stuck

/-- `updateElement(h)` (fix-update) followed by `recalculateHashes`, below the top range -/
def updEl {D} (A : DigAlg D) (S : Splitter) (p : Params) (sl : List Elem) (h : Nat) :
    (fuel : Nat) → Tree D → (lo hi : Nat) → Tree D
  | 0, t, lo, hi =>
    match t with
    | .leaf _ _ => mkLeaf A sl lo hi
    | _ => .stuck
  | f + 1, t, lo, hi =>
    match t with
    | .leaf _ _ => mkLeaf A sl lo hi
    | .div cnt _ kids =>
      match S.bucket lo hi p.df h with
      | none => .stuck
      | some i =>
        .div cnt
          (kidsHash A (kids.set i
            (updEl A S p sl h f (kid kids i) (S.child lo hi p.df i).1 (S.child lo hi p.df i).2)))
          (kids.set i
            (updEl A S p sl h f (kid kids i) (S.child lo hi p.df i).1 (S.child lo hi p.df i).2))
    | .stuck => .stuck

/-- `removeElement(h)` (fix-merge) followed by `recalculateHashes`, below the top range. The
Boolean is the state of the upward merge loop: `true` while every range below was a leaf or has
been merged. -/
def rmEl {D} (A : DigAlg D) (S : Splitter) (p : Params) (sl : List Elem) (h : Nat) :
    (fuel : Nat) → Tree D → (lo hi : Nat) → Tree D × Bool
  | 0, t, lo, hi =>
    match t with
    | .leaf _ _ => (mkLeaf A sl lo hi, true)
    | _ => (.stuck, false)
  | f + 1, t, lo, hi =>
    match t with
    | .leaf _ _ => (mkLeaf A sl lo hi, true)
    | .div cnt _ kids =>
      match S.bucket lo hi p.df h with
      | none => (.stuck, false)
      | some i =>
        if (rmEl A S p sl h f (kid kids i) (S.child lo hi p.df i).1 (S.child lo hi p.df i).2).2
            && decide (cnt - 1 ≤ p.thr) then
          (mkLeaf A sl lo hi, true)
        else
          (.div (cnt - 1)
            (kidsHash A (kids.set i
              (rmEl A S p sl h f (kid kids i) (S.child lo hi p.df i).1 (S.child lo hi p.df i).2).1))
            (kids.set i
              (rmEl A S p sl h f (kid kids i) (S.child lo hi p.df i).1 (S.child lo hi p.df i).2).1),
           false)
    | .stuck => (.stuck, false)

/-- the walk through the top range, which is always divided and never merged: the count becomes
`dc cnt`, the child holding `h` is replaced by `f child`. -/
def topOp {D} (A : DigAlg D) (S : Splitter) (p : Params) (h : Nat) (dc : Nat → Nat)
    (f : Tree D → Nat → Nat → Tree D) : Tree D → Tree D
  | .div cnt _ kids =>
    match S.bucket 0 (M - 1) p.df h with
    | none => .stuck
    | some i =>
      .div (dc cnt)
        (kidsHash A (kids.set i
          (f (kid kids i) (S.child 0 (M - 1) p.df i).1 (S.child 0 (M - 1) p.df i).2)))
        (kids.set i
          (f (kid kids i) (S.child 0 (M - 1) p.df i).1 (S.child 0 (M - 1) p.df i).2))
  | _ => .stuck

/-! ### the index -/

structure Index (D : Type) where
  p : Params
  sl : List Elem
  top : Tree D

def Index.new {D} (A : DigAlg D) (S : Splitter) (df thr : Nat) : Index D :=
  ⟨Params.clamp df thr, [], buildTop A S (Params.clamp df thr) []⟩

/-- one element of `Set` -/
def Index.set1 {D} (A : DigAlg D) (S : Splitter) (ix : Index D) (e : Elem) : Index D :=
  if slHas e.id ix.sl then
    { ix with sl := slInsert e (slRemove e.id ix.sl),
              top := topOp A S ix.p e.hash id
                (updEl A S ix.p (slInsert e (slRemove e.id ix.sl)) e.hash depthFuel) ix.top }
  else
    { ix with sl := slInsert e (slRemove e.id ix.sl),
              top := topOp A S ix.p e.hash (· + 1)
                (addEl A S ix.p (slInsert e (slRemove e.id ix.sl)) e.hash depthFuel) ix.top }

/-- `Set(elements...)` -/
def Index.set {D} (A : DigAlg D) (S : Splitter) (ix : Index D) (es : List Elem) : Index D :=
  es.foldl (Index.set1 A S) ix

/-- `RemoveId`; `none` = `ErrElementNotFound` (index unchanged) -/
def Index.remove {D} (A : DigAlg D) (S : Splitter) (ix : Index D) (id hash : Nat) : Option (Index D) :=
  if slHas id ix.sl then
    some { ix with sl := slRemove id ix.sl,
                   top := topOp A S ix.p hash (· - 1)
                     (fun t lo hi => (rmEl A S ix.p (slRemove id ix.sl) hash depthFuel t lo hi).1) ix.top }
  else none

def Index.hash {D} (ix : Index D) : Option D := ix.top.hash

/-- `h.ranges[rangeTuple{from,to}]`: the node with exactly this range, found by descending from
`(lo,hi)`. Returns its `(elements, hash)`. -/
def findNode {D} (S : Splitter) (df : Nat) (qlo qhi : Nat) :
    (fuel : Nat) → Tree D → (lo hi : Nat) → Option (Nat × Option D)
  | 0, t, lo, hi =>
    if lo = qlo ∧ hi = qhi then
      match t with
      | .leaf c h => some (c, h)
      | .div c h _ => some (c, h)
      | .stuck => none
    else none
  | f + 1, t, lo, hi =>
    match t with
    | .leaf c h => if lo = qlo ∧ hi = qhi then some (c, h) else none
    | .div c h kids =>
      if lo = qlo ∧ hi = qhi then some (c, h)
      else if lo ≤ qlo ∧ qhi ≤ hi ∧ qlo ≤ qhi then
        match S.bucket lo hi df qlo with
        | none => none
        | some i => findNode S df qlo qhi f (kid kids i) (S.child lo hi df i).1 (S.child lo hi df i).2
      else none
    | .stuck => none

structure RangeRes (D : Type) where
  hash : Option D
  elems : List (Nat × Nat)
  count : Nat

def pairs (l : List Elem) : List (Nat × Nat) := l.map fun e => (e.id, e.head)

/-- `diff.getRange` with fix-nilhash -/
def Index.getRange {D} (A : DigAlg D) (S : Splitter) (ix : Index D) (lo hi : Nat) (wantEls : Bool) : RangeRes D :=
  let els := slRange ix.sl lo hi
  match findNode S ix.p.df lo hi (depthFuel + 1) ix.top 0 (M - 1) with
  | some (c, h) => if wantEls then ⟨h, pairs els, els.length⟩ else ⟨h, [], c⟩
  | none => ⟨elemsHash A els, pairs els, els.length⟩

/-- the head-sync / key-value wire adapters: `uint32(Count)` and back -/
def RangeRes.wire {D} (r : RangeRes D) : RangeRes D := { r with count := r.count % 4294967296 }

/-! ### the diff -/

structure Range where
  lo : Nat
  hi : Nat
  els : Bool
deriving DecidableEq, Repr

structure DCtx where
  newIds : List Nat := []
  changed : List Nat := []
  theirChanged : List Nat := []
  removed : List Nat := []
  prepare : List Range := []
deriving DecidableEq, Repr

def lookupHead (l : List (Nat × Nat)) (id : Nat) : Option Nat := (l.find? fun e => e.1 == id).map (·.2)

/-- first loop of `compareElementsEqual` (over `my`) -/
def stepMyEqual (other : List (Nat × Nat)) (c : DCtx) (e : Nat × Nat) : DCtx :=
  match lookupHead other e.1 with
  | none => { c with removed := c.removed ++ [e.1] }
  | some h => if h = e.2 then c else { c with changed := c.changed ++ [e.1] }

/-- second loop of both variants (over `other`) -/
def stepOtherNew (my : List (Nat × Nat)) (c : DCtx) (e : Nat × Nat) : DCtx :=
  match lookupHead my e.1 with
  | none => { c with newIds := c.newIds ++ [e.1] }
  | some _ => c

/-- first loop of `compareElementsGreater` (heads compared as strings; the harness interns them
order-preserving) -/
def stepMyGreater (other : List (Nat × Nat)) (c : DCtx) (e : Nat × Nat) : DCtx :=
  match lookupHead other e.1 with
  | none => { c with removed := c.removed ++ [e.1] }
  | some h =>
    if h = e.2 then c
    else if h > e.2 then { c with theirChanged := c.theirChanged ++ [e.1] }
    else { c with changed := c.changed ++ [e.1] }

/-- `compareElementsEqual` -/
def cmpEqual (c : DCtx) (my other : List (Nat × Nat)) : DCtx :=
  other.foldl (stepOtherNew my) (my.foldl (stepMyEqual other) c)

/-- `compareElementsGreater` -/
def cmpGreater (c : DCtx) (my other : List (Nat × Nat)) : DCtx :=
  other.foldl (stepOtherNew my) (my.foldl (stepMyGreater other) c)

def cmpEls (greater : Bool) : DCtx → List (Nat × Nat) → List (Nat × Nat) → DCtx :=
  if greater then cmpGreater else cmpEqual

/-- `compareResults` -/
def compareResults {D} [DecidableEq D] (A : DigAlg D) (S : Splitter) (greater : Bool) (my : Index D) (c : DCtx)
    (r : Range) (myRes otherRes : RangeRes D) : DCtx :=
  if myRes.hash = otherRes.hash then c
  else if otherRes.elems.length = otherRes.count then
    if myRes.elems.length = myRes.count then cmpEls greater c myRes.elems otherRes.elems
    else cmpEls greater c (my.getRange A S r.lo r.hi true).elems otherRes.elems
  else if (otherRes.count ≤ my.p.thr ∧ otherRes.elems.length = 0) ∨ myRes.elems.length = myRes.count
      ∨ S.wide r.lo r.hi my.p.df = false then
    { c with prepare := c.prepare ++ [{ r with els := true }] }
  else
    { c with prepare := c.prepare ++ (genTupleRanges r.lo r.hi my.p.df).map fun t => ⟨t.1, t.2, false⟩ }

/-- the remote side as seen by the diff: in process, or through the wire adapters -/
def answer {D} (A : DigAlg D) (S : Splitter) (wire : Bool) (ix : Index D) (r : Range) : RangeRes D :=
  let a := ix.getRange A S r.lo r.hi r.els
  if wire then a.wire else a

/-- one round: every range of `toSend` -/
def round {D} [DecidableEq D] (A : DigAlg D) (S : Splitter) (greater wire : Bool) (my other : Index D) (c : DCtx)
    (toSend : List Range) : DCtx :=
  toSend.foldl (fun c r =>
    compareResults A S greater my c r (my.getRange A S r.lo r.hi r.els) (answer A S wire other r)) c

/-- `Diff` / `CompareDiff`: rounds until nothing is left to send. `none` = the fuel ran out
(the Go loop would still be running). -/
def rounds {D} [DecidableEq D] (A : DigAlg D) (S : Splitter) (greater wire : Bool) (my other : Index D) :
    (fuel : Nat) → DCtx → List Range → Option DCtx
  | _, c, [] => some c
  | 0, _, _ :: _ => none
  | fuel + 1, c, r :: rs =>
    let c' := round A S greater wire my other { c with prepare := [] } (r :: rs)
    rounds A S greater wire my other fuel c' c'.prepare

def diff {D} [DecidableEq D] (A : DigAlg D) (S : Splitter) (greater wire : Bool) (my other : Index D) : Option DCtx :=
  rounds A S greater wire my other 80 {} [⟨0, M - 1, false⟩]

end AnySync.Ldiff
