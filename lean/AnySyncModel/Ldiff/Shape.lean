import AnySyncModel.Ldiff.Arith
import AnySyncModel.Generated.LdiffShape
/-!
Ties the hand-written range arithmetic of the model (`align`, `perRange`, `genLoop`, `childRange`,
`bucketOf`) to the expressions regenerated from `app/ldiff/hashrange.go` on every run
(`Generated/LdiffShape.lean`, uint64 operations rendered with explicit `% M`).
-/
namespace AnySync.Ldiff
open AnySync.Generated

theorem M_pos : 0 < M := by simp [M]

theorem add_mod_M (a b : Nat) : (a % M + b % M) % M = (a + b) % M := (Nat.add_mod a b M).symm

/-- `align` and `perRange` of the model are the generated expressions (both functions) -/
theorem shape_align (lo hi df : Nat) (hdf0 : 0 < df) (hdf : df < M) :
    LdiffShape.align lo hi df = align lo hi df ∧ LdiffShape.gbAlign lo hi df = align lo hi df := by
  have h : ((hi + M - lo) % M % df + 1) % M = (hi + M - lo) % M % df + 1 := by
    apply mod_small
    have := Nat.mod_lt ((hi + M - lo) % M) hdf0
    omega
  constructor
  · show ((hi + M - lo) % M % df + 1) % M % df = _
    rw [h]; rfl
  · show ((hi + M - lo) % M % df + 1) % M % df = _
    rw [h]; rfl

theorem shape_perRange (lo hi df : Nat) :
    perRange lo hi df =
      (if align lo hi df = 0 then LdiffShape.perRange0 lo hi df + 1 else LdiffShape.perRange0 lo hi df) ∧
    LdiffShape.gbPerRange0 lo hi df = LdiffShape.perRange0 lo hi df := ⟨rfl, rfl⟩

/-- one iteration of the loop of `genTupleRanges`: the appended tuple and the next start -/
theorem shape_loop (j per al : Nat) :
    LdiffShape.tupleTo j per = (j + per + M - 1) % M ∧
    LdiffShape.tupleTo j (LdiffShape.lastAdds per al) = (j + (per + al) + M - 1) % M ∧
    LdiffShape.nextJ j per = (j + per) % M := by
  refine ⟨?_, ?_, rfl⟩
  · show ((j + per) % M + M - 1) % M = _
    simp only [M]; omega
  · show ((j + (per + al) % M) % M + M - 1) % M = _
    simp only [M]; omega

/-- `getBottomRange`: the bucket before the clamp -/
theorem shape_bucket (lo hi df h : Nat) :
    bucketOf lo hi df h =
      if perRange lo hi df = 0 then none
      else some (if LdiffShape.gbBucket lo h (perRange lo hi df) > df - 1 then df - 1
                 else LdiffShape.gbBucket lo h (perRange lo hi df)) := rfl

/-- `getBottomRange`: the tuple it looks up for bucket `b` IS the `b`-th tuple of `genTupleRanges` -/
theorem shape_tuple (lo hi df b : Nat) (w : Wide lo hi df) (hdf : df < M) (hb : b < df) :
    LdiffShape.gbFrom lo b (perRange lo hi df) = (childRange lo hi df b).1 ∧
    (if b = df - 1 then LdiffShape.gbLastTo (LdiffShape.gbTo lo b (perRange lo hi df)) (align lo hi df)
     else LdiffShape.gbTo lo b (perRange lo hi df)) = (childRange lo hi df b).2 := by
  obtain ⟨hP, hal, hsum⟩ := split_facts lo hi df w
  have h1 := w.le
  have h2 := w.lt
  have hd2 := w.df2
  have hM := M_pos
  have e1 : df * perRange lo hi df = (df - 1) * perRange lo hi df + perRange lo hi df := by
    have := succ_mul' (df - 1) (perRange lo hi df)
    rw [Nat.sub_add_cancel (by omega)] at this
    exact this
  have e2 : b * perRange lo hi df ≤ (df - 1) * perRange lo hi df :=
    Nat.mul_le_mul_right _ (by omega)
  have e3 := succ_mul' b (perRange lo hi df)
  rw [child_closed lo hi df b w hb]
  have hto : LdiffShape.gbTo lo b (perRange lo hi df)
      = lo + b * perRange lo hi df + perRange lo hi df - 1 := by
    show ((lo + M - 1) % M + ((b + 1) % M * perRange lo hi df) % M) % M = _
    rw [mod_small (b + 1) (by omega), add_mod_M]
    have : lo + M - 1 + (b + 1) * perRange lo hi df
        = (lo + (b + 1) * perRange lo hi df) + M - 1 := by omega
    rw [this, end_mod _ (by omega) (by omega)]
    omega
  constructor
  · show (lo + (b * perRange lo hi df) % M) % M = _
    rw [mod_small (b * perRange lo hi df) (by omega), mod_small _ (by omega)]
  · by_cases hlast : b = df - 1
    · simp only [hlast, if_true]
      rw [← hlast, hto]
      show (lo + b * perRange lo hi df + perRange lo hi df - 1 + align lo hi df) % M = hi
      rw [hlast] at e2 e3 ⊢
      rw [mod_small _ (by omega)]
      omega
    · simp only [hlast, if_false]
      exact hto

/-- `canDivide` (fix-width) of the model is the generated comparison -/
theorem shape_canDivide (lo hi df : Nat) :
    canDivide lo hi df = decide (LdiffShape.canDivideL lo hi ≥ LdiffShape.canDivideR df) := by
  unfold canDivide; rfl

/-- **shape obligation**: the extractor recognised every statement (`diff.getRange` has exactly the
branches of `Index.getRange`: a node answers hash+count and lists its elements iff requested, no
node answers elements + their hash — no size- or limit-dependent branch; the three guards
`… && canDivide(…)` / `|| !canDivide(…)` of fix-width), and the generated arithmetic is the model's
arithmetic. -/
theorem ldiffShape_ok : LdiffShape.shapeOk = true ∧ LdiffShape.getRangeShapeOk = true ∧
    (∀ lo hi df, 0 < df → df < M → LdiffShape.align lo hi df = align lo hi df ∧
      LdiffShape.gbAlign lo hi df = align lo hi df) ∧
    (∀ lo hi df, perRange lo hi df =
      (if align lo hi df = 0 then LdiffShape.perRange0 lo hi df + 1 else LdiffShape.perRange0 lo hi df) ∧
      LdiffShape.gbPerRange0 lo hi df = LdiffShape.perRange0 lo hi df) ∧
    (∀ j per al, LdiffShape.tupleTo j per = (j + per + M - 1) % M ∧
      LdiffShape.tupleTo j (LdiffShape.lastAdds per al) = (j + (per + al) + M - 1) % M ∧
      LdiffShape.nextJ j per = (j + per) % M) ∧
    (∀ lo hi df b, Wide lo hi df → df < M → b < df →
      LdiffShape.gbFrom lo b (perRange lo hi df) = (childRange lo hi df b).1 ∧
      (if b = df - 1 then LdiffShape.gbLastTo (LdiffShape.gbTo lo b (perRange lo hi df)) (align lo hi df)
       else LdiffShape.gbTo lo b (perRange lo hi df)) = (childRange lo hi df b).2) ∧
    (∀ lo hi df, canDivide lo hi df = decide (LdiffShape.canDivideL lo hi ≥ LdiffShape.canDivideR df)) :=
  ⟨by decide, by decide, shape_align, shape_perRange, shape_loop, shape_tuple, shape_canDivide⟩

end AnySync.Ldiff
