import AnySyncModel.Ldiff.Spec
/-! Helper lemmas for C07 / C08 (core Lean only). -/
namespace AnySync.Ldiff

/-! ### the skip list -/

def inR (lo hi : Nat) (e : Elem) : Bool := decide (lo ≤ e.hash) && decide (e.hash ≤ hi)

theorem slRange_eq (sl : List Elem) (lo hi : Nat) : slRange sl lo hi = sl.filter (inR lo hi) := rfl

theorem inR_true {lo hi : Nat} {e : Elem} : inR lo hi e = true ↔ (lo ≤ e.hash ∧ e.hash ≤ hi) := by
  simp [inR]

theorem slRange_insert_out (e : Elem) (sl : List Elem) (lo hi : Nat)
    (h : ¬ (lo ≤ e.hash ∧ e.hash ≤ hi)) : slRange (slInsert e sl) lo hi = slRange sl lo hi := by
  have hf : inR lo hi e = false := by
    cases hh : inR lo hi e
    · rfl
    · exact absurd (inR_true.mp hh) h
  simp only [slRange_eq]
  induction sl with
  | nil => simp [slInsert, List.filter_cons, hf]
  | cons x xs ih =>
    unfold slInsert
    split
    · simp [List.filter_cons, hf]
    · simp only [List.filter_cons, ih]

theorem slRange_insert_len (e : Elem) (sl : List Elem) (lo hi : Nat)
    (h : lo ≤ e.hash ∧ e.hash ≤ hi) :
    (slRange (slInsert e sl) lo hi).length = (slRange sl lo hi).length + 1 := by
  have ht : inR lo hi e = true := inR_true.mpr h
  simp only [slRange_eq]
  induction sl with
  | nil => simp [slInsert, List.filter_cons, ht]
  | cons x xs ih =>
    unfold slInsert
    split
    · simp [List.filter_cons, ht]
    · simp only [List.filter_cons]
      split <;> simp [ih]

/-! ### well-split ranges and the width hypothesis -/

/-- what the division of `[lo,hi]` into `df` parts must satisfy: the parts lie inside the range,
and `bucket` returns the one part that contains the hash. Proved for the Go arithmetic and every
range that is not narrower than `df` in `Ldiff/Arith.lean` (`goSplit_ok`). -/
structure SplitOk (S : Splitter) (df lo hi : Nat) : Prop where
  sub : ∀ i, i < df → lo ≤ (S.child lo hi df i).1 ∧ (S.child lo hi df i).2 ≤ hi
  bucket : ∀ h, lo ≤ h → h ≤ hi → ∃ i, S.bucket lo hi df h = some i ∧ i < df ∧
      ((S.child lo hi df i).1 ≤ h ∧ h ≤ (S.child lo hi df i).2) ∧
      ∀ j, j < df → j ≠ i → ¬ ((S.child lo hi df j).1 ≤ h ∧ h ≤ (S.child lo hi df j).2)
  /-- the parts are non-empty -/
  ne : ∀ i, i < df → (S.child lo hi df i).1 ≤ (S.child lo hi df i).2
  /-- the ranges the diff subdivides into (`genTupleRanges`) are these parts -/
  gen : genTupleRanges lo hi df = (List.range df).map (S.child lo hi df)

/-- the division condition of `addElement` / `makeBottomRanges` with fix-width: more than `thr`
elements AND at least `df` hash values -/
abbrev Div (S : Splitter) (p : Params) (sl : List Elem) (lo hi : Nat) : Prop :=
  (slRange sl lo hi).length > p.thr ∧ S.wide lo hi p.df = true

/-- every range that is divided splits properly, and the depth budget is not exhausted. Since
fix-width this holds for ALL contents as soon as the splitter is good (`widthOk_of_narrowBy`):
only ranges with at least `df` values are divided. -/
def WidthOk (S : Splitter) (p : Params) (sl : List Elem) : Nat → Nat → Nat → Prop
  | 0, lo, hi => ¬ Div S p sl lo hi
  | f + 1, lo, hi => ¬ Div S p sl lo hi ∨
      (SplitOk S p.df lo hi ∧
        ∀ i, i < p.df → WidthOk S p sl f (S.child lo hi p.df i).1 (S.child lo hi p.df i).2)

/-- `sl'` differs from `sl` only at hash `x` -/
def OnlyAt (x : Nat) (sl sl' : List Elem) : Prop :=
  ∀ a b, ¬ (a ≤ x ∧ x ≤ b) → slRange sl' a b = slRange sl a b

/-- the width hypothesis is inherited by smaller contents -/
theorem widthOk_mono (S : Splitter) (p : Params) (sl sl' : List Elem)
    (hle : ∀ a b, (slRange sl' a b).length ≤ (slRange sl a b).length) :
    ∀ fuel lo hi, WidthOk S p sl fuel lo hi → WidthOk S p sl' fuel lo hi := by
  intro fuel
  induction fuel with
  | zero =>
    intro lo hi hw
    simp only [WidthOk] at hw ⊢
    intro h; have := hle lo hi; exact hw ⟨by omega, h.2⟩
  | succ f ih =>
    intro lo hi hw
    simp only [WidthOk] at hw ⊢
    rcases hw with hw | hw
    · left; intro h; have := hle lo hi; exact hw ⟨by omega, h.2⟩
    · right; exact ⟨hw.1, fun i hi' => ih _ _ (hw.2 i hi')⟩

/-! ### unfolding lemmas, stated once (all by `rfl`) -/
section eqs
variable {D : Type} (A : DigAlg D) (S : Splitter) (p : Params) (sl : List Elem)

theorem build_zero (lo hi : Nat) :
    build A S p sl 0 lo hi =
      if (slRange sl lo hi).length > p.thr ∧ S.wide lo hi p.df = true then .stuck else mkLeaf A sl lo hi := rfl

theorem build_succ (f lo hi : Nat) :
    build A S p sl (f + 1) lo hi =
      if (slRange sl lo hi).length > p.thr ∧ S.wide lo hi p.df = true then
        .div (slRange sl lo hi).length (kidsHash A (buildKids A S p sl f lo hi)) (buildKids A S p sl f lo hi)
      else mkLeaf A sl lo hi := rfl

theorem addEl_zero_leaf (h c lo hi : Nat) (d : Option D) :
    addEl A S p sl h 0 (.leaf c d) lo hi =
      if c + 1 > p.thr ∧ S.wide lo hi p.df = true then .stuck else mkLeaf A sl lo hi := rfl

theorem addEl_succ_leaf (h f c lo hi : Nat) (d : Option D) :
    addEl A S p sl h (f + 1) (.leaf c d) lo hi =
      if c + 1 > p.thr ∧ S.wide lo hi p.df = true then
        .div (c + 1) (kidsHash A (buildKids A S p sl f lo hi)) (buildKids A S p sl f lo hi)
      else mkLeaf A sl lo hi := rfl

theorem addEl_succ_div (h f c lo hi : Nat) (d : Option D) (kids : List (Tree D)) :
    addEl A S p sl h (f + 1) (.div c d kids) lo hi =
      match S.bucket lo hi p.df h with
      | none => .stuck
      | some i =>
        .div (c + 1)
          (kidsHash A (kids.set i
            (addEl A S p sl h f (kid kids i) (S.child lo hi p.df i).1 (S.child lo hi p.df i).2)))
          (kids.set i
            (addEl A S p sl h f (kid kids i) (S.child lo hi p.df i).1 (S.child lo hi p.df i).2)) := rfl

theorem updEl_zero_leaf (h c lo hi : Nat) (d : Option D) :
    updEl A S p sl h 0 (.leaf c d) lo hi = mkLeaf A sl lo hi := rfl

theorem updEl_succ_leaf (h f c lo hi : Nat) (d : Option D) :
    updEl A S p sl h (f + 1) (.leaf c d) lo hi = mkLeaf A sl lo hi := rfl

theorem updEl_succ_div (h f c lo hi : Nat) (d : Option D) (kids : List (Tree D)) :
    updEl A S p sl h (f + 1) (.div c d kids) lo hi =
      match S.bucket lo hi p.df h with
      | none => .stuck
      | some i =>
        .div c
          (kidsHash A (kids.set i
            (updEl A S p sl h f (kid kids i) (S.child lo hi p.df i).1 (S.child lo hi p.df i).2)))
          (kids.set i
            (updEl A S p sl h f (kid kids i) (S.child lo hi p.df i).1 (S.child lo hi p.df i).2)) := rfl

theorem rmEl_zero_leaf (h c lo hi : Nat) (d : Option D) :
    rmEl A S p sl h 0 (.leaf c d) lo hi = (mkLeaf A sl lo hi, true) := rfl

theorem rmEl_succ_leaf (h f c lo hi : Nat) (d : Option D) :
    rmEl A S p sl h (f + 1) (.leaf c d) lo hi = (mkLeaf A sl lo hi, true) := rfl

theorem rmEl_succ_div (h f c lo hi : Nat) (d : Option D) (kids : List (Tree D)) :
    rmEl A S p sl h (f + 1) (.div c d kids) lo hi =
      match S.bucket lo hi p.df h with
      | none => (.stuck, false)
      | some i =>
        if (rmEl A S p sl h f (kid kids i) (S.child lo hi p.df i).1 (S.child lo hi p.df i).2).2
            && decide (c - 1 ≤ p.thr) then
          (mkLeaf A sl lo hi, true)
        else
          (.div (c - 1)
            (kidsHash A (kids.set i
              (rmEl A S p sl h f (kid kids i) (S.child lo hi p.df i).1 (S.child lo hi p.df i).2).1))
            (kids.set i
              (rmEl A S p sl h f (kid kids i) (S.child lo hi p.df i).1 (S.child lo hi p.df i).2).1),
           false) := rfl

theorem topOp_div (h : Nat) (dc : Nat → Nat) (f : Tree D → Nat → Nat → Tree D) (c : Nat)
    (d : Option D) (kids : List (Tree D)) :
    topOp A S p h dc f (.div c d kids) =
      match S.bucket 0 (M - 1) p.df h with
      | none => .stuck
      | some i =>
        .div (dc c)
          (kidsHash A (kids.set i
            (f (kid kids i) (S.child 0 (M - 1) p.df i).1 (S.child 0 (M - 1) p.df i).2)))
          (kids.set i
            (f (kid kids i) (S.child 0 (M - 1) p.df i).1 (S.child 0 (M - 1) p.df i).2)) := rfl

theorem kid_buildKids (f lo hi i : Nat) (hi' : i < p.df) :
    kid (buildKids A S p sl f lo hi) i
      = build A S p sl f (S.child lo hi p.df i).1 (S.child lo hi p.df i).2 := by
  unfold kid buildKids
  rw [List.getD_eq_getElem?_getD, List.getElem?_map, List.getElem?_range hi']
  rfl

end eqs

/-! ### locality: a range that does not contain the changed hash keeps its subtree -/

theorem build_out {D} (A : DigAlg D) (S : Splitter) (p : Params) (sl sl' : List Elem) (x : Nat)
    (hout : OnlyAt x sl sl') :
    ∀ fuel lo hi, ¬ (lo ≤ x ∧ x ≤ hi) → WidthOk S p sl' fuel lo hi →
      build A S p sl' fuel lo hi = build A S p sl fuel lo hi := by
  intro fuel
  induction fuel with
  | zero =>
    intro lo hi hx _
    rw [build_zero, build_zero, hout lo hi hx]
    unfold mkLeaf
    rw [hout lo hi hx]
  | succ f ih =>
    intro lo hi hx hw
    rw [build_succ, build_succ, hout lo hi hx]
    unfold mkLeaf
    rw [hout lo hi hx]
    by_cases hc : (slRange sl lo hi).length > p.thr ∧ S.wide lo hi p.df = true
    · have hw' : SplitOk S p.df lo hi ∧ ∀ i, i < p.df →
          WidthOk S p sl' f (S.child lo hi p.df i).1 (S.child lo hi p.df i).2 := by
        rcases hw with hw | hw
        · simp only [Div] at hw; rw [hout lo hi hx] at hw; exact absurd hc hw
        · exact hw
      have hl : buildKids A S p sl' f lo hi = buildKids A S p sl f lo hi := by
        unfold buildKids
        apply List.map_congr_left
        intro i hi'
        have hi2 : i < p.df := by simpa using hi'
        have hs := hw'.1.sub i hi2
        apply ih _ _ _ (hw'.2 i hi2)
        intro hh; apply hx; omega
      rw [hl]
    · rw [if_neg hc, if_neg hc]

/-- replacing child `i` of the old children by the new subtree gives exactly the new children -/
theorem set_buildKids {D} (A : DigAlg D) (S : Splitter) (p : Params) (sl sl' : List Elem) (x : Nat)
    (hout : OnlyAt x sl sl') (f lo hi i : Nat)
    (hw : ∀ j, j < p.df → WidthOk S p sl' f (S.child lo hi p.df j).1 (S.child lo hi p.df j).2)
    (hothers : ∀ j, j < p.df → j ≠ i →
      ¬ ((S.child lo hi p.df j).1 ≤ x ∧ x ≤ (S.child lo hi p.df j).2)) :
    (buildKids A S p sl f lo hi).set i (build A S p sl' f (S.child lo hi p.df i).1 (S.child lo hi p.df i).2)
      = buildKids A S p sl' f lo hi := by
  apply List.ext_getElem?
  intro j
  unfold buildKids
  rw [List.getElem?_set]
  by_cases hj : j < p.df
  · by_cases hji : i = j
    · subst hji
      simp [hj]
    · simp only [hji, if_false, List.getElem?_map, List.getElem?_range hj, Option.map_some]
      congr 1
      exact (build_out A S p sl sl' x hout f _ _ (hothers j hj (fun h => hji h.symm)) (hw j hj)).symm
  · have hn : (List.range p.df)[j]? = none := List.getElem?_eq_none (by simp; omega)
    by_cases hji : i = j
    · subst hji; simp [hj]
    · simp [hji, hn]

/-! ### the three refinement steps below the top range -/

theorem addEl_build {D} (A : DigAlg D) (S : Splitter) (p : Params) (sl sl' : List Elem) (x : Nat)
    (hout : OnlyAt x sl sl')
    (hlen : ∀ a b, a ≤ x → x ≤ b → (slRange sl' a b).length = (slRange sl a b).length + 1) :
    ∀ fuel lo hi, lo ≤ x → x ≤ hi → WidthOk S p sl' fuel lo hi →
      addEl A S p sl' x fuel (build A S p sl fuel lo hi) lo hi = build A S p sl' fuel lo hi := by
  intro fuel
  induction fuel with
  | zero =>
    intro lo hi h1 h2 hw
    have hl := hlen lo hi h1 h2
    simp only [WidthOk, Div] at hw
    have hc : ¬ ((slRange sl lo hi).length > p.thr ∧ S.wide lo hi p.df = true) :=
      fun h => hw ⟨by omega, h.2⟩
    have h3 : ¬ ((slRange sl lo hi).length + 1 > p.thr ∧ S.wide lo hi p.df = true) :=
      fun h => hw ⟨by omega, h.2⟩
    rw [build_zero, build_zero, if_neg hc, if_neg hw]
    unfold mkLeaf
    rw [addEl_zero_leaf, if_neg h3]
    rfl
  | succ f ih =>
    intro lo hi h1 h2 hw
    have hl := hlen lo hi h1 h2
    rw [build_succ, build_succ]
    by_cases hc : (slRange sl lo hi).length > p.thr ∧ S.wide lo hi p.df = true
    · have hc' : (slRange sl' lo hi).length > p.thr ∧ S.wide lo hi p.df = true := ⟨by omega, hc.2⟩
      have hw' : SplitOk S p.df lo hi ∧ ∀ i, i < p.df →
          WidthOk S p sl' f (S.child lo hi p.df i).1 (S.child lo hi p.df i).2 := by
        rcases hw with hw | hw
        · exact absurd hc' hw
        · exact hw
      obtain ⟨i, hb, hi', hin, hothers⟩ := hw'.1.bucket x h1 h2
      rw [if_pos hc, if_pos hc', addEl_succ_div, hb]
      simp only []
      rw [kid_buildKids A S p sl f lo hi i hi', ih _ _ hin.1 hin.2 (hw'.2 i hi'),
        set_buildKids A S p sl sl' x hout f lo hi i hw'.2 hothers, hl]
    · rw [if_neg hc]
      by_cases hc' : (slRange sl' lo hi).length > p.thr ∧ S.wide lo hi p.df = true
      · have h3 : (slRange sl lo hi).length + 1 > p.thr ∧ S.wide lo hi p.df = true := ⟨by omega, hc'.2⟩
        rw [if_pos hc']
        unfold mkLeaf
        rw [addEl_succ_leaf, if_pos h3, hl]
      · have h3 : ¬ ((slRange sl lo hi).length + 1 > p.thr ∧ S.wide lo hi p.df = true) :=
          fun h => hc' ⟨by omega, h.2⟩
        rw [if_neg hc']
        unfold mkLeaf
        rw [addEl_succ_leaf, if_neg h3]
        rfl

theorem updEl_build {D} (A : DigAlg D) (S : Splitter) (p : Params) (sl sl' : List Elem) (x : Nat)
    (hout : OnlyAt x sl sl')
    (hlen : ∀ a b, (slRange sl' a b).length = (slRange sl a b).length) :
    ∀ fuel lo hi, lo ≤ x → x ≤ hi → WidthOk S p sl' fuel lo hi →
      updEl A S p sl' x fuel (build A S p sl fuel lo hi) lo hi = build A S p sl' fuel lo hi := by
  intro fuel
  induction fuel with
  | zero =>
    intro lo hi h1 h2 hw
    have hl := hlen lo hi
    simp only [WidthOk, Div] at hw
    have hc : ¬ ((slRange sl lo hi).length > p.thr ∧ S.wide lo hi p.df = true) :=
      fun h => hw ⟨by omega, h.2⟩
    rw [build_zero, build_zero, if_neg hc, if_neg hw]
    unfold mkLeaf
    rw [updEl_zero_leaf]
    rfl
  | succ f ih =>
    intro lo hi h1 h2 hw
    have hl := hlen lo hi
    rw [build_succ, build_succ]
    by_cases hc : (slRange sl lo hi).length > p.thr ∧ S.wide lo hi p.df = true
    · have hc' : (slRange sl' lo hi).length > p.thr ∧ S.wide lo hi p.df = true := ⟨by omega, hc.2⟩
      have hw' : SplitOk S p.df lo hi ∧ ∀ i, i < p.df →
          WidthOk S p sl' f (S.child lo hi p.df i).1 (S.child lo hi p.df i).2 := by
        rcases hw with hw | hw
        · exact absurd hc' hw
        · exact hw
      obtain ⟨i, hb, hi', hin, hothers⟩ := hw'.1.bucket x h1 h2
      rw [if_pos hc, if_pos hc', updEl_succ_div, hb]
      simp only []
      rw [kid_buildKids A S p sl f lo hi i hi', ih _ _ hin.1 hin.2 (hw'.2 i hi'),
        set_buildKids A S p sl sl' x hout f lo hi i hw'.2 hothers, hl]
    · have hc' : ¬ ((slRange sl' lo hi).length > p.thr ∧ S.wide lo hi p.df = true) :=
        fun h => hc ⟨by omega, h.2⟩
      rw [if_neg hc, if_neg hc']
      unfold mkLeaf
      rw [updEl_succ_leaf]
      rfl

/-- a sub-range holds at most as many elements as a range containing it -/
theorem slRange_len_mono (sl : List Elem) (a b lo hi : Nat) (h1 : lo ≤ a) (h2 : b ≤ hi) :
    (slRange sl a b).length ≤ (slRange sl lo hi).length := by
  simp only [slRange_eq]
  induction sl with
  | nil => simp
  | cons e es ih =>
    simp only [List.filter_cons]
    by_cases hin : inR a b e = true
    · have : inR lo hi e = true := by
        have := inR_true.mp hin
        exact inR_true.mpr ⟨by omega, by omega⟩
      simp [hin, this, ih]
    · have hf : inR a b e = false := by
        cases h : inR a b e
        · rfl
        · exact absurd h hin
      rw [hf]
      simp only [Bool.false_eq_true, if_false]
      split
      · simp only [List.length_cons]; omega
      · exact ih

/-- removal: the result is the canonical subtree of the new contents, and the merge loop is still
active exactly when that subtree is an undivided range. `WidthOk` is needed for the OLD contents. -/
theorem rmEl_build {D} (A : DigAlg D) (S : Splitter) (p : Params) (sl sl' : List Elem) (x : Nat)
    (hout : OnlyAt x sl sl')
    (hlen : ∀ a b, a ≤ x → x ≤ b → (slRange sl' a b).length + 1 = (slRange sl a b).length)
    (hle : ∀ a b, (slRange sl' a b).length ≤ (slRange sl a b).length) :
    ∀ fuel lo hi, lo ≤ x → x ≤ hi → WidthOk S p sl fuel lo hi →
      rmEl A S p sl' x fuel (build A S p sl fuel lo hi) lo hi
        = (build A S p sl' fuel lo hi,
           decide (¬ ((slRange sl' lo hi).length > p.thr ∧ S.wide lo hi p.df = true))) := by
  intro fuel
  induction fuel with
  | zero =>
    intro lo hi h1 h2 hw
    have hl := hlen lo hi h1 h2
    simp only [WidthOk, Div] at hw
    have hc' : ¬ ((slRange sl' lo hi).length > p.thr ∧ S.wide lo hi p.df = true) :=
      fun h => hw ⟨by omega, h.2⟩
    rw [build_zero, build_zero, if_neg hw, if_neg hc']
    unfold mkLeaf
    rw [rmEl_zero_leaf]
    simp [mkLeaf, hc']
  | succ f ih =>
    intro lo hi h1 h2 hw
    have hl := hlen lo hi h1 h2
    rw [build_succ, build_succ]
    by_cases hc : (slRange sl lo hi).length > p.thr ∧ S.wide lo hi p.df = true
    · have hw' : SplitOk S p.df lo hi ∧ ∀ i, i < p.df →
          WidthOk S p sl f (S.child lo hi p.df i).1 (S.child lo hi p.df i).2 := by
        rcases hw with hw | hw
        · exact absurd hc hw
        · exact hw
      obtain ⟨i, hb, hi', hin, hothers⟩ := hw'.1.bucket x h1 h2
      rw [if_pos hc, rmEl_succ_div, hb]
      simp only []
      rw [kid_buildKids A S p sl f lo hi i hi', ih _ _ hin.1 hin.2 (hw'.2 i hi')]
      by_cases hc' : (slRange sl' lo hi).length > p.thr ∧ S.wide lo hi p.df = true
      · -- still divided: no merge
        have hcond : (decide (¬ ((slRange sl' (S.child lo hi p.df i).1 (S.child lo hi p.df i).2).length > p.thr ∧
              S.wide (S.child lo hi p.df i).1 (S.child lo hi p.df i).2 p.df = true))
            && decide ((slRange sl lo hi).length - 1 ≤ p.thr)) = false := by
          have : ¬ ((slRange sl lo hi).length - 1 ≤ p.thr) := by have := hc'.1; omega
          simp [this]
        rw [hcond, if_pos hc']
        simp only [Bool.false_eq_true, if_false]
        have hws : ∀ j, j < p.df →
            WidthOk S p sl' f (S.child lo hi p.df j).1 (S.child lo hi p.df j).2 := by
          intro j hj
          exact widthOk_mono S p sl sl' hle f _ _ (hw'.2 j hj)
        rw [set_buildKids A S p sl sl' x hout f lo hi i hws hothers]
        have hcnt : (slRange sl lo hi).length - 1 = (slRange sl' lo hi).length := by omega
        simp [hc', hcnt]
      · -- dropped to the threshold: merged (the range is wide, so it is the count that dropped)
        have hsub := hw'.1.sub i hi'
        have hm := slRange_len_mono sl' _ _ lo hi hsub.1 hsub.2
        have hcnt' : (slRange sl' lo hi).length ≤ p.thr := by
          by_cases h : (slRange sl' lo hi).length > p.thr
          · exact absurd ⟨h, hc.2⟩ hc'
          · omega
        have hcond : (decide (¬ ((slRange sl' (S.child lo hi p.df i).1 (S.child lo hi p.df i).2).length > p.thr ∧
              S.wide (S.child lo hi p.df i).1 (S.child lo hi p.df i).2 p.df = true))
            && decide ((slRange sl lo hi).length - 1 ≤ p.thr)) = true := by
          have h1' : ¬ ((slRange sl' (S.child lo hi p.df i).1 (S.child lo hi p.df i).2).length > p.thr ∧
              S.wide (S.child lo hi p.df i).1 (S.child lo hi p.df i).2 p.df = true) := by
            intro h; have := h.1; omega
          have h2' : (slRange sl lo hi).length - 1 ≤ p.thr := by omega
          simp [h1', h2']
        rw [hcond, if_neg hc']
        simp [hc']
    · have hc' : ¬ ((slRange sl' lo hi).length > p.thr ∧ S.wide lo hi p.df = true) :=
        fun h => hc ⟨by omega, h.2⟩
      rw [if_neg hc, if_neg hc']
      unfold mkLeaf
      rw [rmEl_succ_leaf]
      simp [mkLeaf, hc']

/-! ### skip-list facts used by the history induction -/

theorem slInsert_perm (e : Elem) (sl : List Elem) : (slInsert e sl).Perm (e :: sl) := by
  induction sl with
  | nil => exact List.Perm.refl _
  | cons x xs ih =>
    unfold slInsert
    split
    · exact List.Perm.refl _
    · exact (List.Perm.cons x ih).trans (List.Perm.swap e x xs)

theorem mem_slRemove {id : Nat} {sl : List Elem} {e : Elem} :
    e ∈ slRemove id sl ↔ e ∈ sl ∧ e.id ≠ id := by
  simp [slRemove, List.mem_filter]

theorem slRemove_eq_self (id : Nat) (l : List Elem) (h : ∀ e, e ∈ l → e.id ≠ id) :
    slRemove id l = l := by
  unfold slRemove
  apply List.filter_eq_self.mpr
  intro e he
  simp [h e he]

theorem slRange_slRemove (id : Nat) (sl : List Elem) (a b : Nat) :
    slRange (slRemove id sl) a b = slRemove id (slRange sl a b) := by
  unfold slRange slRemove
  rw [List.filter_filter, List.filter_filter]
  congr 1
  funext e
  exact Bool.and_comm _ _

theorem slRemove_len (l : List Elem) (e0 : Elem) (hn : (l.map (·.id)).Nodup) (hm : e0 ∈ l) :
    (slRemove e0.id l).length + 1 = l.length := by
  induction l with
  | nil => cases hm
  | cons x xs ih =>
    simp only [List.map_cons, List.nodup_cons] at hn
    by_cases hx : x.id = e0.id
    · -- x is the element removed; nothing else has this id
      have hrest : slRemove e0.id xs = xs := by
        apply slRemove_eq_self
        intro e he heq
        apply hn.1
        rw [hx, ← heq]
        exact List.mem_map_of_mem he
      have e1 : slRemove e0.id (x :: xs) = slRemove e0.id xs := by
        simp [slRemove, List.filter_cons, hx]
      rw [e1, hrest]; rfl
    · have hm' : e0 ∈ xs := by
        rcases List.mem_cons.mp hm with h | h
        · exact absurd (by rw [h]) hx
        · exact h
      have := ih hn.2 hm'
      have e1 : slRemove e0.id (x :: xs) = x :: slRemove e0.id xs := by
        simp [slRemove, List.filter_cons, hx]
      rw [e1]
      simp only [List.length_cons]
      omega

theorem slRange_sub (sl : List Elem) (a b : Nat) : (slRange sl a b).Sublist sl := by
  unfold slRange; exact List.filter_sublist

theorem slRemove_sub (id : Nat) (sl : List Elem) : (slRemove id sl).Sublist sl := by
  unfold slRemove; exact List.filter_sublist

theorem mem_slRange {sl : List Elem} {a b : Nat} {e : Elem} :
    e ∈ slRange sl a b ↔ e ∈ sl ∧ a ≤ e.hash ∧ e.hash ≤ b := by
  simp [slRange, List.mem_filter]

/-- removing the id whose hash is `x` changes the skip list only at `x` -/
theorem remove_onlyAt (hf : Nat → Nat) (sl : List Elem) (id : Nat)
    (hw : ∀ e, e ∈ sl → e.hash = hf e.id) : OnlyAt (hf id) sl (slRemove id sl) := by
  intro a b hx
  rw [slRange_slRemove]
  apply slRemove_eq_self
  intro e he heq
  have hm := mem_slRange.mp he
  have := hw e hm.1
  rw [heq] at this
  omega

/-- … and takes exactly one element out of every range containing `x` -/
theorem remove_count (hf : Nat → Nat) (sl : List Elem) (e0 : Elem) (hm : e0 ∈ sl)
    (hw : ∀ e, e ∈ sl → e.hash = hf e.id) (hn : (sl.map (·.id)).Nodup)
    (a b : Nat) (h1 : a ≤ hf e0.id) (h2 : hf e0.id ≤ b) :
    (slRange (slRemove e0.id sl) a b).length + 1 = (slRange sl a b).length := by
  rw [slRange_slRemove]
  apply slRemove_len
  · exact List.Nodup.sublist ((slRange_sub sl a b).map _) hn
  · exact mem_slRange.mpr ⟨hm, by rw [hw e0 hm]; exact h1, by rw [hw e0 hm]; exact h2⟩

theorem remove_le (id : Nat) (sl : List Elem) (a b : Nat) :
    (slRange (slRemove id sl) a b).length ≤ (slRange sl a b).length := by
  rw [slRange_slRemove]
  unfold slRemove
  exact List.length_filter_le _ _

theorem slHas_iff {id : Nat} {sl : List Elem} : slHas id sl = true ↔ ∃ e, e ∈ sl ∧ e.id = id := by
  simp [slHas, List.any_eq_true]

/-! ### the skip list is sorted, and a sorted list is determined by its elements -/

def Sorted (l : List Elem) : Prop := l.Pairwise (fun x y => x.lt y = true)

theorem lt_trans' {a b c : Elem} (h1 : a.lt b = true) (h2 : b.lt c = true) : a.lt c = true := by
  simp only [Elem.lt, Bool.or_eq_true, decide_eq_true_eq, Bool.and_eq_true, beq_iff_eq] at *
  omega

theorem lt_asymm' {a b : Elem} (h1 : a.lt b = true) (h2 : b.lt a = true) : False := by
  simp only [Elem.lt, Bool.or_eq_true, decide_eq_true_eq, Bool.and_eq_true, beq_iff_eq] at *
  omega

theorem lt_total' {a b : Elem} (hne : a.id ≠ b.id) (h : ¬ a.lt b = true) : b.lt a = true := by
  simp only [Elem.lt, Bool.or_eq_true, decide_eq_true_eq, Bool.and_eq_true, beq_iff_eq] at *
  omega

theorem slInsert_sorted (e : Elem) : ∀ (l : List Elem), Sorted l → (∀ x, x ∈ l → x.id ≠ e.id) →
    Sorted (slInsert e l) := by
  intro l
  induction l with
  | nil => intro _ _; simp [slInsert, Sorted]
  | cons x xs ih =>
    intro hs hne
    have hs' := List.pairwise_cons.mp hs
    unfold slInsert
    split
    · rename_i hlt
      refine List.pairwise_cons.mpr ⟨?_, hs⟩
      intro y hy
      rcases List.mem_cons.mp hy with rfl | hy'
      · exact hlt
      · exact lt_trans' hlt (hs'.1 y hy')
    · rename_i hlt
      refine List.pairwise_cons.mpr ⟨?_, ih hs'.2 (fun y hy => hne y (by simp [hy]))⟩
      intro y hy
      rcases List.mem_cons.mp ((slInsert_perm e xs).mem_iff.mp hy) with rfl | hy'
      · exact lt_total' (fun h => hne x (by simp) h.symm) hlt
      · exact hs'.1 y hy'

theorem slRemove_sorted (id : Nat) (l : List Elem) (h : Sorted l) : Sorted (slRemove id l) :=
  List.Pairwise.sublist (slRemove_sub id l) h

theorem nodup_of_map_id (l : List Elem) (h : (l.map (·.id)).Nodup) : l.Nodup := by
  induction l with
  | nil => exact List.nodup_nil
  | cons x xs ih =>
    simp only [List.map_cons, List.nodup_cons] at h ⊢
    exact ⟨fun hm => h.1 (List.mem_map_of_mem hm), ih h.2⟩

/-- a sorted skip list is determined by the set of its elements -/
theorem sorted_ext (l₁ l₂ : List Elem) (s₁ : Sorted l₁) (s₂ : Sorted l₂)
    (n₁ : l₁.Nodup) (n₂ : l₂.Nodup) (h : ∀ e, e ∈ l₁ ↔ e ∈ l₂) : l₁ = l₂ :=
  List.Perm.eq_of_pairwise (fun _ _ _ _ h1 h2 => (lt_asymm' h1 h2).elim) s₁ s₂
    ((List.perm_ext_iff_of_nodup n₁ n₂).mpr h)

/-! ### the walk through the top range -/

/-- the width hypothesis for a whole index -/
def TopOk (S : Splitter) (p : Params) (sl : List Elem) : Prop :=
  SplitOk S p.df 0 (M - 1) ∧
    ∀ i, i < p.df → WidthOk S p sl depthFuel (S.child 0 (M - 1) p.df i).1 (S.child 0 (M - 1) p.df i).2

/-! ### the width/depth hypothesis discharged for all contents (fix-width) -/

/-- contents-free: after at most `f` more levels every range is too narrow to be divided, and
every range that can be divided splits properly -/
def NarrowBy (S : Splitter) (df : Nat) : Nat → Nat → Nat → Prop
  | 0, lo, hi => S.wide lo hi df = false
  | f + 1, lo, hi => S.wide lo hi df = false ∨
      (SplitOk S df lo hi ∧ ∀ i, i < df → NarrowBy S df f (S.child lo hi df i).1 (S.child lo hi df i).2)

/-- **since fix-width the width hypothesis holds for ALL contents** -/
theorem widthOk_of_narrowBy (S : Splitter) (p : Params) (sl : List Elem) :
    ∀ f lo hi, NarrowBy S p.df f lo hi → WidthOk S p sl f lo hi := by
  intro f
  induction f with
  | zero =>
    intro lo hi h
    simp only [NarrowBy] at h
    simp only [WidthOk, Div]
    intro hd; rw [h] at hd; exact absurd hd.2 (by simp)
  | succ f ih =>
    intro lo hi h
    simp only [NarrowBy] at h
    simp only [WidthOk, Div]
    rcases h with h | h
    · left; intro hd; rw [h] at hd; exact absurd hd.2 (by simp)
    · right; exact ⟨h.1, fun i hi' => ih _ _ (h.2 i hi')⟩

/-- a good splitter: the top range splits properly and its parts are `NarrowBy depthFuel` -/
def SplitterOk (S : Splitter) (df : Nat) : Prop :=
  SplitOk S df 0 (M - 1) ∧
    ∀ i, i < df → NarrowBy S df depthFuel (S.child 0 (M - 1) df i).1 (S.child 0 (M - 1) df i).2

theorem topOk_of_splitterOk (S : Splitter) (p : Params) (sl : List Elem) (h : SplitterOk S p.df) :
    TopOk S p sl :=
  ⟨h.1, fun i hi' => widthOk_of_narrowBy S p sl depthFuel _ _ (h.2 i hi')⟩

theorem top_step {D} (A : DigAlg D) (S : Splitter) (p : Params) (sl sl' : List Elem) (x : Nat)
    (dc : Nat → Nat) (f : Tree D → Nat → Nat → Tree D)
    (hout : OnlyAt x sl sl') (hx : x < M) (hok : TopOk S p sl') (hcount : dc sl.length = sl'.length)
    (hf : ∀ i, i < p.df →
      (S.child 0 (M - 1) p.df i).1 ≤ x → x ≤ (S.child 0 (M - 1) p.df i).2 →
      f (build A S p sl depthFuel (S.child 0 (M - 1) p.df i).1 (S.child 0 (M - 1) p.df i).2)
          (S.child 0 (M - 1) p.df i).1 (S.child 0 (M - 1) p.df i).2
        = build A S p sl' depthFuel (S.child 0 (M - 1) p.df i).1 (S.child 0 (M - 1) p.df i).2) :
    topOp A S p x dc f (buildTop A S p sl) = buildTop A S p sl' := by
  obtain ⟨i, hb, hi', hin, hothers⟩ := hok.1.bucket x (Nat.zero_le _) (by omega)
  unfold buildTop
  rw [topOp_div, hb]
  simp only []
  rw [kid_buildKids A S p sl depthFuel 0 (M - 1) i hi', hf i hi' hin.1 hin.2,
    set_buildKids A S p sl sl' x hout depthFuel 0 (M - 1) i hok.2 hothers, hcount]

end AnySync.Ldiff
