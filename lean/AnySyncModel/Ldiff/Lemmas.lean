import AnySyncModel.Ldiff.Spec
/-! Helper lemmas for C07 / C08 (core Lean only). -/
namespace AnySync.Ldiff

theorem filterMap_congr' {α β} {f g : α → Option β} {l : List α} (h : ∀ a ∈ l, f a = g a) :
    l.filterMap f = l.filterMap g := by
  induction l with
  | nil => rfl
  | cons x xs ih =>
    have hx := h x (by simp)
    have ih' := ih (fun a ha => h a (by simp [ha]))
    simp [List.filterMap_cons, hx, ih']

/-! ### children as list / as function -/

theorem ofList_map_range {D} (df : Nat) (f : Nat → Tree D) (i : Nat) :
    ofList ((List.range df).map f) i = if i < df then f i else .leaf 0 none := by
  unfold ofList
  rw [List.getD_eq_getElem?_getD, List.getElem?_map]
  by_cases h : i < df
  · rw [List.getElem?_range h]; simp [h]
  · have : (List.range df)[i]? = none := List.getElem?_eq_none (by simp; omega)
    rw [this]; simp [h]

theorem kidsHash_ofList {D} (A : DigAlg D) (df : Nat) (f : Nat → Tree D) :
    kidsHash A df (ofList ((List.range df).map f)) = listHash A ((List.range df).map f) := by
  unfold kidsHash listHash
  congr 2
  rw [List.filterMap_map]
  apply filterMap_congr'
  intro i hi
  have : i < df := by simpa using hi
  simp [ofList_map_range, this]

/-- `kidsHash` only looks at the first `df` children -/
theorem kidsHash_congr {D} (A : DigAlg D) (df : Nat) (k k' : Nat → Tree D)
    (h : ∀ i, i < df → k i = k' i) : kidsHash A df k = kidsHash A df k' := by
  unfold kidsHash
  congr 2
  apply filterMap_congr'
  intro i hi
  have : i < df := by simpa using hi
  simp [h i this]

/-! ### the skip list -/

def inR (lo hi : Nat) (e : Elem) : Bool := decide (lo ≤ e.hash) && decide (e.hash ≤ hi)

theorem slRange_eq (sl : List Elem) (lo hi : Nat) : slRange sl lo hi = sl.filter (inR lo hi) := rfl

theorem inR_true {lo hi : Nat} {e : Elem} : inR lo hi e = true ↔ (lo ≤ e.hash ∧ e.hash ≤ hi) := by
  simp [inR]

theorem slRange_insert_out (e : Elem) (sl : List Elem) (lo hi : Nat)
    (h : ¬ (lo ≤ e.hash ∧ e.hash ≤ hi)) : slRange (slInsert e sl) lo hi = slRange sl lo hi := by
  have hf : inR lo hi e = false := by
    cases hh : inR lo hi e
    · rfl
    · exact absurd (inR_true.mp hh) h
  simp only [slRange_eq]
  induction sl with
  | nil => simp [slInsert, List.filter_cons, hf]
  | cons x xs ih =>
    unfold slInsert
    split
    · simp [List.filter_cons, hf]
    · simp only [List.filter_cons, ih]

theorem slRange_insert_len (e : Elem) (sl : List Elem) (lo hi : Nat)
    (h : lo ≤ e.hash ∧ e.hash ≤ hi) :
    (slRange (slInsert e sl) lo hi).length = (slRange sl lo hi).length + 1 := by
  have ht : inR lo hi e = true := inR_true.mpr h
  simp only [slRange_eq]
  induction sl with
  | nil => simp [slInsert, List.filter_cons, ht]
  | cons x xs ih =>
    unfold slInsert
    split
    · simp [List.filter_cons, ht]
    · simp only [List.filter_cons]
      split <;> simp [ih]

/-! ### well-split ranges and the width hypothesis -/

/-- what the division of `[lo,hi]` into `df` parts must satisfy: the parts lie inside the range,
and `getBottomRange` returns the one part that contains the hash. Proved for every range that is
not narrower than `df` (`splitOk_of_wide`). -/
structure SplitOk (df lo hi : Nat) : Prop where
  sub : ∀ i, i < df → lo ≤ (childRange lo hi df i).1 ∧ (childRange lo hi df i).2 ≤ hi
  bucket : ∀ h, lo ≤ h → h ≤ hi → ∃ i, bucketOf lo hi df h = some i ∧ i < df ∧
      ((childRange lo hi df i).1 ≤ h ∧ h ≤ (childRange lo hi df i).2) ∧
      ∀ j, j < df → j ≠ i → ¬ ((childRange lo hi df j).1 ≤ h ∧ h ≤ (childRange lo hi df j).2)

/-- the hypothesis of termination (F-ldiff-width): every range that has to be divided (more than
`thr` elements) splits properly, down to the depth budget. -/
def WidthOk (p : Params) (sl : List Elem) : Nat → Nat → Nat → Prop
  | 0, lo, hi => (slRange sl lo hi).length ≤ p.thr
  | f + 1, lo, hi => (slRange sl lo hi).length ≤ p.thr ∨
      (SplitOk p.df lo hi ∧
        ∀ i, i < p.df → WidthOk p sl f (childRange lo hi p.df i).1 (childRange lo hi p.df i).2)

/-- `sl'` differs from `sl` only at hash `x` -/
def OnlyAt (x : Nat) (sl sl' : List Elem) : Prop :=
  ∀ a b, ¬ (a ≤ x ∧ x ≤ b) → slRange sl' a b = slRange sl a b

theorem build_out {D} (A : DigAlg D) (p : Params) (sl sl' : List Elem) (x : Nat)
    (hout : OnlyAt x sl sl') :
    ∀ fuel lo hi, ¬ (lo ≤ x ∧ x ≤ hi) → WidthOk p sl' fuel lo hi →
      build A p sl' fuel lo hi = build A p sl fuel lo hi := by
  intro fuel
  induction fuel with
  | zero =>
    intro lo hi hx _
    simp only [build, mkLeaf, hout lo hi hx]
  | succ f ih =>
    intro lo hi hx hw
    simp only [build, mkLeaf, hout lo hi hx]
    split
    · rename_i hc
      have hw' : SplitOk p.df lo hi ∧ ∀ i, i < p.df →
          WidthOk p sl' f (childRange lo hi p.df i).1 (childRange lo hi p.df i).2 := by
        rcases hw with hw | hw
        · rw [hout lo hi hx] at hw; omega
        · exact hw
      have hl : (List.range p.df).map (fun i =>
            build A p sl' f (childRange lo hi p.df i).1 (childRange lo hi p.df i).2)
          = (List.range p.df).map (fun i =>
            build A p sl f (childRange lo hi p.df i).1 (childRange lo hi p.df i).2) := by
        apply List.map_congr_left
        intro i hi'
        have hi2 : i < p.df := by simpa using hi'
        have hs := hw'.1.sub i hi2
        apply ih _ _ _ (hw'.2 i hi2)
        intro hh; apply hx; omega
      simp only [hl]
    · rfl


end AnySync.Ldiff
