import AnySyncModel.Ldiff.Spec
/-! Helper lemmas for C07 / C08 (core Lean only). -/
namespace AnySync.Ldiff

/-! ### the skip list -/

def inR (lo hi : Nat) (e : Elem) : Bool := decide (lo ≤ e.hash) && decide (e.hash ≤ hi)

theorem slRange_eq (sl : List Elem) (lo hi : Nat) : slRange sl lo hi = sl.filter (inR lo hi) := rfl

theorem inR_true {lo hi : Nat} {e : Elem} : inR lo hi e = true ↔ (lo ≤ e.hash ∧ e.hash ≤ hi) := by
  simp [inR]

theorem slRange_insert_out (e : Elem) (sl : List Elem) (lo hi : Nat)
    (h : ¬ (lo ≤ e.hash ∧ e.hash ≤ hi)) : slRange (slInsert e sl) lo hi = slRange sl lo hi := by
  have hf : inR lo hi e = false := by
    cases hh : inR lo hi e
    · rfl
    · exact absurd (inR_true.mp hh) h
  simp only [slRange_eq]
  induction sl with
  | nil => simp [slInsert, List.filter_cons, hf]
  | cons x xs ih =>
    unfold slInsert
    split
    · simp [List.filter_cons, hf]
    · simp only [List.filter_cons, ih]

theorem slRange_insert_len (e : Elem) (sl : List Elem) (lo hi : Nat)
    (h : lo ≤ e.hash ∧ e.hash ≤ hi) :
    (slRange (slInsert e sl) lo hi).length = (slRange sl lo hi).length + 1 := by
  have ht : inR lo hi e = true := inR_true.mpr h
  simp only [slRange_eq]
  induction sl with
  | nil => simp [slInsert, List.filter_cons, ht]
  | cons x xs ih =>
    unfold slInsert
    split
    · simp [List.filter_cons, ht]
    · simp only [List.filter_cons]
      split <;> simp [ih]

/-! ### well-split ranges and the width hypothesis -/

/-- what the division of `[lo,hi]` into `df` parts must satisfy: the parts lie inside the range,
and `bucket` returns the one part that contains the hash. Proved for the Go arithmetic and every
range that is not narrower than `df` in `Ldiff/Arith.lean` (`goSplit_ok`). -/
structure SplitOk (S : Splitter) (df lo hi : Nat) : Prop where
  sub : ∀ i, i < df → lo ≤ (S.child lo hi df i).1 ∧ (S.child lo hi df i).2 ≤ hi
  bucket : ∀ h, lo ≤ h → h ≤ hi → ∃ i, S.bucket lo hi df h = some i ∧ i < df ∧
      ((S.child lo hi df i).1 ≤ h ∧ h ≤ (S.child lo hi df i).2) ∧
      ∀ j, j < df → j ≠ i → ¬ ((S.child lo hi df j).1 ≤ h ∧ h ≤ (S.child lo hi df j).2)

/-- the hypothesis of termination (F-ldiff-width): every range that has to be divided (more than
`thr` elements) splits properly, down to the depth budget. -/
def WidthOk (S : Splitter) (p : Params) (sl : List Elem) : Nat → Nat → Nat → Prop
  | 0, lo, hi => (slRange sl lo hi).length ≤ p.thr
  | f + 1, lo, hi => (slRange sl lo hi).length ≤ p.thr ∨
      (SplitOk S p.df lo hi ∧
        ∀ i, i < p.df → WidthOk S p sl f (S.child lo hi p.df i).1 (S.child lo hi p.df i).2)

/-- `sl'` differs from `sl` only at hash `x` -/
def OnlyAt (x : Nat) (sl sl' : List Elem) : Prop :=
  ∀ a b, ¬ (a ≤ x ∧ x ≤ b) → slRange sl' a b = slRange sl a b

/-- the width hypothesis is inherited by smaller contents -/
theorem widthOk_mono (S : Splitter) (p : Params) (sl sl' : List Elem)
    (hle : ∀ a b, (slRange sl' a b).length ≤ (slRange sl a b).length) :
    ∀ fuel lo hi, WidthOk S p sl fuel lo hi → WidthOk S p sl' fuel lo hi := by
  intro fuel
  induction fuel with
  | zero => intro lo hi hw; simp only [WidthOk] at hw ⊢; have := hle lo hi; omega
  | succ f ih =>
    intro lo hi hw
    simp only [WidthOk] at hw ⊢
    rcases hw with hw | hw
    · left; have := hle lo hi; omega
    · right; exact ⟨hw.1, fun i hi' => ih _ _ (hw.2 i hi')⟩

/-! ### unfolding lemmas, stated once (all by `rfl`) -/
section eqs
variable {D : Type} (A : DigAlg D) (S : Splitter) (p : Params) (sl : List Elem)

theorem build_zero (lo hi : Nat) :
    build A S p sl 0 lo hi = if (slRange sl lo hi).length > p.thr then .stuck else mkLeaf A sl lo hi := rfl

theorem build_succ (f lo hi : Nat) :
    build A S p sl (f + 1) lo hi =
      if (slRange sl lo hi).length > p.thr then
        .div (slRange sl lo hi).length (kidsHash A (buildKids A S p sl f lo hi)) (buildKids A S p sl f lo hi)
      else mkLeaf A sl lo hi := rfl

theorem addEl_zero_leaf (h c lo hi : Nat) (d : Option D) :
    addEl A S p sl h 0 (.leaf c d) lo hi = if c + 1 > p.thr then .stuck else mkLeaf A sl lo hi := rfl

theorem addEl_succ_leaf (h f c lo hi : Nat) (d : Option D) :
    addEl A S p sl h (f + 1) (.leaf c d) lo hi =
      if c + 1 > p.thr then
        .div (c + 1) (kidsHash A (buildKids A S p sl f lo hi)) (buildKids A S p sl f lo hi)
      else mkLeaf A sl lo hi := rfl

theorem addEl_succ_div (h f c lo hi : Nat) (d : Option D) (kids : List (Tree D)) :
    addEl A S p sl h (f + 1) (.div c d kids) lo hi =
      match S.bucket lo hi p.df h with
      | none => .stuck
      | some i =>
        .div (c + 1)
          (kidsHash A (kids.set i
            (addEl A S p sl h f (kid kids i) (S.child lo hi p.df i).1 (S.child lo hi p.df i).2)))
          (kids.set i
            (addEl A S p sl h f (kid kids i) (S.child lo hi p.df i).1 (S.child lo hi p.df i).2)) := rfl

theorem updEl_zero_leaf (h c lo hi : Nat) (d : Option D) :
    updEl A S p sl h 0 (.leaf c d) lo hi = mkLeaf A sl lo hi := rfl

theorem updEl_succ_leaf (h f c lo hi : Nat) (d : Option D) :
    updEl A S p sl h (f + 1) (.leaf c d) lo hi = mkLeaf A sl lo hi := rfl

theorem updEl_succ_div (h f c lo hi : Nat) (d : Option D) (kids : List (Tree D)) :
    updEl A S p sl h (f + 1) (.div c d kids) lo hi =
      match S.bucket lo hi p.df h with
      | none => .stuck
      | some i =>
        .div c
          (kidsHash A (kids.set i
            (updEl A S p sl h f (kid kids i) (S.child lo hi p.df i).1 (S.child lo hi p.df i).2)))
          (kids.set i
            (updEl A S p sl h f (kid kids i) (S.child lo hi p.df i).1 (S.child lo hi p.df i).2)) := rfl

theorem rmEl_zero_leaf (h c lo hi : Nat) (d : Option D) :
    rmEl A S p sl h 0 (.leaf c d) lo hi = (mkLeaf A sl lo hi, true) := rfl

theorem rmEl_succ_leaf (h f c lo hi : Nat) (d : Option D) :
    rmEl A S p sl h (f + 1) (.leaf c d) lo hi = (mkLeaf A sl lo hi, true) := rfl

theorem rmEl_succ_div (h f c lo hi : Nat) (d : Option D) (kids : List (Tree D)) :
    rmEl A S p sl h (f + 1) (.div c d kids) lo hi =
      match S.bucket lo hi p.df h with
      | none => (.stuck, false)
      | some i =>
        if (rmEl A S p sl h f (kid kids i) (S.child lo hi p.df i).1 (S.child lo hi p.df i).2).2
            && decide (c - 1 ≤ p.thr) then
          (mkLeaf A sl lo hi, true)
        else
          (.div (c - 1)
            (kidsHash A (kids.set i
              (rmEl A S p sl h f (kid kids i) (S.child lo hi p.df i).1 (S.child lo hi p.df i).2).1))
            (kids.set i
              (rmEl A S p sl h f (kid kids i) (S.child lo hi p.df i).1 (S.child lo hi p.df i).2).1),
           false) := rfl

theorem topOp_div (h : Nat) (dc : Nat → Nat) (f : Tree D → Nat → Nat → Tree D) (c : Nat)
    (d : Option D) (kids : List (Tree D)) :
    topOp A S p h dc f (.div c d kids) =
      match S.bucket 0 (M - 1) p.df h with
      | none => .stuck
      | some i =>
        .div (dc c)
          (kidsHash A (kids.set i
            (f (kid kids i) (S.child 0 (M - 1) p.df i).1 (S.child 0 (M - 1) p.df i).2)))
          (kids.set i
            (f (kid kids i) (S.child 0 (M - 1) p.df i).1 (S.child 0 (M - 1) p.df i).2)) := rfl

theorem kid_buildKids (f lo hi i : Nat) (hi' : i < p.df) :
    kid (buildKids A S p sl f lo hi) i
      = build A S p sl f (S.child lo hi p.df i).1 (S.child lo hi p.df i).2 := by
  unfold kid buildKids
  rw [List.getD_eq_getElem?_getD, List.getElem?_map, List.getElem?_range hi']
  rfl

end eqs

/-! ### locality: a range that does not contain the changed hash keeps its subtree -/

theorem build_out {D} (A : DigAlg D) (S : Splitter) (p : Params) (sl sl' : List Elem) (x : Nat)
    (hout : OnlyAt x sl sl') :
    ∀ fuel lo hi, ¬ (lo ≤ x ∧ x ≤ hi) → WidthOk S p sl' fuel lo hi →
      build A S p sl' fuel lo hi = build A S p sl fuel lo hi := by
  intro fuel
  induction fuel with
  | zero =>
    intro lo hi hx _
    rw [build_zero, build_zero, hout lo hi hx]
    unfold mkLeaf
    rw [hout lo hi hx]
  | succ f ih =>
    intro lo hi hx hw
    rw [build_succ, build_succ, hout lo hi hx]
    unfold mkLeaf
    rw [hout lo hi hx]
    by_cases hc : (slRange sl lo hi).length > p.thr
    · have hw' : SplitOk S p.df lo hi ∧ ∀ i, i < p.df →
          WidthOk S p sl' f (S.child lo hi p.df i).1 (S.child lo hi p.df i).2 := by
        rcases hw with hw | hw
        · rw [hout lo hi hx] at hw; omega
        · exact hw
      have hl : buildKids A S p sl' f lo hi = buildKids A S p sl f lo hi := by
        unfold buildKids
        apply List.map_congr_left
        intro i hi'
        have hi2 : i < p.df := by simpa using hi'
        have hs := hw'.1.sub i hi2
        apply ih _ _ _ (hw'.2 i hi2)
        intro hh; apply hx; omega
      rw [hl]
    · rw [if_neg hc, if_neg hc]

/-- replacing child `i` of the old children by the new subtree gives exactly the new children -/
theorem set_buildKids {D} (A : DigAlg D) (S : Splitter) (p : Params) (sl sl' : List Elem) (x : Nat)
    (hout : OnlyAt x sl sl') (f lo hi i : Nat)
    (hw : ∀ j, j < p.df → WidthOk S p sl' f (S.child lo hi p.df j).1 (S.child lo hi p.df j).2)
    (hothers : ∀ j, j < p.df → j ≠ i →
      ¬ ((S.child lo hi p.df j).1 ≤ x ∧ x ≤ (S.child lo hi p.df j).2)) :
    (buildKids A S p sl f lo hi).set i (build A S p sl' f (S.child lo hi p.df i).1 (S.child lo hi p.df i).2)
      = buildKids A S p sl' f lo hi := by
  apply List.ext_getElem?
  intro j
  unfold buildKids
  rw [List.getElem?_set]
  by_cases hj : j < p.df
  · by_cases hji : i = j
    · subst hji
      simp [hj]
    · simp only [hji, if_false, List.getElem?_map, List.getElem?_range hj, Option.map_some]
      congr 1
      exact (build_out A S p sl sl' x hout f _ _ (hothers j hj (fun h => hji h.symm)) (hw j hj)).symm
  · have hn : (List.range p.df)[j]? = none := List.getElem?_eq_none (by simp; omega)
    by_cases hji : i = j
    · subst hji; simp [hj]
    · simp [hji, hn]

/-! ### the three refinement steps below the top range -/

theorem addEl_build {D} (A : DigAlg D) (S : Splitter) (p : Params) (sl sl' : List Elem) (x : Nat)
    (hout : OnlyAt x sl sl')
    (hlen : ∀ a b, a ≤ x → x ≤ b → (slRange sl' a b).length = (slRange sl a b).length + 1) :
    ∀ fuel lo hi, lo ≤ x → x ≤ hi → WidthOk S p sl' fuel lo hi →
      addEl A S p sl' x fuel (build A S p sl fuel lo hi) lo hi = build A S p sl' fuel lo hi := by
  intro fuel
  induction fuel with
  | zero =>
    intro lo hi h1 h2 hw
    have hl := hlen lo hi h1 h2
    simp only [WidthOk] at hw
    have hc : ¬ (slRange sl lo hi).length > p.thr := by omega
    have hc' : ¬ (slRange sl' lo hi).length > p.thr := by omega
    have h3 : ¬ (slRange sl lo hi).length + 1 > p.thr := by omega
    rw [build_zero, build_zero, if_neg hc, if_neg hc']
    unfold mkLeaf
    rw [addEl_zero_leaf, if_neg h3]
    rfl
  | succ f ih =>
    intro lo hi h1 h2 hw
    have hl := hlen lo hi h1 h2
    rw [build_succ, build_succ]
    by_cases hc : (slRange sl lo hi).length > p.thr
    · have hc' : (slRange sl' lo hi).length > p.thr := by omega
      have hw' : SplitOk S p.df lo hi ∧ ∀ i, i < p.df →
          WidthOk S p sl' f (S.child lo hi p.df i).1 (S.child lo hi p.df i).2 := by
        rcases hw with hw | hw
        · omega
        · exact hw
      obtain ⟨i, hb, hi', hin, hothers⟩ := hw'.1.bucket x h1 h2
      rw [if_pos hc, if_pos hc', addEl_succ_div, hb]
      simp only []
      rw [kid_buildKids A S p sl f lo hi i hi', ih _ _ hin.1 hin.2 (hw'.2 i hi'),
        set_buildKids A S p sl sl' x hout f lo hi i hw'.2 hothers, hl]
    · rw [if_neg hc]
      by_cases hc' : (slRange sl' lo hi).length > p.thr
      · have h3 : (slRange sl lo hi).length + 1 > p.thr := by omega
        rw [if_pos hc']
        unfold mkLeaf
        rw [addEl_succ_leaf, if_pos h3, hl]
      · have h3 : ¬ (slRange sl lo hi).length + 1 > p.thr := by omega
        rw [if_neg hc']
        unfold mkLeaf
        rw [addEl_succ_leaf, if_neg h3]
        rfl

theorem updEl_build {D} (A : DigAlg D) (S : Splitter) (p : Params) (sl sl' : List Elem) (x : Nat)
    (hout : OnlyAt x sl sl')
    (hlen : ∀ a b, (slRange sl' a b).length = (slRange sl a b).length) :
    ∀ fuel lo hi, lo ≤ x → x ≤ hi → WidthOk S p sl' fuel lo hi →
      updEl A S p sl' x fuel (build A S p sl fuel lo hi) lo hi = build A S p sl' fuel lo hi := by
  intro fuel
  induction fuel with
  | zero =>
    intro lo hi h1 h2 hw
    have hl := hlen lo hi
    simp only [WidthOk] at hw
    have hc : ¬ (slRange sl lo hi).length > p.thr := by omega
    have hc' : ¬ (slRange sl' lo hi).length > p.thr := by omega
    rw [build_zero, build_zero, if_neg hc, if_neg hc']
    unfold mkLeaf
    rw [updEl_zero_leaf]
    rfl
  | succ f ih =>
    intro lo hi h1 h2 hw
    have hl := hlen lo hi
    rw [build_succ, build_succ]
    by_cases hc : (slRange sl lo hi).length > p.thr
    · have hc' : (slRange sl' lo hi).length > p.thr := by omega
      have hw' : SplitOk S p.df lo hi ∧ ∀ i, i < p.df →
          WidthOk S p sl' f (S.child lo hi p.df i).1 (S.child lo hi p.df i).2 := by
        rcases hw with hw | hw
        · omega
        · exact hw
      obtain ⟨i, hb, hi', hin, hothers⟩ := hw'.1.bucket x h1 h2
      rw [if_pos hc, if_pos hc', updEl_succ_div, hb]
      simp only []
      rw [kid_buildKids A S p sl f lo hi i hi', ih _ _ hin.1 hin.2 (hw'.2 i hi'),
        set_buildKids A S p sl sl' x hout f lo hi i hw'.2 hothers, hl]
    · have hc' : ¬ (slRange sl' lo hi).length > p.thr := by omega
      rw [if_neg hc, if_neg hc']
      unfold mkLeaf
      rw [updEl_succ_leaf]
      rfl

/-- a sub-range holds at most as many elements as a range containing it -/
theorem slRange_len_mono (sl : List Elem) (a b lo hi : Nat) (h1 : lo ≤ a) (h2 : b ≤ hi) :
    (slRange sl a b).length ≤ (slRange sl lo hi).length := by
  simp only [slRange_eq]
  induction sl with
  | nil => simp
  | cons e es ih =>
    simp only [List.filter_cons]
    by_cases hin : inR a b e = true
    · have : inR lo hi e = true := by
        have := inR_true.mp hin
        exact inR_true.mpr ⟨by omega, by omega⟩
      simp [hin, this, ih]
    · have hf : inR a b e = false := by
        cases h : inR a b e
        · rfl
        · exact absurd h hin
      rw [hf]
      simp only [Bool.false_eq_true, if_false]
      split
      · simp only [List.length_cons]; omega
      · exact ih

/-- removal: the result is the canonical subtree of the new contents, and the merge loop is still
active exactly when that subtree is an undivided range. `WidthOk` is needed for the OLD contents. -/
theorem rmEl_build {D} (A : DigAlg D) (S : Splitter) (p : Params) (sl sl' : List Elem) (x : Nat)
    (hout : OnlyAt x sl sl')
    (hlen : ∀ a b, a ≤ x → x ≤ b → (slRange sl' a b).length + 1 = (slRange sl a b).length)
    (hle : ∀ a b, (slRange sl' a b).length ≤ (slRange sl a b).length) :
    ∀ fuel lo hi, lo ≤ x → x ≤ hi → WidthOk S p sl fuel lo hi →
      rmEl A S p sl' x fuel (build A S p sl fuel lo hi) lo hi
        = (build A S p sl' fuel lo hi, decide ((slRange sl' lo hi).length ≤ p.thr)) := by
  intro fuel
  induction fuel with
  | zero =>
    intro lo hi h1 h2 hw
    have hl := hlen lo hi h1 h2
    simp only [WidthOk] at hw
    have hc : ¬ (slRange sl lo hi).length > p.thr := by omega
    have hc' : ¬ (slRange sl' lo hi).length > p.thr := by omega
    have hd : (slRange sl' lo hi).length ≤ p.thr := by omega
    rw [build_zero, build_zero, if_neg hc, if_neg hc']
    unfold mkLeaf
    rw [rmEl_zero_leaf]
    simp [mkLeaf, hd]
  | succ f ih =>
    intro lo hi h1 h2 hw
    have hl := hlen lo hi h1 h2
    rw [build_succ, build_succ]
    by_cases hc : (slRange sl lo hi).length > p.thr
    · have hw' : SplitOk S p.df lo hi ∧ ∀ i, i < p.df →
          WidthOk S p sl f (S.child lo hi p.df i).1 (S.child lo hi p.df i).2 := by
        rcases hw with hw | hw
        · omega
        · exact hw
      obtain ⟨i, hb, hi', hin, hothers⟩ := hw'.1.bucket x h1 h2
      rw [if_pos hc, rmEl_succ_div, hb]
      simp only []
      rw [kid_buildKids A S p sl f lo hi i hi', ih _ _ hin.1 hin.2 (hw'.2 i hi')]
      by_cases hc' : (slRange sl' lo hi).length > p.thr
      · -- still divided: no merge
        have hcond : (decide ((slRange sl' (S.child lo hi p.df i).1 (S.child lo hi p.df i).2).length ≤ p.thr)
            && decide ((slRange sl lo hi).length - 1 ≤ p.thr)) = false := by
          have : ¬ ((slRange sl lo hi).length - 1 ≤ p.thr) := by omega
          simp [this]
        rw [hcond, if_pos hc']
        simp only [Bool.false_eq_true, if_false]
        have hws : ∀ j, j < p.df →
            WidthOk S p sl' f (S.child lo hi p.df j).1 (S.child lo hi p.df j).2 := by
          intro j hj
          exact widthOk_mono S p sl sl' hle f _ _ (hw'.2 j hj)
        rw [set_buildKids A S p sl sl' x hout f lo hi i hws hothers]
        have hd : ¬ ((slRange sl' lo hi).length ≤ p.thr) := by omega
        have hcnt : (slRange sl lo hi).length - 1 = (slRange sl' lo hi).length := by omega
        simp [hd, hcnt]
      · -- dropped to the threshold: merged
        have hsub := hw'.1.sub i hi'
        have hm := slRange_len_mono sl' _ _ lo hi hsub.1 hsub.2
        have hcond : (decide ((slRange sl' (S.child lo hi p.df i).1 (S.child lo hi p.df i).2).length ≤ p.thr)
            && decide ((slRange sl lo hi).length - 1 ≤ p.thr)) = true := by
          have h1' : (slRange sl' (S.child lo hi p.df i).1 (S.child lo hi p.df i).2).length ≤ p.thr := by omega
          have h2' : (slRange sl lo hi).length - 1 ≤ p.thr := by omega
          simp [h1', h2']
        rw [hcond, if_neg hc']
        have hd : (slRange sl' lo hi).length ≤ p.thr := by omega
        simp [hd]
    · have hc' : ¬ (slRange sl' lo hi).length > p.thr := by omega
      have hd : (slRange sl' lo hi).length ≤ p.thr := by omega
      rw [if_neg hc, if_neg hc']
      unfold mkLeaf
      rw [rmEl_succ_leaf]
      simp [mkLeaf, hd]

end AnySync.Ldiff
