import AnySyncModel.Ldiff.DiffLemmas
/-! What a canonical index answers to a range query (`diff.getRange`). -/
namespace AnySync.Ldiff

section ans
variable {D : Type} (A : DigAlg D) (S : Splitter) (p : Params)

/-- the hash of an answer about contents `sl` over `[lo,hi]`: the elements digest (no node), the
digest of a canonical subtree (a node), or the digest of the top range -/
inductive IsDigest (sl : List Elem) (lo hi : Nat) : Option D → Prop
  | elems : IsDigest sl lo hi (elemsHash A (slRange sl lo hi))
  | node (g : Nat) (hw : WidthOk S p sl g lo hi) : IsDigest sl lo hi (build A S p sl g lo hi).hash
  | top (hlo : lo = 0) (hhi : hi = M - 1) (hok : TopOk S p sl) :
      IsDigest sl lo hi (kidsHash A (buildKids A S p sl depthFuel 0 (M - 1)))

/-- **equal answer hashes, equal contents of the range** (branch 1 of `compareResults` is sound) -/
theorem digest_inj (hA : DigOk A) (a b : List Elem) (lo hi : Nat) (h : Option D)
    (ha : IsDigest A S p a lo hi h) (hb : IsDigest A S p b lo hi h) :
    ∀ x, x ∈ pairs (slRange a lo hi) ↔ x ∈ pairs (slRange b lo hi) := by
  intro x
  cases ha with
  | elems =>
    generalize hq : elemsHash A (slRange a lo hi) = q at hb
    cases hb with
    | elems => rw [elemsHash_inj A hA _ _ hq]
    | node g hw => rw [elems_vs_node_inj A S p hA a b g lo hi lo hi hw hq]
    | top _ _ _ => exact absurd hq (elems_ne_divided A hA _ _)
  | node g hw =>
    generalize hq : (build A S p a g lo hi).hash = q at hb
    cases hb with
    | elems => rw [← elems_vs_node_inj A S p hA b a g lo hi lo hi hw hq.symm]
    | node g' hw' => exact build_hash_inj A S p hA a b g g' lo hi lo hi hw hw' hq x
    | top hlo hhi hok =>
      subst hlo; subst hhi
      rcases build_cases A S p a g 0 (M - 1) hw with ⟨_, hb'⟩ | ⟨g1, _, _, hb', hs, hwk⟩
      · rw [hb'] at hq
        exact absurd hq (elems_ne_divided A hA _ _)
      · rw [hb'] at hq
        exact kids_match A S p hA a b g1 depthFuel 0 (M - 1) 0 (M - 1) hs hok.1 hwk hok.2
          (fun i j hid hj he => build_hash_inj A S p hA a b g1 depthFuel _ _ _ _ (hwk i hid) (hok.2 j hj) he) hq x
  | top hlo hhi hok =>
    subst hlo; subst hhi
    generalize hq : kidsHash A (buildKids A S p a depthFuel 0 (M - 1)) = q at hb
    cases hb with
    | elems => exact absurd hq.symm (elems_ne_divided A hA _ _)
    | node g' hw' =>
      rcases build_cases A S p b g' 0 (M - 1) hw' with ⟨_, hb'⟩ | ⟨g1, _, _, hb', hs, hwk⟩
      · rw [hb'] at hq
        exact absurd hq.symm (elems_ne_divided A hA _ _)
      · rw [hb'] at hq
        exact kids_match A S p hA a b depthFuel g1 0 (M - 1) 0 (M - 1) hok.1 hs hok.2 hwk
          (fun i j hid hj he => build_hash_inj A S p hA a b depthFuel g1 _ _ _ _ (hok.2 i hid) (hwk j hj) he) hq x
    | top _ _ hok' =>
      exact kids_match A S p hA a b depthFuel depthFuel 0 (M - 1) 0 (M - 1) hok.1 hok'.1 hok.2 hok'.2
        (fun i j hid hj he => build_hash_inj A S p hA a b depthFuel depthFuel _ _ _ _ (hok.2 i hid) (hok'.2 j hj) he) hq x

/-! ### `findNode` on canonical trees -/

theorem findNode_zero (df qlo qhi : Nat) (t : Tree D) (lo hi : Nat) :
    findNode S df qlo qhi 0 t lo hi =
      if lo = qlo ∧ hi = qhi then
        match t with
        | .leaf c h => some (c, h)
        | .div c h _ => some (c, h)
        | .stuck => none
      else none := rfl

theorem findNode_succ_leaf (df qlo qhi f c : Nat) (h : Option D) (lo hi : Nat) :
    findNode S df qlo qhi (f + 1) (.leaf c h) lo hi =
      if lo = qlo ∧ hi = qhi then some (c, h) else none := rfl

theorem findNode_succ_div (df qlo qhi f c : Nat) (h : Option D) (kids : List (Tree D)) (lo hi : Nat) :
    findNode S df qlo qhi (f + 1) (.div c h kids) lo hi =
      if lo = qlo ∧ hi = qhi then some (c, h)
      else if lo ≤ qlo ∧ qhi ≤ hi ∧ qlo ≤ qhi then
        match S.bucket lo hi df qlo with
        | none => none
        | some i => findNode S df qlo qhi f (kid kids i) (S.child lo hi df i).1 (S.child lo hi df i).2
      else none := rfl

/-- a node found in a canonical subtree is the canonical subtree of its own range: its count is
the number of elements of the range and its hash is that subtree's digest -/
theorem findNode_build (sl : List Elem) (qlo qhi : Nat) :
    ∀ fuel g lo hi c h, WidthOk S p sl g lo hi →
      findNode S p.df qlo qhi fuel (build A S p sl g lo hi) lo hi = some (c, h) →
      c = (slRange sl qlo qhi).length ∧
        ∃ g', WidthOk S p sl g' qlo qhi ∧ h = (build A S p sl g' qlo qhi).hash := by
  intro fuel
  induction fuel with
  | zero =>
    intro g lo hi c h hw hf
    rw [findNode_zero] at hf
    split at hf
    · rename_i heq
      obtain ⟨rfl, rfl⟩ := heq
      rcases build_cases A S p sl g lo hi hw with ⟨_, hb⟩ | ⟨g1, _, _, hb, _, _⟩
      · rw [hb] at hf
        simp only [mkLeaf, Option.some.injEq, Prod.mk.injEq] at hf
        exact ⟨hf.1.symm, g, hw, by rw [hb]; exact hf.2.symm⟩
      · rw [hb] at hf
        simp only [Option.some.injEq, Prod.mk.injEq] at hf
        exact ⟨hf.1.symm, g, hw, by rw [hb]; exact hf.2.symm⟩
    · cases hf
  | succ f ih =>
    intro g lo hi c h hw hf
    rcases build_cases A S p sl g lo hi hw with ⟨_, hb⟩ | ⟨g1, _, _, hb, hs, hwk⟩
    · rw [hb] at hf
      unfold mkLeaf at hf
      rw [findNode_succ_leaf] at hf
      split at hf
      · rename_i heq
        obtain ⟨rfl, rfl⟩ := heq
        simp only [Option.some.injEq, Prod.mk.injEq] at hf
        exact ⟨hf.1.symm, g, hw, by rw [hb]; exact hf.2.symm⟩
      · cases hf
    · rw [hb, findNode_succ_div] at hf
      split at hf
      · rename_i heq
        obtain ⟨rfl, rfl⟩ := heq
        simp only [Option.some.injEq, Prod.mk.injEq] at hf
        exact ⟨hf.1.symm, g, hw, by rw [hb]; exact hf.2.symm⟩
      · split at hf
        · rename_i hin
          obtain ⟨i, hbk, hid, _, _⟩ := hs.bucket qlo hin.1 (by omega)
          rw [hbk] at hf
          simp only [] at hf
          rw [kid_buildKids A S p sl g1 lo hi i hid] at hf
          exact ih g1 _ _ c h (hwk i hid) hf
        · cases hf

/-- `getRange` by cases on the node lookup -/
theorem getRange_eq (ix : Index D) (lo hi : Nat) (w : Bool) :
    ix.getRange A S lo hi w =
      match findNode S ix.p.df lo hi (depthFuel + 1) ix.top 0 (M - 1) with
      | some (c, h) =>
        if w then ⟨h, pairs (slRange ix.sl lo hi), (slRange ix.sl lo hi).length⟩ else ⟨h, [], c⟩
      | none => ⟨elemsHash A (slRange ix.sl lo hi), pairs (slRange ix.sl lo hi), (slRange ix.sl lo hi).length⟩ := rfl

theorem widthOk_split (sl : List Elem) (g lo hi : Nat) (hw : WidthOk S p sl g lo hi)
    (hc : Div S p sl lo hi) : SplitOk S p.df lo hi := by
  cases g with
  | zero => simp only [WidthOk] at hw; exact absurd hc hw
  | succ g =>
    rcases hw with h | h
    · exact absurd hc h
    · exact h.1

/-- what an answer of a canonical index looks like -/
structure AnsOk (sl : List Elem) (lo hi : Nat) (w : Bool) (r : RangeRes D) : Prop where
  dig : IsDigest A S p sl lo hi r.hash
  count : r.count = (slRange sl lo hi).length
  elems : r.elems = pairs (slRange sl lo hi) ∨
    (w = false ∧ r.elems = [] ∧ (Div S p sl lo hi → SplitOk S p.df lo hi))

theorem slRange_all (sl : List Elem) (hlt : ∀ e, e ∈ sl → e.hash < M) : slRange sl 0 (M - 1) = sl := by
  unfold slRange
  apply List.filter_eq_self.mpr
  intro e he
  have := hlt e he
  simp only [Nat.zero_le, decide_true, Bool.true_and, decide_eq_true_eq]
  omega

/-- **every answer of a canonical index is well-formed**: its hash is a digest of the range's
contents, its count is exact, and it carries either all elements or (for a node, when elements
were not requested) none -/
theorem getRange_canon (sl : List Elem) (hok : TopOk S p sl) (hlt : ∀ e, e ∈ sl → e.hash < M)
    (lo hi : Nat) (w : Bool) :
    AnsOk A S p sl lo hi w ((canon A S p sl).getRange A S lo hi w) := by
  rw [getRange_eq]
  show AnsOk A S p sl lo hi w
    (match findNode S p.df lo hi (depthFuel + 1) (buildTop A S p sl) 0 (M - 1) with
      | some (c, h) =>
        if w then ⟨h, pairs (slRange sl lo hi), (slRange sl lo hi).length⟩ else ⟨h, [], c⟩
      | none => ⟨elemsHash A (slRange sl lo hi), pairs (slRange sl lo hi), (slRange sl lo hi).length⟩)
  cases hfn : findNode S p.df lo hi (depthFuel + 1) (buildTop A S p sl) 0 (M - 1) with
  | none => exact ⟨IsDigest.elems, rfl, Or.inl rfl⟩
  | some ch =>
    obtain ⟨c, h⟩ := ch
    -- facts about the found node
    have hnode : c = (slRange sl lo hi).length ∧ IsDigest A S p sl lo hi h ∧
        (Div S p sl lo hi → SplitOk S p.df lo hi) := by
      unfold buildTop at hfn
      rw [findNode_succ_div] at hfn
      split at hfn
      · rename_i heq
        obtain ⟨rfl, rfl⟩ := heq
        simp only [Option.some.injEq, Prod.mk.injEq] at hfn
        refine ⟨?_, ?_, fun _ => hok.1⟩
        · rw [slRange_all sl hlt]; exact hfn.1.symm
        · rw [← hfn.2]; exact IsDigest.top rfl rfl hok
      · split at hfn
        · rename_i hin
          obtain ⟨i, hbk, hid, _, _⟩ := hok.1.bucket lo hin.1 (by omega)
          rw [hbk] at hfn
          simp only [] at hfn
          rw [kid_buildKids A S p sl depthFuel 0 (M - 1) i hid] at hfn
          obtain ⟨hc, g', hw', hh⟩ := findNode_build A S p sl lo hi depthFuel depthFuel _ _ c h (hok.2 i hid) hfn
          exact ⟨hc, by rw [hh]; exact IsDigest.node g' hw', fun hgt => widthOk_split S p sl g' lo hi hw' hgt⟩
        · cases hfn
    cases w with
    | true => exact ⟨hnode.2.1, rfl, Or.inl rfl⟩
    | false => exact ⟨hnode.2.1, hnode.1, Or.inr ⟨rfl, rfl, hnode.2.2⟩⟩

end ans

end AnySync.Ldiff
