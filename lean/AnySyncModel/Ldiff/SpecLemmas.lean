import AnySyncModel.Ldiff.Answers
/-! Membership characterisations of the specification lists, locality (a range's spec lists are
the global ones restricted to the range) and emptiness on ranges with equal contents. -/
namespace AnySync.Ldiff

/-! ### `lookupHead` on lists with distinct ids -/

theorem lookup_some_mem {l : List (Nat × Nat)} {id h : Nat} (hl : lookupHead l id = some h) :
    (id, h) ∈ l := by
  unfold lookupHead at hl
  cases hf : l.find? (fun e => e.1 == id) with
  | none => rw [hf] at hl; cases hl
  | some e =>
    rw [hf] at hl
    simp only [Option.map_some, Option.some.injEq] at hl
    have hm := List.mem_of_find?_eq_some hf
    have hp := List.find?_some hf
    simp only [beq_iff_eq] at hp
    obtain ⟨e1, e2⟩ := e
    simp only at hp hl
    subst hp; subst hl
    exact hm

theorem lookup_none_iff {l : List (Nat × Nat)} {id : Nat} :
    lookupHead l id = none ↔ ∀ h, (id, h) ∉ l := by
  unfold lookupHead
  simp only [Option.map_eq_none_iff, List.find?_eq_none, beq_iff_eq]
  constructor
  · intro h hh hm; exact h _ hm rfl
  · intro h e he heq
    obtain ⟨e1, e2⟩ := e
    simp only at heq
    subst heq
    exact h e2 he

theorem pair_unique {l : List (Nat × Nat)} (hn : (l.map (·.1)).Nodup) {id h h' : Nat}
    (hm : (id, h) ∈ l) (hm' : (id, h') ∈ l) : h = h' := by
  induction l with
  | nil => cases hm
  | cons x xs ih =>
    simp only [List.map_cons, List.nodup_cons] at hn
    rcases List.mem_cons.mp hm with h1 | h1 <;> rcases List.mem_cons.mp hm' with h2 | h2
    · exact (Prod.mk.inj (h1.trans h2.symm)).2
    · exact absurd (List.mem_map_of_mem (f := (·.1)) h2) (by rw [← h1] at hn; exact hn.1)
    · exact absurd (List.mem_map_of_mem (f := (·.1)) h1) (by rw [← h2] at hn; exact hn.1)
    · exact ih hn.2 h1 h2

theorem lookup_some_iff {l : List (Nat × Nat)} (hn : (l.map (·.1)).Nodup) {id h : Nat} :
    lookupHead l id = some h ↔ (id, h) ∈ l := by
  constructor
  · exact lookup_some_mem
  · intro hm
    cases hl : lookupHead l id with
    | none => exact absurd hm (lookup_none_iff.mp hl h)
    | some h' => rw [pair_unique hn hm (lookup_some_mem hl)]

/-! ### membership in the specification lists -/

theorem mem_specNew {my other : List (Nat × Nat)} {id : Nat} :
    id ∈ specNew my other ↔ (∃ h, (id, h) ∈ other) ∧ ∀ h, (id, h) ∉ my := by
  unfold specNew
  simp only [List.mem_map, List.mem_filter, Option.isNone_iff_eq_none, lookup_none_iff]
  constructor
  · rintro ⟨⟨i, h⟩, ⟨hm, hn⟩, rfl⟩; exact ⟨⟨h, hm⟩, hn⟩
  · rintro ⟨⟨h, hm⟩, hn⟩; exact ⟨(id, h), ⟨hm, hn⟩, rfl⟩

theorem mem_specRemoved {my other : List (Nat × Nat)} {id : Nat} :
    id ∈ specRemoved my other ↔ (∃ h, (id, h) ∈ my) ∧ ∀ h, (id, h) ∉ other := by
  unfold specRemoved
  simp only [List.mem_map, List.mem_filter, Option.isNone_iff_eq_none, lookup_none_iff]
  constructor
  · rintro ⟨⟨i, h⟩, ⟨hm, hn⟩, rfl⟩; exact ⟨⟨h, hm⟩, hn⟩
  · rintro ⟨⟨h, hm⟩, hn⟩; exact ⟨(id, h), ⟨hm, hn⟩, rfl⟩

/-- the three "changed" lists, uniformly: ids on both sides whose heads satisfy `rel other my` -/
theorem mem_specFilter {my other : List (Nat × Nat)} (hno : (other.map (·.1)).Nodup)
    (rel : Nat → Nat → Bool) {id : Nat} :
    id ∈ (my.filter (filterRel other rel)).map (·.1)
      ↔ ∃ h h', (id, h) ∈ my ∧ (id, h') ∈ other ∧ rel h' h = true := by
  simp only [List.mem_map, List.mem_filter]
  constructor
  · rintro ⟨⟨i, h⟩, ⟨hm, hr⟩, rfl⟩
    unfold filterRel at hr
    simp only at hr
    cases hl : lookupHead other i with
    | none => rw [hl] at hr; cases hr
    | some h' => rw [hl] at hr; exact ⟨h, h', hm, lookup_some_mem hl, hr⟩
  · rintro ⟨h, h', hm, hm', hr⟩
    refine ⟨(id, h), ⟨hm, ?_⟩, rfl⟩
    unfold filterRel
    simp only [(lookup_some_iff hno).mpr hm', hr]

theorem nodup_filter_fst (l : List (Nat × Nat)) (q : Nat × Nat → Bool) (hn : (l.map (·.1)).Nodup) :
    ((l.filter q).map (·.1)).Nodup :=
  List.Nodup.sublist (List.filter_sublist.map _) hn

end AnySync.Ldiff
