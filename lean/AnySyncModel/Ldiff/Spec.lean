import AnySyncModel.Ldiff.Model
/-!
Specification vocabulary for C07 / C08: the contents of an index as a finite map id ↦ head
(an association list with distinct ids), the naive set difference, and the canonical index
(what `New(df,thr)` followed by ONE `Set(all…)` builds).
-/
namespace AnySync.Ldiff

/-- the property's right-hand side, on two `(id, head)` lists with distinct ids -/
structure SpecDiff where
  newIds : List Nat
  changed : List Nat
  theirChanged : List Nat
  removed : List Nat
deriving DecidableEq, Repr

/-- ids only in `other` -/
def specNew (my other : List (Nat × Nat)) : List Nat :=
  (other.filter fun e => (lookupHead my e.1).isNone).map (·.1)

/-- ids only in `my` -/
def specRemoved (my other : List (Nat × Nat)) : List Nat :=
  (my.filter fun e => (lookupHead other e.1).isNone).map (·.1)

/-- `e` of `my` is on both sides and the heads satisfy `rel otherHead myHead` -/
def filterRel (other : List (Nat × Nat)) (rel : Nat → Nat → Bool) (e : Nat × Nat) : Bool :=
  match lookupHead other e.1 with
  | some h => rel h e.2
  | none => false

def relNe (h h' : Nat) : Bool := decide (h ≠ h')
def relOur (h h' : Nat) : Bool := decide (h ≠ h' ∧ ¬ h > h')
def relTheir (h h' : Nat) : Bool := decide (h ≠ h' ∧ h > h')

/-- ids on both sides with different heads (`Diff`) -/
def specChanged (my other : List (Nat × Nat)) : List Nat :=
  (my.filter (filterRel other relNe)).map (·.1)

/-- … split by which head is greater (`CompareDiff`): ours is not smaller -/
def specOurChanged (my other : List (Nat × Nat)) : List Nat :=
  (my.filter (filterRel other relOur)).map (·.1)

/-- … theirs is greater -/
def specTheirChanged (my other : List (Nat × Nat)) : List Nat :=
  (my.filter (filterRel other relTheir)).map (·.1)

/-- the canonical index for a sorted element list -/
def canon {D} (A : DigAlg D) (S : Splitter) (p : Params) (sl : List Elem) : Index D := ⟨p, sl, buildTop A S p sl⟩

/-- operations of a history: `Set` of one element (new or existing id; `Set(e₁,…,eₙ)` is the
sequence of its elements, `Index.set`) and `RemoveId` -/
inductive Op where
  | set1 (e : Elem)
  | remove (id hash : Nat)

def Index.step {D} (A : DigAlg D) (S : Splitter) (ix : Index D) : Op → Index D
  | .set1 e => ix.set1 A S e
  | .remove id h => (ix.remove A S id h).getD ix

def Index.run {D} (A : DigAlg D) (S : Splitter) (ix : Index D) (ops : List Op) : Index D :=
  ops.foldl (Index.step A S) ix

/-- the skip list as a pure function of the history (no tree involved) -/
def slStep (sl : List Elem) : Op → List Elem
  | .set1 e => slInsert e (slRemove e.id sl)
  | .remove id _ => slRemove id sl

def slRun (sl : List Elem) (ops : List Op) : List Elem := ops.foldl slStep sl

/-- ids determine hashes (`hf` = xxhash64), hashes are 64-bit -/
def Op.Wf (hf : Nat → Nat) : Op → Prop
  | .set1 e => e.hash = hf e.id ∧ e.hash < M
  | .remove id h => h = hf id ∧ h < M

/-- the skip-list invariant: ids determine hashes, ids are distinct -/
structure SlWf (hf : Nat → Nat) (sl : List Elem) : Prop where
  hash : ∀ e, e ∈ sl → e.hash = hf e.id ∧ e.hash < M
  nodup : (sl.map (·.id)).Nodup

/-- a concrete injective digest algebra for `decide`-checked witnesses: a digest is its own
preimage, flattened to naturals (tag, length, payload) -/
def exAlg : DigAlg (List Nat) where
  hE := fun l => 0 :: l.length :: l.flatMap fun e => [e.1, e.2]
  hN := fun l => 1 :: l.length :: l.flatMap fun d => d.length :: d

end AnySync.Ldiff
