import AnySyncModel.Ldiff.SpecLemmas
/-! Exactness of the diff rounds: invariant over the pending ranges. -/
namespace AnySync.Ldiff

/-- the four reported lists -/
inductive Kind where
  | new | ch | th | rm
deriving DecidableEq

def DCtx.get (c : DCtx) : Kind → List Nat
  | .new => c.newIds | .ch => c.changed | .th => c.theirChanged | .rm => c.removed

/-- what each list must contain, per variant (`greater = true`: CompareDiff) -/
def specK (greater : Bool) : Kind → List (Nat × Nat) → List (Nat × Nat) → List Nat
  | .new => specNew
  | .ch => if greater then specOurChanged else specChanged
  | .th => if greater then specTheirChanged else fun _ _ => []
  | .rm => specRemoved

theorem cmpEls_get (g : Bool) (c : DCtx) (my other : List (Nat × Nat)) (k : Kind) :
    (cmpEls g c my other).get k = c.get k ++ specK g k my other ∧
    (cmpEls g c my other).prepare = c.prepare := by
  cases g
  · simp only [cmpEls, Bool.false_eq_true, if_false, cmpEqual_exact]
    cases k <;> simp [DCtx.get, specK]
  · simp only [cmpEls, if_true, cmpGreater_exact]
    cases k <;> simp [DCtx.get, specK]

/-! ### locality -/

theorem pairs_fst (sl : List Elem) : (pairs sl).map (·.1) = sl.map (·.id) := by
  simp [pairs, List.map_map, Function.comp_def]

theorem mem_pairs_range (hf : Nat → Nat) (sl : List Elem) (hw : ∀ e, e ∈ sl → e.hash = hf e.id)
    (lo hi id h : Nat) :
    (id, h) ∈ pairs (slRange sl lo hi) ↔ (id, h) ∈ pairs sl ∧ lo ≤ hf id ∧ hf id ≤ hi := by
  simp only [pairs, List.mem_map, Prod.mk.injEq]
  constructor
  · rintro ⟨e, he, rfl, rfl⟩
    have hm := mem_slRange.mp he
    rw [← hw e hm.1]
    exact ⟨⟨e, hm.1, rfl, rfl⟩, hm.2.1, hm.2.2⟩
  · rintro ⟨⟨e, he, rfl, rfl⟩, h1, h2⟩
    rw [← hw e he] at h1 h2
    exact ⟨e, mem_slRange.mpr ⟨he, h1, h2⟩, rfl, rfl⟩

theorem nodup_pairs_range (sl : List Elem) (hn : (sl.map (·.id)).Nodup) (lo hi : Nat) :
    ((pairs (slRange sl lo hi)).map (·.1)).Nodup := by
  rw [pairs_fst]
  exact List.Nodup.sublist ((slRange_sub sl lo hi).map _) hn

section loc
variable (hf : Nat → Nat) (a b : List Elem)
  (ha : ∀ e, e ∈ a → e.hash = hf e.id) (hb : ∀ e, e ∈ b → e.hash = hf e.id)
  (hna : (a.map (·.id)).Nodup) (hnb : (b.map (·.id)).Nodup)
include ha hb hna hnb

/-- **locality**: the specification lists of a range are the global ones restricted to the range -/
theorem specK_local (g : Bool) (k : Kind) (lo hi id : Nat) :
    id ∈ specK g k (pairs (slRange a lo hi)) (pairs (slRange b lo hi)) ↔
      id ∈ specK g k (pairs a) (pairs b) ∧ lo ≤ hf id ∧ hf id ≤ hi := by
  have hnb' : ((pairs b).map (·.1)).Nodup := by rw [pairs_fst]; exact hnb
  have hnbr := nodup_pairs_range b hnb lo hi
  have hfilter : ∀ rel : Nat → Nat → Bool,
      (id ∈ ((pairs (slRange a lo hi)).filter (filterRel (pairs (slRange b lo hi)) rel)).map (·.1)) ↔
      (id ∈ ((pairs a).filter (filterRel (pairs b) rel)).map (·.1)) ∧
        lo ≤ hf id ∧ hf id ≤ hi := by
    intro rel
    rw [mem_specFilter hnbr rel, mem_specFilter hnb' rel]
    constructor
    · rintro ⟨h, h', h1, h2, hr⟩
      have e1 := (mem_pairs_range hf a ha lo hi id h).mp h1
      have e2 := (mem_pairs_range hf b hb lo hi id h').mp h2
      exact ⟨⟨h, h', e1.1, e2.1, hr⟩, e1.2⟩
    · rintro ⟨⟨h, h', h1, h2, hr⟩, hin⟩
      exact ⟨h, h', (mem_pairs_range hf a ha lo hi id h).mpr ⟨h1, hin⟩,
        (mem_pairs_range hf b hb lo hi id h').mpr ⟨h2, hin⟩, hr⟩
  cases k with
  | new =>
    simp only [specK, mem_specNew, mem_pairs_range hf a ha, mem_pairs_range hf b hb]
    constructor
    · rintro ⟨⟨h, hm, hin⟩, hno⟩
      exact ⟨⟨⟨h, hm⟩, fun h' hm' => hno h' ⟨hm', hin⟩⟩, hin⟩
    · rintro ⟨⟨⟨h, hm⟩, hno⟩, hin⟩
      exact ⟨⟨h, hm, hin⟩, fun h' hm' => hno h' hm'.1⟩
  | rm =>
    simp only [specK, mem_specRemoved, mem_pairs_range hf a ha, mem_pairs_range hf b hb]
    constructor
    · rintro ⟨⟨h, hm, hin⟩, hno⟩
      exact ⟨⟨⟨h, hm⟩, fun h' hm' => hno h' ⟨hm', hin⟩⟩, hin⟩
    · rintro ⟨⟨⟨h, hm⟩, hno⟩, hin⟩
      exact ⟨⟨h, hm, hin⟩, fun h' hm' => hno h' hm'.1⟩
  | ch =>
    cases g
    · simp only [specK, Bool.false_eq_true, if_false, specChanged]; exact hfilter _
    · simp only [specK, if_true, specOurChanged]; exact hfilter _
  | th =>
    cases g
    · simp [specK]
    · simp only [specK, if_true, specTheirChanged]; exact hfilter _

theorem specK_nodup (g : Bool) (k : Kind) (lo hi : Nat) :
    (specK g k (pairs (slRange a lo hi)) (pairs (slRange b lo hi))).Nodup := by
  have hnar := nodup_pairs_range a hna lo hi
  have hnbr := nodup_pairs_range b hnb lo hi
  cases k with
  | new => exact nodup_filter_fst _ _ hnbr
  | rm => exact nodup_filter_fst _ _ hnar
  | ch =>
    cases g
    · simp only [specK, Bool.false_eq_true, if_false]; exact nodup_filter_fst _ _ hnar
    · simp only [specK, if_true]; exact nodup_filter_fst _ _ hnar
  | th =>
    cases g
    · simp [specK]
    · simp only [specK, if_true]; exact nodup_filter_fst _ _ hnar

/-- a range whose contents agree on both sides contributes nothing -/
theorem specK_equal_contents (g : Bool) (k : Kind) (lo hi : Nat)
    (heq : ∀ x, x ∈ pairs (slRange a lo hi) ↔ x ∈ pairs (slRange b lo hi)) (id : Nat) :
    id ∉ specK g k (pairs (slRange a lo hi)) (pairs (slRange b lo hi)) := by
  have hnbr := nodup_pairs_range b hnb lo hi
  have hfilter : ∀ rel : Nat → Nat → Bool, (∀ x y, rel x y = true → x ≠ y) →
      id ∉ ((pairs (slRange a lo hi)).filter (filterRel (pairs (slRange b lo hi)) rel)).map (·.1) := by
    intro rel hrel hm
    obtain ⟨h, h', h1, h2, hr⟩ := (mem_specFilter hnbr rel).mp hm
    have := pair_unique hnbr ((heq _).mp h1) h2
    exact hrel h' h hr this.symm
  cases k with
  | new =>
    simp only [specK, mem_specNew]
    rintro ⟨⟨h, hm⟩, hno⟩
    exact hno h ((heq _).mpr hm)
  | rm =>
    simp only [specK, mem_specRemoved]
    rintro ⟨⟨h, hm⟩, hno⟩
    exact hno h ((heq _).mp hm)
  | ch =>
    cases g
    · simp only [specK, Bool.false_eq_true, if_false, specChanged]
      exact hfilter _ (fun x y h => by simpa [relNe] using h)
    · simp only [specK, if_true, specOurChanged]
      exact hfilter _ (fun x y h => by
        simp only [relOur, decide_eq_true_eq] at h; exact h.1)
  | th =>
    cases g
    · simp [specK]
    · simp only [specK, if_true, specTheirChanged]
      exact hfilter _ (fun x y h => by
        simp only [relTheir, decide_eq_true_eq] at h; exact h.1)

end loc

end AnySync.Ldiff
