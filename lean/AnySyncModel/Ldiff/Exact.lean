import AnySyncModel.Ldiff.SpecLemmas
/-! Exactness of the diff rounds: invariant over the pending ranges. -/
namespace AnySync.Ldiff

/-- the four reported lists -/
inductive Kind where
  | new | ch | th | rm
deriving DecidableEq

def DCtx.get (c : DCtx) : Kind → List Nat
  | .new => c.newIds | .ch => c.changed | .th => c.theirChanged | .rm => c.removed

/-- what each list must contain, per variant (`greater = true`: CompareDiff) -/
def specK (greater : Bool) : Kind → List (Nat × Nat) → List (Nat × Nat) → List Nat
  | .new => specNew
  | .ch => if greater then specOurChanged else specChanged
  | .th => if greater then specTheirChanged else fun _ _ => []
  | .rm => specRemoved

theorem cmpEls_get (g : Bool) (c : DCtx) (my other : List (Nat × Nat)) (k : Kind) :
    (cmpEls g c my other).get k = c.get k ++ specK g k my other ∧
    (cmpEls g c my other).prepare = c.prepare := by
  cases g
  · simp only [cmpEls, Bool.false_eq_true, if_false, cmpEqual_exact]
    cases k <;> simp [DCtx.get, specK]
  · simp only [cmpEls, if_true, cmpGreater_exact]
    cases k <;> simp [DCtx.get, specK]

/-! ### locality -/

theorem pairs_fst (sl : List Elem) : (pairs sl).map (·.1) = sl.map (·.id) := by
  simp [pairs, List.map_map, Function.comp_def]

theorem mem_pairs_range (hf : Nat → Nat) (sl : List Elem) (hw : ∀ e, e ∈ sl → e.hash = hf e.id)
    (lo hi id h : Nat) :
    (id, h) ∈ pairs (slRange sl lo hi) ↔ (id, h) ∈ pairs sl ∧ lo ≤ hf id ∧ hf id ≤ hi := by
  simp only [pairs, List.mem_map, Prod.mk.injEq]
  constructor
  · rintro ⟨e, he, rfl, rfl⟩
    have hm := mem_slRange.mp he
    rw [← hw e hm.1]
    exact ⟨⟨e, hm.1, rfl, rfl⟩, hm.2.1, hm.2.2⟩
  · rintro ⟨⟨e, he, rfl, rfl⟩, h1, h2⟩
    rw [← hw e he] at h1 h2
    exact ⟨e, mem_slRange.mpr ⟨he, h1, h2⟩, rfl, rfl⟩

theorem nodup_pairs_range (sl : List Elem) (hn : (sl.map (·.id)).Nodup) (lo hi : Nat) :
    ((pairs (slRange sl lo hi)).map (·.1)).Nodup := by
  rw [pairs_fst]
  exact List.Nodup.sublist ((slRange_sub sl lo hi).map _) hn

section loc
variable (hf : Nat → Nat) (a b : List Elem)
  (ha : ∀ e, e ∈ a → e.hash = hf e.id) (hb : ∀ e, e ∈ b → e.hash = hf e.id)
  (hna : (a.map (·.id)).Nodup) (hnb : (b.map (·.id)).Nodup)
include ha hb hna hnb

/-- **locality**: the specification lists of a range are the global ones restricted to the range -/
theorem specK_local (g : Bool) (k : Kind) (lo hi id : Nat) :
    id ∈ specK g k (pairs (slRange a lo hi)) (pairs (slRange b lo hi)) ↔
      id ∈ specK g k (pairs a) (pairs b) ∧ lo ≤ hf id ∧ hf id ≤ hi := by
  have hnb' : ((pairs b).map (·.1)).Nodup := by rw [pairs_fst]; exact hnb
  have hnbr := nodup_pairs_range b hnb lo hi
  have hfilter : ∀ rel : Nat → Nat → Bool,
      (id ∈ ((pairs (slRange a lo hi)).filter (filterRel (pairs (slRange b lo hi)) rel)).map (·.1)) ↔
      (id ∈ ((pairs a).filter (filterRel (pairs b) rel)).map (·.1)) ∧
        lo ≤ hf id ∧ hf id ≤ hi := by
    intro rel
    rw [mem_specFilter hnbr rel, mem_specFilter hnb' rel]
    constructor
    · rintro ⟨h, h', h1, h2, hr⟩
      have e1 := (mem_pairs_range hf a ha lo hi id h).mp h1
      have e2 := (mem_pairs_range hf b hb lo hi id h').mp h2
      exact ⟨⟨h, h', e1.1, e2.1, hr⟩, e1.2⟩
    · rintro ⟨⟨h, h', h1, h2, hr⟩, hin⟩
      exact ⟨h, h', (mem_pairs_range hf a ha lo hi id h).mpr ⟨h1, hin⟩,
        (mem_pairs_range hf b hb lo hi id h').mpr ⟨h2, hin⟩, hr⟩
  cases k with
  | new =>
    simp only [specK, mem_specNew, mem_pairs_range hf a ha, mem_pairs_range hf b hb]
    constructor
    · rintro ⟨⟨h, hm, hin⟩, hno⟩
      exact ⟨⟨⟨h, hm⟩, fun h' hm' => hno h' ⟨hm', hin⟩⟩, hin⟩
    · rintro ⟨⟨⟨h, hm⟩, hno⟩, hin⟩
      exact ⟨⟨h, hm, hin⟩, fun h' hm' => hno h' hm'.1⟩
  | rm =>
    simp only [specK, mem_specRemoved, mem_pairs_range hf a ha, mem_pairs_range hf b hb]
    constructor
    · rintro ⟨⟨h, hm, hin⟩, hno⟩
      exact ⟨⟨⟨h, hm⟩, fun h' hm' => hno h' ⟨hm', hin⟩⟩, hin⟩
    · rintro ⟨⟨⟨h, hm⟩, hno⟩, hin⟩
      exact ⟨⟨h, hm, hin⟩, fun h' hm' => hno h' hm'.1⟩
  | ch =>
    cases g
    · simp only [specK, Bool.false_eq_true, if_false, specChanged]; exact hfilter _
    · simp only [specK, if_true, specOurChanged]; exact hfilter _
  | th =>
    cases g
    · simp [specK]
    · simp only [specK, if_true, specTheirChanged]; exact hfilter _

theorem specK_nodup (g : Bool) (k : Kind) (lo hi : Nat) :
    (specK g k (pairs (slRange a lo hi)) (pairs (slRange b lo hi))).Nodup := by
  have hnar := nodup_pairs_range a hna lo hi
  have hnbr := nodup_pairs_range b hnb lo hi
  cases k with
  | new => exact nodup_filter_fst _ _ hnbr
  | rm => exact nodup_filter_fst _ _ hnar
  | ch =>
    cases g
    · simp only [specK, Bool.false_eq_true, if_false]; exact nodup_filter_fst _ _ hnar
    · simp only [specK, if_true]; exact nodup_filter_fst _ _ hnar
  | th =>
    cases g
    · simp [specK]
    · simp only [specK, if_true]; exact nodup_filter_fst _ _ hnar

/-- a range whose contents agree on both sides contributes nothing -/
theorem specK_equal_contents (g : Bool) (k : Kind) (lo hi : Nat)
    (heq : ∀ x, x ∈ pairs (slRange a lo hi) ↔ x ∈ pairs (slRange b lo hi)) (id : Nat) :
    id ∉ specK g k (pairs (slRange a lo hi)) (pairs (slRange b lo hi)) := by
  have hnbr := nodup_pairs_range b hnb lo hi
  have hfilter : ∀ rel : Nat → Nat → Bool, (∀ x y, rel x y = true → x ≠ y) →
      id ∉ ((pairs (slRange a lo hi)).filter (filterRel (pairs (slRange b lo hi)) rel)).map (·.1) := by
    intro rel hrel hm
    obtain ⟨h, h', h1, h2, hr⟩ := (mem_specFilter hnbr rel).mp hm
    have := pair_unique hnbr ((heq _).mp h1) h2
    exact hrel h' h hr this.symm
  cases k with
  | new =>
    simp only [specK, mem_specNew]
    rintro ⟨⟨h, hm⟩, hno⟩
    exact hno h ((heq _).mpr hm)
  | rm =>
    simp only [specK, mem_specRemoved]
    rintro ⟨⟨h, hm⟩, hno⟩
    exact hno h ((heq _).mp hm)
  | ch =>
    cases g
    · simp only [specK, Bool.false_eq_true, if_false, specChanged]
      exact hfilter _ (fun x y h => by simpa [relNe] using h)
    · simp only [specK, if_true, specOurChanged]
      exact hfilter _ (fun x y h => by
        simp only [relOur, decide_eq_true_eq] at h; exact h.1)
  | th =>
    cases g
    · simp [specK]
    · simp only [specK, if_true, specTheirChanged]
      exact hfilter _ (fun x y h => by
        simp only [relTheir, decide_eq_true_eq] at h; exact h.1)

end loc

/-! ### regions and the invariant -/

def Range.has (r : Range) (x : Nat) : Prop := r.lo ≤ x ∧ x ≤ r.hi
def covers (P : List Range) (x : Nat) : Prop := ∃ r, r ∈ P ∧ r.has x
def Disj (r r' : Range) : Prop := ∀ x, ¬ (r.has x ∧ r'.has x)

theorem covers_append (P Q : List Range) (x : Nat) : covers (P ++ Q) x ↔ covers P x ∨ covers Q x := by
  simp only [covers, List.mem_append]
  constructor
  · rintro ⟨r, h | h, hx⟩
    · exact Or.inl ⟨r, h, hx⟩
    · exact Or.inr ⟨r, h, hx⟩
  · rintro (⟨r, h, hx⟩ | ⟨r, h, hx⟩)
    · exact ⟨r, Or.inl h, hx⟩
    · exact ⟨r, Or.inr h, hx⟩

theorem covers_cons (r : Range) (Q : List Range) (x : Nat) : covers (r :: Q) x ↔ r.has x ∨ covers Q x := by
  simp only [covers, List.mem_cons]
  constructor
  · rintro ⟨r', h | h, hx⟩
    · subst h; exact Or.inl hx
    · exact Or.inr ⟨r', h, hx⟩
  · rintro (hx | ⟨r', h, hx⟩)
    · exact ⟨r, Or.inl rfl, hx⟩
    · exact ⟨r', Or.inr h, hx⟩

/-- the invariant of the round loop: every id whose hash lies outside the pending ranges `P` has
been decided exactly, each once; the pending ranges are pairwise disjoint -/
structure Inv (hf : Nat → Nat) (a b : List Elem) (g : Bool) (c : DCtx) (P : List Range) : Prop where
  mem : ∀ k id, id ∈ c.get k ↔ id ∈ specK g k (pairs a) (pairs b) ∧ ¬ covers P (hf id)
  nodup : ∀ k, (c.get k).Nodup
  disj : P.Pairwise Disj

/-- a pending range is decided: its ids are appended -/
theorem inv_decide {hf : Nat → Nat} {a b : List Elem} {g : Bool} {c c' : DCtx} {r : Range} {Q : List Range}
    (N : Kind → List Nat) (hinv : Inv hf a b g c (r :: Q))
    (hget : ∀ k, c'.get k = c.get k ++ N k)
    (hN : ∀ k id, id ∈ N k ↔ id ∈ specK g k (pairs a) (pairs b) ∧ r.has (hf id))
    (hnd : ∀ k, (N k).Nodup) : Inv hf a b g c' Q := by
  have hd := List.pairwise_cons.mp hinv.disj
  have hrq : ∀ x, r.has x → ¬ covers Q x := by
    rintro x hx ⟨r', hr', hx'⟩
    exact hd.1 r' hr' x ⟨hx, hx'⟩
  refine ⟨?_, ?_, hd.2⟩
  · intro k id
    rw [hget k, List.mem_append, hinv.mem k id, hN k id, covers_cons]
    constructor
    · rintro (⟨hs, hc⟩ | ⟨hs, hr⟩)
      · exact ⟨hs, fun h => hc (Or.inr h)⟩
      · exact ⟨hs, hrq _ hr⟩
    · rintro ⟨hs, hc⟩
      by_cases hr : r.has (hf id)
      · exact Or.inr ⟨hs, hr⟩
      · exact Or.inl ⟨hs, fun h => h.elim hr hc⟩
  · intro k
    rw [hget k, List.nodup_append]
    refine ⟨hinv.nodup k, hnd k, ?_⟩
    intro x hx y hy hxy
    subst hxy
    have h1 := ((hinv.mem k x).mp hx).2
    have h2 := ((hN k x).mp hy).2
    exact h1 ((covers_cons r Q _).mpr (Or.inl h2))

/-- a pending range is replaced by ranges covering exactly the same hashes -/
theorem inv_refine {hf : Nat → Nat} {a b : List Elem} {g : Bool} {c c' : DCtx} {r : Range} {Q R : List Range}
    (hinv : Inv hf a b g c (r :: Q)) (hget : ∀ k, c'.get k = c.get k)
    (hR : ∀ x, covers R x ↔ r.has x) (hRd : R.Pairwise Disj) : Inv hf a b g c' (Q ++ R) := by
  have hd := List.pairwise_cons.mp hinv.disj
  refine ⟨?_, ?_, ?_⟩
  · intro k id
    rw [hget k, hinv.mem k id, covers_cons, covers_append, hR]
    constructor
    · rintro ⟨hs, hc⟩; exact ⟨hs, fun h => hc (h.symm)⟩
    · rintro ⟨hs, hc⟩; exact ⟨hs, fun h => hc (h.symm)⟩
  · intro k; rw [hget k]; exact hinv.nodup k
  · rw [List.pairwise_append]
    refine ⟨hd.2, hRd, ?_⟩
    intro q hq r' hr' x hx
    have : r.has x := (hR x).mp ⟨r', hr', hx.2⟩
    exact hd.1 q hq x ⟨this, hx.1⟩

/-- the parts of a well-split range cover it and are pairwise disjoint -/
theorem children_cover (S : Splitter) (df : Nat) (r : Range) (hs : SplitOk S df r.lo r.hi) :
    (∀ x, covers ((genTupleRanges r.lo r.hi df).map fun t => (⟨t.1, t.2, false⟩ : Range)) x ↔ r.has x) ∧
    ((genTupleRanges r.lo r.hi df).map fun t => (⟨t.1, t.2, false⟩ : Range)).Pairwise Disj := by
  rw [hs.gen, List.map_map]
  constructor
  · intro x
    simp only [covers, List.mem_map, List.mem_range, Function.comp, Range.has]
    constructor
    · rintro ⟨r', ⟨i, hi', rfl⟩, hx⟩
      have := hs.sub i hi'
      simp only at hx
      exact ⟨by omega, by omega⟩
    · rintro ⟨h1, h2⟩
      obtain ⟨i, _, hi', hin, _⟩ := hs.bucket x h1 h2
      exact ⟨_, ⟨i, hi', rfl⟩, hin⟩
  · rw [List.pairwise_map]
    have hlt := List.pairwise_lt_range (n := df)
    refine List.Pairwise.imp_of_mem ?_ hlt
    intro i j hi' hj hij x hx
    simp only [Function.comp, Range.has] at hx
    have hi2 : i < df := List.mem_range.mp hi'
    have hj2 : j < df := List.mem_range.mp hj
    have hsub := hs.sub i hi2
    obtain ⟨i', _, _, _, hothers⟩ := hs.bucket x (by omega) (by omega)
    by_cases h1 : i = i'
    · exact hothers j hj2 (by omega) hx.2
    · exact hothers i hi2 h1 hx.1

/-! ### levels of pending ranges (termination measure) -/

/-- the top range -/
def topRange : Range := ⟨0, M - 1, false⟩

/-- level of a pending range: an element request is decided in the next round (level 1); a range
whose remote subtree has depth budget `g` needs at most `g + 2` more rounds; the top range
`depthFuel + 3` -/
def Lvl (S : Splitter) (p : Params) (b : List Elem) (n : Nat) (r : Range) : Prop :=
  (r.els = true ∧ 1 ≤ n) ∨
  (r.els = false ∧ ∃ g, g + 2 ≤ n ∧ WidthOk S p b g r.lo r.hi) ∨
  (r = topRange ∧ depthFuel + 3 ≤ n)

theorem lvl_children (S : Splitter) (p : Params) (b : List Elem) (hokb : TopOk S p b) (m : Nat) (r : Range) (hl : Lvl S p b (m + 1) r) (he : r.els = false)
    (hs : SplitOk S p.df r.lo r.hi) (hgt : Div S p b r.lo r.hi) :
    ∀ r', r' ∈ (genTupleRanges r.lo r.hi p.df).map (fun t => (⟨t.1, t.2, false⟩ : Range)) →
      Lvl S p b m r' := by
  intro r' hr'
  rw [hs.gen, List.map_map] at hr'
  obtain ⟨i, hi', rfl⟩ := List.mem_map.mp hr'
  have hi2 : i < p.df := List.mem_range.mp hi'
  rcases hl with ⟨h1, _⟩ | ⟨_, g, hg, hw⟩ | ⟨rfl, hn⟩
  · rw [he] at h1; cases h1
  · cases g with
    | zero => simp only [WidthOk] at hw; exact absurd hgt hw
    | succ g' =>
      rcases hw with h | h
      · exact absurd hgt h
      · exact Or.inr (Or.inl ⟨rfl, g', by omega, h.2 i hi2⟩)
  · exact Or.inr (Or.inl ⟨rfl, depthFuel, by omega, hokb.2 i hi2⟩)

/-! ### one range of one round -/

theorem wire_id {D} (r : RangeRes D) (h : r.count < 4294967296) : r.wire = r := by
  cases r; simp [RangeRes.wire, Nat.mod_eq_of_lt h]

theorem get_prepare (c : DCtx) (pr : List Range) (k : Kind) :
    ({ c with prepare := pr } : DCtx).get k = c.get k := by cases k <;> rfl

section step
variable {D : Type} [DecidableEq D] (A : DigAlg D) (S : Splitter) (p : Params)

theorem ans_complete {sl : List Elem} {lo hi : Nat} {w : Bool} {r : RangeRes D}
    (h : AnsOk A S p sl lo hi w r) (hc : r.elems.length = r.count) :
    r.elems = pairs (slRange sl lo hi) := by
  rcases h.elems with he | ⟨_, he, _⟩
  · exact he
  · rw [he] at hc ⊢
    rw [h.count] at hc
    have : slRange sl lo hi = [] := List.length_eq_zero_iff.mp hc.symm
    rw [this]; rfl

theorem ans_incomplete {sl : List Elem} {lo hi : Nat} {w : Bool} {r : RangeRes D}
    (h : AnsOk A S p sl lo hi w r) (hc : ¬ r.elems.length = r.count) :
    w = false ∧ r.elems = [] ∧ (Div S p sl lo hi → SplitOk S p.df lo hi) := by
  rcases h.elems with he | h3
  · exfalso; apply hc; rw [he, h.count]; simp [pairs]
  · exact h3

/-- the four outcomes of `compareResults` on well-formed answers -/
theorem compareResults_cases (g : Bool) (a b : List Elem) (hoka : TopOk S p a)
    (hlta : ∀ e, e ∈ a → e.hash < M) (c : DCtx) (r : Range) (m o : RangeRes D)
    (hm : AnsOk A S p a r.lo r.hi r.els m) (ho : AnsOk A S p b r.lo r.hi r.els o) :
    (compareResults A S g (canon A S p a) c r m o = c ∧ m.hash = o.hash) ∨
    (compareResults A S g (canon A S p a) c r m o
      = cmpEls g c (pairs (slRange a r.lo r.hi)) (pairs (slRange b r.lo r.hi))) ∨
    (compareResults A S g (canon A S p a) c r m o
      = { c with prepare := c.prepare ++ [{ r with els := true }] } ∧ r.els = false) ∨
    (compareResults A S g (canon A S p a) c r m o
      = { c with prepare := c.prepare ++
            (genTupleRanges r.lo r.hi p.df).map fun t => (⟨t.1, t.2, false⟩ : Range) } ∧
      SplitOk S p.df r.lo r.hi ∧ r.els = false ∧ Div S p b r.lo r.hi) := by
  unfold compareResults
  by_cases hh : m.hash = o.hash
  · left; rw [if_pos hh]; exact ⟨rfl, hh⟩
  · rw [if_neg hh]
    by_cases hoc : o.elems.length = o.count
    · right; left
      rw [if_pos hoc, ans_complete A S p ho hoc]
      by_cases hmc : m.elems.length = m.count
      · rw [if_pos hmc, ans_complete A S p hm hmc]
      · rw [if_neg hmc]
        have := getRange_canon A S p a hoka hlta r.lo r.hi true
        rcases this.elems with he | ⟨hf, _⟩
        · rw [he]
        · cases hf
    · rw [if_neg hoc]
      obtain ⟨hw, he, hsplit⟩ := ans_incomplete A S p ho hoc
      by_cases hreq : (o.count ≤ (canon A S p a).p.thr ∧ o.elems.length = 0) ∨ m.elems.length = m.count
          ∨ S.wide r.lo r.hi (canon A S p a).p.df = false
      · right; right; left; rw [if_pos hreq]; exact ⟨rfl, hw⟩
      · right; right; right
        rw [if_neg hreq]
        have hcnt : ¬ (o.count ≤ p.thr ∧ o.elems.length = 0) := fun h => hreq (Or.inl h)
        rw [he] at hcnt
        simp only [List.length_nil, and_true] at hcnt
        have hwide : S.wide r.lo r.hi p.df = true := by
          cases hq : S.wide r.lo r.hi p.df with
          | true => rfl
          | false => exact absurd (Or.inr (Or.inr hq)) hreq
        have hgt : Div S p b r.lo r.hi := ⟨by rw [← ho.count]; omega, hwide⟩
        exact ⟨rfl, hsplit hgt, hw, hgt⟩

variable (hf : Nat → Nat) (a b : List Elem) (g wire : Bool)
  (hA : DigOk A) (hwa : SlWf hf a) (hwb : SlWf hf b) (hoka : TopOk S p a) (hokb : TopOk S p b)
  (hsmall : wire = true → b.length < 4294967296)
include hA hwa hwb hoka hokb hsmall

/-- the answer of the remote side, in process or through the wire adapters -/
theorem answer_ok (r : Range) :
    AnsOk A S p b r.lo r.hi r.els (answer A S wire (canon A S p b) r) := by
  have hlt : ∀ e, e ∈ b → e.hash < M := fun e he => (hwb.hash e he).2
  have h := getRange_canon A S p b hokb hlt r.lo r.hi r.els
  unfold answer
  cases wire with
  | false => exact h
  | true =>
    simp only [if_true]
    rw [wire_id]
    · exact h
    · rw [h.count]
      have := (slRange_sub b r.lo r.hi).length_le
      have := hsmall rfl
      omega

/-- **one range**: processing the first pending range preserves the invariant -/
theorem step_inv (c : DCtx) (r : Range) (rest : List Range)
    (hinv : Inv hf a b g c (r :: (rest ++ c.prepare))) :
    Inv hf a b g
      (compareResults A S g (canon A S p a) c r ((canon A S p a).getRange A S r.lo r.hi r.els)
        (answer A S wire (canon A S p b) r))
      (rest ++ (compareResults A S g (canon A S p a) c r ((canon A S p a).getRange A S r.lo r.hi r.els)
        (answer A S wire (canon A S p b) r)).prepare) := by
  have hlta : ∀ e, e ∈ a → e.hash < M := fun e he => (hwa.hash e he).2
  have ha' : ∀ e, e ∈ a → e.hash = hf e.id := fun e he => (hwa.hash e he).1
  have hb' : ∀ e, e ∈ b → e.hash = hf e.id := fun e he => (hwb.hash e he).1
  have hm := getRange_canon A S p a hoka hlta r.lo r.hi r.els
  have ho := answer_ok A S p hf a b wire hA hwa hwb hoka hokb hsmall r
  have hloc := specK_local hf a b ha' hb' hwa.nodup hwb.nodup g
  rcases compareResults_cases A S p g a b hoka hlta c r _ _ hm ho with
    ⟨he, hh⟩ | he | ⟨he, _⟩ | ⟨he, hs, _, _⟩
  · -- equal hashes: nothing differs in this range
    rw [he]
    have heq := digest_inj A S p hA a b r.lo r.hi _ hm.dig (hh ▸ ho.dig)
    refine inv_decide (fun _ => []) hinv (fun k => by simp) ?_ (fun k => List.nodup_nil)
    intro k id
    constructor
    · intro h; cases h
    · rintro ⟨hs, hr⟩
      exact absurd ((hloc k r.lo r.hi id).mpr ⟨hs, hr⟩)
        (specK_equal_contents hf a b ha' hb' hwa.nodup hwb.nodup g k r.lo r.hi heq id)
  · -- both element lists complete: compared
    rw [he]
    rw [(cmpEls_get g c _ _ Kind.new).2]
    refine inv_decide (fun k => specK g k (pairs (slRange a r.lo r.hi)) (pairs (slRange b r.lo r.hi)))
      hinv (fun k => (cmpEls_get g c _ _ k).1) (fun k id => hloc k r.lo r.hi id)
      (fun k => specK_nodup hf a b ha' hb' hwa.nodup hwb.nodup g k r.lo r.hi)
  · -- elements requested for the same range
    rw [he]
    show Inv hf a b g _ (rest ++ (c.prepare ++ [{ r with els := true }]))
    rw [← List.append_assoc]
    refine inv_refine hinv (fun k => get_prepare c _ k) ?_ (List.pairwise_singleton _ _)
    intro x
    simp [covers, Range.has]
  · -- subdivided
    rw [he]
    show Inv hf a b g _ (rest ++ (c.prepare ++ _))
    rw [← List.append_assoc]
    obtain ⟨hcov, hdisj⟩ := children_cover S p.df r hs
    exact inv_refine hinv (fun k => get_prepare c _ k) hcov hdisj

/-- **one round** -/
theorem round_inv : ∀ (toSend : List Range) (c : DCtx), Inv hf a b g c (toSend ++ c.prepare) →
    Inv hf a b g (round A S g wire (canon A S p a) (canon A S p b) c toSend)
      (round A S g wire (canon A S p a) (canon A S p b) c toSend).prepare := by
  intro toSend
  induction toSend with
  | nil => intro c h; simpa [round] using h
  | cons r rest ih =>
    intro c h
    have h1 := step_inv A S p hf a b g wire hA hwa hwb hoka hokb hsmall c r rest h
    have := ih _ h1
    simpa [round] using this

/-- **all rounds**: if the loop ends, everything has been decided exactly -/
theorem rounds_inv : ∀ (fuel : Nat) (c : DCtx) (toSend : List Range), Inv hf a b g c toSend →
    ∀ cf, rounds A S g wire (canon A S p a) (canon A S p b) fuel c toSend = some cf →
    Inv hf a b g cf [] := by
  intro fuel
  induction fuel with
  | zero =>
    intro c toSend h cf hr
    cases toSend with
    | nil => simp only [rounds, Option.some.injEq] at hr; rw [← hr]; exact h
    | cons r rs => simp [rounds] at hr
  | succ f ih =>
    intro c toSend h cf hr
    cases toSend with
    | nil => simp only [rounds, Option.some.injEq] at hr; rw [← hr]; exact h
    | cons r rs =>
      simp only [rounds] at hr
      have h0 : Inv hf a b g { c with prepare := [] } ((r :: rs) ++ ({ c with prepare := [] } : DCtx).prepare) := by
        simp only [List.append_nil]
        exact ⟨fun k id => by rw [get_prepare]; exact h.mem k id,
               fun k => by rw [get_prepare]; exact h.nodup k, h.disj⟩
      have h1 := round_inv A S p hf a b g wire hA hwa hwb hoka hokb hsmall (r :: rs) _ h0
      exact ih _ _ h1 cf hr

/-! ### termination: every pending range has a level that decreases from round to round -/

/-- one range: everything it schedules is one level lower -/
theorem step_lvl (m : Nat) (c : DCtx) (r : Range) (hl : Lvl S p b (m + 1) r) :
    ∀ r', r' ∈ (compareResults A S g (canon A S p a) c r ((canon A S p a).getRange A S r.lo r.hi r.els)
        (answer A S wire (canon A S p b) r)).prepare → r' ∈ c.prepare ∨ Lvl S p b m r' := by
  have hlta : ∀ e, e ∈ a → e.hash < M := fun e he => (hwa.hash e he).2
  have hm := getRange_canon A S p a hoka hlta r.lo r.hi r.els
  have ho := answer_ok A S p hf a b wire hA hwa hwb hoka hokb hsmall r
  intro r' hr'
  rcases compareResults_cases A S p g a b hoka hlta c r _ _ hm ho with
    ⟨he, _⟩ | he | ⟨he, hels⟩ | ⟨he, hs, hels, hgt⟩
  · rw [he] at hr'; exact Or.inl hr'
  · rw [he, (cmpEls_get g c _ _ Kind.new).2] at hr'; exact Or.inl hr'
  · rw [he] at hr'
    rcases List.mem_append.mp hr' with h | h
    · exact Or.inl h
    · right
      rw [List.mem_singleton.mp h]
      left
      refine ⟨rfl, ?_⟩
      rcases hl with ⟨h1, _⟩ | ⟨_, g', hg, _⟩ | ⟨_, hn⟩
      · rw [hels] at h1; cases h1
      · omega
      · omega
  · rw [he] at hr'
    rcases List.mem_append.mp hr' with h | h
    · exact Or.inl h
    · exact Or.inr (lvl_children S p b hokb m r hl hels hs hgt r' h)

theorem round_lvl (m : Nat) : ∀ (toSend : List Range) (c : DCtx),
    (∀ r, r ∈ toSend → Lvl S p b (m + 1) r) → (∀ r, r ∈ c.prepare → Lvl S p b m r) →
    ∀ r, r ∈ (round A S g wire (canon A S p a) (canon A S p b) c toSend).prepare → Lvl S p b m r := by
  intro toSend
  induction toSend with
  | nil => intro c _ hc; simpa [round] using hc
  | cons r rest ih =>
    intro c hts hc
    have h1 := step_lvl A S p hf a b g wire hA hwa hwb hoka hokb hsmall m c r (hts r (by simp))
    have := ih _ (fun r' hr' => hts r' (by simp [hr'])) (fun r' hr' => (h1 r' hr').elim (hc r') id)
    simpa [round] using this

/-- the loop ends when it has at least as many rounds left as the highest level -/
theorem rounds_terminate : ∀ (n fuel : Nat) (c : DCtx) (toSend : List Range),
    (∀ r, r ∈ toSend → Lvl S p b n r) → n ≤ fuel →
    ∃ cf, rounds A S g wire (canon A S p a) (canon A S p b) fuel c toSend = some cf := by
  intro n
  induction n with
  | zero =>
    intro fuel c toSend hl _
    cases toSend with
    | nil => exact ⟨c, by cases fuel <;> simp [rounds]⟩
    | cons r rs =>
      exfalso
      rcases hl r (by simp) with ⟨_, h⟩ | ⟨_, g', h, _⟩ | ⟨_, h⟩ <;> omega
  | succ m ih =>
    intro fuel c toSend hl hfuel
    cases toSend with
    | nil => exact ⟨c, by cases fuel <;> simp [rounds]⟩
    | cons r rs =>
      cases fuel with
      | zero => omega
      | succ f =>
        simp only [rounds]
        apply ih
        · exact round_lvl A S p hf a b g wire hA hwa hwb hoka hokb hsmall m (r :: rs) _ hl
            (fun r' hr' => by cases hr')
        · omega

end step

end AnySync.Ldiff
