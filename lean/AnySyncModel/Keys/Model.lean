/-
Model of read-key distribution in the ACL (`commonspace/object/acl/list/{aclstate,aclrecordbuilder,
validator}.go`) and of change encryption in the object tree (`objecttree/{objecttree,changebuilder}.go`),
property C05.

Symbolic (Dolev–Yao) crypto, DESIGN.md §3: `aenc p m` is `m` encrypted to the public key of principal
`p` (X25519 sealed box to an account key or to an invite key), `senc k m` is AES-GCM under `k`,
`rk g` is the read key of generation `g` (`g` = index in `AclState.readKeyChanges`; 0 = root),
`tk tree g` the per-tree key derived from `rk g` (`crypto.NewKeyDeriver(AnysyncTreePath)`).

The log is the list of key-relevant *contents* of the accepted records (one `Item` per content, in
application order; a batch record contributes several). What the Go code does with each content:

* `gstep`  — the part of `AclState.apply*` every replica performs (accounts holding a permission,
  live invites with their current `encryptedReadKey`, the chain of `encryptedPreviousReadKey`);
* `vstep`  — the part only the *viewing* account performs with its private key: `unpackAllKeys`
  (walk the chain backwards from the newest generation) on admission, one decryption in
  `applyReadKeyChange`. A decryption failure is an error of `ApplyRecord` (the view cannot be built):
  `none`.
* `wfItem` — what a fully validating acceptor checks (`validateReadKeyChange`: ciphertext recipients =
  accounts holding a permission + live anyone-can-join invites; `ValidateAccountsAdd`: not a member;
  `ValidatePermissionChange` (with fix F-keys-permchange-readmit): no bare re-admission), PLUS the
  honesty of the payloads, which no validator can check: each ciphertext really contains the key the
  real builder puts there. The correspondence harness decrypts every ciphertext of every accepted
  record with the keys it holds and sends the resulting symbolic term, so `wfItem` is evaluated on
  the real content of the real records.

Read-key generations a view holds are kept newest-first (`hasRev`), like `chainRev`.
Trusted / not modelled: X25519, AES-GCM, Ed25519, SLIP-21 derivation (symbolic); metadata keys
(`encryptedMetadataKey` is assumed to be honestly encrypted under the generation's read key, which is
why a wrong read key makes `unpackAllKeys`/`applyReadKeyChange` fail: `k = rk idx` below); request
bookkeeping, permission levels (area `acl`, C04).
-/
namespace AnySync.Keys

inductive Prin where
  | acc (a : Nat)
  | inv (i : Nat)
deriving DecidableEq, Repr

inductive Term where
  | sk (p : Prin)
  | rk (g : Nat)
  | aenc (p : Prin) (t : Term)
  | senc (k t : Term)
  | tk (tree g : Nat)
  | data (d : Nat)
  | junk
deriving DecidableEq, Repr

structure Invite where
  id     : Nat
  isOpen : Bool      -- AclInviteType_AnyoneCanJoin
  c      : Term      -- `Invite.encryptedReadKey`
deriving DecidableEq, Repr

inductive Item where
  /-- AccountsAdd entry / RequestAccept / InviteJoin: account `a` receives a permission, `c` is the
  `EncryptedReadKey` of the content -/
  | enter (a : Nat) (c : Term)
  /-- ReadKeyChange, stand-alone (`removed = []`) or nested in AccountRemove: `ak`/`ik` are
  `AccountKeys`/`InviteKeys` (label, ciphertext), `old` is `EncryptedOldReadKey` -/
  | rotate (removed : List Nat) (ak ik : List (Nat × Term)) (old : Term)
  | invite (i : Nat) (isOpen : Bool) (c : Term)
  | revoke (i : Nat)
  /-- PermissionChange of a member to None (no rotation follows) -/
  | drop (a : Nat)
  /-- PermissionChange of an account without permission to some permission: carries no key. Refused by
  the validator since fix F-keys-permchange-readmit; kept so that the need for the guard can be stated. -/
  | grant (a : Nat)
  /-- encrypted tree content: change data `senc (tk tree g) (data d)` with `ReadKeyId` = generation `g` -/
  | content (tree g d : Nat)
  | nop
deriving DecidableEq, Repr

/-- replica-independent ACL state (the key-relevant part of `AclState`) -/
structure G where
  members  : List Nat        -- accounts whose permission is not None
  invites  : List Invite     -- `st.invites`
  chainRev : List Term       -- `keys[readKeyChanges[i]].encryptedPreviousReadKey`, newest first
deriving DecidableEq, Repr

def G.ngen (g : G) : Nat := g.chainRev.length
def G.openIds (g : G) : List Nat := (g.invites.filter (·.isOpen)).map (·.id)

/-- `applyRoot`: one generation, the owner is the only member -/
def G0 (owner : Nat) : G := { members := [owner], invites := [], chainRev := [Term.junk] }
def rootTerm (owner : Nat) : Term := .aenc (.acc owner) (.rk 0)

def lookup (l : List (Nat × Term)) (k : Nat) : Option Term :=
  match l.find? (fun e => e.1 == k) with
  | some e => some e.2
  | none => none

def gstep (g : G) : Item → G
  | .enter a _ => { g with members := if a ∈ g.members then g.members else a :: g.members }
  | .rotate rm _ ik old =>
      { members := g.members.filter (fun a => !(rm.contains a)),
        -- `applyReadKeyChange`: the invite whose key matches gets the new ciphertext
        invites := g.invites.map (fun v => match lookup ik v.id with | some c => { v with c := c } | none => v),
        chainRev := old :: g.chainRev }
  | .invite i o c => { g with invites := g.invites ++ [⟨i, o, c⟩] }
  | .revoke i => { g with invites := g.invites.filter (fun v => v.id != i) }
  | .drop a => { g with members := g.members.filter (fun b => b != a) }
  | .grant a => { g with members := if a ∈ g.members then g.members else a :: g.members }
  | .content _ _ _ => g
  | .nop => g

/-! ### the viewing account -/

def adec (me : Nat) : Term → Option Term
  | .aenc (.acc a) t => if a = me then some t else none
  | _ => none

def sdec (k : Term) : Term → Option Term
  | .senc k' t => if k' = k then some t else none
  | _ => none

/-- `unpackAllKeys`: `for idx := len-1; idx >= 0; idx--`: the iteration key must open the metadata key
of generation `idx` (modelled: be `rk idx`), and, for `idx ≠ 0`, open `encryptedPreviousReadKey`.
The list is the chain newest-first; `idx` = length of the tail. -/
def unpackOk : List Term → Term → Bool
  | [], _ => true
  | e :: rest, k =>
      (k == Term.rk rest.length) &&
        (match rest with
         | [] => true
         | _ :: _ =>
           match sdec k e with
           | some k' => unpackOk rest k'
           | none => false)

/-- the viewer's step: `none` = `ApplyRecord` returns an error for this account -/
def vstep (me : Nat) (g : G) (hasRev : List Bool) : Item → Option (List Bool)
  | .enter a c =>
      if a = me then
        match adec me c with
        | some k => if unpackOk g.chainRev k then some (List.replicate g.ngen true) else none
        | none => none
      else some hasRev
  | .rotate _ ak _ _ =>
      match lookup ak me with
      | none => some (false :: hasRev)
      | some c =>
        match adec me c with
        | some k => if k = Term.rk g.ngen then some (true :: hasRev) else none
        | none => none
  | _ => some hasRev

/-- view of account `me` after the root: the owner decrypts `EncryptedReadKey` of the root -/
def view0 (me owner : Nat) : List Bool := [decide (me = owner)]

def viewFrom (me : Nat) : G → List Bool → List Item → Option (List Bool)
  | _, h, [] => some h
  | g, h, it :: rest =>
    match vstep me g h it with
    | some h' => viewFrom me (gstep g it) h' rest
    | none => none

def gFrom : G → List Item → G
  | g, [] => g
  | g, it :: rest => gFrom (gstep g it) rest

/-- the key map of account `me` built from the whole log (newest generation first) -/
def view (me owner : Nat) (log : List Item) : Option (List Bool) := viewFrom me (G0 owner) (view0 me owner) log
def gstate (owner : Nat) (log : List Item) : G := gFrom (G0 owner) log

/-! ### what the validator enforces, and honest payloads -/

def allB {α} (l : List α) (p : α → Bool) : Bool := l.all p

def wfItem (g : G) : Item → Bool
  | .enter a c => !(g.members.contains a) && (c == Term.aenc (.acc a) (.rk (g.ngen - 1)))
  | .rotate rm ak ik old =>
      let ms := g.members.filter (fun a => !(rm.contains a))
      allB rm (fun a => g.members.contains a) &&
      (ak.map (·.1)).isPerm ms &&
      allB ak (fun e => e.2 == Term.aenc (.acc e.1) (.rk g.ngen)) &&
      (ik.map (·.1)).isPerm g.openIds &&
      allB ik (fun e => e.2 == Term.aenc (.inv e.1) (.rk g.ngen)) &&
      (old == Term.senc (.rk g.ngen) (.rk (g.ngen - 1)))
  | .invite i o c => c == (if o then Term.aenc (.inv i) (.rk (g.ngen - 1)) else Term.junk)
  | .revoke i => (g.invites.map (·.id)).contains i
  | .drop a => g.members.contains a
  | .grant _ => false
  | .content _ gen _ => gen == g.ngen - 1
  | .nop => true

/-- One record may carry several contents but at most ONE rotation: `AclState.keys` and
`readKeyChanges` are indexed by record id, so a second rotation in the same record would overwrite the
first one's entry and break `unpackAllKeys` for every account admitted later (`applyReadKeyChange`
refuses it with `ErrReadKeyChangeNotAlone`, for the stand-alone and for the nested rotation alike). With
this guard every rotation has its own record id, which is what lets the model identify generations with
positions in the flat content log. -/
def recOk (contents : List Item) : Bool :=
  (contents.filter (fun it => match it with | .rotate .. => true | _ => false)).length ≤ 1

def wfFrom : G → List Item → Bool
  | _, [] => true
  | g, it :: rest => wfItem g it && wfFrom (gstep g it) rest

/-- the log (after the root of `owner`) is accepted by a validating acceptor and carries honest payloads -/
def WF (owner : Nat) (log : List Item) : Prop := wfFrom (G0 owner) log = true

/-! ### everything published in the raw log -/

def itemPub : Item → List Term
  | .enter _ c => [c]
  | .rotate _ ak ik old => ak.map (·.2) ++ ik.map (·.2) ++ [old]
  | .invite _ _ c => [c]
  | .content tree g d => [Term.senc (.tk tree g) (.data d)]
  | _ => []

def pubFrom : List Item → List Term
  | [] => []
  | it :: rest => itemPub it ++ pubFrom rest

def pub (owner : Nat) (log : List Item) : List Term := rootTerm owner :: pubFrom log

/-- deducibility: from a set of terms, by decryption with known keys and per-tree key derivation -/
inductive Knows (S : List Term) : Term → Prop
  | init {t} : t ∈ S → Knows S t
  | adec {p t} : Knows S (.aenc p t) → Knows S (.sk p) → Knows S t
  | sdec {k t} : Knows S (.senc k t) → Knows S k → Knows S t
  | derive {tree g} : Knows S (.rk g) → Knows S (.tk tree g)

/-- what principal `p` can derive from the raw log and its own private key alone -/
def Derives (p : Prin) (owner : Nat) (log : List Item) (t : Term) : Prop :=
  Knows (Term.sk p :: pub owner log) t

/-! ### liveness of a principal, and the frontier -/

def live (p : Prin) (g : G) : Bool :=
  match p with
  | .acc a => g.members.contains a
  | .inv i => g.openIds.contains i

/-- number of generations that existed when `p` last was live (held a permission / was a live
anyone-can-join invite); 0 if never -/
def frontFrom (p : Prin) : G → Nat → List Item → Nat
  | _, f, [] => f
  | g, f, it :: rest =>
    let g' := gstep g it
    frontFrom p g' (if live p g' then g'.ngen else f) rest

def front0 (p : Prin) (owner : Nat) : Nat := if p = .acc owner then 1 else 0
def front (p : Prin) (owner : Nat) (log : List Item) : Nat := frontFrom p (G0 owner) (front0 p owner) log

/-- does a key map (newest first) hold generation `g` (`Keys()[readKeyChanges[g]].ReadKey != nil`) -/
def hasGen (hasRev : List Bool) (g : Nat) : Bool := hasRev.reverse.getD g false

/-! ### the per-tree key cache of a long-lived tree object (`objectTree.keys`, `readKeysFromAclState`) -/

/-- `readKeysFromAclState`: `ot.keys` is the set of generations for which the tree holds a derived key.
The rescan is skipped only when the tree already holds a derived key for EVERY generation
(`len(ot.keys) == len(state.Keys())`: `ot.keys` has entries only for derived keys, `state.Keys()` one per
generation); otherwise every generation whose read key the ACL view holds and the tree lacks is derived.
It runs whenever the tree is *touched* (built, `AddRawChanges`, `AddContent`/`PrepareChange`), not on
`IterateRoot`. -/
def refresh (hasRev : List Bool) (cache : List Nat) : List Nat :=
  if cache.length == hasRev.length then cache
  else cache ++ (List.range hasRev.length).filter (fun g => hasGen hasRev g && !(cache.contains g))

/-- a long-lived tree lives through ACL contents and touches -/
inductive Ev where
  | item (it : Item)
  | touch
deriving Repr

def evItems : List Ev → List Item
  | [] => []
  | .item it :: r => it :: evItems r
  | .touch :: r => evItems r

/-- the account's key map and the cache of its long-lived tree along a history with touches; the tree
is built (first touch) right after the root -/
def treeFrom (me : Nat) : G → List Bool → List Nat → List Ev → Option (List Bool × List Nat)
  | _, h, c, [] => some (h, c)
  | g, h, c, .touch :: rest => treeFrom me g h (refresh h c) rest
  | g, h, c, .item it :: rest =>
    match vstep me g h it with
    | some h' => treeFrom me (gstep g it) h' c rest
    | none => none

def treeRun (me owner : Nat) (evs : List Ev) : Option (List Bool × List Nat) :=
  treeFrom me (G0 owner) (view0 me owner) (refresh (view0 me owner) []) evs

/-- `IterateRoot`'s decrypt: the change's `ReadKeyId` must be in `ot.keys` (else `ErrNoReadKey`) -/
def treeDecrypts (cache : List Nat) (g : Nat) : Bool := cache.contains g

/-- `prepareBuilderContent` after the refresh: `ot.currentReadKey` = derived key of the current generation -/
def treeWriteKey (tree : Nat) (n : Nat) (cache : List Nat) : Option Term :=
  if cache.contains (n - 1) then some (.tk tree (n - 1)) else none

/-! ### change builder (`changeBuilder.Build`) -/

inductive BuildErr where
  | missingEncryptKey
deriving DecidableEq, Repr

/-- `Build`: `Unencrypted` → content as is; otherwise `ReadKey == nil` → `ErrMissingEncryptKey`,
else the content encrypted under the key -/
def buildData (unencrypted : Bool) (readKey : Option Term) (d : Nat) : Except BuildErr Term :=
  if unencrypted then .ok (.data d)
  else match readKey with
    | none => .error .missingEncryptKey
    | some k => .ok (.senc k (.data d))

/-- `readKeysFromAclState` + `prepareBuilderContent`: the tree key of the current generation if the view has it -/
def currentTreeKey (tree : Nat) (hasRev : List Bool) : Option Term :=
  match hasRev with
  | true :: rest => some (.tk tree rest.length)
  | _ => none

/-! ### the honest record builder (`aclrecordbuilder.go`) -/

/-- operations of honest participants, as the real builder offers them -/
inductive Op where
  /-- BuildAccountsAdd / BuildRequestAccept / BuildInviteJoinWithoutApprove for account `a` -/
  | join (a : Nat)
  /-- BuildAccountRemove (`rm ≠ []`) / BuildReadKeyChange (`rm = []`) -/
  | rotate (rm : List Nat)
  | invite (i : Nat) (isOpen : Bool)
  | revoke (i : Nat)
  | drop (a : Nat)
  | write (tree d : Nat)
  /-- BuildBatchRequest{InviteRevokes, Removals} after fix F-keys-batch-revoke-keeps-key: revokes first,
  then the removal whose rotation no longer addresses the revoked invites -/
  | batchRevokeRemove (revoked : List Nat) (rm : List Nat)
deriving Repr

/-- `buildReadKeyChange`: the new key for every account holding a permission (minus the removed ones)
and for every live anyone-can-join invite, the current key chained under the new one -/
def buildRotate (g : G) (rm : List Nat) : Item :=
  .rotate rm
    ((g.members.filter (fun a => !(rm.contains a))).map (fun a => (a, Term.aenc (.acc a) (.rk g.ngen))))
    (g.openIds.map (fun i => (i, Term.aenc (.inv i) (.rk g.ngen))))
    (.senc (.rk g.ngen) (.rk (g.ngen - 1)))

/-- the contents the builder produces for an operation (`[]` when it refuses) -/
def buildOp (g : G) : Op → List Item
  | .join a => if g.members.contains a then [] else [.enter a (.aenc (.acc a) (.rk (g.ngen - 1)))]
  | .rotate rm => if rm.all (fun a => g.members.contains a) then [buildRotate g rm] else []
  | .invite i o => [.invite i o (if o then .aenc (.inv i) (.rk (g.ngen - 1)) else .junk)]
  | .revoke i => if (g.invites.map (·.id)).contains i then [.revoke i] else []
  | .drop a => if g.members.contains a then [.drop a] else []
  | .write tree d => [.content tree (g.ngen - 1) d]
  | .batchRevokeRemove revoked rm =>
      if revoked.all (fun i => (g.invites.map (·.id)).contains i) && rm.all (fun a => g.members.contains a) then
        let g' := gFrom g (revoked.map Item.revoke)
        revoked.map Item.revoke ++ [buildRotate g' rm]
      else []

def buildLog : G → List Op → List Item
  | _, [] => []
  | g, op :: rest => buildOp g op ++ buildLog (gFrom g (buildOp g op)) rest

/-- the log honest participants produce from the root of `owner` -/
def honestLog (owner : Nat) (ops : List Op) : List Item := buildLog (G0 owner) ops

end AnySync.Keys
