/-
Specification vocabulary for C05: the honest key chain, the shape of everything an accepted honest log
publishes, and the semantic run (state, frontier of a principal, published terms) used by the proofs.
-/
import AnySyncModel.Keys.Model

namespace AnySync.Keys

/-- the chain of `encryptedPreviousReadKey` an honest log builds, newest first: generation `g+1`
carries `senc (rk (g+1)) (rk g)`, generation 0 nothing -/
def honestChainRev : Nat → List Term
  | 0 => []
  | 1 => [.junk]
  | n + 2 => .senc (.rk (n + 1)) (.rk n) :: honestChainRev (n + 1)

/-- every term an honest log publishes is one of: nothing, a read key of an existing generation
encrypted to a principal (to `p` only generations `p` was live for), a chain link, tree content -/
def Shape (p : Prin) (front n : Nat) (t : Term) : Prop :=
  t = .junk
  ∨ (∃ q g, t = .aenc q (.rk g) ∧ g < n ∧ (q = p → g < front))
  ∨ (∃ g, t = .senc (.rk (g + 1)) (.rk g) ∧ g + 1 < n)
  ∨ (∃ tree g d, t = .senc (.tk tree g) (.data d) ∧ g < n)

structure Sem where
  g     : G
  front : Nat
  pub   : List Term

def semStep (p : Prin) (s : Sem) (it : Item) : Sem :=
  { g := gstep s.g it,
    front := if live p (gstep s.g it) then (gstep s.g it).ngen else s.front,
    pub := s.pub ++ itemPub it }

def semFrom (p : Prin) : Sem → List Item → Sem
  | s, [] => s
  | s, it :: rest => semFrom p (semStep p s it) rest

def sem0 (p : Prin) (owner : Nat) : Sem := ⟨G0 owner, front0 p owner, [rootTerm owner]⟩

/-- invariant of honest accepted logs, relative to one principal `p` -/
structure Good (p : Prin) (s : Sem) : Prop where
  chain  : s.g.chainRev = honestChainRev s.g.ngen
  pos    : 1 ≤ s.g.ngen
  le     : s.front ≤ s.g.ngen
  liveEq : live p s.g = true → s.front = s.g.ngen
  shape  : ∀ t ∈ s.pub, Shape p s.front s.g.ngen t
  top    : 0 < s.front → Term.aenc p (.rk (s.front - 1)) ∈ s.pub
  links  : ∀ g, g + 1 < s.g.ngen → Term.senc (.rk (g + 1)) (.rk g) ∈ s.pub

/-- what one accepted honest content does, as far as principal `p` is concerned -/
structure StepFacts (p : Prin) (g : G) (it : Item) : Prop where
  chain : (gstep g it).chainRev = g.chainRev
          ∨ ((gstep g it).chainRev = Term.senc (.rk g.ngen) (.rk (g.ngen - 1)) :: g.chainRev
              ∧ Term.senc (.rk g.ngen) (.rk (g.ngen - 1)) ∈ itemPub it)
  pubs  : ∀ t ∈ itemPub it,
            t = .junk
            ∨ (∃ q, t = .aenc q (.rk ((gstep g it).ngen - 1)) ∧ (q = p → live p (gstep g it) = true))
            ∨ (t = .senc (.rk g.ngen) (.rk (g.ngen - 1)) ∧ (gstep g it).ngen = g.ngen + 1)
            ∨ (∃ tree d, t = .senc (.tk tree (g.ngen - 1)) (.data d))
  liveNew : live p (gstep g it) = true →
            (live p g = true ∧ (gstep g it).chainRev = g.chainRev)
            ∨ Term.aenc p (.rk ((gstep g it).ngen - 1)) ∈ itemPub it

/-- the closed set containing everything `p` can derive -/
def Closed (p : Prin) (s : Sem) (t : Term) : Prop :=
  t = .sk p ∨ t ∈ s.pub ∨ (∃ g, g < s.front ∧ t = .rk g) ∨ (∃ tree g, g < s.front ∧ t = .tk tree g)
  ∨ (∃ tree g d, g < s.front ∧ t = .data d ∧ Term.senc (.tk tree g) (.data d) ∈ s.pub)

/-- the key map of a view, newest first: exactly the generations below the frontier -/
def viewOf (n front : Nat) : List Bool := List.replicate (n - front) false ++ List.replicate front true

end AnySync.Keys
