import AnySyncModel.Keys.Spec

namespace AnySync.Keys

/-! ## honest chain -/

theorem honestChainRev_length : ∀ n, (honestChainRev n).length = n
  | 0 => rfl
  | 1 => rfl
  | n + 2 => by simp [honestChainRev, honestChainRev_length (n + 1)]

theorem unpackOk_honest : ∀ n, unpackOk (honestChainRev (n + 1)) (.rk n) = true
  | 0 => by simp [honestChainRev, unpackOk]
  | n + 1 => by
    have ih := unpackOk_honest n
    have hl := honestChainRev_length (n + 1)
    cases hrest : honestChainRev (n + 1) with
    | nil => simp [hrest] at hl
    | cons e r =>
      rw [hrest] at ih hl
      simp only [honestChainRev, hrest, unpackOk, sdec, if_true, hl, beq_self_eq_true, Bool.true_and]
      exact ih

/-! ## run bookkeeping -/

theorem semFrom_g (p : Prin) : ∀ (log : List Item) (s : Sem), (semFrom p s log).g = gFrom s.g log
  | [], _ => rfl
  | it :: r, s => by simp [semFrom, gFrom, semFrom_g p r, semStep]

theorem semFrom_front (p : Prin) : ∀ (log : List Item) (s : Sem),
    (semFrom p s log).front = frontFrom p s.g s.front log
  | [], _ => rfl
  | it :: r, s => by simp [semFrom, frontFrom, semFrom_front p r, semStep]

theorem semFrom_pub (p : Prin) : ∀ (log : List Item) (s : Sem),
    (semFrom p s log).pub = s.pub ++ pubFrom log
  | [], _ => by simp [semFrom, pubFrom]
  | it :: r, s => by simp [semFrom, pubFrom, semFrom_pub p r, semStep]

theorem sem_g (p : Prin) (owner : Nat) (log : List Item) : (semFrom p (sem0 p owner) log).g = gstate owner log := by
  simp [semFrom_g, sem0, gstate]

theorem sem_front (p : Prin) (owner : Nat) (log : List Item) : (semFrom p (sem0 p owner) log).front = front p owner log := by
  simp [semFrom_front, sem0, front]

theorem sem_pub (p : Prin) (owner : Nat) (log : List Item) : (semFrom p (sem0 p owner) log).pub = pub owner log := by
  simp [semFrom_pub, sem0, pub]

/-! ## shape -/

theorem Shape.mono {p : Prin} {f n f' n' : Nat} {t : Term} (h : Shape p f n t) (hf : f ≤ f') (hn : n ≤ n') :
    Shape p f' n' t := by
  rcases h with h | ⟨q, g, rfl, hg, hq⟩ | ⟨g, rfl, hg⟩ | ⟨tree, g, d, rfl, hg⟩
  · exact Or.inl h
  · exact Or.inr (Or.inl ⟨q, g, rfl, by omega, fun e => by have := hq e; omega⟩)
  · exact Or.inr (Or.inr (Or.inl ⟨g, rfl, by omega⟩))
  · exact Or.inr (Or.inr (Or.inr ⟨tree, g, d, rfl, by omega⟩))

/-! ## the generic step -/

theorem ngen_of_chain_eq {g g' : G} (h : g'.chainRev = g.chainRev) : g'.ngen = g.ngen := by
  simp [G.ngen, h]

theorem good_step {p : Prin} {s : Sem} {it : Item} (hg : Good p s) (hf : StepFacts p s.g it) :
    Good p (semStep p s it) := by
  have hpos := hg.pos
  rcases hf.chain with hc | ⟨hc, hold⟩
  · -- no new generation
    have hn : (gstep s.g it).ngen = s.g.ngen := ngen_of_chain_eq hc
    have hfront : (semStep p s it).front = (if live p (gstep s.g it) then s.g.ngen else s.front) := by
      simp [semStep, hn]
    have hle : s.front ≤ (semStep p s it).front := by
      rw [hfront]; split
      · exact hg.le
      · exact Nat.le_refl _
    refine ⟨?_, ?_, ?_, ?_, ?_, ?_, ?_⟩
    · show (gstep s.g it).chainRev = honestChainRev (gstep s.g it).ngen
      rw [hn, hc]; exact hg.chain
    · show 1 ≤ (gstep s.g it).ngen
      omega
    · show (semStep p s it).front ≤ (gstep s.g it).ngen
      rw [hfront, hn]; split
      · exact Nat.le_refl _
      · exact hg.le
    · intro hl
      show (semStep p s it).front = (gstep s.g it).ngen
      have hl' : live p (gstep s.g it) = true := hl
      rw [hfront, hn]; simp [hl']
    · intro t ht
      show Shape p (semStep p s it).front (gstep s.g it).ngen t
      have ht' : t ∈ s.pub ++ itemPub it := ht
      rcases List.mem_append.mp ht' with h | h
      · exact (hg.shape t h).mono hle (by omega)
      · rcases hf.pubs t h with h1 | ⟨q, rfl, hq⟩ | ⟨_, hgrow⟩ | ⟨tree, d, rfl⟩
        · exact Or.inl h1
        · refine Or.inr (Or.inl ⟨q, _, rfl, by omega, fun e => ?_⟩)
          have hl := hq e
          rw [hfront, hn]; simp [hl]; omega
        · omega
        · exact Or.inr (Or.inr (Or.inr ⟨tree, _, d, rfl, by omega⟩))
    · intro h0
      show Term.aenc p (.rk ((semStep p s it).front - 1)) ∈ s.pub ++ itemPub it
      rw [hfront]
      by_cases hl : live p (gstep s.g it) = true
      · simp only [hl, if_true]
        rcases hf.liveNew hl with ⟨hwas, _⟩ | hnew
        · have := hg.liveEq hwas
          have ht := hg.top (by omega)
          rw [this] at ht
          exact List.mem_append.mpr (Or.inl ht)
        · rw [hn] at hnew
          exact List.mem_append.mpr (Or.inr hnew)
      · have hl' : live p (gstep s.g it) = false := by simpa using hl
        simp only [hl', Bool.false_eq_true, if_false]
        rw [hfront] at h0
        simp only [hl', Bool.false_eq_true, if_false] at h0
        exact List.mem_append.mpr (Or.inl (hg.top h0))
    · intro g hlt
      show Term.senc (.rk (g + 1)) (.rk g) ∈ s.pub ++ itemPub it
      have : g + 1 < s.g.ngen := by
        have : g + 1 < (gstep s.g it).ngen := hlt
        omega
      exact List.mem_append.mpr (Or.inl (hg.links g this))
  · -- a rotation: one more generation
    have hn : (gstep s.g it).ngen = s.g.ngen + 1 := by simp [G.ngen, hc]
    have hfront : (semStep p s it).front = (if live p (gstep s.g it) then s.g.ngen + 1 else s.front) := by
      simp [semStep, hn]
    have hle : s.front ≤ (semStep p s it).front := by
      rw [hfront]; split
      · have := hg.le; omega
      · exact Nat.le_refl _
    refine ⟨?_, ?_, ?_, ?_, ?_, ?_, ?_⟩
    · show (gstep s.g it).chainRev = honestChainRev (gstep s.g it).ngen
      rw [hn, hc, hg.chain]
      obtain ⟨m, hm⟩ : ∃ m, s.g.ngen = m + 1 := ⟨s.g.ngen - 1, by omega⟩
      rw [hm]; simp [honestChainRev]
    · show 1 ≤ (gstep s.g it).ngen
      omega
    · show (semStep p s it).front ≤ (gstep s.g it).ngen
      rw [hfront, hn]; split
      · exact Nat.le_refl _
      · have := hg.le; omega
    · intro hl
      show (semStep p s it).front = (gstep s.g it).ngen
      have hl' : live p (gstep s.g it) = true := hl
      rw [hfront, hn]; simp [hl']
    · intro t ht
      show Shape p (semStep p s it).front (gstep s.g it).ngen t
      have ht' : t ∈ s.pub ++ itemPub it := ht
      rcases List.mem_append.mp ht' with h | h
      · exact (hg.shape t h).mono hle (by omega)
      · rcases hf.pubs t h with h1 | ⟨q, rfl, hq⟩ | ⟨rfl, _⟩ | ⟨tree, d, rfl⟩
        · exact Or.inl h1
        · refine Or.inr (Or.inl ⟨q, _, rfl, by omega, fun e => ?_⟩)
          have hl := hq e
          rw [hfront, hn]; simp [hl]
        · refine Or.inr (Or.inr (Or.inl ⟨s.g.ngen - 1, ?_, by omega⟩))
          have : s.g.ngen - 1 + 1 = s.g.ngen := by omega
          rw [this]
        · exact Or.inr (Or.inr (Or.inr ⟨tree, _, d, rfl, by omega⟩))
    · intro h0
      show Term.aenc p (.rk ((semStep p s it).front - 1)) ∈ s.pub ++ itemPub it
      rw [hfront]
      by_cases hl : live p (gstep s.g it) = true
      · simp only [hl, if_true]
        rcases hf.liveNew hl with ⟨_, hsame⟩ | hnew
        · rw [hsame] at hc
          have := congrArg List.length hc
          simp at this
        · rw [hn] at hnew
          exact List.mem_append.mpr (Or.inr hnew)
      · have hl' : live p (gstep s.g it) = false := by simpa using hl
        simp only [hl', Bool.false_eq_true, if_false]
        rw [hfront] at h0
        simp only [hl', Bool.false_eq_true, if_false] at h0
        exact List.mem_append.mpr (Or.inl (hg.top h0))
    · intro g hlt
      show Term.senc (.rk (g + 1)) (.rk g) ∈ s.pub ++ itemPub it
      have hlt' : g + 1 < s.g.ngen + 1 := by
        have : g + 1 < (gstep s.g it).ngen := hlt
        omega
      by_cases he : g + 1 = s.g.ngen
      · have : g = s.g.ngen - 1 := by omega
        rw [he, this]
        exact List.mem_append.mpr (Or.inr hold)
      · exact List.mem_append.mpr (Or.inl (hg.links g (by omega)))

/-! ## list helpers -/

theorem lookup_none {l : List (Nat × Term)} {k : Nat} (h : k ∉ l.map (·.1)) : lookup l k = none := by
  unfold lookup
  have : l.find? (fun e => e.1 == k) = none := by
    rw [List.find?_eq_none]
    intro e he heq
    apply h
    simp only [beq_iff_eq] at heq
    exact List.mem_map.mpr ⟨e, he, heq⟩
  rw [this]

theorem lookup_some {l : List (Nat × Term)} {k : Nat} {v : Term}
    (hall : ∀ e ∈ l, e.1 = k → e.2 = v) (h : k ∈ l.map (·.1)) : lookup l k = some v := by
  unfold lookup
  cases hf : l.find? (fun e => e.1 == k) with
  | none =>
    rw [List.find?_eq_none] at hf
    obtain ⟨e, he, rfl⟩ := List.mem_map.mp h
    exact absurd (by simp) (hf e he)
  | some e =>
    have hm := List.mem_of_find?_eq_some hf
    have hk := List.find?_some hf
    simp only [beq_iff_eq] at hk
    simp [hall e hm hk]

theorem openIds_map (invs : List Invite) (f : Invite → Invite) (hid : ∀ v, (f v).id = v.id) (ho : ∀ v, (f v).isOpen = v.isOpen) :
    ((invs.map f).filter (·.isOpen)).map (·.id) = (invs.filter (·.isOpen)).map (·.id) := by
  induction invs with
  | nil => rfl
  | cons v r ih =>
    simp only [List.map_cons, List.filter_cons, ho]
    split <;> simp [hid, ih]


theorem live_acc (a : Nat) (g : G) : live (.acc a) g = true ↔ a ∈ g.members := by
  simp [live]

theorem live_inv (i : Nat) (g : G) : live (.inv i) g = true ↔ i ∈ g.openIds := by
  simp [live]

theorem stepFacts_admit (p : Prin) (g : G) (a : Nat) (c : Term) (_hpos : 1 ≤ g.ngen)
    (hwf : wfItem g (.enter a c) = true) : StepFacts p g (.enter a c) := by
  simp only [wfItem, Bool.and_eq_true, Bool.not_eq_true', List.contains_eq_mem, decide_eq_false_iff_not, beq_iff_eq] at hwf
  obtain ⟨hnm, rfl⟩ := hwf
  have hg : gstep g (.enter a (.aenc (.acc a) (.rk (g.ngen - 1)))) = { g with members := a :: g.members } := by
    simp [gstep, hnm]
  refine ⟨Or.inl (by rw [hg]), ?_, ?_⟩
  · intro t ht
    simp only [itemPub, List.mem_singleton] at ht
    subst ht
    refine Or.inr (Or.inl ⟨.acc a, ?_, ?_⟩)
    · rw [hg]; rfl
    · intro e; subst e; rw [hg]; simp [live]
  · intro hl
    rw [hg] at hl ⊢
    cases p with
    | acc b =>
      simp only [live, List.contains_eq_mem, List.mem_cons, decide_eq_true_eq] at hl
      rcases hl with rfl | hb
      · right; simp [itemPub, G.ngen]
      · left; simp [live, hb]
    | inv i => left; simpa [live, G.openIds] using hl

theorem stepFacts_rotate (p : Prin) (g : G) (rm : List Nat) (ak ik : List (Nat × Term)) (old : Term) (_hpos : 1 ≤ g.ngen)
    (hwf : wfItem g (.rotate rm ak ik old) = true) : StepFacts p g (.rotate rm ak ik old) := by
  simp only [wfItem, allB, Bool.and_eq_true, List.all_eq_true, beq_iff_eq, List.isPerm_iff] at hwf
  obtain ⟨⟨⟨⟨⟨_, hakp⟩, hakt⟩, hikp⟩, hikt⟩, rfl⟩ := hwf
  have hchain : (gstep g (.rotate rm ak ik (.senc (.rk g.ngen) (.rk (g.ngen - 1))))).chainRev
      = .senc (.rk g.ngen) (.rk (g.ngen - 1)) :: g.chainRev := rfl
  have hn : (gstep g (.rotate rm ak ik (.senc (.rk g.ngen) (.rk (g.ngen - 1))))).ngen = g.ngen + 1 := by
    show (Term.senc (.rk g.ngen) (.rk (g.ngen - 1)) :: g.chainRev).length = g.chainRev.length + 1
    simp
  have hmem : (gstep g (.rotate rm ak ik (.senc (.rk g.ngen) (.rk (g.ngen - 1))))).members
      = g.members.filter (fun a => !(rm.contains a)) := rfl
  have hopen : (gstep g (.rotate rm ak ik (.senc (.rk g.ngen) (.rk (g.ngen - 1))))).openIds = g.openIds := by
    simp only [gstep, G.openIds]
    apply openIds_map
    · intro v; split <;> rfl
    · intro v; split <;> rfl
  refine ⟨Or.inr ⟨hchain, by simp [itemPub]⟩, ?_, ?_⟩
  · intro t ht
    simp only [itemPub, List.mem_append, List.mem_map, List.mem_singleton] at ht
    rcases ht with (⟨e, he, rfl⟩ | ⟨e, he, rfl⟩) | rfl
    · refine Or.inr (Or.inl ⟨.acc e.1, ?_, ?_⟩)
      · rw [hn, hakt e he]; simp
      · intro hq; subst hq
        have : e.1 ∈ ak.map (·.1) := List.mem_map.mpr ⟨e, he, rfl⟩
        have := hakp.mem_iff.mp this
        rw [live, hmem]
        simpa using this
    · refine Or.inr (Or.inl ⟨.inv e.1, ?_, ?_⟩)
      · rw [hn, hikt e he]; simp
      · intro hq; subst hq
        have : e.1 ∈ ik.map (·.1) := List.mem_map.mpr ⟨e, he, rfl⟩
        have := hikp.mem_iff.mp this
        simp only [live, hopen, List.contains_eq_mem, decide_eq_true_eq]
        exact this
    · exact Or.inr (Or.inr (Or.inl ⟨rfl, hn⟩))
  · intro hl
    right
    rw [hn]
    simp only [Nat.add_sub_cancel, itemPub, List.mem_append, List.mem_map, List.mem_singleton]
    cases p with
    | acc a =>
      rw [live, hmem] at hl
      have hl' : a ∈ List.filter (fun a => !rm.contains a) g.members := by simpa using hl
      obtain ⟨e, he, hea⟩ := List.mem_map.mp (hakp.mem_iff.mpr hl')
      left; left
      refine ⟨e, he, ?_⟩
      rw [hakt e he]; rw [hea]
    | inv i =>
      simp only [live, hopen, List.contains_eq_mem, decide_eq_true_eq] at hl
      obtain ⟨e, he, hea⟩ := List.mem_map.mp (hikp.mem_iff.mpr hl)
      left; right
      refine ⟨e, he, ?_⟩
      rw [hikt e he]; rw [hea]


theorem stepFacts_invite (p : Prin) (g : G) (i : Nat) (o : Bool) (c : Term)
    (hwf : wfItem g (.invite i o c) = true) : StepFacts p g (.invite i o c) := by
  simp only [wfItem, beq_iff_eq] at hwf
  subst hwf
  refine ⟨Or.inl rfl, ?_, ?_⟩
  · intro t ht
    simp only [itemPub, List.mem_singleton] at ht
    subst ht
    cases o with
    | false => left; rfl
    | true =>
      refine Or.inr (Or.inl ⟨.inv i, rfl, ?_⟩)
      intro e; subst e
      simp [live, gstep, G.openIds]
  · intro hl
    cases p with
    | acc a => left; exact ⟨by simpa [live, gstep] using hl, rfl⟩
    | inv j =>
      cases o with
      | false => left; refine ⟨?_, rfl⟩; simpa [live, gstep, G.openIds] using hl
      | true =>
        simp only [live, gstep, G.openIds, List.filter_append, List.map_append, List.contains_eq_mem,
          List.mem_append, decide_eq_true_eq] at hl
        rcases hl with h | h
        · left; refine ⟨?_, rfl⟩; simpa [live, G.openIds] using h
        · right
          simp at h
          subst h
          simp [itemPub, gstep, G.ngen]

theorem stepFacts_revoke (p : Prin) (g : G) (i : Nat) : StepFacts p g (.revoke i) := by
  refine ⟨Or.inl rfl, by simp [itemPub], ?_⟩
  intro hl
  left
  refine ⟨?_, rfl⟩
  cases p with
  | acc a => simpa [live, gstep] using hl
  | inv j =>
    simp only [live, gstep, G.openIds, List.contains_eq_mem, decide_eq_true_eq, List.mem_map, List.mem_filter] at hl ⊢
    obtain ⟨v, ⟨⟨hv, _⟩, ho⟩, hid⟩ := hl
    exact ⟨v, ⟨hv, ho⟩, hid⟩

theorem stepFacts_drop (p : Prin) (g : G) (a : Nat) : StepFacts p g (.drop a) := by
  refine ⟨Or.inl rfl, by simp [itemPub], ?_⟩
  intro hl
  left
  refine ⟨?_, rfl⟩
  cases p with
  | acc b =>
    simp only [live, gstep, List.contains_eq_mem, decide_eq_true_eq, List.mem_filter] at hl ⊢
    exact hl.1
  | inv j => simpa [live, gstep, G.openIds] using hl

theorem stepFacts_content (p : Prin) (g : G) (tree gen d : Nat)
    (hwf : wfItem g (.content tree gen d) = true) : StepFacts p g (.content tree gen d) := by
  simp only [wfItem, beq_iff_eq] at hwf
  subst hwf
  refine ⟨Or.inl rfl, ?_, fun hl => Or.inl ⟨hl, rfl⟩⟩
  intro t ht
  simp only [itemPub, List.mem_singleton] at ht
  subst ht
  exact Or.inr (Or.inr (Or.inr ⟨tree, d, rfl⟩))

theorem stepFacts_nop (p : Prin) (g : G) : StepFacts p g .nop :=
  ⟨Or.inl rfl, by simp [itemPub], fun hl => Or.inl ⟨hl, rfl⟩⟩

theorem stepFacts_of_wf (p : Prin) (g : G) (it : Item) (hpos : 1 ≤ g.ngen) (hwf : wfItem g it = true) :
    StepFacts p g it := by
  cases it with
  | enter a c => exact stepFacts_admit p g a c hpos hwf
  | rotate rm ak ik old => exact stepFacts_rotate p g rm ak ik old hpos hwf
  | invite i o c => exact stepFacts_invite p g i o c hwf
  | revoke i => exact stepFacts_revoke p g i
  | drop a => exact stepFacts_drop p g a
  | grant a => simp [wfItem] at hwf
  | content tree gen d => exact stepFacts_content p g tree gen d hwf
  | nop => exact stepFacts_nop p g

theorem good_sem0 (p : Prin) (owner : Nat) : Good p (sem0 p owner) := by
  refine ⟨rfl, by simp [sem0, G0, G.ngen], ?_, ?_, ?_, ?_, ?_⟩
  · simp only [sem0, front0, G0, G.ngen]; split <;> simp
  · intro hl
    cases p with
    | acc a =>
      have : a = owner := by simpa [live, sem0, G0] using hl
      subst this; simp [sem0, front0, G0, G.ngen]
    | inv i => simp [live, sem0, G0, G.openIds] at hl
  · intro t ht
    simp only [sem0, List.mem_singleton] at ht
    subst ht
    refine Or.inr (Or.inl ⟨.acc owner, 0, rfl, by simp [sem0, G0, G.ngen], ?_⟩)
    intro e; subst e; simp [sem0, front0]
  · intro h0
    simp only [sem0, front0] at h0 ⊢
    split at h0
    · rename_i h; subst h; simp [rootTerm]
    · omega
  · intro g hlt
    simp [sem0, G0, G.ngen] at hlt

theorem good_semFrom (p : Prin) : ∀ (log : List Item) (s : Sem), Good p s → wfFrom s.g log = true →
    Good p (semFrom p s log)
  | [], _, hg, _ => hg
  | it :: rest, s, hg, hwf => by
    simp only [wfFrom, Bool.and_eq_true] at hwf
    exact good_semFrom p rest (semStep p s it) (good_step hg (stepFacts_of_wf p s.g it hg.pos hwf.1)) hwf.2

theorem good_of_wf (p : Prin) (owner : Nat) (log : List Item) (h : WF owner log) :
    Good p (semFrom p (sem0 p owner) log) :=
  good_semFrom p log _ (good_sem0 p owner) h


theorem Shape.not_sk {p q : Prin} {f n : Nat} (h : Shape p f n (.sk q)) : False := by
  rcases h with h | ⟨_, _, h, _⟩ | ⟨_, h, _⟩ | ⟨_, _, _, h, _⟩ <;> cases h

theorem Shape.not_rk {p : Prin} {f n g : Nat} (h : Shape p f n (.rk g)) : False := by
  rcases h with h | ⟨_, _, h, _⟩ | ⟨_, h, _⟩ | ⟨_, _, _, h, _⟩ <;> cases h

theorem Shape.not_tk {p : Prin} {f n tr g : Nat} (h : Shape p f n (.tk tr g)) : False := by
  rcases h with h | ⟨_, _, h, _⟩ | ⟨_, h, _⟩ | ⟨_, _, _, h, _⟩ <;> cases h

/-- soundness of the frontier: nothing outside the closed set is derivable -/
theorem knows_closed {p : Prin} {s : Sem} (hg : Good p s) {t : Term}
    (hk : Knows (Term.sk p :: s.pub) t) : Closed p s t := by
  induction hk with
  | init hm =>
    rcases List.mem_cons.mp hm with rfl | hm
    · exact Or.inl rfl
    · exact Or.inr (Or.inl hm)
  | @adec q t _ _ ih1 ih2 =>
    -- the private key must be p's own
    have hq : q = p := by
      rcases ih2 with h | h | ⟨_, _, h⟩ | ⟨_, _, _, h⟩ | ⟨_, _, _, _, h, _⟩
      · cases h; rfl
      · exact (hg.shape _ h).not_sk.elim
      · cases h
      · cases h
      · cases h
    subst hq
    rcases ih1 with h | h | ⟨_, _, h⟩ | ⟨_, _, _, h⟩ | ⟨_, _, _, _, h, _⟩
    · cases h
    · rcases hg.shape _ h with h | ⟨q', g, h, _, hq⟩ | ⟨_, h, _⟩ | ⟨_, _, _, h, _⟩
      · cases h
      · cases h
        exact Or.inr (Or.inr (Or.inl ⟨g, hq rfl, rfl⟩))
      · cases h
      · cases h
    · cases h
    · cases h
    · cases h
  | @sdec k t _ _ ih1 ih2 =>
    rcases ih1 with h | h | ⟨_, _, h⟩ | ⟨_, _, _, h⟩ | ⟨_, _, _, _, h, _⟩
    · cases h
    · rcases hg.shape _ h with h' | ⟨_, _, h', _⟩ | ⟨g, h', _⟩ | ⟨tree, g, d, h', _⟩
      · cases h'
      · cases h'
      · cases h'
        -- a chain link: the key rk (g+1) must be below the frontier
        rcases ih2 with h2 | h2 | ⟨g', hlt, h2⟩ | ⟨_, _, _, h2⟩ | ⟨_, _, _, _, h2, _⟩
        · cases h2
        · exact (hg.shape _ h2).not_rk.elim
        · cases h2
          exact Or.inr (Or.inr (Or.inl ⟨g, by omega, rfl⟩))
        · cases h2
        · cases h2
      · cases h'
        -- tree content: the tree key must be below the frontier
        rcases ih2 with h2 | h2 | ⟨_, _, h2⟩ | ⟨tr', g', hlt, h2⟩ | ⟨_, _, _, _, h2, _⟩
        · cases h2
        · exact (hg.shape _ h2).not_tk.elim
        · cases h2
        · cases h2
          exact Or.inr (Or.inr (Or.inr (Or.inr ⟨tree, g, d, hlt, rfl, h⟩)))
        · cases h2
    · cases h
    · cases h
    · cases h
  | @derive tree g _ ih =>
    rcases ih with h | h | ⟨g', hlt, h⟩ | ⟨_, _, _, h⟩ | ⟨_, _, _, _, h, _⟩
    · cases h
    · exact (hg.shape _ h).not_rk.elim
    · cases h
      exact Or.inr (Or.inr (Or.inr (Or.inl ⟨tree, g, hlt, rfl⟩)))
    · cases h
    · cases h

/-- completeness: every generation below the frontier is derivable -/
theorem knows_below_front {p : Prin} {s : Sem} (hg : Good p s) :
    ∀ (k g : Nat), g + k + 1 = s.front → Knows (Term.sk p :: s.pub) (.rk g)
  | 0, g, h => by
    have htop := hg.top (by omega)
    have : s.front - 1 = g := by omega
    rw [this] at htop
    exact Knows.adec (Knows.init (List.mem_cons_of_mem _ htop)) (Knows.init (List.mem_cons_self ..))
  | k + 1, g, h => by
    have ih := knows_below_front hg k (g + 1) (by omega)
    have hl := hg.links g (by have := hg.le; omega)
    exact Knows.sdec (Knows.init (List.mem_cons_of_mem _ hl)) ih

theorem knows_rk_iff {p : Prin} {s : Sem} (hg : Good p s) (g : Nat) :
    Knows (Term.sk p :: s.pub) (.rk g) ↔ g < s.front := by
  constructor
  · intro hk
    rcases knows_closed hg hk with h | h | ⟨g', hlt, h⟩ | ⟨_, _, _, h⟩ | ⟨_, _, _, _, h, _⟩
    · cases h
    · exact (hg.shape _ h).not_rk.elim
    · cases h; exact hlt
    · cases h
    · cases h
  · intro hlt
    exact knows_below_front hg (s.front - 1 - g) g (by omega)


theorem front_keep {p : Prin} {s : Sem} {it : Item} (hg : Good p s)
    (hc : (gstep s.g it).chainRev = s.g.chainRev)
    (hl : live p (gstep s.g it) = true → live p s.g = true) :
    (semStep p s it).front = s.front ∧ (semStep p s it).g.ngen = s.g.ngen := by
  have hn : (gstep s.g it).ngen = s.g.ngen := ngen_of_chain_eq hc
  refine ⟨?_, hn⟩
  simp only [semStep]
  split
  · rename_i h
    rw [hn]; exact (hg.liveEq (hl h)).symm
  · rfl

theorem viewOf_full (n : Nat) : viewOf n n = List.replicate n true := by
  simp [viewOf]

theorem view_step {me : Nat} {s : Sem} {it : Item} (hg : Good (.acc me) s)
    (hwf : wfItem s.g it = true) :
    vstep me s.g (viewOf s.g.ngen s.front) it
      = some (viewOf (semStep (.acc me) s it).g.ngen (semStep (.acc me) s it).front) := by
  have hpos := hg.pos
  cases it with
  | enter a c =>
    simp only [wfItem, Bool.and_eq_true, Bool.not_eq_true', List.contains_eq_mem, decide_eq_false_iff_not, beq_iff_eq] at hwf
    obtain ⟨hnm, rfl⟩ := hwf
    by_cases ha : a = me
    · subst ha
      obtain ⟨m, hm⟩ : ∃ m, s.g.ngen = m + 1 := ⟨s.g.ngen - 1, by omega⟩
      have hun : unpackOk s.g.chainRev (.rk (s.g.ngen - 1)) = true := by
        rw [hg.chain, hm]; simpa using unpackOk_honest m
      have hlive : live (.acc a) (gstep s.g (.enter a (.aenc (.acc a) (.rk (s.g.ngen - 1))))) = true := by
        simp [live, gstep, hnm]
      have hn : (gstep s.g (.enter a (.aenc (.acc a) (.rk (s.g.ngen - 1))))).ngen = s.g.ngen := rfl
      simp only [vstep, adec, if_true, hun, semStep, hlive, hn, viewOf_full]
    · have hk := front_keep (p := .acc me) (it := .enter a (.aenc (.acc a) (.rk (s.g.ngen - 1)))) hg rfl (by
        intro hl
        simp only [live, gstep, hnm, if_false, List.contains_eq_mem, List.mem_cons, decide_eq_true_eq] at hl ⊢
        rcases hl with h | h
        · exact absurd h.symm ha
        · exact h)
      rw [hk.1, hk.2]
      simp [vstep, ha]
  | rotate rm ak ik old =>
    have hf := stepFacts_rotate (.acc me) s.g rm ak ik old hpos hwf
    simp only [wfItem, allB, Bool.and_eq_true, List.all_eq_true, beq_iff_eq, List.isPerm_iff] at hwf
    obtain ⟨⟨⟨⟨⟨_, hakp⟩, hakt⟩, _⟩, _⟩, rfl⟩ := hwf
    have hn : (gstep s.g (.rotate rm ak ik (.senc (.rk s.g.ngen) (.rk (s.g.ngen - 1))))).ngen = s.g.ngen + 1 := by
      show (Term.senc (.rk s.g.ngen) (.rk (s.g.ngen - 1)) :: s.g.chainRev).length = s.g.chainRev.length + 1
      simp
    have hmem : (gstep s.g (.rotate rm ak ik (.senc (.rk s.g.ngen) (.rk (s.g.ngen - 1))))).members
        = s.g.members.filter (fun a => !(rm.contains a)) := rfl
    by_cases hin : me ∈ ak.map (·.1)
    · have hlook : lookup ak me = some (.aenc (.acc me) (.rk s.g.ngen)) := by
        apply lookup_some _ hin
        intro e he hek
        rw [hakt e he, hek]
      have hms := hakp.mem_iff.mp hin
      have hlive' : live (.acc me) (gstep s.g (.rotate rm ak ik (.senc (.rk s.g.ngen) (.rk (s.g.ngen - 1))))) = true := by
        rw [live, hmem]; simpa using hms
      have hwas : live (.acc me) s.g = true := by
        have := (List.mem_filter.mp hms).1
        simpa [live] using this
      have hfr := hg.liveEq hwas
      simp only [vstep, hlook, adec, if_true, semStep, hlive', hn]
      rw [hfr, viewOf_full, viewOf_full, List.replicate_succ]
    · have hlook : lookup ak me = none := lookup_none hin
      have hlive' : live (.acc me) (gstep s.g (.rotate rm ak ik (.senc (.rk s.g.ngen) (.rk (s.g.ngen - 1))))) = false := by
        cases hl : live (.acc me) (gstep s.g (.rotate rm ak ik (.senc (.rk s.g.ngen) (.rk (s.g.ngen - 1))))) with
        | false => rfl
        | true =>
          rw [live, hmem] at hl
          have : me ∈ List.filter (fun a => !rm.contains a) s.g.members := by simpa using hl
          exact absurd (hakp.mem_iff.mpr this) hin
      simp only [vstep, hlook, semStep, hlive', hn, Bool.false_eq_true, if_false]
      have hle := hg.le
      have : s.g.ngen + 1 - s.front = (s.g.ngen - s.front) + 1 := by omega
      simp [viewOf, this, List.replicate_succ]
  | invite i o c =>
    have hk := front_keep (p := .acc me) (it := .invite i o c) hg rfl (by intro hl; simpa [live, gstep] using hl)
    rw [hk.1, hk.2]; simp [vstep]
  | revoke i =>
    have hk := front_keep (p := .acc me) (it := .revoke i) hg rfl (by intro hl; simpa [live, gstep] using hl)
    rw [hk.1, hk.2]; simp [vstep]
  | drop a =>
    have hk := front_keep (p := .acc me) (it := .drop a) hg rfl (by
      intro hl
      simp only [live, gstep, List.contains_eq_mem, decide_eq_true_eq, List.mem_filter] at hl ⊢
      exact hl.1)
    rw [hk.1, hk.2]; simp [vstep]
  | grant a => simp [wfItem] at hwf
  | content tree gen d =>
    have hk := front_keep (p := .acc me) (it := .content tree gen d) hg rfl (by intro hl; simpa [live, gstep] using hl)
    rw [hk.1, hk.2]; simp [vstep]
  | nop =>
    have hk := front_keep (p := .acc me) (it := .nop) hg rfl (by intro hl; simpa [live, gstep] using hl)
    rw [hk.1, hk.2]; simp [vstep]

theorem viewFrom_eq (me : Nat) : ∀ (log : List Item) (s : Sem), Good (.acc me) s → wfFrom s.g log = true →
    viewFrom me s.g (viewOf s.g.ngen s.front) log
      = some (viewOf (semFrom (.acc me) s log).g.ngen (semFrom (.acc me) s log).front)
  | [], _, _, _ => rfl
  | it :: rest, s, hg, hwf => by
    simp only [wfFrom, Bool.and_eq_true] at hwf
    have hstep := view_step hg hwf.1
    have hg' := good_step hg (stepFacts_of_wf (.acc me) s.g it hg.pos hwf.1)
    have ih := viewFrom_eq me rest (semStep (.acc me) s it) hg' hwf.2
    simp only [viewFrom, hstep, semFrom]
    exact ih

/-- the code's key map of account `me` is: exactly the generations below its frontier -/
theorem view_eq (me owner : Nat) (log : List Item) (h : WF owner log) :
    view me owner log = some (viewOf (gstate owner log).ngen (front (.acc me) owner log)) := by
  have hv0 : view0 me owner = viewOf (sem0 (.acc me) owner).g.ngen (sem0 (.acc me) owner).front := by
    simp only [view0, sem0, front0, G0, G.ngen, viewOf]
    by_cases hm : me = owner
    · subst hm; simp
    · have : ¬ (Prin.acc me = Prin.acc owner) := by intro e; cases e; exact hm rfl
      simp [hm, this]
  have := viewFrom_eq me log (sem0 (.acc me) owner) (good_sem0 _ owner) h
  rw [sem_g, sem_front] at this
  unfold view
  rw [hv0]
  exact this


theorem hasGen_viewOf (n f g : Nat)  : hasGen (viewOf n f) g = decide (g < f) := by
  simp only [hasGen, viewOf, List.reverse_append, List.reverse_replicate, List.getD_eq_getElem?_getD]
  by_cases h : g < f
  · rw [List.getElem?_append_left (by simpa using h)]
    simp [h]
  · rw [List.getElem?_append_right (by simpa using h)]
    simp only [List.length_replicate, List.getElem?_replicate]
    split <;> simp [h]

theorem gFrom_append : ∀ (a b : List Item) (g : G), gFrom g (a ++ b) = gFrom (gFrom g a) b
  | [], _, _ => rfl
  | it :: r, b, g => by simp [gFrom, gFrom_append r b]

theorem frontFrom_append (p : Prin) : ∀ (a b : List Item) (g : G) (f : Nat),
    frontFrom p g f (a ++ b) = frontFrom p (gFrom g a) (frontFrom p g f a) b
  | [], _, _, _ => rfl
  | it :: r, b, g, f => by simp [frontFrom, gFrom, frontFrom_append p r b]

theorem wfFrom_append : ∀ (a b : List Item) (g : G), wfFrom g (a ++ b) = true → wfFrom g a = true
  | [], _, _, _ => rfl
  | it :: r, b, g, h => by
    simp only [List.cons_append, wfFrom, Bool.and_eq_true] at h ⊢
    exact ⟨h.1, wfFrom_append r b _ h.2⟩

theorem frontFrom_notlive (p : Prin) : ∀ (post : List Item) (g : G) (f : Nat),
    (∀ k, 1 ≤ k → k ≤ post.length → live p (gFrom g (post.take k)) = false) → frontFrom p g f post = f
  | [], _, _, _ => rfl
  | it :: r, g, f, h => by
    have h1 := h 1 (Nat.le_refl _) (by simp)
    simp only [List.take_succ_cons, List.take_zero, gFrom] at h1
    simp only [frontFrom, h1, Bool.false_eq_true, if_false]
    apply frontFrom_notlive p r
    intro k hk1 hk2
    have := h (k + 1) (by omega) (by simp; omega)
    simpa [gFrom] using this

theorem mem_pubFrom : ∀ (log : List Item) (it : Item) (t : Term), it ∈ log → t ∈ itemPub it → t ∈ pubFrom log
  | it' :: r, it, t, hm, ht => by
    simp only [pubFrom, List.mem_append]
    rcases List.mem_cons.mp hm with rfl | hm
    · exact Or.inl ht
    · exact Or.inr (mem_pubFrom r it t hm ht)


theorem wf_buildRotate (g : G) (rm : List Nat) (h : rm.all (fun a => g.members.contains a) = true) :
    wfItem g (buildRotate g rm) = true := by
  simp only [buildRotate, wfItem, allB, Bool.and_eq_true, beq_iff_eq, List.isPerm_iff, List.all_eq_true]
  refine ⟨⟨⟨⟨⟨?_, ?_⟩, ?_⟩, ?_⟩, ?_⟩, trivial⟩
  · simpa [List.all_eq_true] using h
  · simp [Function.comp_def]
  · intro e he
    obtain ⟨a, _, rfl⟩ := List.mem_map.mp he
    rfl
  · simp [Function.comp_def]
  · intro e he
    obtain ⟨a, _, rfl⟩ := List.mem_map.mp he
    rfl

theorem wfFrom_append_iff : ∀ (a b : List Item) (g : G),
    wfFrom g (a ++ b) = (wfFrom g a && wfFrom (gFrom g a) b)
  | [], _, _ => by simp [wfFrom, gFrom]
  | it :: r, b, g => by simp [wfFrom, gFrom, wfFrom_append_iff r b, Bool.and_assoc]

theorem wf_revokes : ∀ (revoked : List Nat) (g : G),
    revoked.all (fun i => (g.invites.map (·.id)).contains i) = true → revoked.Nodup →
    wfFrom g (revoked.map Item.revoke) = true
  | [], _, _, _ => rfl
  | i :: r, g, h, hnd => by
    simp only [List.all_cons, Bool.and_eq_true] at h
    simp only [List.map_cons, wfFrom, wfItem, Bool.and_eq_true]
    refine ⟨h.1, wf_revokes r _ ?_ (List.nodup_cons.mp hnd).2⟩
    rw [List.all_eq_true] at h ⊢
    intro j hj
    have hji : j ≠ i := fun e => (List.nodup_cons.mp hnd).1 (e ▸ hj)
    have := h.2 j hj
    simp only [gstep, List.contains_eq_mem, List.mem_map, List.mem_filter, decide_eq_true_eq] at this ⊢
    obtain ⟨v, hv, rfl⟩ := this
    exact ⟨v, ⟨hv, by simpa using hji⟩, rfl⟩

theorem members_revokes : ∀ (revoked : List Nat) (g : G), (gFrom g (revoked.map Item.revoke)).members = g.members
  | [], _ => rfl
  | i :: r, g => by simp [gFrom, members_revokes r, gstep]

theorem wf_buildOp (g : G) (op : Op) (hnd : ∀ rv rm, op = .batchRevokeRemove rv rm → rv.Nodup) :
    wfFrom g (buildOp g op) = true := by
  cases op with
  | join a =>
    simp only [buildOp]; split
    · rfl
    · rename_i h; simp only [wfFrom, wfItem, Bool.and_true]; simpa using h
  | rotate rm =>
    simp only [buildOp]; split
    · rename_i h; simp [wfFrom, wf_buildRotate g rm h]
    · rfl
  | invite i o => simp [buildOp, wfFrom, wfItem]
  | revoke i =>
    simp only [buildOp]; split
    · rename_i h; simp only [wfFrom, wfItem, Bool.and_true]; exact h
    · rfl
  | drop a =>
    simp only [buildOp]; split
    · rename_i h; simp only [wfFrom, wfItem, Bool.and_true]; exact h
    · rfl
  | write tree d => simp [buildOp, wfFrom, wfItem]
  | batchRevokeRemove revoked rm =>
    simp only [buildOp]; split
    · rename_i h
      simp only [Bool.and_eq_true] at h
      rw [wfFrom_append_iff, wf_revokes revoked g h.1 (hnd _ _ rfl)]
      simp only [Bool.true_and, wfFrom, Bool.and_true]
      apply wf_buildRotate
      rw [members_revokes]; exact h.2
    · rfl

def Op.sane : Op → Prop
  | .batchRevokeRemove rv _ => rv.Nodup
  | _ => True

theorem wf_buildLog : ∀ (ops : List Op) (g : G), (∀ op ∈ ops, op.sane) → wfFrom g (buildLog g ops) = true
  | [], _, _ => rfl
  | op :: rest, g, h => by
    simp only [buildLog, wfFrom_append_iff, Bool.and_eq_true]
    refine ⟨wf_buildOp g op ?_, wf_buildLog rest _ (fun o ho => h o (List.mem_cons_of_mem _ ho))⟩
    intro rv rm e
    have := h op (List.mem_cons_self ..)
    rw [e] at this; exact this


theorem openIds_rotate (g : G) (rm : List Nat) (ak ik : List (Nat × Term)) (old : Term) :
    (gstep g (.rotate rm ak ik old)).openIds = g.openIds := by
  simp only [gstep, G.openIds]
  apply openIds_map
  · intro v; split <;> rfl
  · intro v; split <;> rfl

theorem not_open_after_revoke (g : G) (i : Nat) : i ∉ (gstep g (.revoke i)).openIds := by
  simp only [gstep, G.openIds, List.mem_map, List.mem_filter]
  rintro ⟨v, ⟨⟨_, hne⟩, _⟩, rfl⟩
  simp at hne

/-! ## the key cache of a long-lived tree -/

theorem hasGen_lt {h : List Bool} {x : Nat} (hx : hasGen h x = true) : x < h.length := by
  simp only [hasGen, List.getD_eq_getElem?_getD] at hx
  by_cases hl : x < h.reverse.length
  · simpa using hl
  · rw [List.getElem?_eq_none (by omega)] at hx
    simp at hx

theorem hasGen_cons {h : List Bool} {x : Nat} (b : Bool) (hx : hasGen h x = true) : hasGen (b :: h) x = true := by
  have hl := hasGen_lt hx
  simp only [hasGen, List.getD_eq_getElem?_getD, List.reverse_cons] at hx ⊢
  rw [List.getElem?_append_left (by simpa using hl)]
  exact hx

theorem hasGen_replicate {n x : Nat} (hx : x < n) : hasGen (List.replicate n true) x = true := by
  simp [hasGen, List.getD_eq_getElem?_getD, hx]

/-- pigeonhole: a duplicate-free list of naturals below `n` of length `n` contains every natural below `n` -/
theorem nodup_full : ∀ (n : Nat) (l : List Nat), l.Nodup → (∀ x ∈ l, x < n) →
    l.length ≤ n ∧ (l.length = n → ∀ g, g < n → g ∈ l)
  | 0, l, _, hb => by
    cases l with
    | nil => simp
    | cons a r => exact absurd (hb a (List.mem_cons_self ..)) (by omega)
  | n + 1, l, hnd, hb => by
    by_cases hn : n ∈ l
    · have hnd' : (l.erase n).Nodup := hnd.erase n
      have hb' : ∀ x ∈ l.erase n, x < n := by
        intro x hx
        have hxl := List.mem_of_mem_erase hx
        have hne : x ≠ n := fun e => by
          subst e
          exact (List.Nodup.mem_erase_iff hnd).mp hx |>.1 rfl
        have := hb x hxl
        omega
      have ih := nodup_full n (l.erase n) hnd' hb'
      have hlen : (l.erase n).length = l.length - 1 := List.length_erase_of_mem hn
      have hpos : 0 < l.length := List.length_pos_of_mem hn
      refine ⟨by omega, fun he g hg => ?_⟩
      by_cases hgn : g = n
      · subst hgn; exact hn
      · exact List.mem_of_mem_erase (ih.2 (by omega) g (by omega))
    · have hb' : ∀ x ∈ l, x < n := by
        intro x hx
        have := hb x hx
        have hne : x ≠ n := fun e => hn (e ▸ hx)
        omega
      have ih := nodup_full n l hnd hb'
      exact ⟨by omega, fun he => by omega⟩

def CacheInv (h : List Bool) (c : List Nat) : Prop := c.Nodup ∧ ∀ x ∈ c, hasGen h x = true

theorem refresh_mem_iff {h : List Bool} {c : List Nat} (hi : CacheInv h c) (g : Nat) :
    g ∈ refresh h c ↔ hasGen h g = true := by
  unfold refresh
  split
  · rename_i hlen
    simp only [beq_iff_eq] at hlen
    constructor
    · exact hi.2 g
    · intro hg
      exact (nodup_full h.length c hi.1 (fun x hx => hasGen_lt (hi.2 x hx))).2 hlen g (hasGen_lt hg)
  · simp only [List.mem_append, List.mem_filter, List.mem_range, Bool.and_eq_true, Bool.not_eq_true',
      List.contains_eq_mem, decide_eq_false_iff_not]
    constructor
    · rintro (hc | ⟨_, hg, _⟩)
      · exact hi.2 g hc
      · exact hg
    · intro hg
      by_cases hc : g ∈ c
      · exact Or.inl hc
      · exact Or.inr ⟨hasGen_lt hg, hg, hc⟩

theorem refresh_inv {h : List Bool} {c : List Nat} (hi : CacheInv h c) : CacheInv h (refresh h c) := by
  refine ⟨?_, fun x hx => (refresh_mem_iff hi x).mp hx⟩
  unfold refresh
  split
  · exact hi.1
  · rw [List.nodup_append]
    refine ⟨hi.1, (List.nodup_range).filter _, ?_⟩
    intro a ha b hb
    simp only [List.mem_filter, Bool.and_eq_true, Bool.not_eq_true', List.contains_eq_mem,
      decide_eq_false_iff_not] at hb
    intro e; subst e; exact hb.2.2 ha

theorem vstep_len {me : Nat} {g : G} {h h' : List Bool} {it : Item} (hv : vstep me g h it = some h')
    (hl : h.length = g.ngen) : h'.length = (gstep g it).ngen := by
  cases it with
  | enter a c =>
    simp only [vstep] at hv
    split at hv
    · split at hv
      · split at hv
        · cases hv; simp [gstep, G.ngen]
        · cases hv
      · cases hv
    · cases hv; simpa [gstep, G.ngen] using hl
  | rotate rm ak ik old =>
    simp only [vstep] at hv
    split at hv
    · cases hv; simp [gstep, G.ngen] at *; exact hl
    · split at hv
      · split at hv
        · cases hv; simp [gstep, G.ngen] at *; exact hl
        · cases hv
      · cases hv
  | invite i o c => simp only [vstep] at hv; cases hv; simpa [gstep, G.ngen] using hl
  | revoke i => simp only [vstep] at hv; cases hv; simpa [gstep, G.ngen] using hl
  | drop a => simp only [vstep] at hv; cases hv; simpa [gstep, G.ngen] using hl
  | grant a => simp only [vstep] at hv; cases hv; simpa [gstep, G.ngen] using hl
  | content t gen d => simp only [vstep] at hv; cases hv; simpa [gstep, G.ngen] using hl
  | nop => simp only [vstep] at hv; cases hv; simpa [gstep, G.ngen] using hl

/-- a view never loses a generation -/
theorem vstep_mono {me : Nat} {g : G} {h h' : List Bool} {it : Item} (hv : vstep me g h it = some h')
    (hl : h.length = g.ngen) {x : Nat} (hx : hasGen h x = true) : hasGen h' x = true := by
  cases it with
  | enter a c =>
    simp only [vstep] at hv
    split at hv
    · split at hv
      · split at hv
        · cases hv; exact hasGen_replicate (hl ▸ hasGen_lt hx)
        · cases hv
      · cases hv
    · cases hv; exact hx
  | rotate rm ak ik old =>
    simp only [vstep] at hv
    split at hv
    · cases hv; exact hasGen_cons _ hx
    · split at hv
      · split at hv
        · cases hv; exact hasGen_cons _ hx
        · cases hv
      · cases hv
  | invite i o c => simp only [vstep] at hv; cases hv; exact hx
  | revoke i => simp only [vstep] at hv; cases hv; exact hx
  | drop a => simp only [vstep] at hv; cases hv; exact hx
  | grant a => simp only [vstep] at hv; cases hv; exact hx
  | content t gen d => simp only [vstep] at hv; cases hv; exact hx
  | nop => simp only [vstep] at hv; cases hv; exact hx

theorem treeFrom_inv (me : Nat) : ∀ (evs : List Ev) (g : G) (h : List Bool) (c : List Nat) (h' : List Bool) (c' : List Nat),
    h.length = g.ngen → CacheInv h c → treeFrom me g h c evs = some (h', c') →
    CacheInv h' c' ∧ viewFrom me g h (evItems evs) = some h'
  | [], _, _, _, _, _, _, hi, hr => by
    simp only [treeFrom, Option.some.injEq, Prod.mk.injEq] at hr
    obtain ⟨rfl, rfl⟩ := hr
    exact ⟨hi, rfl⟩
  | .touch :: rest, g, h, c, h', c', hl, hi, hr => by
    simp only [treeFrom] at hr
    exact treeFrom_inv me rest g h (refresh h c) h' c' hl (refresh_inv hi) hr
  | .item it :: rest, g, h, c, h', c', hl, hi, hr => by
    simp only [treeFrom] at hr
    cases hv : vstep me g h it with
    | none => simp [hv] at hr
    | some h1 =>
      simp only [hv] at hr
      have := treeFrom_inv me rest (gstep g it) h1 c h' c' (vstep_len hv hl)
        ⟨hi.1, fun x hx => vstep_mono hv hl (hi.2 x hx)⟩ hr
      refine ⟨this.1, ?_⟩
      simp only [evItems, viewFrom, hv]
      exact this.2

theorem treeFrom_exists (me : Nat) : ∀ (evs : List Ev) (g : G) (h : List Bool) (c : List Nat) (h' : List Bool),
    viewFrom me g h (evItems evs) = some h' → ∃ c', treeFrom me g h c evs = some (h', c')
  | [], _, _, c, _, hr => by
    simp only [evItems, viewFrom, Option.some.injEq] at hr
    subst hr; exact ⟨c, rfl⟩
  | .touch :: rest, g, h, c, h', hr => by
    simp only [treeFrom]
    exact treeFrom_exists me rest g h (refresh h c) h' hr
  | .item it :: rest, g, h, c, h', hr => by
    simp only [evItems, viewFrom] at hr
    cases hv : vstep me g h it with
    | none => simp [hv] at hr
    | some h1 =>
      simp only [hv] at hr
      simp only [treeFrom, hv]
      exact treeFrom_exists me rest (gstep g it) h1 c h' hr

theorem treeFrom_snoc_touch (me : Nat) : ∀ (evs : List Ev) (g : G) (h : List Bool) (c : List Nat),
    treeFrom me g h c (evs ++ [.touch]) = (treeFrom me g h c evs).map (fun r => (r.1, refresh r.1 r.2))
  | [], _, _, _ => by simp [treeFrom]
  | .touch :: rest, g, h, c => by simp only [List.cons_append, treeFrom]; exact treeFrom_snoc_touch me rest g h _
  | .item it :: rest, g, h, c => by
    simp only [List.cons_append, treeFrom]
    cases vstep me g h it with
    | none => rfl
    | some h1 => exact treeFrom_snoc_touch me rest _ h1 c

theorem evItems_snoc_touch : ∀ (evs : List Ev), evItems (evs ++ [.touch]) = evItems evs
  | [] => rfl
  | .touch :: r => by simp [evItems, evItems_snoc_touch r]
  | .item it :: r => by simp [evItems, evItems_snoc_touch r]

theorem cacheInv0 (me owner : Nat) : CacheInv (view0 me owner) (refresh (view0 me owner) []) :=
  refresh_inv ⟨List.nodup_nil, fun _ hx => by cases hx⟩

end AnySync.Keys
