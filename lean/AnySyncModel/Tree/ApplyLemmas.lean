import AnySyncModel.Tree.Lemmas
import AnySyncModel.Tree.LoaderLemmas
/-! Lemmas tying the loader (C09) to the receiver's `add` (C06): applying an answer attaches everything. -/
namespace AnySync.Tree

/-- `keep_causal` with an arbitrary dependency function and an arbitrary notion of "already held" -/
theorem keep_causal_held (rm : Nat → Bool) (cache : List SChange) (deps : SChange → List Nat) (Held : Nat → Prop)
    (H : ∀ l1 c l2, cache = l1 ++ c :: l2 → ∀ p ∈ deps c, Held p ∨ p ∈ l1.map (·.id))
    (s1 : List SChange) (c : SChange) (s2 : List SChange) (h : keep rm cache = s1 ++ c :: s2) :
    ∀ p ∈ deps c, Held p ∨ rm p = true ∨ p ∈ s1.map (·.id) := by
  intro p hp
  unfold keep at h
  obtain ⟨l1, l2', hl, hf1, hf2⟩ := List.filter_eq_append_iff.mp h
  obtain ⟨m1, m2, hm, hno, _, _⟩ := List.filter_eq_cons_iff.mp hf2
  have hdec : cache = (l1 ++ m1) ++ c :: m2 := by rw [hl, hm]; simp
  rcases H _ _ _ hdec p hp with h1 | h1
  · exact Or.inl h1
  · by_cases hrm : rm p = true
    · exact Or.inr (Or.inl hrm)
    · right; right
      rw [List.map_append, List.mem_append] at h1
      rcases h1 with h1 | h1
      · obtain ⟨d, hd, hdp⟩ := List.mem_map.mp h1
        rw [← hf1]
        exact List.mem_map.mpr ⟨d, List.mem_filter.mpr ⟨hd, by simp [hdp, hrm]⟩, hdp⟩
      · obtain ⟨d, hd, hdp⟩ := List.mem_map.mp h1
        have := hno d hd
        simp [hdp, hrm] at this


theorem toC_toS {cs : List (Change × Nat)} (hnd : ((cs.map toS).map (·.id)).Nodup) :
    ∀ p ∈ cs, toC cs (toS p) = p.1 := by
  induction cs with
  | nil => intro p hp; simp at hp
  | cons q cs ih =>
    intro p hp
    simp only [List.map_cons, List.nodup_cons] at hnd
    unfold toC
    by_cases hq : q.1.id = p.1.id
    · have hpq : p = q := by
        rcases List.mem_cons.mp hp with e | e
        · exact e
        · exfalso; apply hnd.1
          refine List.mem_map.mpr ⟨toS p, List.mem_map.mpr ⟨p, e, rfl⟩, ?_⟩
          simp [toS, hq]
      subst hpq
      simp [toS]
    · have hpc : p ∈ cs := by
        rcases List.mem_cons.mp hp with e | e
        · rw [e] at hq; exact absurd rfl hq
        · exact e
      have := ih hnd.2 p hpc
      unfold toC at this
      have hb : (q.1.id == (toS p).id) = false := by simp [toS, hq]
      rw [List.find?_cons, hb]
      exact this

theorem flatten_map_changes (f : SChange → Change) (bs : List Batch) :
    (bs.map (fun b => b.changes.map f)).flatten = (flat bs).map f := by
  induction bs with
  | nil => rfl
  | cons b bs ih => simp [flat, List.flatMap_cons] at *; exact ih


/-- **apply_attaches_all** (receiver half): feeding the batches of an answer, in order, to a receiver tree
attaches every sent change -/
theorem apply_attaches (cs : List (Change × Nat)) (theirHeads : List Nat) (max : Nat) (t : T)
    (hlin : LinExt (cs.map toS)) (hnd : ((cs.map toS).map (·.id)).Nodup)
    (hroot : t.root.isSome = true) (hun : t.unatt = [])
    (hrm : ∀ x ∈ removedSet (cs.map toS) theirHeads, t.has x = true)
    (hbefore : ∀ c ∈ cs.map toS, ∀ p ∈ c.prevs, p ∉ (cs.map toS).map (·.id) → t.has p = true)
    (hsnap : ∀ l1 p l2, cs = l1 ++ p :: l2 → t.has p.1.snap = true ∨ p.1.snap ∈ l1.map (·.1.id))
    (hpar : ∀ p ∈ cs, p.1.prevs ≠ [] ∨ t.has p.1.id = true) :
    ∀ c ∈ flat (respond (cs.map toS) theirHeads max),
      ((respond (cs.map toS) theirHeads max).foldl (fun t b => (add t (b.changes.map (toC cs))).tree) t).has c.id = true := by
  have hfold : (respond (cs.map toS) theirHeads max).foldl (fun t b => (add t (b.changes.map (toC cs))).tree) t
      = addSeq t ((respond (cs.map toS) theirHeads max).map (fun b => b.changes.map (toC cs))) := by
    unfold addSeq; rw [List.foldl_map]
  rw [hfold]
  have hexact : flat (respond (cs.map toS) theirHeads max)
      = keep (fun x => (removedSet (cs.map toS) theirHeads).contains x) (cs.map toS) :=
    batches_flat _ max _ (cs.map toS) (Nat.lt_succ_self _)
  have hflat_sub : ∀ s ∈ flat (respond (cs.map toS) theirHeads max), s ∈ cs.map toS := by
    intro s hs; rw [hexact] at hs; exact (List.mem_filter.mp hs).1
  have hC := toC_toS hnd
  have hid : ∀ s ∈ cs.map toS, (toC cs s).id = s.id ∧ (toC cs s).prevs = s.prevs := by
    intro s hs
    obtain ⟨p, hp, rfl⟩ := List.mem_map.mp hs
    rw [hC p hp]; exact ⟨rfl, rfl⟩
  -- the stream of changes is causally ordered for the receiver
  have hcaus : CausalFor t ((respond (cs.map toS) theirHeads max).map (fun b => b.changes.map (toC cs))).flatten := by
    rw [flatten_map_changes]
    intro l1 c l2 hdec
    obtain ⟨s1, r, hfl, hs1, hr⟩ := List.map_eq_append_iff.mp hdec
    obtain ⟨s, s2, hr', hsc, _⟩ := List.map_eq_cons_iff.mp hr
    subst hr'
    have hsm : s ∈ cs.map toS := hflat_sub s (by rw [hfl]; simp)
    have hs1sub : ∀ d ∈ s1, d ∈ cs.map toS := fun d hd => hflat_sub d (by rw [hfl]; simp [hd])
    have hids : l1.map (·.id) = s1.map (·.id) := by
      rw [← hs1, List.map_map]
      apply List.map_congr_left
      intro d hd; exact (hid d (hs1sub d hd)).1
    have hkeep : keep (fun x => (removedSet (cs.map toS) theirHeads).contains x) (cs.map toS) = s1 ++ s :: s2 := by
      rw [← hexact, hfl]
    constructor
    · intro p hp
      have hp' : p ∈ s.prevs := by rw [← (hid s hsm).2, hsc]; exact hp
      have := keep_causal_held _ (cs.map toS) (·.prevs) (fun x => t.has x = true)
        (by
          intro m1 d m2 hd q hq
          by_cases hin : q ∈ (cs.map toS).map (·.id)
          · exact Or.inr (hlin m1 d m2 hd q hq hin)
          · exact Or.inl (hbefore d (by rw [hd]; simp) q hq hin))
        s1 s s2 hkeep p hp'
      rcases this with h | h | h
      · exact Or.inl h
      · exact Or.inl (hrm p (by simpa using h))
      · right; rw [hids]; exact h
    refine ⟨?_, ?_⟩
    · have := keep_causal_held _ (cs.map toS) (fun d => [(toC cs d).snap]) (fun x => t.has x = true)
        (by
          intro m1 d m2 hd q hq
          have hq' : q = (toC cs d).snap := by simpa using hq
          obtain ⟨n1, r2, hcs, hn1, hr2⟩ := List.map_eq_append_iff.mp hd
          obtain ⟨pp, n2, hr2', hpd, _⟩ := List.map_eq_cons_iff.mp hr2
          subst hr2'
          have hpp : pp ∈ cs := by rw [hcs]; simp
          rw [← hpd, hC pp hpp] at hq'
          rcases hsnap n1 pp n2 hcs with h | h
          · left; rw [hq']; exact h
          · right; rw [hq', ← hn1, List.map_map]
            obtain ⟨z, hz, hzid⟩ := List.mem_map.mp h
            exact List.mem_map.mpr ⟨z, hz, by simpa [toS] using hzid⟩)
        s1 s s2 hkeep (toC cs s).snap (by simp)
      rw [hsc] at this
      rcases this with h | h | h
      · exact Or.inl h
      · exact Or.inl (hrm _ (by simpa using h))
      · right; rw [hids]; exact h
    · obtain ⟨pp, hpp, hpps⟩ := List.mem_map.mp hsm
      rw [← hsc, ← hpps, hC pp hpp]
      exact hpar pp hpp
  obtain ⟨_, _, _, a4, _, _⟩ := addSeq_causal _ t hun hroot hcaus
  intro c hc
  have := a4 (toC cs c) (by rw [flatten_map_changes]; exact List.mem_map.mpr ⟨c, hc, rfl⟩)
  rw [(hid c (hflat_sub c hc)).1] at this
  exact this

end AnySync.Tree
