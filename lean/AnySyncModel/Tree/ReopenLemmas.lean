import AnySyncModel.Tree.Model
import AnySyncModel.Tree.Lemmas
import AnySyncModel.Tree.WaitLemmas
/-! Reopen = before close: building the tree from storage gives the in-memory tree back. -/
namespace AnySync.Tree

/-- the cascade of `attach` does not attach anything when no parked change is attachable -/
theorem cascade_inert (f : Nat) (ws : List Nat) : ∀ (s : T),
    (∀ u ∈ s.unatt, ∀ r w, canAttach s u false ≠ (true, r, w)) →
    (ws.foldl (cascadeStep f) s).att = s.att ∧ (ws.foldl (cascadeStep f) s).root = s.root ∧
    (∀ u ∈ (ws.foldl (cascadeStep f) s).unatt, u ∈ s.unatt) := by
  induction ws with
  | nil => intro s _; exact ⟨rfl, rfl, fun u hu => hu⟩
  | cons w ws ih =>
    intro s hs
    simp only [List.foldl_cons]
    have step : (cascadeStep f s w).att = s.att ∧ (cascadeStep f s w).root = s.root ∧
        (∀ u ∈ (cascadeStep f s w).unatt, u ∈ s.unatt) := by
      unfold cascadeStep
      cases hfind : s.unatt.find? (·.id == w) with
      | none => exact ⟨rfl, rfl, fun u hu => hu⟩
      | some n =>
        simp only
        have hnm : n ∈ s.unatt := List.mem_of_find?_eq_some hfind
        rcases canAttach_cases s n false with ⟨hca, _, _⟩ | ⟨hca, _⟩ | ⟨w', hca, _, _⟩
        · exact absurd hca (hs n hnm _ _)
        · rw [hca]; exact ⟨rfl, rfl, fun u hu => (List.mem_filter.mp hu).1⟩
        · rw [hca]; exact ⟨rfl, rfl, fun u hu => hu⟩
    obtain ⟨a1, a2, a3⟩ := step
    have hs' : ∀ u ∈ (cascadeStep f s w).unatt, ∀ r w', canAttach (cascadeStep f s w) u false ≠ (true, r, w') := by
      intro u hu r w'
      have := hs u (a3 u hu) r w'
      have e : canAttach (cascadeStep f s w) u false = canAttach s u false := by
        unfold canAttach T.has; rw [a1]
      rw [e]; exact this
    obtain ⟨b1, b2, b3⟩ := ih _ hs'
    exact ⟨b1.trans a1, b2.trans a2, fun u hu => a3 u (b3 u hu)⟩

theorem canAttach_true_ne {t : T} {c : Change} {b r : Bool} {w : List (Nat × Nat)}
    (h : canAttach t c b = (true, r, w)) : c.prevs ≠ [] := by
  intro he
  unfold canAttach at h
  simp [he] at h


/-- what the storage holds for an in-memory tree with attached changes `A` and root `r`: `rootC :: rest` is the
stored sequence from the root snapshot on.  Every in-memory change is in it, after its previous ids and its
snapshot base (stored order is a linear extension - `storage_order_causal` - and the snapshot base was attached
when the change was); a stored change that is not in memory is not attachable to what is in memory (the tree
holds every stored change that descends from its root). -/
structure StoredFor (A : List Change) (r : Nat) (rootC : Change) (rest : List Change) : Prop where
  rootIn : rootC ∈ A
  rootId : rootC.id = r
  nodup : ((rootC :: rest).map (·.id)).Nodup
  nodupA : (A.map (·.id)).Nodup
  held : ∀ c ∈ A, c ∈ rootC :: rest
  lin : ∀ l1 c l2, rest = l1 ++ c :: l2 → c ∈ A →
      c.prevs ≠ [] ∧ (∀ p ∈ c.prevs, ∃ d ∈ rootC :: l1, d ∈ A ∧ d.id = p) ∧ (∃ d ∈ rootC :: l1, d ∈ A ∧ d.id = c.snap)
  closed : ∀ c ∈ rest, c ∉ A → c.prevs ≠ [] → (∀ p ∈ c.prevs, p ∈ A.map (·.id)) → False

theorem nodup_split_ne {X Y : List Change} {c : Change} (h : ((X ++ c :: Y).map (·.id)).Nodup) :
    ∀ d ∈ X, d.id ≠ c.id := by
  intro d hd e
  rw [List.map_append, List.nodup_append] at h
  exact h.2.2 d.id (List.mem_map.mpr ⟨d, hd, rfl⟩) c.id (by simp) e

theorem rebuild_loop {A : List Change} {r : Nat} {rootC : Change} {rest : List Change}
    (h : StoredFor A r rootC rest) : ∀ (l2 l1 : List Change) (t : T), rest = l1 ++ l2 →
    t.root = some r → (∀ d ∈ t.att, d ∈ A ∧ d ∈ rootC :: l1) → (∀ u ∈ t.unatt, u ∉ A ∧ u ∈ l1) →
    (∀ d ∈ rootC :: l1, d ∈ A → d ∈ t.att) → (t.att.map (·.id)).Nodup →
    (addAll t l2).root = some r ∧ (∀ d ∈ (addAll t l2).att, d ∈ A) ∧
    (∀ d ∈ rootC :: rest, d ∈ A → d ∈ (addAll t l2).att) ∧ ((addAll t l2).att.map (·.id)).Nodup := by
  intro l2
  induction l2 with
  | nil =>
    intro l1 t hdec hr ha _ hc hnd
    have : rest = l1 := by simpa using hdec
    subst this
    exact ⟨hr, fun d hd => (ha d hd).1, hc, hnd⟩
  | cons c l2 ih =>
    intro l1 t hdec hr ha hb hc hnd
    have hcrest : c ∈ rest := by rw [hdec]; simp
    have hndall : (((rootC :: l1) ++ c :: l2).map (·.id)).Nodup := by
      have := h.nodup; rw [hdec] at this; simpa using this
    have hne := nodup_split_ne hndall
    have hhas : t.has c.id = false := by
      cases hh : t.has c.id
      · rfl
      · obtain ⟨d, hd, hid⟩ := List.mem_map.mp (has_iff.mp hh)
        exact absurd hid (hne d (ha d hd).2)
    have hhun : t.hasUn c.id = false := by
      cases hh : t.hasUn c.id
      · rfl
      · unfold T.hasUn at hh
        obtain ⟨u, hu, hid⟩ := List.any_eq_true.mp hh
        exact absurd (by simpa using hid) (hne u (List.mem_cons_of_mem _ (hb u hu).2))
    have hidsA : ∀ p, t.has p = true → p ∈ A.map (·.id) := by
      intro p hp
      obtain ⟨d, hd, hid⟩ := List.mem_map.mp (has_iff.mp hp)
      exact List.mem_map.mpr ⟨d, (ha d hd).1, hid⟩
    unfold addAll
    simp only [List.foldl_cons, hhas, hhun, Bool.or_self, Bool.false_eq_true, if_false]
    have hdec' : rest = (l1 ++ [c]) ++ l2 := by rw [hdec]; simp
    -- the state after `c`
    have key : ∃ t', addOne t c = t' ∧ t'.root = some r ∧ (∀ d ∈ t'.att, d ∈ A ∧ d ∈ rootC :: (l1 ++ [c])) ∧
        (∀ u ∈ t'.unatt, u ∉ A ∧ u ∈ l1 ++ [c]) ∧ (∀ d ∈ rootC :: (l1 ++ [c]), d ∈ A → d ∈ t'.att) ∧
        (t'.att.map (·.id)).Nodup := by
      by_cases hcA : c ∈ A
      · obtain ⟨hne', hprevs, hsnap⟩ := h.lin l1 c l2 hdec hcA
        have hp : ∀ p ∈ c.prevs, t.has p = true := by
          intro p hp
          obtain ⟨d, hd, hdA, hid⟩ := hprevs p hp
          exact has_iff.mpr (List.mem_map.mpr ⟨d, hc d hd hdA, hid⟩)
        have hs : t.has c.snap = true := by
          obtain ⟨d, hd, hdA, hid⟩ := hsnap
          exact has_iff.mpr (List.mem_map.mpr ⟨d, hc d hd hdA, hid⟩)
        have hone : addOne t c = attach (t.unatt.length + 1) t c := by
          unfold addOne; rw [hr, canAttach_ok hne' hp hs]
        -- nothing parked becomes attachable
        have hin := cascade_inert t.unatt.length (waitersOf t c) (push t c) (by
          intro u hu r' w' hca
          have hu' := (List.mem_filter.mp hu).1
          have hnp := canAttach_true_ne hca
          have hall := (canAttach_true hca).1
          apply h.closed u (by rw [hdec]; exact List.mem_append.mpr (Or.inl (hb u hu').2)) (hb u hu').1 hnp
          intro p hp'
          rcases push_has.mp (hall p hp') with h1 | h1
          · exact hidsA p h1
          · rw [h1]; exact List.mem_map.mpr ⟨c, hcA, rfl⟩)
        rw [hone, attach_succ]
        refine ⟨_, rfl, ?_, ?_, ?_, ?_, ?_⟩
        · show (List.foldl (cascadeStep t.unatt.length) (push t c) (waitersOf t c)).root = some r
          rw [hin.2.1]; exact hr
        · intro d hd
          have hd' : d ∈ (push t c).att := by rw [← hin.1]; exact hd
          rcases List.mem_append.mp hd' with h1 | h1
          · exact ⟨(ha d h1).1, by
              rcases List.mem_cons.mp (ha d h1).2 with e | e
              · exact e ▸ (by simp)
              · exact List.mem_cons_of_mem _ (List.mem_append.mpr (Or.inl e))⟩
          · have : d = c := by simpa using h1
            rw [this]; exact ⟨hcA, by simp⟩
        · intro u hu
          have hu' := (List.mem_filter.mp (hin.2.2 u hu)).1
          exact ⟨(hb u hu').1, List.mem_append.mpr (Or.inl (hb u hu').2)⟩
        · intro d hd hdA
          show d ∈ (List.foldl (cascadeStep t.unatt.length) (push t c) (waitersOf t c)).att
          rw [hin.1]
          rcases List.mem_cons.mp hd with e | e
          · exact List.mem_append.mpr (Or.inl (hc d (by rw [e]; simp) hdA))
          · rcases List.mem_append.mp e with e' | e'
            · exact List.mem_append.mpr (Or.inl (hc d (List.mem_cons_of_mem _ e') hdA))
            · exact List.mem_append.mpr (Or.inr e')
        · show ((List.foldl (cascadeStep t.unatt.length) (push t c) (waitersOf t c)).att.map (·.id)).Nodup
          rw [hin.1]
          show ((t.att ++ [c]).map (·.id)).Nodup
          rw [List.map_append, List.nodup_append]
          refine ⟨hnd, by simp, ?_⟩
          intro x hx y hy
          have : y = c.id := by simpa using hy
          subst this
          intro e; subst e
          rw [← has_iff] at hx; rw [hx] at hhas; exact Bool.noConfusion hhas
      · -- a stored change that is not in memory: dropped or parked, never attached
        have hkeep : ∀ (t' : T), t'.root = t.root → t'.att = t.att → (∀ u ∈ t'.unatt, u ∈ t.unatt ∨ u = c) →
            t'.root = some r ∧ (∀ d ∈ t'.att, d ∈ A ∧ d ∈ rootC :: (l1 ++ [c])) ∧
            (∀ u ∈ t'.unatt, u ∉ A ∧ u ∈ l1 ++ [c]) ∧ (∀ d ∈ rootC :: (l1 ++ [c]), d ∈ A → d ∈ t'.att) ∧
            (t'.att.map (·.id)).Nodup := by
          intro t' e1 e2 e3
          refine ⟨e1.trans hr, ?_, ?_, ?_, by rw [e2]; exact hnd⟩
          · intro d hd; rw [e2] at hd
            refine ⟨(ha d hd).1, ?_⟩
            rcases List.mem_cons.mp (ha d hd).2 with e | e
            · rw [e]; simp
            · exact List.mem_cons_of_mem _ (List.mem_append.mpr (Or.inl e))
          · intro u hu
            rcases e3 u hu with h1 | h1
            · exact ⟨(hb u h1).1, List.mem_append.mpr (Or.inl (hb u h1).2)⟩
            · rw [h1]; exact ⟨hcA, by simp⟩
          · intro d hd hdA
            rw [e2]
            rcases List.mem_cons.mp hd with e | e
            · exact hc d (by rw [e]; simp) hdA
            · rcases List.mem_append.mp e with e' | e'
              · exact hc d (List.mem_cons_of_mem _ e') hdA
              · have : d = c := by simpa using e'
                rw [this] at hdA; exact absurd hdA hcA
        rcases canAttach_cases t c true with ⟨hca, hp, _⟩ | ⟨hca, _⟩ | ⟨w', hca, _, _⟩
        · exfalso
          exact h.closed c hcrest hcA (canAttach_true_ne hca) (fun p hp' => hidsA p (hp p hp'))
        · have : addOne t c = t := by unfold addOne; rw [hr, hca]
          exact ⟨_, rfl, by rw [this]; exact hkeep t rfl rfl (fun u hu => Or.inl hu)⟩
        · have : addOne t c = { t with unatt := t.unatt ++ [c], wait := t.wait ++ w' } := by
            unfold addOne; rw [hr, hca]
          refine ⟨_, rfl, ?_⟩
          rw [this]
          exact hkeep _ rfl rfl (fun u hu => by
            rcases List.mem_append.mp hu with h1 | h1
            · exact Or.inl h1
            · right; simpa using h1)
    obtain ⟨t', ht', k1, k2, k3, k4, k5⟩ := key
    rw [ht']
    exact ih (l1 ++ [c]) t' hdec' k1 k2 k3 k4 k5


/-- **reopen**: building from storage gives the in-memory tree back - same root, same attached set (a permutation
of the attachment list), same presented sequence, same heads, same last iterated head -/
theorem reopen_same (A : List Change) (r : Nat) (stored : List Change) (rootC : Change) (rest : List Change)
    (hload : stored.dropWhile (·.id != r) = rootC :: rest) (h : StoredFor A r rootC rest) :
    (buildFromStorage stored r).root = some r ∧ (buildFromStorage stored r).att.Perm A ∧
    (buildFromStorage stored r).unatt = [] ∧
    iter r (buildFromStorage stored r).att = iter r A ∧
    headsOf (buildFromStorage stored r).att (iter r (buildFromStorage stored r).att) = headsOf A (iter r A) ∧
    (buildFromStorage stored r).lastIter = lastOf (headsOf A (iter r A)) r := by
  have hfirst : addAll {} (rootC :: rest)
      = addAll { root := some r, att := [rootC], added := [r], lastIter := r } rest := by
    unfold addAll
    simp only [List.foldl_cons]
    have : (({} : T).has rootC.id || ({} : T).hasUn rootC.id) = false := by simp [T.has, T.hasUn]
    rw [this]
    simp only [Bool.false_eq_true, if_false]
    have : addOne {} rootC = { root := some r, att := [rootC], added := [r], lastIter := r } := by
      unfold addOne; simp [h.rootId]
    rw [this]
  obtain ⟨l1, l2, l3, l4⟩ := rebuild_loop h rest [] { root := some r, att := [rootC], added := [r], lastIter := r }
    (by simp) rfl (by intro d hd; have : d = rootC := by simpa using hd
                      rw [this]; exact ⟨h.rootIn, by simp⟩)
    (by intro u hu; simp at hu)
    (by intro d hd _; have : d = rootC := by simpa using hd
        rw [this]; simp)
    (by simp)
  have hperm : (addAll {} (rootC :: rest)).att.Perm A := by
    rw [hfirst, List.perm_ext_iff_of_nodup (nodup_of_map_id l4) (nodup_of_map_id h.nodupA)]
    intro d; exact ⟨l2 d, fun hd => l3 d (h.held d hd) hd⟩
  have hroot : (addAll {} (rootC :: rest)).root = some r := by rw [hfirst]; exact l1
  have hatt : (buildFromStorage stored r).att = (addAll {} (rootC :: rest)).att := by
    unfold buildFromStorage; simp only [hload, hroot]
  have hiter : iter r (buildFromStorage stored r).att = iter r A := by rw [hatt]; exact iter_perm hperm r
  have hheads : headsOf (buildFromStorage stored r).att (iter r (buildFromStorage stored r).att) = headsOf A (iter r A) := by
    rw [hiter, hatt]
    unfold headsOf
    have : children (addAll {} (rootC :: rest)).att = children A := funext (children_congr (fun c => hperm.mem_iff))
    rw [this]
  refine ⟨?_, by rw [hatt]; exact hperm, ?_, hiter, hheads, ?_⟩
  · unfold buildFromStorage; simp only [hload, hroot]
  · unfold buildFromStorage; simp only [hload, hroot]
  · have : (buildFromStorage stored r).lastIter
        = lastOf (headsOf (addAll {} (rootC :: rest)).att (iter r (addAll {} (rootC :: rest)).att)) r := by
      unfold buildFromStorage; simp only [hload, hroot]
    rw [this, ← hatt]; rw [hheads]

end AnySync.Tree
