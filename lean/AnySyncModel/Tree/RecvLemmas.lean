import AnySyncModel.Tree.ObjectTreeLemmas
/-! The receiver machine (`Recv`/`RecvStep`/`RecvRun`): invariants and their preservation. -/
namespace AnySync.Tree

/-- the receiver's storage invariant: unique ids; every stored change other than the first one (the tree root) is
stored after all its previous ids and after its snapshot base - i.e. the storage is ancestor-closed and the stored
order is a linear extension (including the snapshot edge) -/
structure SInv (stored : List Change) : Prop where
  nodup : (stored.map (·.id)).Nodup
  lin : ∀ l1 c l2, stored = l1 ++ c :: l2 → l1 ≠ [] →
    (∀ p ∈ c.prevs, p ∈ l1.map (·.id)) ∧ c.snap ∈ l1.map (·.id)

theorem decomp_unique {l : List Change} (h : (l.map (·.id)).Nodup) :
    ∀ {a a' b b' : List Change} {c : Change}, l = a ++ c :: b → l = a' ++ c :: b' → a = a' := by
  intro a
  induction a generalizing l with
  | nil =>
    intro a' b b' c h1 h2
    cases a' with
    | nil => rfl
    | cons x a' =>
      exfalso
      rw [h1] at h2
      simp only [List.nil_append, List.cons_append, List.cons.injEq] at h2
      obtain ⟨hx, hb⟩ := h2
      rw [h1, hb] at h
      simp only [List.nil_append, List.map_cons, List.nodup_cons] at h
      apply h.1
      rw [List.map_append]; simp
  | cons x a ih =>
    intro a' b b' c h1 h2
    cases a' with
    | nil =>
      exfalso
      rw [h2] at h1
      simp only [List.nil_append, List.cons_append, List.cons.injEq] at h1
      obtain ⟨hx, hb⟩ := h1
      rw [h2, hb] at h
      simp only [List.nil_append, List.map_cons, List.nodup_cons] at h
      apply h.1
      rw [List.map_append]; simp
    | cons y a' =>
      rw [h1] at h2
      simp only [List.cons_append, List.cons.injEq] at h2
      obtain ⟨hxy, hrest⟩ := h2
      subst hxy
      have hnd : ((a ++ c :: b).map (·.id)).Nodup := by
        rw [h1] at h; simp only [List.cons_append, List.map_cons, List.nodup_cons] at h; exact h.2
      rw [ih hnd rfl hrest]

theorem storageUpdate_sinv {old new added : List Change} (hu : StorageUpdate old new added) (hs : SInv old) :
    SInv new := by
  obtain ⟨hf, hmem, hnd, hadd⟩ := hu
  refine ⟨hnd, ?_⟩
  intro l1 c l2 hdec hne
  have hc : c ∈ new := by rw [hdec]; simp
  rcases (hmem c).mp hc with hco | hca
  · -- an old entry: its old predecessors still precede it
    obtain ⟨o1, o2, ho⟩ := List.append_of_mem hco
    have hf' : new.filter (fun c => old.any (·.id == c.id)) = o1 ++ c :: o2 := by rw [hf, ho]
    obtain ⟨n1, n2, hn, hf1, hf2⟩ := List.filter_eq_append_iff.mp hf'
    obtain ⟨m1, m2, hm, hno, _, _⟩ := List.filter_eq_cons_iff.mp hf2
    have hdec' : new = (n1 ++ m1) ++ c :: m2 := by rw [hn, hm]; simp
    have hl1 : l1 = n1 ++ m1 := decomp_unique hnd hdec hdec'
    by_cases ho1 : o1 = []
    · -- `c` is the first old entry (the tree root): nothing added can come before it
      exfalso
      subst ho1
      have hn1 : ∀ x ∈ l1, ¬ (old.any (·.id == x.id) = true) := by
        intro x hx
        rw [hl1] at hx
        rcases List.mem_append.mp hx with h | h
        · intro hx'
          have : x ∈ n1.filter (fun c => old.any (·.id == c.id)) := List.mem_filter.mpr ⟨h, hx'⟩
          rw [hf1] at this; simp at this
        · exact hno x h
      cases l1 with
      | nil => exact hne rfl
      | cons x l1' =>
        have hx : x ∈ new := by rw [hdec]; simp
        rcases (hmem x).mp hx with h | h
        · apply hn1 x (by simp)
          exact List.any_eq_true.mpr ⟨x, h, by simp⟩
        · have := (hadd [] x (l1' ++ c :: l2) (by rw [hdec]; simp) h).2
          simp at this
    · obtain ⟨h1, h2⟩ := hs.lin o1 c o2 ho ho1
      have hsub : ∀ p, p ∈ o1.map (·.id) → p ∈ l1.map (·.id) := by
        intro p hp
        obtain ⟨d, hd, hid⟩ := List.mem_map.mp hp
        rw [← hf1] at hd
        rw [hl1]
        exact List.mem_map.mpr ⟨d, List.mem_append.mpr (Or.inl (List.mem_filter.mp hd).1), hid⟩
      exact ⟨fun p hp => hsub p (h1 p hp), hsub _ h2⟩
  · exact hadd l1 c l2 hdec hca

end AnySync.Tree
