import AnySyncModel.Tree.ObjectTreeLemmas
/-! The receiver machine (`Recv`/`RecvStep`/`RecvRun`): invariants and their preservation. -/
namespace AnySync.Tree

/-- the receiver's storage invariant: unique ids; every stored change other than the first one (the tree root) is
stored after all its previous ids and after its snapshot base - i.e. the storage is ancestor-closed and the stored
order is a linear extension (including the snapshot edge) -/
structure SInv (stored : List Change) : Prop where
  nodup : (stored.map (·.id)).Nodup
  lin : ∀ l1 c l2, stored = l1 ++ c :: l2 → l1 ≠ [] →
    (∀ p ∈ c.prevs, p ∈ l1.map (·.id)) ∧ c.snap ∈ l1.map (·.id)

theorem decomp_unique {l : List Change} (h : (l.map (·.id)).Nodup) :
    ∀ {a a' b b' : List Change} {c : Change}, l = a ++ c :: b → l = a' ++ c :: b' → a = a' := by
  intro a
  induction a generalizing l with
  | nil =>
    intro a' b b' c h1 h2
    cases a' with
    | nil => rfl
    | cons x a' =>
      exfalso
      rw [h1] at h2
      simp only [List.nil_append, List.cons_append, List.cons.injEq] at h2
      obtain ⟨hx, hb⟩ := h2
      rw [h1, hb] at h
      simp only [List.nil_append, List.map_cons, List.nodup_cons] at h
      apply h.1
      rw [List.map_append]; simp
  | cons x a ih =>
    intro a' b b' c h1 h2
    cases a' with
    | nil =>
      exfalso
      rw [h2] at h1
      simp only [List.nil_append, List.cons_append, List.cons.injEq] at h1
      obtain ⟨hx, hb⟩ := h1
      rw [h2, hb] at h
      simp only [List.nil_append, List.map_cons, List.nodup_cons] at h
      apply h.1
      rw [List.map_append]; simp
    | cons y a' =>
      rw [h1] at h2
      simp only [List.cons_append, List.cons.injEq] at h2
      obtain ⟨hxy, hrest⟩ := h2
      subst hxy
      have hnd : ((a ++ c :: b).map (·.id)).Nodup := by
        rw [h1] at h; simp only [List.cons_append, List.map_cons, List.nodup_cons] at h; exact h.2
      rw [ih hnd rfl hrest]

theorem storageUpdate_sinv {old new added : List Change} (hu : StorageUpdate old new added) (hs : SInv old) :
    SInv new := by
  obtain ⟨hf, hmem, hnd, hadd⟩ := hu
  refine ⟨hnd, ?_⟩
  intro l1 c l2 hdec hne
  have hc : c ∈ new := by rw [hdec]; simp
  rcases (hmem c).mp hc with hco | hca
  · -- an old entry: its old predecessors still precede it
    obtain ⟨o1, o2, ho⟩ := List.append_of_mem hco
    have hf' : new.filter (fun c => old.any (·.id == c.id)) = o1 ++ c :: o2 := by rw [hf, ho]
    obtain ⟨n1, n2, hn, hf1, hf2⟩ := List.filter_eq_append_iff.mp hf'
    obtain ⟨m1, m2, hm, hno, _, _⟩ := List.filter_eq_cons_iff.mp hf2
    have hdec' : new = (n1 ++ m1) ++ c :: m2 := by rw [hn, hm]; simp
    have hl1 : l1 = n1 ++ m1 := decomp_unique hnd hdec hdec'
    by_cases ho1 : o1 = []
    · -- `c` is the first old entry (the tree root): nothing added can come before it
      exfalso
      subst ho1
      have hn1 : ∀ x ∈ l1, ¬ (old.any (·.id == x.id) = true) := by
        intro x hx
        rw [hl1] at hx
        rcases List.mem_append.mp hx with h | h
        · intro hx'
          have : x ∈ n1.filter (fun c => old.any (·.id == c.id)) := List.mem_filter.mpr ⟨h, hx'⟩
          rw [hf1] at this; simp at this
        · exact hno x h
      cases l1 with
      | nil => exact hne rfl
      | cons x l1' =>
        have hx : x ∈ new := by rw [hdec]; simp
        rcases (hmem x).mp hx with h | h
        · apply hn1 x (by simp)
          exact List.any_eq_true.mpr ⟨x, h, by simp⟩
        · have := (hadd [] x (l1' ++ c :: l2) (by rw [hdec]; simp) h).2
          simp at this
    · obtain ⟨h1, h2⟩ := hs.lin o1 c o2 ho ho1
      have hsub : ∀ p, p ∈ o1.map (·.id) → p ∈ l1.map (·.id) := by
        intro p hp
        obtain ⟨d, hd, hid⟩ := List.mem_map.mp hp
        rw [← hf1] at hd
        rw [hl1]
        exact List.mem_map.mpr ⟨d, List.mem_append.mpr (Or.inl (List.mem_filter.mp hd).1), hid⟩
      exact ⟨fun p hp => hsub p (h1 p hp), hsub _ h2⟩
  · exact hadd l1 c l2 hdec hca

/-- the tree holding only the common snapshot: where the rebuild starts -/
def baseTree (cs : Nat) (csC : Change) : T := { root := some cs, att := [csC], added := [cs], lastIter := cs }

theorem addAll_from_empty (cs : Nat) (csC : Change) (rest : List Change) (hid : csC.id = cs) :
    addAll {} (csC :: rest) = addAll (baseTree cs csC) rest := by
  unfold addAll
  simp only [List.foldl_cons]
  have : (({} : T).has csC.id || ({} : T).hasUn csC.id) = false := by simp [T.has, T.hasUn]
  rw [this]
  simp only [Bool.false_eq_true, if_false]
  have : addOne {} csC = baseTree cs csC := by
    unfold addOne baseTree; simp [hid]
  rw [this]

/-- **the rebuild branch, from a causal enumeration.**  `U` = what is loaded after the common snapshot plus the not yet
stored changes of the batch.  If some sub-list `l0` of `U` that contains all those new changes can be enumerated
causally from the common snapshot (every previous id / snapshot base is the common snapshot or earlier in `l0`), the
snapshot of a change is attached whenever its previous ids are (`SnapOK`), and ids are unique, then the rebuilt tree is
rooted at the common snapshot, holds every new change, and reports each of them as added. -/
theorem addRaw_rebuilt_causal (stored : List Change) (ourPath theirPath : List Nat) (t : T) (batch : List Change)
    (cs : Nat) (csC : Change) (rest : List Change) (t' : T) (added : List Nat)
    (hcs : commonSnapshot ourPath theirPath = some cs)
    (hload : stored.dropWhile (·.id != cs) = csC :: rest)
    (hid : csC.id = cs) (hself : cs ∉ csC.prevs)
    (huniq : ∀ a ∈ rest ++ extraOf stored t batch, ∀ b ∈ rest ++ extraOf stored t batch, a.id = b.id → a = b)
    (hrootprev : ∀ p ∈ csC.prevs, ∀ c ∈ rest ++ extraOf stored t batch, c.id ≠ p)
    (hs : SnapOK (rest ++ extraOf stored t batch) (baseTree cs csC))
    (l0 : List Change) (hl0 : ∀ c ∈ l0, c ∈ rest ++ extraOf stored t batch)
    (hcaus : CausalFor (baseTree cs csC) l0) (hext : ∀ c ∈ extraOf stored t batch, c ∈ l0)
    (hres : addRaw stored ourPath theirPath t batch = .rebuilt t' added) :
    t'.root = some cs ∧ t'.unatt = [] ∧ ∀ c ∈ extraOf stored t batch, t'.has c.id = true ∧ c.id ∈ added := by
  have hwf : WFAtt [csC] := by
    have := @WFAtt.snoc [] csC WFAtt.nil (by simp) (by rw [hid]; exact hself) (by simp)
    simpa using this
  have hst : St (rest ++ extraOf stored t batch) (baseTree cs csC) (baseTree cs csC) [] := by
    refine ⟨⟨hwf, ?_, by intro u hu; simp [baseTree] at hu⟩,
      ⟨by intro u hu; simp [baseTree] at hu, by intro u hu; simp [baseTree] at hu, by simp [baseTree]⟩, fun _ h => h⟩
    intro d hd p hp
    have : d = csC := by simpa [baseTree] using hd
    subst this
    exact Or.inr (fun c hc => hrootprev p hp c hc)
  have hroot : (baseTree cs csC).root.isSome = true := by simp [baseTree]
  have hall := addAll_complete _ (baseTree cs csC) hs (baseTree cs csC) (rest ++ extraOf stored t batch) l0
    (fun c hc => hc) hst hroot huniq hl0 hcaus
  obtain ⟨_, e1, _, _⟩ := addAll_w _ (baseTree cs csC) hs (rest ++ extraOf stored t batch) (baseTree cs csC)
    (fun c hc => hc) hst hroot
  have hlist : stored.dropWhile (·.id != cs) ++ extraOf stored t batch = csC :: (rest ++ extraOf stored t batch) := by
    rw [hload]; rfl
  unfold addRaw at hres
  simp only at hres
  split at hres
  · simp at hres
  · split at hres
    · rw [hcs] at hres
      simp only [RawOutcome.rebuilt.injEq] at hres
      obtain ⟨ht', hadded⟩ := hres
      have hE : dedupById ((batch.filter (fun c => !t.has c.id)).filter (fun c => !stored.any (·.id == c.id)))
          = extraOf stored t batch := rfl
      rw [hE, hlist, addAll_from_empty cs csC _ hid] at ht' hadded
      have hhas : ∀ x, t'.has x = (addAll (baseTree cs csC) (rest ++ extraOf stored t batch)).has x := by
        intro x; rw [← ht']; rfl
      refine ⟨by rw [← ht']; exact e1.1, by rw [← ht'], ?_⟩
      intro c hc
      have h1 := hall c (hext c hc)
      refine ⟨by rw [hhas]; exact h1, ?_⟩
      rw [← hadded]
      exact List.mem_map.mpr ⟨c, List.mem_filter.mpr ⟨hc, h1⟩, rfl⟩
    · simp at hres


/-- **a causal enumeration from the entry property.**  `pre ++ csC :: rest` is the storage, `extra` the not yet stored
changes of the batch, the whole sequence being a linear extension (`SInv`); `D` marks the changes strictly below the
common snapshot `cs`, and below `cs` the DAG is entered only through `cs` (every previous id and the snapshot base of a
marked change is `cs` or marked - `honest_entry` for honest histories).  Then the marked changes, in stored order, form
a causal enumeration from `cs`. -/
theorem causal_from_entry (pre rest extra : List Change) (cs : Nat) (csC : Change) (D : Nat → Bool)
    (hF : SInv ((pre ++ csC :: rest) ++ extra)) (hid : csC.id = cs)
    (D0 : D cs = false) (Dpre : ∀ c ∈ pre, D c.id = false)
    (D1 : ∀ c ∈ rest ++ extra, D c.id = true →
      c.prevs ≠ [] ∧ (∀ p ∈ c.prevs, p = cs ∨ D p = true) ∧ (c.snap = cs ∨ D c.snap = true)) :
    CausalFor (baseTree cs csC) ((rest ++ extra).filter (fun c => D c.id)) := by
  have hhas : (baseTree cs csC).has cs = true := by
    simp [baseTree, T.has, hid]
  intro a c b hdec
  obtain ⟨x1, x2', hW, hf1, hf2⟩ := List.filter_eq_append_iff.mp hdec
  obtain ⟨m1, x2, hm, hno, hDc, _⟩ := List.filter_eq_cons_iff.mp hf2
  have hW' : rest ++ extra = (x1 ++ m1) ++ c :: x2 := by rw [hW, hm]; simp
  have hcW : c ∈ rest ++ extra := by rw [hW']; simp
  obtain ⟨hne, hprevs, hsnap⟩ := D1 c hcW hDc
  -- where `c` sits in the whole sequence
  have hFdec : (pre ++ csC :: rest) ++ extra = (pre ++ csC :: (x1 ++ m1)) ++ c :: x2 := by
    have : (pre ++ csC :: rest) ++ extra = pre ++ csC :: (rest ++ extra) := by simp
    rw [this, hW']; simp
  obtain ⟨hlp, hls⟩ := hF.lin _ c x2 hFdec (by simp)
  -- an id that is marked and stored before `c` is the id of a marked change among `x1 ++ m1`, hence of `a`
  have key : ∀ p, D p = true → p ∈ (pre ++ csC :: (x1 ++ m1)).map (·.id) → p ∈ a.map (·.id) := by
    intro p hDp hp
    obtain ⟨d, hd, hdid⟩ := List.mem_map.mp hp
    rcases List.mem_append.mp hd with h | h
    · have := Dpre d h; rw [hdid, hDp] at this; exact Bool.noConfusion this
    · rcases List.mem_cons.mp h with h | h
      · rw [h, hid] at hdid; rw [← hdid, D0] at hDp; exact Bool.noConfusion hDp
      · rcases List.mem_append.mp h with h | h
        · rw [← hf1]
          exact List.mem_map.mpr ⟨d, List.mem_filter.mpr ⟨h, by rw [hdid]; exact hDp⟩, hdid⟩
        · have := hno d h
          rw [hdid, hDp] at this; exact absurd rfl this
  refine ⟨?_, ?_, Or.inl hne⟩
  · intro p hp
    rcases hprevs p hp with e | e
    · left; rw [e]; exact hhas
    · exact Or.inr (key p e (hlp p hp))
  · rcases hsnap with e | e
    · left; rw [e]; exact hhas
    · exact Or.inr (key _ e hls)


theorem attach_direct_added (f : Nat) (t : T) (c : Change) (hun : t.unatt = []) :
    (attach (f + 1) t c).added = t.added ++ [c.id] := by
  have h := cascade_noop f ((t.wait.filter (·.1 == c.id)).map (·.2))
    { t with att := t.att ++ [c], added := t.added ++ [c.id], unatt := t.unatt.filter (·.id != c.id) }
    (by simp [hun])
  unfold attach
  simp only
  exact (congrArg T.added h).trans rfl

theorem addOne_direct_added (t : T) (c : Change) (hun : t.unatt = []) (hroot : t.root.isSome = true)
    (hne : c.prevs ≠ []) (hp : ∀ p ∈ c.prevs, t.has p = true) (hs : t.has c.snap = true) :
    (addOne t c).added = t.added ++ [c.id] := by
  unfold addOne
  split
  · rename_i h; simp [h] at hroot
  · rw [canAttach_ok hne hp hs]
    simp only
    rw [hun]
    exact attach_direct_added 0 t c hun

/-- a causally ordered run reports every change it newly attaches (`addedBuf`) -/
theorem addAll_causal_added : ∀ (l : List Change) (t : T), t.unatt = [] → t.root.isSome = true → CausalFor t l →
    (∀ x ∈ t.added, x ∈ (addAll t l).added) ∧ (∀ c ∈ l, t.has c.id = false → c.id ∈ (addAll t l).added) := by
  intro l
  induction l with
  | nil => intro t _ _ _; exact ⟨fun x hx => hx, by simp⟩
  | cons c l ih =>
    intro t hun hroot hc
    have hsplit : addAll t (c :: l) = addAll (addAll t [c]) l := by
      unfold addAll; rfl
    have hc1 : CausalFor t [c] := by
      have : CausalFor t ([c] ++ l) := by simpa using hc
      exact this.prefix
    obtain ⟨a1, a2, a3, a4, _, _⟩ := addAll_causal [c] t hun hroot hc1
    have hcaus : CausalFor (addAll t [c]) l := by
      intro l1 d l2 hdec
      have := hc (c :: l1) d l2 (by rw [hdec]; rfl)
      refine ⟨?_, ?_, this.2.2.imp id (fun h => a3 _ h)⟩
      · intro p hp
        rcases this.1 p hp with h | h
        · exact Or.inl (a3 p h)
        · rcases List.mem_cons.mp h with e | e
          · left; rw [e]; exact a4 c (by simp)
          · exact Or.inr e
      · rcases this.2.1 with h | h
        · exact Or.inl (a3 _ h)
        · rcases List.mem_cons.mp h with e | e
          · left; rw [e]; exact a4 c (by simp)
          · exact Or.inr e
    obtain ⟨i1, i2⟩ := ih (addAll t [c]) a1 (by rw [a2]; exact hroot) hcaus
    -- the first step
    have hstep : (∀ x ∈ t.added, x ∈ (addAll t [c]).added) ∧ (t.has c.id = false → c.id ∈ (addAll t [c]).added) := by
      have h0 := hc [] c l rfl
      have e : addAll t [c] = if t.has c.id || t.hasUn c.id then t else addOne t c := by
        unfold addAll; rfl
      cases hh : t.has c.id
      · have hunf : t.hasUn c.id = false := by simp [T.hasUn, hun]
        have hp : ∀ p ∈ c.prevs, t.has p = true := by
          intro p hp; rcases h0.1 p hp with h | h
          · exact h
          · simp at h
        have hs : t.has c.snap = true := by
          rcases h0.2.1 with h | h
          · exact h
          · simp at h
        have hne : c.prevs ≠ [] := by
          rcases h0.2.2 with h | h
          · exact h
          · rw [h] at hh; exact Bool.noConfusion hh
        rw [e]; simp only [hh, hunf, Bool.or_self, Bool.false_eq_true, if_false]
        rw [addOne_direct_added t c hun hroot hne hp hs]
        exact ⟨fun x hx => List.mem_append.mpr (Or.inl hx), fun _ => by simp⟩
      · rw [e]; simp only [hh, Bool.true_or, if_true]
        exact ⟨fun x hx => hx, fun h => Bool.noConfusion h⟩
    rw [hsplit]
    refine ⟨fun x hx => i1 x (hstep.1 x hx), ?_⟩
    intro d hd hnot
    rcases List.mem_cons.mp hd with e | e
    · rw [e]; exact i1 _ (hstep.2 (e ▸ hnot))
    · by_cases hh : (addAll t [c]).has d.id = true
      · -- same id as `c` (attached by the first step): reported there
        have : d.id = c.id := by
          -- `d` was not attached before and is attached after the step: only `c` was attached
          obtain ⟨_, _, _, _, a5, _⟩ := addAll_causal [c] t hun hroot hc1
          obtain ⟨x, hx, hxid⟩ := List.mem_map.mp (has_iff.mp hh)
          rcases a5 x hx with h | h
          · have : t.has d.id = true := has_iff.mpr (List.mem_map.mpr ⟨x, h, hxid⟩)
            rw [this] at hnot; exact Bool.noConfusion hnot
          · have : x = c := by simpa using h
            rw [← hxid, this]
        rw [this]; exact i1 _ (hstep.2 (this ▸ hnot))
      · exact i2 d e (by simpa using hh)


theorem add_added (t0 : T) (l : List Change) (hroot : (addTree t0 l).root.isSome = true) :
    (add t0 l).added = (addAll { t0 with added := [] } l).added := by
  unfold add
  simp only
  split
  · rename_i he
    have : (addTree t0 l).added = [] := by simpa using he
    show [] = (addTree t0 l).added
    rw [this]
  · split
    · rename_i h; rw [h] at hroot; simp at hroot
    · split <;> rfl

/-- the hypotheses under which one `AddRawChanges` step stores the whole batch -/
def StepHyp (q : Recv) (theirPath : List Nat) (b : List Change) : Prop :=
  (∀ c ∈ q.tree.att, q.holds c.id = true) ∧
  match addRaw q.stored q.path theirPath q.tree b with
  | .nothing => True
  | .noCommonSnapshot => False
  | .plain _ _ => q.tree.unatt = [] ∧ q.tree.root.isSome = true ∧ CausalFor q.tree (newOf q.tree b)
  | .rebuilt _ _ =>
    ∃ (cs : Nat) (csC : Change) (rest l0 : List Change),
      commonSnapshot q.path theirPath = some cs ∧ q.stored.dropWhile (·.id != cs) = csC :: rest ∧
      csC.id = cs ∧ cs ∉ csC.prevs ∧
      (∀ a ∈ rest ++ extraOf q.stored q.tree b, ∀ b' ∈ rest ++ extraOf q.stored q.tree b, a.id = b'.id → a = b') ∧
      (∀ p ∈ csC.prevs, ∀ c ∈ rest ++ extraOf q.stored q.tree b, c.id ≠ p) ∧
      SnapOK (rest ++ extraOf q.stored q.tree b) (baseTree cs csC) ∧
      (∀ c ∈ l0, c ∈ rest ++ extraOf q.stored q.tree b) ∧ CausalFor (baseTree cs csC) l0 ∧
      (∀ c ∈ extraOf q.stored q.tree b, c ∈ l0)

theorem holds_iff {q : Recv} {x : Nat} : q.holds x = true ↔ x ∈ q.stored.map (·.id) := by
  unfold Recv.holds
  simp only [List.any_eq_true, List.mem_map]
  constructor
  · rintro ⟨c, hc, he⟩; exact ⟨c, hc, by simpa using he⟩
  · rintro ⟨c, hc, he⟩; exact ⟨c, hc, by simpa using he⟩

/-- **one step stores the batch** -/
theorem recvStep_holds (q q' : Recv) (theirPath : List Nat) (b : List Change)
    (hh : StepHyp q theirPath b) (hstep : RecvStep q theirPath b q') :
    (∀ x, q.holds x = true → q'.holds x = true) ∧ ∀ c ∈ b, q'.holds c.id = true := by
  obtain ⟨hmem, hh⟩ := hh
  have inMem : ∀ c : Change, q.tree.has c.id = true → q.holds c.id = true := by
    intro c hc
    obtain ⟨d, hd, hid⟩ := List.mem_map.mp (has_iff.mp hc)
    rw [← hid]; exact hmem d hd
  unfold RecvStep at hstep
  -- storing the added changes
  have store : ∀ (t' : T) (added : List Nat),
      StorageUpdate q.stored q'.stored (b.filter (fun c => added.contains c.id)) →
      (∀ c ∈ b, q.holds c.id = true ∨ c.id ∈ added) →
      (∀ x, q.holds x = true → q'.holds x = true) ∧ ∀ c ∈ b, q'.holds c.id = true := by
    intro t' added hu hall
    obtain ⟨_, hm, _, _⟩ := hu
    have mono : ∀ x, q.holds x = true → q'.holds x = true := by
      intro x hx
      obtain ⟨d, hd, hid⟩ := List.mem_map.mp (holds_iff.mp hx)
      exact holds_iff.mpr (List.mem_map.mpr ⟨d, (hm d).mpr (Or.inl hd), hid⟩)
    refine ⟨mono, ?_⟩
    intro c hc
    rcases hall c hc with h | h
    · exact mono _ h
    · exact holds_iff.mpr (List.mem_map.mpr ⟨c, (hm c).mpr (Or.inr (List.mem_filter.mpr ⟨hc, by simpa using h⟩)), rfl⟩)
  cases hres : addRaw q.stored q.path theirPath q.tree b with
  | nothing =>
    rw [hres] at hstep
    simp only at hstep
    subst hstep
    refine ⟨fun x hx => hx, ?_⟩
    intro c hc
    -- every change of the batch is attached in memory
    have hnew : (b.filter (fun c => !q'.tree.has c.id)).isEmpty = true := by
      unfold addRaw at hres
      simp only at hres
      split at hres
      · assumption
      · split at hres
        · split at hres <;> simp at hres
        · simp at hres
    have : q'.tree.has c.id = true := by
      cases h : q'.tree.has c.id
      · have : c ∈ b.filter (fun c => !q'.tree.has c.id) := List.mem_filter.mpr ⟨hc, by simp [h]⟩
        have he : b.filter (fun c => !q'.tree.has c.id) = [] := by simpa using hnew
        rw [he] at this; simp at this
      · rfl
    exact inMem c this
  | noCommonSnapshot => rw [hres] at hh; exact absurd hh id
  | plain t' added =>
    rw [hres] at hstep hh
    simp only at hstep hh
    obtain ⟨hun, hroot, hcaus⟩ := hh
    apply store t' added hstep.1
    intro c hc
    cases h : q.tree.has c.id
    · right
      -- `added` is what the causal run reports
      unfold addRaw at hres
      simp only at hres
      split at hres
      · simp at hres
      · split at hres
        · split at hres <;> simp at hres
        · simp only [RawOutcome.plain.injEq] at hres
          obtain ⟨_, hadd⟩ := hres
          have hE : b.filter (fun c => !q.tree.has c.id) = newOf q.tree b := rfl
          rw [hE] at hadd
          obtain ⟨_, r2, _, _, _, _⟩ := addAll_causal (newOf q.tree b) { q.tree with added := [] } hun hroot hcaus
          have hrt : (addTree q.tree (newOf q.tree b)).root.isSome = true := by
            show (addAll { q.tree with added := [] } (newOf q.tree b)).root.isSome = true
            rw [r2]; exact hroot
          rw [← hadd, add_added _ _ hrt]
          exact (addAll_causal_added (newOf q.tree b) { q.tree with added := [] } hun hroot hcaus).2 c
            (List.mem_filter.mpr ⟨hc, by simp [h]⟩) h
    · exact Or.inl (inMem c h)
  | rebuilt t' added =>
    rw [hres] at hstep hh
    simp only at hstep hh
    obtain ⟨cs, csC, rest, l0, hcs, hload, hid, hself, huniq, hrp, hs, hl0, hcaus, hext⟩ := hh
    obtain ⟨_, _, hall⟩ := addRaw_rebuilt_causal q.stored q.path theirPath q.tree b cs csC rest t' added
      hcs hload hid hself huniq hrp hs l0 hl0 hcaus hext hres
    apply store t' added hstep.1
    intro c hc
    cases h : q.tree.has c.id
    · cases h2 : q.stored.any (·.id == c.id)
      · right
        have hcin : c ∈ (newOf q.tree b).filter (fun c => !q.stored.any (·.id == c.id)) :=
          List.mem_filter.mpr ⟨List.mem_filter.mpr ⟨hc, by simp [h]⟩, by simp [h2]⟩
        obtain ⟨d, hd, hdid⟩ := (dedupById_spec _).2.1 c hcin
        rw [← hdid]; exact (hall d hd).2
      · exact Or.inl h2
    · exact Or.inl (inMem c h)

/-- **the run stores every sent change**, given an invariant of the receiver (and the batches still to come) that is
preserved by the steps and implies the step hypotheses -/
theorem recvRun_holds (theirPath : List Nat) (I : Recv → List (List Change) → Prop)
    (hpres : ∀ q b bs q', I q (b :: bs) → RecvStep q theirPath b q' → I q' bs)
    (hok : ∀ q b bs, I q (b :: bs) → StepHyp q theirPath b) :
    ∀ (q0 q : Recv) (batches : List (List Change)), I q0 batches → RecvRun theirPath q0 batches q →
      (∀ x, q0.holds x = true → q.holds x = true) ∧ ∀ c ∈ batches.flatten, q.holds c.id = true := by
  intro q0 q batches hI hrun
  induction hrun with
  | nil q => exact ⟨fun x hx => hx, by simp⟩
  | @cons q q' q'' b bs hstep _ ih =>
    obtain ⟨m1, s1⟩ := recvStep_holds q q' theirPath b (hok q b bs hI) hstep
    obtain ⟨m2, s2⟩ := ih (hpres q b bs q' hI hstep)
    refine ⟨fun x hx => m2 x (m1 x hx), ?_⟩
    intro c hc
    simp only [List.flatten_cons, List.mem_append] at hc
    rcases hc with h | h
    · exact m2 _ (s1 c h)
    · exact s2 c h


/-- **the rebuild branch for an honest DAG**: `causal_from_entry` + `addRaw_rebuilt_causal`.  The storage followed by the
not yet stored changes of the batch is a linear extension (`SInv`); below the common snapshot the DAG is entered only
through it (`D`, the entry property); every new change lies below the common snapshot. -/
theorem addRaw_rebuilt_entry (pre rest : List Change) (ourPath theirPath : List Nat) (t : T) (batch : List Change)
    (cs : Nat) (csC : Change) (t' : T) (added : List Nat) (D : Nat → Bool)
    (hcs : commonSnapshot ourPath theirPath = some cs)
    (hload : (pre ++ csC :: rest).dropWhile (·.id != cs) = csC :: rest)
    (hid : csC.id = cs) (hself : cs ∉ csC.prevs)
    (hF : SInv ((pre ++ csC :: rest) ++ extraOf (pre ++ csC :: rest) t batch))
    (hrootprev : ∀ p ∈ csC.prevs, ∀ c ∈ rest ++ extraOf (pre ++ csC :: rest) t batch, c.id ≠ p)
    (hs : SnapOK (rest ++ extraOf (pre ++ csC :: rest) t batch) (baseTree cs csC))
    (D0 : D cs = false) (Dpre : ∀ c ∈ pre, D c.id = false)
    (D1 : ∀ c ∈ rest ++ extraOf (pre ++ csC :: rest) t batch, D c.id = true →
      c.prevs ≠ [] ∧ (∀ p ∈ c.prevs, p = cs ∨ D p = true) ∧ (c.snap = cs ∨ D c.snap = true))
    (D2 : ∀ c ∈ extraOf (pre ++ csC :: rest) t batch, D c.id = true)
    (hres : addRaw (pre ++ csC :: rest) ourPath theirPath t batch = .rebuilt t' added) :
    t'.root = some cs ∧ t'.unatt = [] ∧
    ∀ c ∈ extraOf (pre ++ csC :: rest) t batch, t'.has c.id = true ∧ c.id ∈ added := by
  have hcaus := causal_from_entry pre rest (extraOf (pre ++ csC :: rest) t batch) cs csC D hF hid D0 Dpre D1
  have hnd := hF.nodup
  have huniq : ∀ a ∈ rest ++ extraOf (pre ++ csC :: rest) t batch,
      ∀ b ∈ rest ++ extraOf (pre ++ csC :: rest) t batch, a.id = b.id → a = b := by
    intro a ha b hb hab
    have hin : ∀ x ∈ rest ++ extraOf (pre ++ csC :: rest) t batch,
        x ∈ (pre ++ csC :: rest) ++ extraOf (pre ++ csC :: rest) t batch := by
      intro x hx
      rcases List.mem_append.mp hx with h | h
      · exact List.mem_append.mpr (Or.inl (List.mem_append.mpr (Or.inr (List.mem_cons_of_mem _ h))))
      · exact List.mem_append.mpr (Or.inr h)
    exact nodup_ids_inj hnd a (hin a ha) b (hin b hb) hab
  exact addRaw_rebuilt_causal (pre ++ csC :: rest) ourPath theirPath t batch cs csC rest t' added hcs hload hid hself
    huniq hrootprev hs _ (fun c hc => (List.mem_filter.mp hc).1) hcaus
    (fun c hc => List.mem_filter.mpr ⟨List.mem_append.mpr (Or.inr hc), D2 c hc⟩) hres

end AnySync.Tree
