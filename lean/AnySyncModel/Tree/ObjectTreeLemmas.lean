import AnySyncModel.Tree.ObjectTree
import AnySyncModel.Tree.ReopenLemmas
/-! One step of the receiver on the real path (`addRaw`): both branches attach the batch. -/
namespace AnySync.Tree

/-- the core of building from storage: exactly the changes of `A` are attached -/
theorem build_core (A : List Change) (r : Nat) (rootC : Change) (rest : List Change) (h : StoredFor A r rootC rest) :
    (addAll {} (rootC :: rest)).root = some r ∧ (∀ d, d ∈ (addAll {} (rootC :: rest)).att ↔ d ∈ A) ∧
    ((addAll {} (rootC :: rest)).att.map (·.id)).Nodup := by
  have hfirst : addAll {} (rootC :: rest)
      = addAll { root := some r, att := [rootC], added := [r], lastIter := r } rest := by
    unfold addAll
    simp only [List.foldl_cons]
    have : (({} : T).has rootC.id || ({} : T).hasUn rootC.id) = false := by simp [T.has, T.hasUn]
    rw [this]
    simp only [Bool.false_eq_true, if_false]
    have : addOne {} rootC = { root := some r, att := [rootC], added := [r], lastIter := r } := by
      unfold addOne; simp [h.rootId]
    rw [this]
  obtain ⟨l1, l2, l3, l4⟩ := rebuild_loop h rest [] { root := some r, att := [rootC], added := [r], lastIter := r }
    (by simp) rfl (by intro d hd; have : d = rootC := by simpa using hd
                      rw [this]; exact ⟨h.rootIn, by simp⟩)
    (by intro u hu; simp at hu)
    (by intro d hd _; have : d = rootC := by simpa using hd
        rw [this]; simp)
    (by simp)
  rw [hfirst]
  exact ⟨l1, fun d => ⟨l2 d, fun hd => l3 d (h.held d hd) hd⟩, l4⟩

theorem dedupById_spec (l : List Change) :
    (∀ d ∈ dedupById l, d ∈ l) ∧ (∀ c ∈ l, ∃ d ∈ dedupById l, d.id = c.id) ∧ ((dedupById l).map (·.id)).Nodup := by
  unfold dedupById
  have key : ∀ (l acc : List Change), (acc.map (·.id)).Nodup →
      (∀ d ∈ l.foldl (fun acc c => if acc.any (·.id == c.id) then acc else acc ++ [c]) acc, d ∈ acc ∨ d ∈ l) ∧
      (∀ c, c ∈ acc ∨ c ∈ l → ∃ d ∈ l.foldl (fun acc c => if acc.any (·.id == c.id) then acc else acc ++ [c]) acc, d.id = c.id) ∧
      ((l.foldl (fun acc c => if acc.any (·.id == c.id) then acc else acc ++ [c]) acc).map (·.id)).Nodup := by
    intro l
    induction l with
    | nil => intro acc hnd; exact ⟨fun d hd => Or.inl hd, fun c hc => by
        rcases hc with h | h
        · exact ⟨c, h, rfl⟩
        · simp at h, hnd⟩
    | cons x l ih =>
      intro acc hnd
      simp only [List.foldl_cons]
      by_cases hx : acc.any (·.id == x.id) = true
      · rw [if_pos hx]
        obtain ⟨a1, a2, a3⟩ := ih acc hnd
        refine ⟨fun d hd => (a1 d hd).imp id (List.mem_cons_of_mem _), ?_, a3⟩
        intro c hc
        rcases hc with h | h
        · exact a2 c (Or.inl h)
        · rcases List.mem_cons.mp h with e | e
          · obtain ⟨y, hy, hid⟩ := List.any_eq_true.mp hx
            obtain ⟨d, hd, hdid⟩ := a2 y (Or.inl hy)
            exact ⟨d, hd, by rw [hdid, e]; simpa using hid⟩
          · exact a2 c (Or.inr e)
      · rw [if_neg hx]
        have hnd' : ((acc ++ [x]).map (·.id)).Nodup := by
          rw [List.map_append, List.nodup_append]
          refine ⟨hnd, by simp, ?_⟩
          intro a ha b hb
          have : b = x.id := by simpa using hb
          subst this
          intro e; subst e
          obtain ⟨y, hy, hid⟩ := List.mem_map.mp ha
          exact hx (List.any_eq_true.mpr ⟨y, hy, by simp [hid]⟩)
        obtain ⟨a1, a2, a3⟩ := ih (acc ++ [x]) hnd'
        refine ⟨?_, ?_, a3⟩
        · intro d hd
          rcases a1 d hd with h | h
          · rcases List.mem_append.mp h with h' | h'
            · exact Or.inl h'
            · right; have : d = x := by simpa using h'
              rw [this]; simp
          · exact Or.inr (List.mem_cons_of_mem _ h)
        · intro c hc
          rcases hc with h | h
          · exact a2 c (Or.inl (List.mem_append.mpr (Or.inl h)))
          · rcases List.mem_cons.mp h with e | e
            · exact a2 c (Or.inl (List.mem_append.mpr (Or.inr (by simp [e]))))
            · exact a2 c (Or.inr e)
  obtain ⟨a1, a2, a3⟩ := key l [] (by simp)
  exact ⟨fun d hd => by
    rcases a1 d hd with h | h
    · simp at h
    · exact h, fun c hc => a2 c (Or.inr hc), a3⟩


/-- **the rebuild-from-storage branch attaches the batch.**  The receiver's storage holds, from the common snapshot
`cs` on, `csC :: rest`; `A` is what that storage attaches from `cs` (the receiver's tree at `cs`); `StoredFor (A ++ E)
cs csC (rest ++ E)` says that the not yet stored changes `E` of the batch extend it causally (previous ids and
snapshot base in `A` or earlier in the batch, unique ids) and make nothing else attachable.  Then `addRaw`, when it
takes the rebuild branch, yields the tree rooted at `cs` holding exactly `A` and `E`, and reports exactly `E` as
added. -/
theorem addRaw_rebuilt (stored : List Change) (ourPath theirPath : List Nat) (t : T) (batch : List Change)
    (cs : Nat) (csC : Change) (rest A : List Change) (t' : T) (added : List Nat)
    (hcs : commonSnapshot ourPath theirPath = some cs)
    (hload : stored.dropWhile (·.id != cs) = csC :: rest)
    (hst : StoredFor (A ++ extraOf stored t batch) cs csC (rest ++ extraOf stored t batch))
    (hres : addRaw stored ourPath theirPath t batch = .rebuilt t' added) :
    t'.root = some cs ∧ t'.unatt = [] ∧ (∀ d, d ∈ t'.att ↔ d ∈ A ∨ d ∈ extraOf stored t batch) ∧
    (∀ x, x ∈ added ↔ x ∈ (extraOf stored t batch).map (·.id)) ∧
    (∀ c ∈ batch, t.has c.id = false → stored.any (·.id == c.id) = false → t'.has c.id = true) := by
  have hcore := build_core _ cs csC _ hst
  have hlist : stored.dropWhile (·.id != cs) ++ extraOf stored t batch = csC :: (rest ++ extraOf stored t batch) := by
    rw [hload]; rfl
  unfold addRaw at hres
  simp only at hres
  split at hres
  · simp at hres
  · split at hres
    · rw [hcs] at hres
      simp only [RawOutcome.rebuilt.injEq] at hres
      obtain ⟨ht', hadded⟩ := hres
      have hE : dedupById ((batch.filter (fun c => !t.has c.id)).filter (fun c => !stored.any (·.id == c.id)))
          = extraOf stored t batch := rfl
      rw [hE, hlist] at ht' hadded
      have hatt : t'.att = (addAll {} (csC :: (rest ++ extraOf stored t batch))).att := by rw [← ht']
      have hmem : ∀ d, d ∈ t'.att ↔ d ∈ A ∨ d ∈ extraOf stored t batch := by
        intro d; rw [hatt, hcore.2.1 d, List.mem_append]
      have hhasE : ∀ c ∈ extraOf stored t batch, (addAll {} (csC :: (rest ++ extraOf stored t batch))).has c.id = true := by
        intro c hc
        exact has_iff.mpr (List.mem_map.mpr ⟨c, (hcore.2.1 c).mpr (List.mem_append.mpr (Or.inr hc)), rfl⟩)
      refine ⟨by rw [← ht']; exact hcore.1, by rw [← ht'], hmem, ?_, ?_⟩
      · intro x
        rw [← hadded]
        constructor
        · intro hx
          obtain ⟨c, hc, hid⟩ := List.mem_map.mp hx
          exact List.mem_map.mpr ⟨c, (List.mem_filter.mp hc).1, hid⟩
        · intro hx
          obtain ⟨c, hc, hid⟩ := List.mem_map.mp hx
          exact List.mem_map.mpr ⟨c, List.mem_filter.mpr ⟨hc, hhasE c hc⟩, hid⟩
      · intro c hc hnot hns
        have hcin : c ∈ (newOf t batch).filter (fun c => !stored.any (·.id == c.id)) :=
          List.mem_filter.mpr ⟨List.mem_filter.mpr ⟨hc, by simp [hnot]⟩, by simp [hns]⟩
        obtain ⟨d, hd, hid⟩ := (dedupById_spec _).2.1 c hcin
        have : t'.has d.id = true := has_iff.mpr (List.mem_map.mpr ⟨d, (hmem d).mpr (Or.inr hd), rfl⟩)
        rw [← hid]; exact this
    · simp at hres


/-- **the in-memory branch attaches the batch** (this is `add`; cf. `add_causal_attaches_all`) -/
theorem addRaw_plain (stored : List Change) (ourPath theirPath : List Nat) (t : T) (batch : List Change)
    (t' : T) (added : List Nat) (hun : t.unatt = []) (hroot : t.root.isSome = true)
    (hcaus : CausalFor t (newOf t batch))
    (hres : addRaw stored ourPath theirPath t batch = .plain t' added) :
    t'.root = t.root ∧ ∀ c ∈ batch, t'.has c.id = true := by
  unfold addRaw at hres
  simp only at hres
  split at hres
  · simp at hres
  · split at hres
    · split at hres <;> simp at hres
    · simp only [RawOutcome.plain.injEq] at hres
      obtain ⟨ht', _⟩ := hres
      have hE : batch.filter (fun c => !t.has c.id) = newOf t batch := rfl
      rw [hE] at ht'
      have hseq := addSeq_causal [newOf t batch] t hun hroot (by simpa using hcaus)
      have hadd : addSeq t [newOf t batch] = t' := by unfold addSeq; simpa using ht'
      rw [hadd] at hseq
      obtain ⟨_, r2, r3, r4, _, _⟩ := hseq
      refine ⟨r2, ?_⟩
      intro c hc
      cases hh : t.has c.id
      · exact r4 c (by simp; exact List.mem_filter.mpr ⟨hc, by simp [hh]⟩)
      · exact r3 _ hh

end AnySync.Tree
