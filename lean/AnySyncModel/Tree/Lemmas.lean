import AnySyncModel.Tree.Model
/-! Helper lemmas for the tree area (C06, C09): sorted children, determinism of the iteration. -/
namespace AnySync.Tree

theorem mem_ins {a x : Nat} {l : List Nat} : x ∈ ins a l ↔ x = a ∨ x ∈ l := by
  induction l with
  | nil => simp [ins]
  | cons b l ih =>
    unfold ins
    split
    · simp
    · split
      · rename_i h1 h2; subst h2; simp
      · simp [ih]; constructor
        · rintro (h | h | h) <;> simp [h]
        · rintro (h | h | h) <;> simp [h]

theorem ins_sorted {a : Nat} {l : List Nat} (h : l.Pairwise (· < ·)) : (ins a l).Pairwise (· < ·) := by
  induction l with
  | nil => simp [ins]
  | cons b l ih =>
    unfold ins
    have hb := List.pairwise_cons.mp h
    split
    · rename_i hab
      refine List.pairwise_cons.mpr ⟨?_, h⟩
      intro x hx
      rcases List.mem_cons.mp hx with rfl | hx
      · exact hab
      · exact Nat.lt_trans hab (hb.1 x hx)
    · split
      · exact h
      · rename_i h1 h2
        refine List.pairwise_cons.mpr ⟨?_, ih hb.2⟩
        intro x hx
        rcases mem_ins.mp hx with rfl | hx
        · show b < x; omega
        · exact hb.1 x hx

theorem sortIds_sorted (l : List Nat) : (sortIds l).Pairwise (· < ·) := by
  induction l with
  | nil => simp [sortIds]
  | cons a l ih => exact ins_sorted ih

theorem mem_sortIds {x : Nat} {l : List Nat} : x ∈ sortIds l ↔ x ∈ l := by
  induction l with
  | nil => simp [sortIds]
  | cons a l ih =>
    show x ∈ ins a (sortIds l) ↔ _
    rw [mem_ins, ih]; simp

theorem sorted_ext : ∀ {l₁ l₂ : List Nat}, l₁.Pairwise (· < ·) → l₂.Pairwise (· < ·) →
    (∀ x, x ∈ l₁ ↔ x ∈ l₂) → l₁ = l₂
  | [], [], _, _, _ => rfl
  | [], b :: l₂, _, _, h => by have := (h b).mpr (by simp); simp at this
  | a :: l₁, [], _, _, h => by have := (h a).mp (by simp); simp at this
  | a :: l₁, b :: l₂, h₁, h₂, h => by
    have p₁ := List.pairwise_cons.mp h₁
    have p₂ := List.pairwise_cons.mp h₂
    have hab : a = b := by
      have ha := (h a).mp (by simp)
      have hb := (h b).mpr (by simp)
      rcases List.mem_cons.mp ha with e | ha'
      · exact e
      · rcases List.mem_cons.mp hb with e | hb'
        · exact e.symm
        · have h3 : b < a := p₂.1 a ha'; have h4 : a < b := p₁.1 b hb'; omega
    subst hab
    congr 1
    apply sorted_ext p₁.2 p₂.2
    intro x
    constructor
    · intro hx
      have := (h x).mp (List.mem_cons_of_mem _ hx)
      rcases List.mem_cons.mp this with e | hx'
      · subst e; have h3 : x < x := p₁.1 x hx; omega
      · exact hx'
    · intro hx
      have := (h x).mpr (List.mem_cons_of_mem _ hx)
      rcases List.mem_cons.mp this with e | hx'
      · subst e; have h3 : x < x := p₂.1 x hx; omega
      · exact hx'

theorem sortIds_congr {l₁ l₂ : List Nat} (h : ∀ x, x ∈ l₁ ↔ x ∈ l₂) : sortIds l₁ = sortIds l₂ :=
  sorted_ext (sortIds_sorted _) (sortIds_sorted _) (by intro x; rw [mem_sortIds, mem_sortIds]; exact h x)

theorem mem_children {att : List Change} {x c : Nat} :
    c ∈ children att x ↔ ∃ ch ∈ att, ch.id = c ∧ x ∈ ch.prevs := by
  unfold children
  rw [mem_sortIds]
  simp [List.mem_map, List.mem_filter]
  constructor
  · rintro ⟨ch, ⟨h1, h2⟩, h3⟩; exact ⟨ch, h1, h3, h2⟩
  · rintro ⟨ch, h1, h3, h2⟩; exact ⟨ch, ⟨h1, h2⟩, h3⟩

theorem children_congr {a₁ a₂ : List Change} (h : ∀ c, c ∈ a₁ ↔ c ∈ a₂) (x : Nat) :
    children a₁ x = children a₂ x := by
  apply sorted_ext (sortIds_sorted _) (sortIds_sorted _)
  intro c
  show c ∈ children a₁ x ↔ c ∈ children a₂ x
  rw [mem_children, mem_children]
  constructor
  · rintro ⟨ch, h1, h2⟩; exact ⟨ch, (h ch).mp h1, h2⟩
  · rintro ⟨ch, h1, h2⟩; exact ⟨ch, (h ch).mpr h1, h2⟩

theorem iter_perm {a₁ a₂ : List Change} (h : a₁.Perm a₂) (r : Nat) : iter r a₁ = iter r a₂ := by
  unfold iter
  have : children a₁ = children a₂ := funext (children_congr (fun c => h.mem_iff))
  rw [this, h.length_eq]
end AnySync.Tree
