import AnySyncModel.Tree.Model
/-! Helper lemmas for the tree area (C06, C09): sorted children, determinism of the iteration. -/
namespace AnySync.Tree

theorem mem_ins {a x : Nat} {l : List Nat} : x ∈ ins a l ↔ x = a ∨ x ∈ l := by
  induction l with
  | nil => simp [ins]
  | cons b l ih =>
    unfold ins
    split
    · simp
    · split
      · rename_i h1 h2; subst h2; simp
      · simp [ih]; constructor
        · rintro (h | h | h) <;> simp [h]
        · rintro (h | h | h) <;> simp [h]

theorem ins_sorted {a : Nat} {l : List Nat} (h : l.Pairwise (· < ·)) : (ins a l).Pairwise (· < ·) := by
  induction l with
  | nil => simp [ins]
  | cons b l ih =>
    unfold ins
    have hb := List.pairwise_cons.mp h
    split
    · rename_i hab
      refine List.pairwise_cons.mpr ⟨?_, h⟩
      intro x hx
      rcases List.mem_cons.mp hx with rfl | hx
      · exact hab
      · exact Nat.lt_trans hab (hb.1 x hx)
    · split
      · exact h
      · rename_i h1 h2
        refine List.pairwise_cons.mpr ⟨?_, ih hb.2⟩
        intro x hx
        rcases mem_ins.mp hx with rfl | hx
        · show b < x; omega
        · exact hb.1 x hx

theorem sortIds_sorted (l : List Nat) : (sortIds l).Pairwise (· < ·) := by
  induction l with
  | nil => simp [sortIds]
  | cons a l ih => exact ins_sorted ih

theorem mem_sortIds {x : Nat} {l : List Nat} : x ∈ sortIds l ↔ x ∈ l := by
  induction l with
  | nil => simp [sortIds]
  | cons a l ih =>
    show x ∈ ins a (sortIds l) ↔ _
    rw [mem_ins, ih]; simp

theorem sorted_ext : ∀ {l₁ l₂ : List Nat}, l₁.Pairwise (· < ·) → l₂.Pairwise (· < ·) →
    (∀ x, x ∈ l₁ ↔ x ∈ l₂) → l₁ = l₂
  | [], [], _, _, _ => rfl
  | [], b :: l₂, _, _, h => by have := (h b).mpr (by simp); simp at this
  | a :: l₁, [], _, _, h => by have := (h a).mp (by simp); simp at this
  | a :: l₁, b :: l₂, h₁, h₂, h => by
    have p₁ := List.pairwise_cons.mp h₁
    have p₂ := List.pairwise_cons.mp h₂
    have hab : a = b := by
      have ha := (h a).mp (by simp)
      have hb := (h b).mpr (by simp)
      rcases List.mem_cons.mp ha with e | ha'
      · exact e
      · rcases List.mem_cons.mp hb with e | hb'
        · exact e.symm
        · have h3 : b < a := p₂.1 a ha'; have h4 : a < b := p₁.1 b hb'; omega
    subst hab
    congr 1
    apply sorted_ext p₁.2 p₂.2
    intro x
    constructor
    · intro hx
      have := (h x).mp (List.mem_cons_of_mem _ hx)
      rcases List.mem_cons.mp this with e | hx'
      · subst e; have h3 : x < x := p₁.1 x hx; omega
      · exact hx'
    · intro hx
      have := (h x).mpr (List.mem_cons_of_mem _ hx)
      rcases List.mem_cons.mp this with e | hx'
      · subst e; have h3 : x < x := p₂.1 x hx; omega
      · exact hx'

theorem sortIds_congr {l₁ l₂ : List Nat} (h : ∀ x, x ∈ l₁ ↔ x ∈ l₂) : sortIds l₁ = sortIds l₂ :=
  sorted_ext (sortIds_sorted _) (sortIds_sorted _) (by intro x; rw [mem_sortIds, mem_sortIds]; exact h x)

theorem mem_children {att : List Change} {x c : Nat} :
    c ∈ children att x ↔ ∃ ch ∈ att, ch.id = c ∧ x ∈ ch.prevs := by
  unfold children
  rw [mem_sortIds]
  simp [List.mem_map, List.mem_filter]
  constructor
  · rintro ⟨ch, ⟨h1, h2⟩, h3⟩; exact ⟨ch, h1, h3, h2⟩
  · rintro ⟨ch, h1, h3, h2⟩; exact ⟨ch, ⟨h1, h2⟩, h3⟩

theorem children_congr {a₁ a₂ : List Change} (h : ∀ c, c ∈ a₁ ↔ c ∈ a₂) (x : Nat) :
    children a₁ x = children a₂ x := by
  apply sorted_ext (sortIds_sorted _) (sortIds_sorted _)
  intro c
  show c ∈ children a₁ x ↔ c ∈ children a₂ x
  rw [mem_children, mem_children]
  constructor
  · rintro ⟨ch, h1, h2⟩; exact ⟨ch, (h ch).mp h1, h2⟩
  · rintro ⟨ch, h1, h2⟩; exact ⟨ch, (h ch).mpr h1, h2⟩

theorem iter_perm {a₁ a₂ : List Change} (h : a₁.Perm a₂) (r : Nat) : iter r a₁ = iter r a₂ := by
  unfold iter
  have : children a₁ = children a₂ := funext (children_congr (fun c => h.mem_iff))
  rw [this, h.length_eq]

/-! ### the depth-first traversal -/

/-- descendant-or-equal along the child function -/
inductive Desc (ch : Nat → List Nat) : Nat → Nat → Prop
  | refl (x) : Desc ch x x
  | step {x c y} : c ∈ ch x → Desc ch c y → Desc ch x y

theorem Desc.rk_le {ch : Nat → List Nat} {rk : Nat → Nat} (hrk : ∀ x, ∀ c ∈ ch x, rk c < rk x)
    {x y : Nat} (h : Desc ch x y) : rk y ≤ rk x := by
  induction h with
  | refl => exact Nat.le_refl _
  | step hc _ ih => have := hrk _ _ hc; omega

/-- the accumulated sequence has no duplicates and lists every node before all of its children -/
def Good (ch : Nat → List Nat) (acc : List Nat) : Prop :=
  acc.Nodup ∧ ∀ l1 x l2, acc = l1 ++ x :: l2 → ∀ c ∈ ch x, c ∈ l2

theorem good_nil (ch : Nat → List Nat) : Good ch [] := by
  refine ⟨List.nodup_nil, ?_⟩
  intro l1 x l2 h; simp at h

theorem Good.closed {ch : Nat → List Nat} {acc : List Nat} (h : Good ch acc) :
    ∀ x ∈ acc, ∀ c ∈ ch x, c ∈ acc := by
  intro x hx c hc
  obtain ⟨l1, l2, rfl⟩ := List.append_of_mem hx
  have := h.2 l1 x l2 rfl c hc
  simp [this]

/-- what one `visit` (or a run of visits) does to the accumulator -/
structure Ext (ch : Nat → List Nat) (roots : List Nat) (acc r : List Nat) : Prop where
  good : Good ch r
  pre : ∃ pre, r = pre ++ acc ∧ ∀ y ∈ pre, ∃ x ∈ roots, Desc ch x y
  mem : ∀ x ∈ roots, x ∈ r

theorem visitAll_ext (ch : Nat → List Nat) (f : Nat) (rk : Nat → Nat)
    (P : ∀ x acc, rk x < f → Good ch acc → Ext ch [x] acc (visit ch f x acc)) :
    ∀ (cs : List Nat) (acc : List Nat), (∀ c ∈ cs, rk c < f) → Good ch acc →
      Ext ch cs acc (cs.foldl (fun a c => visit ch f c a) acc) := by
  intro cs
  induction cs with
  | nil =>
    intro acc _ hg
    exact ⟨hg, ⟨[], by simp⟩, by simp⟩
  | cons c cs ih =>
    intro acc hrk hg
    have h1 := P c acc (hrk c (by simp)) hg
    have h2 := ih (visit ch f c acc) (fun d hd => hrk d (List.mem_cons_of_mem _ hd)) h1.good
    simp only [List.foldl_cons]
    obtain ⟨p1, hp1, hd1⟩ := h1.pre
    obtain ⟨p2, hp2, hd2⟩ := h2.pre
    refine ⟨h2.good, ⟨p2 ++ p1, by rw [hp2, hp1]; simp, ?_⟩, ?_⟩
    · intro y hy
      rcases List.mem_append.mp hy with hy | hy
      · obtain ⟨x, hx, hd⟩ := hd2 y hy
        exact ⟨x, List.mem_cons_of_mem _ hx, hd⟩
      · obtain ⟨x, hx, hd⟩ := hd1 y hy
        have : x = c := by simpa using hx
        subst this
        exact ⟨x, by simp, hd⟩
    · intro x hx
      rcases List.mem_cons.mp hx with rfl | hx
      · have := h1.mem x (by simp)
        rw [hp2]; exact List.mem_append.mpr (Or.inr this)
      · exact h2.mem x hx

theorem visit_ext (ch : Nat → List Nat) (rk : Nat → Nat) (hrk : ∀ x, ∀ c ∈ ch x, rk c < rk x) :
    ∀ (f : Nat) (x : Nat) (acc : List Nat), rk x < f → Good ch acc → Ext ch [x] acc (visit ch f x acc) := by
  intro f
  induction f with
  | zero => intro x acc h; omega
  | succ f ih =>
    intro x acc hx hg
    unfold visit
    split
    · rename_i hc
      have hc' : x ∈ acc := by simpa using hc
      exact ⟨hg, ⟨[], by simp⟩, by simpa using hc'⟩
    · rename_i hc
      have hxa : x ∉ acc := by simpa using hc
      have hfold := visitAll_ext ch f rk (fun y a hy hga => ih y a hy hga) (ch x).reverse acc
        (by intro c hcm; have := hrk x c (List.mem_reverse.mp hcm); omega) hg
      obtain ⟨p, hp, hd⟩ := hfold.pre
      have hxp : x ∉ p := by
        intro hxp
        obtain ⟨c, hcm, hdc⟩ := hd x hxp
        have h1 := hrk x c (List.mem_reverse.mp hcm)
        have h2 := hdc.rk_le hrk
        omega
      refine ⟨⟨?_, ?_⟩, ⟨x :: p, by rw [hp]; simp, ?_⟩, by simp⟩
      · refine List.nodup_cons.mpr ⟨?_, hfold.good.1⟩
        rw [hp]; intro h
        rcases List.mem_append.mp h with h | h
        · exact hxp h
        · exact hxa h
      · intro l1 y l2 hdec c hcm
        cases l1 with
        | nil =>
          simp only [List.nil_append, List.cons.injEq] at hdec
          obtain ⟨rfl, rfl⟩ := hdec
          exact hfold.mem c (List.mem_reverse.mpr hcm)
        | cons z l1 =>
          simp only [List.cons_append, List.cons.injEq] at hdec
          exact hfold.good.2 l1 y l2 hdec.2 c hcm
      · intro y hy
        rcases List.mem_cons.mp hy with rfl | hy
        · exact ⟨y, by simp, Desc.refl y⟩
        · obtain ⟨c, hcm, hdc⟩ := hd y hy
          exact ⟨x, by simp, Desc.step (List.mem_reverse.mp hcm) hdc⟩


/-! ### well-formed attachment lists are acyclic -/

/-- an attachment list: ids are unique, and no change names a later-attached change (or itself) as a
previous id - `Tree.attach` only runs when all previous ids are already attached -/
inductive WFAtt : List Change → Prop
  | nil : WFAtt []
  | snoc {att : List Change} {c : Change} : WFAtt att → c.id ∉ att.map (·.id) → c.id ∉ c.prevs →
      (∀ d ∈ att, c.id ∉ d.prevs) → WFAtt (att ++ [c])

theorem mem_children_snoc {att : List Change} {c : Change} {x y : Nat} :
    y ∈ children (att ++ [c]) x ↔ y ∈ children att x ∨ (y = c.id ∧ x ∈ c.prevs) := by
  rw [mem_children, mem_children]
  constructor
  · rintro ⟨ch, hch, h1, h2⟩
    rcases List.mem_append.mp hch with h | h
    · exact Or.inl ⟨ch, h, h1, h2⟩
    · have : ch = c := by simpa using h
      subst this; exact Or.inr ⟨h1.symm, h2⟩
  · rintro (⟨ch, hch, h1, h2⟩ | ⟨h1, h2⟩)
    · exact ⟨ch, List.mem_append.mpr (Or.inl hch), h1, h2⟩
    · exact ⟨c, by simp, h1.symm, h2⟩

theorem children_mem_ids {att : List Change} {x y : Nat} (h : y ∈ children att x) : y ∈ att.map (·.id) := by
  obtain ⟨ch, hch, h1, _⟩ := mem_children.mp h
  exact List.mem_map.mpr ⟨ch, hch, h1⟩

/-- a well-formed attachment list is acyclic: there is a rank that strictly decreases along `Next` -/
theorem wf_rank {att : List Change} (h : WFAtt att) :
    ∃ rk : Nat → Nat, (∀ x, ∀ c ∈ children att x, rk c < rk x) ∧ (∀ x, rk x ≤ att.length) ∧
      (∀ x, x ∉ att.map (·.id) → rk x = att.length) := by
  induction h with
  | nil => exact ⟨fun _ => 0, by intro x c hc; simp [children, sortIds] at hc, by simp, by simp⟩
  | @snoc att c _ hid hself hlater ih =>
    obtain ⟨rk, h1, h2, h3⟩ := ih
    refine ⟨fun y => if y = c.id then 0 else rk y + 1, ?_, ?_, ?_⟩
    · intro x y hy
      rcases mem_children_snoc.mp hy with hy | ⟨rfl, hx⟩
      · have hyid := children_mem_ids hy
        have hyc : y ≠ c.id := fun e => hid (e ▸ hyid)
        have hxc : x ≠ c.id := by
          intro e
          obtain ⟨d, hd, _, hp⟩ := mem_children.mp hy
          exact hlater d hd (e ▸ hp)
        simp [hyc, hxc]; exact h1 x y hy
      · have hxc : x ≠ c.id := fun e => hself (e ▸ hx)
        simp [hxc]
    · intro x
      by_cases hx : x = c.id
      · simp [hx]
      · simp [hx]; exact h2 x
    · intro x hx
      have hxc : x ≠ c.id := by intro e; apply hx; simp [e]
      have : x ∉ att.map (·.id) := by intro h; apply hx; simp at h ⊢; exact Or.inl h
      simp [hxc, h3 x this]



/-! ### fuel irrelevance and restriction to an old sub-graph -/

theorem foldl_visit_congr (F G : List Nat → Nat → List Nat) (cs : List Nat) :
    ∀ acc, (∀ c ∈ cs, ∀ a, F a c = G a c) → cs.foldl F acc = cs.foldl G acc := by
  induction cs with
  | nil => intro acc _; rfl
  | cons c cs ih =>
    intro acc h
    simp only [List.foldl_cons]
    rw [h c (by simp) acc]
    exact ih _ (fun d hd a => h d (List.mem_cons_of_mem _ hd) a)

/-- more fuel than the rank needs changes nothing -/
theorem visit_fuel (ch : Nat → List Nat) (rk : Nat → Nat) (hrk : ∀ x, ∀ c ∈ ch x, rk c < rk x) :
    ∀ (f g : Nat) (x : Nat) (acc : List Nat), rk x < f → rk x < g → visit ch f x acc = visit ch g x acc := by
  intro f
  induction f with
  | zero => intro g x acc h; omega
  | succ f ih =>
    intro g x acc hf hg
    cases g with
    | zero => omega
    | succ g =>
      unfold visit
      split
      · rfl
      · congr 1
        apply foldl_visit_congr
        intro c hc a
        have := hrk x c (List.mem_reverse.mp hc)
        exact ih g c a (by omega) (by omega)

/-- restriction of a traversal of the grown graph `ch'` to the old nodes is the traversal of the old graph
`ch`: exploring a new node only ever reaches new nodes -/
theorem visit_restrict (ch ch' : Nat → List Nat) (old : Nat → Bool)
    (H1 : ∀ x, old x = true → (ch' x).filter old = ch x)
    (H2 : ∀ x, old x = false → ∀ c ∈ ch' x, old c = false) :
    ∀ (f : Nat) (x : Nat) (acc : List Nat),
      (visit ch' f x acc).filter old = if old x then visit ch f x (acc.filter old) else acc.filter old := by
  intro f
  induction f with
  | zero => intro x acc; simp [visit]
  | succ f ih =>
    intro x acc
    have hfold : ∀ (cs : List Nat) (a : List Nat),
        (cs.foldl (fun a c => visit ch' f c a) a).filter old
          = (cs.filter old).foldl (fun a c => visit ch f c a) (a.filter old) := by
      intro cs
      induction cs with
      | nil => intro a; rfl
      | cons c cs ihc =>
        intro a
        simp only [List.foldl_cons]
        rw [ihc, ih]
        cases hc : old c <;> simp [hc]
    unfold visit
    cases hx : old x
    · -- a new node: nothing old is added
      simp only [Bool.false_eq_true, if_false]
      split
      · rfl
      · rw [List.filter_cons]; simp only [hx, Bool.false_eq_true, if_false]
        rw [hfold]
        have : (ch' x).reverse.filter old = [] := by
          rw [List.filter_eq_nil_iff]
          intro c hc
          have := H2 x hx c (List.mem_reverse.mp hc)
          simp [this]
        rw [this]; rfl
    · simp only [if_true]
      have hmem : acc.contains x = (acc.filter old).contains x := by
        cases h : acc.contains x
        · symm; rw [Bool.eq_false_iff]; intro h2
          have h2' : x ∈ acc.filter old := by simpa using h2
          have : x ∈ acc := (List.mem_filter.mp h2').1
          simp [this] at h
        · symm
          have : x ∈ acc := by simpa using h
          simpa using List.mem_filter.mpr ⟨this, hx⟩
      rw [← hmem]
      split
      · rfl
      · rw [List.filter_cons]; simp only [hx, if_true]
        rw [hfold, List.filter_reverse, H1 x hx]



/-! ### growth of a well-formed attachment list -/

theorem filter_sortIds (p : Nat → Bool) (l : List Nat) : (sortIds l).filter p = sortIds (l.filter p) := by
  apply sorted_ext ((sortIds_sorted l).sublist List.filter_sublist) (sortIds_sorted _)
  intro x
  rw [List.mem_filter, mem_sortIds, mem_sortIds, List.mem_filter]

theorem snoc_cases (n : List Change) : n = [] ∨ ∃ n' c, n = n' ++ [c] := by
  rcases List.eq_nil_or_concat n with h | ⟨l, b, h⟩
  · exact Or.inl h
  · exact Or.inr ⟨l, b, by simpa using h⟩

/-- facts about a prefix of a well-formed attachment list -/
theorem WFAtt.split {l : List Change} (h : WFAtt l) : ∀ (a n : List Change), l = a ++ n →
    WFAtt a ∧ (l.map (·.id)).Nodup ∧
    (∀ d ∈ a, ∀ p ∈ d.prevs, p ∈ l.map (·.id) → p ∈ a.map (·.id)) := by
  induction h with
  | nil =>
    intro a n hl
    have : a = [] := by
      cases a with
      | nil => rfl
      | cons _ _ => simp at hl
    subst this
    exact ⟨WFAtt.nil, by simp, by simp⟩
  | @snoc att c hatt hid hself hlater ih =>
    intro a n hl
    have hnd : ((att ++ [c]).map (·.id)).Nodup := by
      have := (ih att [] (by simp)).2.1
      rw [List.map_append, List.nodup_append]
      refine ⟨this, by simp, ?_⟩
      intro x hx y hy
      have : y = c.id := by simpa using hy
      subst this
      intro e; exact hid (e ▸ hx)
    rcases snoc_cases n with rfl | ⟨n', c', rfl⟩
    · have : a = att ++ [c] := by simpa using hl.symm
      subst this
      refine ⟨WFAtt.snoc hatt hid hself hlater, hnd, ?_⟩
      intro d _ p _ hp; exact hp
    · rw [← List.append_assoc] at hl
      obtain ⟨h1, h2⟩ := List.append_inj' hl (by simp)
      have hc : c = c' := by simpa using h2
      subst hc
      obtain ⟨i1, _, i3⟩ := ih a n' h1
      refine ⟨i1, hnd, ?_⟩
      intro d hd p hp hpin
      rw [List.map_append, List.mem_append] at hpin
      rcases hpin with hpin | hpin
      · exact i3 d hd p hp hpin
      · have : p = c.id := by simpa using hpin
        subst this
        exfalso
        exact hlater d (by rw [h1]; exact List.mem_append.mpr (Or.inl hd)) hp

theorem contains_false_iff {l : List Nat} {y : Nat} : l.contains y = false ↔ y ∉ l := by
  rw [← Bool.not_eq_true, List.contains_iff_mem]

theorem nodup_ids_inj {l : List Change} (h : (l.map (fun c => c.id)).Nodup) :
    ∀ d ∈ l, ∀ e ∈ l, d.id = e.id → d = e := by
  induction l with
  | nil => intro d hd; simp at hd
  | cons a l ih =>
    intro d hd e he hde
    rw [List.map_cons, List.nodup_cons] at h
    have ih' := ih h.2
    rcases List.mem_cons.mp hd with hda | hd
    · rcases List.mem_cons.mp he with hea | he
      · rw [hda, hea]
      · exfalso; apply h.1
        exact List.mem_map.mpr ⟨e, he, by rw [← hde, hda]⟩
    · rcases List.mem_cons.mp he with hea | he
      · exfalso; apply h.1
        exact List.mem_map.mpr ⟨d, hd, by rw [hde, hea]⟩
      · exact ih' d hd e he hde

/-- **growth**: appending changes to a well-formed attachment list does not reorder what was there -/
theorem iter_growth (root : Nat) (att news : List Change) (hwf : WFAtt (att ++ news))
    (hroot : root ∈ att.map (·.id)) :
    (iter root (att ++ news)).filter (fun x => (att.map (·.id)).contains x) = iter root att := by
  obtain ⟨hwa, hnd, hup⟩ := hwf.split att news rfl
  have hinj := nodup_ids_inj hnd
  let old : Nat → Bool := fun y => (att.map (·.id)).contains y || !((att ++ news).map (·.id)).contains y
  have old_true : ∀ y, old y = true ↔ (y ∈ att.map (·.id) ∨ y ∉ (att ++ news).map (·.id)) := by
    intro y
    simp only [old, Bool.or_eq_true, Bool.not_eq_true', List.contains_iff_mem, contains_false_iff]
  have old_false : ∀ y, old y = false ↔ (y ∉ att.map (·.id) ∧ y ∈ (att ++ news).map (·.id)) := by
    intro y
    simp only [old, Bool.or_eq_false_iff, Bool.not_eq_false', List.contains_iff_mem, contains_false_iff]
  have H1 : ∀ x, old x = true → (children (att ++ news) x).filter old = children att x := by
    intro x _
    unfold children
    rw [filter_sortIds]
    apply sortIds_congr
    intro y
    rw [List.mem_filter, List.mem_map, List.mem_map]
    constructor
    · rintro ⟨⟨d, hd, rfl⟩, hy⟩
      have hd' := List.mem_filter.mp hd
      have hdin : d.id ∈ (att ++ news).map (·.id) := List.mem_map.mpr ⟨d, hd'.1, rfl⟩
      have : d.id ∈ att.map (·.id) := by
        rcases (old_true _).mp hy with hy | hy
        · exact hy
        · exact absurd hdin hy
      obtain ⟨d0, hd0, hd0id⟩ := List.mem_map.mp this
      have : d0 = d := hinj d0 (List.mem_append.mpr (Or.inl hd0)) d hd'.1 hd0id
      subst this
      exact ⟨d0, List.mem_filter.mpr ⟨hd0, hd'.2⟩, rfl⟩
    · rintro ⟨d, hd, rfl⟩
      have hd' := List.mem_filter.mp hd
      refine ⟨⟨d, List.mem_filter.mpr ⟨List.mem_append.mpr (Or.inl hd'.1), hd'.2⟩, rfl⟩, ?_⟩
      exact (old_true _).mpr (Or.inl (List.mem_map.mpr ⟨d, hd'.1, rfl⟩))
  have H2 : ∀ x, old x = false → ∀ c ∈ children (att ++ news) x, old c = false := by
    intro x hx c hc
    have hx' := (old_false x).mp hx
    obtain ⟨d, hd, rfl, hp⟩ := mem_children.mp hc
    have hdin : d.id ∈ (att ++ news).map (·.id) := List.mem_map.mpr ⟨d, hd, rfl⟩
    have hnot : d.id ∉ att.map (·.id) := by
      intro h
      obtain ⟨d0, hd0, hd0id⟩ := List.mem_map.mp h
      have : d0 = d := hinj d0 (List.mem_append.mpr (Or.inl hd0)) d hd hd0id
      subst this
      exact hx'.1 (hup d0 hd0 x hp hx'.2)
    exact (old_false _).mpr ⟨hnot, hdin⟩
  have hr := visit_restrict (children att) (children (att ++ news)) old H1 H2 ((att ++ news).length + 1) root []
  have hro : old root = true := (old_true root).mpr (Or.inl hroot)
  simp only [hro, if_true, List.filter_nil] at hr
  -- the filter `old` agrees with "is an old id" on everything presented
  obtain ⟨rk', hk1, hk2, _⟩ := wf_rank hwf
  have hext := visit_ext (children (att ++ news)) rk' hk1 ((att ++ news).length + 1) root []
    (by have := hk2 root; omega) (good_nil _)
  have hmem : ∀ y ∈ iter root (att ++ news), y ∈ (att ++ news).map (·.id) := by
    intro y hy
    obtain ⟨pre, hp, hd⟩ := hext.pre
    have hpre : iter root (att ++ news) = pre := by simpa [iter, rpo] using hp
    rw [hpre] at hy
    obtain ⟨x, hx1, hx2⟩ := hd y hy
    have : x = root := by simpa using hx1
    subst this
    have : ∀ a b, Desc (children (att ++ news)) a b → a ∈ (att ++ news).map (·.id) → b ∈ (att ++ news).map (·.id) := by
      intro a b hab
      induction hab with
      | refl => exact id
      | step hc _ ih => exact fun _ => ih (children_mem_ids hc)
    exact this x y hx2 (by rw [List.map_append]; exact List.mem_append.mpr (Or.inl hroot))
  have hfil : (iter root (att ++ news)).filter (fun x => (att.map (·.id)).contains x)
      = (iter root (att ++ news)).filter old := by
    apply List.filter_congr
    intro y hy
    have hin := hmem y hy
    cases h : old y
    · have := ((old_false y).mp h).1
      exact contains_false_iff.mpr this
    · rcases (old_true y).mp h with h1 | h1
      · exact List.contains_iff_mem.mpr h1
      · exact absurd hin h1
  rw [hfil]
  unfold iter rpo
  rw [hr]
  obtain ⟨rk, k1, k2, _⟩ := wf_rank hwa
  apply visit_fuel (children att) rk k1
  · have := k2 root; simp; omega
  · have := k2 root; omega



/-! ### positions; the Append argument -/

/-- position of the first occurrence (`length` if absent) -/
def pos : List Nat → Nat → Nat
  | [], _ => 0
  | a :: l, x => if a = x then 0 else pos l x + 1

theorem pos_lt_of_mem {l : List Nat} {x : Nat} (h : x ∈ l) : pos l x < l.length := by
  induction l with
  | nil => simp at h
  | cons a l ih =>
    unfold pos
    split
    · simp
    · rename_i hne
      rcases List.mem_cons.mp h with rfl | h
      · exact absurd rfl hne
      · have := ih h; simp; omega

theorem pos_append_right {l1 : List Nat} {y : Nat} (l2 : List Nat) (h : y ∉ l1) :
    pos (l1 ++ l2) y = l1.length + pos l2 y := by
  induction l1 with
  | nil => simp
  | cons a l1 ih =>
    have hne : a ≠ y := fun e => h (by simp [e])
    have hy : y ∉ l1 := fun e => h (List.mem_cons_of_mem _ e)
    simp only [List.cons_append, pos, hne, if_false, ih hy, List.length_cons]; omega

theorem Good.pos_lt {ch : Nat → List Nat} {l : List Nat} (h : Good ch l) :
    ∀ x ∈ l, ∀ c ∈ ch x, pos l x < pos l c := by
  intro x hx c hc
  obtain ⟨l1, l2, rfl⟩ := List.append_of_mem hx
  have hc2 := h.2 l1 x l2 rfl c hc
  have hnd := h.1
  rw [List.nodup_append] at hnd
  obtain ⟨_, hnd2, hdis⟩ := hnd
  have hx1 : x ∉ l1 := fun e => hdis x e x (by simp) rfl
  have hc1 : c ∉ l1 := fun e => hdis c e c (List.mem_cons_of_mem _ hc2) rfl
  have hcx : x ≠ c := by
    intro e; subst e
    exact (List.nodup_cons.mp hnd2).1 hc2
  rw [pos_append_right _ hx1, pos_append_right _ hc1]
  simp [pos, hcx]

theorem Good.pos_desc {ch : Nat → List Nat} {l : List Nat} (h : Good ch l) {x y : Nat} (hd : Desc ch x y) :
    x ∈ l → (y ∈ l ∧ (x = y ∨ pos l x < pos l y)) := by
  induction hd with
  | refl => intro hx; exact ⟨hx, Or.inl rfl⟩
  | step hc _ ih =>
    intro hx
    have hcm := h.closed _ hx _ hc
    have h1 := h.pos_lt _ hx _ hc
    obtain ⟨hy, h2⟩ := ih hcm
    refine ⟨hy, Or.inr ?_⟩
    rcases h2 with rfl | h2
    · exact h1
    · omega

theorem pos_filter_lt (p : Nat → Bool) : ∀ (l : List Nat) (x y : Nat), p x = true → p y = true →
    pos l x < pos l y → pos (l.filter p) x < pos (l.filter p) y := by
  intro l
  induction l with
  | nil => intro x y _ _ h; simp [pos] at h
  | cons a l ih =>
    intro x y hx hy h
    by_cases hax : a = x
    · subst hax
      have hay : a ≠ y := by
        intro e; subst e; simp [pos] at h
      simp [hx, pos, hay]
    · by_cases hay : a = y
      · subst hay; simp [pos, hax] at h
      · simp only [pos, hax, hay, if_false] at h
        have := ih x y hx hy (by omega)
        cases hpa : p a
        · simpa [List.filter_cons, hpa] using this
        · simp [hpa, pos, hax, hay]; exact this

theorem pos_le_getLast {l : List Nat} (hnd : l.Nodup) {z : Nat} (hz : l.getLast? = some z) :
    ∀ o ∈ l, pos l o ≤ pos l z := by
  induction l with
  | nil => intro o ho; simp at ho
  | cons a l ih =>
    intro o ho
    cases l with
    | nil =>
      simp at hz ho; subst hz; subst ho; simp
    | cons b l =>
      rw [List.getLast?_cons_cons] at hz
      have hnd' := List.nodup_cons.mp hnd
      have hzl : z ∈ b :: l := List.mem_of_getLast? hz
      have haz : a ≠ z := fun e => hnd'.1 (e ▸ hzl)
      by_cases hao : a = o
      · simp [pos, hao]
      · have ho' : o ∈ b :: l := by
          rcases List.mem_cons.mp ho with e | e
          · exact absurd e.symm hao
          · exact e
        have := ih hnd'.2 hz o ho'
        simp only [pos, hao, haz, if_false] at this ⊢
        omega

/-- a list in which every `p`-element precedes every non-`p`-element is its `p`-part followed by the rest -/
theorem split_of_pos (p : Nat → Bool) : ∀ (l : List Nat), l.Nodup →
    (∀ o ∈ l, ∀ n ∈ l, p o = true → p n = false → pos l o < pos l n) →
    l = l.filter p ++ l.filter (fun x => !p x) := by
  intro l
  induction l with
  | nil => intro _ _; rfl
  | cons a l ih =>
    intro hnd h
    have hnd' := List.nodup_cons.mp hnd
    cases hpa : p a
    · -- then nothing in `l` satisfies `p`
      have hno : ∀ o ∈ l, p o = false := by
        intro o ho
        cases hpo : p o
        · rfl
        · have := h o (List.mem_cons_of_mem _ ho) a (by simp) hpo hpa
          simp [pos] at this
      have h1 : l.filter p = [] := by
        rw [List.filter_eq_nil_iff]; intro o ho; simp [hno o ho]
      have h2 : l.filter (fun x => !p x) = l := by
        rw [List.filter_eq_self]; intro o ho; simp [hno o ho]
      simp [hpa, h1, h2]
    · have hrec := ih hnd'.2 (by
        intro o ho n hn hpo hpn
        have := h o (List.mem_cons_of_mem _ ho) n (List.mem_cons_of_mem _ hn) hpo hpn
        have hao : a ≠ o := fun e => hnd'.1 (e ▸ ho)
        have han : a ≠ n := fun e => hnd'.1 (e ▸ hn)
        simp only [pos, hao, han, if_false] at this
        omega)
      simp only [List.filter_cons, hpa, if_true, Bool.not_true, Bool.false_eq_true, if_false, List.cons_append]
      congr 1


/-- **append**: if every newly attached change descends from the last presented change, the old sequence
is a prefix of the new one -/
theorem iter_append (root : Nat) (att news : List Change) (hwf : WFAtt (att ++ news))
    (hroot : root ∈ att.map (·.id)) (last : Nat) (hlast : (iter root att).getLast? = some last)
    (hdesc : ∀ n ∈ news, Desc (children (att ++ news)) last n.id) :
    iter root (att ++ news) = iter root att ++
      (iter root (att ++ news)).filter (fun x => !(att.map (·.id)).contains x) := by
  have hgrow := iter_growth root att news hwf hroot
  obtain ⟨rk', hk1, hk2, _⟩ := wf_rank hwf
  have hext := visit_ext (children (att ++ news)) rk' hk1 ((att ++ news).length + 1) root []
    (by have := hk2 root; omega) (good_nil _)
  have hgood : Good (children (att ++ news)) (iter root (att ++ news)) := hext.good
  -- every presented id is the id of an attached change
  have hmem : ∀ y ∈ iter root (att ++ news), y ∈ (att ++ news).map (·.id) := by
    intro y hy
    obtain ⟨pre, hp, hd⟩ := hext.pre
    have hpre : iter root (att ++ news) = pre := by simpa [iter, rpo] using hp
    rw [hpre] at hy
    obtain ⟨x, hx1, hx2⟩ := hd y hy
    have : x = root := by simpa using hx1
    subst this
    have : ∀ a b, Desc (children (att ++ news)) a b → a ∈ (att ++ news).map (·.id) → b ∈ (att ++ news).map (·.id) := by
      intro a b hab
      induction hab with
      | refl => exact id
      | step hc _ ih => exact fun _ => ih (children_mem_ids hc)
    exact this x y hx2 (by rw [List.map_append]; exact List.mem_append.mpr (Or.inl hroot))
  have hlast_old : last ∈ iter root att := List.mem_of_getLast? hlast
  have hlast_new : last ∈ iter root (att ++ news) ∧ (att.map (·.id)).contains last = true := by
    rw [← hgrow] at hlast_old
    exact List.mem_filter.mp hlast_old
  have hnd_old : (iter root att).Nodup := by
    rw [← hgrow]; exact hgood.1.sublist List.filter_sublist
  rw [← hgrow]
  apply split_of_pos _ _ hgood.1
  intro o ho n hn hpo hpn
  -- `n` is new: it is the id of a change of `news`, hence a strict descendant of `last`
  have hn_new : n ∉ att.map (·.id) := contains_false_iff.mp hpn
  have hn_in := hmem n hn
  rw [List.map_append, List.mem_append] at hn_in
  have hn_news : n ∈ news.map (·.id) := by
    rcases hn_in with h | h
    · exact absurd h hn_new
    · exact h
  obtain ⟨c, hc, rfl⟩ := List.mem_map.mp hn_news
  have hd := hdesc c hc
  obtain ⟨_, hlt⟩ := hgood.pos_desc hd hlast_new.1
  have hlt' : pos (iter root (att ++ news)) last < pos (iter root (att ++ news)) c.id := by
    rcases hlt with e | h
    · exfalso; rw [e] at hlast_new; exact hn_new (List.contains_iff_mem.mp hlast_new.2)
    · exact h
  -- `o` is old: it is not after `last`
  have ho_old : o ∈ iter root att := by
    rw [← hgrow]; exact List.mem_filter.mpr ⟨ho, hpo⟩
  have hle := pos_le_getLast hnd_old hlast o ho_old
  have : ¬ pos (iter root (att ++ news)) last < pos (iter root (att ++ news)) o := by
    intro h
    have := pos_filter_lt (fun x => (att.map (·.id)).contains x) _ last o hlast_new.2 hpo h
    rw [hgrow] at this
    omega
  omega



/-! ### the verdict of `add` -/

theorem add_tree_att (t0 : T) (batch : List Change) :
    (add t0 batch).tree.att = (addTree t0 batch).att ∧ (add t0 batch).tree.root = (addTree t0 batch).root := by
  unfold add
  simp only
  split
  · exact ⟨rfl, rfl⟩
  · split
    · rename_i h; exact ⟨rfl, rfl⟩
    · split <;> exact ⟨rfl, by simp [*]⟩

theorem add_append_ok (t0 : T) (batch : List Change) (h : (add t0 batch).mode = .append) :
    appendOk t0 (addTree t0 batch) batch = true ∧ t0.att.isEmpty = false := by
  unfold add at h
  simp only at h
  split at h
  · simp at h
  · split at h
    · simp at h
    · split at h
      · simp at h
      · rename_i hne
        refine ⟨?_, by simpa using hne⟩
        cases hok : appendOk t0 (addTree t0 batch) batch
        · simp [hok] at h
        · rfl

theorem appendOk_seen (t0 t : T) (batch : List Change) (h : appendOk t0 t batch = true) :
    ∀ c ∈ batch, t.has c.id = true → c.id ∈ reach (children t.att) (t.att.length + 1) t0.lastIter := by
  intro c hc hhas
  obtain ⟨i, hi, hget⟩ := List.getElem_of_mem hc
  unfold appendOk at h
  simp only [List.all_eq_true, List.mem_range] at h
  have := h i hi
  have hget' : batch[i]? = some c := by rw [List.getElem?_eq_getElem hi, hget]
  simp only [hget', hhas, Bool.not_true, Bool.false_eq_true, if_false, Bool.and_eq_true] at this
  exact List.contains_iff_mem.mp this.2



/-! ### the attach machinery only appends batch members and keeps the list well-formed -/

theorem has_iff {t : T} {x : Nat} : t.has x = true ↔ x ∈ t.att.map (·.id) := by
  unfold T.has
  simp only [List.any_eq_true, List.mem_map]
  constructor
  · rintro ⟨c, hc, he⟩; exact ⟨c, hc, by simpa using he⟩
  · rintro ⟨c, hc, he⟩; exact ⟨c, hc, by simpa using he⟩

/-- invariant of the attach machinery relative to a batch: the attachment list is well-formed, every previous
id of an attached change is attached or can never be (re)introduced by the batch, the unattached changes are
batch members that are not attached -/
structure Inv (batch : List Change) (t : T) : Prop where
  wf : WFAtt t.att
  closed : ∀ d ∈ t.att, ∀ p ∈ d.prevs, t.has p = true ∨ ∀ c ∈ batch, c.id ≠ p
  unb : ∀ u ∈ t.unatt, u ∈ batch ∧ t.has u.id = false

/-- `t'` extends `t` by appending batch members -/
def Extends (batch : List Change) (t t' : T) : Prop :=
  t'.root = t.root ∧ ∃ news, t'.att = t.att ++ news ∧ ∀ n ∈ news, n ∈ batch

theorem Extends.refl (batch : List Change) (t : T) : Extends batch t t := ⟨rfl, [], by simp, by simp⟩

theorem Extends.trans {batch : List Change} {a b c : T} (h1 : Extends batch a b) (h2 : Extends batch b c) :
    Extends batch a c := by
  obtain ⟨r1, n1, e1, m1⟩ := h1
  obtain ⟨r2, n2, e2, m2⟩ := h2
  refine ⟨r2.trans r1, n1 ++ n2, by rw [e2, e1]; simp, ?_⟩
  intro n hn
  rcases List.mem_append.mp hn with h | h
  · exact m1 n h
  · exact m2 n h

theorem canAttach_true {t : T} {c : Change} {b : Bool} {r : Bool} {w : List (Nat × Nat)}
    (h : canAttach t c b = (true, r, w)) : (∀ p ∈ c.prevs, t.has p = true) ∧ t.has c.snap = true := by
  unfold canAttach at h
  simp only at h
  split at h
  · simp at h
  · split at h
    · simp at h
    · rename_i hm
      split at h
      · simp at h
      · rename_i hs
        refine ⟨?_, by simpa using hs⟩
        intro p hp
        have hm' : (c.prevs.filter (fun p => !t.has p)) = [] := by simpa using hm
        rw [List.filter_eq_nil_iff] at hm'
        have := hm' p hp
        simpa using this

/-- the first step of `attach`: append `c` -/
theorem inv_push {batch : List Change} {t : T} {c : Change} (hi : Inv batch t) (hc : c ∈ batch)
    (hnot : t.has c.id = false) (hprev : ∀ p ∈ c.prevs, t.has p = true) :
    Inv batch { t with att := t.att ++ [c], added := t.added ++ [c.id], unatt := t.unatt.filter (·.id != c.id) } := by
  have hnid : c.id ∉ t.att.map (·.id) := by
    intro h; rw [← has_iff] at h; rw [h] at hnot; exact Bool.noConfusion hnot
  have hmono : ∀ x, t.has x = true → ({ t with att := t.att ++ [c], added := t.added ++ [c.id], unatt := t.unatt.filter (·.id != c.id) } : T).has x = true := by
    intro x hx
    rw [has_iff] at hx ⊢
    simp only [List.map_append, List.mem_append]; exact Or.inl hx
  refine ⟨?_, ?_, ?_⟩
  · refine WFAtt.snoc hi.wf hnid ?_ ?_
    · intro h; have := hprev _ h; rw [this] at hnot; exact Bool.noConfusion hnot
    · intro d hd h
      rcases hi.closed d hd _ h with h1 | h1
      · rw [h1] at hnot; exact Bool.noConfusion hnot
      · exact h1 c hc rfl
  · intro d hd p hp
    rcases List.mem_append.mp hd with hd | hd
    · rcases hi.closed d hd p hp with h1 | h1
      · exact Or.inl (hmono p h1)
      · exact Or.inr h1
    · have : d = c := by simpa using hd
      subst this
      exact Or.inl (hmono p (hprev p hp))
  · intro u hu
    have hu' := List.mem_filter.mp hu
    have huid : u.id ≠ c.id := by simpa using hu'.2
    obtain ⟨hb, hn⟩ := hi.unb u hu'.1
    refine ⟨hb, ?_⟩
    cases h : ({ t with att := t.att ++ [c], added := t.added ++ [c.id], unatt := t.unatt.filter (·.id != c.id) } : T).has u.id
    · rfl
    · rw [has_iff] at h
      simp only [List.map_append, List.mem_append, List.map_cons, List.map_nil, List.mem_singleton] at h
      rcases h with h | h
      · rw [← has_iff] at h; rw [h] at hn; exact Bool.noConfusion hn
      · exact absurd h huid


theorem attach_inv (batch : List Change) : ∀ (f : Nat) (t : T) (c : Change), Inv batch t → c ∈ batch →
    t.has c.id = false → (∀ p ∈ c.prevs, t.has p = true) →
    Inv batch (attach f t c) ∧ Extends batch t (attach f t c) := by
  intro f
  induction f with
  | zero => intro t c hi _ _ _; exact ⟨hi, Extends.refl _ _⟩
  | succ f ih =>
    intro t c hi hc hnot hprev
    have h1 := inv_push hi hc hnot hprev
    have e1 : Extends batch t { t with att := t.att ++ [c], added := t.added ++ [c.id], unatt := t.unatt.filter (·.id != c.id) } :=
      ⟨rfl, [c], rfl, fun n hn => (List.mem_singleton.mp hn) ▸ hc⟩
    -- the cascade over the waiters
    have hfold : ∀ (ws : List Nat) (s : T), Inv batch s →
        Inv batch (ws.foldl (fun t w =>
          match t.unatt.find? (·.id == w) with
          | none => t
          | some n =>
            match canAttach t n false with
            | (true, _, _) => attach f t n
            | (false, true, _) => { t with unatt := t.unatt.filter (·.id != n.id) }
            | _ => t) s) ∧
        Extends batch s (ws.foldl (fun t w =>
          match t.unatt.find? (·.id == w) with
          | none => t
          | some n =>
            match canAttach t n false with
            | (true, _, _) => attach f t n
            | (false, true, _) => { t with unatt := t.unatt.filter (·.id != n.id) }
            | _ => t) s) := by
      intro ws
      induction ws with
      | nil => intro s hs; exact ⟨hs, Extends.refl _ _⟩
      | cons w ws ihw =>
        intro s hs
        simp only [List.foldl_cons]
        have step : Inv batch (match s.unatt.find? (·.id == w) with
            | none => s
            | some n =>
              match canAttach s n false with
              | (true, _, _) => attach f s n
              | (false, true, _) => { s with unatt := s.unatt.filter (·.id != n.id) }
              | _ => s) ∧ Extends batch s (match s.unatt.find? (·.id == w) with
            | none => s
            | some n =>
              match canAttach s n false with
              | (true, _, _) => attach f s n
              | (false, true, _) => { s with unatt := s.unatt.filter (·.id != n.id) }
              | _ => s) := by
          split
          · exact ⟨hs, Extends.refl _ _⟩
          · rename_i n hn
            have hnm : n ∈ s.unatt := List.mem_of_find?_eq_some hn
            obtain ⟨hnb, hnh⟩ := hs.unb n hnm
            split
            · rename_i hca
              have := canAttach_true hca
              exact ih s n hs hnb hnh this.1
            · refine ⟨⟨hs.wf, hs.closed, ?_⟩, Extends.refl _ _⟩
              intro u hu
              exact hs.unb u (List.mem_filter.mp hu).1
            · exact ⟨hs, Extends.refl _ _⟩
        obtain ⟨hi2, he2⟩ := ihw _ step.1
        exact ⟨hi2, step.2.trans he2⟩
    unfold attach
    simp only
    obtain ⟨hi2, he2⟩ := hfold _ _ h1
    exact ⟨⟨hi2.wf, hi2.closed, hi2.unb⟩, e1.trans he2⟩


theorem addOne_inv (batch : List Change) (t : T) (c : Change) (hi : Inv batch t) (hc : c ∈ batch)
    (hroot : t.root.isSome = true) (hnot : t.has c.id = false) :
    Inv batch (addOne t c) ∧ Extends batch t (addOne t c) := by
  unfold addOne
  split
  · rename_i h; rw [h] at hroot; simp at hroot
  · split
    · rename_i hca
      exact attach_inv batch _ t c hi hc hnot (canAttach_true hca).1
    · exact ⟨hi, Extends.refl _ _⟩
    · refine ⟨⟨hi.wf, hi.closed, ?_⟩, rfl, [], by simp, by simp⟩
      intro u hu
      rcases List.mem_append.mp hu with hu | hu
      · exact hi.unb u hu
      · have : u = c := by simpa using hu
        subst this; exact ⟨hc, hnot⟩

theorem addAll_inv (batch : List Change) : ∀ (l : List Change) (t : T), (∀ c ∈ l, c ∈ batch) → Inv batch t →
    t.root.isSome = true → Inv batch (addAll t l) ∧ Extends batch t (addAll t l) := by
  intro l
  induction l with
  | nil => intro t _ hi _; exact ⟨hi, Extends.refl _ _⟩
  | cons c l ih =>
    intro t hl hi hroot
    unfold addAll
    simp only [List.foldl_cons]
    have step : Inv batch (if t.has c.id || t.hasUn c.id then t else addOne t c) ∧
        Extends batch t (if t.has c.id || t.hasUn c.id then t else addOne t c) := by
      split
      · exact ⟨hi, Extends.refl _ _⟩
      · rename_i hg
        have hnot : t.has c.id = false := by
          cases h : t.has c.id
          · rfl
          · simp [h] at hg
        exact addOne_inv batch t c hi (hl c (by simp)) hroot hnot
    have hroot' : (if t.has c.id || t.hasUn c.id then t else addOne t c).root.isSome = true := by
      rw [step.2.1]; exact hroot
    obtain ⟨i2, e2⟩ := ih _ (fun d hd => hl d (List.mem_cons_of_mem _ hd)) step.1 hroot'
    exact ⟨i2, step.2.trans e2⟩

/-- **add_appends**: the attach machinery only appends batch members and keeps the attachment list well-formed -/
theorem add_appends (t0 : T) (batch : List Change) (hwf : WFAtt t0.att) (hun : t0.unatt = [])
    (hroot : t0.root.isSome = true)
    (hclosed : ∀ d ∈ t0.att, ∀ p ∈ d.prevs, t0.has p = true ∨ ∀ c ∈ batch, c.id ≠ p) :
    ∃ news, (addTree t0 batch).att = t0.att ++ news ∧ (∀ n ∈ news, n ∈ batch) ∧ WFAtt (t0.att ++ news) := by
  have hi0 : Inv batch { t0 with added := [] } := ⟨hwf, hclosed, by intro u hu; rw [hun] at hu; simp at hu⟩
  obtain ⟨i, _, news, e, m⟩ := addAll_inv batch batch { t0 with added := [] } (fun c hc => hc) hi0 hroot
  refine ⟨news, ?_, m, ?_⟩
  · unfold addTree; exact e
  · have := i.wf; rw [e] at this; exact this



/-! ### the stored sequence (`storeInsert`) -/

theorem insertAfter_cons_eq (p x : Nat) (l : List Nat) : insertAfter p x (p :: l) = p :: x :: l := by
  simp [insertAfter]

theorem insertAfter_cons_ne {a p : Nat} (x : Nat) (l : List Nat) (h : a ≠ p) :
    insertAfter p x (a :: l) = a :: insertAfter p x l := by
  simp [insertAfter, h]

theorem mem_insertAfter {p x y : Nat} {l : List Nat} : y ∈ insertAfter p x l ↔ y = x ∨ y ∈ l := by
  induction l with
  | nil => simp [insertAfter]
  | cons a l ih =>
    unfold insertAfter
    split
    · simp only [List.mem_cons]; constructor
      · rintro (h | h | h) <;> simp [h]
      · rintro (h | h | h) <;> simp [h]
    · simp only [List.mem_cons, ih]; constructor
      · rintro (h | h | h) <;> simp [h]
      · rintro (h | h | h) <;> simp [h]

theorem nodup_insertAfter {p x : Nat} {l : List Nat} (h : l.Nodup) (hx : x ∉ l) : (insertAfter p x l).Nodup := by
  induction l with
  | nil => simp [insertAfter]
  | cons a l ih =>
    have h' := List.nodup_cons.mp h
    have hxa : x ≠ a := fun e => hx (by simp [e])
    have hxl : x ∉ l := fun e => hx (List.mem_cons_of_mem _ e)
    unfold insertAfter
    split
    · refine List.nodup_cons.mpr ⟨?_, List.nodup_cons.mpr ⟨hxl, h'.2⟩⟩
      intro hm; rcases List.mem_cons.mp hm with e | e
      · exact hxa e.symm
      · exact h'.1 e
    · refine List.nodup_cons.mpr ⟨?_, ih h'.2 hxl⟩
      intro hm; rcases mem_insertAfter.mp hm with e | e
      · exact hxa e.symm
      · exact h'.1 e

theorem filter_insertAfter_keep (k : Nat → Bool) {p x : Nat} (hx : k x = true) :
    ∀ l : List Nat, (∀ a ∈ l, a = p → k a = true) → (insertAfter p x l).filter k = insertAfter p x (l.filter k) := by
  intro l
  induction l with
  | nil => intro _; simp [insertAfter, hx]
  | cons a l ih =>
    intro hp
    by_cases hap : a = p
    · subst hap
      have hka : k a = true := hp a (by simp) rfl
      rw [insertAfter_cons_eq, List.filter_cons, if_pos hka, List.filter_cons, if_pos hx,
        List.filter_cons, if_pos hka, insertAfter_cons_eq]
    · have ih' := ih (fun b hb => hp b (List.mem_cons_of_mem _ hb))
      rw [insertAfter_cons_ne x l hap]
      cases hka : k a
      · rw [List.filter_cons, List.filter_cons]; simp only [hka, Bool.false_eq_true, if_false]; exact ih'
      · rw [List.filter_cons, List.filter_cons]; simp only [hka, if_true]
        rw [insertAfter_cons_ne x _ hap, ih']

theorem filter_insertAfter_drop (k : Nat → Bool) {p x : Nat} (hx : k x = false) :
    ∀ l : List Nat, (insertAfter p x l).filter k = l.filter k := by
  intro l
  induction l with
  | nil => simp [insertAfter, hx]
  | cons a l ih =>
    unfold insertAfter
    split
    · simp [List.filter_cons, hx]
    · simp [List.filter_cons, ih]

theorem insertAfter_append {p x : Nat} {A B : List Nat} (h : p ∉ A) :
    insertAfter p x (A ++ p :: B) = A ++ p :: x :: B := by
  induction A with
  | nil => simp [insertAfter]
  | cons a A ih =>
    have hap : a ≠ p := fun e => h (by simp [e])
    have : p ∉ A := fun e => h (List.mem_cons_of_mem _ e)
    simp [insertAfter, hap, ih this]


/-- the body of the `storeInsert` fold -/
def storeStep (acc : List Nat × Option Nat) (x : Nat) : List Nat × Option Nat :=
  if acc.1.contains x then (acc.1, some x)
  else match acc.2 with
    | none => (x :: acc.1, some x)
    | some p => (insertAfter p x acc.1, some x)

theorem storeInsert_eq (S it : List Nat) : storeInsert S it = (it.foldl storeStep (S, none)).1 := rfl

theorem filter_congr_mem {l : List Nat} {p q : Nat → Bool} (h : ∀ y ∈ l, p y = q y) : l.filter p = l.filter q :=
  List.filter_congr h

theorem storeFold_spec (old : Nat → Bool) (S it' : List Nat) (hit : it'.Nodup)
    (h0 : S.filter old = it'.filter old) (hnew : ∀ x ∈ it', old x = false → x ∉ S) :
    ∀ (Q P : List Nat) (acc : List Nat), it' = P ++ Q →
      acc.Nodup → (∀ x ∈ acc, x ∈ S ∨ x ∈ P) → (∀ x ∈ S, x ∈ acc) → (∀ x ∈ P, x ∈ acc) →
      acc.filter (fun y => old y || P.contains y) = it'.filter (fun y => old y || P.contains y) →
      acc.filter (fun y => S.contains y) = S →
      ((Q.foldl storeStep (acc, P.getLast?)).1.filter (fun y => old y || it'.contains y) = it' ∧
       (Q.foldl storeStep (acc, P.getLast?)).1.filter (fun y => S.contains y) = S ∧
       (Q.foldl storeStep (acc, P.getLast?)).1.Nodup ∧
       (∀ y ∈ (Q.foldl storeStep (acc, P.getLast?)).1, y ∈ S ∨ y ∈ it')) := by
  intro Q
  induction Q with
  | nil =>
    intro P acc hdec hnd hsub0 _ _ hf hs
    have hP : it' = P := by simpa using hdec
    subst hP
    refine ⟨?_, hs, hnd, hsub0⟩
    simp only [List.foldl_nil]
    rw [hf]
    rw [List.filter_eq_self]
    intro y hy; simp [hy]
  | cons x Q ih =>
    intro P acc hdec hnd hsub hS hP hf hs
    have hdec' : it' = (P ++ [x]) ++ Q := by rw [hdec]; simp
    have hx_it : x ∈ it' := by rw [hdec]; simp
    have hnd_it := hit
    rw [hdec] at hnd_it
    have hxP : x ∉ P := by
      intro h
      have := (List.nodup_append.mp hnd_it).2.2 x h x (by simp)
      exact this rfl
    have hxQ : x ∉ Q := (List.nodup_cons.mp (List.nodup_append.mp hnd_it).2.1).1
    have hlast : (P ++ [x]).getLast? = some x := List.getLast?_concat
    simp only [List.foldl_cons]
    by_cases hc : acc.contains x = true
    · -- already stored: nothing moves
      have hstep : storeStep (acc, P.getLast?) x = (acc, (P ++ [x]).getLast?) := by
        unfold storeStep; rw [if_pos hc, hlast]
      rw [hstep]
      have hxacc : x ∈ acc := List.contains_iff_mem.mp hc
      have hxS : x ∈ S := by
        rcases hsub x hxacc with h | h
        · exact h
        · exact absurd h hxP
      have hold : old x = true := by
        cases h : old x
        · exact absurd hxS (hnew x hx_it h)
        · rfl
      have hK : ∀ y, (old y || (P ++ [x]).contains y) = (old y || P.contains y) := by
        intro y
        by_cases hyx : y = x
        · subst hyx; simp [hold]
        · simp [hyx]
      apply ih (P ++ [x]) acc hdec' hnd
      · intro y hy; rcases hsub y hy with h | h
        · exact Or.inl h
        · exact Or.inr (List.mem_append.mpr (Or.inl h))
      · exact hS
      · intro y hy; rcases List.mem_append.mp hy with h | h
        · exact hP y h
        · have : y = x := by simpa using h
          exact this ▸ hxacc
      · rw [filter_congr_mem (fun y _ => hK y), filter_congr_mem (l := it') (fun y _ => hK y)]; exact hf
      · exact hs
    · -- a new change: placed right after its predecessor
      have hxacc : x ∉ acc := fun h => hc (List.contains_iff_mem.mpr h)
      have hxS : x ∉ S := fun h => hxacc (hS x h)
      have hold : old x = false := by
        cases h : old x
        · rfl
        · exfalso
          have : x ∈ it'.filter old := List.mem_filter.mpr ⟨hx_it, h⟩
          rw [← h0] at this
          exact hxS (List.mem_filter.mp this).1
      have hKx : (old x || P.contains x) = false := by
        have : P.contains x = false := contains_false_iff.mpr hxP
        rw [hold, this]; rfl
      have hK' : ∀ y, y ≠ x → (old y || (P ++ [x]).contains y) = (old y || P.contains y) := by
        intro y hyx; simp [hyx]
      have hK'x : (old x || (P ++ [x]).contains x) = true := by simp
      -- the new accumulator
      cases hl : P.getLast? with
      | none =>
        have hPnil : P = [] := List.getLast?_eq_none_iff.mp hl
        subst hPnil
        have hstep : storeStep (acc, none) x = (x :: acc, ([] ++ [x]).getLast?) := by
          unfold storeStep; rw [if_neg hc]; rfl
        rw [hstep]
        apply ih ([] ++ [x]) (x :: acc) hdec' (List.nodup_cons.mpr ⟨hxacc, hnd⟩)
        · intro y hy; rcases List.mem_cons.mp hy with h | h
          · right; simp [h]
          · rcases hsub y h with h' | h'
            · exact Or.inl h'
            · simp at h'
        · intro y hy; exact List.mem_cons_of_mem _ (hS y hy)
        · intro y hy; have : y = x := by simpa using hy
          simp [this]
        · have hit0 : it' = x :: Q := by simpa using hdec
          have e1 : it'.filter (fun y => old y || ([] : List Nat).contains y)
              = Q.filter (fun y => old y || ([] : List Nat).contains y) := by
            rw [hit0, List.filter_cons]; simp only [hKx, Bool.false_eq_true, if_false]
          have e2 : it'.filter (fun y => old y || (([] : List Nat) ++ [x]).contains y)
              = x :: Q.filter (fun y => old y || (([] : List Nat) ++ [x]).contains y) := by
            rw [hit0, List.filter_cons, if_pos hK'x]
          rw [e2, List.filter_cons, if_pos hK'x]
          rw [filter_congr_mem (l := acc) (fun y hy => hK' y (fun e => hxacc (e ▸ hy)))]
          rw [hf, e1]
          rw [filter_congr_mem (l := Q) (fun y hy => hK' y (fun e => hxQ (e ▸ hy)))]
        · rw [List.filter_cons]
          have : S.contains x = false := contains_false_iff.mpr hxS
          simp only [this, Bool.false_eq_true, if_false]; exact hs
      | some p =>
        obtain ⟨P0, hP0⟩ := List.getLast?_eq_some_iff.mp hl
        subst hP0
        have hstep : storeStep (acc, some p) x = (insertAfter p x acc, ((P0 ++ [p]) ++ [x]).getLast?) := by
          unfold storeStep; rw [if_neg hc, List.getLast?_concat]
        rw [hstep]
        have hpP0 : p ∉ P0 := by
          intro h
          have h1 : (P0 ++ [p]).Nodup := (List.nodup_append.mp hnd_it).1
          exact (List.nodup_append.mp h1).2.2 p h p (by simp) rfl
        apply ih ((P0 ++ [p]) ++ [x]) (insertAfter p x acc) hdec' (nodup_insertAfter hnd hxacc)
        · intro y hy; rcases mem_insertAfter.mp hy with h | h
          · right; simp [h]
          · rcases hsub y h with h' | h'
            · exact Or.inl h'
            · exact Or.inr (List.mem_append.mpr (Or.inl h'))
        · intro y hy; exact mem_insertAfter.mpr (Or.inr (hS y hy))
        · intro y hy; rcases List.mem_append.mp hy with h | h
          · exact mem_insertAfter.mpr (Or.inr (hP y h))
          · have : y = x := by simpa using h
            exact mem_insertAfter.mpr (Or.inl this)
        · rw [filter_insertAfter_keep _ hK'x acc (by intro a _ ha; subst ha; simp)]
          rw [filter_congr_mem (l := acc) (fun y hy => hK' y (fun e => hxacc (e ▸ hy))), hf]
          have hit0 : it' = P0 ++ p :: x :: Q := by rw [hdec]; simp
          have hKp : (old p || (P0 ++ [p]).contains p) = true := by simp
          have hxP0 : x ∉ P0 := fun h => hxP (List.mem_append.mpr (Or.inl h))
          have hpx : p ≠ x := fun e => hxP (by simp [e])
          rw [hit0]
          simp only [List.filter_append, List.filter_cons, hKp, hKx, hK'x, if_true, Bool.false_eq_true, if_false]
          have hKp' : (old p || (P0 ++ [p] ++ [x]).contains p) = true := by simp
          simp only [hKp', if_true]
          rw [insertAfter_append (by
            intro h; exact hpP0 (List.mem_filter.mp h).1)]
          rw [filter_congr_mem (l := P0) (fun y hy => hK' y (fun e => hxP0 (e ▸ hy))),
            filter_congr_mem (l := Q) (fun y hy => hK' y (fun e => hxQ (e ▸ hy)))]
        · rw [filter_insertAfter_drop _ (contains_false_iff.mpr hxS)]; exact hs


theorem iter_mem_ids (root : Nat) (att : List Change) (hwf : WFAtt att) (hroot : root ∈ att.map (·.id)) :
    ∀ y ∈ iter root att, y ∈ att.map (·.id) := by
  obtain ⟨rk, hk1, hk2, _⟩ := wf_rank hwf
  have hext := visit_ext (children att) rk hk1 (att.length + 1) root [] (by have := hk2 root; omega) (good_nil _)
  intro y hy
  obtain ⟨pre, hp, hd⟩ := hext.pre
  have hpre : iter root att = pre := by simpa [iter, rpo] using hp
  rw [hpre] at hy
  obtain ⟨x, hx1, hx2⟩ := hd y hy
  have : x = root := by simpa using hx1
  subst this
  have : ∀ a b, Desc (children att) a b → a ∈ att.map (·.id) → b ∈ att.map (·.id) := by
    intro a b hab
    induction hab with
    | refl => exact id
    | step hc _ ih => exact fun _ => ih (children_mem_ids hc)
  exact this x y hx2 hroot

theorem iter_good (root : Nat) (att : List Change) (hwf : WFAtt att) : Good (children att) (iter root att) := by
  obtain ⟨rk, hk1, hk2, _⟩ := wf_rank hwf
  exact (visit_ext (children att) rk hk1 (att.length + 1) root [] (by have := hk2 root; omega) (good_nil _)).good

/-- **storage**: after an addition the stored sequence restricted to the in-memory changes is the iteration,
entries stored before are never moved, nothing is stored twice -/
theorem storeInsert_spec (stored : List Nat) (root : Nat) (att news : List Change)
    (hwf : WFAtt (att ++ news)) (hroot : root ∈ att.map (·.id)) (hnd : stored.Nodup)
    (hst : stored.filter (fun x => (att.map (·.id)).contains x) = iter root att)
    (hfresh : ∀ n ∈ news, n.id ∉ stored) :
    (storeInsert stored (iter root (att ++ news))).filter (fun x => ((att ++ news).map (·.id)).contains x)
        = iter root (att ++ news) ∧
    (storeInsert stored (iter root (att ++ news))).filter (fun x => stored.contains x) = stored ∧
    (storeInsert stored (iter root (att ++ news))).Nodup := by
  have hroot' : root ∈ (att ++ news).map (·.id) := by
    rw [List.map_append]; exact List.mem_append.mpr (Or.inl hroot)
  have hmem := iter_mem_ids root (att ++ news) hwf hroot'
  have hgood := iter_good root (att ++ news) hwf
  have hgrow := iter_growth root att news hwf hroot
  have hnew : ∀ x ∈ iter root (att ++ news), (att.map (·.id)).contains x = false → x ∉ stored := by
    intro x hx hold
    have h1 := hmem x hx
    rw [List.map_append, List.mem_append] at h1
    rcases h1 with h1 | h1
    · rw [List.contains_iff_mem.mpr h1] at hold; exact Bool.noConfusion hold
    · obtain ⟨n, hn, rfl⟩ := List.mem_map.mp h1
      exact hfresh n hn
  have spec := storeFold_spec (fun x => (att.map (·.id)).contains x) stored (iter root (att ++ news)) hgood.1
    (by rw [hst, hgrow]) hnew (iter root (att ++ news)) [] stored (by simp) hnd
    (fun x hx => Or.inl hx) (fun x hx => hx) (by simp)
    (by
      have : ∀ y, ((att.map (·.id)).contains y || ([] : List Nat).contains y) = (att.map (·.id)).contains y := by
        intro y; simp
      rw [filter_congr_mem (fun y _ => this y), filter_congr_mem (l := iter root (att ++ news)) (fun y _ => this y), hst, hgrow])
    (by rw [List.filter_eq_self]; intro y hy; exact List.contains_iff_mem.mpr hy)
  rw [storeInsert_eq]
  obtain ⟨s1, s2, s3, s4⟩ := spec
  refine ⟨?_, s2, s3⟩
  refine (filter_congr_mem ?_).trans s1
  intro y hy
  symm
  rcases s4 y hy with hyS | hyI
  · by_cases hyI : y ∈ iter root (att ++ news)
    · rw [List.contains_iff_mem.mpr hyI, List.contains_iff_mem.mpr (hmem y hyI)]; simp
    · rw [contains_false_iff.mpr hyI, Bool.or_false]
      cases hold : (att.map (·.id)).contains y
      · cases hM : ((att ++ news).map (·.id)).contains y
        · rfl
        · exfalso
          have h1 := List.contains_iff_mem.mp hM
          rw [List.map_append, List.mem_append] at h1
          rcases h1 with h1 | h1
          · rw [List.contains_iff_mem.mpr h1] at hold; exact Bool.noConfusion hold
          · obtain ⟨n, hn, rfl⟩ := List.mem_map.mp h1
            exact hfresh n hn hyS
      · have h1 := List.contains_iff_mem.mp hold
        have : y ∈ (att ++ news).map (·.id) := by rw [List.map_append]; exact List.mem_append.mpr (Or.inl h1)
        rw [List.contains_iff_mem.mpr this]
  · rw [List.contains_iff_mem.mpr hyI, List.contains_iff_mem.mpr (hmem y hyI)]; simp


theorem pos_inj {l : List Nat} {y z : Nat} (hy : y ∈ l) (h : pos l y = pos l z) : y = z := by
  induction l with
  | nil => simp at hy
  | cons a l ih =>
    by_cases hay : a = y
    · by_cases haz : a = z
      · rw [← hay, haz]
      · have h1 : pos (a :: l) y = 0 := by simp [pos, hay]
        have h2 : pos (a :: l) z = pos l z + 1 := by simp [pos, haz]
        omega
    · by_cases haz : a = z
      · have h1 : pos (a :: l) z = 0 := by simp [pos, haz]
        have h2 : pos (a :: l) y = pos l y + 1 := by simp [pos, hay]
        omega
      · have h1 : pos (a :: l) z = pos l z + 1 := by simp [pos, haz]
        have h2 : pos (a :: l) y = pos l y + 1 := by simp [pos, hay]
        rcases List.mem_cons.mp hy with e | e
        · exact absurd e.symm hay
        · exact ih e (by omega)

theorem pos_filter_lt_rev (k : Nat → Bool) (l : List Nat) (y z : Nat) (hy : k y = true) (hz : k z = true)
    (hzl : z ∈ l) (h : pos (l.filter k) y < pos (l.filter k) z) : pos l y < pos l z := by
  rcases Nat.lt_trichotomy (pos l y) (pos l z) with h1 | h1 | h1
  · exact h1
  · have : z = y := pos_inj hzl h1.symm
    subst this; omega
  · have := pos_filter_lt k l z y hz hy h1
    omega



/-! ### causal arrival: everything attaches directly; confluence -/

theorem has_mono_append {t : T} {x : Nat} {c : Change} (h : t.has x = true) :
    ({ t with att := t.att ++ [c] } : T).has x = true := by
  rw [has_iff] at h ⊢
  simp only [List.map_append, List.mem_append]; exact Or.inl h

/-- with nothing unattached the cascade over the waiters does nothing -/
theorem cascade_noop (f : Nat) (ws : List Nat) : ∀ (s : T), s.unatt = [] →
    ws.foldl (fun t w =>
      match t.unatt.find? (·.id == w) with
      | none => t
      | some n =>
        match canAttach t n false with
        | (true, _, _) => attach f t n
        | (false, true, _) => { t with unatt := t.unatt.filter (·.id != n.id) }
        | _ => t) s = s := by
  induction ws with
  | nil => intro s _; rfl
  | cons w ws ih =>
    intro s hs
    simp only [List.foldl_cons, hs, List.find?_nil]
    exact ih s hs

/-- attaching with nothing unattached: `c` is appended, nothing else happens -/
theorem attach_direct (f : Nat) (t : T) (c : Change) (hun : t.unatt = []) :
    (attach (f + 1) t c).att = t.att ++ [c] ∧ (attach (f + 1) t c).unatt = [] ∧
    (attach (f + 1) t c).root = t.root := by
  have h := cascade_noop f ((t.wait.filter (·.1 == c.id)).map (·.2))
    { t with att := t.att ++ [c], added := t.added ++ [c.id], unatt := t.unatt.filter (·.id != c.id) }
    (by simp [hun])
  unfold attach
  simp only
  refine ⟨(congrArg T.att h).trans rfl, (congrArg T.unatt h).trans (by simp [hun]), (congrArg T.root h).trans rfl⟩

theorem canAttach_ok {t : T} {c : Change} (hne : c.prevs ≠ []) (hp : ∀ p ∈ c.prevs, t.has p = true)
    (hs : t.has c.snap = true) : canAttach t c true = (true, false, []) := by
  unfold canAttach
  have : c.prevs.filter (fun p => !t.has p) = [] := by
    rw [List.filter_eq_nil_iff]; intro p hpm; simp [hp p hpm]
  have hne' : c.prevs.isEmpty = false := by simpa using hne
  simp [this, hs, hne']

/-- one change whose previous ids and snapshot are attached, arriving at a tree with nothing unattached -/
theorem addOne_direct (t : T) (c : Change) (hun : t.unatt = []) (hroot : t.root.isSome = true)
    (hne : c.prevs ≠ []) (hp : ∀ p ∈ c.prevs, t.has p = true) (hs : t.has c.snap = true) :
    (addOne t c).att = t.att ++ [c] ∧ (addOne t c).unatt = [] ∧ (addOne t c).root = t.root := by
  unfold addOne
  split
  · rename_i h; rw [h] at hroot; simp at hroot
  · rw [canAttach_ok hne hp hs]
    simp only
    rw [hun]
    exact attach_direct 0 t c hun

/-- "held or earlier": every element not yet attached has previous ids (only the root has none), and each previous
id as well as the snapshot is attached in `t` or is the id of an earlier element -/
def CausalFor (t : T) (l : List Change) : Prop :=
  ∀ l1 c l2, l = l1 ++ c :: l2 →
    (∀ p ∈ c.prevs, t.has p = true ∨ p ∈ l1.map (·.id)) ∧ (t.has c.snap = true ∨ c.snap ∈ l1.map (·.id)) ∧
    (c.prevs ≠ [] ∨ t.has c.id = true)

/-- **causal arrival**: a causally ordered run of changes is attached completely and directly (the wait list is
never used); the result is the old attachment list followed by the changes not yet attached, in order -/
theorem addAll_causal : ∀ (l : List Change) (t : T), t.unatt = [] → t.root.isSome = true → CausalFor t l →
    (addAll t l).unatt = [] ∧ (addAll t l).root = t.root ∧
    (∀ x, t.has x = true → (addAll t l).has x = true) ∧ (∀ c ∈ l, (addAll t l).has c.id = true) ∧
    (∀ d ∈ (addAll t l).att, d ∈ t.att ∨ d ∈ l) ∧
    ((t.att.map (·.id)).Nodup → ((addAll t l).att.map (·.id)).Nodup) := by
  intro l
  induction l with
  | nil => intro t hun _ _; exact ⟨hun, rfl, fun _ h => h, by simp, fun d hd => Or.inl hd, fun h => h⟩
  | cons c l ih =>
    intro t hun hroot hc
    unfold addAll
    simp only [List.foldl_cons]
    have hc0 := hc [] c l rfl
    -- the state after `c`
    have key : ∃ t', (if t.has c.id || t.hasUn c.id then t else addOne t c) = t' ∧ t'.unatt = [] ∧
        t'.root = t.root ∧ (∀ x, t.has x = true → t'.has x = true) ∧ t'.has c.id = true ∧
        (∀ d ∈ t'.att, d ∈ t.att ∨ d = c) ∧ ((t.att.map (·.id)).Nodup → (t'.att.map (·.id)).Nodup) := by
      by_cases hh : t.has c.id = true
      · exact ⟨t, by simp [hh], hun, rfl, fun _ h => h, hh, fun d hd => Or.inl hd, fun h => h⟩
      · have hhf : t.has c.id = false := by simpa using hh
        have hunf : t.hasUn c.id = false := by simp [T.hasUn, hun]
        have hp : ∀ p ∈ c.prevs, t.has p = true := by
          intro p hp; rcases hc0.1 p hp with h | h
          · exact h
          · simp at h
        have hs : t.has c.snap = true := by
          rcases hc0.2.1 with h | h
          · exact h
          · simp at h
        have hne : c.prevs ≠ [] := by
          rcases hc0.2.2 with h | h
          · exact h
          · rw [h] at hhf; exact Bool.noConfusion hhf
        obtain ⟨a1, a2, a3⟩ := addOne_direct t c hun hroot hne hp hs
        refine ⟨addOne t c, by simp [hhf, hunf], a2, a3, ?_, ?_, ?_, ?_⟩
        · intro x hx; rw [has_iff] at hx ⊢; rw [a1]; simp only [List.map_append, List.mem_append]; exact Or.inl hx
        · rw [has_iff, a1]; simp
        · intro d hd; rw [a1] at hd
          rcases List.mem_append.mp hd with h | h
          · exact Or.inl h
          · right; simpa using h
        · intro hnd
          rw [a1, List.map_append, List.nodup_append]
          refine ⟨hnd, by simp, ?_⟩
          intro x hx y hy
          have : y = c.id := by simpa using hy
          subst this
          intro e; subst e
          rw [← has_iff] at hx; rw [hx] at hhf; exact Bool.noConfusion hhf
    obtain ⟨t', ht', u', r', m', hc', sub', nd'⟩ := key
    rw [ht']
    have hcaus : CausalFor t' l := by
      intro l1 d l2 hdec
      have := hc (c :: l1) d l2 (by rw [hdec]; rfl)
      constructor
      · intro p hp
        rcases this.1 p hp with h | h
        · exact Or.inl (m' p h)
        · rcases List.mem_cons.mp h with e | e
          · left; rw [e]; exact hc'
          · exact Or.inr e
      refine ⟨?_, this.2.2.imp id (fun h => m' _ h)⟩
      · rcases this.2.1 with h | h
        · exact Or.inl (m' _ h)
        · rcases List.mem_cons.mp h with e | e
          · left; rw [e]; exact hc'
          · exact Or.inr e
    obtain ⟨i1, i2, i3, i4, i5, i6⟩ := ih t' u' (by rw [r']; exact hroot) hcaus
    refine ⟨i1, i2.trans r', fun x hx => i3 x (m' x hx), ?_, ?_, fun h => i6 (nd' h)⟩
    · intro d hd
      rcases List.mem_cons.mp hd with e | e
      · rw [e]; exact i3 _ hc'
      · exact i4 d e
    · intro d hd
      rcases i5 d hd with h | h
      · rcases sub' d h with h' | h'
        · exact Or.inl h'
        · right; simp [h']
      · exact Or.inr (List.mem_cons_of_mem _ h)


theorem nodup_of_map_id {l : List Change} (h : (l.map (·.id)).Nodup) : l.Nodup := by
  unfold List.Nodup at h ⊢
  exact List.Pairwise.of_map (fun c => c.id) (fun a b hab e => hab (by rw [e])) h

theorem add_tree_unatt (t0 : T) (batch : List Change) : (add t0 batch).tree.unatt = [] := by
  unfold add
  simp only
  split
  · rfl
  · split <;> (try split) <;> rfl

/-- a sequence of additions -/
def addSeq (t : T) (L : List (List Change)) : T := L.foldl (fun t b => (add t b).tree) t

theorem CausalFor.prefix {t : T} {a b : List Change} (h : CausalFor t (a ++ b)) : CausalFor t a := by
  intro l1 c l2 hdec
  exact h l1 c (l2 ++ b) (by rw [hdec]; simp)

/-- **causal arrival, any batching**: additions whose concatenation is causally ordered attach everything -/
theorem addSeq_causal : ∀ (L : List (List Change)) (t : T), t.unatt = [] → t.root.isSome = true →
    CausalFor t L.flatten →
    (addSeq t L).unatt = [] ∧ (addSeq t L).root = t.root ∧
    (∀ x, t.has x = true → (addSeq t L).has x = true) ∧ (∀ c ∈ L.flatten, (addSeq t L).has c.id = true) ∧
    (∀ d ∈ (addSeq t L).att, d ∈ t.att ∨ d ∈ L.flatten) ∧
    ((t.att.map (·.id)).Nodup → ((addSeq t L).att.map (·.id)).Nodup) := by
  intro L
  induction L with
  | nil => intro t hun _ _; exact ⟨hun, rfl, fun _ h => h, by simp, fun d hd => Or.inl hd, fun h => h⟩
  | cons b L ih =>
    intro t hun hroot hc
    simp only [List.flatten_cons] at hc
    obtain ⟨a1, a2, a3, a4, a5, a6⟩ := addAll_causal b { t with added := [] } hun hroot hc.prefix
    -- the tree after the first addition
    have e := add_tree_att t b
    have hatt : (add t b).tree.att = (addAll { t with added := [] } b).att := by rw [e.1]; rfl
    have hrt : (add t b).tree.root = t.root := by rw [e.2]; exact a2
    have hhas : ∀ x, (add t b).tree.has x = (addAll { t with added := [] } b).has x := by
      intro x; unfold T.has; rw [hatt]
    have hcaus : CausalFor (add t b).tree L.flatten := by
      intro l1 d l2 hdec
      have := hc (b ++ l1) d l2 (by rw [hdec]; simp)
      constructor
      · intro p hp
        rcases this.1 p hp with h | h
        · left; rw [hhas]; exact a3 p h
        · rw [List.map_append, List.mem_append] at h
          rcases h with h | h
          · obtain ⟨q, hq, hqp⟩ := List.mem_map.mp h
            left; rw [hhas, ← hqp]; exact a4 q hq
          · exact Or.inr h
      refine ⟨?_, this.2.2.imp id (fun h => by rw [hhas]; exact a3 _ h)⟩
      · rcases this.2.1 with h | h
        · left; rw [hhas]; exact a3 _ h
        · rw [List.map_append, List.mem_append] at h
          rcases h with h | h
          · obtain ⟨q, hq, hqp⟩ := List.mem_map.mp h
            left; rw [hhas, ← hqp]; exact a4 q hq
          · exact Or.inr h
    obtain ⟨i1, i2, i3, i4, i5, i6⟩ := ih (add t b).tree (add_tree_unatt t b) (by rw [hrt]; exact hroot) hcaus
    show (addSeq (add t b).tree L).unatt = [] ∧ _
    refine ⟨i1, i2.trans hrt, ?_, ?_, ?_, ?_⟩
    · intro x hx; apply i3; rw [hhas]; exact a3 x hx
    · intro c hcm
      simp only [List.flatten_cons, List.mem_append] at hcm
      rcases hcm with h | h
      · apply i3; rw [hhas]; exact a4 c h
      · exact i4 c h
    · intro d hd
      rcases i5 d hd with h | h
      · rw [hatt] at h
        rcases a5 d h with h' | h'
        · exact Or.inl h'
        · right; simp only [List.flatten_cons, List.mem_append]; exact Or.inl h'
      · right; simp only [List.flatten_cons, List.mem_append]; exact Or.inr h
    · intro hnd; apply i6; rw [hatt]; exact a6 hnd

/-- **confluence for causal arrival**: two sequences of additions that deliver the same changes, each in a
causal order (any batching, any duplication), produce the same attached set and the same presented sequence -/
theorem addSeq_confluent (t : T) (L1 L2 : List (List Change)) (hun : t.unatt = []) (r : Nat) (hroot : t.root = some r)
    (hnd : (t.att.map (·.id)).Nodup)
    (huniq : ∀ c ∈ t.att ++ L1.flatten ++ L2.flatten, ∀ d ∈ t.att ++ L1.flatten ++ L2.flatten, c.id = d.id → c = d)
    (h1 : CausalFor t L1.flatten) (h2 : CausalFor t L2.flatten)
    (hsame : ∀ c, c ∈ L1.flatten ↔ c ∈ L2.flatten) :
    (addSeq t L1).att.Perm (addSeq t L2).att ∧ iter r (addSeq t L1).att = iter r (addSeq t L2).att := by
  have hr : t.root.isSome = true := by simp [hroot]
  obtain ⟨_, _, a3, a4, a5, a6⟩ := addSeq_causal L1 t hun hr h1
  obtain ⟨_, _, b3, b4, b5, b6⟩ := addSeq_causal L2 t hun hr h2
  have mem1 : ∀ d, d ∈ (addSeq t L1).att ↔ d ∈ t.att ∨ d ∈ L1.flatten := by
    intro d; constructor
    · exact a5 d
    · rintro (h | h)
      · -- an attached change stays attached (same id, unique ids)
        have := a3 d.id (has_iff.mpr (List.mem_map.mpr ⟨d, h, rfl⟩))
        obtain ⟨e, he, hid⟩ := List.mem_map.mp (has_iff.mp this)
        have hin : e ∈ t.att ++ L1.flatten ++ L2.flatten := by
          rcases a5 e he with h' | h'
          · simp [h']
          · simp [h']
        have : e = d := huniq e hin d (by simp [h]) hid
        exact this ▸ he
      · have := a4 d h
        obtain ⟨e, he, hid⟩ := List.mem_map.mp (has_iff.mp this)
        have hin : e ∈ t.att ++ L1.flatten ++ L2.flatten := by
          rcases a5 e he with h' | h'
          · simp [h']
          · simp [h']
        have : e = d := huniq e hin d (by simp [h]) hid
        exact this ▸ he
  have mem2 : ∀ d, d ∈ (addSeq t L2).att ↔ d ∈ t.att ∨ d ∈ L2.flatten := by
    intro d; constructor
    · exact b5 d
    · rintro (h | h)
      · have := b3 d.id (has_iff.mpr (List.mem_map.mpr ⟨d, h, rfl⟩))
        obtain ⟨e, he, hid⟩ := List.mem_map.mp (has_iff.mp this)
        have hin : e ∈ t.att ++ L1.flatten ++ L2.flatten := by
          rcases b5 e he with h' | h'
          · simp [h']
          · simp [h']
        have : e = d := huniq e hin d (by simp [h]) hid
        exact this ▸ he
      · have := b4 d h
        obtain ⟨e, he, hid⟩ := List.mem_map.mp (has_iff.mp this)
        have hin : e ∈ t.att ++ L1.flatten ++ L2.flatten := by
          rcases b5 e he with h' | h'
          · simp [h']
          · simp [h']
        have : e = d := huniq e hin d (by simp [h]) hid
        exact this ▸ he
  have hperm : (addSeq t L1).att.Perm (addSeq t L2).att := by
    rw [List.perm_ext_iff_of_nodup (nodup_of_map_id (a6 hnd)) (nodup_of_map_id (b6 hnd))]
    intro d; rw [mem1, mem2, hsame]
  exact ⟨hperm, iter_perm hperm r⟩


end AnySync.Tree
