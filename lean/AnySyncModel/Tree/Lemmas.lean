import AnySyncModel.Tree.Model
/-! Helper lemmas for the tree area (C06, C09): sorted children, determinism of the iteration. -/
namespace AnySync.Tree

theorem mem_ins {a x : Nat} {l : List Nat} : x ∈ ins a l ↔ x = a ∨ x ∈ l := by
  induction l with
  | nil => simp [ins]
  | cons b l ih =>
    unfold ins
    split
    · simp
    · split
      · rename_i h1 h2; subst h2; simp
      · simp [ih]; constructor
        · rintro (h | h | h) <;> simp [h]
        · rintro (h | h | h) <;> simp [h]

theorem ins_sorted {a : Nat} {l : List Nat} (h : l.Pairwise (· < ·)) : (ins a l).Pairwise (· < ·) := by
  induction l with
  | nil => simp [ins]
  | cons b l ih =>
    unfold ins
    have hb := List.pairwise_cons.mp h
    split
    · rename_i hab
      refine List.pairwise_cons.mpr ⟨?_, h⟩
      intro x hx
      rcases List.mem_cons.mp hx with rfl | hx
      · exact hab
      · exact Nat.lt_trans hab (hb.1 x hx)
    · split
      · exact h
      · rename_i h1 h2
        refine List.pairwise_cons.mpr ⟨?_, ih hb.2⟩
        intro x hx
        rcases mem_ins.mp hx with rfl | hx
        · show b < x; omega
        · exact hb.1 x hx

theorem sortIds_sorted (l : List Nat) : (sortIds l).Pairwise (· < ·) := by
  induction l with
  | nil => simp [sortIds]
  | cons a l ih => exact ins_sorted ih

theorem mem_sortIds {x : Nat} {l : List Nat} : x ∈ sortIds l ↔ x ∈ l := by
  induction l with
  | nil => simp [sortIds]
  | cons a l ih =>
    show x ∈ ins a (sortIds l) ↔ _
    rw [mem_ins, ih]; simp

theorem sorted_ext : ∀ {l₁ l₂ : List Nat}, l₁.Pairwise (· < ·) → l₂.Pairwise (· < ·) →
    (∀ x, x ∈ l₁ ↔ x ∈ l₂) → l₁ = l₂
  | [], [], _, _, _ => rfl
  | [], b :: l₂, _, _, h => by have := (h b).mpr (by simp); simp at this
  | a :: l₁, [], _, _, h => by have := (h a).mp (by simp); simp at this
  | a :: l₁, b :: l₂, h₁, h₂, h => by
    have p₁ := List.pairwise_cons.mp h₁
    have p₂ := List.pairwise_cons.mp h₂
    have hab : a = b := by
      have ha := (h a).mp (by simp)
      have hb := (h b).mpr (by simp)
      rcases List.mem_cons.mp ha with e | ha'
      · exact e
      · rcases List.mem_cons.mp hb with e | hb'
        · exact e.symm
        · have h3 : b < a := p₂.1 a ha'; have h4 : a < b := p₁.1 b hb'; omega
    subst hab
    congr 1
    apply sorted_ext p₁.2 p₂.2
    intro x
    constructor
    · intro hx
      have := (h x).mp (List.mem_cons_of_mem _ hx)
      rcases List.mem_cons.mp this with e | hx'
      · subst e; have h3 : x < x := p₁.1 x hx; omega
      · exact hx'
    · intro hx
      have := (h x).mpr (List.mem_cons_of_mem _ hx)
      rcases List.mem_cons.mp this with e | hx'
      · subst e; have h3 : x < x := p₂.1 x hx; omega
      · exact hx'

theorem sortIds_congr {l₁ l₂ : List Nat} (h : ∀ x, x ∈ l₁ ↔ x ∈ l₂) : sortIds l₁ = sortIds l₂ :=
  sorted_ext (sortIds_sorted _) (sortIds_sorted _) (by intro x; rw [mem_sortIds, mem_sortIds]; exact h x)

theorem mem_children {att : List Change} {x c : Nat} :
    c ∈ children att x ↔ ∃ ch ∈ att, ch.id = c ∧ x ∈ ch.prevs := by
  unfold children
  rw [mem_sortIds]
  simp [List.mem_map, List.mem_filter]
  constructor
  · rintro ⟨ch, ⟨h1, h2⟩, h3⟩; exact ⟨ch, h1, h3, h2⟩
  · rintro ⟨ch, h1, h3, h2⟩; exact ⟨ch, ⟨h1, h2⟩, h3⟩

theorem children_congr {a₁ a₂ : List Change} (h : ∀ c, c ∈ a₁ ↔ c ∈ a₂) (x : Nat) :
    children a₁ x = children a₂ x := by
  apply sorted_ext (sortIds_sorted _) (sortIds_sorted _)
  intro c
  show c ∈ children a₁ x ↔ c ∈ children a₂ x
  rw [mem_children, mem_children]
  constructor
  · rintro ⟨ch, h1, h2⟩; exact ⟨ch, (h ch).mp h1, h2⟩
  · rintro ⟨ch, h1, h2⟩; exact ⟨ch, (h ch).mpr h1, h2⟩

theorem iter_perm {a₁ a₂ : List Change} (h : a₁.Perm a₂) (r : Nat) : iter r a₁ = iter r a₂ := by
  unfold iter
  have : children a₁ = children a₂ := funext (children_congr (fun c => h.mem_iff))
  rw [this, h.length_eq]

/-! ### the depth-first traversal -/

/-- descendant-or-equal along the child function -/
inductive Desc (ch : Nat → List Nat) : Nat → Nat → Prop
  | refl (x) : Desc ch x x
  | step {x c y} : c ∈ ch x → Desc ch c y → Desc ch x y

theorem Desc.rk_le {ch : Nat → List Nat} {rk : Nat → Nat} (hrk : ∀ x, ∀ c ∈ ch x, rk c < rk x)
    {x y : Nat} (h : Desc ch x y) : rk y ≤ rk x := by
  induction h with
  | refl => exact Nat.le_refl _
  | step hc _ ih => have := hrk _ _ hc; omega

/-- the accumulated sequence has no duplicates and lists every node before all of its children -/
def Good (ch : Nat → List Nat) (acc : List Nat) : Prop :=
  acc.Nodup ∧ ∀ l1 x l2, acc = l1 ++ x :: l2 → ∀ c ∈ ch x, c ∈ l2

theorem good_nil (ch : Nat → List Nat) : Good ch [] := by
  refine ⟨List.nodup_nil, ?_⟩
  intro l1 x l2 h; simp at h

theorem Good.closed {ch : Nat → List Nat} {acc : List Nat} (h : Good ch acc) :
    ∀ x ∈ acc, ∀ c ∈ ch x, c ∈ acc := by
  intro x hx c hc
  obtain ⟨l1, l2, rfl⟩ := List.append_of_mem hx
  have := h.2 l1 x l2 rfl c hc
  simp [this]

/-- what one `visit` (or a run of visits) does to the accumulator -/
structure Ext (ch : Nat → List Nat) (roots : List Nat) (acc r : List Nat) : Prop where
  good : Good ch r
  pre : ∃ pre, r = pre ++ acc ∧ ∀ y ∈ pre, ∃ x ∈ roots, Desc ch x y
  mem : ∀ x ∈ roots, x ∈ r

theorem visitAll_ext (ch : Nat → List Nat) (f : Nat) (rk : Nat → Nat)
    (P : ∀ x acc, rk x < f → Good ch acc → Ext ch [x] acc (visit ch f x acc)) :
    ∀ (cs : List Nat) (acc : List Nat), (∀ c ∈ cs, rk c < f) → Good ch acc →
      Ext ch cs acc (cs.foldl (fun a c => visit ch f c a) acc) := by
  intro cs
  induction cs with
  | nil =>
    intro acc _ hg
    exact ⟨hg, ⟨[], by simp⟩, by simp⟩
  | cons c cs ih =>
    intro acc hrk hg
    have h1 := P c acc (hrk c (by simp)) hg
    have h2 := ih (visit ch f c acc) (fun d hd => hrk d (List.mem_cons_of_mem _ hd)) h1.good
    simp only [List.foldl_cons]
    obtain ⟨p1, hp1, hd1⟩ := h1.pre
    obtain ⟨p2, hp2, hd2⟩ := h2.pre
    refine ⟨h2.good, ⟨p2 ++ p1, by rw [hp2, hp1]; simp, ?_⟩, ?_⟩
    · intro y hy
      rcases List.mem_append.mp hy with hy | hy
      · obtain ⟨x, hx, hd⟩ := hd2 y hy
        exact ⟨x, List.mem_cons_of_mem _ hx, hd⟩
      · obtain ⟨x, hx, hd⟩ := hd1 y hy
        have : x = c := by simpa using hx
        subst this
        exact ⟨x, by simp, hd⟩
    · intro x hx
      rcases List.mem_cons.mp hx with rfl | hx
      · have := h1.mem x (by simp)
        rw [hp2]; exact List.mem_append.mpr (Or.inr this)
      · exact h2.mem x hx

theorem visit_ext (ch : Nat → List Nat) (rk : Nat → Nat) (hrk : ∀ x, ∀ c ∈ ch x, rk c < rk x) :
    ∀ (f : Nat) (x : Nat) (acc : List Nat), rk x < f → Good ch acc → Ext ch [x] acc (visit ch f x acc) := by
  intro f
  induction f with
  | zero => intro x acc h; omega
  | succ f ih =>
    intro x acc hx hg
    unfold visit
    split
    · rename_i hc
      have hc' : x ∈ acc := by simpa using hc
      exact ⟨hg, ⟨[], by simp⟩, by simpa using hc'⟩
    · rename_i hc
      have hxa : x ∉ acc := by simpa using hc
      have hfold := visitAll_ext ch f rk (fun y a hy hga => ih y a hy hga) (ch x).reverse acc
        (by intro c hcm; have := hrk x c (List.mem_reverse.mp hcm); omega) hg
      obtain ⟨p, hp, hd⟩ := hfold.pre
      have hxp : x ∉ p := by
        intro hxp
        obtain ⟨c, hcm, hdc⟩ := hd x hxp
        have h1 := hrk x c (List.mem_reverse.mp hcm)
        have h2 := hdc.rk_le hrk
        omega
      refine ⟨⟨?_, ?_⟩, ⟨x :: p, by rw [hp]; simp, ?_⟩, by simp⟩
      · refine List.nodup_cons.mpr ⟨?_, hfold.good.1⟩
        rw [hp]; intro h
        rcases List.mem_append.mp h with h | h
        · exact hxp h
        · exact hxa h
      · intro l1 y l2 hdec c hcm
        cases l1 with
        | nil =>
          simp only [List.nil_append, List.cons.injEq] at hdec
          obtain ⟨rfl, rfl⟩ := hdec
          exact hfold.mem c (List.mem_reverse.mpr hcm)
        | cons z l1 =>
          simp only [List.cons_append, List.cons.injEq] at hdec
          exact hfold.good.2 l1 y l2 hdec.2 c hcm
      · intro y hy
        rcases List.mem_cons.mp hy with rfl | hy
        · exact ⟨y, by simp, Desc.refl y⟩
        · obtain ⟨c, hcm, hdc⟩ := hd y hy
          exact ⟨x, by simp, Desc.step (List.mem_reverse.mp hcm) hdc⟩


/-! ### well-formed attachment lists are acyclic -/

/-- an attachment list: ids are unique, and no change names a later-attached change (or itself) as a
previous id - `Tree.attach` only runs when all previous ids are already attached -/
inductive WFAtt : List Change → Prop
  | nil : WFAtt []
  | snoc {att : List Change} {c : Change} : WFAtt att → c.id ∉ att.map (·.id) → c.id ∉ c.prevs →
      (∀ d ∈ att, c.id ∉ d.prevs) → WFAtt (att ++ [c])

theorem mem_children_snoc {att : List Change} {c : Change} {x y : Nat} :
    y ∈ children (att ++ [c]) x ↔ y ∈ children att x ∨ (y = c.id ∧ x ∈ c.prevs) := by
  rw [mem_children, mem_children]
  constructor
  · rintro ⟨ch, hch, h1, h2⟩
    rcases List.mem_append.mp hch with h | h
    · exact Or.inl ⟨ch, h, h1, h2⟩
    · have : ch = c := by simpa using h
      subst this; exact Or.inr ⟨h1.symm, h2⟩
  · rintro (⟨ch, hch, h1, h2⟩ | ⟨h1, h2⟩)
    · exact ⟨ch, List.mem_append.mpr (Or.inl hch), h1, h2⟩
    · exact ⟨c, by simp, h1.symm, h2⟩

theorem children_mem_ids {att : List Change} {x y : Nat} (h : y ∈ children att x) : y ∈ att.map (·.id) := by
  obtain ⟨ch, hch, h1, _⟩ := mem_children.mp h
  exact List.mem_map.mpr ⟨ch, hch, h1⟩

/-- a well-formed attachment list is acyclic: there is a rank that strictly decreases along `Next` -/
theorem wf_rank {att : List Change} (h : WFAtt att) :
    ∃ rk : Nat → Nat, (∀ x, ∀ c ∈ children att x, rk c < rk x) ∧ (∀ x, rk x ≤ att.length) ∧
      (∀ x, x ∉ att.map (·.id) → rk x = att.length) := by
  induction h with
  | nil => exact ⟨fun _ => 0, by intro x c hc; simp [children, sortIds] at hc, by simp, by simp⟩
  | @snoc att c _ hid hself hlater ih =>
    obtain ⟨rk, h1, h2, h3⟩ := ih
    refine ⟨fun y => if y = c.id then 0 else rk y + 1, ?_, ?_, ?_⟩
    · intro x y hy
      rcases mem_children_snoc.mp hy with hy | ⟨rfl, hx⟩
      · have hyid := children_mem_ids hy
        have hyc : y ≠ c.id := fun e => hid (e ▸ hyid)
        have hxc : x ≠ c.id := by
          intro e
          obtain ⟨d, hd, _, hp⟩ := mem_children.mp hy
          exact hlater d hd (e ▸ hp)
        simp [hyc, hxc]; exact h1 x y hy
      · have hxc : x ≠ c.id := fun e => hself (e ▸ hx)
        simp [hxc]
    · intro x
      by_cases hx : x = c.id
      · simp [hx]
      · simp [hx]; exact h2 x
    · intro x hx
      have hxc : x ≠ c.id := by intro e; apply hx; simp [e]
      have : x ∉ att.map (·.id) := by intro h; apply hx; simp at h ⊢; exact Or.inl h
      simp [hxc, h3 x this]


end AnySync.Tree
