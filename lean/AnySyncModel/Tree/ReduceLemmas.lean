import AnySyncModel.Tree.Model
import AnySyncModel.Tree.Lemmas
/-! Reduced views: a tree reduced to a later snapshot presents the full order restricted to the view
(honest histories). -/
namespace AnySync.Tree

theorem Desc.trans' {ch : Nat → List Nat} {a b c : Nat} (h1 : Desc ch a b) (h2 : Desc ch b c) : Desc ch a c := by
  induction h1 with
  | refl => exact h2
  | step hc _ ih => exact Desc.step hc (ih h2)

theorem visit_succ (ch : Nat → List Nat) (f x : Nat) (acc : List Nat) :
    visit ch (f + 1) x acc =
      if acc.contains x then acc else x :: (ch x).reverse.foldl (fun a c => visit ch f c a) acc := rfl

/-- frame: what `acc` holds does not matter as long as it holds no descendant of `x` -/
theorem visit_frame (ch : Nat → List Nat) (acc : List Nat) :
    ∀ (f : Nat) (x : Nat) (A : List Nat), (∀ y, Desc ch x y → y ∉ acc) →
      visit ch f x (A ++ acc) = visit ch f x A ++ acc := by
  intro f
  induction f with
  | zero => intro x A _; simp [visit]
  | succ f ih =>
    intro x A hx
    have hxa : x ∉ acc := hx x (Desc.refl x)
    have hfold : ∀ (cs : List Nat) (A : List Nat), (∀ c ∈ cs, ∀ y, Desc ch c y → y ∉ acc) →
        cs.foldl (fun a c => visit ch f c a) (A ++ acc) = cs.foldl (fun a c => visit ch f c a) A ++ acc := by
      intro cs
      induction cs with
      | nil => intro A _; rfl
      | cons c cs ihc =>
        intro A hcs
        simp only [List.foldl_cons]
        rw [ih c A (hcs c (by simp))]
        exact ihc _ (fun d hd => hcs d (List.mem_cons_of_mem _ hd))
    unfold visit
    have hc : (A ++ acc).contains x = A.contains x := by
      cases h : A.contains x
      · apply contains_false_iff.mpr
        intro hm
        rcases List.mem_append.mp hm with h' | h'
        · exact contains_false_iff.mp h h'
        · exact hxa h'
      · exact List.contains_iff_mem.mpr (List.mem_append.mpr (Or.inl (List.contains_iff_mem.mp h)))
    rw [hc]
    split
    · rfl
    · rw [hfold]
      · rfl
      · intro c hcm y hy
        exact hx y (Desc.step (List.mem_reverse.mp hcm) hy)

/-- congruence: two child functions that agree on everything reachable from `x` give the same traversal -/
theorem visit_congr_reach (ch ch' : Nat → List Nat) :
    ∀ (f : Nat) (x : Nat) (acc : List Nat), (∀ y, Desc ch x y → ch' y = ch y) →
      visit ch' f x acc = visit ch f x acc := by
  intro f
  induction f with
  | zero => intro x acc _; rfl
  | succ f ih =>
    intro x acc h
    unfold visit
    split
    · rfl
    · congr 1
      rw [h x (Desc.refl x)]
      apply foldl_visit_congr
      intro c hc a
      exact ih c a (fun y hy => h y (Desc.step (List.mem_reverse.mp hc) hy))


/-- the sub-DAG below `s` is entered only through `s`: traversing from anywhere, the nodes below `s` come out
as one block, in the order a traversal from `s` gives them -/
theorem visit_block (ch : Nat → List Nat) (rk : Nat → Nat) (hrk : ∀ x, ∀ c ∈ ch x, rk c < rk x)
    (s : Nat) (below : Nat → Bool) (hbelow : ∀ y, below y = true ↔ Desc ch s y)
    (P : ∀ x c, c ∈ ch x → below c = true → c ≠ s → below x = true) :
    ∀ (f : Nat) (x : Nat) (acc : List Nat), rk x < f → (below x = false ∨ x = s) →
      let B := visit ch (rk s + 1) s []
      let S1 := fun (a : List Nat) => a.filter below = B ∧ ∀ y, below y = true → y ∈ a
      (S1 acc → S1 (visit ch f x acc)) ∧
      (acc.filter below = [] → (visit ch f x acc).filter below = [] ∨ S1 (visit ch f x acc)) := by
  -- facts about the block
  have hB := visit_ext ch rk hrk (rk s + 1) s [] (Nat.lt_succ_self _) (good_nil _)
  have hBall : ∀ y ∈ visit ch (rk s + 1) s [], below y = true := by
    intro y hy
    obtain ⟨pre, hp, hd⟩ := hB.pre
    have : y ∈ pre := by rw [hp] at hy; simpa using hy
    obtain ⟨x, hx1, hx2⟩ := hd y this
    have : x = s := by simpa using hx1
    exact (hbelow y).mpr (this ▸ hx2)
  have hBin : ∀ y, below y = true → y ∈ visit ch (rk s + 1) s [] := by
    intro y hy
    have hd := (hbelow y).mp hy
    have : ∀ a b, Desc ch a b → a ∈ visit ch (rk s + 1) s [] → b ∈ visit ch (rk s + 1) s [] := by
      intro a b hab
      induction hab with
      | refl => exact id
      | step hc _ ih => exact fun ha => ih (hB.good.closed _ ha _ hc)
    exact this s y hd (hB.mem s (by simp))
  intro f
  induction f with
  | zero => intro x acc h; omega
  | succ f ih =>
    intro x acc hx hcase
    simp only
    rcases hcase with hnb | hxs
    · -- `x` is not below `s`
      have hfold : ∀ (cs : List Nat) (a : List Nat), (∀ c ∈ cs, rk c < f ∧ (below c = false ∨ c = s)) →
          ((a.filter below = visit ch (rk s + 1) s [] ∧ ∀ y, below y = true → y ∈ a) →
            ((cs.foldl (fun a c => visit ch f c a) a).filter below = visit ch (rk s + 1) s [] ∧
              ∀ y, below y = true → y ∈ cs.foldl (fun a c => visit ch f c a) a)) ∧
          (a.filter below = [] →
            ((cs.foldl (fun a c => visit ch f c a) a).filter below = [] ∨
              ((cs.foldl (fun a c => visit ch f c a) a).filter below = visit ch (rk s + 1) s [] ∧
                ∀ y, below y = true → y ∈ cs.foldl (fun a c => visit ch f c a) a))) := by
        intro cs
        induction cs with
        | nil => intro a _; exact ⟨fun h => h, fun h => Or.inl h⟩
        | cons c cs ihc =>
          intro a hcs
          simp only [List.foldl_cons]
          have h1 := ih c a (hcs c (by simp)).1 (hcs c (by simp)).2
          simp only at h1
          have h2 := ihc (visit ch f c a) (fun d hd => hcs d (List.mem_cons_of_mem _ hd))
          refine ⟨fun h => h2.1 (h1.1 h), ?_⟩
          intro h0
          rcases h1.2 h0 with h' | h'
          · exact h2.2 h'
          · exact Or.inr (h2.1 h')
      have hch : ∀ c ∈ (ch x).reverse, rk c < f ∧ (below c = false ∨ c = s) := by
        intro c hc
        have hc' := List.mem_reverse.mp hc
        refine ⟨by have := hrk x c hc'; omega, ?_⟩
        cases hb : below c
        · exact Or.inl rfl
        · right
          apply Classical.byContradiction
          intro hne
          have := P x c hc' hb hne
          rw [this] at hnb; exact Bool.noConfusion hnb
      rw [visit_succ ch f x acc]
      by_cases hcx : acc.contains x = true
      · rw [if_pos hcx]; exact ⟨fun h => h, fun h => Or.inl h⟩
      · rw [if_neg hcx]
        have hf := hfold (ch x).reverse acc hch
        rw [List.filter_cons]
        simp only [hnb, Bool.false_eq_true, if_false]
        refine ⟨?_, ?_⟩
        · intro h
          obtain ⟨e1, e2⟩ := hf.1 h
          exact ⟨e1, fun y hy => List.mem_cons_of_mem _ (e2 y hy)⟩
        · intro h0
          rcases hf.2 h0 with h' | ⟨e1, e2⟩
          · exact Or.inl h'
          · exact Or.inr ⟨e1, fun y hy => List.mem_cons_of_mem _ (e2 y hy)⟩
    · -- `x = s`
      subst hxs
      have hbs : below x = true := (hbelow x).mpr (Desc.refl x)
      refine ⟨?_, ?_⟩
      · intro h
        have hxin : x ∈ acc := h.2 x hbs
        have : visit ch (f + 1) x acc = acc := by
          rw [visit_succ ch f x acc, if_pos (List.contains_iff_mem.mpr hxin)]
        rw [this]; exact h
      · intro h0
        right
        have hno : ∀ y, Desc ch x y → y ∉ acc := by
          intro y hy hyin
          have : y ∈ acc.filter below := List.mem_filter.mpr ⟨hyin, (hbelow y).mpr hy⟩
          rw [h0] at this; simp at this
        have hfr := visit_frame ch acc (f + 1) x [] hno
        simp only [List.nil_append] at hfr
        have hfuel : visit ch (f + 1) x [] = visit ch (rk x + 1) x [] :=
          visit_fuel ch rk hrk (f + 1) (rk x + 1) x [] hx (Nat.lt_succ_self _)
        rw [hfr, hfuel, List.filter_append, h0, List.append_nil]
        refine ⟨?_, fun y hy => List.mem_append.mpr (Or.inl (hBin y hy))⟩
        rw [List.filter_eq_self]; exact hBall


theorem Desc.rk_lt {ch : Nat → List Nat} {rk : Nat → Nat} (hrk : ∀ x, ∀ c ∈ ch x, rk c < rk x)
    {x y : Nat} (h : Desc ch x y) : x = y ∨ rk y < rk x := by
  cases h with
  | refl => exact Or.inl rfl
  | step hc hrest =>
    right
    have h1 := hrk _ _ hc
    have h2 := hrest.rk_le hrk
    omega

theorem wf_filter (p : Change → Bool) {att : List Change} (h : WFAtt att) : WFAtt (att.filter p) := by
  induction h with
  | nil => exact WFAtt.nil
  | @snoc att c _ hid hself hlater ih =>
    rw [List.filter_append]
    cases hp : p c
    · simp [hp]; exact ih
    · have : [c].filter p = [c] := by simp [hp]
      rw [this]
      refine WFAtt.snoc ih ?_ hself ?_
      · intro hm
        obtain ⟨d, hd, hdid⟩ := List.mem_map.mp hm
        exact hid (List.mem_map.mpr ⟨d, (List.mem_filter.mp hd).1, hdid⟩)
      · intro d hd; exact hlater d (List.mem_filter.mp hd).1

/-- **reduced view**: if every previous id of a change strictly below `s` is itself below `s` (the part of the
tree below `s` is entered only through `s`), the sequence presented by the tree reduced to `s` is the full
sequence restricted to that part -/
theorem reduced_view_struct (root s : Nat) (att : List Change) (hwf : WFAtt att)
    (hs : Desc (children att) root s) (below : Nat → Bool)
    (hbelow : ∀ y, below y = true ↔ Desc (children att) s y)
    (P : ∀ c ∈ att, below c.id = true → c.id ≠ s → ∀ p ∈ c.prevs, below p = true) :
    iter s (att.filter (fun c => below c.id)) = (iter root att).filter below := by
  obtain ⟨rk, hrk, hbound, _⟩ := wf_rank hwf
  have P' : ∀ x c, c ∈ children att x → below c = true → c ≠ s → below x = true := by
    intro x c hc hb hne
    obtain ⟨ch, hch, hid, hp⟩ := mem_children.mp hc
    subst hid
    exact P ch hch hb hne x hp
  have hroot_case : below root = false ∨ root = s := by
    cases hb : below root
    · exact Or.inl rfl
    · right
      have h1 := (hbelow root).mp hb
      rcases hs.rk_lt hrk with e | e
      · exact e
      · rcases h1.rk_lt hrk with e' | e'
        · exact e'.symm
        · omega
  have hblock := visit_block (children att) rk hrk s below hbelow P' (att.length + 1) root []
    (by have := hbound root; omega) hroot_case
  simp only at hblock
  -- `s` is presented, so the block is there
  have hext := visit_ext (children att) rk hrk (att.length + 1) root [] (by have := hbound root; omega) (good_nil _)
  have hsin : s ∈ visit (children att) (att.length + 1) root [] := by
    have : ∀ a b, Desc (children att) a b → a ∈ visit (children att) (att.length + 1) root [] →
        b ∈ visit (children att) (att.length + 1) root [] := by
      intro a b hab
      induction hab with
      | refl => exact id
      | step hc _ ih => exact fun ha => ih (hext.good.closed _ ha _ hc)
    exact this root s hs (hext.mem root (by simp))
  have hfull : (iter root att).filter below = visit (children att) (rk s + 1) s [] := by
    rcases hblock.2 (by simp) with h0 | h1
    · exfalso
      have : s ∈ (visit (children att) (att.length + 1) root []).filter below :=
        List.mem_filter.mpr ⟨hsin, (hbelow s).mpr (Desc.refl s)⟩
      rw [h0] at this; simp at this
    · exact h1.1
  rw [hfull]
  -- the reduced tree
  have hwf' := wf_filter (fun c => below c.id) hwf
  obtain ⟨rk', hrk', hbound', _⟩ := wf_rank hwf'
  have hchild : ∀ y, Desc (children att) s y →
      children (att.filter (fun c => below c.id)) y = children att y := by
    intro y hy
    unfold children
    apply sortIds_congr
    intro c
    simp only [List.mem_map, List.mem_filter]
    constructor
    · rintro ⟨d, ⟨⟨hd, _⟩, hp⟩, hid⟩; exact ⟨d, ⟨hd, hp⟩, hid⟩
    · rintro ⟨d, ⟨hd, hp⟩, hid⟩
      refine ⟨d, ⟨⟨hd, ?_⟩, hp⟩, hid⟩
      apply (hbelow d.id).mpr
      have hp' : y ∈ d.prevs := by simpa using hp
      exact hy.trans' (Desc.step (mem_children.mpr ⟨d, hd, rfl, hp'⟩) (Desc.refl _))
  let F := (att.filter (fun c => below c.id)).length + 1 + (rk s + 1)
  unfold iter rpo
  rw [visit_fuel _ rk' hrk' ((att.filter (fun c => below c.id)).length + 1) F s []
    (by have := hbound' s; omega) (by have := hbound' s; omega)]
  rw [visit_congr_reach (children att) _ F s [] hchild]
  exact visit_fuel _ rk hrk F (rk s + 1) s [] (by omega) (Nat.lt_succ_self _)


/-! ### the honest-history proviso -/

/-- `s` is on the snapshot chain of `x`: `x`, its snapshot base, the base of its base, … (never stepping down
from the tree root) -/
inductive OnChainA (att : List Change) (root s : Nat) : Nat → Prop
  | here : OnChainA att root s s
  | next {c : Change} : c ∈ att → c.id ≠ root → OnChainA att root s c.snap → OnChainA att root s c.id

/-- what honest participation guarantees about a tree with in-memory root `root` that may be reduced to `s`
(DESIGN §3, Inv-S; cf. `Sync.SnapInv` / `Sync.RootOk` for the abstract protocol):
* the snapshot base of a change is an ancestor-or-equal of it;
* every ancestor-or-equal of a change is comparable with its base;
* the previous ids of a change form an antichain (a local add names the current heads);
* `s` lies on the snapshot chain of every head (this is what `reduceTree` computes). -/
structure Honest (att : List Change) (root s : Nat) : Prop where
  base : ∀ c ∈ att, c.id ≠ root → Desc (children att) c.snap c.id
  comp : ∀ c ∈ att, c.id ≠ root → ∀ a, Desc (children att) a c.id →
    Desc (children att) a c.snap ∨ Desc (children att) c.snap a
  anti : ∀ c ∈ att, ∀ p ∈ c.prevs, ∀ q ∈ c.prevs, Desc (children att) p q → p = q
  rootOk : ∀ h, Desc (children att) root h → children att h = [] → OnChainA att root s h

theorem onChain_desc {att : List Change} {root : Nat} (hbase : ∀ c ∈ att, c.id ≠ root → Desc (children att) c.snap c.id)
    {x s : Nat} (h : OnChainA att root s x) : Desc (children att) s x := by
  induction h with
  | here => exact Desc.refl _
  | next hc hne _ ih => exact ih.trans' (hbase _ hc hne)

theorem desc_antisymm {ch : Nat → List Nat} {rk : Nat → Nat} (hrk : ∀ x, ∀ c ∈ ch x, rk c < rk x)
    {a b : Nat} (h1 : Desc ch a b) (h2 : Desc ch b a) : a = b := by
  rcases h1.rk_lt hrk with e | e
  · exact e
  · rcases h2.rk_lt hrk with e' | e'
    · exact e'.symm
    · omega

theorem desc_last_step {ch : Nat → List Nat} {x c : Nat} (h : Desc ch x c) (hne : x ≠ c) :
    ∃ q, c ∈ ch q ∧ Desc ch x q := by
  induction h with
  | refl => exact absurd rfl hne
  | @step x c' c hc hrest ih =>
    by_cases e : c' = c
    · subst e; exact ⟨x, hc, Desc.refl x⟩
    · obtain ⟨q, hq1, hq2⟩ := ih e
      exact ⟨q, hq1, Desc.step hc hq2⟩

theorem exists_head_above {ch : Nat → List Nat} {rk : Nat → Nat} (hrk : ∀ x, ∀ c ∈ ch x, rk c < rk x) :
    ∀ (n : Nat) (c : Nat), rk c = n → ∃ h, Desc ch c h ∧ ch h = [] := by
  intro n
  induction n using Nat.strongRecOn with
  | _ n ih =>
    intro c hc
    cases hch : ch c with
    | nil => exact ⟨c, Desc.refl c, hch⟩
    | cons d ds =>
      have hd : d ∈ ch c := by rw [hch]; simp
      obtain ⟨h, h1, h2⟩ := ih (rk d) (by have := hrk c d hd; omega) d rfl
      exact ⟨h, Desc.step hd h1, h2⟩

/-- honest histories: the part of the tree below an admissible root `s` is entered only through `s` -/
theorem honest_entry (att : List Change) (root s : Nat) (hwf : WFAtt att) (hs : Desc (children att) root s)
    (hon : Honest att root s) :
    ∀ c ∈ att, Desc (children att) s c.id → c.id ≠ s → ∀ p ∈ c.prevs, Desc (children att) s p := by
  obtain ⟨rk, hrk, _, _⟩ := wf_rank hwf
  have hinj := nodup_ids_inj (hwf.split att [] (by simp)).2.1
  intro c hc hbelow hne p hp
  have hpc : Desc (children att) p c.id := Desc.step (mem_children.mpr ⟨c, hc, rfl, hp⟩) (Desc.refl _)
  obtain ⟨h, hh1, hh2⟩ := exists_head_above hrk (rk c.id) c.id rfl
  have hchain := hon.rootOk h ((hs.trans' hbelow).trans' hh1) hh2
  -- walk down the snapshot chain of the head until `c` is no longer below the chain element
  have key : ∀ x, OnChainA att root s x → Desc (children att) c.id x → Desc (children att) s p := by
    intro x hx
    induction hx with
    | here =>
      intro hcx
      exact absurd (desc_antisymm hrk hcx hbelow) hne
    | @next d hd hdne hrest ih =>
      intro hcd
      rcases hon.comp d hd hdne c.id hcd with h1 | h1
      · exact ih h1
      · -- the base of `d` is above `c`: compare `p` with it
        have hsb : Desc (children att) s d.snap := onChain_desc hon.base hrest
        rcases hon.comp d hd hdne p (hpc.trans' hcd) with h2 | h2
        · -- p ≤ base ≤ c: base sits below some parent q of c
          by_cases e : d.snap = c.id
          · -- then c is on the chain: p ≤ c = base, handled by the chain below
            exact ih (e ▸ Desc.refl _)
          · obtain ⟨q, hq1, hq2⟩ := desc_last_step h1 e
            obtain ⟨c', hc', hid, hqp⟩ := mem_children.mp hq1
            have : c' = c := hinj c' hc' c hc hid
            subst this
            have hpq : p = q := hon.anti c' hc' p hp q hqp (h2.trans' hq2)
            subst hpq
            have : p = d.snap := desc_antisymm hrk h2 hq2
            rw [this]; exact hsb
        · exact hsb.trans' h2
  exact key h hchain hh1

end AnySync.Tree

namespace AnySync.Tree

theorem desc_inv {ch : Nat → List Nat} {a b : Nat} (h : Desc ch a b) : a = b ∨ ∃ c ∈ ch a, Desc ch c b := by
  cases h with
  | refl => exact Or.inl rfl
  | step hc hr => exact Or.inr ⟨_, hc, hr⟩

/-- an ancestor other than the change itself is a previous id of some attached change -/
theorem desc_is_prev {att : List Change} {a b : Nat} (h : Desc (children att) a b) :
    a = b ∨ ∃ d ∈ att, a ∈ d.prevs := by
  rcases desc_inv h with e | ⟨c, hc, _⟩
  · exact Or.inl e
  · obtain ⟨d, hd, _, hp⟩ := mem_children.mp hc
    exact Or.inr ⟨d, hd, hp⟩

/-- a small honest tree used for non-vacuity examples: root `1`, snapshot `2` on top of it, change `3` made
after reducing to `2` -/
def honestChain : List Change := [⟨1, [], 0, true⟩, ⟨2, [1], 1, true⟩, ⟨3, [2], 2, false⟩]

end AnySync.Tree
