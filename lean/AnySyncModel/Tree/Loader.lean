/-
Model of the full-sync loader (`objecttree/loaditerator.go`, `util.go: commonSnapshotForTwoPaths`,
`ObjectTree.ChangesAfterCommonSnapshotLoader`, and the `NewResponse` loop of
`synctree.HandleStreamRequest`).

The loader works on the stored sequence from the common snapshot on (`GetAfterOrder(cs.OrderId)`, a `≥`
query): `cache`.  `load` marks as `removed` every cached ancestor-or-equal of a requester head that is in
the cache (stack DFS over `PreviousIds`).  `NextBatch(max)` walks the stored sequence from its cursor:
the cursor is moved to the current change *before* anything else, a removed change only updates the
running heads, a change that would make the batch reach `max` stops the batch if the batch is non-empty
(the next call resumes AT that change because the query is `≥`), otherwise the change is appended.
-/
import AnySyncModel.Tree.Model
namespace AnySync.Tree

structure SChange where
  id    : Nat
  prevs : List Nat
  size  : Nat
deriving Repr, DecidableEq, Inhabited

/-! ### `commonSnapshotForTwoPaths` -/

/-- first loop: scanning `ours` from the right, the first element that occurs in `theirs`;
returns the two prefixes *up to and including* the match (as reversed lists, match first). -/
def findStart : List Nat → List Nat → Option (List Nat × List Nat)
  | [], _ => none
  | a :: oursRev, theirsRev =>
    -- `theirsRev` is scanned from its head (= right end of the path)
    match theirsRev.dropWhile (· != a) with
    | [] => findStart oursRev theirsRev
    | t => some (a :: oursRev, t)

/-- second loop: walk left while equal; the answer is the last equal element seen -/
def walkEqual : Nat → List Nat → List Nat → Nat
  | last, a :: o, b :: t => if a = b then walkEqual a o t else last
  | last, _, _ => last

/-- `commonSnapshotForTwoPaths ourPath theirPath` (`none` = `ErrNoCommonSnapshot`) -/
def commonSnapshot (ours theirs : List Nat) : Option Nat :=
  match findStart ours.reverse theirs.reverse with
  | none => none
  | some (a :: o, _ :: t) => some (walkEqual a o t)
  | some _ => none

/-! ### `load`: removed marks -/

def findS (cache : List SChange) (id : Nat) : Option SChange := cache.find? (·.id == id)

/-- the stack DFS of `load` (`shouldVisit` = in cache and not yet removed) -/
def markRemoved (cache : List SChange) : Nat → List Nat → List Nat → List Nat
  | 0, _, rm => rm
  | _, [], rm => rm
  | f + 1, x :: stack, rm =>
    match findS cache x with
    | none => markRemoved cache f stack rm
    | some c =>
      if rm.contains x then markRemoved cache f stack rm
      else
        let push := c.prevs.filter (fun p => (findS cache p).isSome && !(x :: rm).contains p)
        -- Go appends the prevs one by one and pops from the end: the last prev is visited first
        markRemoved cache f (push.reverse ++ stack) (x :: rm)

def loadFuel (cache : List SChange) (heads : List Nat) : Nat :=
  heads.length + (cache.map (fun c => c.prevs.length + 1)).sum + 1

/-- ids marked removed for the requester heads `theirHeads` -/
def removedSet (cache : List SChange) (theirHeads : List Nat) : List Nat :=
  let existing := theirHeads.filter (fun h => (findS cache h).isSome)
  -- `idStack = append(idStack, heads...)`, popped from the end
  markRemoved cache (loadFuel cache theirHeads) existing.reverse []

/-! ### `NextBatch` -/

/-- running `batch.Heads` -/
def updHeads (heads : List Nat) (c : SChange) : List Nat :=
  let h := heads.filter (fun s => !c.prevs.contains s)
  if h.contains c.id then h else h ++ [c.id]

structure Batch where
  changes : List SChange
  heads   : List Nat
deriving Repr, DecidableEq

def Batch.ids (b : Batch) : List Nat := b.changes.map (·.id)
def Batch.size (b : Batch) : Nat := (b.changes.map (·.size)).sum

/-- one `NextBatch(max)` over the remaining stored sequence; returns the batch and what remains
(starting AT the change that did not fit; `[]` when the sequence is exhausted) -/
def scan (removed : Nat → Bool) (max : Nat) : List SChange → Nat → List SChange → List Nat → Batch × List SChange
  | [], _, b, h => (⟨b, h⟩, [])
  | c :: rest, cur, b, h =>
    if removed c.id then scan removed max rest cur b (updHeads h c)
    else if cur + c.size ≥ max ∧ !b.isEmpty then (⟨b, h⟩, c :: rest)
    else scan removed max rest (cur + c.size) (b ++ [c]) (updHeads h c)

def nextBatch (removed : Nat → Bool) (max : Nat) (rest : List SChange) : Batch × List SChange :=
  scan removed max rest 0 [] []

/-- the `for { NewResponse; if len(batch.Changes)==0 break; send }` loop -/
def batches (removed : Nat → Bool) (max : Nat) : Nat → List SChange → List Batch
  | 0, _ => []
  | f + 1, rest =>
    let r := nextBatch removed max rest
    if r.1.changes.isEmpty then [] else r.1 :: batches removed max f r.2

/-! ### a responder that keeps changing while it streams

`HandleStreamRequest` builds the loader under the tree lock and calls `NextBatch` after releasing it: between the calls
the responder may store further changes.  They are not in the iterator's cache; `NextBatch` passes over them (the
cursor moves, neither the batch nor the running heads are touched). -/

/-- `NextBatch` over the CURRENT stored sequence: entries that are not in the iterator's cache are passed over -/
def scanC (inCache removed : Nat → Bool) (max : Nat) :
    List SChange → Nat → List SChange → List Nat → Batch × List SChange
  | [], _, b, h => (⟨b, h⟩, [])
  | c :: rest, cur, b, h =>
    if !inCache c.id then scanC inCache removed max rest cur b h
    else if removed c.id then scanC inCache removed max rest cur b (updHeads h c)
    else if cur + c.size ≥ max ∧ !b.isEmpty then (⟨b, h⟩, c :: rest)
    else scanC inCache removed max rest (cur + c.size) (b ++ [c]) (updHeads h c)

/-- the streaming loop with an adversary `ins` that stores further (foreign) changes into the remaining sequence
before every call -/
def batchesI (inCache removed : Nat → Bool) (max : Nat) (ins : Nat → List SChange → List SChange) :
    Nat → Nat → List SChange → List Batch
  | 0, _, _ => []
  | f + 1, i, rest =>
    let r := scanC inCache removed max (ins i rest) 0 [] []
    if r.1.changes.isEmpty then [] else r.1 :: batchesI inCache removed max ins f (i + 1) r.2

/-- the whole answer to a request: `cache` = stored sequence from the common snapshot on -/
def respond (cache : List SChange) (theirHeads : List Nat) (max : Nat) : List Batch :=
  let rm := removedSet cache theirHeads
  batches (fun x => rm.contains x) max (cache.length + 1) cache

/-! ### receiver side glue: stored records ↔ changes -/

/-- the stored record of a change of the given size -/
def toS (p : Change × Nat) : SChange := ⟨p.1.id, p.1.prevs, p.2⟩

/-- the change a stored record stands for (what `Unmarshall` gives back), looked up by id -/
def toC (cs : List (Change × Nat)) (s : SChange) : Change :=
  ((cs.find? (fun p => p.1.id == s.id)).map (·.1)).getD ⟨s.id, s.prevs, 0, false⟩

end AnySync.Tree
