import AnySyncModel.Tree.Loader
/-! Helper lemmas for the loader (C09): batch arithmetic. -/
namespace AnySync.Tree

def sizeSum (l : List SChange) : Nat := (l.map (·.size)).sum

theorem sizeSum_append (a b : List SChange) : sizeSum (a ++ b) = sizeSum a + sizeSum b := by
  simp [sizeSum, List.map_append, List.sum_append]

theorem scan_bound (rm : Nat → Bool) (max : Nat) (l : List SChange) :
    ∀ (cur : Nat) (b : List SChange) (h : List Nat), sizeSum b = cur → (cur < max ∨ b.length ≤ 1) →
      (sizeSum (scan rm max l cur b h).1.changes < max ∨ (scan rm max l cur b h).1.changes.length ≤ 1) := by
  induction l with
  | nil => intro cur b h hs hb; simp [scan]; rw [hs]; exact hb
  | cons c rest ih =>
    intro cur b h hs hb
    unfold scan
    split
    · exact ih cur b _ hs hb
    · split
      · simp; rw [hs]; exact hb
      · rename_i hnr hbr
        apply ih
        · rw [sizeSum_append, hs]; simp [sizeSum]
        · by_cases hlt : cur + c.size < max
          · exact Or.inl hlt
          · right
            have : b.isEmpty = true := by
              cases hbe : b.isEmpty with
              | true => rfl
              | false =>
                exfalso; apply hbr
                refine ⟨by omega, by simp [hbe]⟩
            have : b = [] := by simpa using this
            subst this; simp
def keep (rm : Nat → Bool) (l : List SChange) : List SChange := l.filter (fun c => !rm c.id)

theorem scan_prefix (rm : Nat → Bool) (max : Nat) (l : List SChange) :
    ∀ (cur : Nat) (b : List SChange) (h : List Nat), ∃ t, (scan rm max l cur b h).1.changes = b ++ t := by
  induction l with
  | nil => intro cur b h; exact ⟨[], by simp [scan]⟩
  | cons c rest ih =>
    intro cur b h
    unfold scan
    split
    · exact ih _ _ _
    · split
      · exact ⟨[], by simp⟩
      · obtain ⟨t, ht⟩ := ih (cur + c.size) (b ++ [c]) (updHeads h c)
        exact ⟨c :: t, by rw [ht]; simp⟩

theorem scan_concat (rm : Nat → Bool) (max : Nat) (l : List SChange) :
    ∀ (cur : Nat) (b : List SChange) (h : List Nat),
      (scan rm max l cur b h).1.changes ++ keep rm (scan rm max l cur b h).2 = b ++ keep rm l := by
  induction l with
  | nil => intro cur b h; simp [scan, keep]
  | cons c rest ih =>
    intro cur b h
    unfold scan
    split
    · rename_i hr
      rw [ih]; simp [keep, hr]
    · split
      · simp
      · rename_i hr _
        rw [ih]; simp [keep, hr]

theorem scan_rest_le (rm : Nat → Bool) (max : Nat) (l : List SChange) :
    ∀ (cur : Nat) (b : List SChange) (h : List Nat), (scan rm max l cur b h).2.length ≤ l.length := by
  induction l with
  | nil => intro cur b h; simp [scan]
  | cons c rest ih =>
    intro cur b h
    unfold scan
    split
    · have := ih cur b (updHeads h c); simp; omega
    · split
      · simp
      · have := ih (cur + c.size) (b ++ [c]) (updHeads h c); simp; omega

theorem scan_progress (rm : Nat → Bool) (max : Nat) (c : SChange) (rest : List SChange) (h : List Nat) :
    (scan rm max (c :: rest) 0 [] h).2.length < (c :: rest).length := by
  unfold scan
  split
  · have := scan_rest_le rm max rest 0 [] (updHeads h c); simp; omega
  · split
    · rename_i hb; simp at hb
    · have := scan_rest_le rm max rest (0 + c.size) ([] ++ [c]) (updHeads h c); simp at this ⊢; omega

theorem scan_empty_rest (rm : Nat → Bool) (max : Nat) (l : List SChange) :
    ∀ (cur : Nat) (b : List SChange) (h : List Nat), (scan rm max l cur b h).1.changes = [] →
      (scan rm max l cur b h).2 = [] := by
  induction l with
  | nil => intro cur b h _; simp [scan]
  | cons c rest ih =>
    intro cur b h he
    have hb : b = [] := by
      obtain ⟨t, ht⟩ := scan_prefix rm max (c :: rest) cur b h
      rw [ht] at he; simp at he; exact he.1
    subst hb
    unfold scan at he ⊢
    split
    · rename_i hr; simp [hr] at he; exact ih _ _ _ he
    · rename_i hr
      split
      · rename_i hb; simp at hb
      · rename_i hb
        simp [hr] at he
        obtain ⟨t, ht⟩ := scan_prefix rm max rest (cur + c.size) ([] ++ [c]) (updHeads h c)
        simp at ht
        rw [ht] at he; simp at he

/-- all changes of all batches, in the order sent -/
def flat (bs : List Batch) : List SChange := bs.flatMap (·.changes)

theorem batches_flat (rm : Nat → Bool) (max : Nat) :
    ∀ (fuel : Nat) (l : List SChange), l.length < fuel → flat (batches rm max fuel l) = keep rm l := by
  intro fuel
  induction fuel with
  | zero => intro l h; omega
  | succ f ih =>
    intro l hl
    unfold batches
    simp only
    split
    · rename_i he
      have he' : (nextBatch rm max l).1.changes = [] := by simpa using he
      have h2 := scan_empty_rest rm max l 0 [] [] he'
      have h1 := scan_concat rm max l 0 [] []
      unfold nextBatch at he'
      rw [he', h2] at h1
      simp [keep] at h1
      simp [flat, keep]
      exact h1
    · rename_i hne
      have hlt : (nextBatch rm max l).2.length < f := by
        cases l with
        | nil => simp [nextBatch, scan] at hne
        | cons c rest =>
          have := scan_progress rm max c rest []
          unfold nextBatch; simp only [List.length_cons] at hl this ⊢; omega
      have h1 := scan_concat rm max l 0 [] []
      simp only [flat, List.flatMap_cons]
      have := ih _ hlt
      simp only [flat] at this
      rw [this]
      simpa [nextBatch] using h1


theorem batches_bound (rm : Nat → Bool) (max : Nat) :
    ∀ (fuel : Nat) (l : List SChange), ∀ b ∈ batches rm max fuel l,
      (sizeSum b.changes < max ∨ b.changes.length = 1) := by
  intro fuel
  induction fuel with
  | zero => intro l b hb; simp [batches] at hb
  | succ f ih =>
    intro l b hb
    unfold batches at hb
    simp only at hb
    split at hb
    · simp at hb
    · rename_i hne
      rcases List.mem_cons.mp hb with rfl | hb
      · have := scan_bound rm max l 0 [] [] rfl (Or.inr (by simp))
        rcases this with h | h
        · exact Or.inl h
        · right
          have hne' : (nextBatch rm max l).1.changes ≠ [] := by simpa using hne
          have : (nextBatch rm max l).1.changes.length ≠ 0 := by
            intro h0; exact hne' (List.length_eq_zero_iff.mp h0)
          unfold nextBatch at this ⊢; omega
      · exact ih _ b hb

/-- edges of the stored DAG: `d` names `p` as a previous id -/
def Edge (cache : List SChange) (x p : Nat) : Prop := ∃ d ∈ cache, d.id = x ∧ p ∈ d.prevs

/-- `x` is an ancestor-or-equal of `y` along stored edges -/
inductive Reach (cache : List SChange) : Nat → Nat → Prop
  | refl (x) : Reach cache x x
  | step {x p y} : Edge cache x p → Reach cache p y → Reach cache x y

theorem Reach.trans {cache : List SChange} {x y z : Nat} (h1 : Reach cache x y) (h2 : Reach cache y z) :
    Reach cache x z := by
  induction h1 with
  | refl => exact h2
  | step e _ ih => exact Reach.step e (ih h2)

theorem findS_some {cache : List SChange} {x : Nat} {c : SChange} (h : findS cache x = some c) :
    c ∈ cache ∧ c.id = x := by
  unfold findS at h
  have h1 := List.mem_of_find?_eq_some h
  have h2 := List.find?_some h
  exact ⟨h1, by simpa using h2⟩

theorem markRemoved_sound (cache : List SChange) (heads : List Nat) :
    ∀ (fuel : Nat) (stack rm : List Nat),
      (∀ x ∈ stack, ∃ h ∈ heads, Reach cache h x) → (∀ x ∈ rm, ∃ h ∈ heads, Reach cache h x) →
      ∀ x ∈ markRemoved cache fuel stack rm, ∃ h ∈ heads, Reach cache h x := by
  intro fuel
  induction fuel with
  | zero => intro stack rm _ hr x hx; simp [markRemoved] at hx; exact hr x hx
  | succ f ih =>
    intro stack rm hs hr x hx
    cases stack with
    | nil => simp [markRemoved] at hx; exact hr x hx
    | cons y stack =>
      unfold markRemoved at hx
      split at hx
      · exact ih stack rm (fun z hz => hs z (List.mem_cons_of_mem _ hz)) hr x hx
      · rename_i c hc
        have ⟨hcm, hcid⟩ := findS_some hc
        split at hx
        · exact ih stack rm (fun z hz => hs z (List.mem_cons_of_mem _ hz)) hr x hx
        · obtain ⟨h0, hh0, hr0⟩ := hs y (by simp)
          refine ih _ _ ?_ ?_ x hx
          · intro z hz
            rcases List.mem_append.mp hz with hz | hz
            · have hz' : z ∈ c.prevs := by
                have := List.mem_reverse.mp hz
                exact (List.mem_filter.mp this).1
              exact ⟨h0, hh0, hr0.trans (Reach.step ⟨c, hcm, hcid, hz'⟩ (Reach.refl z))⟩
            · exact hs z (List.mem_cons_of_mem _ hz)
          · intro z hz
            rcases List.mem_cons.mp hz with rfl | hz
            · exact ⟨h0, hh0, hr0⟩
            · exact hr z hz

theorem removedSet_sound (cache : List SChange) (theirHeads : List Nat) :
    ∀ x ∈ removedSet cache theirHeads, ∃ h ∈ theirHeads, Reach cache h x := by
  unfold removedSet
  apply markRemoved_sound
  · intro x hx
    have := List.mem_reverse.mp hx
    exact ⟨x, (List.mem_filter.mp this).1, Reach.refl x⟩
  · intro x hx; simp at hx


/-- the stored sequence is a linear extension: a cached parent of a cached change is stored earlier -/
def LinExt (cache : List SChange) : Prop :=
  ∀ l1 c l2, cache = l1 ++ c :: l2 → ∀ p ∈ c.prevs, p ∈ cache.map (·.id) → p ∈ l1.map (·.id)

theorem keep_causal (rm : Nat → Bool) (cache : List SChange) (hlin : LinExt cache)
    (s1 : List SChange) (c : SChange) (s2 : List SChange) (h : keep rm cache = s1 ++ c :: s2) :
    ∀ p ∈ c.prevs, p ∈ s1.map (·.id) ∨ rm p = true ∨ p ∉ cache.map (·.id) := by
  intro p hp
  unfold keep at h
  obtain ⟨l1, l2', hl, hf1, hf2⟩ := List.filter_eq_append_iff.mp h
  obtain ⟨m1, m2, hm, hno, hc, _⟩ := List.filter_eq_cons_iff.mp hf2
  by_cases hin : p ∈ cache.map (·.id)
  · have hdec : cache = (l1 ++ m1) ++ c :: m2 := by rw [hl, hm]; simp
    have := hlin _ _ _ hdec p hp hin
    rw [List.map_append, List.mem_append] at this
    by_cases hrm : rm p = true
    · exact Or.inr (Or.inl hrm)
    · left
      rcases this with h1 | h1
      · obtain ⟨d, hd, hdp⟩ := List.mem_map.mp h1
        rw [← hf1]
        exact List.mem_map.mpr ⟨d, List.mem_filter.mpr ⟨hd, by simp [hdp, hrm]⟩, hdp⟩
      · obtain ⟨d, hd, hdp⟩ := List.mem_map.mp h1
        have := hno d hd
        simp [hdp, hrm] at this
  · exact Or.inr (Or.inr hin)

/-! running heads -/

theorem mem_updHeads {h : List Nat} {c : SChange} {x : Nat} :
    x ∈ updHeads h c ↔ x = c.id ∨ (x ∈ h ∧ x ∉ c.prevs) := by
  unfold updHeads
  simp only
  split
  · rename_i hc
    have hc' : c.id ∈ h.filter (fun s => !c.prevs.contains s) := by simpa using hc
    constructor
    · intro hx; right; simpa using hx
    · rintro (rfl | hx)
      · exact hc'
      · simpa using hx
  · simp [List.mem_append, List.mem_filter]
    constructor
    · rintro (hx | hx)
      · exact Or.inr hx
      · exact Or.inl hx
    · rintro (hx | hx)
      · exact Or.inr hx
      · exact Or.inl hx

/-- what one `NextBatch` looked at: everything up to the point where it stopped -/
theorem scan_heads (rm : Nat → Bool) (max : Nat) (cache : List SChange) (l : List SChange) :
    ∀ (cur : Nat) (b : List SChange) (h : List Nat) (seen : List SChange),
      (∀ d ∈ l, d ∈ cache) →
      (∀ x ∈ h, x ∈ seen.map (·.id)) →
      (∀ d ∈ seen, ∃ y ∈ h, Reach cache y d.id) →
      ∃ seen' : List SChange, seen' ++ (scan rm max l cur b h).2 = seen ++ l ∧ (∀ d ∈ seen, d ∈ seen') ∧
        (∀ d ∈ (scan rm max l cur b h).1.changes, d ∈ b ∨ d ∈ seen') ∧
        (∀ x ∈ (scan rm max l cur b h).1.heads, x ∈ seen'.map (·.id)) ∧
        (∀ d ∈ seen', ∃ y ∈ (scan rm max l cur b h).1.heads, Reach cache y d.id) := by
  induction l with
  | nil =>
    intro cur b h seen _ h1 h2
    exact ⟨seen, by simp [scan], fun d hd => hd, by simp [scan]; exact fun d hd => Or.inl hd, by simpa [scan] using h1, by simpa [scan] using h2⟩
  | cons c rest ih =>
    intro cur b h seen hsub h1 h2
    have step1 : ∀ x ∈ updHeads h c, x ∈ (seen ++ [c]).map (·.id) := by
      intro x hx
      rcases mem_updHeads.mp hx with rfl | ⟨hx, _⟩
      · simp
      · have := h1 x hx; simp at this ⊢; exact Or.inl this
    have step2 : ∀ d ∈ seen ++ [c], ∃ y ∈ updHeads h c, Reach cache y d.id := by
      intro d hd
      rcases List.mem_append.mp hd with hd | hd
      · obtain ⟨y, hy, hr⟩ := h2 d hd
        by_cases hyp : y ∈ c.prevs
        · exact ⟨c.id, mem_updHeads.mpr (Or.inl rfl),
            Reach.step ⟨c, hsub c (by simp), rfl, hyp⟩ hr⟩
        · exact ⟨y, mem_updHeads.mpr (Or.inr ⟨hy, hyp⟩), hr⟩
      · have : d = c := by simpa using hd
        subst this
        exact ⟨d.id, mem_updHeads.mpr (Or.inl rfl), Reach.refl _⟩
    have hsub' : ∀ d ∈ rest, d ∈ cache := fun d hd => hsub d (List.mem_cons_of_mem _ hd)
    unfold scan
    split
    · obtain ⟨s', a1, a2, a3, a4, a5⟩ := ih cur b (updHeads h c) (seen ++ [c]) hsub' step1 step2
      refine ⟨s', ?_, ?_, a3, a4, a5⟩
      · rw [a1]; simp
      · intro d hd; exact a2 d (List.mem_append.mpr (Or.inl hd))
    · split
      · exact ⟨seen, by simp, fun d hd => hd, by simp; exact fun d hd => Or.inl hd, by simpa using h1, by simpa using h2⟩
      · obtain ⟨s', a1, a2, a3, a4, a5⟩ := ih (cur + c.size) (b ++ [c]) (updHeads h c) (seen ++ [c]) hsub' step1 step2
        refine ⟨s', ?_, ?_, ?_, a4, a5⟩
        · rw [a1]; simp
        · intro d hd; exact a2 d (List.mem_append.mpr (Or.inl hd))
        · intro d hd
          rcases a3 d hd with h | h
          · rcases List.mem_append.mp h with h | h
            · exact Or.inl h
            · right; apply a2; simp at h; simp [h]
          · exact Or.inr h

/-- the heads announced by one `NextBatch` over `l` (the not yet consumed stored sequence):
`looked` is exactly what the call consumed -/
theorem nextBatch_heads (rm : Nat → Bool) (max : Nat) (cache l : List SChange) (hsub : ∀ d ∈ l, d ∈ cache) :
    ∃ looked : List SChange, looked ++ (nextBatch rm max l).2 = l ∧
      (nextBatch rm max l).1.changes = keep rm looked ∧
      (∀ x ∈ (nextBatch rm max l).1.heads, x ∈ looked.map (·.id)) ∧
      (∀ d ∈ looked, ∃ y ∈ (nextBatch rm max l).1.heads, Reach cache y d.id) := by
  obtain ⟨s', a1, _, _, a4, a5⟩ := scan_heads rm max cache l 0 [] [] [] hsub (by simp) (by simp)
  refine ⟨s', by simpa [nextBatch] using a1, ?_, by simpa [nextBatch] using a4, by simpa [nextBatch] using a5⟩
  have hc := scan_concat rm max l 0 [] []
  simp only [List.nil_append] at hc a1
  have : keep rm l = keep rm s' ++ keep rm (scan rm max l 0 [] []).2 := by
    have h0 : keep rm l = keep rm (s' ++ (scan rm max l 0 [] []).2) := congrArg (keep rm) a1.symm
    rw [h0]; simp [keep]
  rw [this] at hc
  exact List.append_cancel_right hc

theorem dropWhile_ne_eq_nil {a : Nat} {t : List Nat} : t.dropWhile (· != a) = [] ↔ a ∉ t := by
  induction t with
  | nil => simp
  | cons b t ih =>
    by_cases h : b = a
    · subst h; simp
    · have hb : (b != a) = true := by simpa using h
      rw [List.dropWhile_cons, if_pos hb, ih]
      constructor
      · intro h1 h2
        rcases List.mem_cons.mp h2 with e | e
        · exact h e.symm
        · exact h1 e
      · intro h1 h2; exact h1 (List.mem_cons_of_mem _ h2)

theorem dropWhile_ne_head {a b : Nat} {t'' : List Nat} : ∀ (t : List Nat), t.dropWhile (· != a) = b :: t'' → b = a := by
  intro t
  induction t with
  | nil => simp
  | cons c t ih =>
    intro h
    rw [List.dropWhile_cons] at h
    split at h
    · exact ih h
    · rename_i hc
      have : c = a := by simpa using hc
      simp at h; rw [← h.1]; exact this

theorem findStart_none {o t : List Nat} : findStart o t = none ↔ ∀ x ∈ o, x ∉ t := by
  induction o with
  | nil => simp [findStart]
  | cons a o ih =>
    unfold findStart
    split
    · rename_i hd
      have := dropWhile_ne_eq_nil.mp hd
      rw [ih]; simp [this]
    · rename_i hd
      have hat : a ∈ t := by
        by_cases h : a ∈ t
        · exact h
        · exact absurd (dropWhile_ne_eq_nil.mpr h) hd
      simp only [reduceCtorEq, false_iff]
      intro h; exact h a (by simp) hat

theorem findStart_some {o t o' t' : List Nat} (h : findStart o t = some (o', t')) :
    ∃ a o'' t'', o' = a :: o'' ∧ t' = a :: t'' := by
  induction o with
  | nil => simp [findStart] at h
  | cons a o ih =>
    unfold findStart at h
    split at h
    · exact ih h
    · rename_i hd
      simp at h
      obtain ⟨h1, h2⟩ := h
      cases hdw : t.dropWhile (· != a) with
      | nil => exact absurd hdw hd
      | cons b t'' =>
        have : b = a := dropWhile_ne_head t hdw
        subst this
        exact ⟨b, o, t'', h1.symm, by rw [← h2, hdw]⟩

theorem commonSnapshot_none {o t : List Nat} : commonSnapshot o t = none ↔ ∀ x ∈ o, x ∉ t := by
  unfold commonSnapshot
  split
  · rename_i h
    have := findStart_none.mp h
    simp at this
    simp; exact this
  · rename_i a o' _ t' h
    simp only [reduceCtorEq, false_iff]
    have hn : findStart o.reverse t.reverse ≠ none := by rw [h]; simp
    rw [Ne, findStart_none] at hn
    simp at hn
    intro hh
    obtain ⟨x, hx1, hx2⟩ := hn
    exact hh x hx1 hx2
  · rename_i x hno h
    exfalso
    obtain ⟨o', t'⟩ := x
    obtain ⟨a, o'', t'', rfl, rfl⟩ := findStart_some h
    exact hno a o'' a t'' rfl

theorem walkEqual_append (sr : List Nat) : ∀ (last : Nat) (u v : List Nat),
    walkEqual last (sr ++ u) (sr ++ v) = walkEqual (sr.getLast?.getD last) u v := by
  induction sr with
  | nil => intro last u v; simp
  | cons x sr ih =>
    intro last u v
    simp only [List.cons_append, walkEqual, if_true]
    rw [ih]
    cases sr with
    | nil => simp
    | cons y sr =>
      rw [List.getLast?_cons_cons]
      cases h : (y :: sr).getLast? with
      | none => simp at h
      | some z => simp

theorem walkEqual_stop (z : Nat) (u v : List Nat)
    (h : ∀ x y, u.head? = some x → v.head? = some y → x ≠ y) : walkEqual z u v = z := by
  cases u with
  | nil => simp [walkEqual]
  | cons a u =>
    cases v with
    | nil => simp [walkEqual]
    | cons b v =>
      have := h a b rfl rfl
      simp [walkEqual, this]

theorem head?_reverse_append_single (sr : List Nat) (x : Nat) :
    (sr.reverse ++ [x]).head? = some (sr.getLast?.getD x) := by
  rw [List.head?_append, List.head?_reverse]; cases sr.getLast? <;> simp

/-- two snapshot paths (newest first) that end in the same chain `s` and differ right before it -/
theorem commonSnapshot_suffix (a b s : List Nat) (hs : s ≠ [])
    (hmax : ∀ x y, a.getLast? = some x → b.getLast? = some y → x ≠ y) :
    commonSnapshot (a ++ s) (b ++ s) = s.head? := by
  obtain ⟨x, sr, hsr⟩ : ∃ x sr, s.reverse = x :: sr := by
    cases h : s.reverse with
    | nil => simp at h; exact absurd h hs
    | cons x sr => exact ⟨x, sr, rfl⟩
  have hsx : s = sr.reverse ++ [x] := by
    have := congrArg List.reverse hsr; simpa using this
  unfold commonSnapshot
  simp only [List.reverse_append, hsr, List.cons_append]
  have hf : findStart (x :: (sr ++ a.reverse)) (x :: (sr ++ b.reverse))
      = some (x :: (sr ++ a.reverse), x :: (sr ++ b.reverse)) := by
    simp [findStart]
  rw [hf]
  simp only
  rw [walkEqual_append, walkEqual_stop]
  · rw [hsx, head?_reverse_append_single]
  · intro p q hp hq
    apply hmax p q
    · simpa [List.head?_reverse] using hp
    · simpa [List.head?_reverse] using hq



/-! ### a responder that changes while it streams -/

theorem scanC_filter (ic rm : Nat → Bool) (max : Nat) (l : List SChange) :
    ∀ (cur : Nat) (b : List SChange) (h : List Nat),
      (scanC ic rm max l cur b h).1 = (scan rm max (l.filter (fun c => ic c.id)) cur b h).1 ∧
      (scanC ic rm max l cur b h).2.filter (fun c => ic c.id) = (scan rm max (l.filter (fun c => ic c.id)) cur b h).2 := by
  induction l with
  | nil => intro cur b h; simp [scanC, scan]
  | cons c rest ih =>
    intro cur b h
    cases hic : ic c.id
    · have : scanC ic rm max (c :: rest) cur b h = scanC ic rm max rest cur b h := by
        simp [scanC, hic]
      rw [this, List.filter_cons]; simp only [hic, Bool.false_eq_true, if_false]
      exact ih cur b h
    · rw [List.filter_cons]; simp only [hic, if_true]
      unfold scanC scan
      simp only [hic, Bool.not_true, Bool.false_eq_true, if_false]
      split
      · exact ih _ _ _
      · split
        · refine ⟨rfl, ?_⟩
          simp [hic]
        · exact ih _ _ _

/-- **interleaving is invisible**: whatever foreign changes get stored between the calls, the batches are those of
the quiescent loader on the cached sequence -/
theorem batchesI_eq (ic rm : Nat → Bool) (max : Nat) (ins : Nat → List SChange → List SChange)
    (hins : ∀ i l, (ins i l).filter (fun c => ic c.id) = l.filter (fun c => ic c.id)) :
    ∀ (f i : Nat) (l : List SChange),
      batchesI ic rm max ins f i l = batches rm max f (l.filter (fun c => ic c.id)) := by
  intro f
  induction f with
  | zero => intro i l; rfl
  | succ f ih =>
    intro i l
    unfold batchesI batches
    simp only
    have h := scanC_filter ic rm max (ins i l) 0 [] []
    rw [hins i l] at h
    unfold nextBatch
    rw [h.1]
    split
    · rfl
    · rw [ih (i + 1) _, h.2]


end AnySync.Tree
