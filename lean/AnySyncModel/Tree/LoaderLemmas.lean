import AnySyncModel.Tree.Loader
/-! Helper lemmas for the loader (C09): batch arithmetic. -/
namespace AnySync.Tree

def sizeSum (l : List SChange) : Nat := (l.map (·.size)).sum

theorem sizeSum_append (a b : List SChange) : sizeSum (a ++ b) = sizeSum a + sizeSum b := by
  simp [sizeSum, List.map_append, List.sum_append]

theorem scan_bound (rm : Nat → Bool) (max : Nat) (l : List SChange) :
    ∀ (cur : Nat) (b : List SChange) (h : List Nat), sizeSum b = cur → (cur < max ∨ b.length ≤ 1) →
      (sizeSum (scan rm max l cur b h).1.changes < max ∨ (scan rm max l cur b h).1.changes.length ≤ 1) := by
  induction l with
  | nil => intro cur b h hs hb; simp [scan]; rw [hs]; exact hb
  | cons c rest ih =>
    intro cur b h hs hb
    unfold scan
    split
    · exact ih cur b _ hs hb
    · split
      · simp; rw [hs]; exact hb
      · rename_i hnr hbr
        apply ih
        · rw [sizeSum_append, hs]; simp [sizeSum]
        · by_cases hlt : cur + c.size < max
          · exact Or.inl hlt
          · right
            have : b.isEmpty = true := by
              cases hbe : b.isEmpty with
              | true => rfl
              | false =>
                exfalso; apply hbr
                refine ⟨by omega, by simp [hbe]⟩
            have : b = [] := by simpa using this
            subst this; simp
end AnySync.Tree
