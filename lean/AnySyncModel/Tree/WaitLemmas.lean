import AnySyncModel.Tree.Model
import AnySyncModel.Tree.Lemmas
/-! The wait-list machinery of `Tree.add` is complete: whatever the order inside a batch, every change whose
previous ids (and snapshot) are attached or in the batch ends up attached. Confluence for arbitrary orders. -/
namespace AnySync.Tree

/-- wait-list invariant; ids in `E` are exempt from "has a missing previous id" (waiters still to be looked at) -/
structure WInv (t : T) (E : List Nat) : Prop where
  w1 : ∀ u ∈ t.unatt, u.id ∉ E → ∃ p ∈ u.prevs, t.has p = false
  w2 : ∀ u ∈ t.unatt, ∀ p ∈ u.prevs, t.has p = false → (p, u.id) ∈ t.wait
  w3 : (t.unatt.map (·.id)).Nodup

theorem canAttach_cases (t : T) (c : Change) (b : Bool) :
    (canAttach t c b = (true, false, []) ∧ (∀ p ∈ c.prevs, t.has p = true) ∧ t.has c.snap = true) ∨
    (canAttach t c b = (false, true, []) ∧
      (((∀ p ∈ c.prevs, t.has p = true) ∧ t.has c.snap = false) ∨ c.prevs = [])) ∨
    (∃ w, canAttach t c b = (false, false, w) ∧ (∃ p ∈ c.prevs, t.has p = false) ∧
      (b = true → ∀ p ∈ c.prevs, t.has p = false → (p, c.id) ∈ w)) := by
  unfold canAttach
  simp only
  by_cases hemp : c.prevs.isEmpty = true
  · right; left
    have : c.prevs = [] := by simpa using hemp
    simp [hemp, this]
  · have hemp' : c.prevs.isEmpty = false := by simpa using hemp
    by_cases hm : (c.prevs.filter (fun p => !t.has p)).isEmpty = true
    · have hm' : c.prevs.filter (fun p => !t.has p) = [] := by simpa using hm
      have hall : ∀ p ∈ c.prevs, t.has p = true := by
        intro p hp
        have := (List.filter_eq_nil_iff.mp hm') p hp
        simpa using this
      cases hs : t.has c.snap
      · right; left; simp [hm', hemp']; exact Or.inl hall
      · left; simp [hm', hemp']; exact hall
    · right; right
      have hne : c.prevs.filter (fun p => !t.has p) ≠ [] := by simpa using hm
      obtain ⟨p, hp⟩ := List.exists_mem_of_ne_nil _ hne
      have hp' := List.mem_filter.mp hp
      refine ⟨if b then (c.prevs.filter (fun p => !t.has p)).map (fun p => (p, c.id)) else [], by simp [hm, hemp'],
        ⟨p, hp'.1, by simpa using hp'.2⟩, ?_⟩
      intro hb q hq hqf
      subst hb
      simp only [if_true]
      exact List.mem_map.mpr ⟨q, List.mem_filter.mpr ⟨hq, by simp [hqf]⟩, rfl⟩

abbrev push (t : T) (c : Change) : T :=
  { t with att := t.att ++ [c], added := t.added ++ [c.id], unatt := t.unatt.filter (·.id != c.id) }

theorem push_has {t : T} {c : Change} {x : Nat} : (push t c).has x = true ↔ (t.has x = true ∨ x = c.id) := by
  rw [has_iff, has_iff]
  simp only [List.map_append, List.mem_append, List.map_cons, List.map_nil, List.mem_singleton]

def waitersOf (t : T) (c : Change) : List Nat := (t.wait.filter (·.1 == c.id)).map (·.2)

/-- after appending `c`: only the changes waiting for `c` may have become attachable -/
theorem winv_push {t : T} {c : Change} {E : List Nat} (hw : WInv t (c.id :: E)) (hnot : t.has c.id = false) :
    WInv (push t c) (waitersOf t c ++ E) := by
  refine ⟨?_, ?_, ?_⟩
  · intro u hu hue
    have hu' := List.mem_filter.mp hu
    have huc : u.id ≠ c.id := by simpa using hu'.2
    have hue' : u.id ∉ c.id :: E := by
      intro h; rcases List.mem_cons.mp h with e | e
      · exact huc e
      · exact hue (List.mem_append.mpr (Or.inr e))
    -- some missing previous id other than `c.id`
    by_cases hex : ∃ p ∈ u.prevs, t.has p = false ∧ p ≠ c.id
    · obtain ⟨p, hp, hpf, hpc⟩ := hex
      refine ⟨p, hp, ?_⟩
      cases h : (push t c).has p
      · rfl
      · rcases push_has.mp h with h' | h'
        · rw [h'] at hpf; exact Bool.noConfusion hpf
        · exact absurd h' hpc
    · exfalso
      obtain ⟨p, hp, hpf⟩ := hw.w1 u hu'.1 hue'
      have hpc : p = c.id := by
        by_cases e : p = c.id
        · exact e
        · exact absurd ⟨p, hp, hpf, e⟩ hex
      have := hw.w2 u hu'.1 p hp hpf
      apply hue
      refine List.mem_append.mpr (Or.inl ?_)
      unfold waitersOf
      exact List.mem_map.mpr ⟨(p, u.id), List.mem_filter.mpr ⟨this, by simp [hpc]⟩, rfl⟩
  · intro u hu p hp hpf
    have hu' := List.mem_filter.mp hu
    have : t.has p = false := by
      cases h : t.has p
      · rfl
      · have := (push_has (t := t) (c := c) (x := p)).mpr (Or.inl h); rw [this] at hpf; exact Bool.noConfusion hpf
    exact hw.w2 u hu'.1 p hp this
  · exact List.Nodup.sublist (List.Sublist.map _ List.filter_sublist) hw.w3


/-- one step of the cascade (the body of the fold inside `attach`) -/
def cascadeStep (f : Nat) (t : T) (w : Nat) : T :=
  match t.unatt.find? (·.id == w) with
  | none => t
  | some n =>
    match canAttach t n false with
    | (true, _, _) => attach f t n
    | (false, true, _) => { t with unatt := t.unatt.filter (·.id != n.id) }
    | _ => t

theorem attach_succ (f : Nat) (t : T) (c : Change) :
    attach (f + 1) t c =
      { (waitersOf t c).foldl (cascadeStep f) (push t c) with
        wait := ((waitersOf t c).foldl (cascadeStep f) (push t c)).wait.filter (·.1 != c.id) } := rfl

theorem Extends.has_mono {batch : List Change} {t t' : T} (h : Extends batch t t') {x : Nat}
    (hx : t.has x = true) : t'.has x = true := by
  obtain ⟨_, news, e, _⟩ := h
  rw [has_iff] at hx ⊢
  rw [e, List.map_append, List.mem_append]; exact Or.inl hx

theorem ids_inj_of_nodup {l : List Change} (h : (l.map (·.id)).Nodup) {a b : Change} (ha : a ∈ l) (hb : b ∈ l)
    (e : a.id = b.id) : a = b := nodup_ids_inj h a ha b hb e

/-- every batch member not attached from the start has previous ids (only the root has none), and its snapshot is attached as soon as all
its previous ids are (it is one of their ancestors) -/
def SnapOK (batch : List Change) (t0 : T) : Prop :=
  (∀ c ∈ batch, c.prevs ≠ [] ∨ t0.has c.id = true) ∧
  ∀ t', Inv batch t' → (∀ x, t0.has x = true → t'.has x = true) →
    ∀ c ∈ batch, (∀ p ∈ c.prevs, t'.has p = true) → t'.has c.snap = true

structure St (batch : List Change) (t0 t : T) (E : List Nat) : Prop where
  inv : Inv batch t
  w : WInv t E
  mono : ∀ x, t0.has x = true → t.has x = true

theorem attach_w (batch : List Change) (t0 : T) (hs : SnapOK batch t0) :
    ∀ (f : Nat) (t : T) (c : Change) (E : List Nat), St batch t0 t (c.id :: E) → c ∈ batch →
      t.has c.id = false → (∀ p ∈ c.prevs, t.has p = true) →
      (t.unatt.filter (·.id != c.id)).length < f →
      St batch t0 (attach f t c) E ∧ Extends batch t (attach f t c) ∧ (attach f t c).has c.id = true ∧
      (attach f t c).unatt.length ≤ (t.unatt.filter (·.id != c.id)).length ∧
      (∀ u ∈ t.unatt, u ∈ (attach f t c).unatt ∨ (attach f t c).has u.id = true) := by
  intro f
  induction f with
  | zero => intro t c E _ _ _ _ h; omega
  | succ f ih =>
    intro t c E hst hc hnot hprev hfuel
    -- the cascade
    have hfold : ∀ (ws : List Nat) (s : T) (E' : List Nat), St batch t0 s (ws ++ E') → s.unatt.length ≤ f →
        St batch t0 (ws.foldl (cascadeStep f) s) E' ∧ Extends batch s (ws.foldl (cascadeStep f) s) ∧
        (ws.foldl (cascadeStep f) s).unatt.length ≤ s.unatt.length ∧
        (∀ u ∈ s.unatt, u ∈ (ws.foldl (cascadeStep f) s).unatt ∨ (ws.foldl (cascadeStep f) s).has u.id = true) := by
      intro ws
      induction ws with
      | nil => intro s E' h _; exact ⟨by simpa using h, Extends.refl _ _, Nat.le_refl _, fun u hu => Or.inl hu⟩
      | cons w ws ihw =>
        intro s E' h hlen
        simp only [List.foldl_cons]
        have step : St batch t0 (cascadeStep f s w) (ws ++ E') ∧ Extends batch s (cascadeStep f s w) ∧
            (cascadeStep f s w).unatt.length ≤ s.unatt.length ∧
            (∀ u ∈ s.unatt, u ∈ (cascadeStep f s w).unatt ∨ (cascadeStep f s w).has u.id = true) := by
          unfold cascadeStep
          cases hfind : s.unatt.find? (·.id == w) with
          | none =>
            simp only
            refine ⟨⟨h.inv, ⟨?_, h.w.w2, h.w.w3⟩, h.mono⟩, Extends.refl _ _, Nat.le_refl _, fun u hu => Or.inl hu⟩
            intro u hu hue
            apply h.w.w1 u hu
            intro hmem
            rcases List.mem_cons.mp (by simpa using hmem : u.id ∈ w :: (ws ++ E')) with e | e
            · have := List.find?_eq_none.mp hfind u hu
              simp [e] at this
            · exact hue e
          | some n =>
            simp only
            have hnm : n ∈ s.unatt := List.mem_of_find?_eq_some hfind
            have hnw : n.id = w := by simpa using List.find?_some hfind
            obtain ⟨hnb, hnh⟩ := h.inv.unb n hnm
            have w1rest : ∀ u ∈ s.unatt, u.id ∉ ws ++ E' → u ≠ n → ∃ p ∈ u.prevs, s.has p = false := by
              intro u hu hue hun
              apply h.w.w1 u hu
              intro hmem
              rcases List.mem_cons.mp (by simpa using hmem : u.id ∈ w :: (ws ++ E')) with e | e
              · exact hun (ids_inj_of_nodup h.w.w3 hu hnm (by rw [e, hnw]))
              · exact hue e
            rcases canAttach_cases s n false with ⟨hca, hp, _⟩ | ⟨hca, ⟨hp, hsn⟩ | hemp⟩ | ⟨w', hca, hmiss, _⟩
            · rw [hca]; simp only
              have hlen' : (s.unatt.filter (·.id != n.id)).length < f := by
                have : (s.unatt.filter (·.id != n.id)).length < s.unatt.length := by
                  apply List.length_filter_lt_length_iff_exists.mpr
                  exact ⟨n, hnm, by simp⟩
                omega
              have hst' : St batch t0 s (n.id :: (ws ++ E')) := by
                refine ⟨h.inv, ⟨?_, h.w.w2, h.w.w3⟩, h.mono⟩
                intro u hu hue
                apply h.w.w1 u hu
                rw [hnw] at hue; simpa using hue
              obtain ⟨r1, r2, _, r4, r5⟩ := ih s n (ws ++ E') hst' hnb hnh hp hlen'
              refine ⟨r1, r2, ?_, r5⟩
              have := List.length_filter_le (fun x : Change => x.id != n.id) s.unatt
              omega
            · exfalso
              have := hs.2 s h.inv h.mono n hnb hp
              rw [this] at hsn; exact Bool.noConfusion hsn
            · exfalso
              rcases hs.1 n hnb with h' | h'
              · exact h' hemp
              · rw [h.mono _ h'] at hnh; exact Bool.noConfusion hnh
            · rw [hca]; simp only
              refine ⟨⟨h.inv, ⟨?_, h.w.w2, h.w.w3⟩, h.mono⟩, Extends.refl _ _, Nat.le_refl _, fun u hu => Or.inl hu⟩
              intro u hu hue
              by_cases hun : u = n
              · subst hun; exact hmiss
              · exact w1rest u hu hue hun
        obtain ⟨s1, e1, l1, k1⟩ := step
        obtain ⟨s2, e2, l2, k2⟩ := ihw _ E' s1 (by omega)
        refine ⟨s2, e1.trans e2, by omega, ?_⟩
        intro u hu
        rcases k1 u hu with h' | h'
        · exact k2 u h'
        · exact Or.inr (e2.has_mono h')
    rw [attach_succ]
    have hpushInv := inv_push hst.inv hc hnot hprev
    have hpushW : WInv (push t c) (waitersOf t c ++ E) := winv_push hst.w hnot
    have hpushMono : ∀ x, t0.has x = true → (push t c).has x = true :=
      fun x hx => push_has.mpr (Or.inl (hst.mono x hx))
    have hpushLen : (push t c).unatt.length ≤ f := by
      show (t.unatt.filter (·.id != c.id)).length ≤ f
      omega
    obtain ⟨s2, e2, l2, k2⟩ := hfold (waitersOf t c) (push t c) E ⟨hpushInv, hpushW, hpushMono⟩ hpushLen
    have e1 : Extends batch t (push t c) := ⟨rfl, [c], rfl, fun n hn => (List.mem_singleton.mp hn) ▸ hc⟩
    have hcid : ((waitersOf t c).foldl (cascadeStep f) (push t c)).has c.id = true :=
      e2.has_mono (push_has.mpr (Or.inr rfl))
    refine ⟨⟨⟨s2.inv.wf, s2.inv.closed, s2.inv.unb⟩, ⟨s2.w.w1, ?_, s2.w.w3⟩, s2.mono⟩, ?_, hcid, l2, ?_⟩
    · intro u hu p hp hpf
      have := s2.w.w2 u hu p hp hpf
      refine List.mem_filter.mpr ⟨this, ?_⟩
      have hpc : p ≠ c.id := by
        intro e
        have hpf' : ((waitersOf t c).foldl (cascadeStep f) (push t c)).has p = false := hpf
        rw [e, hcid] at hpf'; exact Bool.noConfusion hpf'
      simpa using hpc
    · obtain ⟨r, news, en, mn⟩ := e1.trans e2
      exact ⟨r, news, en, mn⟩
    · intro u hu
      by_cases huc : u.id = c.id
      · right; rw [huc]; exact hcid
      · have : u ∈ (push t c).unatt := List.mem_filter.mpr ⟨hu, by simpa using huc⟩
        exact k2 u this


/-- `c` is attached or parked -/
def Tracked (t : T) (c : Change) : Prop := t.has c.id = true ∨ ∃ u ∈ t.unatt, u.id = c.id

theorem St.weaken {batch : List Change} {t0 t : T} {E : List Nat} (h : St batch t0 t []) : St batch t0 t E :=
  ⟨h.inv, ⟨fun u hu _ => h.w.w1 u hu (by simp), h.w.w2, h.w.w3⟩, h.mono⟩

theorem addOne_w (U : List Change) (t0 : T) (hs : SnapOK U t0) (t : T) (c : Change) (hst : St U t0 t [])
    (hc : c ∈ U) (hroot : t.root.isSome = true) (hnot : t.has c.id = false) (hun : t.hasUn c.id = false) :
    St U t0 (addOne t c) [] ∧ Extends U t (addOne t c) ∧ Tracked (addOne t c) c ∧
    (∀ u ∈ t.unatt, u ∈ (addOne t c).unatt ∨ (addOne t c).has u.id = true) := by
  unfold addOne
  split
  · rename_i h; rw [h] at hroot; simp at hroot
  · rcases canAttach_cases t c true with ⟨hca, hp, _⟩ | ⟨hca, ⟨hp, hsn⟩ | hemp⟩ | ⟨w', hca, hmiss, hw'⟩
    · rw [hca]; simp only
      obtain ⟨r1, r2, r3, _, r5⟩ := attach_w U t0 hs (t.unatt.length + 1) t c [] hst.weaken hc hnot hp
        (by have := List.length_filter_le (fun x : Change => x.id != c.id) t.unatt; omega)
      exact ⟨r1, r2, Or.inl r3, r5⟩
    · exfalso
      have := hs.2 t hst.inv hst.mono c hc hp
      rw [this] at hsn; exact Bool.noConfusion hsn
    · exfalso
      rcases hs.1 c hc with h' | h'
      · exact h' hemp
      · rw [hst.mono _ h'] at hnot; exact Bool.noConfusion hnot
    · rw [hca]; simp only
      have hcun : c.id ∉ t.unatt.map (·.id) := by
        intro h
        obtain ⟨u, hu, hid⟩ := List.mem_map.mp h
        have : t.hasUn c.id = true := by
          unfold T.hasUn; simp only [List.any_eq_true]; exact ⟨u, hu, by simp [hid]⟩
        rw [this] at hun; exact Bool.noConfusion hun
      refine ⟨⟨⟨hst.inv.wf, hst.inv.closed, ?_⟩, ⟨?_, ?_, ?_⟩, hst.mono⟩, ⟨rfl, [], by simp, by simp⟩, ?_, ?_⟩
      · intro u hu
        rcases List.mem_append.mp hu with hu | hu
        · exact hst.inv.unb u hu
        · have : u = c := by simpa using hu
          subst this; exact ⟨hc, hnot⟩
      · intro u hu _
        rcases List.mem_append.mp hu with hu | hu
        · exact hst.w.w1 u hu (by simp)
        · have : u = c := by simpa using hu
          subst this; exact hmiss
      · intro u hu p hp hpf
        rcases List.mem_append.mp hu with hu | hu
        · exact List.mem_append.mpr (Or.inl (hst.w.w2 u hu p hp hpf))
        · have : u = c := by simpa using hu
          subst this; exact List.mem_append.mpr (Or.inr (hw' rfl p hp hpf))
      · show ((t.unatt ++ [c]).map (·.id)).Nodup
        rw [List.map_append, List.nodup_append]
        refine ⟨hst.w.w3, by simp, ?_⟩
        intro x hx y hy
        have : y = c.id := by simpa using hy
        subst this
        intro e; subst e; exact hcun hx
      · right; exact ⟨c, List.mem_append.mpr (Or.inr (by simp)), rfl⟩
      · intro u hu; left; exact List.mem_append.mpr (Or.inl hu)

theorem Tracked.step {t t' : T} {c : Change} (h : Tracked t c) (hmono : ∀ x, t.has x = true → t'.has x = true)
    (hk : ∀ u ∈ t.unatt, u ∈ t'.unatt ∨ t'.has u.id = true) : Tracked t' c := by
  rcases h with h | ⟨u, hu, hid⟩
  · exact Or.inl (hmono _ h)
  · rcases hk u hu with h' | h'
    · exact Or.inr ⟨u, h', hid⟩
    · left; rw [← hid]; exact h'

theorem addAll_w (U : List Change) (t0 : T) (hs : SnapOK U t0) : ∀ (l : List Change) (t : T),
    (∀ c ∈ l, c ∈ U) → St U t0 t [] → t.root.isSome = true →
    St U t0 (addAll t l) [] ∧ Extends U t (addAll t l) ∧ (∀ c ∈ l, Tracked (addAll t l) c) ∧
    (∀ u ∈ t.unatt, u ∈ (addAll t l).unatt ∨ (addAll t l).has u.id = true) := by
  intro l
  induction l with
  | nil => intro t _ h _; exact ⟨h, Extends.refl _ _, by simp, fun u hu => Or.inl hu⟩
  | cons c l ih =>
    intro t hl hst hroot
    unfold addAll
    simp only [List.foldl_cons]
    have step : St U t0 (if t.has c.id || t.hasUn c.id then t else addOne t c) [] ∧
        Extends U t (if t.has c.id || t.hasUn c.id then t else addOne t c) ∧
        Tracked (if t.has c.id || t.hasUn c.id then t else addOne t c) c ∧
        (∀ u ∈ t.unatt, u ∈ (if t.has c.id || t.hasUn c.id then t else addOne t c).unatt ∨
          (if t.has c.id || t.hasUn c.id then t else addOne t c).has u.id = true) := by
      cases hh : t.has c.id
      · cases hu : t.hasUn c.id
        · simp only [Bool.or_self, Bool.false_eq_true, if_false]
          exact addOne_w U t0 hs t c hst (hl c (by simp)) hroot hh hu
        · simp only [Bool.false_or, if_true]
          refine ⟨hst, Extends.refl _ _, Or.inr ?_, fun u hu => Or.inl hu⟩
          unfold T.hasUn at hu
          obtain ⟨u, hum, hid⟩ := List.any_eq_true.mp hu
          exact ⟨u, hum, by simpa using hid⟩
      · simp only [Bool.true_or, if_true]
        exact ⟨hst, Extends.refl _ _, Or.inl hh, fun u hu => Or.inl hu⟩
    obtain ⟨s1, e1, tr1, k1⟩ := step
    have hroot' : (if t.has c.id || t.hasUn c.id then t else addOne t c).root.isSome = true := by
      rw [e1.1]; exact hroot
    obtain ⟨s2, e2, tr2, k2⟩ := ih _ (fun d hd => hl d (List.mem_cons_of_mem _ hd)) s1 hroot'
    refine ⟨s2, e1.trans e2, ?_, ?_⟩
    · intro d hd
      rcases List.mem_cons.mp hd with e | e
      · rw [e]; exact tr1.step (fun x hx => e2.has_mono hx) k2
      · exact tr2 d e
    · intro u hu
      rcases k1 u hu with h' | h'
      · exact k2 u h'
      · exact Or.inr (e2.has_mono h')


/-- **wait-list completeness**: whatever the order inside the batch, every change of the batch for which a causal
order exists (previous ids and snapshot attached before, or in the batch) ends up attached -/
theorem addAll_complete (U : List Change) (t0 : T) (hs : SnapOK U t0) (t : T) (l l0 : List Change)
    (hl : ∀ c ∈ l, c ∈ U) (hst : St U t0 t []) (hroot : t.root.isSome = true)
    (huniq : ∀ a ∈ U, ∀ b ∈ U, a.id = b.id → a = b)
    (hl0 : ∀ c ∈ l0, c ∈ l) (hcaus : CausalFor t l0) :
    ∀ c ∈ l0, (addAll t l).has c.id = true := by
  obtain ⟨s1, e1, tr, _⟩ := addAll_w U t0 hs l t hl hst hroot
  have key : ∀ (l2 l1 : List Change), l0 = l1 ++ l2 → (∀ d ∈ l1, (addAll t l).has d.id = true) →
      ∀ d ∈ l2, (addAll t l).has d.id = true := by
    intro l2
    induction l2 with
    | nil => intro l1 _ _ d hd; simp at hd
    | cons c l2 ih =>
      intro l1 hdec h1 d hd
      have hc := hcaus l1 c l2 hdec
      have hprevs : ∀ p ∈ c.prevs, (addAll t l).has p = true := by
        intro p hp
        rcases hc.1 p hp with h | h
        · exact e1.has_mono h
        · obtain ⟨q, hq, hqp⟩ := List.mem_map.mp h
          rw [← hqp]; exact h1 q hq
      have hcl : c ∈ l := hl0 c (by rw [hdec]; simp)
      have hch : (addAll t l).has c.id = true := by
        rcases tr c hcl with h | ⟨u, hu, hid⟩
        · exact h
        · exfalso
          have huU := (s1.inv.unb u hu).1
          have : u = c := huniq u huU c (hl c hcl) hid
          subst this
          obtain ⟨p, hp, hpf⟩ := s1.w.w1 u hu (by simp)
          rw [hprevs p hp] at hpf; exact Bool.noConfusion hpf
      rcases List.mem_cons.mp hd with e | e
      · rw [e]; exact hch
      · apply ih (l1 ++ [c]) (by rw [hdec]; simp) ?_ d e
        intro q hq
        rcases List.mem_append.mp hq with h | h
        · exact h1 q h
        · have : q = c := by simpa using h
          rw [this]; exact hch
  exact key l0 [] (by simp) (by simp)

/-- every batch is closed relative to the tree it arrives at: some causal order of it exists -/
def SeqClosed : T → List (List Change) → Prop
  | _, [] => True
  | t, b :: L => (∃ l0, (∀ c ∈ l0, c ∈ b) ∧ (∀ c ∈ b, c ∈ l0) ∧ CausalFor t l0) ∧ SeqClosed (add t b).tree L

theorem addSeq_complete (U : List Change) (t0 : T) (hs : SnapOK U t0)
    (huniq : ∀ a ∈ U, ∀ b ∈ U, a.id = b.id → a = b) :
    ∀ (L : List (List Change)) (t : T), (∀ c ∈ L.flatten, c ∈ U) → St U t0 t [] → t.root.isSome = true →
      SeqClosed t L →
      (∀ c ∈ L.flatten, (addSeq t L).has c.id = true) ∧ St U t0 (addSeq t L) [] ∧ Extends U t (addSeq t L) := by
  intro L
  induction L with
  | nil => intro t _ hst _ _; exact ⟨by simp, hst, Extends.refl _ _⟩
  | cons b L ih =>
    intro t hU hst hroot hcl
    obtain ⟨⟨l0, hl0a, hl0b, hcaus⟩, hrest⟩ := hcl
    have hbU : ∀ c ∈ b, c ∈ U := fun c hc => hU c (by simp [hc])
    have hst' : St U t0 { t with added := [] } [] := ⟨⟨hst.inv.wf, hst.inv.closed, hst.inv.unb⟩, ⟨hst.w.w1, hst.w.w2, hst.w.w3⟩, hst.mono⟩
    have hcaus' : CausalFor { t with added := [] } l0 := hcaus
    have hall := addAll_complete U t0 hs { t with added := [] } b l0 hbU hst' hroot huniq hl0a hcaus'
    obtain ⟨s1, e1, _, _⟩ := addAll_w U t0 hs b { t with added := [] } hbU hst' hroot
    have e := add_tree_att t b
    have hatt : (add t b).tree.att = (addAll { t with added := [] } b).att := by rw [e.1]; rfl
    have hrt : (add t b).tree.root = t.root := by rw [e.2]; exact e1.1
    have hhas : ∀ x, (add t b).tree.has x = (addAll { t with added := [] } b).has x := by
      intro x; unfold T.has; rw [hatt]
    have hun := add_tree_unatt t b
    have hstn : St U t0 (add t b).tree [] := by
      refine ⟨⟨by rw [hatt]; exact s1.inv.wf, ?_, by intro u hu; rw [hun] at hu; simp at hu⟩,
        ⟨by intro u hu; rw [hun] at hu; simp at hu, by intro u hu; rw [hun] at hu; simp at hu, by rw [hun]; simp⟩, ?_⟩
      · intro d hd p hp
        rw [hatt] at hd
        rcases s1.inv.closed d hd p hp with h | h
        · left; rw [hhas]; exact h
        · exact Or.inr h
      · intro x hx; rw [hhas]; exact s1.mono x hx
    have hext1 : Extends U t (add t b).tree := by
      obtain ⟨_, news, en, mn⟩ := e1
      exact ⟨hrt, news, by rw [hatt, en], mn⟩
    obtain ⟨i1, i2, i3⟩ := ih (add t b).tree (fun c hc => hU c (by simp [hc])) hstn (by rw [hrt]; exact hroot) hrest
    refine ⟨?_, i2, hext1.trans i3⟩
    intro c hc
    simp only [List.flatten_cons, List.mem_append] at hc
    rcases hc with h | h
    · have : (add t b).tree.has c.id = true := by rw [hhas]; exact hall c (hl0b c h)
      exact i3.has_mono this
    · exact i1 c h


/-- **confluence**: two deliveries of the same changes `U` - arbitrary order inside each batch, any batching in
which every batch is closed relative to the tree it arrives at, any duplication - attach all of `U`, end with
permuted attachment lists and present the same sequence -/
theorem addSeq_confluent_any (U : List Change) (t : T) (L1 L2 : List (List Change)) (r : Nat)
    (hs : SnapOK U t) (hinv : Inv U t) (hun : t.unatt = []) (hroot : t.root = some r)
    (huniq : ∀ a ∈ t.att ++ U, ∀ b ∈ t.att ++ U, a.id = b.id → a = b)
    (hm1 : ∀ c, c ∈ L1.flatten ↔ c ∈ U) (hm2 : ∀ c, c ∈ L2.flatten ↔ c ∈ U)
    (hc1 : SeqClosed t L1) (hc2 : SeqClosed t L2) :
    (∀ c ∈ U, (addSeq t L1).has c.id = true) ∧ (addSeq t L1).att.Perm (addSeq t L2).att ∧
    iter r (addSeq t L1).att = iter r (addSeq t L2).att := by
  have hst : St U t t [] := ⟨hinv, ⟨by intro u hu; rw [hun] at hu; simp at hu,
    by intro u hu; rw [hun] at hu; simp at hu, by rw [hun]; simp⟩, fun _ h => h⟩
  have hr : t.root.isSome = true := by simp [hroot]
  have huU : ∀ a ∈ U, ∀ b ∈ U, a.id = b.id → a = b :=
    fun a ha b hb => huniq a (List.mem_append.mpr (Or.inr ha)) b (List.mem_append.mpr (Or.inr hb))
  obtain ⟨a1, a2, a3⟩ := addSeq_complete U t hs huU L1 t (fun c hc => (hm1 c).mp hc) hst hr hc1
  obtain ⟨b1, b2, b3⟩ := addSeq_complete U t hs huU L2 t (fun c hc => (hm2 c).mp hc) hst hr hc2
  have mem : ∀ (t' : T), Extends U t t' → (∀ c ∈ U, t'.has c.id = true) → ∀ d, d ∈ t'.att ↔ d ∈ t.att ∨ d ∈ U := by
    intro t' he hall d
    obtain ⟨_, news, en, mn⟩ := he
    constructor
    · intro hd; rw [en] at hd
      rcases List.mem_append.mp hd with h | h
      · exact Or.inl h
      · exact Or.inr (mn d h)
    · rintro (h | h)
      · rw [en]; exact List.mem_append.mpr (Or.inl h)
      · obtain ⟨e, he', hid⟩ := List.mem_map.mp (has_iff.mp (hall d h))
        have hin : e ∈ t.att ++ U := by
          rw [en] at he'
          rcases List.mem_append.mp he' with h' | h'
          · exact List.mem_append.mpr (Or.inl h')
          · exact List.mem_append.mpr (Or.inr (mn e h'))
        have : e = d := huniq e hin d (List.mem_append.mpr (Or.inr h)) hid
        exact this ▸ he'
  have hall1 : ∀ c ∈ U, (addSeq t L1).has c.id = true := fun c hc => a1 c ((hm1 c).mpr hc)
  have hall2 : ∀ c ∈ U, (addSeq t L2).has c.id = true := fun c hc => b1 c ((hm2 c).mpr hc)
  have nd1 := (a2.inv.wf.split (addSeq t L1).att [] (by simp)).2.1
  have nd2 := (b2.inv.wf.split (addSeq t L2).att [] (by simp)).2.1
  have hperm : (addSeq t L1).att.Perm (addSeq t L2).att := by
    rw [List.perm_ext_iff_of_nodup (nodup_of_map_id nd1) (nodup_of_map_id nd2)]
    intro d; rw [mem _ a3 hall1, mem _ b3 hall2]
  exact ⟨hall1, hperm, iter_perm hperm r⟩

end AnySync.Tree
