/-
Model of the DAG core of `commonspace/object/tree/objecttree` (`tree.go`, `treeiterator.go`,
`treereduce.go`) - the part that decides in which order a tree presents and stores its changes.

Identifiers are natural numbers; the harness interns the real change ids so that the numeric order is
the *string order of the real ids* (children are kept sorted by id string in `Tree.attach`).

* `children`       : `Change.Next` - the attached changes having `x` among their previous ids, sorted by id
* `visit`/`rpo`    : `iterator.topSort` + the reversed walk of `iterate` - depth first, children pushed in
                     increasing order (so the largest is explored first), emitted in reverse post-order
* `T`, `addOne`, `attach`, `add` : `Tree.add` / `canAttachOrRemove` / `attach` with the wait-list cascade,
                     `Tree.Add` with its Append / Rebuild / Nothing verdict
* `reduce`         : `reduceTree` / `makeRootAndRemove`
* `storeInsert`    : what `updateHeads` + `Storage.AddAll` do to the stored sequence; order ids are abstract:
                     a change lacking one gets one strictly between its neighbours in the iteration
-/
namespace AnySync.Tree


structure Change where
  id     : Nat
  prevs  : List Nat
  snap   : Nat
  isSnap : Bool := false
deriving Repr, DecidableEq, Inhabited

/-! ### children, sorted by id -/

/-- insert into an increasing list, dropping duplicates -/
def ins (a : Nat) : List Nat → List Nat
  | [] => [a]
  | b :: l => if a < b then a :: b :: l else if a = b then b :: l else b :: ins a l

def sortIds (l : List Nat) : List Nat := l.foldr ins []

/-- ids of the attached changes that name `x` as a previous id, increasing (`Change.Next`) -/
def children (att : List Change) (x : Nat) : List Nat :=
  sortIds ((att.filter (fun c => c.prevs.contains x)).map (·.id))

/-! ### iteration order -/

/-- finish `x` (after everything reachable from it) in front of `acc`; `acc` doubles as the visited set.
The children are explored one after another, the largest id first. -/
def visit (ch : Nat → List Nat) : Nat → Nat → List Nat → List Nat
  | 0, _, acc => acc
  | f + 1, x, acc =>
    if acc.contains x then acc else x :: (ch x).reverse.foldl (fun a c => visit ch f c a) acc

/-- explore the given nodes one after another -/
def visitAll (ch : Nat → List Nat) (f : Nat) (cs : List Nat) (acc : List Nat) : List Nat :=
  cs.foldl (fun a c => visit ch f c a) acc

/-- reverse post-order from `root` -/
def rpo (ch : Nat → List Nat) (fuel : Nat) (root : Nat) : List Nat := visit ch fuel root []

/-- `Tree.iterate(root)`: fuel = number of attached changes + 1 always suffices for an acyclic tree -/
def iter (root : Nat) (att : List Change) : List Nat := rpo (children att) (att.length + 1) root

/-! ### the tree state and `Add` -/

inductive Mode where
  | append | rebuild | nothing
deriving Repr, DecidableEq

structure T where
  root     : Option Nat := none
  att      : List Change := []           -- attached, in attachment order (root first)
  unatt    : List Change := []           -- `unAttached`
  wait     : List (Nat × Nat) := []        -- `waitList`: (awaited id, waiting id), in insertion order
  added    : List Nat := []               -- `addedBuf`
  lastIter : Nat := 0                     -- `lastIteratedHeadId`
deriving Repr

def T.has (t : T) (id : Nat) : Bool := t.att.any (·.id == id)
def T.hasUn (t : T) (id : Nat) : Bool := t.unatt.any (·.id == id)
def T.ids (t : T) : List Nat := t.att.map (·.id)

/-- `canAttachOrRemove`: (attach, remove, wait-list additions) -/
def canAttach (t : T) (c : Change) (addToWait : Bool) : Bool × Bool × List (Nat × Nat) :=
  let missing := c.prevs.filter (fun p => !t.has p)
  -- only the root has no previous ids; any other change without them is dropped (never attached)
  if c.prevs.isEmpty then (false, true, [])
  else if !missing.isEmpty then (false, false, if addToWait then missing.map (fun p => (p, c.id)) else [])
  else if !t.has c.snap then (false, true, [])
  else (true, false, [])

/-- `attach` with the wait-list cascade; `fuel` bounds the recursion depth (≤ number of unattached) -/
def attach : Nat → T → Change → T
  | 0, t, _ => t
  | f + 1, t, c =>
    let t := { t with att := t.att ++ [c], added := t.added ++ [c.id],
                      unatt := t.unatt.filter (·.id != c.id) }
    let waiters := (t.wait.filter (·.1 == c.id)).map (·.2)
    let t := waiters.foldl (fun t w =>
      match t.unatt.find? (·.id == w) with
      | none => t
      | some n =>
        match canAttach t n false with
        | (true, _, _) => attach f t n
        | (false, true, _) => { t with unatt := t.unatt.filter (·.id != n.id) }
        | _ => t) t
    { t with wait := t.wait.filter (·.1 != c.id) }

/-- `Tree.add` for one change that is neither attached nor unattached -/
def addOne (t : T) (c : Change) : T :=
  match t.root with
  | none => { root := some c.id, att := [c], added := t.added ++ [c.id], lastIter := c.id }
  | some _ =>
    match canAttach t c true with
    | (true, _, _) => attach (t.unatt.length + 1) t c
    | (false, true, _) => t
    | (false, false, w) => { t with unatt := t.unatt ++ [c], wait := t.wait ++ w }

/-- the first loop of `Tree.Add` / `AddFast` -/
def addAll (t : T) (batch : List Change) : T :=
  batch.foldl (fun t c => if t.has c.id || t.hasUn c.id then t else addOne t c) t

/-- nodes reachable from `x` through `Next` (`dfsNext`) -/
def reach (ch : Nat → List Nat) (fuel : Nat) (x : Nat) : List Nat := visit ch fuel x []

/-- heads in iteration order and the last iterated head (`updateHeads`) -/
def headsOf (att : List Change) (it : List Nat) : List Nat :=
  it.filter (fun x => (children att x).isEmpty)

def lastOf (l : List Nat) (d : Nat) : Nat := l.getLast?.getD d

structure AddResult where
  tree  : T
  mode  : Mode
  added : List Nat
deriving Repr

/-- the tree after the first loop of `Tree.Add` and `clearUnattached` (the wait list is kept by the real code) -/
def addTree (t0 : T) (batch : List Change) : T :=
  let t := addAll { t0 with added := [] } batch
  { t with unatt := [] }

/-- the `dfsNext` check of `Tree.Add`. A batch element counts as "visited" only if it is the very object that
got attached: the first occurrence of an id that was not attached before (a second copy, or a copy of an
already attached change, is a different object whose `visited` flag is never set). -/
def appendOk (t0 t : T) (batch : List Change) : Bool :=
  let seen := reach (children t.att) (t.att.length + 1) t0.lastIter
  (List.range batch.length).all (fun i =>
    match batch[i]? with
    | none => true
    | some c =>
      if !t.has c.id then true
      else !t0.has c.id && !((batch.take i).any (·.id == c.id)) && seen.contains c.id)

/-- `Tree.Add` -/
def add (t0 : T) (batch : List Change) : AddResult :=
  let t := addTree t0 batch
  if t.added.isEmpty then ⟨{ t with added := [] }, .nothing, []⟩
  else
    match t.root with
    | none => ⟨t, .nothing, []⟩
    | some r =>
      let t' := { t with lastIter := lastOf (headsOf t.att (iter r t.att)) r }
      if t0.att.isEmpty then ⟨t', .rebuild, t.added⟩
      else ⟨t', if appendOk t0 t batch then .append else .rebuild, t.added⟩

/-! ### building from storage (`treeBuilder.build`: reopen, `rebuildFromStorage(nil, nil, nil)`) -/

/-- `treeBuilder.buildWithAdded` without new changes: take the stored sequence from the root snapshot on (the
`GetAfterOrder(snapshot.OrderId)` query, `≥`), and `AddFast` it into an empty tree: the first loaded change
becomes the root, the others are attached when their previous ids are; then `updateHeads`, `clearUnattached`. -/
def buildFromStorage (stored : List Change) (rootId : Nat) : T :=
  let loaded := stored.dropWhile (·.id != rootId)
  let t := addAll {} loaded
  match t.root with
  | none => t
  | some r => { t with unatt := [], added := [], lastIter := lastOf (headsOf t.att (iter r t.att)) r }

/-! ### reduce (`reduceTree`, `makeRootAndRemove`) -/

def findCh (att : List Change) (id : Nat) : Option Change := att.find? (·.id == id)

/-- snapshot chain `c.snap, (c.snap).snap, …` up to and including `root` (none if it leaves the tree) -/
def snapPath (att : List Change) (root : Nat) : Nat → Nat → Option (List Nat)
  | 0, _ => none
  | f + 1, s =>
    if s = root then some [root]
    else match findCh att s with
      | none => none
      | some c => (snapPath att root f c.snap).map (s :: ·)

/-- ancestors-or-equal of the given ids inside the tree (`dfsPrev`) -/
def ancestors (att : List Change) : Nat → List Nat → List Nat → List Nat
  | 0, _, acc => acc
  | _, [], acc => acc
  | f + 1, x :: stack, acc =>
    if acc.contains x then ancestors att f stack acc
    else match findCh att x with
      | none => ancestors att f stack acc
      | some c => ancestors att f (c.prevs ++ stack) (x :: acc)

/-- `makeRootAndRemove start` -/
def makeRoot (t : T) (start : Nat) : T :=
  if t.root = some start then t
  else match findCh t.att start with
    | none => t
    | some c =>
      let fuel := (t.att.map (fun c => c.prevs.length + 1)).sum + c.prevs.length + 1
      let rm := ancestors t.att fuel c.prevs []
      { t with root := some start, att := t.att.filter (fun c => !rm.contains c.id), unatt := [] }

/-- `reduceTree`; `possibleRoots` says whether any change got its snapshot counter assigned since the last
reduce (the only thing the real code uses the slice for). `heads` are sorted by id (`sort.Strings`). -/
def reduce (t : T) (possibleRoots : Bool) : T × Bool :=
  match t.root with
  | none => (t, false)
  | some r =>
    if !possibleRoots then (t, false)
    else
      let hs := sortIds (headsOf t.att (iter r t.att))
      match hs with
      | [] => (t, false)
      | h0 :: rest =>
        match findCh t.att h0 with
        | none => (t, false)
        | some first =>
          if first.isSnap && rest.isEmpty then (makeRoot t h0, true)
          else if !t.has first.snap then (t, false)
          else if rest.isEmpty then (makeRoot t first.snap, true)
          else
            match snapPath t.att r (t.att.length + 1) first.snap with
            | none => (t, false)
            | some path =>
              -- for every other head: first element of its snapshot chain lying on `path`
              let idxs := rest.map (fun h =>
                match findCh t.att h with
                | none => none
                | some hc =>
                  match snapPath t.att r (t.att.length + 1) hc.snap with
                  | none => none
                  | some p => (p.find? (fun s => path.contains s)).map (fun s => path.idxOf s))
              if idxs.any (·.isNone) then (t, false)
              else
                let maxIdx := (idxs.map (·.getD 0)).foldl max 0
                (makeRoot t (path.getD maxIdx r), true)

/-! ### stored sequence -/

/-- insert `x` right after `p` -/
def insertAfter (p x : Nat) : List Nat → List Nat
  | [] => [x]
  | a :: l => if a = p then a :: x :: l else a :: insertAfter p x l

/-- `updateHeads` + `AddAll`: walk the iteration; a change not yet stored is placed right after its
predecessor in the iteration (it receives an order id strictly between its two neighbours) -/
def storeInsert (stored : List Nat) (it : List Nat) : List Nat :=
  (it.foldl (fun (acc : List Nat × Option Nat) x =>
      if acc.1.contains x then (acc.1, some x)
      else match acc.2 with
        | none => (x :: acc.1, some x)
        | some p => (insertAfter p x acc.1, some x)) (stored, none)).1

end AnySync.Tree
