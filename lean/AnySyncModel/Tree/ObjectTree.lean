/-
Model of the `ObjectTree.AddRawChanges` decision above `Tree.Add` (`objecttree.go: addChangesToTree`,
`rebuildFromStorage`, `treebuilder.go: buildWithAdded`): the receiver side of a head update / full-sync batch.

* raw changes whose id is attached in memory are skipped;
* if some remaining change cites a snapshot that is neither the in-memory root nor a snapshot arriving in the same
  batch (`snapshotNotInTree`), the tree is rebuilt from storage: common snapshot of our snapshot path and the
  sender's (`commonSnapshotForTwoPaths`), everything stored from that snapshot on (stored order), then the new
  changes that are not stored (once per id), all through `AddFast` into an empty tree;
* otherwise the new changes go through `Tree.Add` into the in-memory tree.

Not modelled here: the reduce that follows (`FlushAfterBuild` → `Tree.reduce`), the restoration of the old root when
the heads did not change, validation (no-op in the testable tree), the `theirSnapshotPath == nil` sub-branch
(`lowestSnapshots`; honest senders always send their path), and the `ErrHasInvalidChanges` answer when a change
cites an attached non-snapshot as its snapshot.
-/
import AnySyncModel.Tree.Model
import AnySyncModel.Tree.Loader
namespace AnySync.Tree

/-- `snapshotNotInTree` -/
def snapNotInTree (t : T) (newSnaps : List Nat) (c : Change) : Bool :=
  !(t.root == some c.snap) && !newSnaps.contains c.snap

/-- keep the first change of every id (`cache` is a map keyed by id) -/
def dedupById (l : List Change) : List Change :=
  l.foldl (fun acc c => if acc.any (·.id == c.id) then acc else acc ++ [c]) []

inductive RawOutcome where
  | nothing                                   -- every change of the batch is already attached
  | plain (t : T) (added : List Nat)          -- `Tree.Add` on the in-memory tree
  | rebuilt (t : T) (added : List Nat)        -- rebuilt from storage at the common snapshot
  | noCommonSnapshot

def RawOutcome.kind : RawOutcome → String
  | .nothing => "nothing" | .plain _ _ => "plain" | .rebuilt _ _ => "rebuilt" | .noCommonSnapshot => "nocommon"

def RawOutcome.tree? : RawOutcome → Option T
  | .plain t _ | .rebuilt t _ => some t
  | _ => none

def RawOutcome.added : RawOutcome → List Nat
  | .plain _ a | .rebuilt _ a => a
  | _ => []

/-- `addChangesToTree` -/
def addRaw (stored : List Change) (ourPath theirPath : List Nat) (t : T) (batch : List Change) : RawOutcome :=
  let newCh := batch.filter (fun c => !t.has c.id)
  if newCh.isEmpty then .nothing
  else
    let newSnaps := (newCh.filter (·.isSnap)).map (·.id)
    if newCh.any (snapNotInTree t newSnaps) then
      match commonSnapshot ourPath theirPath with
      | none => .noCommonSnapshot
      | some cs =>
        let extra := dedupById (newCh.filter (fun c => !stored.any (·.id == c.id)))
        let t' := addAll {} (stored.dropWhile (·.id != cs) ++ extra)
        .rebuilt { t' with unatt := [], added := [] } ((extra.filter (fun c => t'.has c.id)).map (·.id))
    else
      let r := add t newCh
      .plain r.tree r.added

/-- the changes of a batch that are new to the receiver (not attached in memory), and those of them that are not
even stored (`cache` after the storage scan of `buildWithAdded`, one per id) -/
def newOf (t : T) (batch : List Change) : List Change := batch.filter (fun c => !t.has c.id)
def extraOf (stored : List Change) (t : T) (batch : List Change) : List Change :=
  dedupById ((newOf t batch).filter (fun c => !stored.any (·.id == c.id)))

/-! ### the receiver as a state machine (for the statement of the full receiver-side property) -/

/-- a receiver: its stored sequence (stored order), its snapshot path (in-memory root first) and its tree -/
structure Recv where
  stored : List Change
  path   : List Nat
  tree   : T

def Recv.holds (q : Recv) (id : Nat) : Bool := q.stored.any (·.id == id)

/-- an admissible storage update: the old entries in their old order, plus exactly the added changes, each stored
after its previous ids and its snapshot base (what `updateHeads` + `AddAll` do: `storage_order`) -/
def StorageUpdate (old new : List Change) (added : List Change) : Prop :=
  new.filter (fun c => old.any (·.id == c.id)) = old ∧
  (∀ c, c ∈ new ↔ c ∈ old ∨ c ∈ added) ∧ (new.map (·.id)).Nodup ∧
  ∀ l1 c l2, new = l1 ++ c :: l2 → c ∈ added →
    (∀ p ∈ c.prevs, p ∈ l1.map (·.id)) ∧ c.snap ∈ l1.map (·.id)

/-- one `AddRawChanges`: `addRaw`, then the storage update with the added changes, then the in-memory root may move to
a snapshot of the new tree (`reduceTree`), the path following it -/
def RecvStep (q : Recv) (theirPath : List Nat) (batch : List Change) (q' : Recv) : Prop :=
  match addRaw q.stored q.path theirPath q.tree batch with
  | .nothing => q' = q
  | .noCommonSnapshot => False
  | .plain t' added | .rebuilt t' added =>
    StorageUpdate q.stored q'.stored (batch.filter (fun c => added.contains c.id)) ∧
    (∀ c ∈ q'.tree.att, c ∈ t'.att) ∧ q'.tree.unatt = [] ∧ q'.tree.root = q'.path.head?

/-- a run of the receiver over the batches of an answer -/
inductive RecvRun (theirPath : List Nat) : Recv → List (List Change) → Recv → Prop
  | nil (q : Recv) : RecvRun theirPath q [] q
  | cons {q q' q'' : Recv} {b : List Change} {bs : List (List Change)} :
      RecvStep q theirPath b q' → RecvRun theirPath q' bs q'' → RecvRun theirPath q (b :: bs) q''

end AnySync.Tree
