/-
Byte-level models of the hand-written decoding logic that sits in front of peer-supplied data (C11).
Every Go slice expression / division is *checked*: where Go would panic the model returns `.panic`,
and panic-freedom is a theorem (`Props/C11.lean`), not a convention.

Modelled: `DecryptX25519` header split (util/crypto/x25519.go), `AESKey.DecryptReuse` nonce split
(aes.go), `UnmarshalEd25519PublicKey/PrivateKey` length switch (ed25519.go), `splitTopic`,
`validateSegments`, `ValidateTopic`, `ValidatePattern`, `TopicOwner` (commonspace/pubsub/topic.go),
the space-id separator slicing of `ValidateSpaceHeader` (spacepayloads/payloads.go), the nil-snapshot
access of `settingsstate.NewStateFromSnapshot`, and the wrapping arithmetic of `genTupleRanges`
(app/ldiff/hashrange.go; `getBottomRange` is stated on the ldiff area's model, see Props/C11). `readMsg` is `AnySync.Handshake.readRaw`.

Guards and constants come from `Generated/BytesConsts.lean` (regenerated from the source): if a guard
disappears from the source, the corresponding constant flips and the totality theorem fails.

Trusted / not modelled: NaCl box, AES-GCM, Edwards point decoding, CID hashing, generated protobuf
decoders, snappy.
-/
import AnySyncModel.Generated.BytesConsts

namespace AnySync.Bytes
open AnySync.Generated.Bytes

abbrev Bytes := List UInt8

inductive Out (α : Type) where
  | ok (a : α)
  | err
  | panic
deriving Repr, DecidableEq

/-- `s[:hi]` -/
def sliceTo (s : Bytes) (hi : Nat) : Option Bytes := if hi ≤ s.length then some (s.take hi) else none
/-- `s[lo:]` -/
def sliceFrom (s : Bytes) (lo : Nat) : Option Bytes := if lo ≤ s.length then some (s.drop lo) else none
/-- `s[lo:hi]` -/
def slice (s : Bytes) (lo hi : Nat) : Option Bytes :=
  if lo ≤ hi ∧ hi ≤ s.length then some ((s.take hi).drop lo) else none

/-! ### X25519 sealed box: ephemeral key ‖ box -/

/-- `DecryptX25519`: `copy(epk[:], encrypted[:32])`, `box.Open(nil, encrypted[32:], …)`.
`.ok (epk, box)` = handed to the (trusted) primitive. -/
def decryptX25519Split (enc : Bytes) : Out (Bytes × Bytes) :=
  if x25519LenGuard && decide (enc.length < x25519Header) then .err
  else match sliceTo enc x25519Header, sliceFrom enc x25519Header with
    | some epk, some box => .ok (epk, box)
    | _, _ => .panic

/-! ### AES-GCM: nonce ‖ ciphertext -/

def aesSplit (ct : Bytes) : Out (Bytes × Bytes) :=
  if aesLenGuard && decide (ct.length < nonceBytes) then .err
  else match sliceTo ct nonceBytes, sliceFrom ct nonceBytes with
    | some n, some c => .ok (n, c)
    | _, _ => .panic

/-! ### Ed25519 key decoding -/

/-- `UnmarshalEd25519PublicKey`: `.ok` = 32 bytes handed to the point decoder -/
def edPub (data : Bytes) : Out Bytes :=
  if edPubLenGuard && decide (data.length ≠ 32) then .err else .ok data

/-- `UnmarshalEd25519PrivateKey`: 96 → redundant public key must match; 64 → ok; else error -/
def edPriv (data : Bytes) : Out Bytes :=
  if data.length = 96 then
    match sliceFrom data 64, slice data 32 64, sliceTo data 64 with
    | some red, some pk, some key => if pk = red then .ok key else .err
    | _, _, _ => .panic
  else if data.length = 64 then .ok data
  else .err

/-! ### pub/sub topics -/

def slash : UInt8 := 47
def star : UInt8 := 42
def gt : UInt8 := 62
def dot : UInt8 := 46

def indexOf (c : UInt8) : Bytes → Option Nat
  | [] => none
  | x :: xs => if x = c then some 0 else (indexOf c xs).map (· + 1)

/-- the loop of `splitTopic`: `fuel` = remaining iterations of `for n < maxSegments` -/
def splitLoop : Nat → Bytes → List Bytes → Out (List Bytes)
  | 0, rest, acc => .ok (acc ++ [rest])            -- `append(tsa[:n:n], rest)`
  | fuel + 1, rest, acc =>
    match indexOf slash rest with
    | none => .ok (acc ++ [rest])
    | some idx =>
      match sliceTo rest idx, sliceFrom rest (idx + 1) with
      | some seg, some rest' => splitLoop fuel rest' (acc ++ [seg])
      | _, _ => .panic

def splitTopic (topic : Bytes) : Out (List Bytes) := splitLoop maxSegments topic []

def validateSegments (topic : Bytes) (segs : List Bytes) : Bool :=
  !(topic.length = 0 || topic.length > maxTopicLen) && !(segs.length > maxSegments) && segs.all (· ≠ [])

def hasWild (s : Bytes) : Bool := s.any (fun c => c = star || c = gt)

def validateTopic (topic : Bytes) : Out Unit :=
  match splitTopic topic with
  | .ok segs => if validateSegments topic segs && segs.all (fun s => !hasWild s) then .ok () else .err
  | .err => .err
  | .panic => .panic

/-- pattern segments: `*` anywhere, `>` only last, otherwise no wildcard characters -/
def patternSegsOk : List Bytes → Bool
  | [] => true
  | s :: rest =>
    if s = [star] then patternSegsOk rest
    else if s = [gt] then rest.isEmpty
    else !hasWild s && patternSegsOk rest

def validatePattern (p : Bytes) : Out Unit :=
  match splitTopic p with
  | .ok segs => if validateSegments p segs && patternSegsOk segs then .ok () else .err
  | .err => .err
  | .panic => .panic

def accNs : Bytes := [97, 99, 99]

/-- `TopicOwner`: `segs[0]`, `segs[len(segs)-1]` behind `len(segs) < 2` -/
def topicOwner (topic : Bytes) : Out Bytes :=
  match splitTopic topic with
  | .ok segs =>
    if segs.length < 2 then .ok []
    else match segs[0]?, segs[segs.length - 1]? with
      | some first, some last => if first = accNs then .ok last else .ok []
      | _, _ => .panic
  | .err => .err
  | .panic => .panic

/-! ### space id `cid.repkey` -/

/-- `ValidateSpaceHeader`: `sepIdx := strings.Index(id, ".")`, `id[:sepIdx]`, `id[sepIdx+1:]`;
Go's `Index` returns -1 when absent: without the guard `id[:-1]` panics. -/
def spaceIdSplit (id : Bytes) : Out (Bytes × Bytes) :=
  match indexOf dot id with
  | none => if spaceIdSepGuard then .err else .panic
  | some idx =>
    match sliceTo id idx, sliceFrom id (idx + 1) with
    | some cid, some rep => .ok (cid, rep)
    | _, _ => .panic

/-! ### settings state from the root change -/

/-- `processChange` on the root: `NewStateFromSnapshot(deleteChange.Snapshot, rootId)`; the snapshot
sub-message is optional on the wire -/
def stateFromSnapshot (snapshot : Option (List Nat)) : Out (List Nat) :=
  match snapshot with
  | some ids => .ok ids
  | none => if settingsSnapshotNilSafe then .ok [] else .panic

/-! ### snappy frame: buffer sized by the announced decoded length -/

/-- `snappyEncoding.Unmarshal`: `.ok n` = bytes the buffer is grown to before decoding -/
def snappyPrealloc (announced inputLen : Nat) : Out Nat :=
  if snappyLenGuard && decide (announced > maxSnappyExpansion * inputLen) then .err else .ok announced

/-! ### range arithmetic (uint64, wrapping) -/

def u64 (n : Nat) : Nat := n % 2 ^ 64

structure Tuple where
  lo : Nat
  hi : Nat
deriving Repr, DecidableEq

/-- the loop body of `genTupleRanges` for `i = idx … df-1` -/
def genLoop (df : Nat) (align : Nat) : Nat → Nat → Nat → Nat → List Tuple
  | 0, _, _, _ => []
  | fuel + 1, i, perRange, j =>
    let perRange' := if i = df - 1 then u64 (perRange + align) else perRange
    ⟨j, u64 (j + perRange' + 2 ^ 64 - 1)⟩ :: genLoop df align fuel (i + 1) perRange' (u64 (j + perRange'))

def genTupleRanges (lo hi : Nat) (df : Nat) : Out (List Tuple) :=
  if df = 0 then .panic   -- integer divide by zero
  else
    let w := u64 (hi + 2 ^ 64 - lo)
    let perRange := w / df
    let align := ((w % df) + 1) % df
    let perRange := if align = 0 then u64 (perRange + 1) else perRange
    .ok (genLoop df align df 0 perRange lo)

end AnySync.Bytes
