/- Totality lemmas for the byte-level model of the generated `cryptoproto.Key` decoder (C11). -/
import AnySyncModel.Bytes.KeyProto
namespace AnySync.Bytes.KeyProto
open AnySync.Bytes

/-- facts about one varint read -/
structure VarintOk (d : Bytes) (i : Nat) (r : R (Nat × Nat)) : Prop where
  noPanic : r ≠ .panic
  noFuel : r ≠ .fuel
  adv : ∀ v j, r = .ok (v, j) → i < j ∧ j ≤ d.length

theorem varint_ok (d : Bytes) (w : Nat) (f shift i acc : Nat) (hf : 71 ≤ shift + 7 * f) (h1 : 1 ≤ f) :
    VarintOk d i (varint d w f shift i acc) := by
  induction f generalizing shift i acc with
  | zero => omega
  | succ n ih =>
    unfold varint
    by_cases hs : shift ≥ 64
    · simp only [hs, if_true]; exact ⟨by simp, by simp, by intro v j h; cases h⟩
    · simp only [hs, if_false]
      by_cases hi : i ≥ d.length
      · simp only [hi, if_true]; exact ⟨by simp, by simp, by intro v j h; cases h⟩
      · simp only [hi, if_false]
        have hlt : i < d.length := by omega
        rw [List.getElem?_eq_getElem hlt]
        simp only
        by_cases hb : d[i].toNat < 128
        · simp only [hb, if_true]
          exact ⟨by simp, by simp, by intro v j h; injection h with h; injection h with _ h2; omega⟩
        · simp only [hb, if_false]
          have := ih (shift + 7) (i + 1) (acc + d[i].toNat % 128 * 2 ^ shift % 2 ^ w) (by omega) (by omega)
          exact ⟨this.noPanic, this.noFuel, by
            intro v j h; have := this.adv v j h; omega⟩

theorem readVarint_ok (d : Bytes) (w i : Nat) : VarintOk d i (readVarint d w i) :=
  varint_ok d w varintFuel 0 i 0 (by simp [varintFuel]) (by simp [varintFuel])


theorem skipValue_ok (d : Bytes) (wt i1 depth : Nat) :
    skipValue d wt i1 depth ≠ .panic ∧ skipValue d wt i1 depth ≠ .fuel ∧
    ∀ j dp, skipValue d wt i1 depth = .ok (j, dp) → i1 ≤ j := by
  unfold skipValue
  have hv := readVarint_ok d 64 i1
  by_cases h0 : wt = 0
  · rw [if_pos h0]
    cases hr : readVarint d 64 i1 with
    | ok p => obtain ⟨v, i2⟩ := p; simp only; refine ⟨by simp, by simp, ?_⟩
              intro j dp h; injection h with h; injection h with h1 _; have := hv.adv v i2 hr; omega
    | err => exact ⟨by simp, by simp, by intro j dp h; cases h⟩
    | panic => exact absurd hr hv.noPanic
    | fuel => exact absurd hr hv.noFuel
  · by_cases h1 : wt = 1
    · rw [if_neg h0, if_pos h1]
      exact ⟨by simp, by simp, by intro j dp h; injection h with h; injection h with h1 _; omega⟩
    · by_cases h2 : wt = 2
      · rw [if_neg h0, if_neg h1, if_pos h2]
        cases hr : readVarint d 64 i1 with
        | ok p =>
          obtain ⟨len, i2⟩ := p
          simp only
          have := hv.adv len i2 hr
          split
          · exact ⟨by simp, by simp, by intro j dp h; cases h⟩
          · split
            · exact ⟨by simp, by simp, by intro j dp h; cases h⟩
            · exact ⟨by simp, by simp, by intro j dp h; injection h with h; injection h with h1 _; omega⟩
        | err => exact ⟨by simp, by simp, by intro j dp h; cases h⟩
        | panic => exact absurd hr hv.noPanic
        | fuel => exact absurd hr hv.noFuel
      · by_cases h3 : wt = 3
        · rw [if_neg h0, if_neg h1, if_neg h2, if_pos h3]
          exact ⟨by simp, by simp, by intro j dp h; injection h with h; injection h with h1 _; omega⟩
        · by_cases h4 : wt = 4
          · rw [if_neg h0, if_neg h1, if_neg h2, if_neg h3, if_pos h4]
            split
            · exact ⟨by simp, by simp, by intro j dp h; cases h⟩
            · exact ⟨by simp, by simp, by intro j dp h; injection h with h; injection h with h1 _; omega⟩
          · by_cases h5 : wt = 5
            · rw [if_neg h0, if_neg h1, if_neg h2, if_neg h3, if_neg h4, if_pos h5]
              exact ⟨by simp, by simp, by intro j dp h; injection h with h; injection h with h1 _; omega⟩
            · rw [if_neg h0, if_neg h1, if_neg h2, if_neg h3, if_neg h4, if_neg h5]
              exact ⟨by simp, by simp, by intro j dp h; cases h⟩

theorem skipLoop_ok (d : Bytes) (f i depth : Nat) (hf : d.length - i < f) :
    skipLoop d f i depth ≠ .panic ∧ skipLoop d f i depth ≠ .fuel ∧
    ∀ j, skipLoop d f i depth = .ok j → i < j := by
  induction f generalizing i depth with
  | zero => omega
  | succ n ih =>
    unfold skipLoop
    by_cases hi : i ≥ d.length
    · simp only [hi, if_true]; exact ⟨by simp, by simp, by intro j h; cases h⟩
    · simp only [hi, if_false]
      have hv := readVarint_ok d 64 i
      cases hr : readVarint d 64 i with
      | err => exact ⟨by simp, by simp, by intro j h; cases h⟩
      | panic => exact absurd hr hv.noPanic
      | fuel => exact absurd hr hv.noFuel
      | ok p =>
        obtain ⟨wire, i1⟩ := p
        simp only
        have ha := hv.adv wire i1 hr
        obtain ⟨sp, sf, sa⟩ := skipValue_ok d (wire % 8) i1 depth
        cases hs : skipValue d (wire % 8) i1 depth with
        | err => exact ⟨by simp, by simp, by intro j h; cases h⟩
        | panic => exact absurd hs sp
        | fuel => exact absurd hs sf
        | ok q =>
          obtain ⟨i2, dp⟩ := q
          simp only
          have := sa i2 dp hs
          by_cases hd : dp = 0
          · simp only [hd, if_true]
            exact ⟨by simp, by simp, by intro j h; injection h with h; omega⟩
          · simp only [hd, if_false]
            obtain ⟨r1, r2, r3⟩ := ih i2 dp (by omega)
            exact ⟨r1, r2, by intro j h; have := r3 j h; omega⟩


theorem slice_some {s : Bytes} {lo hi : Nat} (h1 : lo ≤ hi) (h2 : hi ≤ s.length) :
    slice s lo hi = some ((s.take hi).drop lo) := by simp [slice, h1, h2]

theorem field_ok (d : Bytes) (m : Key) (i : Nat) :
    field d m i ≠ .panic ∧ field d m i ≠ .fuel ∧
    ∀ m' j, field d m i = .ok (m', j) → i < j ∧ j ≤ d.length := by
  unfold field
  have hv := readVarint_ok d 64 i
  cases hr : readVarint d 64 i with
  | err => exact ⟨by simp, by simp, by intro m' j h; cases h⟩
  | panic => exact absurd hr hv.noPanic
  | fuel => exact absurd hr hv.noFuel
  | ok p =>
    obtain ⟨wire, i1⟩ := p
    simp only
    have ha := hv.adv wire i1 hr
    by_cases h4 : wire % 8 = 4
    · rw [if_pos h4]; exact ⟨by simp, by simp, by intro m' j h; cases h⟩
    · rw [if_neg h4]
      by_cases hz : wire / 8 % 2 ^ 32 = 0 ∨ wire / 8 % 2 ^ 32 ≥ 2 ^ 31
      · rw [if_pos hz]; exact ⟨by simp, by simp, by intro m' j h; cases h⟩
      · rw [if_neg hz]
        by_cases hf1 : wire / 8 % 2 ^ 32 = 1
        · rw [if_pos hf1]
          by_cases hw : wire % 8 ≠ 0
          · rw [if_pos hw]; exact ⟨by simp, by simp, by intro m' j h; cases h⟩
          · rw [if_neg hw]
            have hv2 := readVarint_ok d 32 i1
            cases hr2 : readVarint d 32 i1 with
            | err => exact ⟨by simp, by simp, by intro m' j h; cases h⟩
            | panic => exact absurd hr2 hv2.noPanic
            | fuel => exact absurd hr2 hv2.noFuel
            | ok q =>
              obtain ⟨v, i2⟩ := q
              simp only
              have := hv2.adv v i2 hr2
              exact ⟨by simp, by simp, by intro m' j h; injection h with h; injection h with _ h2; omega⟩
        · rw [if_neg hf1]
          by_cases hf2 : wire / 8 % 2 ^ 32 = 2
          · rw [if_pos hf2]
            by_cases hw : wire % 8 ≠ 2
            · rw [if_pos hw]; exact ⟨by simp, by simp, by intro m' j h; cases h⟩
            · rw [if_neg hw]
              have hv2 := readVarint_ok d 64 i1
              cases hr2 : readVarint d 64 i1 with
              | err => exact ⟨by simp, by simp, by intro m' j h; cases h⟩
              | panic => exact absurd hr2 hv2.noPanic
              | fuel => exact absurd hr2 hv2.noFuel
              | ok q =>
                obtain ⟨len, i2⟩ := q
                simp only
                have := hv2.adv len i2 hr2
                split
                · exact ⟨by simp, by simp, by intro m' j h; cases h⟩
                · split
                  · exact ⟨by simp, by simp, by intro m' j h; cases h⟩
                  · split
                    · exact ⟨by simp, by simp, by intro m' j h; cases h⟩
                    · rename_i hle
                      rw [slice_some (by omega) (by omega)]
                      simp only
                      exact ⟨by simp, by simp, by intro m' j h; injection h with h; injection h with _ h2; omega⟩
          · rw [if_neg hf2]
            obtain ⟨sp, sf, sa⟩ := skipLoop_ok d (d.length + 1) i 0 (by omega)
            cases hs : skipLoop d (d.length + 1) i 0 with
            | err => exact ⟨by simp, by simp, by intro m' j h; cases h⟩
            | panic => exact absurd hs sp
            | fuel => exact absurd hs sf
            | ok j =>
              simp only
              have := sa j hs
              split
              · exact ⟨by simp, by simp, by intro m' j h; cases h⟩
              · rename_i hj
                rw [slice_some (by omega) (by omega)]
                simp only
                exact ⟨by simp, by simp, by intro m' j' h; injection h with h; injection h with _ h2; omega⟩

theorem fieldsLoop_ok (d : Bytes) (f : Nat) (m : Key) (i : Nat) (hf : d.length - i < f) :
    fieldsLoop d f m i ≠ .panic ∧ fieldsLoop d f m i ≠ .fuel := by
  induction f generalizing m i with
  | zero => omega
  | succ n ih =>
    unfold fieldsLoop
    by_cases hi : i ≥ d.length
    · rw [if_pos hi]; split <;> exact ⟨by simp, by simp⟩
    · rw [if_neg hi]
      obtain ⟨fp, ff, fa⟩ := field_ok d m i
      cases hfd : field d m i with
      | err => exact ⟨by simp, by simp⟩
      | panic => exact absurd hfd fp
      | fuel => exact absurd hfd ff
      | ok q =>
        obtain ⟨m', j⟩ := q
        simp only
        have := fa m' j hfd
        exact ih m' j (by omega)

end AnySync.Bytes.KeyProto
