/- Helper lemmas for the byte-level models (C11). -/
import AnySyncModel.Bytes.Model

namespace AnySync.Bytes
open AnySync.Generated.Bytes

theorem indexOf_lt {c : UInt8} {s : Bytes} {i : Nat} (h : indexOf c s = some i) : i < s.length := by
  induction s generalizing i with
  | nil => simp [indexOf] at h
  | cons x xs ih =>
    simp only [indexOf] at h
    split at h
    · simp at h; subst h; simp
    · cases hx : indexOf c xs with
      | none => simp [hx] at h
      | some j => simp [hx] at h; subst h; have := ih hx; simp; omega

theorem sliceTo_some {s : Bytes} {n : Nat} (h : n ≤ s.length) : sliceTo s n = some (s.take n) := by
  simp [sliceTo, h]

theorem sliceFrom_some {s : Bytes} {n : Nat} (h : n ≤ s.length) : sliceFrom s n = some (s.drop n) := by
  simp [sliceFrom, h]

theorem splitLoop_total (fuel : Nat) (rest : Bytes) (acc : List Bytes) :
    ∃ segs, splitLoop fuel rest acc = .ok segs ∧ segs.length ≤ acc.length + fuel + 1 ∧ acc.length + 1 ≤ segs.length := by
  induction fuel generalizing rest acc with
  | zero => exact ⟨_, rfl, by simp, by simp⟩
  | succ n ih =>
    unfold splitLoop
    cases hi : indexOf slash rest with
    | none => exact ⟨_, rfl, by simp, by simp⟩
    | some idx =>
      have hlt := indexOf_lt hi
      simp only [sliceTo_some (Nat.le_of_lt hlt), sliceFrom_some (Nat.succ_le_of_lt hlt)]
      obtain ⟨segs, h1, h2, h3⟩ := ih (rest.drop (idx + 1)) (acc ++ [rest.take idx])
      refine ⟨segs, h1, ?_, ?_⟩
      · simp at h2; omega
      · simp at h3; omega

theorem splitTopic_ok (topic : Bytes) :
    ∃ segs, splitTopic topic = .ok segs ∧ 1 ≤ segs.length ∧ segs.length ≤ maxSegments + 1 := by
  obtain ⟨segs, h1, h2, h3⟩ := splitLoop_total maxSegments topic []
  exact ⟨segs, h1, by simpa using h3, by simpa using h2⟩

theorem genLoop_length (df align : Nat) (fuel i p j : Nat) : (genLoop df align fuel i p j).length = fuel := by
  induction fuel generalizing i p j with
  | zero => rfl
  | succ n ih => simp [genLoop, ih]

end AnySync.Bytes
