/-
Byte-level model of a *generated* protobuf decoder: `cryptoproto.Key.UnmarshalVT`
(util/crypto/cryptoproto/crypto_vtproto.pb.go, message `Key { KeyType Type = 1; bytes Data = 2; }`)
together with `protohelpers.Skip` (unknown fields, groups) and the hand-written wrapper
`crypto.UnmarshalEd25519PublicKeyProto` (key-type switch + length check). Every `dAtA[i]` and every
slice expression is checked (`.panic` when Go would panic); loops carry explicit fuel and an
exhausted budget is its own outcome (`.fuel`), proved unreachable.

uint64 / int (64-bit, two's complement) / int32 arithmetic is rendered with explicit moduli:
`wire |= uint64(b&0x7F) << shift`, `byteLen |= int(b&0x7F) << shift` (negative ⇔ bit 63),
`m.Type |= KeyType(b&0x7F) << shift` (int32: shifts ≥ 32 contribute nothing).
-/
import AnySyncModel.Bytes.Model

namespace AnySync.Bytes.KeyProto
open AnySync.Bytes

inductive R (α : Type) where
  | ok (a : α)
  | err          -- the decoder returns an error
  | panic        -- Go would panic (index / slice out of range)
  | fuel         -- loop budget of the model exhausted (never happens: `…_fuel_ok`)
deriving Repr, DecidableEq

def two64 : Nat := 2 ^ 64
def two63 : Nat := 2 ^ 63

/-- the varint loop `for shift := uint(0); ; shift += 7 { … }`; `width` = bit width of the accumulator
(64 for uint64 / int, 32 for the int32 enum). Returns the accumulated value and the next index. -/
def varint (d : Bytes) (width : Nat) : (fuel : Nat) → (shift i acc : Nat) → R (Nat × Nat)
  | 0, _, _, _ => .fuel
  | f + 1, shift, i, acc =>
    if shift ≥ 64 then .err                      -- ErrIntOverflow
    else if i ≥ d.length then .err               -- io.ErrUnexpectedEOF
    else match d[i]? with
      | none => .panic
      | some b =>
        let acc' := acc + (b.toNat % 128) * 2 ^ shift % 2 ^ width
        if b.toNat < 128 then .ok (acc', i + 1) else varint d width f (shift + 7) (i + 1) acc'

/-- 11 iterations: shifts 0,7,…,63 and the failing check at 70 -/
def varintFuel : Nat := 11

def readVarint (d : Bytes) (width i : Nat) : R (Nat × Nat) := varint d width varintFuel 0 i 0

/-- one value inside `protohelpers.Skip`, after the tag: (index after the value, new depth) -/
def skipValue (d : Bytes) (wt i1 depth : Nat) : R (Nat × Nat) :=
  if wt = 0 then
    match readVarint d 64 i1 with        -- same loop shape, value ignored
    | .ok (_, i2) => .ok (i2, depth) | .err => .err | .panic => .panic | .fuel => .fuel
  else if wt = 1 then .ok (i1 + 8, depth)
  else if wt = 2 then
    match readVarint d 64 i1 with
    | .ok (len, i2) =>
      if len ≥ two63 then .err           -- `length < 0`
      else if i2 + len ≥ two63 then .err -- `iNdEx < 0` after the addition wrapped
      else .ok (i2 + len, depth)
    | .err => .err | .panic => .panic | .fuel => .fuel
  else if wt = 3 then .ok (i1, depth + 1)
  else if wt = 4 then (if depth = 0 then .err else .ok (i1, depth - 1))
  else if wt = 5 then .ok (i1 + 4, depth)
  else .err                              -- illegal wireType 6, 7

/-- `protohelpers.Skip(dAtA[start:])`: index after one field (with nested groups). Indexes are
absolute here; `depth` is the group nesting. -/
def skipLoop (d : Bytes) : (fuel : Nat) → (i depth : Nat) → R Nat
  | 0, _, _ => .fuel
  | f + 1, i, depth =>
    if i ≥ d.length then .err                    -- loop exit: io.ErrUnexpectedEOF
    else match readVarint d 64 i with
      | .err => .err | .panic => .panic | .fuel => .fuel
      | .ok (wire, i1) =>
        match skipValue d (wire % 8) i1 depth with
        | .err => .err | .panic => .panic | .fuel => .fuel
        | .ok (i2, depth') => if depth' = 0 then .ok i2 else skipLoop d f i2 depth'

structure Key where
  typ  : Nat       -- int32 enum value as an unsigned 32-bit pattern
  data : Bytes
deriving Repr, DecidableEq

/-- one iteration of the field loop of `Key.UnmarshalVT`: returns the message and the next index -/
def field (d : Bytes) (m : Key) (i : Nat) : R (Key × Nat) :=
  match readVarint d 64 i with
  | .err => .err | .panic => .panic | .fuel => .fuel
  | .ok (wire, i1) =>
    let fieldNum := (wire / 8) % 2 ^ 32          -- int32(wire >> 3)
    let wt := wire % 8
    if wt = 4 then .err
    else if fieldNum = 0 ∨ fieldNum ≥ 2 ^ 31 then .err   -- `fieldNum <= 0`
    else if fieldNum = 1 then
      if wt ≠ 0 then .err
      else match readVarint d 32 i1 with
        | .ok (v, i2) => .ok ({ m with typ := v }, i2)
        | .err => .err | .panic => .panic | .fuel => .fuel
    else if fieldNum = 2 then
      if wt ≠ 2 then .err
      else match readVarint d 64 i1 with
        | .ok (len, i2) =>
          if len ≥ two63 then .err               -- `byteLen < 0`
          else if i2 + len ≥ two63 then .err     -- `postIndex < 0`
          else if i2 + len > d.length then .err  -- io.ErrUnexpectedEOF
          else match slice d i2 (i2 + len) with
            | some s => .ok ({ m with data := s }, i2 + len)
            | none => .panic
        | .err => .err | .panic => .panic | .fuel => .fuel
    else
      match skipLoop d (d.length + 1) i 0 with   -- `Skip(dAtA[preIndex:])`
      | .ok j =>
        if j > d.length then .err                -- `(iNdEx + skippy) > l`
        else match slice d i j with              -- `dAtA[iNdEx:iNdEx+skippy]` kept as unknown field
          | some _ => .ok (m, j)
          | none => .panic
      | .err => .err | .panic => .panic | .fuel => .fuel

def fieldsLoop (d : Bytes) : (fuel : Nat) → Key → (i : Nat) → R Key
  | 0, _, _ => .fuel
  | f + 1, m, i =>
    if i ≥ d.length then (if i > d.length then .err else .ok m)
    else match field d m i with
      | .ok (m', i') => fieldsLoop d f m' i'
      | .err => .err | .panic => .panic | .fuel => .fuel

/-- `(&cryptoproto.Key{}).UnmarshalVT(d)` -/
def unmarshalKey (d : Bytes) : R Key := fieldsLoop d (d.length + 1) ⟨0, []⟩ 0

/-- `crypto.UnmarshalEd25519PublicKeyProto`: decode, key-type switch, length check; `.ok` = 32 bytes
handed to the point decoder -/
def unmarshalEd25519PublicKeyProto (d : Bytes) : R Bytes :=
  match unmarshalKey d with
  | .ok k =>
    if k.typ ≠ 0 then .err                       -- ErrIncorrectKeyType
    else match edPub k.data with
      | .ok b => .ok b | .err => .err | .panic => .panic
  | .err => .err | .panic => .panic | .fuel => .fuel

end AnySync.Bytes.KeyProto
