import AnySyncModel.Core.Wire
/-! line protocol for area `pubsub` (C17) — filled in with the model -/
namespace AnySync.Driver.PubSub

structure St where
  dummy : Unit := ()

def init : St := {}

def step (s : St) (_line : String) : St × String := (s, "bad-op")

end AnySync.Driver.PubSub
