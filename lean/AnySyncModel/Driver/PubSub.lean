import AnySyncModel.Core.Wire
import AnySyncModel.PubSub.Service
import AnySyncModel.PubSub.Rule
/-! line protocol for area `pubsub` (C17). Strings travel as `=<string>` tokens (`=` alone is the
empty string); a list of them is `-` when empty.

trie / topic level
  val =s                    → `t<0|1> p<0|1> owner=<o> split=<n>:<seg,seg,…>`
  tnew | tadd =p | trem =p  → `ok` | `<new 0|1> len=<n>`
  tmatch =t                 → matched patterns in trie order | `-`
  tdump                     → canonical tree
serving side (`n…`) and client side (`c…`): see `harness/areas/pubsub`.
-/
namespace AnySync.Driver.PubSub
open AnySync.PubSub AnySync.Wire

structure St where
  trie : Trie := {}
  node : NodeSt := {}
  client : ClientSt := {}
  handles : List (Nat × String × String) := []

def init : St := {}

def str? (tok : String) : Option String :=
  match tok.toList with
  | '=' :: rest => some (String.ofList rest)
  | _ => none

def strs? : List String → Option (List String)
  | [] => some []
  | ["-"] => some []
  | l => l.mapM str?

def flag? (c : Char) (tok : String) : Option Bool :=
  match tok.toList with
  | [c', '0'] => if c' = c then some false else none
  | [c', '1'] => if c' = c then some true else none
  | _ => none

def strLe (a b : String) : Bool := !(decide (b < a))

def sortStrs (l : List String) : List String := l.mergeSort strLe

def showToks (l : List String) : String :=
  if l.isEmpty then "-" else " ".intercalate (l.map ("=" ++ ·))

def quote (s : String) : String := "\"" ++ s ++ "\""

/-- canonical rendering of a trie level: children sorted by key; `fuel` bounds the depth (a path has
at most `maxSegments + 1` segments) -/
def showLevel : Nat → Level → String
  | 0, _ => "(…)"
  | fuel + 1, l =>
    let sorted := l.mergeSort (fun a b => strLe a.1 b.1)
    "(" ++ " ".intercalate (sorted.map (fun e =>
      quote e.1 ++ "#" ++ toString e.2.refs ++ "=" ++ quote e.2.pat ++ showLevel fuel e.2.kids)) ++ ")"

def showTrie (t : Trie) : String := showLevel 64 t.root

def showCode : Code → String
  | .notAMember => "NotAMember" | .notResponsible => "NotResponsible" | .rateLimited => "RateLimited"
  | .tooManyTopics => "TooManyTopics" | .invalidMessage => "InvalidMessage"
  | .topicNotOwned => "TopicNotOwned" | .invalidTopic => "InvalidTopic"

def showStatus (o : StatusObs) : String :=
  s!"{o.sid}:{showCode o.code}:{o.space}:{",".intercalate o.topics}:{if o.hasMsgId then "m" else "-"}"

def natLe (a b : Nat) : Bool := decide (a ≤ b)

def countOf (x : Nat) (l : List Nat) : Nat := (l.filter (· = x)).length

def showObs (o : Obs) : String :=
  let ids := (o.delivered.eraseDups).mergeSort natLe
  let d := ",".intercalate (ids.map (fun i => s!"{i}x{countOf i o.delivered}"))
  let f := ",".intercalate (o.forwards.map (fun b => "r" ++ showBool b))
  let st := " ".intercalate (o.statuses.map showStatus)
  s!"D[{d}] F[{f}] ST[{st}]"

def showNodeState (s : NodeSt) : String :=
  let r := sortStrs (s.remote.map (fun e => s!"={e.1}:{e.2.size}{showTrie e.2}"))
  let streams := s.streams.mergeSort (fun a b => natLe a.1 b.1)
  let sp := streams.map (fun e =>
    let by_ := sortStrs (e.2.bySpace.map (fun b => "=" ++ b.1 ++ "{" ++ ",".intercalate (sortStrs b.2) ++ "}"))
    s!"{e.1}:{e.2.account}:{e.2.total}:{"".intercalate by_}")
  let allTags := (s.pool.flatMap (·.tags)).eraseDups
  let tp := sortStrs (allTags.map (fun tag =>
    let ids := ((s.pool.filter (fun st => st.tags.contains tag)).map (·.sid)).mergeSort natLe
    tag ++ "=" ++ "+".intercalate (ids.map toString)))
  s!"R[{" ".intercalate r}] S[{" ".intercalate sp}] T[{" ".intercalate tp}]"

def showClientState (s : ClientSt) : String :=
  let parts := sortStrs (s.subs.map (fun e =>
    let ps := sortStrs (e.2.map (fun p => s!"{p.1}*{p.2.length}"))
    let tl := match alookup e.1 s.tries with | some t => t.size | none => 0
    let n := (alookup e.1 s.topics).getD 0
    s!"={e.1}:{tl}:{n}" ++ "{" ++ ",".intercalate ps ++ "}"))
  s!"L[{" ".intercalate parts}]"

def showHandlers (acct : String) (l : List Nat) : String :=
  if l.isEmpty then "-" else " ".intercalate (l.map (fun h => s!"h{h}:{acct}"))

def tsClass? : String → Option TsClass
  | "fresh" => some .fresh | "past" => some .past | "future" => some .future | "zero" => some .zero
  | _ => none

def withNode (st : St) (n : NodeSt) (o : Obs) : St × String :=
  ({ st with node := n }, showObs o ++ " | " ++ showNodeState n)

def stepTokens (st : St) : List String → Option (St × String)
  -- trie / topic level
  | ["val", s] => do
    let s ← str? s
    let segs := splitTopic s
    pure (st, s!"t{showBool (validateTopic s)} p{showBool (validatePattern s)} owner={topicOwner s} split={segs.length}:{",".intercalate segs}")
  | ["tnew"] => pure ({ st with trie := {} }, "ok")
  | ["tadd", p] => do
    let p ← str? p
    let r := st.trie.add p
    pure ({ st with trie := r.1 }, s!"{showBool r.2} len={r.1.size}")
  | ["trem", p] => do
    let p ← str? p
    let r := st.trie.remove p
    pure ({ st with trie := r.1 }, s!"{showBool r.2} len={r.1.size}")
  | ["tmatch", t] => do
    let t ← str? t
    pure (st, showToks (st.trie.matchTopic t))
  | ["tdump"] => pure (st, showTrie st.trie)
  | ["rule", p, t] => do
    let p ← str? p; let t ← str? t
    pure (st, showBool (segMatches (splitTopic p) (splitTopic t)))
  -- serving side
  | ["nnew", a, b, c] => do
    let a ← a.toNat?; let b ← b.toNat?; let c ← c.toNat?
    pure ({ st with node := { capSpace := a, capStream := b, burst := c } }, "ok")
  | ["nopen", sid, peer, ident] => do
    let sid ← sid.toNat?
    if (st.node.poolStream sid).isSome then none
    pure (withNode st (st.node.openStream sid peer ident) {})
  | ["nmember", sp, a, v] => do
    let sp ← str? sp; let v ← bool? v
    pure ({ st with node := st.node.setMember sp a v }, "ok")
  | ["nresp", sp, v] => do
    let sp ← str? sp; let v ← bool? v
    let l := st.node.notResp.filter (· ≠ sp)
    pure ({ st with node := { st.node with notResp := if v then l else l ++ [sp] } }, "ok")
  | ["nnodepeer", p, v] => do
    let v ← bool? v
    let l := st.node.nodePeers.filter (· ≠ p)
    pure ({ st with node := { st.node with nodePeers := if v then l ++ [p] else l } }, "ok")
  | "nsub" :: sid :: peer :: ident :: sp :: pats => do
    let sid ← sid.toNat?; let sp ← str? sp; let pats ← strs? pats
    let r := st.node.handleSubscribe sid peer ident sp pats
    pure (withNode st r.1 r.2)
  | "nunsub" :: sid :: sp :: pats => do
    let sid ← sid.toNat?; let sp ← str? sp; let pats ← strs? pats
    pure (withNode st (st.node.handleUnsubscribe sid sp pats) {})
  | ["npub", peer, ident, sp, topic, mident, r, l, b] => do
    let sp ← str? sp; let topic ← str? topic
    let r ← flag? 'r' r; let l ← flag? 'l' l; let b ← flag? 'b' b
    let res := st.node.handlePublish peer ident sp topic mident r l b
    pure (withNode st res.1 res.2)
  | ["nclose", sid] => do
    let sid ← sid.toNat?
    pure (withNode st (st.node.closeStream sid) {})
  | ["npoolrm", sid] => do
    -- the pool drops the stream; `onStreamClose` has not run yet (it is waiting for `remoteMu`)
    let sid ← sid.toNat?
    pure (withNode st (st.node.poolRemove sid) {})
  | ["nkill", sid] => do
    let sid ← sid.toNat?
    pure (withNode st (st.node.closeStream sid) {})
  | ["nevict", sp, a] => do
    let sp ← str? sp
    pure (withNode st (st.node.evictMember sp a) {})
  | ["nreval", sp] => do
    let sp ← str? sp
    pure (withNode st (st.node.revalidate sp) {})
  | ["nclosespace", sp] => do
    let sp ← str? sp
    pure (withNode st (st.node.closeSpace sp) {})
  -- client side
  | ["cnew", d, cap, self] => do
    let d ← d.toNat?; let cap ← cap.toNat?
    pure ({ st with client := { dedupSize := d, cap := cap, self := self }, handles := [] }, "ok")
  | ["cmember", sp, a, v] => do
    let sp ← str? sp; let v ← bool? v
    pure ({ st with client := st.client.setMember sp a v }, "ok")
  | ["csub", h, sp, p] => do
    let h ← h.toNat?; let sp ← str? sp; let p ← str? p
    let r := st.client.subscribe h sp p
    pure ({ st with client := r.1, handles := st.handles ++ [(h, sp, p)] }, r.2 ++ " " ++ showClientState r.1)
  | ["cunsub", h] => do
    let h ← h.toNat?
    let e ← st.handles.find? (·.1 = h)
    let c := st.client.unsubscribe h e.2.1 e.2.2
    pure ({ st with client := c }, showClientState c)
  | ["cclosespace", sp] => do
    let sp ← str? sp
    let c := st.client.closeSpace sp
    pure ({ st with client := c }, showClientState c)
  | ["crecv", sp, topic, claimed, v, ts, id, k] => do
    let sp ← str? sp; let topic ← str? topic
    let v ← flag? 'v' v; let ts ← tsClass? ts; let id ← id.toNat?; let k ← flag? 'k' k
    let r := st.client.receive sp topic claimed v ts id k
    pure ({ st with client := r.1 }, showHandlers claimed r.2)
  | ["cflush"] => pure ({ st with client := st.client.flush }, "ok")
  | ["cpub", sp, topic, b] => do
    let sp ← str? sp; let topic ← str? topic; let b ← flag? 'b' b
    let r := st.client.publish sp topic b
    pure ({ st with client := r.1 }, r.2.1 ++ " " ++ showHandlers st.client.self r.2.2)
  | _ => none

def step (st : St) (line : String) : St × String :=
  match stepTokens st (tokens line) with
  | some r => r
  | none => (st, "bad-op")

end AnySync.Driver.PubSub
