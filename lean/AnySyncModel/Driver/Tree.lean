import AnySyncModel.Core.Wire
import AnySyncModel.Tree.Model
import AnySyncModel.Tree.Loader
import AnySyncModel.Tree.ObjectTree
/-! line protocol for area `tree` (C06, C09); every op is self-contained (stateless)

  change  = `id/p1,p2/snap/s`   (`-` for no prevs; `s` = 1 for a snapshot; id 0 is never a change)
  schange = `id/p1,p2/size`

  iter <root> <change>…                         → `ok <ids>`
  add <root> <lastIter> | <change>… | <change>… | <awaited:waiting>… → `ok <mode> added=<ids sorted> iter=<ids> heads=<ids sorted> last=<id>`
                                                   (attached changes in any order, root first; then the batch, in order)
  reduce <root> <possibleRoots> <change>…       → `ok <root> <ids>`
  addraw <root> <ourPath ids> <theirPath ids> | <change>… | <change>… | <change>…   (attached, batch, stored sequence)
                                                → `ok nothing|plain|rebuilt|nocommon added=<ids sorted>`
  rebuild <rootId> <change>…                    → `ok <root> <ids> heads=<ids sorted> last=<id>` | `err empty`
                                                   (the whole stored sequence in stored order; build from <rootId> on)
  store <ids> <ids>                             → `ok <ids>`          (stored sequence, iteration)
  common <ids> <ids>                            → `ok <id>` | `err nocommon`
  respond <max> <ids> <schange>…                → `ok <ids>;<heads sorted> <ids>;<heads sorted> …` | `ok -`
-/
namespace AnySync.Driver.Tree
open AnySync.Tree AnySync.Wire

def parseChange (s : String) : Option Change :=
  match s.splitOn "/" with
  | [a, b, c, d] => do
    let id ← a.toNat?; let ps ← natList? b; let sn ← c.toNat?; let isS ← bool? d
    if id = 0 then none else pure ⟨id, ps, sn, isS⟩
  | _ => none

def parseSChange (s : String) : Option SChange :=
  match s.splitOn "/" with
  | [a, b, c] => do
    let id ← a.toNat?; let ps ← natList? b; let sz ← c.toNat?
    if id = 0 then none else pure ⟨id, ps, sz⟩
  | _ => none

def parsePair (s : String) : Option (Nat × Nat) :=
  match s.splitOn ":" with
  | [a, b] => do let x ← a.toNat?; let y ← b.toNat?; pure (x, y)
  | _ => none

def showMode : Mode → String
  | .append => "append" | .rebuild => "rebuild" | .nothing => "nothing"

/-- split a token list at the `|` separators -/
def sections : List String → List (List String)
  | [] => [[]]
  | t :: rest =>
    match sections rest with
    | [] => [[t]]
    | s :: ss => if t = "|" then [] :: s :: ss else (t :: s) :: ss

def showBatch (b : Batch) : String := s!"{showNats b.ids};{showNats (sortIds b.heads)}"

def step (line : String) : String :=
  match tokens line with
  | "iter" :: root :: rest =>
    match root.toNat?, rest.mapM parseChange with
    | some r, some att => s!"ok {showNats (iter r att)}"
    | _, _ => "bad-op"
  | "add" :: root :: last :: rest =>
    match root.toNat?, last.toNat?, sections rest with
    | some r, some l, [[], attS, batchS, waitS] =>
      match attS.mapM parseChange, batchS.mapM parseChange, waitS.mapM parsePair with
      | some att, some batch, some wait =>
        let t0 : T := { root := if r = 0 then none else some r, att := att, lastIter := l, wait := wait }
        let res := add t0 batch
        let it := match res.tree.root with | none => [] | some r' => iter r' res.tree.att
        -- `Nothing` returns before `updateHeads`: the heads are whatever they were (not recomputed)
        let hs := if res.mode = .nothing then [] else sortIds (headsOf res.tree.att it)
        s!"ok {showMode res.mode} added={showNats (sortIds res.added)} iter={showNats it} heads={showNats hs} last={res.tree.lastIter}"
      | _, _, _ => "bad-op"
    | _, _, _ => "bad-op"
  | "reduce" :: root :: pr :: rest =>
    match root.toNat?, bool? pr, rest.mapM parseChange with
    | some r, some p, some att =>
      let t0 : T := { root := some r, att := att, lastIter := r }
      let res := reduce t0 p
      match res.1.root with
      | some r' => s!"ok {r'} {showNats (iter r' res.1.att)}"
      | none => "bad-op"
    | _, _, _ => "bad-op"
  | "rebuild" :: root :: rest =>
    match root.toNat?, rest.mapM parseChange with
    | some r, some stored =>
      let t := buildFromStorage stored r
      match t.root with
      | some r' =>
        let it := iter r' t.att
        s!"ok {r'} {showNats it} heads={showNats (sortIds (headsOf t.att it))} last={t.lastIter}"
      | none => "err empty"
    | _, _ => "bad-op"
  | "addraw" :: root :: ours :: theirs :: rest =>
    match root.toNat?, natList? ours, natList? theirs, sections rest with
    | some r, some o, some th, [[], attS, batchS, storedS] =>
      match attS.mapM parseChange, batchS.mapM parseChange, storedS.mapM parseChange with
      | some att, some batch, some stored =>
        let t0 : T := { root := some r, att := att, lastIter := r }
        let res := addRaw stored o th t0 batch
        s!"ok {res.kind} added={showNats (sortIds res.added)}"
      | _, _, _ => "bad-op"
    | _, _, _, _ => "bad-op"
  | ["store", st, it] =>
    match natList? st, natList? it with
    | some s, some i => s!"ok {showNats (storeInsert s i)}"
    | _, _ => "bad-op"
  | ["common", a, b] =>
    match natList? a, natList? b with
    | some o, some t =>
      match commonSnapshot o t with
      | some x => s!"ok {x}"
      | none => "err nocommon"
    | _, _ => "bad-op"
  | "respond" :: mx :: hs :: rest =>
    match mx.toNat?, natList? hs, rest.mapM parseSChange with
    | some m, some h, some cache =>
      let bs := respond cache h m
      if bs.isEmpty then "ok -" else "ok " ++ " ".intercalate (bs.map showBatch)
    | _, _, _ => "bad-op"
  | _ => "bad-op"

end AnySync.Driver.Tree
