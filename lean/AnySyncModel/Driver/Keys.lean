import AnySyncModel.Core.Wire
import AnySyncModel.Keys.Model
/-! line protocol for area `keys` (C05), stateful
  reset <n>                                   → `ok`           (n accounts 0..n-1)
  root <owner> <term>                         → table
  rec <item> ; <item> ; …                     → table          (one accepted record, contents in order)
    items: enter <a> <term> | rot rm=<l> ak=<a:term,…|-> ik=<i:term,…|-> old=<term>
           | inv <i> <0/1> <term|-> | revoke <i> | drop <a> | grant <a> | nop
    terms: A<a>.<g> = aenc (acc a) (rk g), I<i>.<g> = aenc (inv i) (rk g), S<g1>.<g2> = senc (rk g1) (rk g2), J
  touch <a>  → `cache=<bits oldest first>`  (the long-lived tree of account a is touched: refresh, then report)
  peek <a>   → `cache=<bits>`               (report only)
  table: `wf=<0/1> cur=<g> mem=<l> inv=<l> keys=<a>:<bits oldest first | E>,…`
-/
namespace AnySync.Driver.Keys
open AnySync.Keys AnySync.Wire

structure DS where
  n     : Nat := 0
  ready : Bool := false
  wf    : Bool := true
  g     : G := G0 0
  views : List (Option (List Bool)) := []
  caches : List (List Nat) := []   -- per account: key cache of its long-lived tree

def init : DS := {}

def two? (s : String) : Option (Nat × Nat) :=
  match s.splitOn "." with
  | [a, b] => do let x ← a.toNat?; let y ← b.toNat?; pure (x, y)
  | _ => none

def term? (s : String) : Option Term :=
  if s = "J" ∨ s = "-" then some .junk
  else
    let body := (s.drop 1).toString
    match (s.take 1).toString with
    | "A" => (two? body).map (fun p => Term.aenc (.acc p.1) (.rk p.2))
    | "I" => (two? body).map (fun p => Term.aenc (.inv p.1) (.rk p.2))
    | "S" => (two? body).map (fun p => Term.senc (.rk p.1) (.rk p.2))
    | _ => none

def entry? (s : String) : Option (Nat × Term) :=
  match s.splitOn ":" with
  | [a, t] => do let x ← a.toNat?; let y ← term? t; pure (x, y)
  | _ => none

def entries? (s : String) : Option (List (Nat × Term)) :=
  if s = "-" then some [] else (s.splitOn ",").mapM entry?

def kv? (key s : String) : Option String :=
  if s.startsWith (key ++ "=") then some (s.drop (key.length + 1)).toString else none

def item? (toks : List String) : Option Item :=
  match toks with
  | ["enter", a, t] => do let x ← a.toNat?; let c ← term? t; pure (.enter x c)
  | ["rot", rm, ak, ik, old] => do
      let rm ← (kv? "rm" rm) >>= natList?
      let ak ← (kv? "ak" ak) >>= entries?
      let ik ← (kv? "ik" ik) >>= entries?
      let old ← (kv? "old" old) >>= term?
      pure (.rotate rm ak ik old)
  | ["inv", i, o, t] => do let x ← i.toNat?; let b ← bool? o; let c ← term? t; pure (.invite x b c)
  | ["revoke", i] => do let x ← i.toNat?; pure (.revoke x)
  | ["drop", a] => do let x ← a.toNat?; pure (.drop x)
  | ["grant", a] => do let x ← a.toNat?; pure (.grant x)
  | ["nop"] => some .nop
  | _ => none

def insertNat (x : Nat) : List Nat → List Nat
  | [] => [x]
  | y :: r => if x ≤ y then x :: y :: r else y :: insertNat x r

def sortNat (l : List Nat) : List Nat := l.foldl (fun acc x => insertNat x acc) []

def bits (hasRev : List Bool) : String :=
  String.join (hasRev.reverse.map (fun b => if b then "1" else "0"))

def table (s : DS) : String :=
  let rows := (List.range s.n).map (fun a =>
    match s.views[a]? with
    | some (some h) => s!"{a}:{bits h}"
    | _ => s!"{a}:E")
  s!"wf={showBool s.wf} cur={s.g.ngen - 1} mem={showNats (sortNat s.g.members)} inv={showNats (sortNat (s.g.invites.map (·.id)))} keys={",".intercalate rows}"

def cacheRow (s : DS) (a : Nat) : String :=
  let c := s.caches[a]?.getD []
  "cache=" ++ String.join ((List.range s.g.ngen).map (fun g => if treeDecrypts c g then "1" else "0"))

def applyItem (s : DS) (it : Item) : DS :=
  { s with
    wf := s.wf && wfItem s.g it,
    views := (List.range s.n).map (fun a =>
      match s.views[a]? with
      | some (some h) => vstep a s.g h it
      | _ => none),
    g := gstep s.g it }

def splitItems (toks : List String) : List (List String) :=
  let rec go (cur : List String) (acc : List (List String)) : List String → List (List String)
    | [] => (cur.reverse :: acc).reverse
    | ";" :: r => go [] (cur.reverse :: acc) r
    | t :: r => go (t :: cur) acc r
  go [] [] toks

def step (s : DS) (line : String) : DS × String :=
  match tokens line with
  | ["reset", n] =>
    match n.toNat? with
    | some n => ({ n := n }, "ok")
    | none => (s, "bad-op")
  | ["root", o, t] =>
    match o.toNat?, term? t with
    | some o, some c =>
      let s' : DS := { n := s.n, ready := true, wf := decide (c = rootTerm o), g := G0 o,
                       views := (List.range s.n).map (fun a => some (view0 a o)),
                       caches := (List.range s.n).map (fun a => refresh (view0 a o) []) }
      (s', table s')
    | _, _ => (s, "bad-op")
  | ["touch", a] =>
    match a.toNat? with
    | some a =>
      if !s.ready || a ≥ s.n then (s, "bad-op") else
      match s.views[a]? with
      | some (some h) =>
        let c := refresh h (s.caches[a]?.getD [])
        let s' := { s with caches := (List.range s.n).map (fun b => if b = a then c else s.caches[b]?.getD []) }
        (s', cacheRow s' a)
      | _ => (s, "cache=E")
    | none => (s, "bad-op")
  | ["peek", a] =>
    match a.toNat? with
    | some a => if !s.ready || a ≥ s.n then (s, "bad-op") else (s, cacheRow s a)
    | none => (s, "bad-op")
  | "rec" :: rest =>
    if !s.ready then (s, "bad-op") else
    match (splitItems rest).mapM item? with
    | some items =>
      let s' := items.foldl applyItem { s with wf := s.wf && recOk items }
      (s', table s')
    | none => (s, "bad-op")
  | _ => (s, "bad-op")

end AnySync.Driver.Keys
