import AnySyncModel.Core.Wire
import AnySyncModel.Store.Tx
import AnySyncModel.Store.Spec
/-! line protocol for area `store` (C10); stateful: the model keeps its own committed store in
lockstep with the real database of the current workload.

  reset                                   → `ok`
  op space-create <space> <acl> <settings>
  op tree-create <t>
  op addall <t> <heads> <cs> <changes>    heads = `a,b`; changes = `id/prevs/snap/order;…` (`-` = none,
  op deferred <t> <heads> <cs> <changes>       prevs separated by `.`)
  op acl-add <acl> <rec> <prev|-> <order>
  op addall-noerror <t> <dups> <heads> <cs> <changes>
  op tree-create-child <t> <queued 0|1>
  op tree-delete <t>                      → `<trace> | single=<0|1> batch=<0|1|->`  (the calls `traceOf` generates;
                                             batch: the AddAll input satisfies `BatchOk` w.r.t. the model's store)
  crash <k>                               → `<pre|post|same|other> <digest>` (state found after a crash just
                                             before call k of the last op; k = length: after it;
                                             `same`: the op leaves the modelled state unchanged)
  fault <k>                               → `<pre|post|other> <digest>` (durable state after call k of the last op
                                             returned an error and the error path rolled back)
  apply                                   → `<digest> consistent=<0|1>` (the last op is committed)
-/
namespace AnySync.Driver.Store
open AnySync.Store AnySync.Wire

structure St where
  store : AnySync.Store.Store := {}
  acl   : Nat := 0
  last  : Option Op := none
deriving Inhabited

def init : St := {}

def collName : Coll → String
  | .changes => "changes" | .heads => "heads" | .acl => "acl" | .state => "state"

def showIds (l : List Nat) (sep : String) : String :=
  if l.isEmpty then "-" else sep.intercalate (l.map toString)

def showCall : Call → String
  | .begin => "begin" | .commit => "commit" | .rollback => "rollback"
  | .sbegin => "sbegin" | .scommit => "scommit" | .srollback => "srollback"
  | .mkcoll c => s!"mkcoll:{collName c}"
  | .idx c => s!"idx:{collName c}"
  | .insert k _ => s!"ins:{collName k.coll}:{k.id}"
  | .upsertHeads id _ _ => s!"ups:heads:{id}"
  | .qdelTree _ => "qdel:changes"
  | .insertDup k => s!"ins:{collName k.coll}:{k.id}!err"
  | .touchHeads id => s!"ups:heads:{id}"

def showTrace (tr : List Call) : String :=
  if tr.isEmpty then "-" else " ".intercalate (tr.map showCall)

def sortStrings (l : List String) : List String := (l.toArray.qsort (· < ·)).toList

def sortNats (l : List Nat) : List Nat := (l.toArray.qsort (· < ·)).toList

def optId : Option Nat → String
  | some n => toString n | none => "_"

/-- rank of a change's order id among the stored changes of its tree -/
def orderRank (s : AnySync.Store.Store) (c : ChangeV) : Nat :=
  (s.docs.filter (fun kv => match kv.2 with
    | .change c' => c'.tree = c.tree ∧ c'.order < c.order
    | _ => false)).length

def showDoc (s : AnySync.Store.Store) (kv : Key × Val) : String :=
  match kv.2 with
  | .change c => s!"changes:{kv.1.id}@t{c.tree}/p{showIds c.prevs "."}/s{optId c.snap}/o{orderRank s c}"
  | .heads h => s!"heads:{kv.1.id}={showIds (sortNats h.heads) "."}/{optId h.cs}"
  | .record r => s!"acl:{kv.1.id}@{r.order}/{optId r.prev}"
  | .space => s!"state:{kv.1.id}"

def digest (s : AnySync.Store.Store) : String :=
  let ds := s.docs.map (showDoc s)
  let cs := s.colls.map (fun c => s!"#{collName c.1}/{c.2}")
  let all := sortStrings (cs ++ ds)
  if all.isEmpty then "empty" else ",".intercalate all

def parseIds (s : String) (sep : String) : Option (List Nat) :=
  if s = "-" ∨ s = "" then some [] else nats? (s.splitOn sep)

def parseOpt (s : String) : Option (Option Nat) :=
  if s = "-" ∨ s = "_" then some none else (s.toNat?).map some

def parseChange (t : Nat) (s : String) : Option NewChange :=
  match s.splitOn "/" with
  | [id, prevs, snap, order] => do
    let id ← id.toNat?
    let ps ← parseIds prevs "."
    let sn ← parseOpt snap
    let o ← order.toNat?
    pure ⟨id, ⟨t, ps, sn, o⟩⟩
  | _ => none

def parseChanges (t : Nat) (s : String) : Option (List NewChange) :=
  if s = "-" then some [] else (s.splitOn ";").mapM (parseChange t)

def parseOp : List String → Option Op
  | ["space-create", a, b, c] => do
    let a ← a.toNat?; let b ← b.toNat?; let c ← c.toNat?
    pure (.spaceCreate a b c)
  | ["tree-create", t] => do let t ← t.toNat?; pure (.treeCreate t)
  | ["addall", t, heads, cs, chs] => do
    let t ← t.toNat?; let hs ← parseIds heads ","; let cs ← cs.toNat?; let chs ← parseChanges t chs
    pure (.addAll t chs hs cs)
  | ["deferred", t, heads, cs, chs] => do
    let t ← t.toNat?; let hs ← parseIds heads ","; let cs ← cs.toNat?; let chs ← parseChanges t chs
    pure (.deferredAddAll t chs hs cs)
  | ["acl-add", acl, r, prev, order] => do
    let acl ← acl.toNat?; let r ← r.toNat?; let p ← parseOpt prev; let o ← order.toNat?
    pure (.aclAdd acl r ⟨p, o⟩)
  | ["tree-delete", t] => do let t ← t.toNat?; pure (.treeDelete t)
  | ["addall-noerror", t, dups, heads, cs, chs] => do
    let t ← t.toNat?; let ds ← parseIds dups ","; let hs ← parseIds heads ","; let cs ← cs.toNat?
    let chs ← parseChanges t chs
    pure (.addAllNoError t ds chs hs cs)
  | ["tree-create-child", t, q] => do let t ← t.toNat?; let q ← bool? q; pure (.treeCreateChild t q)
  | _ => none

def postOf (st : St) (op : Op) : AnySync.Store.Store := (exec (Db.idle st.store) (traceOf op)).committed

def step (st : St) (line : String) : St × String :=
  match tokens line with
  | ["reset"] => ({}, "ok")
  | "op" :: rest =>
    match parseOp rest with
    | some op =>
      let tr := traceOf op
      let acl := match op with | .spaceCreate _ a _ => a | _ => st.acl
      let batch := match op with
        | .addAll t chs hs cs => showBool (batchOkB st.store t chs hs cs)
        | .addAllNoError t _ chs hs cs => showBool (batchOkB st.store t chs hs cs)
        | .deferredAddAll t chs hs cs =>
          showBool (batchOkB (exec (Db.idle st.store) (traceOf (.treeCreate t))).committed t chs hs cs)
        | _ => "-"
      ({ st with last := some op, acl := acl },
        s!"{showTrace tr} | single={showBool (singleTxB tr)} batch={batch}")
    | none => (st, "bad-op")
  | ["crash", k] =>
    match k.toNat?, st.last with
    | some k, some op =>
      let tr := traceOf op
      if k > tr.length then (st, "bad-op") else
      let c := crashAt (Db.idle st.store) tr k
      let lab := if st.store = postOf st op ∧ c = st.store then "same"
        else if c = st.store then "pre" else if c = postOf st op then "post" else "other"
      (st, s!"{lab} {digest c}")
    | _, _ => (st, "bad-op")
  | ["fault", k] =>
    match k.toNat?, st.last with
    | some k, some op =>
      let tr := traceOf op
      if k ≥ tr.length then (st, "bad-op") else
      let c := (execFault (Db.idle st.store) tr k).committed
      let lab := if c = st.store then "pre" else if c = postOf st op then "post" else "other"
      (st, s!"{lab} {digest c}")
    | _, _ => (st, "bad-op")
  | ["apply"] =>
    match st.last with
    | some op =>
      let d := exec (Db.idle st.store) (traceOf op)
      if d.failed then (st, "err failed") else
      let s' := d.committed
      ({ st with store := s', last := none }, s!"{digest s'} consistent={showBool (consistentB s' st.acl)}")
    | none => (st, "bad-op")
  | _ => (st, "bad-op")

end AnySync.Driver.Store
