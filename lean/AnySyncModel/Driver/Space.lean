import AnySyncModel.Core.Wire
import AnySyncModel.Driver.NodeConf
import AnySyncModel.Space.Model
import AnySyncModel.Space.OneToOne
/-! line protocol for area `space` (C13)

  o2o <a> <b> <type> <mont a> <mont b>  → symbolic term of the derived space (shared secret | KDF context, sorted writers, type)
  val <mode> p=<hnil>,<hid>,<raw>,<aid>,<acl>,<aclnil>,<sid>,<set>,<setnil> <entry> …
     mode  = `full`                          → `ok` | `err:<class>`
           | `hdr:<key|->:<acl|->:<set|->`   → `ok:<needCheckSpaceId>` | `err:<class>`
     ids are hex strings (`-` = empty); byte strings are interned symbols (naturals)
     entries (what the real primitives return on the byte strings of this payload):
       h:<b>=<hex cid>                 hash
       r:<b>=<payload>,<sig>           raw wrapper decodes
       hd:<b>=<identity>,<replKey>,<version>,<acl>,<set>,<hex type>,<hdrPayload>
       ar:<b>=<identity>,<master>,<identSig>,<hex spaceId>
       st:<b>=<identity>,<hex spaceId>,<hex aclHeadId>
       o:<b>                           one-to-one info decodes
       k:<b>=<key>                     public key decodes (key = symbol of its raw form)
       v:<key>,<msg>,<sig>             signature verifies
  o2ost <myKey> <owner|-> <w,w,…|-> <entry> …   → `setOneToOneAcl` on the decoded one-to-one info, built by
     the account whose public key is <myKey> (its secret key is symbol 0; a joint secret key is named by
     its public key): `err:<class>` | `ok me=<b> keys=<joint|-> acc=<key>:<O|W>,…` (ascending keys)
     entries: k:<b>=<key> (bytes unmarshal to key)  m:<key>=<b> (key marshals to bytes)
              s:<bobKey>=<joint> (GenerateSharedKey(me, bobKey) succeeds with that joint key)
-/
namespace AnySync.Driver.Space
open AnySync.Space AnySync.Wire
open AnySync.Driver.NodeConf (unhex)

abbrev Str := List Char
abbrev Bytes := Nat

def str? (s : String) : Option Str := (unhex s).map String.toList

structure Tables where
  h : List (Nat × Str) := []
  r : List (Nat × (Nat × Nat)) := []
  hd : List (Nat × Header Nat) := []
  ar : List (Nat × AclRoot Nat Char) := []
  st : List (Nat × RootChange Nat Char) := []
  o : List Nat := []
  k : List (Nat × Nat) := []
  v : List (Nat × Nat × Nat) := []

def look {β : Type} (l : List (Nat × β)) (a : Nat) : Option β := (l.find? (·.1 = a)).map (·.2)

def world (t : Tables) : World Nat Char where
  ch c := c
  hash b := (look t.h b).getD ['?']
  decRaw b := look t.r b
  decHeader b := look t.hd b
  decAclRoot b := look t.ar b
  decRoot b := look t.st b
  decO2O b := t.o.contains b
  decKey b := look t.k b
  rawKey k := k
  verify k m s := t.v.contains (k, m, s)

def kv (s : String) : Option (String × String) :=
  match s.splitOn "=" with
  | [a, b] => some (a, b)
  | _ => none

def addEntry (t : Tables) (e : String) : Option Tables :=
  match e.splitOn ":" with
  | ["h", rest] => do
    let (a, b) ← kv rest; let a ← a.toNat?; let c ← str? b
    pure { t with h := (a, c) :: t.h }
  | ["r", rest] => do
    let (a, b) ← kv rest; let a ← a.toNat?
    match b.splitOn "," with
    | [p, s] => do let p ← p.toNat?; let s ← s.toNat?; pure { t with r := (a, (p, s)) :: t.r }
    | _ => none
  | ["hd", rest] => do
    let (a, b) ← kv rest; let a ← a.toNat?
    match b.splitOn "," with
    | [i, rk, ver, acl, set, ty, pl] => do
      let i ← i.toNat?; let rk ← rk.toNat?; let ver ← ver.toNat?; let acl ← acl.toNat?
      let set ← set.toNat?; let ty ← str? ty; let pl ← pl.toNat?
      pure { t with hd := (a, ⟨i, rk, ver, acl, set, ty, pl, 0⟩) :: t.hd }
    | _ => none
  | ["ar", rest] => do
    let (a, b) ← kv rest; let a ← a.toNat?
    match b.splitOn "," with
    | [i, m, s, sp] => do
      let i ← i.toNat?; let m ← m.toNat?; let s ← s.toNat?; let sp ← str? sp
      pure { t with ar := (a, ⟨i, m, s, sp, 0⟩) :: t.ar }
    | _ => none
  | ["st", rest] => do
    let (a, b) ← kv rest; let a ← a.toNat?
    match b.splitOn "," with
    | [i, sp, ah] => do
      let i ← i.toNat?; let sp ← str? sp; let ah ← str? ah
      pure { t with st := (a, ⟨i, sp, ah, 0⟩) :: t.st }
    | _ => none
  | ["o", a] => do let a ← a.toNat?; pure { t with o := a :: t.o }
  | ["k", rest] => do
    let (a, b) ← kv rest; let a ← a.toNat?; let b ← b.toNat?
    pure { t with k := (a, b) :: t.k }
  | ["v", rest] =>
    match rest.splitOn "," with
    | [k, m, s] => do let k ← k.toNat?; let m ← m.toNat?; let s ← s.toNat?; pure { t with v := (k, m, s) :: t.v }
    | _ => none
  | _ => none

def parseTables : List String → Tables → Option Tables
  | [], t => some t
  | e :: es, t => do let t ← addEntry t e; parseTables es t

def parsePayload (s : String) : Option (Payload Nat Char) := do
  let (a, b) ← kv s
  if a ≠ "p" then none
  match b.splitOn "," with
  | [hnil, hid, raw, aid, acl, aclnil, sid, set, setnil] => do
    let hnil ← bool? hnil; let hid ← str? hid; let raw ← raw.toNat?
    let aid ← str? aid; let acl ← acl.toNat?; let aclnil ← bool? aclnil
    let sid ← str? sid; let set ← set.toNat?; let setnil ← bool? setnil
    pure ⟨if hnil then none else some ⟨hid, raw⟩, ⟨aid, acl⟩, aclnil, ⟨sid, set⟩, setnil⟩
  | _ => none

def showErr : Err → String
  | .incorrectHeader => "err:hdr" | .incorrectCid => "err:cid" | .malformed => "err:malformed"
  | .incorrectIdentity => "err:ident" | .incorrectOneToOne => "err:o2o"

def optNat? (s : String) : Option (Option Nat) :=
  if s = "-" then some none else s.toNat?.map some

structure O2OTables where
  k : List (Nat × Nat) := []
  m : List (Nat × Nat) := []
  s : List (Nat × Nat) := []

def parseO2O : List String → O2OTables → Option O2OTables
  | [], t => some t
  | e :: es, t =>
    match e.splitOn ":" with
    | [tag, rest] =>
      match kv rest with
      | some (a, b) =>
        match a.toNat?, b.toNat? with
        | some a, some b =>
          if tag = "k" then parseO2O es { t with k := (a, b) :: t.k }
          else if tag = "m" then parseO2O es { t with m := (a, b) :: t.m }
          else if tag = "s" then parseO2O es { t with s := (a, b) :: t.s }
          else none
        | _, _ => none
      | none => none
    | _ => none

def showO2OErr : O2OErr → String
  | .count => "err:count" | .ownerEmpty => "err:owner-empty" | .key => "err:key"
  | .shared => "err:shared" | .ownerMismatch => "err:owner-mismatch"

def step (line : String) : String :=
  match tokens line with
  | "val" :: mode :: p :: entries =>
    match parsePayload p, parseTables entries {} with
    | some p, some t =>
      let W := world t
      match mode.splitOn ":" with
      | ["full"] =>
        match validate W p with
        | .ok _ => "ok"
        | .error e => showErr e
      | ["hdr", k, a, s] =>
        match optNat? k, optNat? a, optNat? s with
        | some k, some a, some s =>
          match validateHeader W p.header k a s with
          | .ok b => s!"ok:{showBool b}"
          | .error e => showErr e
        | _, _, _ => "bad-op"
      | _ => "bad-op"
    | _, _ => "bad-op"
  | "o2ost" :: myKey :: owner :: ws :: entries =>
    match myKey.toNat?, optNat? owner, parseO2O entries {},
          (if ws = "-" then some [] else (ws.splitOn ",").mapM (·.toNat?)) with
    | some myKey, some owner, some t, some ws =>
      let P : O2OPrims := {
        decKey := fun b => look t.k b
        marshal := fun k => (look t.m k).getD (k + 900000007)
        pub := fun x => if x = 0 then myKey else x
        shared := fun _ bob => look t.s bob }
      match setOneToOne P 0 ⟨owner, ws⟩ with
      | .error e => showO2OErr e
      | .ok st =>
        let ks := (st.accounts.map (·.1)).eraseDups.mergeSort (· ≤ ·)
        let acc := ks.map fun k => s!"{k}:{match lookupAcc st.accounts k with | some .owner => "O" | some .writer => "W" | none => "?"}"
        s!"ok me={showBool st.foundMe} keys={match st.keys with | some k => toString k | none => "-"} acc={",".intercalate acc}"
    | _, _, _, _ => "bad-op"
  | ["o2o", a, b, ty, ma, mb] =>
    -- symbolic one-to-one derivation: secret key n has identity n; the X25519 images of the two
    -- identities are data (`ma`, `mb`, computed by the real conversion); X25519 is the canonical
    -- commutative pairing; the answer is the term (shared secret | KDF context, writers, type),
    -- compared with the real outputs up to renaming
    match a.toNat?, b.toNat?, ty.toNat?, ma.toNat?, mb.toNat? with
    | some a, some b, some ty, some ma, some mb =>
      let mont := fun x => if x = a then ma else if x = b then mb else x + 1000003
      let D : DH := { pub := id, mont := mont,
                      dh := fun sk u => (min (mont sk) u) * 1000003 + max (mont sk) u, kdf := fun s _ => s }
      let c := oneToOneCore D a b ty
      let ctx := kdfContext D AnySync.Generated.Space.kdfContextFromIdentities (D.pub a) b
      s!"K{D.dh a (D.mont b)}|{ctx.1},{ctx.2} W{c.writers.1},{c.writers.2} T{c.ty}"
    | _, _, _, _, _ => "bad-op"
  | _ => "bad-op"

end AnySync.Driver.Space
