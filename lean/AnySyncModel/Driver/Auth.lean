import AnySyncModel.Core.Wire
import AnySyncModel.Auth.Model
import AnySyncModel.Generated.AuthShape
/-! line protocol for area `auth` (C02); stateful
  reset
  acl <rec>:<eff>/<eff>… …         eff = a<acc>=<perm> | r<acc>=<perm> | t<acc> ; `-` = no effect
  tree <raw>                        → ok | err:<enum>
  add <raw> <raw> …                 → <status> add=<ids in attach order> h=… a=… s=… sh=… br=n   (sorted sets)
                                      on the rebuildFromStorage branch: status ok|err, add= sorted, br=r
  content id=<n> acc=<a>            → like add (the local AddContent path; id = the id the real builder produced)
  aclfault <rec>                    → ok   (a refused ACL record: the local log does not change)
  reopen                            → ok | err
  validate heads=<a.b|-> <root raw> <raw> …   → ok a=… | err:<enum>      (ValidateRawTreeDefault)
  raw = id=<n>,cid=<n>,b=<n>,dec=0|1[,p=<n>,sig=S.<k>.<p>|G.<n>|N,der=0|1,idt=<acc>,acl=<rec>,prev=<a.b|->,snap=<n>,iss=0|1]
`cid` is the real content id of the bytes `b` (computed by the real hash in the harness): the
driver instantiates `H` with the table of all (b, cid) pairs it has been told.
-/
namespace AnySync.Driver.Auth
open AnySync.Auth AnySync.Wire

structure St where
  log  : Log := []
  tree : Option TreeSt := none
  cids : List (Nat × Id) := []

def cw (p : Perm) : Bool := Generated.Auth.canWritePerms.contains p
def keep : Bool := Generated.Auth.accountsAddKeepsHistory

def hOf (tbl : List (Nat × Id)) (b : Nat) : Id :=
  match tbl.find? (·.1 == b) with
  | some x => x.2
  | none => 0

def parseEffect (s : String) : Option Effect :=
  let k := s.take 1
  let rest := (s.drop 1).toString
  if k.toString = "t" then rest.toNat?.map Effect.touch
  else
    match rest.splitOn "=" with
    | [a, p] => do
      let a ← a.toNat?; let p ← p.toNat?
      if k.toString = "a" then pure (Effect.set a p) else if k.toString = "r" then pure (Effect.add a p) else none
    | _ => none

def parseRec (s : String) : Option Rec :=
  match s.splitOn ":" with
  | [i, es] => do
    let i ← i.toNat?
    let effs ← if es = "-" then some [] else (es.splitOn "/").mapM parseEffect
    pure ⟨i, effs⟩
  | _ => none

def field (kv : List (String × String)) (k : String) : Option String :=
  (kv.find? (·.1 == k)).map (·.2)

def parseSig (s : String) : Option Sig :=
  match s.splitOn "." with
  | ["N"] => some .none
  | ["G", n] => n.toNat?.map .garbage
  | ["S", k, p] => do let k ← k.toNat?; let p ← p.toNat?; pure (.sign k p)
  | _ => none

def parseIds (s : String) : Option (List Nat) :=
  if s = "-" then some [] else nats? (s.splitOn ".")

def parseRaw (s : String) : Option (Raw × Id) := do
  let kv ← (s.splitOn ",").mapM (fun f => match f.splitOn "=" with | [k, v] => some (k, v) | _ => none)
  let id ← (← field kv "id").toNat?
  let cid ← (← field kv "cid").toNat?
  let b ← (← field kv "b").toNat?
  let dec ← bool? (← field kv "dec")
  if !dec then pure (⟨id, ⟨b, none⟩⟩, cid)
  else
    let p ← (← field kv "p").toNat?
    let sg ← parseSig (← field kv "sig")
    let der ← bool? (← field kv "der")
    let idt ← (← field kv "idt").toNat?
    let acl ← (← field kv "acl").toNat?
    let prev ← parseIds (← field kv "prev")
    let snap ← (← field kv "snap").toNat?
    let iss ← bool? (← field kv "iss")
    pure (⟨id, ⟨b, some (⟨p, der, idt, acl, prev, snap, iss⟩, sg)⟩⟩, cid)

def showErr : Err → String
  | .cid => "cid" | .decode => "decode" | .sig => "sig"
  | .noRecord => "norecord" | .noAccount => "noaccount" | .noPerm => "noperm"
  | .aclOrder => "aclorder" | .aclOrderUnknown => "aclorder-unknown"
  | .invalid => "invalid" | .panic => "panic"

def showIds (l : List Nat) : String := showNats l

def post (t : TreeSt) : String :=
  s!"h={showIds (sortNats t.heads)} a={showIds (sortNats (t.attached.map (·.id)))} s={showIds (sortNats t.stored)} sh={showIds (sortNats t.storedHeads)}"

def init : St := {}

def step (st : St) (line : String) : St × String :=
  match tokens line with
  | ["reset"] => ({}, "ok")
  | "acl" :: recs =>
    match recs.mapM parseRec with
    | some l => ({ st with log := l }, "ok")
    | none => (st, "bad-op")
  | ["tree", r] =>
    match parseRaw r with
    | none => (st, "bad-op")
    | some (raw, cid) =>
      let cids := (raw.body.bytes, cid) :: st.cids
      match openTree (hOf cids) cw keep st.log raw with
      | .error e => ({ st with cids := cids, tree := none }, s!"err:{showErr e}")
      | .ok t => ({ st with cids := cids, tree := some t }, "ok")
  | "add" :: rs =>
    match st.tree, rs.mapM parseRaw with
    | some t, some raws =>
      let cids := raws.map (fun x => (x.1.body.bytes, x.2)) ++ st.cids
      let (o, added, t') := addRaw (hOf cids) cw keep st.log t (raws.map (·.1))
      -- on the rebuildFromStorage branch the real code validates in iteration order and collects the
      -- new changes from a Go map: the error kind and the order of `Added` are not compared there
      let br := takesRebuild (hOf cids) t (raws.map (·.1))
      let status := match o with
        | .ok => "ok" | .err e => (if br then "err" else showErr e) | .rebuild => "rebuild"
      let addedShown := if br then sortNats added else added
      let brs := if br then "r" else "n"
      ({ st with cids := cids, tree := some t' }, s!"{status} add={showIds addedShown} {post t'} br={brs}")
    | _, _ => (st, "bad-op")
  | "validate" :: hs :: r :: rs =>
    match (if hs.startsWith "heads=" then parseIds (hs.drop 6).toString else none), parseRaw r, rs.mapM parseRaw with
    | some heads, some (root, rcid), some raws =>
      let cids := (root.body.bytes, rcid) :: raws.map (fun x => (x.1.body.bytes, x.2)) ++ st.cids
      match validateRawTree (hOf cids) cw keep st.log root (raws.map (·.1)) heads with
      | .ok t => ({ st with cids := cids, tree := some t }, s!"ok a={showIds (sortNats (t.attached.map (·.id)))}")
      | .error (.err e) => ({ st with cids := cids }, s!"err:{showErr e}")
      | .error .headsMismatch => ({ st with cids := cids }, "err:invalid")
      | .error .derivedEmpty => ({ st with cids := cids }, "err:derived-empty")
      | .error .rebuild => ({ st with cids := cids }, "rebuild")
    | _, _, _ => (st, "bad-op")
  | ["content", i, a] =>
    match st.tree, (if i.startsWith "id=" then (i.drop 3).toString.toNat? else none),
        (if a.startsWith "acc=" then (a.drop 4).toString.toNat? else none) with
    | some t, some id, some acc =>
      let (o, added, t') := addContent cw keep st.log t id acc
      let status := match o with
        | .ok => "ok" | .err e => showErr e | .rebuild => "rebuild"
      ({ st with tree := some t' }, s!"{status} add={showIds added} {post t'}")
    | _, _, _ => (st, "bad-op")
  | ["aclfault", _] =>
    -- the receiver was offered the next record while its record storage refused the write: the
    -- record is neither stored nor applied, the local log is what it was
    (st, "ok")
  | ["reopen"] =>
    match st.tree with
    | some t => (st, if reopen cw keep st.log t then "ok" else "err")
    | none => (st, "bad-op")
  | _ => (st, "bad-op")

end AnySync.Driver.Auth
