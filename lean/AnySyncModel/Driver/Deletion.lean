import AnySyncModel.Core.Wire
import AnySyncModel.Deletion.Model
/-! line protocol for area `deletion` (C15); stateful.

  init <n> <p0,p1,…>            parent index + 1 per object, 0 = none          → `ok`
  rec <rid> <ids|-> <n|s<ids>>  declares settings record number rid              → `ok`
  put k | fetch k | fstart k | ffin | edit k | head k | run | runf | legacy k
  restart <view> | deliver <view> | del k <s|n> [<rid> <view>]
  view = `-` | `<R|A>:<start>:<root>:<seq|->`

every step answers `<result> | <per object: status adv stored mirror live> | D=<deleted ids>`
-/
namespace AnySync.Driver.Deletion
open AnySync.Deletion AnySync.Wire

def showRes : Res → String
  | .ok => "ok" | .deleted => "deleted" | .exists_ => "exists" | .noparent => "noparent"
  | .unknown => "unknown" | .already => "already" | .derived => "derived" | .notfound => "notfound"
  | .parked => "parked" | .nofetch => "nofetch" | .badstart => "badstart" | .panic => "panic"

def showObj (s : St) (k : Nat) : String :=
  let st := if s.entry k then toString (s.status k) else "-"
  let m := match s.mirror k with | 0 => "-" | 1 => "q" | _ => "d"
  st ++ showBool (s.adv k) ++ showBool (s.stored k) ++ m ++ showBool (s.live k)

def showState (s : St) : String :=
  let objs := " ".intercalate ((List.range s.n).map (showObj s))
  let d := match s.ss with | some st => showNats st.deleted | none => "-"
  s!"{objs} | D={d}"

def parseView (t : String) : Option (Option View) :=
  if t = "-" then some none else
  match t.splitOn ":" with
  | [m, st, rt, sq] => do
    let rb ← if m = "R" then some true else if m = "A" then some false else none
    let st ← st.toNat?; let rt ← rt.toNat?; let sq ← natList? sq
    pure (some ⟨rb, st, rt, sq⟩)
  | _ => none

def parseSnap (t : String) : Option (Option (List Nat)) :=
  if t = "n" then some none
  else if t.startsWith "s" then (natList? (t.drop 1).toString).map some
  else none

def showSnap : Option (List Nat) → String
  | none => "n" | some l => "s" ++ showNats l

def answer (r : St × Res) : St × String := (r.1, s!"{showRes r.2} | {showState r.1}")

def init : St := St.init 0 (fun _ => none)

def step (s : St) (line : String) : St × String :=
  match tokens line with
  | ["init", n, ps] =>
    match n.toNat?, natList? ps with
    | some n, some ps =>
      if ps.length ≠ n then (s, "bad-op") else
      (St.init n (fun k => match ps.getD k 0 with | 0 => none | p + 1 => some p), "ok")
    | _, _ => (s, "bad-op")
  | ["rec", rid, ids, snap] =>
    match rid.toNat?, natList? ids, parseSnap snap with
    | some rid, some ids, some snap =>
      if rid ≠ s.recs.length then (s, "bad-op") else ((AnySync.Deletion.step s (.record ⟨ids, snap⟩)).1, "ok")
    | _, _, _ => (s, "bad-op")
  | ["put", k] => match k.toNat? with | some k => answer (AnySync.Deletion.step s (.put k)) | none => (s, "bad-op")
  | ["fetch", k] => match k.toNat? with | some k => answer (AnySync.Deletion.step s (.fetch k)) | none => (s, "bad-op")
  | ["fstart", k] => match k.toNat? with | some k => answer (AnySync.Deletion.step s (.fstart k)) | none => (s, "bad-op")
  | ["ffin"] => answer (AnySync.Deletion.step s .ffin)
  | ["edit", k] => match k.toNat? with | some k => answer (AnySync.Deletion.step s (.edit k)) | none => (s, "bad-op")
  | ["head", k] => match k.toNat? with | some k => answer (AnySync.Deletion.step s (.head k)) | none => (s, "bad-op")
  | ["run"] => answer (AnySync.Deletion.step s .run)
  | ["runf"] => answer (AnySync.Deletion.step s .runFault)
  | ["legacy", k] => match k.toNat? with | some k => answer (AnySync.Deletion.step s (.legacy k)) | none => (s, "bad-op")
  | ["restart", v] => match parseView v with | some v => answer (AnySync.Deletion.step s (.restart v)) | none => (s, "bad-op")
  | ["crash", k, v] => match k.toNat?, parseView v with
    | some k, some v => answer (AnySync.Deletion.step s (.crash k v)) | _, _ => (s, "bad-op")
  | ["deliver", v] => match parseView v with | some v => answer (AnySync.Deletion.step s (.deliver v)) | none => (s, "bad-op")
  | ["del", k, sn] =>
    match k.toNat?, (if sn = "s" then some true else if sn = "n" then some false else none) with
    | some k, some sn =>
      let r := stepDel s k sn none
      if r.2.1 = .ok then (r.1, s!"ok {showNats r.2.2.ids} {showSnap r.2.2.snap} | {showState r.1}")
      else answer (r.1, r.2.1)
    | _, _ => (s, "bad-op")
  | ["del", k, sn, rid, v] =>
    match k.toNat?, (if sn = "s" then some true else if sn = "n" then some false else none), rid.toNat?, parseView v with
    | some k, some sn, some rid, some v =>
      if rid ≠ s.recs.length then (s, "bad-op") else
      let r := stepDel s k sn v
      if r.2.1 = .ok then (r.1, s!"ok {showNats r.2.2.ids} {showSnap r.2.2.snap} | {showState r.1}")
      else answer (r.1, r.2.1)
    | _, _, _, _ => (s, "bad-op")
  | _ => (s, "bad-op")

end AnySync.Driver.Deletion
