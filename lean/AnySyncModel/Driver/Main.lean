import AnySyncModel.Core.Wire
import AnySyncModel.Driver.App
import AnySyncModel.Driver.StreamPool
import AnySyncModel.Driver.OCache
import AnySyncModel.Driver.Deletion
import AnySyncModel.Driver.Tree
import AnySyncModel.Driver.Sync
import AnySyncModel.Driver.PubSub
import AnySyncModel.Driver.Keys
import AnySyncModel.Driver.Ldiff
import AnySyncModel.Driver.KV
import AnySyncModel.Driver.NodeConf
import AnySyncModel.Driver.Space
import AnySyncModel.Driver.Auth
import AnySyncModel.Driver.Handshake
import AnySyncModel.Driver.Bytes
import AnySyncModel.Driver.Store
import AnySyncModel.Driver.Acl
/-!
`modeld <area>`: reads one operation per line on stdin, prints exactly one line per operation.
Stateless areas expose `step : String → String`; stateful areas expose
`init : σ` and `step : σ → String → σ × String`.
-/
open AnySync

partial def loopPure (h : IO.FS.Stream) (out : IO.FS.Stream) (step : String → String) : IO Unit := do
  let line ← h.getLine
  if line.isEmpty then return ()
  out.putStrLn (step line)
  out.flush
  loopPure h out step

partial def loopState {σ : Type} (h : IO.FS.Stream) (out : IO.FS.Stream)
    (step : σ → String → σ × String) (s : σ) : IO Unit := do
  let line ← h.getLine
  if line.isEmpty then return ()
  let (s', o) := step s line
  out.putStrLn o
  out.flush
  loopState h out step s'

def main (args : List String) : IO UInt32 := do
  let stdin ← IO.getStdin
  let stdout ← IO.getStdout
  match args with
  | ["app"] => loopPure stdin stdout Driver.App.step; return 0
  | ["streampool"] => loopState stdin stdout Driver.StreamPool.step {}; return 0
  | ["ocache"] => loopState stdin stdout Driver.OCache.step Driver.OCache.init; return 0
  | ["deletion"] => loopState stdin stdout Driver.Deletion.step Driver.Deletion.init; return 0
  | ["tree"] => loopPure stdin stdout Driver.Tree.step; return 0
  | ["sync"] => loopState stdin stdout Driver.Sync.step none; return 0
  | ["pubsub"] => loopState stdin stdout Driver.PubSub.step Driver.PubSub.init; return 0
  | ["keys"] => loopState stdin stdout Driver.Keys.step Driver.Keys.init; return 0
  | ["ldiff"] => loopState stdin stdout Driver.Ldiff.step Driver.Ldiff.init; return 0
  | ["kv"] => loopState stdin stdout Driver.KV.step Driver.KV.init; return 0
  | ["nodeconf"] => loopPure stdin stdout Driver.NodeConf.step; return 0
  | ["space"] => loopPure stdin stdout Driver.Space.step; return 0
  | ["auth"] => loopState stdin stdout Driver.Auth.step Driver.Auth.init; return 0
  | ["handshake"] => loopPure stdin stdout Driver.Handshake.step; return 0
  | ["bytes"] => loopPure stdin stdout Driver.Bytes.step; return 0
  | ["store"] => loopState stdin stdout Driver.Store.step Driver.Store.init; return 0
  | ["acl"] => loopState stdin stdout Driver.Acl.step Driver.Acl.init; return 0
  | _ => IO.eprintln s!"modeld: unknown area {args}"; return 2
