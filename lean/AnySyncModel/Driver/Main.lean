import AnySyncModel.Core.Wire
import AnySyncModel.Driver.App
import AnySyncModel.Driver.Acl
/-!
`modeld <area>`: reads one operation per line on stdin, prints exactly one line per operation.
Stateless areas expose `step : String → String`; stateful areas expose
`init : σ` and `step : σ → String → σ × String`.
-/
open AnySync

partial def loopPure (h : IO.FS.Stream) (out : IO.FS.Stream) (step : String → String) : IO Unit := do
  let line ← h.getLine
  if line.isEmpty then return ()
  out.putStrLn (step line)
  out.flush
  loopPure h out step

partial def loopState {σ : Type} (h : IO.FS.Stream) (out : IO.FS.Stream)
    (step : σ → String → σ × String) (s : σ) : IO Unit := do
  let line ← h.getLine
  if line.isEmpty then return ()
  let (s', o) := step s line
  out.putStrLn o
  out.flush
  loopState h out step s'

def main (args : List String) : IO UInt32 := do
  let stdin ← IO.getStdin
  let stdout ← IO.getStdout
  match args with
  | ["app"] => loopPure stdin stdout Driver.App.step; return 0
  | ["acl"] => loopState stdin stdout Driver.Acl.step Driver.Acl.init; return 0
  | _ => IO.eprintln s!"modeld: unknown area {args}"; return 2
