import AnySyncModel.Core.Wire
import AnySyncModel.OCache.LTS
import AnySyncModel.OCache.Check
/-! line protocol for area `ocache` (C16); stateful: the model state of the current schedule.

  new                                → `ok #<digest>`
  spawn <t> <kind> <id|-> <inst|->   → `<park of t> en=<enabled threads> #<digest>`
  step  <t> <hint|->                 → same
  env   <t> <verdict> <hint|->       → same      verdict ∈ ok err ret true false tryerr tryerrf
  final                              → `closed=<b> <id>:<state>:<loadDone>:<inst|->…`

`park` is where the thread is parked after the step, in the harness's notation; `hint` is the id of
the entry `GC`/`Close` took next on the real cache (Go map iteration order).
-/
namespace AnySync.Driver.OCache
open AnySync.OCache AnySync.Wire

def showErr : Err → String
  | .closed => "closed" | .exists => "exists" | .notExists => "notexists" | .load => "load" | .tryerr => "tryerr"

def showOErr : Option Err → String
  | none => "nil" | some e => showErr e

def showRes : Res → String
  | .val i => s!"ok:i{i}" | .nilVal => "ok:nil" | .err e => s!"err:{showErr e}"
  | .okErr ok e => s!"{showBool ok}:{showOErr e}"
  | .errOnly e => showOErr e
  | .unit => "-"
  | .locked e c => s!"{showOErr e}:{showBool c}"
  | .objs l => if l.isEmpty then "objs:-" else "objs:" ++ ",".intercalate ((l.mergeSort (· ≤ ·)).map (fun i => s!"i{i}"))
  | .panic => "panic"

def showPark (s : State) (th : Thread) : String :=
  let oid := th.op.id
  let eid (r : Ref) := (s.heap r).id
  match th.pc with
  | .getLookup => s!"y:get.lookup:{oid}"
  | .getWaitClose r _ => s!"y:get.waitClose:{eid r}"
  | .waitCloseWait r _ => s!"w:waitClose.wait:{eid r}"
  | .loadBegin r => s!"y:load.begin:{eid r}"
  | .inLoad r i => s!"L:{eid r}:i{i}"
  | .loadCommit r _ _ => s!"y:load.commit:{eid r}"
  | .loadSignal r => s!"y:load.signal:{eid r}"
  | .getWaitLoad r | .pickWaitLoad r | .rmWaitLoad r => s!"w:waitLoad:{eid r}"
  | .pickLookup => s!"y:pick.lookup:{oid}"
  | .addStart => s!"y:add:{oid}"
  | .removeLookup => s!"y:remove.lookup:{oid}"
  | .removeSameLookup => s!"y:removeSame.lookup:{oid}"
  | .tryRemoveLookup => s!"y:tryRemove.lookup:{oid}"
  | .rmSetClosing r | .trySetClosing r => s!"y:setClosing:{eid r}"
  | .rmClosingWait r _ => s!"w:setClosing.wait:{eid r}"
  | .inClose _ i => s!"C:i{i}"
  | .inTry _ i => s!"T:i{i}"
  | .gcCollect => "y:gc.collect:-"
  | .closeCollect => "y:close.collect:-"
  | .doLocked => s!"y:doLocked:{oid}"
  | .forEach => "y:forEach:-"
  | .done r => "D:" ++ showRes r

def digest (s : State) : UInt64 :=
  hash (s.closed, (refs s).map s.heap, (refs s).map (inMap s), (List.range s.nInst).map s.inst,
    (List.range s.nThr).map s.thr, s.panicked, s.closeDone)

def showEnabled (s : State) : String :=
  showNats ((List.range s.nThr).filter (threadEnabled s))

/-- the invariant of `Spec.lean`, evaluated on the visited state (`inv=ok` or the failing clause) -/
def showInv (s : State) : String :=
  match invFail s with | none => "inv=ok" | some n => s!"inv={n}"

def answer (s : State) (t : Tid) : String :=
  s!"{showPark s (s.thr t)} en={showEnabled s} {showInv s} #{digest s}"

def showSt : EState → String
  | .loading => "loading" | .active => "active" | .closing => "closing" | .closed => "closed"

def showFinal (s : State) : String :=
  let es := (mapRefs s).map (fun r => s.heap r)
  let es := es.mergeSort (fun a b => a.id ≤ b.id)
  let parts := es.map (fun e =>
    let v := match e.value with | some i => s!"i{i}" | none => "-"
    s!"{e.id}:{showSt e.st}:{showBool e.loadDone}:{v}")
  s!"closed={showBool s.closed} " ++ (if parts.isEmpty then "-" else " ".intercalate parts)

def optNat? (s : String) : Option (Option Nat) :=
  if s = "-" then some none else (s.toNat?).map some

def parseOp (kind id inst : String) : Option Op := do
  let i ← optNat? id
  let x ← optNat? inst
  match kind, i with
  | "get", some i => pure (.get i)
  | "pick", some i => pure (.pick i)
  | "add", some i => pure (.add i)
  | "remove", some i => pure (.remove i)
  | "removesame", some i => pure (.removeSame i x)
  | "tryremove", some i => pure (.tryRemove i)
  | "dolocked", some i => pure (.doLocked i)
  | "gc", none => pure .gc
  | "close", none => pure .close
  | "foreach", none => pure .forEach
  | _, _ => none

def parseVerdict : String → Option Verdict
  | "ok" => some .loadOk | "err" => some .loadErr | "ret" => some .closeRet
  | "true" => some .tryTrue | "false" => some .tryFalse
  | "tryerr" => some .tryErrTrue | "tryerrf" => some .tryErrFalse
  | _ => none

def init : State := AnySync.OCache.init

def step1 (s : State) (line : String) : State × String :=
  match tokens line with
  | ["digest"] => (s, s!"- #{digest s}")
  | ["new"] => (AnySync.OCache.init, s!"ok #{digest AnySync.OCache.init}")
  | ["spawn", t, kind, id, inst] =>
    match t.toNat?, parseOp kind id inst with
    | some t, some op =>
      if t = s.nThr then let s' := spawn s op; (s', answer s' t) else (s, "bad-op")
    | _, _ => (s, "bad-op")
  | ["step", t, hint] =>
    match t.toNat?, optNat? hint with
    | some t, some h =>
      match AnySync.OCache.step s t h with
      | some s' => (s', answer s' t)
      | none => (s, "not-enabled")
    | _, _ => (s, "bad-op")
  | ["env", t, v, hint] =>
    match t.toNat?, parseVerdict v, optNat? hint with
    | some t, some v, some h =>
      match envStep s t v h with
      | some s' => (s', answer s' t)
      | none => (s, "not-enabled")
    | _, _, _ => (s, "bad-op")
  | ["final"] => (s, showFinal s)
  | _ => (s, "bad-op")

/-- `batch l1;l2;…` runs the lines in order and answers `a1;a2;…` (one round trip per schedule) -/
def step (s : State) (line : String) : State × String :=
  let line := line.trimAscii.toString
  if line.startsWith "batch " then
    let (s', outs) := ((line.drop 6).toString.splitOn ";").foldl
      (fun (acc : State × List String) l => let (s1, o) := step1 acc.1 l; (s1, o :: acc.2)) (s, [])
    (s', ";".intercalate outs.reverse)
  else step1 s line

end AnySync.Driver.OCache
