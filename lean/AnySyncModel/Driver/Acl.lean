import AnySyncModel.Core.Wire
import AnySyncModel.Acl.State
import AnySyncModel.Generated.AclFacts
import AnySyncModel.Acl.KeepBytes
/-! line protocol for area `acl` (C04, C03)
  root <owner> <hasOptions>                 → `ok <state>`   (resets the model)
  rec  <author> <prev> <content> …          → `ok <state>` | `err <enum>`   (validating list)
  recn <author> <prev> <content> …          → same, non-validating list (`ShouldValidate() = false`)
  content tokens: pc:a:p  pcs:a.p,…  own:a:p  add:a.p,…  inv:t:p:k:h  ich:r:p  irv:r
    ijn:a:r:p:sk:sa:big:h  rjn:a:r:sk:sa:big  acc:a:r:p  dec:r  can:r
    rem:a,…:md:hm:ho:a,…:k,…  rrm  rkc:md:hm:ho:a,…:k,…  opt:v  nop      (`-` = empty list)
-/
namespace AnySync.Driver.Acl
open AnySync.Acl AnySync.Wire

def cfg : Cfg :=
  ⟨Generated.AclFacts.pcRejectsNone, Generated.AclFacts.acceptRequiresJoin,
   Generated.AclFacts.acceptRequiresNoPerm, Generated.AclFacts.ownerNotGuest,
   Generated.AclFacts.oneRotationPerRecord⟩

def parsePair (s : String) : Option (Nat × Nat) :=
  match s.splitOn "." with
  | [a, b] => do let x ← a.toNat?; let y ← b.toNat?; pure (x, y)
  | _ => none

def parsePairs (s : String) : Option (List (Nat × Nat)) :=
  if s = "-" then some [] else (s.splitOn ",").mapM parsePair

def parseRkc (md hm ho accs invs : String) : Option Rkc := do
  let a ← bool? md; let b ← bool? hm; let c ← bool? ho
  let l ← natList? accs; let k ← natList? invs
  pure ⟨a, b, c, l, k⟩

def parseContent (tok : String) : Option Content :=
  match tok.splitOn ":" with
  | ["pc", a, p] => do pure (.pc (← a.toNat?) (← p.toNat?))
  | ["pcs", l] => do pure (.pcs (← parsePairs l))
  | ["own", a, p] => do pure (.own (← a.toNat?) (← p.toNat?))
  | ["add", l] => do pure (.add (← parsePairs l))
  | ["inv", t, p, k, h] => do pure (.inv (← t.toNat?) (← p.toNat?) (← k.toNat?) (← bool? h))
  | ["ich", r, p] => do pure (.ich (← r.toNat?) (← p.toNat?))
  | ["irv", r] => do pure (.irv (← r.toNat?))
  | ["ijn", a, r, p, sk, sa, big, h] => do
    pure (.ijn (← a.toNat?) (← r.toNat?) (← p.toNat?) (← sk.toNat?) (← sa.toNat?) (← bool? big) (← bool? h))
  | ["rjn", a, r, sk, sa, big] => do
    pure (.rjn (← a.toNat?) (← r.toNat?) (← sk.toNat?) (← sa.toNat?) (← bool? big))
  | ["acc", a, r, p] => do pure (.acc (← a.toNat?) (← r.toNat?) (← p.toNat?))
  | ["dec", r] => do pure (.dec (← r.toNat?))
  | ["can", r] => do pure (.can (← r.toNat?))
  | ["rem", l, md, hm, ho, accs, invs] => do pure (.rem (← natList? l) (← parseRkc md hm ho accs invs))
  | ["rrm"] => some .rrm
  | ["rkc", md, hm, ho, accs, invs] => do pure (.rkc (← parseRkc md hm ho accs invs))
  | ["opt", x] => do pure (.opt (← x.toNat?))
  | ["nop"] => some .nop
  | _ => none

def parseContents : List String → Option (List Content)
  | ["-"] => some []
  | l => l.mapM parseContent

def showErr : Err → String
  | .nosuchaccount => "nosuchaccount" | .pending => "pending" | .badident => "badident"
  | .nomdkey => "nomdkey" | .nosuchreq => "nosuchreq" | .nosuchinv => "nosuchinv" | .perm => "perm"
  | .isowner => "isowner" | .numacc => "numacc" | .dup => "dup" | .readkey => "readkey"
  | .sig => "sig" | .seq => "seq" | .metaBig => "meta" | .badkey => "badkey" | .panic => "panic"
  | .rkcTwice => "rkcalone"

def join (sep : String) (l : List String) : String := sep.intercalate l

def showOptNat : Option Nat → String
  | some n => toString n
  | none => "-1"

def showHist (h : List (Nat × Nat)) : String :=
  if h.isEmpty then "-" else join ";" (h.map fun p => s!"{p.1}.{p.2}")

def insertSorted (x : Nat) : List Nat → List Nat
  | [] => [x]
  | y :: t => if x < y then x :: y :: t else if x = y then y :: t else y :: insertSorted x t

def sortDedup (l : List Nat) : List Nat := l.foldl (fun acc x => insertSorted x acc) []

def showState (s : State) : String :=
  let accs := join "," (s.accounts.map fun p =>
    s!"{p.1}:{p.2.perm}:{p.2.status}:{showOptNat p.2.keyRec}:{showHist p.2.hist}")
  let invs := join "," (s.invites.map fun p => s!"{p.1}:{p.2.typ}:{p.2.perm}:{p.2.key}")
  let reqs := join "," (s.requests.map fun p => s!"{p.1}:{p.2.acc}:{p.2.typ}")
  let pend := join "," (s.pending.map fun p => s!"{p.1}:{p.2}")
  let opt := match s.opts.getLast? with | some o => toString o.2 | none => "-"
  s!"h={s.last} A[{accs}] I[{invs}] R[{reqs}] P[{pend}] K[{showNats (sortDedup s.keys)}] cur={s.curKey} O={opt}"

/-- reduced observation used for the non-validating stream: only what the real code exposes through
lookups by key (zero-valued map entries have no usable PubKey / Id field to print) -/
def showStateNV (s : State) : String :=
  let perms := showNats ((List.range 8).map s.perm)
  let pend := join "," ((List.range 8).map fun a => match s.pending.find? a with | some r => toString r | none => "-")
  let opt := match s.opts.getLast? with | some o => toString o.2 | none => "-"
  s!"h={s.last} perms={perms} pend={pend} ninv={s.invites.length} nreq={s.requests.length} K[{showNats (sortDedup s.keys)}] cur={s.curKey} O={opt}"

/-! ### byte-level partial decode (`keep`, `keepfull`) -/
open AnySync.Acl.Keep in
def hexVal (c : Char) : Option Nat :=
  if '0' ≤ c ∧ c ≤ '9' then some (c.toNat - '0'.toNat)
  else if 'a' ≤ c ∧ c ≤ 'f' then some (c.toNat - 'a'.toNat + 10)
  else none

def parseHexAux : List Char → Option (List Nat)
  | [] => some []
  | [_] => none
  | a :: b :: rest => do
    let x ← hexVal a; let y ← hexVal b; let t ← parseHexAux rest
    pure ((16 * x + y) :: t)

def parseHex (s : String) : Option (List Nat) := if s = "-" then some [] else parseHexAux s.toList

def hexDigit (n : Nat) : Char := if n < 10 then Char.ofNat (n + '0'.toNat) else Char.ofNat (n - 10 + 'a'.toNat)

def showHex (b : List Nat) : String :=
  if b.isEmpty then "-" else String.ofList (b.flatMap fun x => [hexDigit (x / 16), hexDigit (x % 16)])

def showErks (l : List Keep.ERK) : String :=
  if l.isEmpty then "-" else join "," (l.map fun e => showHex e.identity ++ "/" ++ showHex e.key)

def showRkc (k : Keep.RKC) : String :=
  s!"ak={showErks k.accountKeys};md={showHex k.mdPub};em={showHex k.encMeta};old={showHex k.encOld};ik={showErks k.inviteKeys}"

def showCnt : Keep.Cnt → String
  | .rkc k => "rkc(" ++ showRkc k ++ ")"
  | .rem ids k =>
    let idl := if ids.isEmpty then "-" else join "," (ids.map showHex)
    "rem(" ++ idl ++ "|" ++ (match k with | some k => showRkc k | none => "nil") ++ ")"
  | .other => "other"

def showCnts (l : List Keep.Cnt) : String := if l.isEmpty then "empty" else join " " (l.map showCnt)

def keepOp (ours data : String) : String :=
  match parseHex ours, parseHex data with
  | some o, some d =>
    match Keep.fast (fun b => b == o) d with
    | .ok l => "ok " ++ showCnts l
    | .bail => "bail" | .panic => "panic" | .hang => "hang"
  | _, _ => "bad-op"

def keepFullOp (ours data : String) : String :=
  match parseHex ours, parseHex data with
  | some o, some d =>
    match Keep.fullDecodeFilter (fun _ _ => true) (fun b => b == o) d with
    | some l => "ok " ++ showCnts l
    | none => "err"
  | _, _ => "bad-op"

abbrev St := Option State

def init : St := none

def doRec (v : Bool) (st : St) (a p : String) (rest : List String) : St × String :=
  match st, a.toNat?, p.toNat?, parseContents rest with
  | some s, some author, some prev, some cs =>
    match applyRecord cfg v s (s.last + 1) ⟨author, prev, cs⟩ with
    | .ok s' => (some s', "ok " ++ (if v then showState s' else showStateNV s'))
    | .error e => (some s, "err " ++ showErr e)
  | _, _, _, _ => (st, "bad-op")

def step1 (st : St) (toks : List String) : St × String :=
  match toks with
  | ["root", o, h] =>
    match o.toNat?, bool? h with
    | some owner, some hasOpt =>
      let s := applyRoot owner (if hasOpt then some 1 else none)
      (some s, "ok " ++ showState s)
    | _, _ => (st, "bad-op")
  | ["rootn", o, h] =>
    match o.toNat?, bool? h with
    | some owner, some hasOpt =>
      let s := applyRoot owner (if hasOpt then some 1 else none)
      (some s, "ok " ++ showStateNV s)
    | _, _ => (st, "bad-op")
  | ["keep", o, d] => (st, keepOp o d)
  | ["keepfull", o, d] => (st, keepFullOp o d)
  | "rec" :: a :: p :: rest => doRec true st a p rest
  | "recn" :: a :: p :: rest => doRec false st a p rest
  | _ => (st, "bad-op")

/-- split a token list at the separator token `|` -/
def splitBar : List String → List String → List (List String) → List (List String)
  | [], cur, acc => (cur.reverse :: acc).reverse
  | t :: rest, cur, acc => if t = "|" then splitBar rest [] (cur.reverse :: acc) else splitBar rest (t :: cur) acc

/-- one line = one op, or `walk <op> | <op> | …` = a whole history in one round trip (answers are
joined by ` | `); the latter only saves pipe latency. -/
def step (st : St) (line : String) : St × String :=
  match tokens line with
  | "walk" :: rest =>
    let (st', outs) := (splitBar rest [] []).foldl
      (fun (acc : St × List String) op => let (s', o) := step1 acc.1 op; (s', o :: acc.2)) (st, [])
    (st', " | ".intercalate outs.reverse)
  | toks => step1 st toks

end AnySync.Driver.Acl
