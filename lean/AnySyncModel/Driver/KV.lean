import AnySyncModel.Core.Wire
import AnySyncModel.KV.Model
/-! line protocol for area `kv` (C12); stateful: a table of stores.
  new  <store>                                   → `ok`
  raw  <store> <fault> <val>*                    → `<res> st=… ix=… adv=<0|1>`
  set  <store> <fault> <own:0|1> <val>           → same
  exch <storeA> <storeB> <fault>                 → `st=… ix=… adv=… | st=… ix=… adv=…` (A then B; the fault hits the server's write)
  val   = vid:slot:innerSlot:ts:DIPKW   (five flag characters 0/1: decodes, idSig, peerSig, aclKnown, canWrite)
  fault = none | begin | find.<k> | upsert.<k> | head | commit
  res   = ok:<vid,…|-> | err | perm
  st    = slot:ts:vid,… sorted by slot (or `-`);  ix = slot:head,… sorted by slot (or `-`)
-/
namespace AnySync.Driver.KV
open AnySync.KV AnySync.Wire

def int? (s : String) : Option Int :=
  if s.startsWith "-" then (s.drop 1).toNat?.map (fun n => - (n : Int)) else s.toNat?.map (fun n => (n : Int))

def flags? (s : String) : Option (List Bool) := (s.toList.map (fun c => bool? c.toString)).mapM id

def parseVal (s : String) : Option Val :=
  match s.splitOn ":" with
  | [a, b, c, d, e] => do
    let vid ← a.toNat?; let slot ← b.toNat?; let isl ← c.toNat?; let ts ← int? d
    match ← flags? e with
    | [f1, f2, f3, f4, f5] => pure ⟨vid, slot, isl, ts, f1, f2, f3, f4, f5⟩
    | _ => none
  | _ => none

def parseFault (s : String) : Option Fault :=
  match s.splitOn "." with
  | ["none"] => some .none
  | ["begin"] => some .begin
  | ["head"] => some .head
  | ["commit"] => some .commit
  | ["find", k] => k.toNat?.map .find
  | ["upsert", k] => k.toNat?.map .upsert
  | _ => none

def sortBy {α : Type} (key : α → Nat) (l : List α) : List α := l.mergeSort (fun a b => key a ≤ key b)

def showList (l : List String) : String := if l.isEmpty then "-" else ",".intercalate l

def showStore (st : Store) : String :=
  showList ((sortBy (·.1) st).map (fun e => s!"{e.1}:{e.2.ts}:{e.2.vid}"))

def showIndex (ix : Index) : String :=
  showList ((sortBy (·.1) ix).map (fun e => s!"{e.1}:{e.2}"))

def showState (s : State) : String :=
  s!"st={showStore s.store} ix={showIndex s.index} adv={showBool (sortBy (·.1) s.adv == sortBy (·.1) s.index)}"

def showRes : Res → String
  | .ok l => s!"ok:{showNats l}"
  | .err => "err"
  | .perm => "perm"

abbrev Table := List (Nat × State)

def init : Table := []

def step (t : Table) (line : String) : Table × String :=
  match tokens line with
  | ["new", sid] =>
    match sid.toNat? with
    | some n => (upsert t n State.init, "ok")
    | none => (t, "bad-op")
  | "raw" :: sid :: f :: vals =>
    match sid.toNat?, parseFault f, vals.mapM parseVal with
    | some n, some f, some vs =>
      match lookup t n with
      | some s => let r := setRaw f vs s; (upsert t n r.1, s!"{showRes r.2} {showState r.1}")
      | none => (t, "bad-op")
    | _, _, _ => (t, "bad-op")
  | ["set", sid, f, own, v] =>
    match sid.toNat?, parseFault f, bool? own, parseVal v with
    | some n, some f, some own, some v =>
      match lookup t n with
      | some s => let r := localSet f own v s; (upsert t n r.1, s!"{showRes r.2} {showState r.1}")
      | none => (t, "bad-op")
    | _, _, _, _ => (t, "bad-op")
  | ["exch", a, b, fb] =>
    match a.toNat?, b.toNat?, parseFault fb with
    | some a, some b, some fb =>
      if a = b then (t, "bad-op") else
      match lookup t a, lookup t b with
      | some sa, some sb =>
        let r := exchangeF fb sa sb
        (upsert (upsert t a r.1) b r.2, s!"{showState r.1} | {showState r.2}")
      | _, _ => (t, "bad-op")
    | _, _, _ => (t, "bad-op")
  | _ => (t, "bad-op")

end AnySync.Driver.KV
