import AnySyncModel.Core.Wire
import AnySyncModel.Bytes.Model
import AnySyncModel.Bytes.KeyProto
/-! line protocol for area `bytes` (C11): classification of the modelled byte-level logic

  x25519 <len>        → err | crypto | panic        (crypto = handed to the trusted primitive)
  aes <len>           → err | crypto | panic
  edpub <len>         → err | crypto | panic
  edpriv <len> <0|1>  → ok | err | panic            (second arg: for len 96, redundant key matches)
  topic <text|->      → topic=<ok|err> pattern=<ok|err> owner=<text|->
  spaceid <text>      → err | cid | panic
  snapshot <0|1>      → ok | panic
  ranges <lo> <hi> <df> → <lo:hi,…> | panic
  keyproto <hex|->    → key=<ok:<type>:<len>|err|panic|fuel> ed=<crypto|err|panic|fuel>
-/
namespace AnySync.Driver.Bytes
open AnySync.Bytes AnySync.Wire

def zeros (n : Nat) : Bytes := List.replicate n 0

def cls {α} (crypto : String) : Out α → String
  | .ok _ => crypto
  | .err => "err"
  | .panic => "panic"

def textBytes (s : String) : Bytes := if s = "-" then [] else s.toUTF8.toList

def showText (b : Bytes) : String :=
  if b.isEmpty then "-" else String.mk (b.map (fun c => Char.ofNat c.toNat))

def hexVal (c : Char) : Option Nat :=
  if '0' ≤ c ∧ c ≤ '9' then some (c.toNat - '0'.toNat)
  else if 'a' ≤ c ∧ c ≤ 'f' then some (c.toNat - 'a'.toNat + 10)
  else none

def hexBytes : List Char → Option Bytes
  | [] => some []
  | [_] => none
  | a :: b :: rest => do
    let x ← hexVal a; let y ← hexVal b
    let r ← hexBytes rest
    pure (UInt8.ofNat (16 * x + y) :: r)

def keyproto (d : Bytes) : String :=
  let k := match KeyProto.unmarshalKey d with
    | .ok k => s!"ok:{k.typ}:{k.data.length}" | .err => "err" | .panic => "panic" | .fuel => "fuel"
  let e := match KeyProto.unmarshalEd25519PublicKeyProto d with
    | .ok _ => "crypto" | .err => "err" | .panic => "panic" | .fuel => "fuel"
  s!"key={k} ed={e}"

def step (line : String) : String :=
  match tokens line with
  | ["x25519", n] => match n.toNat? with | some n => cls "crypto" (decryptX25519Split (zeros n)) | none => "bad-op"
  | ["aes", n] => match n.toNat? with | some n => cls "crypto" (aesSplit (zeros n)) | none => "bad-op"
  | ["edpub", n] => match n.toNat? with | some n => cls "crypto" (edPub (zeros n)) | none => "bad-op"
  | ["edpriv", n, r] =>
    match n.toNat?, bool? r with
    | some n, some r =>
      -- a key whose redundant part matches (all zero) or not (last byte differs)
      let data := if r || n = 0 then zeros n else (zeros (n - 1)) ++ [1]
      cls "ok" (edPriv data)
    | _, _ => "bad-op"
  | ["topic", t] =>
    let b := textBytes t
    let owner := match topicOwner b with | .ok o => showText o | .err => "err" | .panic => "panic"
    s!"topic={cls "ok" (validateTopic b)} pattern={cls "ok" (validatePattern b)} owner={owner}"
  | ["spaceid", t] => cls "cid" (spaceIdSplit (textBytes t))
  | ["snapshot", p] =>
    match bool? p with
    | some p => cls "ok" (stateFromSnapshot (if p then some [] else none))
    | none => "bad-op"
  | ["keyproto", h] =>
    match (if h = "-" then some [] else hexBytes h.toList) with
    | some d => keyproto d
    | none => "bad-op"
  | ["ranges", lo, hi, df] =>
    match lo.toNat?, hi.toNat?, df.toNat? with
    | some lo, some hi, some df =>
      if lo ≥ 2 ^ 64 ∨ hi ≥ 2 ^ 64 then "bad-op" else
      match genTupleRanges lo hi df with
      | .ok l => if l.isEmpty then "-" else ",".intercalate (l.map fun t => s!"{t.lo}:{t.hi}")
      | .err => "err"
      | .panic => "panic"
    | _, _, _ => "bad-op"
  | _ => "bad-op"

end AnySync.Driver.Bytes
