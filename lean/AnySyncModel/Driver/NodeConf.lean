import AnySyncModel.Core.Wire
import AnySyncModel.NodeConf.Model
/-! line protocol for area `nodeconf` (C18)
  replkey <hex id>                        → `<hex key>`            (`-` = empty string)
  sync <id:types,…>                       → sorted ids of the nodes put on the sync ring
  q <self> <hex id> <hexkey>=<part>:<m,…>;…  → `<partition> <nodeIds> <isResponsible>`
     the table is the participant's REAL ring (GetPartition / GetMembers) for several candidate keys;
     the model chooses the key (`replKey`), looks it up, and runs the `NodeIds` / `IsResponsible` loops.
-/
namespace AnySync.Driver.NodeConf
open AnySync.NodeConf AnySync.Wire

def hexVal (c : Char) : Option Nat :=
  if '0' ≤ c ∧ c ≤ '9' then some (c.toNat - '0'.toNat)
  else if 'a' ≤ c ∧ c ≤ 'f' then some (c.toNat - 'a'.toNat + 10)
  else none

def unhexL : List Char → Option (List Char)
  | [] => some []
  | [_] => none
  | a :: b :: rest => do
    let x ← hexVal a; let y ← hexVal b; let r ← unhexL rest
    pure (Char.ofNat (x * 16 + y) :: r)

/-- hex → string of code units (one `Char` per byte); `-` = empty -/
def unhex (s : String) : Option String :=
  if s = "-" then some "" else (unhexL s.toList).map String.ofList

def hexDigit (n : Nat) : Char :=
  if n < 10 then Char.ofNat ('0'.toNat + n) else Char.ofNat ('a'.toNat + n - 10)

def hex (s : String) : String :=
  if s.toList.isEmpty then "-" else
  String.ofList (s.toList.flatMap (fun c => [hexDigit (c.toNat / 16 % 16), hexDigit (c.toNat % 16)]))

def typeOf? : Char → Option NodeType
  | 't' => some .tree | 'c' => some .consensus | 'f' => some .file | 'v' => some .fileV2
  | 'o' => some .coordinator | 'n' => some .namingNode | 'p' => some .paymentProcessingNode
  | 'x' => some .other | _ => none

def parseNode (s : String) : Option Node :=
  match s.splitOn ":" with
  | [a, b] => do
    let id ← a.toNat?
    let ts ← if b = "-" then some [] else b.toList.mapM typeOf?
    pure ⟨id, ts⟩
  | _ => none

def parseCfg (s : String) : Option Config :=
  if s = "-" then some [] else (s.splitOn ",").mapM parseNode

structure Entry where
  key : String
  part : Nat
  members : List Nat

def parseEntry (s : String) : Option Entry :=
  match s.splitOn "=" with
  | [k, v] =>
    match v.splitOn ":" with
    | [p, ms] => do
      let key ← unhex k; let part ← p.toNat?; let members ← natList? ms
      pure ⟨key, part, members⟩
    | _ => none
  | _ => none

def find? (tbl : List Entry) (k : String) : Option Entry := tbl.find? (fun e => e.key = k)

def step (line : String) : String :=
  match tokens line with
  | ["replkey", h] =>
    match unhex h with
    | some id => hex (replKey id)
    | none => "bad-op"
  | ["sync", c] =>
    match parseCfg c with
    | some cfg => showNats ((syncNodes cfg).mergeSort (fun a b => decide (a ≤ b)))
    | none => "bad-op"
  | ["q", self, h, t] =>
    match self.toNat?, unhex h, (t.splitOn ";").mapM parseEntry with
    | some self, some id, some tbl =>
      match find? tbl (replKey id) with
      | none => "nokey"
      | some _ =>
        let ring : Ring :=
          { members := fun _ k => match find? tbl k with | some e => e.members | none => []
            partition := fun k => match find? tbl k with | some e => e.part | none => 0 }
        let v : View := ⟨self, []⟩
        s!"{partition ring id} {showNats (nodeIds ring v id)} {showBool (isResponsible ring v id)}"
    | _, _, _ => "bad-op"
  | _ => "bad-op"

end AnySync.Driver.NodeConf
