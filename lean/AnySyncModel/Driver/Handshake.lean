import AnySyncModel.Core.Wire
import AnySyncModel.Handshake.Spec
/-! line protocol for area `handshake` (C14)

  sess role=<in|out> verify=<0|1> acct=<n> lp=<id> rp=<id> ver=<n> compat=<n,n|-> client=<n[!]>
       end=<eof|stall> stream=<hex|-> dec=<type:off:len:body;…|->
     → `<verdict> wrote=<frames> closed=<0|1> maxread=<n>`   or   `need <off> <len> <type>`
       (the model asks for the decoding of a frame payload it parsed and was not given)
  pair <side cfg> | <side cfg>
     → `out=<verdict> in=<verdict>`

  body:  X:u | X:p | A- | A<n> | P | C/<type|->/<version|->/<client|->/<payload>
  payload: - | U | S:<k<n>|b>:<s<n>.<msg>|g>
-/
namespace AnySync.Driver.Handshake
open AnySync.Handshake AnySync.Wire

def kv (toks : List String) (key : String) : Option String :=
  toks.findSome? fun t =>
    match t.splitOn "=" with
    | [k, v] => if k = key then some v else none
    | _ => none

def hexVal (c : Char) : Option Nat :=
  if '0' ≤ c ∧ c ≤ '9' then some (c.toNat - '0'.toNat)
  else if 'a' ≤ c ∧ c ≤ 'f' then some (c.toNat - 'a'.toNat + 10)
  else none

def hexBytes : List Char → Option Bytes
  | [] => some []
  | [_] => none
  | a :: b :: rest => do
    let x ← hexVal a; let y ← hexVal b
    let r ← hexBytes rest
    pure (UInt8.ofNat (16 * x + y) :: r)

def parseHex (s : String) : Option Bytes :=
  if s = "-" then some [] else hexBytes s.toList

def parseClient (s : String) : Option Client :=
  if s.endsWith "!" then (s.dropEnd 1).toString.toNat?.map (⟨·, true⟩)
  else s.toNat?.map (⟨·, false⟩)

def optField {α} (p : String → Option α) (s : String) : Option (Option α) :=
  if s = "-" then some none else (p s).map some

def parseIdent (s : String) : Option Ident :=
  if s = "b" then some .bad
  else if s.startsWith "k" then (s.drop 1).toString.toNat?.map .key else none

def parseSig (s : String) : Option Sig :=
  if s = "g" then some .garbage
  else if s.startsWith "s" then
    match (s.drop 1).toString.splitOn "." with
    | [n, m] => n.toNat?.map (fun k => .sign k m.toList)
    | _ => none
  else none

def parsePayload (s : String) : Option Payload :=
  if s = "U" then some .undecodable
  else match s.splitOn ":" with
    | ["S", i, g] => do let i ← parseIdent i; let g ← parseSig g; pure (.signed i g)
    | _ => none

def parseBody (s : String) : Option Body :=
  if s = "X:u" then some (.bad .ueof)
  else if s = "X:p" then some (.bad .proto)
  else if s = "P" then some .proto
  else if s = "A-" then some (.ack none)
  else if s.startsWith "A" then (s.drop 1).toString.toNat?.map (fun n => .ack (some n))
  else match s.splitOn "/" with
    | ["C", t, v, c, p] => do
      let t ← optField String.toNat? t
      let v ← optField String.toNat? v
      let c ← optField parseClient c
      let p ← optField parsePayload p
      pure (.cred { typ := t, version := v, client := c, payload := p })
    | _ => none

structure Entry where
  tp : Nat
  off : Nat
  len : Nat
  body : Body

def parseEntry (s : String) : Option Entry :=
  match s.splitOn ":" with
  | t :: o :: l :: rest => do
    let t ← t.toNat?; let o ← o.toNat?; let l ← l.toNat?
    let b ← parseBody (":".intercalate rest)
    pure ⟨t, o, l, b⟩
  | _ => none

def parseDec (s : String) : Option (List Entry) :=
  if s = "-" then some [] else (s.splitOn ";").mapM parseEntry

def parseCfg (toks : List String) : Option (Role × Cfg) := do
  let role ← kv toks "role"
  let role ← if role = "in" then some Role.inc else if role = "out" then some Role.out else none
  let verify ← (kv toks "verify").bind bool?
  let acct ← (kv toks "acct").bind String.toNat?
  let lp ← kv toks "lp"
  let rp ← kv toks "rp"
  let ver ← (kv toks "ver").bind String.toNat?
  let compat ← (kv toks "compat").bind natList?
  let client ← (kv toks "client").bind parseClient
  pure (role, { verify, acct, lp := lp.toList, rp := rp.toList, ver, compat, client })

def showClient (c : Client) : String := s!"{c.id}" ++ (if c.bad then "!" else "")

def showVerdict (sep : String) : Verdict → String
  | .ok r =>
    let id := match r.identity with | some k => s!"k{k}" | none => "-"
    s!"ok{sep}id={id}{sep}ver={r.version}{sep}client={showClient r.client}"
  | .he c => s!"err{sep}he:{c}"
  | .declined => s!"err{sep}declined"
  | .tooBig => s!"err{sep}toobig"
  | .eof => s!"err{sep}eof"
  | .ueof => s!"err{sep}ueof"
  | .ctx => s!"err{sep}ctx"
  | .decode => s!"err{sep}decode"
  | .panic => s!"panic"

def showFrame : WFrame → String
  | .cred => "C"
  | .ack e => s!"A{e}"

def showFrames (l : List WFrame) : String :=
  if l.isEmpty then "-" else ",".intercalate (l.map showFrame)

/-- the decoder given by the table; payloads not in the table decode to an error (the driver then
asks for them, see `step`) -/
def tableDec (stream : Bytes) (tbl : List Entry) : Decoder := fun tp p =>
  match tbl.find? (fun en => en.tp = tp ∧ en.len = p.length ∧ (stream.drop en.off).take en.len = p) with
  | some en => en.body
  | none => .bad .proto

def sess (toks : List String) : String :=
  match parseCfg toks, kv toks "end", (kv toks "stream").bind parseHex, (kv toks "dec").bind parseDec with
  | some (role, cfg), some e, some stream, some tbl =>
    if e ≠ "eof" ∧ e ≠ "stall" then "bad-op" else
    let fin := if e = "eof" then End.eof else End.stall
    let o := runSide (tableDec stream tbl) role cfg .fresh stream fin
    match o.reads.find? (fun fr => !(tbl.any fun en => en.tp = fr.1 ∧ en.off = fr.2.1 ∧ en.len = fr.2.2)) with
    | some fr => s!"need {fr.2.1} {fr.2.2} {fr.1}"
    | none =>
      s!"{showVerdict " " o.verdict} wrote={showFrames o.wrote} closed={showBool o.closed} maxread={o.maxReq}"
  | _, _, _, _ => "bad-op"

def splitBar (toks : List String) : List String × List String :=
  (toks.takeWhile (· ≠ "|"), (toks.dropWhile (· ≠ "|")).drop 1)

def pair (toks : List String) : String :=
  let (a, b) := splitBar toks
  match parseCfg a, parseCfg b with
  | some (.out, oc), some (.inc, ic) =>
    let c := connect (toyDec oc ic) toyEnc oc ic .fresh .fresh
    s!"out={showVerdict "_" c.out.verdict} in={showVerdict "_" c.inc.verdict}"
  | _, _ => "bad-op"

def step (line : String) : String :=
  match tokens line with
  | "sess" :: rest => sess rest
  | "pair" :: rest => pair rest
  | _ => "bad-op"

end AnySync.Driver.Handshake
