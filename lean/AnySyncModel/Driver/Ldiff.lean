import AnySyncModel.Core.Wire
import AnySyncModel.Ldiff.Model
/-! line protocol for area `ldiff` (C07, C08); stateful (named indexes)
  reset                                   → `ok`
  new <ix> <df> <thr>                     → `ok`
  set <ix> <id>:<xxhash>:<head> …         → `ok <len> <top digest>`
  rm <ix> <id>:<xxhash>                   → `ok <len> <top digest>` | `notfound`
  range <ix> <from> <to> <0|1>            → `<digest|nil> <count> <id:head,…|->`
  diff|cdiff|wdiff|wcdiff <a> <b>         → `new=… changed=… their=… removed=…` (discovery order) | `nonterm`
Digests are printed as terms `E[id:head,…]` / `N[d,…]`; the harness compares them with the real
blake3 values up to a consistent renaming.
-/
namespace AnySync.Driver.Ldiff
open AnySync.Ldiff AnySync.Wire

def showPairs (l : List (Nat × Nat)) : String :=
  if l.isEmpty then "-" else ",".intercalate (l.map fun e => s!"{e.1}:{e.2}")

def alg : DigAlg String where
  hE := fun l => "E[" ++ showPairs l ++ "]"
  hN := fun l => "N[" ++ ",".intercalate l ++ "]"

abbrev St := List (String × Index String)

def init : St := []

def get (s : St) (n : String) : Option (Index String) := (s.find? fun e => e.1 == n).map (·.2)
def put (s : St) (n : String) (ix : Index String) : St := (n, ix) :: s.filter fun e => e.1 != n

def parseElem (s : String) : Option Elem :=
  match s.splitOn ":" with
  | [a, b, c] => do
    let id ← a.toNat?; let h ← b.toNat?; let hd ← c.toNat?
    if h < M then pure ⟨id, h, hd⟩ else none
  | _ => none

def parseIdHash (s : String) : Option (Nat × Nat) :=
  match s.splitOn ":" with
  | [a, b] => do
    let id ← a.toNat?; let h ← b.toNat?
    if h < M then pure (id, h) else none
  | _ => none

def showDig : Option String → String
  | none => "nil" | some d => d

def showIds (l : List Nat) : String := showNats l

def showCtx (c : DCtx) : String :=
  s!"new={showIds c.newIds} changed={showIds c.changed} their={showIds c.theirChanged} removed={showIds c.removed}"

def status (ix : Index String) : String := s!"ok {ix.sl.length} {showDig ix.hash}"

def step (s : St) (line : String) : St × String :=
  match tokens line with
  | ["reset"] => ([], "ok")
  | ["new", n, df, thr] =>
    match df.toNat?, thr.toNat? with
    | some df, some thr => (put s n (Index.new alg goSplit df thr), "ok")
    | _, _ => (s, "bad-op")
  | "set" :: n :: rest =>
    match get s n, rest.mapM parseElem with
    | some ix, some es =>
      if es.isEmpty then (s, "bad-op") else
      let ix' := ix.set alg goSplit es
      (put s n ix', status ix')
    | _, _ => (s, "bad-op")
  | ["rm", n, e] =>
    match get s n, parseIdHash e with
    | some ix, some (id, h) =>
      match ix.remove alg goSplit id h with
      | some ix' => (put s n ix', status ix')
      | none => (s, "notfound")
    | _, _ => (s, "bad-op")
  | ["range", n, lo, hi, el] =>
    match get s n, lo.toNat?, hi.toNat?, bool? el with
    | some ix, some lo, some hi, some el =>
      if lo < M ∧ hi < M then
        let r := ix.getRange alg goSplit lo hi el
        (s, s!"{showDig r.hash} {r.count} {showPairs r.elems}")
      else (s, "bad-op")
    | _, _, _, _ => (s, "bad-op")
  | [v, a, b] =>
    let mode : Option (Bool × Bool) :=
      if v = "diff" then some (false, false) else if v = "cdiff" then some (true, false)
      else if v = "wdiff" then some (false, true) else if v = "wcdiff" then some (true, true) else none
    match mode, get s a, get s b with
    | some (g, w), some ia, some ib =>
      match diff alg goSplit g w ia ib with
      | some c => (s, showCtx c)
      | none => (s, "nonterm")
    | _, _, _ => (s, "bad-op")
  | _ => (s, "bad-op")

end AnySync.Driver.Ldiff
