import AnySyncModel.Core.Wire
import AnySyncModel.App.Model
/-! line protocol for area `app` (C20)
  start  <id:r:fi:fr:fc> …      → `<outcome> <events>`
  close  <id:r:fi:fr:fc> …      → `<events>`
  lookupT <type> <container>/…   (container = `t1+t2:tag,_:tag` — implemented interface ids, `_` = none)
  lookup <name> <container>/<container>/…   (child first; container = `name:tag,name:tag` or `-`)
-/
namespace AnySync.Driver.App
open AnySync.App AnySync.Wire

def parseComp (s : String) : Option Comp :=
  match s.splitOn ":" with
  | [a, b, c, d, e] => do
    let id ← a.toNat?; let r ← bool? b; let fi ← bool? c; let fr ← bool? d; let fc ← bool? e
    pure ⟨id, r, fi, fr, fc⟩
  | _ => none

def parseComps : List String → Option (List Comp)
  | [] => some []
  | s :: rest => do let c ← parseComp s; let cs ← parseComps rest; pure (c :: cs)

def showEv : Ev → String
  | .init n => s!"i{n}" | .run n => s!"r{n}" | .close n => s!"c{n}"

def showEvs (l : List Ev) : String :=
  if l.isEmpty then "-" else " ".intercalate (l.map showEv)

def showOutcome : Outcome → String
  | .ok => "ok" | .initFailed i => s!"initfail:{i}" | .runFailed i => s!"runfail:{i}"

def parseNamed (s : String) : Option Named :=
  match s.splitOn ":" with
  | [a, b] => do let n ← a.toNat?; let t ← b.toNat?; pure ⟨n, t⟩
  | _ => none

def parseContainer (s : String) : Option (List Named) :=
  if s = "-" then some [] else (s.splitOn ",").mapM parseNamed

def parseTyped (s : String) : Option Typed :=
  match s.splitOn ":" with
  | [a, b] => do
    let ts ← if a = "_" then some [] else (a.splitOn "+").mapM (·.toNat?)
    let t ← b.toNat?
    pure ⟨ts, t⟩
  | _ => none

def parseTContainer (s : String) : Option (List Typed) :=
  if s = "-" then some [] else (s.splitOn ",").mapM parseTyped

def step (line : String) : String :=
  match tokens line with
  | "start" :: rest =>
    match parseComps rest with
    | some cs => let r := start cs; s!"{showOutcome r.2} {showEvs r.1}"
    | none => "bad-op"
  | "close" :: rest =>
    match parseComps rest with
    | some cs => s!"{if closeErr cs then "err" else "ok"} {showEvs (close cs)}"
    | none => "bad-op"
  | ["lookup", name, chain] =>
    match name.toNat?, (chain.splitOn "/").mapM parseContainer with
    | some n, some ch =>
      match lookup ch n with
      | some t => s!"found:{t}"
      | none => "notfound"
    | _, _ => "bad-op"
  | ["lookupT", ty, chain] =>
    match ty.toNat?, (chain.splitOn "/").mapM parseTContainer with
    | some n, some ch =>
      match lookupT ch n with
      | some t => s!"found:{t}"
      | none => "notfound"
    | _, _ => "bad-op"
  | _ => "bad-op"

end AnySync.Driver.App
