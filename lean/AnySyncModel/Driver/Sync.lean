import AnySyncModel.Core.Wire
import AnySyncModel.Sync.Net
/-! line protocol for area `sync` (C01); stateful.

  new <n>                          → `ok`
  add <r> <c> <parents>            → `ok <set r> <heads r>[ | <msgs>]`
  dlv <mid> <bh> <bq> [<heads>/<changes> …]
                                   → `ok <set dst> <heads dst>[ | <msgs>]`
  sync <r> <q>                     → `ok <set r> <heads r> | <msg>`
  drop <mid>                       → `ok`
  dup <mid> <newmid>               → `ok`
  state                            → `ok <set 0> <heads 0> ; <set 1> <heads 1> ; …`

  msg = `<mid>:H/<src>/<dst>/<heads>/<changes>` | `<mid>:Q/<src>/<dst>/<heads>` | `<mid>:R/…`
  lists are comma separated, `-` when empty.  A step the model rejects answers `bad-step`.
-/
namespace AnySync.Driver.Sync
open AnySync.Sync AnySync.Wire

def showMsg (p : Nat × Msg) : String :=
  let m := p.2
  match m.kind with
  | .hu   => s!"{p.1}:H/{m.src}/{m.dst}/{showNats m.heads}/{showNats m.changes}"
  | .req  => s!"{p.1}:Q/{m.src}/{m.dst}/{showNats m.heads}"
  | .resp => s!"{p.1}:R/{m.src}/{m.dst}/{showNats m.heads}/{showNats m.changes}"

def showReplica (s : State) (r : Nat) : String :=
  s!"{showNats (canon s.dag (s.get r))} {showNats (heads s.dag (s.get r))}"

def showStep (s : State) (actor : Nat) (out : List (Nat × Msg)) : String :=
  let base := s!"ok {showReplica s actor}"
  if out.isEmpty then base else base ++ " | " ++ " ".intercalate (out.map showMsg)

def parseBatch (t : String) : Option (List Nat × List Nat) :=
  match t.splitOn "/" with
  | [h, c] => do let hs ← natList? h; let cs ← natList? c; pure (hs, cs)
  | _ => none

def parseBatches : List String → Option (List (List Nat × List Nat))
  | [] => some []
  | t :: rest => do let b ← parseBatch t; let bs ← parseBatches rest; pure (b :: bs)

/-- run one op; on success print the actor's replica and the emitted messages -/
def exec (s : State) (op : Op) (actor : Nat) : Option State × String :=
  match stepE s op with
  | none => (some s, "bad-step")
  | some (s1, out) =>
    let s2 := enqueue s1 out
    (some s2, showStep s2 actor (number s.nextMid out))

def step (st : Option State) (line : String) : Option State × String :=
  match st, tokens line with
  | _, ["new", n] =>
    match n.toNat? with
    | some k => if 1 ≤ k ∧ k ≤ 8 then (some (init k), "ok") else (st, "bad-op")
    | none => (st, "bad-op")
  | some s, ["add", r, c, ps] =>
    match r.toNat?, c.toNat?, natList? ps with
    | some r, some c, some ps => exec s (.add r c ps) r
    | _, _, _ => (st, "bad-op")
  | some s, "dlv" :: mid :: bh :: bq :: rest =>
    match mid.toNat?, bool? bh, bool? bq, parseBatches rest with
    | some mid, some bh, some bq, some resps =>
      match findMsg s mid with
      | some m => exec s (.deliver mid bh bq resps) m.dst
      | none => (st, "bad-step")
    | _, _, _, _ => (st, "bad-op")
  | some s, ["sync", r, q] =>
    match r.toNat?, q.toNat? with
    | some r, some q => exec s (.sync r q) r
    | _, _ => (st, "bad-op")
  | some s, ["drop", mid] =>
    match mid.toNat? with
    | some mid =>
      match AnySync.Sync.step s (.drop mid) with
      | some s' => (some s', "ok")
      | none => (st, "bad-step")
    | none => (st, "bad-op")
  | some s, ["dup", mid, nm] =>
    match mid.toNat?, nm.toNat? with
    | some mid, some nm =>
      if nm ≠ s.nextMid then (st, "bad-step") else
      match AnySync.Sync.step s (.dup mid) with
      | some s' => (some s', "ok")
      | none => (st, "bad-step")
    | _, _ => (st, "bad-op")
  | some s, ["state"] =>
    (st, "ok " ++ " ; ".intercalate ((List.range s.n).map (showReplica s)))
  | _, _ => (st, "bad-op")

end AnySync.Driver.Sync
