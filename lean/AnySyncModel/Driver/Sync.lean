import AnySyncModel.Core.Wire
import AnySyncModel.Sync.SnapStep
/-! line protocol for area `sync` (C01); stateful.

  new <n>                          → `ok`
  add <r> <c> <parents> <isSnap> <snapshot base>
                                   → `ok <set r> <heads r> @<root r>[ | <msgs>]`
  dlv <mid> <bh> <bq> <new root of dst> [<heads>/<changes> …]
                                   → `ok <set dst> <heads dst> @<root dst>[ | <msgs>]`
  sync <r> <q>                     → `ok <set r> <heads r> @<root r> | <msg>`
  drop <mid>                       → `ok`
  reroot <r> <root>                → `ok <set r> <heads r> @<root r>` (rebuild from storage: only the root may move)
  dup <mid> <newmid>               → `ok`
  state                            → `ok <set 0> <heads 0> @<root 0> ; <set 1> <heads 1> @<root 1> ; …`

  msg = `<mid>:H/<src>/<dst>/<heads>/<changes>` | `<mid>:Q/<src>/<dst>/<heads>` | `<mid>:R/…`
  lists are comma separated, `-` when empty.  A step the model rejects answers `bad-step`.
-/
namespace AnySync.Driver.Sync
open AnySync.Sync AnySync.Wire

def showMsg (p : Nat × Msg) : String :=
  let m := p.2
  match m.kind with
  | .hu   => s!"{p.1}:H/{m.src}/{m.dst}/{showNats m.heads}/{showNats m.changes}"
  | .req  => s!"{p.1}:Q/{m.src}/{m.dst}/{showNats m.heads}"
  | .resp => s!"{p.1}:R/{m.src}/{m.dst}/{showNats m.heads}/{showNats m.changes}"

def showReplica (ss : SState) (r : Nat) : String :=
  s!"{showNats (canon ss.base.dag (ss.base.get r))} {showNats (heads ss.base.dag (ss.base.get r))} @{ss.root r}"

def showStep (ss : SState) (actor : Nat) (out : List (Nat × Msg)) : String :=
  let base := s!"ok {showReplica ss actor}"
  if out.isEmpty then base else base ++ " | " ++ " ".intercalate (out.map showMsg)

def parseBatch (t : String) : Option (List Nat × List Nat) :=
  match t.splitOn "/" with
  | [h, c] => do let hs ← natList? h; let cs ← natList? c; pure (hs, cs)
  | _ => none

def parseBatches : List String → Option (List (List Nat × List Nat))
  | [] => some []
  | t :: rest => do let b ← parseBatch t; let bs ← parseBatches rest; pure (b :: bs)

/-- run one op of the annotated model; `bop` is its base operation (for the emitted messages) -/
def exec (ss : SState) (op : SOp) (bop : Op) (actor : Nat) : Option SState × String :=
  match stepE ss.base bop, sstep ss op with
  | some (_, out), some ss' => (some ss', showStep ss' actor (number ss.base.nextMid out))
  | _, _ => (some ss, "bad-step")

def step (st : Option SState) (line : String) : Option SState × String :=
  match st, tokens line with
  | _, ["new", n] =>
    match n.toNat? with
    | some k => if 1 ≤ k ∧ k ≤ 8 then (some (sinit k), "ok") else (st, "bad-op")
    | none => (st, "bad-op")
  | some ss, ["add", r, c, ps, isSnap, sbase] =>
    match r.toNat?, c.toNat?, natList? ps, bool? isSnap, sbase.toNat? with
    | some r, some c, some ps, some isSnap, some sbase =>
      -- the snapshot base the real change cites must be the adder's root
      if sbase ≠ ss.root r then (st, "bad-step") else exec ss (.add r c ps isSnap) (.add r c ps) r
    | _, _, _, _, _ => (st, "bad-op")
  | some ss, "dlv" :: mid :: bh :: bq :: root :: rest =>
    match mid.toNat?, bool? bh, bool? bq, root.toNat?, parseBatches rest with
    | some mid, some bh, some bq, some root, some resps =>
      match findMsg ss.base mid with
      | some m => exec ss (.deliver mid bh bq resps root) (.deliver mid bh bq resps) m.dst
      | none => (st, "bad-step")
    | _, _, _, _, _ => (st, "bad-op")
  | some ss, ["sync", r, q] =>
    match r.toNat?, q.toNat? with
    | some r, some q => exec ss (.sync r q) (.sync r q) r
    | _, _ => (st, "bad-op")
  | some ss, ["drop", mid] =>
    match mid.toNat? with
    | some mid =>
      match sstep ss (.drop mid) with
      | some ss' => (some ss', "ok")
      | none => (st, "bad-step")
    | none => (st, "bad-op")
  | some ss, ["dup", mid, nm] =>
    match mid.toNat?, nm.toNat? with
    | some mid, some nm =>
      if nm ≠ ss.base.nextMid then (st, "bad-step") else
      match sstep ss (.dup mid) with
      | some ss' => (some ss', "ok")
      | none => (st, "bad-step")
    | _, _ => (st, "bad-op")
  | some ss, ["reroot", r, root] =>
    match r.toNat?, root.toNat? with
    | some r, some root =>
      match sstep ss (.reroot r root) with
      | some ss' => (some ss', s!"ok {showReplica ss' r}")
      | none => (st, "bad-step")
    | _, _ => (st, "bad-op")
  | some ss, ["state"] =>
    (st, "ok " ++ " ; ".intercalate ((List.range ss.base.n).map (showReplica ss)))
  | _, _ => (st, "bad-op")

end AnySync.Driver.Sync
