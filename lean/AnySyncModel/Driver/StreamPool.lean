import AnySyncModel.Core.Wire
import AnySyncModel.StreamPool.Model
/-! line protocol for area `streampool` (C19). Stateful: one pool at a time.

  new <W> <Q> <T>                      fresh pool, dial workers W, dial queue Q, tag universe 0..T-1
  add <peer> <cap> <gated> <failAt> <tags>      AddStream / ReadStream
  addnopeer                            AddStream with a context that carries no peer id
  bcast <msg> <tags>                   Broadcast
  byid <msg> <peers>                   SendById
  send <task> <msg> <getterErr> <peers>  Send (the getter parks until `drel`)
  plan <peer> none | <cap> <gated> <failAt> <tags>   what the handler's OpenStream does for the peer
  tag+ / tag- / tagid- <sid> <tags>    AddTagsCtx / RemoveTagsCtx / RemoveTagsById
  streams <tags>                       Streams(tags...)
  rel <sid>                            the parked MsgSend of the stream returns
  gate <sid> <0|1>                     switch the remote between healthy and gated
  cblock <sid> <0|1>                   the remote's Close() parks (1) / returns (0)
  rclose <sid> / cancel <sid>          read loop ends / peer context cancelled
  drel <task>                          the parked peer getter of the task returns

Every answer: `<result> | <streams> | <tags> | R=<running tasks>[ FATAL][ NIL]` taken after all
enabled internal steps have fired (quiescence).
-/
namespace AnySync.Driver.StreamPool
open AnySync.StreamPool AnySync.Wire

structure St where
  pool : Pool := {}
  ntags : Nat := 0

def showRes : Res → String
  | .ok => "ok"
  | .added id => s!"ok:{id}"
  | .errNoPeer => "err:nopeer"
  | .errUnable => "err:unable"
  | .errNotFound => "err:notfound"
  | .errOverflow => "err:overflow"
  | .ids l => s!"ids:{showNats l}"
  | .wrote sid ok => s!"wrote:{sid}:{showBool ok}"
  | .disabled => "disabled"

def showOpt : Option Nat → String
  | none => "-"
  | some m => toString m

def prevDelivered (prev : Pool) (id : Nat) : Nat :=
  match getObj prev.objs id with
  | some s => s.delivered.length
  | none => 0

def prevRemoved (prev : Pool) (id : Nat) : Bool :=
  match getObj prev.objs id with
  | some s => s.removed
  | none => false

def showStream (prev : Pool) (s : Stream) : Option String :=
  let nd := showNats (s.delivered.drop (prevDelivered prev s.id))
  if s.removed then
    if prevRemoved prev s.id then none
    else some s!"{s.id}:X:{s.peer}:{showNats s.tags}:{nd}"
  else some s!"{s.id}:{if s.closed then "K" else "L"}:{showOpt s.inflight}:{nd}"

def showStreams (prev cur : Pool) : String :=
  let l := cur.objs.filterMap (showStream prev)
  if l.isEmpty then "-" else " ".intercalate l

def showTags (p : Pool) (n : Nat) : String :=
  if n = 0 then "-" else
  " ".intercalate ((List.range n).map (fun t => s!"{t}={showNats (p.byTag.get t)}"))

def dump (prev cur : Pool) (n : Nat) (res : String) : String :=
  let flags := (if cur.fatal then " FATAL" else "") ++ (if cur.nilDeref then " NIL" else "")
  s!"{res} | {showStreams prev cur} | {showTags cur n} | R={showNats (cur.running.map (·.id))}{flags}"

def finish (st : St) (p : Pool) (res : Res) : St × String :=
  let q := p.settle p.settleFuel
  ({ st with pool := q }, dump st.pool q st.ntags (showRes res))

/-- macro result `p1` is what the state continues with; the same call executed as snapshot + single
`callWrite` steps (`p2`) must give the same observation, otherwise the answer is marked `SPLIT` -/
def finish2 (st : St) (p1 p2 : Pool) (res : Res) : St × String :=
  let r1 := finish st p1 res
  let r2 := finish st p2 res
  if r1.2 = r2.2 then r1 else (r1.1, r1.2 ++ " SPLIT")

def step (st : St) (line : String) : St × String :=
  let p := st.pool
  match tokens line with
  | ["new", w, q, t] =>
    match w.toNat?, q.toNat?, t.toNat? with
    | some w, some q, some t => ({ pool := init w q, ntags := t }, "ok")
    | _, _, _ => (st, "bad-op")
  | ["add", peer, c, g, f, tags] =>
    match peer.toNat?, c.toNat?, bool? g, f.toNat?, natList? tags with
    | some peer, some c, some g, some f, some tags =>
      let r := p.add peer c g f tags
      finish st r.1 (.added r.2)
    | _, _, _, _, _ => (st, "bad-op")
  | ["addnopeer"] => finish st p .errNoPeer
  | ["bcast", m, tags] =>
    match m.toNat?, natList? tags with
    | some m, some tags => finish2 st (p.broadcastNow m tags) (p.broadcast m tags) .ok
    | _, _ => (st, "bad-op")
  | ["byid", m, peers] =>
    match m.toNat?, natList? peers with
    | some m, some peers => let r := p.sendByIdNow m peers; finish2 st r.1 (p.sendById m peers).1 r.2
    | _, _ => (st, "bad-op")
  | ["send", tid, m, ge, peers] =>
    match tid.toNat?, m.toNat?, bool? ge, natList? peers with
    | some tid, some m, some ge, some peers =>
      let r := p.send { id := tid, msg := m, peers := peers, getterErr := ge }
      finish st r.1 r.2
    | _, _, _, _ => (st, "bad-op")
  | ["plan", peer, "none"] =>
    match peer.toNat? with
    | some peer => finish st (p.setPlan peer none) .ok
    | none => (st, "bad-op")
  | ["plan", peer, c, g, f, tags] =>
    match peer.toNat?, c.toNat?, bool? g, f.toNat?, natList? tags with
    | some peer, some c, some g, some f, some tags =>
      finish st (p.setPlan peer (some { capRaw := c, gated := g, failAt := f, tags := tags })) .ok
    | _, _, _, _, _ => (st, "bad-op")
  | ["tag+", sid, tags] =>
    match sid.toNat?, natList? tags with
    | some sid, some tags => let r := p.addTags sid tags; finish st r.1 r.2
    | _, _ => (st, "bad-op")
  | ["tag-", sid, tags] =>
    match sid.toNat?, natList? tags with
    | some sid, some tags => let r := p.removeTags sid tags; finish st r.1 r.2
    | _, _ => (st, "bad-op")
  | ["tagid-", sid, tags] =>
    match sid.toNat?, natList? tags with
    | some sid, some tags => let r := p.removeTagsById sid tags; finish st r.1 r.2
    | _, _ => (st, "bad-op")
  | ["streams", tags] =>
    match natList? tags with
    | some tags => finish st p (.ids (p.streamsOf tags))
    | none => (st, "bad-op")
  | ["rel", sid] =>
    match sid.toNat? with
    | some sid =>
      let r := p.complete sid
      finish st r.1 (match r.2 with | .wrote _ _ => .ok | x => x)
    | none => (st, "bad-op")
  | ["gate", sid, b] =>
    match sid.toNat?, bool? b with
    | some sid, some b => let r := p.setGated sid b; finish st r.1 r.2
    | _, _ => (st, "bad-op")
  | ["cblock", sid, b] =>
    match sid.toNat?, bool? b with
    | some sid, some b => let r := p.setCloseBlocks sid b; finish st r.1 r.2
    | _, _ => (st, "bad-op")
  | ["rclose", sid] =>
    match sid.toNat? with
    | some sid => let r := p.readClose sid; finish st r.1 r.2
    | none => (st, "bad-op")
  | ["cancel", sid] =>
    match sid.toNat? with
    | some sid => let r := p.cancel sid; finish st r.1 r.2
    | none => (st, "bad-op")
  | ["drel", tid] =>
    match tid.toNat? with
    | some tid => let r := p.dialRun tid; finish st r.1 r.2
    | none => (st, "bad-op")
  | _ => (st, "bad-op")

end AnySync.Driver.StreamPool
