/-
Helper lemmas for C20: each Go loop of `app.go` refines its list-level specification.
-/
import AnySyncModel.App.Spec

namespace AnySync.App
open Generated.App

theorem closeLoopDesc_eq (cs : List Comp) (k : Nat) (hk : k ≤ cs.length) :
    closeLoopDesc cs k = closesOfPrefix cs k := by
  induction k with
  | zero => simp [closeLoopDesc, closesOfPrefix]
  | succ k ih =>
    have hk' : k < cs.length := hk
    have ih' := ih (Nat.le_of_lt hk')
    simp only [closeLoopDesc, ih', closesOfPrefix, closeAt]
    rw [List.take_succ]
    simp only [List.getElem?_eq_getElem hk', Option.toList_some, List.filter_append,
      List.reverse_append, List.map_append]
    by_cases hr : cs[k].runnable <;> simp [hr]

theorem initPass_none (cs : List Comp) (i : Nat) (h : ∀ c ∈ cs, c.failInit = false) :
    initPass cs i = (inits cs, none) := by
  induction cs generalizing i with
  | nil => simp [initPass, inits]
  | cons c rest ih =>
    have hc : c.failInit = false := h c (by simp)
    have hr : ∀ c ∈ rest, c.failInit = false := fun c hc => h c (by simp [hc])
    simp [initPass, hc, ih (i+1) hr, inits]

theorem runPass_none (cs : List Comp) (i : Nat) (h : ∀ c ∈ cs, c.runnable = true → c.failRun = false) :
    runPass cs i = (runs cs, none) := by
  induction cs generalizing i with
  | nil => simp [runPass, runs]
  | cons c rest ih =>
    have hr : ∀ c ∈ rest, c.runnable = true → c.failRun = false := fun c hc => h c (by simp [hc])
    by_cases hrun : c.runnable = true
    · have hc : c.failRun = false := h c (by simp) hrun
      simp [runPass, hrun, hc, ih (i+1) hr, runs]
    · simp [runPass, hrun, ih (i+1) hr, runs]

theorem initPass_fail (pre : List Comp) (c : Comp) (post : List Comp) (i : Nat)
    (hpre : ∀ x ∈ pre, x.failInit = false) (hc : c.failInit = true) :
    initPass (pre ++ c :: post) i = (inits (pre ++ [c]), some (i + pre.length)) := by
  induction pre generalizing i with
  | nil => simp [initPass, hc, inits]
  | cons p pre ih =>
    have hp : p.failInit = false := hpre p (by simp)
    have hr : ∀ x ∈ pre, x.failInit = false := fun x hx => hpre x (by simp [hx])
    simp [initPass, hp, ih (i+1) hr, inits]
    omega

theorem closeServices_eq (cs : List Comp) (idx : Nat) (h : idx < cs.length) :
    closeServices cs idx = closesOfPrefix cs (idx + 1) := by
  simp only [closeServices, closeServicesDescending, closeServicesStartOffset, if_true]
  exact closeLoopDesc_eq cs (idx+1) h

theorem runPass_fail (pre : List Comp) (c : Comp) (post : List Comp) (i : Nat)
    (hpre : ∀ x ∈ pre, x.runnable = true → x.failRun = false)
    (hcr : c.runnable = true) (hc : c.failRun = true) :
    runPass (pre ++ c :: post) i = (runs (pre ++ [c]), some (i + pre.length)) := by
  induction pre generalizing i with
  | nil => simp [runPass, hc, hcr, runs]
  | cons p pre ih =>
    have hr : ∀ x ∈ pre, x.runnable = true → x.failRun = false := fun x hx => hpre x (by simp [hx])
    by_cases hrun : p.runnable = true
    · have hp : p.failRun = false := hpre p (by simp) hrun
      simp [runPass, hrun, hp, ih (i+1) hr, runs, List.filter_cons]
      omega
    · simp [runPass, hrun, ih (i+1) hr, runs, List.filter_cons]
      omega

theorem initPass_prefix (cs : List Comp) (i : Nat) :
    ∃ k, (initPass cs i).1 = inits (cs.take k) := by
  induction cs generalizing i with
  | nil => exact ⟨0, by simp [initPass, inits]⟩
  | cons c rest ih =>
    by_cases hc : c.failInit = true
    · exact ⟨1, by simp [initPass, hc, inits]⟩
    · obtain ⟨k, hk⟩ := ih (i+1)
      exact ⟨k+1, by simp [initPass, hc, hk, inits]⟩

theorem runPass_noinit (cs : List Comp) (i : Nat) :
    ∀ e ∈ (runPass cs i).1, ∀ n, e ≠ Ev.init n := by
  induction cs generalizing i with
  | nil => simp [runPass]
  | cons c rest ih =>
    intro e he n
    unfold runPass at he
    by_cases hr : c.runnable = true
    · by_cases hf : c.failRun = true
      · simp [hr, hf] at he; simp [he]
      · simp [hr, hf] at he
        rcases he with he | he
        · simp [he]
        · exact ih (i+1) e he n
    · simp [hr] at he; exact ih (i+1) e he n

theorem closeLoopDesc_noinit (cs : List Comp) (k : Nat) :
    ∀ e ∈ closeLoopDesc cs k, ∀ n, e ≠ Ev.init n := by
  induction k with
  | zero => simp [closeLoopDesc]
  | succ k ih =>
    intro e he n
    simp only [closeLoopDesc, List.mem_append] at he
    rcases he with he | he
    · unfold closeAt at he
      split at he
      · split at he <;> simp at he; simp [he]
      · simp at he
    · exact ih e he n

end AnySync.App
