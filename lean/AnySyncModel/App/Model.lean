/-
Model of the component container `app/app.go` (`App.Start`, `closeServices`, `App.Close`,
`App.Component` / `GetComponent`).

The definitions mirror the Go control flow loop by loop:
* `Start` has two `for i, s := range app.components` passes (Init, then Run for runnables) and on a
  failure at index `i` calls `closeServices(i)`;
* `closeServices(idx)` is `for i := idx; i >= 0; i--`, closing the runnable ones;
* `Close` is `for i := len-1; i >= 0; i--`, closing the runnable ones;
* `Component(name)` walks `current = app; current != nil; current = current.parent`, scanning each
  component slice front to back.

Directions / start indexes of the loops are taken from `Generated/AppShape.lean`, which is
regenerated from /repo's `app/app.go` by the extractor on every run.
-/
import AnySyncModel.Generated.AppShape

namespace AnySync.App

structure Comp where
  id       : Nat
  runnable : Bool
  failInit : Bool := false
  failRun  : Bool := false
  failClose : Bool := false   -- `Close` returns an error (it is only logged / collected; closing goes on)
deriving Repr, DecidableEq, Inhabited

inductive Ev where
  | init  (id : Nat)
  | run   (id : Nat)
  | close (id : Nat)
deriving Repr, DecidableEq

inductive Outcome where
  | ok
  | initFailed (idx : Nat)
  | runFailed  (idx : Nat)
deriving Repr, DecidableEq

/-- the body of both closing loops: close component `i` if it is runnable -/
def closeAt (cs : List Comp) (i : Nat) : List Ev :=
  match cs[i]? with
  | some c => if c.runnable then [Ev.close c.id] else []
  | none   => []

/-- `for i := k-1; i >= 0; i--` (descending) or `for i := 0; i < k; i++` (ascending) over the
first `k` components; which one is decided by the generated shape constant. -/
def closeLoopDesc (cs : List Comp) : Nat → List Ev
  | 0     => []
  | k + 1 => closeAt cs k ++ closeLoopDesc cs k

def closeLoopAsc (cs : List Comp) (k : Nat) : List Ev :=
  ((List.range k).map (closeAt cs)).flatten

/-- `closeServices(idx)` inside `Start` -/
def closeServices (cs : List Comp) (idx : Nat) : List Ev :=
  if Generated.App.closeServicesDescending then
    closeLoopDesc cs (idx + Generated.App.closeServicesStartOffset)
  else closeLoopAsc cs (idx + Generated.App.closeServicesStartOffset)

/-- first pass of `Start`: `Init` in slice order, stop at the first failure (returns its index) -/
def initPass : List Comp → Nat → List Ev × Option Nat
  | [], _ => ([], none)
  | c :: rest, i =>
    if c.failInit then ([Ev.init c.id], some i)
    else
      let r := initPass rest (i + 1)
      (Ev.init c.id :: r.1, r.2)

/-- second pass of `Start`: `Run` for runnables in slice order, stop at the first failure -/
def runPass : List Comp → Nat → List Ev × Option Nat
  | [], _ => ([], none)
  | c :: rest, i =>
    if c.runnable then
      if c.failRun then ([Ev.run c.id], some i)
      else
        let r := runPass rest (i + 1)
        (Ev.run c.id :: r.1, r.2)
    else runPass rest (i + 1)

/-- `App.Start`: the call log and the outcome -/
def start (cs : List Comp) : List Ev × Outcome :=
  let ip := initPass cs 0
  match ip.2 with
  | some i => (ip.1 ++ closeServices cs i, Outcome.initFailed i)
  | none =>
    if Generated.App.startInitBeforeRun then
      let rp := runPass cs 0
      match rp.2 with
      | some i => (ip.1 ++ rp.1 ++ closeServices cs i, Outcome.runFailed i)
      | none   => (ip.1 ++ rp.1, Outcome.ok)
    else (ip.1, Outcome.ok)

/-- `App.Close`: the call log -/
def close (cs : List Comp) : List Ev :=
  if Generated.App.closeDescending then closeLoopDesc cs cs.length
  else closeLoopAsc cs cs.length

/-- `App.Close` returns a non-nil error iff some runnable component's `Close` failed -/
def closeErr (cs : List Comp) : Bool :=
  cs.any (fun c => c.runnable && c.failClose)

/-! ### lookup through a chain of containers (child first) -/

structure Named where
  name : Nat
  tag  : Nat      -- which concrete component object this is
deriving Repr, DecidableEq

def findIn (cs : List Named) (name : Nat) : Option Nat :=
  match cs.find? (·.name = name) with
  | some c => some c.tag
  | none   => none

/-- `Component(name)`: `chain` is `[app, app.parent, app.parent.parent, …]` -/
def lookup : List (List Named) → Nat → Option Nat
  | [], _ => none
  | cs :: parents, name =>
    match findIn cs name with
    | some t => some t
    | none   => if Generated.App.lookupWalksParents then lookup parents name else none

/-! ### `GetComponent[T]`: lookup by implemented interface, same walk -/

structure Typed where
  types : List Nat   -- the interfaces this component implements
  tag   : Nat
deriving Repr, DecidableEq

def findTypeIn (cs : List Typed) (t : Nat) : Option Nat :=
  match cs.find? (fun c => c.types.contains t) with
  | some c => some c.tag
  | none   => none

/-- `GetComponent[T](app)`: first component, child container first, whose dynamic type implements `T` -/
def lookupT : List (List Typed) → Nat → Option Nat
  | [], _ => none
  | cs :: parents, t =>
    match findTypeIn cs t with
    | some g => some g
    | none   => if Generated.App.getComponentWalksParents then lookupT parents t else none

/-- `Register`: panics (`none`) on a duplicate name inside one container -/
def register (cs : List Named) (c : Named) : Option (List Named) :=
  if cs.any (·.name = c.name) then none else some (cs ++ [c])

end AnySync.App
