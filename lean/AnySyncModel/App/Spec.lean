/-
Specification vocabulary for the component container (C20): what the call log must look like.
-/
import AnySyncModel.App.Model

namespace AnySync.App

/-- the runnable components among the first `k`, latest first, as close events -/
def closesOfPrefix (cs : List Comp) (k : Nat) : List Ev :=
  (((cs.take k).filter (·.runnable)).reverse).map (fun c => Ev.close c.id)

def inits (cs : List Comp) : List Ev := cs.map (fun c => Ev.init c.id)

def runs  (cs : List Comp) : List Ev := (cs.filter (·.runnable)).map (fun c => Ev.run c.id)

end AnySync.App
