import AnySyncModel.PubSub.Topic
/-!
`patternTrie` of `commonspace/pubsub/trie.go`.

A Go `trieLevel` (`nodes` map + `pwc` + `fwc` slots) is an association list keyed by segment, the
wildcard slots being the keys `wildcardOne` / `wildcardTail` (exactly what `child/setChild/deleteChild`
implement). A Go `trieNode` is `Node.mk refs pattern kids` where `kids` is the content of `next`
(a nil `next` and an empty one are not distinguished: no Go code path distinguishes them on a trie
built by `Add`, which allocates `next` for every node of the path).

All operations recurse on the segment list (like the Go loops), never on the tree.
-/
namespace AnySync.PubSub
open Generated.PubSub

inductive Node where
  | mk (refs : Nat) (pat : String) (kids : List (String × Node))

abbrev Level := List (String × Node)

namespace Node
def refs : Node → Nat | mk r _ _ => r
def pat : Node → String | mk _ p _ => p
def kids : Node → Level | mk _ _ k => k
def fresh : Node := mk 0 "" []
@[simp] theorem refs_mk (r : Nat) (p : String) (k : Level) : (mk r p k).refs = r := rfl
@[simp] theorem pat_mk (r : Nat) (p : String) (k : Level) : (mk r p k).pat = p := rfl
@[simp] theorem kids_mk (r : Nat) (p : String) (k : Level) : (mk r p k).kids = k := rfl
@[simp] theorem refs_fresh : fresh.refs = 0 := rfl
@[simp] theorem pat_fresh : fresh.pat = "" := rfl
@[simp] theorem kids_fresh : fresh.kids = [] := rfl
end Node

/-- `level.child(seg)` -/
def lookup (k : String) : Level → Option Node
  | [] => none
  | (k', n) :: rest => if k' = k then some n else lookup k rest

/-- `level.setChild(seg, n)` (replace in place, else append) -/
def setKid (k : String) (n : Node) : Level → Level
  | [] => [(k, n)]
  | (k', n') :: rest => if k' = k then (k, n) :: rest else (k', n') :: setKid k n rest

/-- `level.deleteChild(seg)` -/
def eraseKid (k : String) : Level → Level
  | [] => []
  | (k', n') :: rest => if k' = k then eraseKid k rest else (k', n') :: eraseKid k rest

/-- `level.literal(seg)`: the `nodes` map only — a wildcard segment in a topic finds nothing here -/
def literal (k : String) (l : Level) : Option Node :=
  if k = wildcardOne ∨ k = wildcardTail then none else lookup k l

/-- `Add` below one level: returns the new level and whether the pattern is new (0 → 1). -/
def addLevel (pat : String) : List String → Level → Level × Bool
  | [], l => (l, false)
  | [s], l =>
    let n := (lookup s l).getD Node.fresh
    (setKid s (.mk (n.refs + 1) pat n.kids) l, n.refs + 1 == 1)
  | s :: t :: rest, l =>
    let n := (lookup s l).getD Node.fresh
    let r := addLevel pat (t :: rest) n.kids
    (setKid s (.mk n.refs n.pat r.1) l, r.2)

/-- `patternTrie.remove` below one level: new level and whether the pattern disappeared (1 → 0). -/
def removeLevel : List String → Level → Level × Bool
  | [], l => (l, false)
  | [s], l =>
    match lookup s l with
    | none => (l, false)
    | some n =>
      if n.refs = 0 then (l, false)
      else if n.refs - 1 > 0 then (setKid s (.mk (n.refs - 1) n.pat n.kids) l, false)
      else if n.kids = [] then (eraseKid s l, true)
      else (setKid s (.mk 0 "" n.kids) l, true)
  | s :: t :: rest, l =>
    match lookup s l with
    | none => (l, false)
    | some n =>
      let r := removeLevel (t :: rest) n.kids
      if n.refs = 0 ∧ r.1 = [] then (eraseKid s l, r.2)
      else (setKid s (.mk n.refs n.pat r.1) l, r.2)

/-- terminal check of `matchNode` with no segment left -/
def termOf : Option Node → List String
  | some n => if n.refs > 0 then [n.pat] else []
  | none => []

/-- `matchLevel` / `matchNode`: tail wildcard of this level, then the `*` branch, then the literal
branch — the Go append order. -/
def matchLevel : Level → List String → List String
  | _, [] => []
  | l, [s] => termOf (lookup wildcardTail l) ++ termOf (lookup wildcardOne l) ++ termOf (literal s l)
  | l, s :: t :: rest =>
    termOf (lookup wildcardTail l)
      ++ (match lookup wildcardOne l with
          | some n => matchLevel n.kids (t :: rest)
          | none => [])
      ++ (match literal s l with
          | some n => matchLevel n.kids (t :: rest)
          | none => [])

structure Trie where
  root : Level := []
  size : Nat := 0

namespace Trie
def empty : Trie := {}

/-- `Add(pattern)`; `splitTopic` never returns an empty list, so the `[]` case of `addLevel`
(where Go would dereference a nil node) is unreachable (`splitTopic_ne_nil`). -/
def add (t : Trie) (pattern : String) : Trie × Bool :=
  let r := addLevel pattern (splitTopic pattern) t.root
  ({ root := r.1, size := if r.2 then t.size + 1 else t.size }, r.2)

def remove (t : Trie) (pattern : String) : Trie × Bool :=
  let r := removeLevel (splitTopic pattern) t.root
  ({ root := r.1, size := if r.2 then t.size - 1 else t.size }, r.2)

def matchTopic (t : Trie) (topic : String) : List String := matchLevel t.root (splitTopic topic)

/-- `for pattern := range patterns { trie.Remove(pattern) }` -/
def removeAll (t : Trie) (ps : List String) : Trie := ps.foldl (fun t p => (t.remove p).1) t
end Trie

/-- reference count stored at a path (the abstraction: a multiset of segment lists) -/
def refsAt : Level → List String → Nat
  | _, [] => 0
  | l, [s] => match lookup s l with | some n => n.refs | none => 0
  | l, s :: t :: rest => match lookup s l with | some n => refsAt n.kids (t :: rest) | none => 0

def Trie.count (t : Trie) (pattern : String) : Nat := refsAt t.root (splitTopic pattern)

end AnySync.PubSub
