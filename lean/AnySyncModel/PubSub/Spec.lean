import AnySyncModel.PubSub.Service
import AnySyncModel.PubSub.Rule
/-!
Specification vocabulary for C17: the node reached by a path, the structural invariant of a trie
level, reachable tries, the live patterns of a trie.
-/
namespace AnySync.PubSub
open Generated.PubSub

/-! ### the topic / pattern grammar, stated over the full `/`-split (no segment cap) -/

def splitAllC : List Char → List Char → List String
  | [], acc => [String.ofList acc.reverse]
  | c :: cs, acc => if c = '/' then String.ofList acc.reverse :: splitAllC cs [] else splitAllC cs (c :: acc)

/-- all `/`-separated segments of a string -/
def splitAll (s : String) : List String := splitAllC s.toList []

/-- structural rules shared by topics and patterns: non-empty, at most `maxTopicLen` bytes, at most
`maxSegments` segments, no empty segment (no leading / trailing / doubled separator) -/
structure TopicShape (s : String) : Prop where
  nonempty : s.utf8ByteSize ≠ 0
  short : s.utf8ByteSize ≤ maxTopicLen
  few : (splitAll s).length ≤ maxSegments
  noEmpty : ∀ g ∈ splitAll s, g ≠ ""

/-- a publish topic: the shape, and no `*` / `>` character anywhere -/
def TopicGrammar (s : String) : Prop :=
  TopicShape s ∧ ∀ g ∈ splitAll s, hasWildChar g = false

/-- a subscription pattern: the shape; every segment is `*`, or `>` in the last position, or free of
`*` / `>` characters -/
def PatternGrammar (s : String) : Prop :=
  TopicShape s ∧ ∀ (i : Nat) (h : i < (splitAll s).length),
    (splitAll s)[i] = wildcardOne ∨ ((splitAll s)[i] = wildcardTail ∧ i + 1 = (splitAll s).length) ∨
      hasWildChar (splitAll s)[i] = false

/-- the client-side acceptance condition of the property: well-formed topic, local interest, claimed
identity is a key of a member, owner-namespace rule, not stale, signature verifies under the claimed
identity, id not recorded (not replayed), payload readable -/
def ClientSt.accepts (s : ClientSt) (space topic claimed : String) (sigOk : Bool) (ts : TsClass)
    (id : Nat) (keyId : Bool) : Bool :=
  validateTopic topic && !(s.localMatch space topic).isEmpty &&
  (match ctxAccount claimed with
   | some acct => s.isMember space acct && (topicOwner topic == "" || acct == topicOwner topic)
   | none => false) &&
  !ClientSt.stale ts && sigOk && !s.ring.contains id && !keyId

/-- the node reached by following `q` from a level -/
def nodeAt : Level → List String → Option Node
  | _, [] => none
  | l, [s] => lookup s l
  | l, s :: t :: r => match lookup s l with | some n => nodeAt n.kids (t :: r) | none => none

/-- Structural invariant of a level whose nodes hang under the path `pre`:
keys are distinct; a referenced node stores the pattern that spells its own path; no node is both
unreferenced and childless (pruning); recursively for the children. -/
inductive WF : List String → Level → Prop
  | intro {pre : List String} {l : Level}
      (nodup : (l.map Prod.fst).Nodup)
      (pat : ∀ k n, (k, n) ∈ l → n.refs > 0 → splitTopic n.pat = pre ++ [k])
      (live : ∀ k n, (k, n) ∈ l → n.refs > 0 ∨ n.kids ≠ [])
      (sub : ∀ k n, (k, n) ∈ l → WF (pre ++ [k]) n.kids) : WF pre l

/-- tries built from the empty trie by `Add` / `Remove` of arbitrary strings -/
inductive Trie.Reachable : Trie → Prop
  | empty : Trie.Reachable Trie.empty
  | add {t : Trie} (p : String) : Trie.Reachable t → Trie.Reachable (t.add p).1
  | remove {t : Trie} (p : String) : Trie.Reachable t → Trie.Reachable (t.remove p).1

mutual
/-- number of referenced nodes below a node / in a level (tree recursion) -/
def Node.live : Node → Nat
  | .mk r _ kids => (if r > 0 then 1 else 0) + liveLevel kids
def liveLevel : List (String × Node) → Nat
  | [] => 0
  | (_, n) :: rest => n.live + liveLevel rest
end

mutual
/-- the paths of all referenced nodes (relative to the level) -/
def Node.paths : Node → List (List String)
  | .mk r _ kids => (if r > 0 then [[]] else []) ++ pathsLevel kids
def pathsLevel : List (String × Node) → List (List String)
  | [] => []
  | (k, n) :: rest => (n.paths.map (k :: ·)) ++ pathsLevel rest
end

/-! ### serving side: the relation the three views describe -/

/-- registered interest according to the per-stream records (`streams[id].bySpace[space]`) -/
def NodeSt.Reg (s : NodeSt) (sid : Nat) (space p : String) : Prop :=
  ∃ r, alookup sid s.streams = some r ∧ p ∈ r.pats space

/-- the record holds `p` under `space` -/
def StreamRec.has (r : StreamRec) (space p : String) : Bool := (r.pats space).contains p

/-- number of stream records that hold `p` under `space` (what the trie refcount must be) -/
def regCount (streams : List (Nat × StreamRec)) (space p : String) : Nat :=
  streams.countP (fun e => e.2.has space p)

/-- a stream record is well formed: spaces are distinct keys, every entry is a non-empty duplicate-free
pattern list, and `total` is the number of patterns across spaces -/
structure RecOK0 (r : StreamRec) : Prop where
  keys : (r.bySpace.map Prod.fst).Nodup
  entries : ∀ sp ps, (sp, ps) ∈ r.bySpace → ps.Nodup ∧ ps ≠ []
  total : r.total = (r.bySpace.map (fun e => e.2.length)).sum

/-- … and a record that is kept is not empty -/
structure RecOK (r : StreamRec) : Prop extends RecOK0 r where
  nonempty : r.bySpace ≠ []

/-- the invariant without "every registered space has a trie" (that one is suspended inside
`CloseSpace`, which deletes the trie first) -/
structure NodeSt.AgreeCore (s : NodeSt) : Prop where
  poolNodup : (s.pool.map (·.sid)).Nodup
  streamsNodup : (s.streams.map Prod.fst).Nodup
  recOK : ∀ sid r, alookup sid s.streams = some r → RecOK r
  trieReach : ∀ space t, alookup space s.remote = some t → t.Reachable
  trieCount : ∀ space t, alookup space s.remote = some t → ∀ p, t.count p = regCount s.streams space p
  trieLive : ∀ space t, alookup space s.remote = some t → t.size ≠ 0
  tags : ∀ st, st ∈ s.pool → ∀ tag, (tag ∈ st.tags ↔ ∃ space p, s.Reg st.sid space p ∧ tag = interestTag space p)
  validReg : ∀ sid space p, s.Reg sid space p → validSpaceId space = true

/-- **the three views agree**: the space tries (`remote`: refcount of a pattern = number of streams
that registered it, no empty trie), the per-stream records (`streams`: well formed, none empty) and
the stream tags of the pool describe one relation `(stream, space, pattern)`. A stream may be
recorded without being in the pool: that is the window between the pool's removal of a closing stream
and its close hook (`poolRemove` / `closeHook` are separate steps). -/
structure NodeSt.Agree (s : NodeSt) : Prop extends NodeSt.AgreeCore s where
  trieHas : ∀ sid space p, s.Reg sid space p → ∃ t, alookup space s.remote = some t

/-- all interest bookkeeping is gone: no space trie, no stream record, no tag -/
def NodeSt.cleanB (s : NodeSt) : Bool :=
  s.remote.isEmpty && s.streams.isEmpty && s.pool.all (·.tags.isEmpty)

def NodeSt.Clean (s : NodeSt) : Prop := s.cleanB = true

/-- one serving-side step -/
inductive NodeOp where
  | openStream (sid : Nat) (peer ident : String)
  | subscribe (sid : Nat) (peer ident space : String) (topics : List String)
  | unsubscribe (sid : Nat) (space : String) (topics : List String)
  | publish (peer ident space topic msgIdent : String) (relayed idLenOk big : Bool)
  | closeStream (sid : Nat)
  | poolRemove (sid : Nat)
  | closeHook (sid : Nat)
  | evict (space acct : String)
  | revalidate (space : String)
  | closeSpace (space : String)
  | setMember (space acct : String) (v : Bool)

def NodeSt.step (s : NodeSt) : NodeOp → NodeSt
  | .openStream sid peer ident =>
      -- pool ids are never reused: the id is neither in the pool nor still recorded
      if (s.poolStream sid).isSome || (alookup sid s.streams).isSome then s else s.openStream sid peer ident
  | .subscribe sid peer ident space topics => (s.handleSubscribe sid peer ident space topics).1
  | .unsubscribe sid space topics => s.handleUnsubscribe sid space topics
  | .publish peer ident space topic msgIdent relayed idLenOk big =>
      (s.handlePublish peer ident space topic msgIdent relayed idLenOk big).1
  | .closeStream sid => s.closeStream sid
  | .poolRemove sid => s.poolRemove sid
  -- the close hook runs only for a stream the pool has already dropped
  | .closeHook sid => if (s.poolStream sid).isSome then s else s.onStreamClose sid
  | .evict space acct => s.evictMember space acct
  | .revalidate space => s.revalidate space
  | .closeSpace space => s.closeSpace space
  | .setMember space acct v => s.setMember space acct v

/-- states reached from an empty service (any caps / burst) by any operation sequence -/
def NodeSt.run (s : NodeSt) (ops : List NodeOp) : NodeSt := ops.foldl NodeSt.step s

/-- the publisher conditions of the property for a frame arriving on a stream of `peer` whose
handshake-proven identity is `ident` -/
def NodeSt.publishAccepted (s : NodeSt) (peer ident space topic msgIdent : String)
    (relayed idLenOk big : Bool) : Bool :=
  idLenOk && !big && validateTopic topic && !s.notResp.contains space &&
  (if relayed then s.nodePeers.contains peer
   else ident ≠ "-" && msgIdent == ident &&
     (match ctxAccount ident with
      | some acct => s.isMember space acct && (topicOwner topic == "" || acct == topicOwner topic)
      | none => false) &&
     decide ((alookup peer s.rateUsed).getD 0 < s.burst))

end AnySync.PubSub
