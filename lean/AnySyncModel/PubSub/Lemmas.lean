import AnySyncModel.PubSub.Spec
/-! helper lemmas for `Props/C17.lean` -/
namespace AnySync.PubSub
open Generated.PubSub

/-! ### association-list facts for trie levels -/

@[simp] theorem lookup_nil (k : String) : lookup k [] = none := rfl

theorem lookup_setKid_same (k : String) (n : Node) (l : Level) : lookup k (setKid k n l) = some n := by
  induction l with
  | nil => simp [setKid, lookup]
  | cons e rest ih =>
    obtain ⟨k', n'⟩ := e
    by_cases h : k' = k <;> simp [setKid, lookup, h, ih]

theorem lookup_setKid_ne {k k' : String} (h : k' ≠ k) (n : Node) (l : Level) :
    lookup k' (setKid k n l) = lookup k' l := by
  induction l with
  | nil => simp [setKid, lookup]; intro h'; exact absurd h'.symm h
  | cons e rest ih =>
    obtain ⟨k₀, n₀⟩ := e
    by_cases h0 : k₀ = k
    · subst h0; simp [setKid, lookup, Ne.symm h]
    · by_cases h1 : k₀ = k'
      · subst h1; simp [setKid, lookup, h0]
      · simp [setKid, lookup, h0, h1, ih]

theorem lookup_eraseKid_same (k : String) (l : Level) : lookup k (eraseKid k l) = none := by
  induction l with
  | nil => rfl
  | cons e rest ih =>
    obtain ⟨k₀, n₀⟩ := e
    by_cases h0 : k₀ = k <;> simp [eraseKid, h0, lookup, ih]

theorem lookup_eraseKid_ne {k k' : String} (h : k' ≠ k) (l : Level) :
    lookup k' (eraseKid k l) = lookup k' l := by
  induction l with
  | nil => rfl
  | cons e rest ih =>
    obtain ⟨k₀, n₀⟩ := e
    by_cases h0 : k₀ = k
    · subst h0; simp [eraseKid, lookup, Ne.symm h, ih]
    · by_cases h1 : k₀ = k'
      · subst h1; simp [eraseKid, h0, lookup]
      · simp [eraseKid, h0, lookup, h1, ih]

@[simp] theorem refsAt_nil (q : List String) : refsAt [] q = 0 := by
  cases q with
  | nil => rfl
  | cons a r => cases r <;> simp [refsAt]

/-! ### `trie_abs`: add / remove act on the path ↦ refcount abstraction as multiset insert / erase -/

theorem refsAt_addLevel (pat : String) (segs : List String) (hs : segs ≠ []) (l : Level) (q : List String) :
    refsAt (addLevel pat segs l).1 q = refsAt l q + (if q = segs then 1 else 0) := by
  induction segs generalizing l q with
  | nil => exact absurd rfl hs
  | cons s rest ih =>
    cases rest with
    | nil =>
      simp only [addLevel]
      match q with
      | [] => simp [refsAt]
      | [a] =>
        by_cases ha : a = s
        · subst ha
          simp only [refsAt, lookup_setKid_same, if_true]
          cases h : lookup a l <;> simp
        · simp [refsAt, lookup_setKid_ne ha, ha]
      | a :: b :: r =>
        by_cases ha : a = s
        · subst ha
          simp only [refsAt, lookup_setKid_same]
          cases h : lookup a l <;> simp
        · simp [refsAt, lookup_setKid_ne ha]
    | cons t rest' =>
      simp only [addLevel]
      match q with
      | [] => simp [refsAt]
      | [a] =>
        by_cases ha : a = s
        · subst ha
          simp only [refsAt, lookup_setKid_same]
          cases h : lookup a l <;> simp
        · simp [refsAt, lookup_setKid_ne ha]
      | a :: b :: r =>
        by_cases ha : a = s
        · subst ha
          simp only [refsAt, lookup_setKid_same, Node.kids_mk]
          rw [ih (by simp)]
          cases h : lookup a l <;> simp
        · simp [refsAt, lookup_setKid_ne ha, ha]

theorem addLevel_new_iff (pat : String) (segs : List String) (hs : segs ≠ []) (l : Level) :
    (addLevel pat segs l).2 = true ↔ refsAt l segs = 0 := by
  induction segs generalizing l with
  | nil => exact absurd rfl hs
  | cons s rest ih =>
    cases rest with
    | nil =>
      simp only [addLevel, refsAt]
      cases lookup s l <;> simp
    | cons t rest' =>
      simp only [addLevel, refsAt]
      rw [ih (by simp)]
      cases lookup s l <;> simp

theorem refsAt_removeLevel (segs : List String) (l : Level) (q : List String) :
    refsAt (removeLevel segs l).1 q = refsAt l q - (if q = segs then 1 else 0) := by
  induction segs generalizing l q with
  | nil =>
    simp only [removeLevel]
    by_cases hq : q = []
    · subst hq; simp [refsAt]
    · simp [hq]
  | cons s rest ih =>
    cases rest with
    | nil =>
      simp only [removeLevel]
      cases hl : lookup s l with
      | none =>
        simp only
        by_cases hq : q = [s]
        · subst hq; simp [refsAt, hl]
        · simp [hq]
      | some n =>
        simp only
        by_cases h0 : n.refs = 0
        · simp only [h0, if_true]
          by_cases hq : q = [s]
          · subst hq; simp [refsAt, hl, h0]
          · simp [hq]
        · simp only [h0, if_false]
          by_cases h1 : n.refs - 1 > 0
          · simp only [h1, if_true]
            match q with
            | [] => simp [refsAt]
            | [a] =>
              by_cases ha : a = s
              · subst ha; simp [refsAt, lookup_setKid_same, hl]
              · simp [refsAt, lookup_setKid_ne ha, ha]
            | a :: b :: r =>
              by_cases ha : a = s
              · subst ha; simp [refsAt, lookup_setKid_same, hl]
              · simp [refsAt, lookup_setKid_ne ha]
          · simp only [h1, if_false]
            by_cases hk : n.kids = []
            · simp only [hk, if_true]
              match q with
              | [] => simp [refsAt]
              | [a] =>
                by_cases ha : a = s
                · subst ha; simp [refsAt, lookup_eraseKid_same, hl]; omega
                · simp [refsAt, lookup_eraseKid_ne ha, ha]
              | a :: b :: r =>
                by_cases ha : a = s
                · subst ha; simp [refsAt, lookup_eraseKid_same, hl, hk]
                · simp [refsAt, lookup_eraseKid_ne ha]
            · simp only [hk, if_false]
              match q with
              | [] => simp [refsAt]
              | [a] =>
                by_cases ha : a = s
                · subst ha; simp [refsAt, lookup_setKid_same, hl]; omega
                · simp [refsAt, lookup_setKid_ne ha, ha]
              | a :: b :: r =>
                by_cases ha : a = s
                · subst ha; simp [refsAt, lookup_setKid_same, hl]
                · simp [refsAt, lookup_setKid_ne ha]
    | cons t rest' =>
      simp only [removeLevel]
      cases hl : lookup s l with
      | none =>
        simp only
        by_cases hq : q = s :: t :: rest'
        · subst hq; simp [refsAt, hl]
        · simp [hq]
      | some n =>
        simp only
        have ihk := fun q' => ih n.kids q'
        by_cases hp : n.refs = 0 ∧ (removeLevel (t :: rest') n.kids).1 = []
        · simp only [hp, and_self, if_true]
          match q with
          | [] => simp [refsAt]
          | [a] =>
            by_cases ha : a = s
            · subst ha; simp [refsAt, lookup_eraseKid_same, hl, hp.1]
            · simp [refsAt, lookup_eraseKid_ne ha]
          | a :: b :: r =>
            by_cases ha : a = s
            · subst ha
              have := ihk (b :: r)
              rw [hp.2] at this
              simp [refsAt, lookup_eraseKid_same, hl] at this ⊢
              omega
            · simp [refsAt, lookup_eraseKid_ne ha, ha]
        · simp only [hp, if_false]
          match q with
          | [] => simp [refsAt]
          | [a] =>
            by_cases ha : a = s
            · subst ha; simp [refsAt, lookup_setKid_same, hl]
            · simp [refsAt, lookup_setKid_ne ha]
          | a :: b :: r =>
            by_cases ha : a = s
            · subst ha
              simp only [refsAt, lookup_setKid_same, hl, Node.kids_mk]
              rw [ihk (b :: r)]
              simp
            · simp [refsAt, lookup_setKid_ne ha, ha]

/-! ### membership / key facts -/

theorem mem_of_lookup {k : String} {n : Node} {l : Level} (h : lookup k l = some n) : (k, n) ∈ l := by
  induction l with
  | nil => simp [lookup] at h
  | cons e rest ih =>
    obtain ⟨k₀, n₀⟩ := e
    by_cases h0 : k₀ = k
    · subst h0; simp [lookup] at h; subst h; simp
    · simp [lookup, h0] at h; exact List.mem_cons_of_mem _ (ih h)

theorem lookup_of_mem {k : String} {n : Node} {l : Level} (hn : (l.map Prod.fst).Nodup)
    (h : (k, n) ∈ l) : lookup k l = some n := by
  induction l with
  | nil => simp at h
  | cons e rest ih =>
    obtain ⟨k₀, n₀⟩ := e
    simp only [List.map_cons, List.nodup_cons] at hn
    rcases List.mem_cons.mp h with h | h
    · cases h; simp [lookup]
    · have : k₀ ≠ k := by
        intro hk; subst hk
        exact hn.1 (List.mem_map.mpr ⟨(k₀, n), h, rfl⟩)
      simp [lookup, this, ih hn.2 h]

theorem lookup_none_iff {k : String} {l : Level} : lookup k l = none ↔ k ∉ l.map Prod.fst := by
  induction l with
  | nil => simp
  | cons e rest ih =>
    obtain ⟨k₀, n₀⟩ := e
    by_cases h0 : k₀ = k
    · subst h0; simp [lookup]
    · have h0' : ¬ k = k₀ := fun h => h0 h.symm
      simp [lookup, h0, h0', ih]

theorem mem_setKid {k k' : String} {n n' : Node} {l : Level} (hn : (l.map Prod.fst).Nodup)
    (h : (k', n') ∈ setKid k n l) : (k' = k ∧ n' = n) ∨ ((k', n') ∈ l ∧ k' ≠ k) := by
  induction l with
  | nil => simp [setKid] at h; exact Or.inl h
  | cons e rest ih =>
    obtain ⟨k₀, n₀⟩ := e
    simp only [List.map_cons, List.nodup_cons] at hn
    by_cases h0 : k₀ = k
    · subst h0
      simp [setKid] at h
      rcases h with h | h
      · exact Or.inl h
      · right
        refine ⟨List.mem_cons_of_mem _ h, ?_⟩
        intro hk; subst hk
        exact hn.1 (List.mem_map.mpr ⟨(k', n'), h, rfl⟩)
    · simp [setKid, h0] at h
      rcases h with h | h
      · right; obtain ⟨h1, h2⟩ := h; subst h1; subst h2; exact ⟨List.mem_cons_self, h0⟩
      · rcases ih hn.2 h with h | h
        · exact Or.inl h
        · exact Or.inr ⟨List.mem_cons_of_mem _ h.1, h.2⟩

theorem keys_setKid (k : String) (n : Node) (l : Level) :
    (setKid k n l).map Prod.fst = if k ∈ l.map Prod.fst then l.map Prod.fst else l.map Prod.fst ++ [k] := by
  induction l with
  | nil => simp [setKid]
  | cons e rest ih =>
    obtain ⟨k₀, n₀⟩ := e
    by_cases h0 : k₀ = k
    · subst h0; simp [setKid]
    · have h0' : ¬ k = k₀ := fun h => h0 h.symm
      simp only [setKid, h0, if_false, List.map_cons, ih, List.mem_cons, h0', false_or]
      split <;> simp

theorem nodup_setKid {k : String} {n : Node} {l : Level} (hn : (l.map Prod.fst).Nodup) :
    ((setKid k n l).map Prod.fst).Nodup := by
  rw [keys_setKid]
  split
  · exact hn
  · rename_i h
    exact List.nodup_append.mpr ⟨hn, by simp, by intro a ha b hb; simp at hb; subst hb; intro hab; subst hab; exact h ha⟩

theorem mem_eraseKid {k k' : String} {n' : Node} {l : Level} :
    (k', n') ∈ eraseKid k l ↔ (k', n') ∈ l ∧ k' ≠ k := by
  induction l with
  | nil => simp [eraseKid]
  | cons e rest ih =>
    obtain ⟨k₀, n₀⟩ := e
    by_cases h0 : k₀ = k
    · subst h0
      simp only [eraseKid, if_true, ih, List.mem_cons, Prod.mk.injEq]
      constructor
      · rintro ⟨h1, h2⟩; exact ⟨Or.inr h1, h2⟩
      · rintro ⟨h1 | h1, h2⟩
        · exact absurd h1.1 h2
        · exact ⟨h1, h2⟩
    · simp only [eraseKid, h0, if_false, List.mem_cons, ih, Prod.mk.injEq]
      constructor
      · rintro (⟨h1, h2⟩ | ⟨h1, h2⟩)
        · subst h1; subst h2; exact ⟨Or.inl ⟨rfl, rfl⟩, h0⟩
        · exact ⟨Or.inr h1, h2⟩
      · rintro ⟨h1 | h1, h2⟩
        · exact Or.inl h1
        · exact Or.inr ⟨h1, h2⟩

theorem nodup_eraseKid {k : String} {l : Level} (hn : (l.map Prod.fst).Nodup) :
    ((eraseKid k l).map Prod.fst).Nodup := by
  induction l with
  | nil => simp [eraseKid]
  | cons e rest ih =>
    obtain ⟨k₀, n₀⟩ := e
    simp only [List.map_cons, List.nodup_cons] at hn
    by_cases h0 : k₀ = k
    · simp [eraseKid, h0, ih hn.2]
    · simp only [eraseKid, h0, if_false, List.map_cons, List.nodup_cons]
      refine ⟨?_, ih hn.2⟩
      intro hm
      obtain ⟨⟨k1, n1⟩, h1, h2⟩ := List.mem_map.mp hm
      simp at h2; subst h2
      exact hn.1 (List.mem_map.mpr ⟨(k1, n1), (mem_eraseKid.mp h1).1, rfl⟩)

/-! ### the structural invariant is kept by `Add` / `Remove` -/

theorem WF.nil (pre : List String) : WF pre [] :=
  WF.intro (by simp) (by simp) (by simp) (by simp)

theorem WF.nodup' {pre : List String} {l : Level} (h : WF pre l) : (l.map Prod.fst).Nodup := by
  cases h; assumption
theorem WF.pat' {pre : List String} {l : Level} (h : WF pre l) {k : String} {n : Node} (hm : (k, n) ∈ l)
    (hr : n.refs > 0) : splitTopic n.pat = pre ++ [k] := by
  cases h with | intro _ hp _ _ => exact hp k n hm hr
theorem WF.live' {pre : List String} {l : Level} (h : WF pre l) {k : String} {n : Node} (hm : (k, n) ∈ l) :
    n.refs > 0 ∨ n.kids ≠ [] := by
  cases h with | intro _ _ hl _ => exact hl k n hm
theorem WF.sub' {pre : List String} {l : Level} (h : WF pre l) {k : String} {n : Node} (hm : (k, n) ∈ l) :
    WF (pre ++ [k]) n.kids := by
  cases h with | intro _ _ _ hs => exact hs k n hm

theorem WF.kidsOf {pre : List String} {l : Level} (h : WF pre l) (s : String) :
    WF (pre ++ [s]) ((lookup s l).getD Node.fresh).kids := by
  cases hl : lookup s l with
  | none => simpa using WF.nil _
  | some n => simpa using h.sub' (mem_of_lookup hl)

theorem setKid_ne_nil (k : String) (n : Node) (l : Level) : setKid k n l ≠ [] := by
  cases l with
  | nil => simp [setKid]
  | cons e rest => obtain ⟨k₀, n₀⟩ := e; by_cases h : k₀ = k <;> simp [setKid, h]

theorem addLevel_ne_nil (pat : String) (segs : List String) (hs : segs ≠ []) (l : Level) :
    (addLevel pat segs l).1 ≠ [] := by
  match segs with
  | [] => exact absurd rfl hs
  | [s] => simp only [addLevel]; exact setKid_ne_nil _ _ _
  | s :: t :: rest => simp only [addLevel]; exact setKid_ne_nil _ _ _

theorem WF_addLevel (pat : String) (segs : List String) (hs : segs ≠ []) (pre : List String) (l : Level)
    (hp : splitTopic pat = pre ++ segs) (h : WF pre l) : WF pre (addLevel pat segs l).1 := by
  induction segs generalizing pre l with
  | nil => exact absurd rfl hs
  | cons s rest ih =>
    cases rest with
    | nil =>
      simp only [addLevel]
      refine WF.intro (nodup_setKid h.nodup') ?_ ?_ ?_
      · intro k n hm hr
        rcases mem_setKid h.nodup' hm with ⟨hk, hn⟩ | ⟨hm', _⟩
        · subst hk; subst hn; simpa using hp
        · exact h.pat' hm' hr
      · intro k n hm
        rcases mem_setKid h.nodup' hm with ⟨hk, hn⟩ | ⟨hm', _⟩
        · subst hn; left; simp
        · exact h.live' hm'
      · intro k n hm
        rcases mem_setKid h.nodup' hm with ⟨hk, hn⟩ | ⟨hm', _⟩
        · subst hk; subst hn; simpa using h.kidsOf k
        · exact h.sub' hm'
    | cons t rest' =>
      simp only [addLevel]
      refine WF.intro (nodup_setKid h.nodup') ?_ ?_ ?_
      · intro k n hm hr
        rcases mem_setKid h.nodup' hm with ⟨hk, hn⟩ | ⟨hm', _⟩
        · subst hk; subst hn
          simp only [Node.refs_mk, Node.pat_mk] at hr ⊢
          cases hl : lookup k l with
          | none => simp [hl] at hr
          | some n0 => simp only [hl, Option.getD_some] at hr ⊢; exact h.pat' (mem_of_lookup hl) hr
        · exact h.pat' hm' hr
      · intro k n hm
        rcases mem_setKid h.nodup' hm with ⟨hk, hn⟩ | ⟨hm', _⟩
        · subst hn; right; simpa using addLevel_ne_nil pat (t :: rest') (by simp) _
        · exact h.live' hm'
      · intro k n hm
        rcases mem_setKid h.nodup' hm with ⟨hk, hn⟩ | ⟨hm', _⟩
        · subst hk; subst hn
          simp only [Node.kids_mk]
          exact ih (by simp) (pre ++ [k]) _ (by simpa using hp) (h.kidsOf k)
        · exact h.sub' hm'

theorem WF_of_mem_sub {pre : List String} {l l' : Level} (h : WF pre l)
    (hn : (l'.map Prod.fst).Nodup) (hsub : ∀ k n, (k, n) ∈ l' → (k, n) ∈ l) : WF pre l' :=
  WF.intro hn (fun _ _ hm hr => h.pat' (hsub _ _ hm) hr) (fun _ _ hm => h.live' (hsub _ _ hm))
    (fun _ _ hm => h.sub' (hsub _ _ hm))

theorem WF_setKid {pre : List String} {l : Level} (h : WF pre l) (s : String) (N : Node)
    (hpat : N.refs > 0 → splitTopic N.pat = pre ++ [s]) (hlive : N.refs > 0 ∨ N.kids ≠ [])
    (hsub : WF (pre ++ [s]) N.kids) : WF pre (setKid s N l) := by
  refine WF.intro (nodup_setKid h.nodup') ?_ ?_ ?_
  · intro k n hm hr
    rcases mem_setKid h.nodup' hm with ⟨hk, hn⟩ | ⟨hm', _⟩
    · subst hk; subst hn; exact hpat hr
    · exact h.pat' hm' hr
  · intro k n hm
    rcases mem_setKid h.nodup' hm with ⟨hk, hn⟩ | ⟨hm', _⟩
    · subst hn; exact hlive
    · exact h.live' hm'
  · intro k n hm
    rcases mem_setKid h.nodup' hm with ⟨hk, hn⟩ | ⟨hm', _⟩
    · subst hk; subst hn; exact hsub
    · exact h.sub' hm'

theorem WF_eraseKid {pre : List String} {l : Level} (h : WF pre l) (s : String) : WF pre (eraseKid s l) :=
  WF_of_mem_sub h (nodup_eraseKid h.nodup') (fun _ _ hm => (mem_eraseKid.mp hm).1)

theorem WF_removeLevel (segs : List String) (pre : List String) (l : Level) (h : WF pre l) :
    WF pre (removeLevel segs l).1 := by
  induction segs generalizing pre l with
  | nil => simpa [removeLevel] using h
  | cons s rest ih =>
    cases rest with
    | nil =>
      simp only [removeLevel]
      cases hl : lookup s l with
      | none => exact h
      | some n =>
        have hm := mem_of_lookup hl
        simp only
        split
        · exact h
        · split
          · rename_i h0 h1
            exact WF_setKid h s _ (fun _ => by simpa using h.pat' hm (by omega)) (Or.inl (by simpa using h1))
              (by simpa using h.sub' hm)
          · split
            · exact WF_eraseKid h s
            · rename_i hk
              exact WF_setKid h s _ (by simp) (Or.inr (by simpa using hk)) (by simpa using h.sub' hm)
    | cons t rest' =>
      simp only [removeLevel]
      cases hl : lookup s l with
      | none => exact h
      | some n =>
        have hm := mem_of_lookup hl
        simp only
        split
        · exact WF_eraseKid h s
        · rename_i hp
          refine WF_setKid h s _ (fun hr => by simpa using h.pat' hm (by simpa using hr)) ?_
            (by simpa using ih (pre ++ [s]) n.kids (h.sub' hm))
          simp only [Node.refs_mk, Node.kids_mk]
          by_cases h0 : n.refs = 0
          · right; intro hnil; exact hp ⟨h0, hnil⟩
          · left; omega

/-! ### `Len`: the size counter equals the number of referenced nodes -/

theorem Node.live_eq (n : Node) : n.live = (if n.refs > 0 then 1 else 0) + liveLevel n.kids := by
  cases n with | mk r p k => simp [Node.live]

@[simp] theorem liveLevel_nil : liveLevel [] = 0 := by simp [liveLevel]
@[simp] theorem liveLevel_cons (k : String) (n : Node) (rest : Level) :
    liveLevel ((k, n) :: rest) = n.live + liveLevel rest := by simp [liveLevel]

theorem liveLevel_setKid (k : String) (N : Node) (l : Level) :
    liveLevel (setKid k N l) + (match lookup k l with | some n => n.live | none => 0) =
      liveLevel l + N.live := by
  induction l with
  | nil => simp [setKid]
  | cons e rest ih =>
    obtain ⟨k₀, n₀⟩ := e
    by_cases h0 : k₀ = k
    · subst h0; simp [setKid, lookup]; omega
    · simp only [setKid, h0, if_false, lookup, liveLevel_cons]; omega

theorem eraseKid_of_not_mem {k : String} {l : Level} (h : k ∉ l.map Prod.fst) : eraseKid k l = l := by
  induction l with
  | nil => rfl
  | cons e rest ih =>
    obtain ⟨k₀, n₀⟩ := e
    simp only [List.map_cons, List.mem_cons, not_or] at h
    have h0 : ¬ k₀ = k := fun hh => h.1 hh.symm
    simp [eraseKid, h0, ih h.2]

theorem liveLevel_eraseKid {k : String} {n : Node} {l : Level} (hn : (l.map Prod.fst).Nodup)
    (hl : lookup k l = some n) : liveLevel (eraseKid k l) + n.live = liveLevel l := by
  induction l with
  | nil => simp [lookup] at hl
  | cons e rest ih =>
    obtain ⟨k₀, n₀⟩ := e
    simp only [List.map_cons, List.nodup_cons] at hn
    by_cases h0 : k₀ = k
    · subst h0
      simp [lookup] at hl; subst hl
      simp only [eraseKid, if_true, liveLevel_cons]
      rw [eraseKid_of_not_mem hn.1]; omega
    · simp only [lookup, h0, if_false] at hl
      simp only [eraseKid, h0, if_false, liveLevel_cons]
      have := ih hn.2 hl; omega

theorem live_add_last (s pat : String) (l : Level) (o : Option Node) (ho : lookup s l = o) :
    liveLevel (setKid s (.mk ((o.getD Node.fresh).refs + 1) pat (o.getD Node.fresh).kids) l) =
      liveLevel l + (if ((o.getD Node.fresh).refs + 1 == 1) = true then 1 else 0) := by
  have h := liveLevel_setKid s (.mk ((o.getD Node.fresh).refs + 1) pat (o.getD Node.fresh).kids) l
  rw [ho] at h
  cases o with
  | none => simp [Node.live_eq] at h ⊢; omega
  | some n =>
    simp only [Option.getD_some, Node.live_eq n, Node.live_eq (Node.mk _ _ _), Node.refs_mk, Node.kids_mk] at h ⊢
    by_cases hr : n.refs = 0
    · simp [hr] at h ⊢; omega
    · have : n.refs > 0 := by omega
      simp [this, hr] at h ⊢; omega

theorem live_add_inner (s : String) (l : Level) (o : Option Node) (ho : lookup s l = o) (k' : Level) (b : Bool)
    (hk : liveLevel k' = liveLevel (o.getD Node.fresh).kids + (if b = true then 1 else 0)) :
    liveLevel (setKid s (.mk (o.getD Node.fresh).refs (o.getD Node.fresh).pat k') l) =
      liveLevel l + (if b = true then 1 else 0) := by
  have h := liveLevel_setKid s (.mk (o.getD Node.fresh).refs (o.getD Node.fresh).pat k') l
  rw [ho] at h
  cases o with
  | none =>
    simp only [Option.getD_none, Node.live_eq (Node.mk _ _ _), Node.refs_mk, Node.kids_mk,
      Node.refs_fresh, Node.kids_fresh, Node.pat_fresh] at h hk ⊢
    simp at h hk
    omega
  | some n =>
    simp only [Option.getD_some, Node.live_eq n, Node.live_eq (Node.mk _ _ _), Node.refs_mk, Node.kids_mk] at h hk ⊢
    by_cases hr : n.refs > 0 <;> simp [hr] at h hk ⊢ <;> omega

theorem liveLevel_addLevel (pat : String) (segs : List String) (hs : segs ≠ []) (l : Level) :
    liveLevel (addLevel pat segs l).1 = liveLevel l + (if (addLevel pat segs l).2 = true then 1 else 0) := by
  induction segs generalizing l with
  | nil => exact absurd rfl hs
  | cons s rest ih =>
    cases rest with
    | nil => simp only [addLevel]; exact live_add_last s pat l _ rfl
    | cons t rest' =>
      simp only [addLevel]
      exact live_add_inner s l _ rfl _ _ (ih (by simp) _)

theorem live_rem_last (s : String) (pre : List String) (l : Level) (hw : WF pre l) (o : Option Node)
    (ho : lookup s l = o) :
    liveLevel (match o with
      | none => (l, false)
      | some n =>
        if n.refs = 0 then (l, false)
        else if n.refs - 1 > 0 then (setKid s (.mk (n.refs - 1) n.pat n.kids) l, false)
        else if n.kids = [] then (eraseKid s l, true)
        else (setKid s (.mk 0 "" n.kids) l, true)).1 +
      (if (match o with
      | none => (l, false)
      | some n =>
        if n.refs = 0 then (l, false)
        else if n.refs - 1 > 0 then (setKid s (.mk (n.refs - 1) n.pat n.kids) l, false)
        else if n.kids = [] then (eraseKid s l, true)
        else (setKid s (.mk 0 "" n.kids) l, true)).2 = true then 1 else 0) = liveLevel l := by
  cases o with
  | none => simp
  | some n =>
    simp only
    split
    · simp
    · rename_i h0
      split
      · rename_i h1
        have h := liveLevel_setKid s (.mk (n.refs - 1) n.pat n.kids) l
        rw [ho] at h
        simp only [Node.live_eq n, Node.live_eq (Node.mk _ _ _), Node.refs_mk, Node.kids_mk] at h
        have : n.refs > 0 := by omega
        simp [this, h1] at h ⊢; omega
      · rename_i h1
        split
        · rename_i hk
          have h := liveLevel_eraseKid hw.nodup' ho
          rw [Node.live_eq n, hk] at h
          have : n.refs > 0 := by omega
          simp [this] at h ⊢; omega
        · have h := liveLevel_setKid s (.mk 0 "" n.kids) l
          rw [ho] at h
          simp only [Node.live_eq n, Node.live_eq (Node.mk _ _ _), Node.refs_mk, Node.kids_mk] at h
          have : n.refs > 0 := by omega
          simp [this] at h ⊢; omega

theorem live_rem_inner (s : String) (pre : List String) (l : Level) (hw : WF pre l) (o : Option Node)
    (ho : lookup s l = o) (f : Node → Level × Bool)
    (hk : ∀ n, o = some n → liveLevel (f n).1 + (if (f n).2 = true then 1 else 0) = liveLevel n.kids) :
    liveLevel (match o with
      | none => (l, false)
      | some n => if n.refs = 0 ∧ (f n).1 = [] then (eraseKid s l, (f n).2)
                  else (setKid s (.mk n.refs n.pat (f n).1) l, (f n).2)).1 +
      (if (match o with
      | none => (l, false)
      | some n => if n.refs = 0 ∧ (f n).1 = [] then (eraseKid s l, (f n).2)
                  else (setKid s (.mk n.refs n.pat (f n).1) l, (f n).2)).2 = true then 1 else 0) = liveLevel l := by
  cases o with
  | none => simp
  | some n =>
    have hk' := hk n rfl
    simp only
    split
    · rename_i hp
      have h := liveLevel_eraseKid hw.nodup' ho
      rw [Node.live_eq n] at h
      rw [hp.2] at hk'
      simp [hp.1] at h hk' ⊢
      omega
    · have h := liveLevel_setKid s (.mk n.refs n.pat (f n).1) l
      rw [ho] at h
      simp only [Node.live_eq n, Node.live_eq (Node.mk _ _ _), Node.refs_mk, Node.kids_mk] at h
      simp only
      by_cases hr : n.refs > 0 <;> simp [hr] at h ⊢ <;> omega

theorem liveLevel_removeLevel (segs : List String) (pre : List String) (l : Level) (hw : WF pre l) :
    liveLevel (removeLevel segs l).1 + (if (removeLevel segs l).2 = true then 1 else 0) = liveLevel l := by
  induction segs generalizing pre l with
  | nil => simp [removeLevel]
  | cons s rest ih =>
    cases rest with
    | nil => simp only [removeLevel]; exact live_rem_last s pre l hw _ rfl
    | cons t rest' =>
      simp only [removeLevel]
      exact live_rem_inner s pre l hw _ rfl (fun n => removeLevel (t :: rest') n.kids)
        (fun n hn => ih (pre ++ [s]) n.kids (hw.sub' (mem_of_lookup hn)))

/-! ### `splitTopic` -/

theorem splitN_ne_nil (k : Nat) (cs acc : List Char) : splitN k cs acc ≠ [] := by
  induction cs generalizing k acc with
  | nil => simp [splitN]
  | cons c cs ih =>
    cases k with
    | zero => simpa [splitN] using ih 0 (c :: acc)
    | succ k =>
      simp only [splitN]
      split
      · simp
      · exact ih _ _

theorem joinChars_cons (s : String) (rest : List String) (h : rest ≠ []) :
    joinChars (s :: rest) = s.toList ++ '/' :: joinChars rest := by
  cases rest with
  | nil => exact absurd rfl h
  | cons t r => rfl

theorem joinChars_splitN (k : Nat) (cs acc : List Char) :
    joinChars (splitN k cs acc) = acc.reverse ++ cs := by
  induction cs generalizing k acc with
  | nil => simp [splitN, joinChars]
  | cons c cs ih =>
    cases k with
    | zero => simp [splitN, ih]
    | succ k =>
      simp only [splitN]
      split
      · rename_i hc
        rw [joinChars_cons _ _ (splitN_ne_nil _ _ _), ih]
        simp [hc]
      · simp [ih]

theorem splitTopic_ne_nil (s : String) : splitTopic s ≠ [] := splitN_ne_nil _ _ _

/-- `splitTopic` is inverted by joining with `/` -/
theorem joinTopic_splitTopic (s : String) : joinTopic (splitTopic s) = s := by
  simp [joinTopic, splitTopic, joinChars_splitN]

theorem splitTopic_injective {a b : String} (h : splitTopic a = splitTopic b) : a = b := by
  rw [← joinTopic_splitTopic a, ← joinTopic_splitTopic b, h]

theorem length_splitN (k : Nat) (cs acc : List Char) : (splitN k cs acc).length ≤ k + 1 := by
  induction cs generalizing k acc with
  | nil => simp [splitN]
  | cons c cs ih =>
    cases k with
    | zero => simpa [splitN] using ih 0 (c :: acc)
    | succ k =>
      simp only [splitN]
      split
      · simp; exact ih k []
      · exact ih _ _

/-! ### capped split vs full split; the validators against the grammar -/

theorem splitAllC_ne_nil (cs acc : List Char) : splitAllC cs acc ≠ [] := by
  induction cs generalizing acc with
  | nil => simp [splitAllC]
  | cons c cs ih => simp only [splitAllC]; split <;> simp [ih]

theorem splitN_eq_splitAll (k : Nat) (cs acc : List Char) (h : (splitAllC cs acc).length ≤ k + 1) :
    splitN k cs acc = splitAllC cs acc := by
  induction cs generalizing k acc with
  | nil => simp [splitN, splitAllC]
  | cons c cs ih =>
    by_cases hc : c = '/'
    · subst hc
      simp only [splitAllC, if_true, List.length_cons] at h
      cases k with
      | zero =>
        have := splitAllC_ne_nil cs []
        cases hl : splitAllC cs [] with
        | nil => exact absurd hl this
        | cons a b => simp [hl] at h
      | succ k => simp only [splitN, splitAllC, if_true]; rw [ih k [] (by omega)]
    · simp only [splitAllC, hc, if_false] at h
      cases k with
      | zero => simp only [splitN, splitAllC, hc, if_false]; exact ih 0 _ h
      | succ k => simp only [splitN, splitAllC, hc, if_false]; exact ih _ _ h

theorem length_splitN_of_long (k : Nat) (cs acc : List Char) (h : k + 1 < (splitAllC cs acc).length) :
    (splitN k cs acc).length = k + 1 := by
  induction cs generalizing k acc with
  | nil => simp [splitAllC] at h
  | cons c cs ih =>
    by_cases hc : c = '/'
    · subst hc
      simp only [splitAllC, if_true, List.length_cons] at h
      cases k with
      | zero =>
        -- no split left: the remainder stays one segment
        have : ∀ (cs acc : List Char), (splitN 0 cs acc).length = 1 := by
          intro cs; induction cs with
          | nil => intro acc; simp [splitN]
          | cons c cs ih' => intro acc; simpa [splitN] using ih' (c :: acc)
        exact this _ _
      | succ k => simp only [splitN, if_true, List.length_cons]; rw [ih k [] (by omega)]
    · simp only [splitAllC, hc, if_false] at h
      cases k with
      | zero =>
        have : ∀ (cs acc : List Char), (splitN 0 cs acc).length = 1 := by
          intro cs; induction cs with
          | nil => intro acc; simp [splitN]
          | cons c cs ih' => intro acc; simpa [splitN] using ih' (c :: acc)
        exact this _ _
      | succ k => simp only [splitN, hc, if_false]; exact ih _ _ h

/-- `validateSegments` on the capped split says exactly `TopicShape` -/
theorem validateSegments_iff (s : String) :
    validateSegments s.utf8ByteSize (splitTopic s) = true ↔ TopicShape s := by
  by_cases hlen : (splitAll s).length ≤ maxSegments + 1
  · have heq : splitTopic s = splitAll s := splitN_eq_splitAll _ _ _ hlen
    rw [heq]
    simp only [validateSegments, Bool.and_eq_true, Bool.not_eq_true', Bool.or_eq_false_iff,
      decide_eq_false_iff_not, List.all_eq_true, decide_eq_true_eq]
    constructor
    · rintro ⟨⟨⟨h1, h2⟩, h3⟩, h4⟩
      exact ⟨h1, by omega, by omega, fun g hg => by simpa using h4 g hg⟩
    · rintro ⟨h1, h2, h3, h4⟩
      exact ⟨⟨⟨h1, by omega⟩, by omega⟩, fun g hg => by simpa using h4 g hg⟩
  · have hl : (splitTopic s).length = maxSegments + 1 := length_splitN_of_long _ _ _ (by simpa [splitAll] using hlen)
    constructor
    · intro h
      simp only [validateSegments, Bool.and_eq_true, Bool.not_eq_true', decide_eq_false_iff_not] at h
      omega
    · intro h; have := h.few; omega

theorem hasWild_one : hasWildChar wildcardOne = true := by decide
theorem hasWild_tail : hasWildChar wildcardTail = true := by decide

theorem patternSegOk_iff (g : String) (last : Bool) :
    patternSegOk g last = true ↔ g = wildcardOne ∨ (g = wildcardTail ∧ last = true) ∨ hasWildChar g = false := by
  simp only [patternSegOk]
  by_cases h1 : g = wildcardOne
  · simp [h1]
  · by_cases h2 : g = wildcardTail
    · subst h2; simp [h1, hasWild_tail]
    · simp [h1, h2]

theorem patternSegsOk_iff (segs : List String) :
    patternSegsOk segs = true ↔ ∀ (i : Nat) (h : i < segs.length),
      segs[i] = wildcardOne ∨ (segs[i] = wildcardTail ∧ i + 1 = segs.length) ∨ hasWildChar segs[i] = false := by
  induction segs with
  | nil => simp [patternSegsOk]
  | cons a rest ih =>
    cases rest with
    | nil =>
      simp only [patternSegsOk, patternSegOk_iff, List.length_cons, List.length_nil]
      constructor
      · intro h i hi
        have : i = 0 := by omega
        subst this; simpa using h
      · intro h; simpa using h 0 (by omega)
    | cons b r =>
      simp only [patternSegsOk, Bool.and_eq_true, patternSegOk_iff, ih]
      constructor
      · rintro ⟨h0, h⟩ i hi
        cases i with
        | zero =>
          rcases h0 with h0 | h0 | h0
          · exact Or.inl h0
          · simp at h0
          · exact Or.inr (Or.inr h0)
        | succ i =>
          have := h i (by simpa using hi)
          simpa using this
      · intro h
        refine ⟨?_, fun i hi => ?_⟩
        · rcases h 0 (by simp) with h0 | h0 | h0
          · exact Or.inl h0
          · simp at h0
          · exact Or.inr (Or.inr h0)
        · have := h (i + 1) (by simpa using hi)
          simpa using this

/-! ### the trie's `Match` against the segment rule -/

/-- the node reached from `n0` by `q` (`[]` = `n0` itself) -/
def nodeUnder (n0 : Node) : List String → Option Node
  | [] => some n0
  | a :: q => nodeAt n0.kids (a :: q)

/-- one branch of `matchLevel`: the child consumed one segment, `rest` remains (`matchNode`) -/
def stepInto (o : Option Node) (rest : List String) : List String :=
  match rest with
  | [] => termOf o
  | t :: r => match o with
    | some n => matchLevel n.kids (t :: r)
    | none => []

theorem matchLevel_cons (l : Level) (t : String) (ts : List String) :
    matchLevel l (t :: ts) =
      termOf (lookup wildcardTail l) ++ stepInto (lookup wildcardOne l) ts ++ stepInto (literal t l) ts := by
  cases ts with
  | nil => rfl
  | cons t' r =>
    simp only [matchLevel, stepInto]
    cases lookup wildcardOne l <;> cases literal t l <;> rfl

theorem nodeAt_cons (l : Level) (a : String) (q : List String) :
    nodeAt l (a :: q) = (lookup a l).bind (fun n0 => nodeUnder n0 q) := by
  cases q with
  | nil => simp only [nodeAt, nodeUnder]; cases lookup a l <;> rfl
  | cons b r => simp only [nodeAt, nodeUnder]; cases lookup a l <;> rfl

theorem mem_termOf {p : String} {o : Option Node} :
    p ∈ termOf o ↔ ∃ n, o = some n ∧ n.refs > 0 ∧ n.pat = p := by
  cases o with
  | none => simp [termOf]
  | some n =>
    simp only [termOf]
    split
    · rename_i h; simp [h, eq_comm]
    · rename_i h; simp [h]

theorem segMatches_nil_right (q : List String) : segMatches q [] = true ↔ q = [] := by
  cases q <;> simp [segMatches]

theorem segMatches_nil_left (ts : List String) : segMatches [] ts = true ↔ ts = [] := by
  cases ts <;> simp [segMatches]

theorem wild_ne : wildcardOne ≠ wildcardTail := by decide

theorem segMatches_cons (a : String) (q : List String) (t : String) (ts : List String) :
    segMatches (a :: q) (t :: ts) = true ↔
      (a = wildcardTail ∧ q = []) ∨ (a = wildcardOne ∧ segMatches q ts = true) ∨
      (a ≠ wildcardTail ∧ a ≠ wildcardOne ∧ a = t ∧ segMatches q ts = true) := by
  simp only [segMatches]
  by_cases h1 : a = wildcardTail
  · subst h1
    have : wildcardTail ≠ wildcardOne := fun h => wild_ne h.symm
    simp [this, List.isEmpty_iff]
  · by_cases h2 : a = wildcardOne
    · subst h2; simp [h1]
    · simp [h1, h2]

theorem literal_eq_some {t : String} {l : Level} {n : Node} :
    literal t l = some n ↔ t ≠ wildcardOne ∧ t ≠ wildcardTail ∧ lookup t l = some n := by
  simp only [literal]
  split
  · rename_i h; constructor
    · intro h'; cases h'
    · rintro ⟨h1, h2, _⟩; rcases h with h | h
      · exact absurd h h1
      · exact absurd h h2
  · rename_i h
    have h' : t ≠ wildcardOne ∧ t ≠ wildcardTail := ⟨fun x => h (Or.inl x), fun x => h (Or.inr x)⟩
    simp [h'.1, h'.2]

/-- the matched-branch statement, given the characterisation one level down -/
theorem mem_stepInto {p : String} {o : Option Node} {rest : List String}
    (ih : ∀ l : Level, p ∈ matchLevel l rest ↔
      ∃ q n, nodeAt l q = some n ∧ n.refs > 0 ∧ n.pat = p ∧ segMatches q rest = true) :
    p ∈ stepInto o rest ↔
      ∃ n0, o = some n0 ∧ ∃ q n, nodeUnder n0 q = some n ∧ n.refs > 0 ∧ n.pat = p ∧ segMatches q rest = true := by
  cases rest with
  | nil =>
    simp only [stepInto, mem_termOf]
    constructor
    · rintro ⟨n, ho, hr, hp⟩
      exact ⟨n, ho, [], n, rfl, hr, hp, by simp [segMatches]⟩
    · rintro ⟨n0, ho, q, n, hq, hr, hp, hm⟩
      have : q = [] := (segMatches_nil_right q).mp hm
      subst this
      simp [nodeUnder] at hq; subst hq
      exact ⟨n0, ho, hr, hp⟩
  | cons t r =>
    cases o with
    | none => simp [stepInto]
    | some n0 =>
      simp only [stepInto, ih n0.kids]
      constructor
      · rintro ⟨q, n, hq, hr, hp, hm⟩
        refine ⟨n0, rfl, q, n, ?_, hr, hp, hm⟩
        cases q with
        | nil => simp [nodeAt] at hq
        | cons a q' => simpa [nodeUnder] using hq
      · rintro ⟨n0', ho, q, n, hq, hr, hp, hm⟩
        cases ho
        cases q with
        | nil => simp [segMatches] at hm
        | cons a q' => exact ⟨a :: q', n, by simpa [nodeUnder] using hq, hr, hp, hm⟩

/-- `Match` returns exactly the patterns stored at referenced nodes whose path matches the topic
segment by segment (no invariant needed). -/
theorem mem_matchLevel (p : String) (ts : List String) : ∀ l : Level,
    p ∈ matchLevel l ts ↔ ∃ q n, nodeAt l q = some n ∧ n.refs > 0 ∧ n.pat = p ∧ segMatches q ts = true := by
  induction ts with
  | nil =>
    intro l
    simp only [matchLevel, List.not_mem_nil, false_iff]
    rintro ⟨q, n, hq, _, _, hm⟩
    have : q = [] := (segMatches_nil_right q).mp hm
    subst this; simp [nodeAt] at hq
  | cons t ts ih =>
    intro l
    rw [matchLevel_cons]
    simp only [List.mem_append, mem_termOf, mem_stepInto ih]
    constructor
    · rintro ((⟨n, hl, hr, hp⟩ | ⟨n0, hl, q, n, hq, hr, hp, hm⟩) | ⟨n0, hl, q, n, hq, hr, hp, hm⟩)
      · exact ⟨[wildcardTail], n, by simpa [nodeAt] using hl, hr, hp, by simp [segMatches]⟩
      · refine ⟨wildcardOne :: q, n, ?_, hr, hp, ?_⟩
        · rw [nodeAt_cons, hl]; simpa using hq
        · rw [segMatches_cons]; right; left; exact ⟨rfl, hm⟩
      · obtain ⟨h1, h2, hl'⟩ := literal_eq_some.mp hl
        refine ⟨t :: q, n, ?_, hr, hp, ?_⟩
        · rw [nodeAt_cons, hl']; simpa using hq
        · rw [segMatches_cons]; right; right; exact ⟨h2, h1, rfl, hm⟩
    · rintro ⟨q, n, hq, hr, hp, hm⟩
      cases q with
      | nil => simp [segMatches] at hm
      | cons a q' =>
        rw [nodeAt_cons] at hq
        cases hl : lookup a l with
        | none => simp [hl] at hq
        | some n0 =>
          simp only [hl, Option.bind_some] at hq
          rcases (segMatches_cons a q' t ts).mp hm with ⟨ha, hq'⟩ | ⟨ha, hm'⟩ | ⟨h1, h2, ha, hm'⟩
          · subst ha; subst hq'
            simp [nodeUnder] at hq; subst hq
            exact Or.inl (Or.inl ⟨n0, hl, hr, hp⟩)
          · subst ha
            exact Or.inl (Or.inr ⟨n0, hl, q', n, hq, hr, hp, hm'⟩)
          · subst ha
            exact Or.inr ⟨n0, literal_eq_some.mpr ⟨h2, h1, hl⟩, q', n, hq, hr, hp, hm'⟩

/-! ### stored patterns spell their paths; `Match` lists every pattern once -/

theorem pat_of_nodeAt {pre : List String} {l : Level} (h : WF pre l) {q : List String} {n : Node}
    (hq : nodeAt l q = some n) (hr : n.refs > 0) : splitTopic n.pat = pre ++ q := by
  induction q generalizing pre l with
  | nil => simp [nodeAt] at hq
  | cons a q ih =>
    rw [nodeAt_cons] at hq
    cases hl : lookup a l with
    | none => simp [hl] at hq
    | some n0 =>
      simp only [hl, Option.bind_some] at hq
      have hm := mem_of_lookup hl
      cases q with
      | nil => simp [nodeUnder] at hq; subst hq; exact h.pat' hm hr
      | cons b r =>
        simp only [nodeUnder] at hq
        have := ih (h.sub' hm) hq
        simpa using this

theorem pat_of_nodeUnder {pre : List String} {l : Level} (h : WF pre l) {a : String} {n0 : Node}
    (hl : lookup a l = some n0) {q : List String} {n : Node}
    (hq : nodeUnder n0 q = some n) (hr : n.refs > 0) : splitTopic n.pat = pre ++ a :: q := by
  have : nodeAt l (a :: q) = some n := by rw [nodeAt_cons, hl]; simpa using hq
  exact pat_of_nodeAt h this hr

theorem refsAt_eq_nodeAt (l : Level) (q : List String) :
    refsAt l q = match nodeAt l q with | some n => n.refs | none => 0 := by
  induction q generalizing l with
  | nil => simp [refsAt, nodeAt]
  | cons a q ih =>
    cases q with
    | nil => simp only [refsAt, nodeAt]; cases lookup a l <;> rfl
    | cons b r =>
      simp only [refsAt, nodeAt]
      cases lookup a l with
      | none => rfl
      | some n0 => exact ih n0.kids

theorem refsAt_pos_iff (l : Level) (q : List String) :
    refsAt l q > 0 ↔ ∃ n, nodeAt l q = some n ∧ n.refs > 0 := by
  rw [refsAt_eq_nodeAt]
  cases nodeAt l q with
  | none => simp
  | some n => simp

theorem split_of_mem_termOf {pre : List String} {l : Level} (h : WF pre l) {a p : String}
    (hp : p ∈ termOf (lookup a l)) : splitTopic p = pre ++ [a] := by
  obtain ⟨n, hl, hr, rfl⟩ := mem_termOf.mp hp
  exact h.pat' (mem_of_lookup hl) hr

theorem split_of_mem_stepInto {pre : List String} {l : Level} (h : WF pre l) {a p : String}
    {rest : List String} (hp : p ∈ stepInto (lookup a l) rest) : ∃ q, splitTopic p = pre ++ a :: q := by
  obtain ⟨n0, hl, q, n, hq, hr, rfl, _⟩ := (mem_stepInto (mem_matchLevel p rest)).mp hp
  exact ⟨q, pat_of_nodeUnder h hl hq hr⟩

theorem split_of_mem_stepInto_literal {pre : List String} {l : Level} (h : WF pre l) {t p : String}
    {rest : List String} (hp : p ∈ stepInto (literal t l) rest) :
    t ≠ wildcardOne ∧ t ≠ wildcardTail ∧ ∃ q, splitTopic p = pre ++ t :: q := by
  obtain ⟨n0, hl, q, n, hq, hr, rfl, _⟩ := (mem_stepInto (mem_matchLevel p rest)).mp hp
  obtain ⟨h1, h2, hl'⟩ := literal_eq_some.mp hl
  exact ⟨h1, h2, q, pat_of_nodeUnder h hl' hq hr⟩

theorem nodup_termOf (o : Option Node) : (termOf o).Nodup := by
  cases o with
  | none => simp [termOf]
  | some n => simp only [termOf]; split <;> simp

theorem nodup_matchLevel (ts : List String) : ∀ (pre : List String) (l : Level), WF pre l →
    (matchLevel l ts).Nodup := by
  induction ts with
  | nil => intro pre l _; simp [matchLevel]
  | cons t ts ih =>
    intro pre l h
    have hstep : ∀ a, (stepInto (lookup a l) ts).Nodup := by
      intro a
      cases ts with
      | nil => exact nodup_termOf _
      | cons t' r =>
        simp only [stepInto]
        cases hl : lookup a l with
        | none => simp
        | some n0 => exact ih _ _ (h.sub' (mem_of_lookup hl))
    have hlit : (stepInto (literal t l) ts).Nodup := by
      simp only [literal]; split
      · cases ts <;> simp [stepInto, termOf]
      · exact hstep t
    rw [matchLevel_cons]
    refine List.nodup_append.mpr ⟨List.nodup_append.mpr ⟨nodup_termOf _, hstep _, ?_⟩, hlit, ?_⟩
    · intro a ha b hb hab
      subst hab
      have h1 := split_of_mem_termOf h ha
      obtain ⟨q, h2⟩ := split_of_mem_stepInto h hb
      rw [h1] at h2
      have := List.append_cancel_left h2
      simp at this
      exact wild_ne this.1.symm
    · intro a ha b hb hab
      subst hab
      obtain ⟨hn1, hn2, q, h2⟩ := split_of_mem_stepInto_literal h hb
      rcases List.mem_append.mp ha with ha | ha
      · have h1 := split_of_mem_termOf h ha
        rw [h1] at h2
        have := List.append_cancel_left h2
        simp at this
        exact hn2 this.1.symm
      · obtain ⟨q', h1⟩ := split_of_mem_stepInto h ha
        rw [h1] at h2
        have := List.append_cancel_left h2
        simp at this
        exact hn1 this.1.symm

/-- reachable tries satisfy the invariant -/
theorem Trie.Reachable.wf {t : Trie} (h : t.Reachable) : WF [] t.root := by
  induction h with
  | empty => exact WF.nil _
  | add p _ ih => exact WF_addLevel p _ (splitTopic_ne_nil p) [] _ (by simp) ih
  | remove p _ ih => exact WF_removeLevel _ [] _ ih

/-- pruning: a well-formed non-empty level has a referenced pattern -/
theorem exists_ref_of_ne_nil {pre : List String} {l : Level} (h : WF pre l) (hne : l ≠ []) :
    ∃ q, refsAt l q > 0 := by
  induction h with
  | intro nodup pat live sub ih =>
    rename_i pre l
    cases l with
    | nil => exact absurd rfl hne
    | cons e rest =>
      obtain ⟨k, n⟩ := e
      have hm : (k, n) ∈ (k, n) :: rest := List.mem_cons_self
      have hl : lookup k ((k, n) :: rest) = some n := by simp [lookup]
      rcases live k n hm with hr | hk
      · exact ⟨[k], by simpa [refsAt, hl] using hr⟩
      · obtain ⟨q, hq⟩ := ih k n hm hk
        cases q with
        | nil => simp [refsAt] at hq
        | cons b r => exact ⟨k :: b :: r, by simpa [refsAt, hl] using hq⟩

/-! ### client receive path -/

theorem receive_snd (s : ClientSt) (space topic claimed : String) (sigOk : Bool) (ts : TsClass)
    (id : Nat) (keyId : Bool) :
    (s.receive space topic claimed sigOk ts id keyId).2 =
      if s.accepts space topic claimed sigOk ts id keyId
      then (s.seen id).1.handlersFor space (s.localMatch space topic) else [] := by
  unfold ClientSt.receive ClientSt.accepts
  cases h1 : validateTopic topic
  · simp
  simp
  by_cases h2 : s.localMatch space topic = []
  · simp [h2]
  simp [h2]
  cases h3 : ctxAccount claimed
  · simp
  rename_i acct
  simp
  cases h4 : s.isMember space acct
  · simp
  simp
  by_cases h5 : topicOwner topic = ""
  all_goals by_cases h5' : acct = topicOwner topic
  all_goals simp [h5, h5']
  all_goals cases h6 : ClientSt.stale ts
  all_goals simp
  all_goals cases sigOk
  all_goals simp
  all_goals unfold ClientSt.seen
  all_goals by_cases h8 : id ∈ s.ring
  all_goals simp [h8]
  all_goals cases keyId
  all_goals simp

theorem mem_ring_seen (s : ClientSt) (hd : s.dedupSize ≥ 1) (id : Nat) : id ∈ (s.seen id).1.ring := by
  simp only [ClientSt.seen]
  by_cases hc : id ∈ s.ring
  · simp [hc]
  · simp only [List.contains_eq_mem, hc, decide_false, Bool.false_eq_true, if_false]
    split
    · rename_i hl
      cases hr : s.ring with
      | nil => simp [hr] at hl; omega
      | cons a r => simp
    · simp

/-- `match_exact` (used by the fan-out lemmas; restated in `Props/C17.lean`) -/
theorem match_exact_aux (t : Trie) (h : t.Reachable) (topic : String) :
    (t.matchTopic topic).Nodup ∧
    ∀ p, p ∈ t.matchTopic topic ↔ (t.count p > 0 ∧ segMatches (splitTopic p) (splitTopic topic) = true) := by
  refine ⟨nodup_matchLevel _ [] _ h.wf, fun p => ?_⟩
  simp only [Trie.matchTopic, Trie.count, mem_matchLevel, refsAt_pos_iff]
  constructor
  · rintro ⟨q, n, hq, hr, hp, hm⟩
    have hs : splitTopic p = q := by simpa [hp] using pat_of_nodeAt h.wf hq hr
    exact ⟨⟨n, by rw [hs]; exact hq, hr⟩, by rw [hs]; exact hm⟩
  · rintro ⟨⟨n, hq, hr⟩, hm⟩
    have hs : splitTopic n.pat = splitTopic p := by simpa using pat_of_nodeAt h.wf hq hr
    exact ⟨splitTopic p, n, hq, hr, splitTopic_injective hs, hm⟩

/-! ### serving side: fan-out -/

theorem mem_dedupNat (l seen : List Nat) (x : Nat) :
    x ∈ NodeSt.dedupNat l seen ↔ x ∈ l ∧ x ∉ seen := by
  induction l generalizing seen with
  | nil => simp [NodeSt.dedupNat]
  | cons a r ih =>
    simp only [NodeSt.dedupNat]
    by_cases h : a ∈ seen
    · simp only [List.contains_eq_mem, h, decide_true, if_true, ih, List.mem_cons]
      constructor
      · rintro ⟨h1, h2⟩; exact ⟨Or.inr h1, h2⟩
      · rintro ⟨h1 | h1, h2⟩
        · subst h1; exact absurd h h2
        · exact ⟨h1, h2⟩
    · simp only [List.contains_eq_mem, h, decide_false, Bool.false_eq_true, if_false, List.mem_cons, ih]
      constructor
      · rintro (h1 | ⟨h1, h2⟩)
        · subst h1; exact ⟨Or.inl rfl, h⟩
        · exact ⟨Or.inr h1, fun hx => h2 (Or.inr hx)⟩
      · rintro ⟨h1 | h1, h2⟩
        · exact Or.inl h1
        · by_cases hxa : x = a
          · exact Or.inl hxa
          · exact Or.inr ⟨h1, by rintro (hx | hx); exact hxa hx; exact h2 hx⟩

theorem nodup_dedupNat (l seen : List Nat) : (NodeSt.dedupNat l seen).Nodup := by
  induction l generalizing seen with
  | nil => simp [NodeSt.dedupNat]
  | cons a r ih =>
    simp only [NodeSt.dedupNat]
    split
    · exact ih _
    · refine List.nodup_cons.mpr ⟨?_, ih _⟩
      rw [mem_dedupNat]; simp

theorem tagChars_inj (a b x y : List Char) (ha : '/' ∉ a) (hb : '/' ∉ b)
    (h : a ++ '/' :: x = b ++ '/' :: y) : a = b ∧ x = y := by
  induction a generalizing b with
  | nil =>
    cases b with
    | nil => simpa using h
    | cons c b' => simp at h; exact absurd h.1.symm (by intro hc; exact hb (by simp [hc]))
  | cons c a' ih =>
    cases b with
    | nil => simp at h; exact absurd h.1 (by intro hc; exact ha (by simp [hc]))
    | cons d b' =>
      simp at h
      obtain ⟨h1, h2⟩ := h
      have := ih b' (fun hm => ha (List.mem_cons_of_mem _ hm)) (fun hm => hb (List.mem_cons_of_mem _ hm)) h2
      exact ⟨by rw [h1, this.1], this.2⟩

/-- `validateSpaceId` is what makes the `space/pattern` tag encoding injective -/
theorem interestTag_inj {s1 s2 p1 p2 : String} (h1 : validSpaceId s1 = true) (h2 : validSpaceId s2 = true)
    (h : interestTag s1 p1 = interestTag s2 p2) : s1 = s2 ∧ p1 = p2 := by
  simp only [validSpaceId, Bool.and_eq_true, Bool.not_eq_true', decide_eq_true_eq] at h1 h2
  have hl := congrArg String.toList h
  simp only [interestTag, String.toList_append] at hl
  have hs : "/".toList = ['/'] := by decide
  rw [hs] at hl
  simp only [List.append_assoc, List.singleton_append] at hl
  have := tagChars_inj _ _ _ _ (by simpa using h1.2) (by simpa using h2.2) hl
  exact ⟨String.toList_inj.mp this.1, String.toList_inj.mp this.2⟩

theorem mem_broadcast (s : NodeSt) (tags : List String) (sid : Nat) :
    sid ∈ s.broadcast tags ↔ ∃ tag, tag ∈ tags ∧ ∃ st, st ∈ s.pool ∧ tag ∈ st.tags ∧ st.sid = sid := by
  simp only [NodeSt.broadcast]
  split
  · simp [mem_dedupNat, List.mem_flatMap, and_assoc]
  · simp [List.mem_flatMap, and_assoc]

theorem nodup_broadcast (s : NodeSt) (hn : (s.pool.map (·.sid)).Nodup) (tags : List String) :
    (s.broadcast tags).Nodup := by
  simp only [NodeSt.broadcast]
  split
  · exact nodup_dedupNat _ _
  · rename_i h
    match tags with
    | [] => simp
    | [tag] =>
      simp only [List.flatMap_cons, List.flatMap_nil, List.append_nil]
      exact List.Nodup.sublist (List.Sublist.map _ List.filter_sublist) hn
    | a :: b :: r => simp at h

theorem handlePublish_obs (s : NodeSt) (peer ident space topic msgIdent : String)
    (relayed idLenOk big : Bool) :
    (s.handlePublish peer ident space topic msgIdent relayed idLenOk big).2.delivered =
      (if s.publishAccepted peer ident space topic msgIdent relayed idLenOk big then s.fanout space topic else []) ∧
    (s.handlePublish peer ident space topic msgIdent relayed idLenOk big).2.forwards =
      (if s.publishAccepted peer ident space topic msgIdent relayed idLenOk big && !relayed then [true] else []) := by
  unfold NodeSt.handlePublish NodeSt.publishAccepted
  cases idLenOk <;> cases big <;> simp
  cases h1 : validateTopic topic <;> simp
  by_cases h2 : space ∈ s.notResp <;> simp [h2]
  cases relayed <;> simp
  rotate_left
  · by_cases h3 : peer ∈ s.nodePeers <;> simp [h3]
  by_cases h4 : ident = "-"
  · simp [h4]
  by_cases h6 : ident = msgIdent
  rotate_left
  · have : ¬ msgIdent = ident := fun h => h6 h.symm
    simp [h4, h6, this]
  subst h6
  simp [h4]
  cases h7 : ctxAccount ident <;> simp
  rename_i acct
  cases h8 : s.isMember space acct <;> simp
  by_cases h9 : topicOwner topic = ""
  all_goals by_cases h9' : acct = topicOwner topic
  all_goals simp [h9, h9']
  all_goals unfold NodeSt.rateAllow
  all_goals by_cases h10 : (alookup peer s.rateUsed).getD 0 < s.burst
  all_goals simp [h10, NodeSt.fanout, NodeSt.getTrie, NodeSt.broadcast]

theorem rateAllow_state (s : NodeSt) (peer : String) :
    (s.rateAllow peer).1.remote = s.remote ∧ (s.rateAllow peer).1.streams = s.streams ∧
    (s.rateAllow peer).1.pool = s.pool := by
  unfold NodeSt.rateAllow
  simp only
  split <;> simp

theorem handlePublish_state (s : NodeSt) (peer ident space topic msgIdent : String)
    (relayed idLenOk big : Bool) :
    (s.handlePublish peer ident space topic msgIdent relayed idLenOk big).1.remote = s.remote ∧
    (s.handlePublish peer ident space topic msgIdent relayed idLenOk big).1.streams = s.streams ∧
    (s.handlePublish peer ident space topic msgIdent relayed idLenOk big).1.pool = s.pool := by
  unfold NodeSt.handlePublish
  simp only
  split
  · simp
  split
  · simp
  split
  · simp
  split
  · split <;> simp
  split
  · simp
  split
  · simp
  split
  · simp
  split
  · simp
  split <;> (rename_i heq; have := rateAllow_state s peer; rw [heq] at this; simpa using this)

theorem Trie.Reachable.size_eq {t : Trie} (h : t.Reachable) : t.size = liveLevel t.root := by
  induction h with
  | empty => simp [Trie.empty]
  | add p _ ih =>
    rename_i t' ht'
    simp only [Trie.add]
    rw [liveLevel_addLevel p _ (splitTopic_ne_nil p)]
    split <;> simp_all
  | remove p ht' ih =>
    rename_i t'
    simp only [Trie.remove]
    have := liveLevel_removeLevel (splitTopic p) [] t'.root ht'.wf
    split <;> simp_all <;> omega


/-! ### the trie interface used by the service proofs (they never unfold the trie) -/

theorem live_le_of_mem {k : String} {n : Node} {l : Level} (h : (k, n) ∈ l) : n.live ≤ liveLevel l := by
  induction l with
  | nil => simp at h
  | cons e rest ih =>
    obtain ⟨k₀, n₀⟩ := e
    rcases List.mem_cons.mp h with h | h
    · cases h; simp
    · have := ih h; simp; omega

theorem live_pos_of_nodeAt {l : Level} {q : List String} {n : Node} (hq : nodeAt l q = some n)
    (hr : n.refs > 0) : liveLevel l > 0 := by
  induction q generalizing l with
  | nil => simp [nodeAt] at hq
  | cons a q ih =>
    rw [nodeAt_cons] at hq
    cases hl : lookup a l with
    | none => simp [hl] at hq
    | some n0 =>
      simp only [hl, Option.bind_some] at hq
      have hle := live_le_of_mem (mem_of_lookup hl)
      rw [Node.live_eq n0] at hle
      cases q with
      | nil =>
        simp [nodeUnder] at hq; subst hq
        simp [hr] at hle; omega
      | cons b r =>
        simp only [nodeUnder] at hq
        have := ih hq; omega

/-- `Len() == 0` (what `pruneSpace` tests) says exactly that no pattern is registered -/
theorem Trie.size_eq_zero_iff {t : Trie} (h : t.Reachable) : t.size = 0 ↔ ∀ p, t.count p = 0 := by
  rw [h.size_eq]
  constructor
  · intro hz p
    apply Classical.byContradiction
    intro hp
    have hp' : refsAt t.root (splitTopic p) > 0 := by simp only [Trie.count] at hp; omega
    obtain ⟨n, hq, hr⟩ := (refsAt_pos_iff _ _).mp hp'
    have := live_pos_of_nodeAt hq hr
    omega
  · intro hz
    have hroot : t.root = [] := by
      apply Classical.byContradiction
      intro hne
      obtain ⟨q, hq⟩ := exists_ref_of_ne_nil h.wf hne
      obtain ⟨n, hn, hr⟩ := (refsAt_pos_iff _ _).mp hq
      have hs : splitTopic n.pat = q := by simpa using pat_of_nodeAt h.wf hn hr
      have := hz n.pat
      simp only [Trie.count, hs] at this
      omega
    simp [hroot]

theorem Trie.count_empty (p : String) : Trie.empty.count p = 0 := by
  simp [Trie.count, Trie.empty]

theorem Trie.size_empty : Trie.empty.size = 0 := rfl

theorem Trie.count_add (t : Trie) (p q : String) :
    (t.add p).1.count q = t.count q + (if q = p then 1 else 0) := by
  simp only [Trie.add, Trie.count, refsAt_addLevel _ _ (splitTopic_ne_nil p)]
  by_cases h : q = p
  · simp [h]
  · have : splitTopic q ≠ splitTopic p := fun h' => h (splitTopic_injective h')
    simp [h, this]

theorem Trie.count_remove (t : Trie) (p q : String) :
    (t.remove p).1.count q = t.count q - (if q = p then 1 else 0) := by
  simp only [Trie.remove, Trie.count, refsAt_removeLevel]
  by_cases h : q = p
  · simp [h]
  · have : splitTopic q ≠ splitTopic p := fun h' => h (splitTopic_injective h')
    simp [h, this]

theorem Trie.Reachable.removeAll {t : Trie} (h : t.Reachable) (ps : List String) : (t.removeAll ps).Reachable := by
  induction ps generalizing t with
  | nil => exact h
  | cons p rest ih => exact ih (Trie.Reachable.remove p h)

theorem Trie.count_removeAll (t : Trie) (ps : List String) (q : String) :
    (t.removeAll ps).count q = t.count q - ps.count q := by
  induction ps generalizing t with
  | nil => simp [Trie.removeAll]
  | cons p rest ih =>
    simp only [Trie.removeAll, List.foldl_cons] at ih ⊢
    rw [ih, Trie.count_remove, List.count_cons]
    by_cases h : q = p
    · subst h; simp; omega
    · have : ¬ p = q := fun hh => h hh.symm
      simp [h, this]

end AnySync.PubSub
