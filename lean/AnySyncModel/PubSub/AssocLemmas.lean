import AnySyncModel.PubSub.Service
/-! facts about the association-list rendering of Go maps (`alookup` / `aset` / `aerase`) -/
namespace AnySync.PubSub

variable {κ β : Type} [DecidableEq κ]

@[simp] theorem alookup_nil (k : κ) : alookup k ([] : List (κ × β)) = none := rfl

theorem alookup_aset_same (k : κ) (v : β) (l : List (κ × β)) : alookup k (aset k v l) = some v := by
  induction l with
  | nil => simp [aset, alookup]
  | cons e rest ih =>
    obtain ⟨k₀, v₀⟩ := e
    by_cases h : k₀ = k <;> simp [aset, alookup, h, ih]

theorem alookup_aset_ne {k k' : κ} (h : k' ≠ k) (v : β) (l : List (κ × β)) :
    alookup k' (aset k v l) = alookup k' l := by
  induction l with
  | nil => simp [aset, alookup]; intro h'; exact absurd h'.symm h
  | cons e rest ih =>
    obtain ⟨k₀, v₀⟩ := e
    by_cases h0 : k₀ = k
    · subst h0; simp [aset, alookup, Ne.symm h]
    · by_cases h1 : k₀ = k'
      · subst h1; simp [aset, alookup, h0]
      · simp [aset, alookup, h0, h1, ih]

theorem alookup_aset (k k' : κ) (v : β) (l : List (κ × β)) :
    alookup k' (aset k v l) = if k' = k then some v else alookup k' l := by
  by_cases h : k' = k
  · subst h; simp [alookup_aset_same]
  · simp [h, alookup_aset_ne h]

theorem alookup_aerase_same (k : κ) (l : List (κ × β)) : alookup k (aerase k l) = none := by
  induction l with
  | nil => rfl
  | cons e rest ih =>
    obtain ⟨k₀, v₀⟩ := e
    by_cases h0 : k₀ = k <;> simp [aerase, h0, alookup, ih]

theorem alookup_aerase_ne {k k' : κ} (h : k' ≠ k) (l : List (κ × β)) :
    alookup k' (aerase k l) = alookup k' l := by
  induction l with
  | nil => rfl
  | cons e rest ih =>
    obtain ⟨k₀, v₀⟩ := e
    by_cases h0 : k₀ = k
    · subst h0; simp [aerase, alookup, Ne.symm h, ih]
    · by_cases h1 : k₀ = k'
      · subst h1; simp [aerase, h0, alookup]
      · simp [aerase, h0, alookup, h1, ih]

theorem alookup_aerase (k k' : κ) (l : List (κ × β)) :
    alookup k' (aerase k l) = if k' = k then none else alookup k' l := by
  by_cases h : k' = k
  · subst h; simp [alookup_aerase_same]
  · simp [h, alookup_aerase_ne h]

theorem mem_of_alookup {k : κ} {v : β} {l : List (κ × β)} (h : alookup k l = some v) : (k, v) ∈ l := by
  induction l with
  | nil => simp [alookup] at h
  | cons e rest ih =>
    obtain ⟨k₀, v₀⟩ := e
    by_cases h0 : k₀ = k
    · subst h0; simp [alookup] at h; subst h; simp
    · simp [alookup, h0] at h; exact List.mem_cons_of_mem _ (ih h)

theorem alookup_of_mem {k : κ} {v : β} {l : List (κ × β)} (hn : (l.map Prod.fst).Nodup)
    (h : (k, v) ∈ l) : alookup k l = some v := by
  induction l with
  | nil => simp at h
  | cons e rest ih =>
    obtain ⟨k₀, v₀⟩ := e
    simp only [List.map_cons, List.nodup_cons] at hn
    rcases List.mem_cons.mp h with h | h
    · cases h; simp [alookup]
    · have : k₀ ≠ k := by
        intro hk; subst hk
        exact hn.1 (List.mem_map.mpr ⟨(k₀, v), h, rfl⟩)
      simp [alookup, this, ih hn.2 h]

theorem alookup_eq_none_iff {k : κ} {l : List (κ × β)} : alookup k l = none ↔ k ∉ l.map Prod.fst := by
  induction l with
  | nil => simp
  | cons e rest ih =>
    obtain ⟨k₀, v₀⟩ := e
    by_cases h0 : k₀ = k
    · subst h0; simp [alookup]
    · have h0' : ¬ k = k₀ := fun h => h0 h.symm
      simp [alookup, h0, h0', ih]

theorem alookup_isSome_iff {k : κ} {l : List (κ × β)} : (alookup k l).isSome ↔ k ∈ l.map Prod.fst := by
  cases h : alookup k l with
  | none => simp [alookup_eq_none_iff.mp h]
  | some v =>
    simp only [Option.isSome_some, true_iff]
    exact List.mem_map.mpr ⟨(k, v), mem_of_alookup h, rfl⟩

theorem keys_aset (k : κ) (v : β) (l : List (κ × β)) :
    (aset k v l).map Prod.fst = if k ∈ l.map Prod.fst then l.map Prod.fst else l.map Prod.fst ++ [k] := by
  induction l with
  | nil => simp [aset]
  | cons e rest ih =>
    obtain ⟨k₀, v₀⟩ := e
    by_cases h0 : k₀ = k
    · subst h0; simp [aset]
    · have h0' : ¬ k = k₀ := fun h => h0 h.symm
      simp only [aset, h0, if_false, List.map_cons, ih, List.mem_cons, h0', false_or]
      split <;> simp

theorem nodup_aset {k : κ} {v : β} {l : List (κ × β)} (hn : (l.map Prod.fst).Nodup) :
    ((aset k v l).map Prod.fst).Nodup := by
  rw [keys_aset]
  split
  · exact hn
  · rename_i h
    exact List.nodup_append.mpr ⟨hn, by simp, by intro a ha b hb; simp at hb; subst hb; intro hab; subst hab; exact h ha⟩

theorem mem_aset {k k' : κ} {v v' : β} {l : List (κ × β)} (hn : (l.map Prod.fst).Nodup) :
    (k', v') ∈ aset k v l ↔ (k' = k ∧ v' = v) ∨ ((k', v') ∈ l ∧ k' ≠ k) := by
  constructor
  · intro h
    have h1 := alookup_of_mem (nodup_aset hn) h
    rw [alookup_aset] at h1
    by_cases hk : k' = k
    · simp [hk] at h1; exact Or.inl ⟨hk, h1.symm⟩
    · simp [hk] at h1; exact Or.inr ⟨mem_of_alookup h1, hk⟩
  · rintro (⟨hk, hv⟩ | ⟨hm, hk⟩)
    · subst hk; subst hv; exact mem_of_alookup (alookup_aset_same _ _ _)
    · apply mem_of_alookup; rw [alookup_aset_ne hk]; exact alookup_of_mem hn hm

theorem mem_aerase {k k' : κ} {v' : β} {l : List (κ × β)} :
    (k', v') ∈ aerase k l ↔ (k', v') ∈ l ∧ k' ≠ k := by
  induction l with
  | nil => simp [aerase]
  | cons e rest ih =>
    obtain ⟨k₀, v₀⟩ := e
    by_cases h0 : k₀ = k
    · subst h0
      simp only [aerase, if_true, ih, List.mem_cons, Prod.mk.injEq]
      constructor
      · rintro ⟨h1, h2⟩; exact ⟨Or.inr h1, h2⟩
      · rintro ⟨h1 | h1, h2⟩
        · exact absurd h1.1 h2
        · exact ⟨h1, h2⟩
    · simp only [aerase, h0, if_false, List.mem_cons, ih, Prod.mk.injEq]
      constructor
      · rintro (⟨h1, h2⟩ | ⟨h1, h2⟩)
        · subst h1; subst h2; exact ⟨Or.inl ⟨rfl, rfl⟩, h0⟩
        · exact ⟨Or.inr h1, h2⟩
      · rintro ⟨h1 | h1, h2⟩
        · exact Or.inl h1
        · exact Or.inr ⟨h1, h2⟩

theorem aerase_eq_filter (k : κ) (l : List (κ × β)) : aerase k l = l.filter (fun e => e.1 ≠ k) := by
  induction l with
  | nil => rfl
  | cons e rest ih =>
    obtain ⟨k₀, v₀⟩ := e
    by_cases h0 : k₀ = k <;> simp [aerase, h0, ih]

theorem nodup_aerase {k : κ} {l : List (κ × β)} (hn : (l.map Prod.fst).Nodup) :
    ((aerase k l).map Prod.fst).Nodup := by
  rw [aerase_eq_filter]
  exact List.Nodup.sublist (List.Sublist.map _ List.filter_sublist) hn

theorem aerase_of_not_mem {k : κ} {l : List (κ × β)} (h : k ∉ l.map Prod.fst) : aerase k l = l := by
  induction l with
  | nil => rfl
  | cons e rest ih =>
    obtain ⟨k₀, v₀⟩ := e
    simp only [List.map_cons, List.mem_cons, not_or] at h
    have h0 : ¬ k₀ = k := fun hh => h.1 hh.symm
    simp [aerase, h0, ih h.2]

theorem aset_self {k : κ} {v : β} {l : List (κ × β)} (h : alookup k l = some v) : aset k v l = l := by
  induction l with
  | nil => simp [alookup] at h
  | cons e rest ih =>
    obtain ⟨k₀, v₀⟩ := e
    by_cases h0 : k₀ = k
    · subst h0; simp [alookup] at h; subst h; simp [aset]
    · simp [alookup, h0] at h; simp [aset, h0, ih h]

theorem aerase_aset_of_absent {k : κ} {v : β} {l : List (κ × β)} (h : k ∉ l.map Prod.fst) :
    aerase k (aset k v l) = l := by
  induction l with
  | nil => simp [aset, aerase]
  | cons e rest ih =>
    obtain ⟨k₀, v₀⟩ := e
    simp only [List.map_cons, List.mem_cons, not_or] at h
    have h0 : ¬ k₀ = k := fun hh => h.1 hh.symm
    simp [aset, aerase, h0, ih h.2]

theorem aset_aset (k : κ) (v w : β) (l : List (κ × β)) : aset k v (aset k w l) = aset k v l := by
  induction l with
  | nil => simp [aset]
  | cons e rest ih =>
    obtain ⟨k₀, v₀⟩ := e
    by_cases h0 : k₀ = k <;> simp [aset, h0, ih]

theorem exists_alookup_of_ne_nil {l : List (κ × β)} (h : l ≠ []) : ∃ k v, alookup k l = some v := by
  cases l with
  | nil => exact absurd rfl h
  | cons e rest => obtain ⟨k, v⟩ := e; exact ⟨k, v, by simp [alookup]⟩

/-- a pass over the map that rewrites or drops each entry but never changes a key -/
theorem alookup_filterMap {γ : Type} (f : κ × β → Option (κ × γ))
    (hf : ∀ e e', f e = some e' → e'.1 = e.1) {l : List (κ × β)} (hn : (l.map Prod.fst).Nodup) (k : κ) :
    alookup k (l.filterMap f) = (alookup k l).bind (fun v => (f (k, v)).map Prod.snd) := by
  induction l with
  | nil => simp
  | cons e rest ih =>
    obtain ⟨k₀, v₀⟩ := e
    simp only [List.map_cons, List.nodup_cons] at hn
    by_cases h0 : k₀ = k
    · subst h0
      simp only [List.filterMap_cons, alookup, if_true, Option.bind_some]
      cases hfe : f (k₀, v₀) with
      | none =>
        simp only [Option.map_none]
        rw [ih hn.2]
        have : alookup k₀ rest = none := alookup_eq_none_iff.mpr hn.1
        simp [this]
      | some e' =>
        have := hf _ _ hfe
        obtain ⟨k1, v1⟩ := e'
        simp only at this; subst this
        simp [alookup]
    · simp only [List.filterMap_cons, alookup, h0, if_false]
      cases hfe : f (k₀, v₀) with
      | none => simpa using ih hn.2
      | some e' =>
        have := hf _ _ hfe
        obtain ⟨k1, v1⟩ := e'
        simp only at this; subst this
        simp only [alookup, h0, if_false]
        exact ih hn.2

omit [DecidableEq κ] in
theorem keys_filterMap_sublist {γ : Type} (f : κ × β → Option (κ × γ))
    (hf : ∀ e e', f e = some e' → e'.1 = e.1) (l : List (κ × β)) :
    ((l.filterMap f).map Prod.fst).Sublist (l.map Prod.fst) := by
  induction l with
  | nil => simp
  | cons e rest ih =>
    simp only [List.filterMap_cons]
    cases hfe : f e with
    | none => simpa using List.Sublist.cons _ ih
    | some e' =>
      have := hf _ _ hfe
      simp only [List.map_cons, this]
      exact List.Sublist.cons₂ _ ih

theorem filterMap_ite_eq_filter {α : Type} (p : α → Bool) (l : List α) :
    l.filterMap (fun e => if p e then some e else none) = l.filter p := by
  induction l with
  | nil => rfl
  | cons e rest ih => by_cases hp : p e <;> simp [List.filterMap_cons, hp, ih]

theorem alookup_filter (p : κ × β → Bool) {l : List (κ × β)} (hn : (l.map Prod.fst).Nodup) (k : κ) :
    alookup k (l.filter p) = (alookup k l).bind (fun v => if p (k, v) then some v else none) := by
  have := alookup_filterMap (fun e => if p e then some e else none)
    (by intro e e' h; by_cases hp : p e <;> simp [hp] at h; rw [← h]) hn k
  rw [filterMap_ite_eq_filter] at this
  rw [this]
  cases alookup k l with
  | none => rfl
  | some v => by_cases hp : p (k, v) <;> simp [hp]

end AnySync.PubSub
