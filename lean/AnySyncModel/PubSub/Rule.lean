import AnySyncModel.Generated.PubSubConsts
/-!
The matching rule of the property, by recursion on segments: `*` matches exactly one segment, a
trailing `>` matches one or more segments, every other pattern segment matches itself.
This is the specification; `Trie.lean` is the implementation model.
-/
namespace AnySync.PubSub
open Generated.PubSub

def segMatches : List String → List String → Bool
  | [], [] => true
  | [], _ :: _ => false
  | _ :: _, [] => false
  | p :: ps, t :: ts =>
    if p = wildcardTail then ps.isEmpty
    else if p = wildcardOne then segMatches ps ts
    else p == t && segMatches ps ts

end AnySync.PubSub
