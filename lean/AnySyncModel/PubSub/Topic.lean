import AnySyncModel.Generated.PubSubConsts
/-!
Topic / pattern syntax of `commonspace/pubsub/topic.go`: `splitTopic`, `validateSegments`,
`ValidateTopic`, `ValidatePattern`, `validateSpaceId`, `TopicOwner`.

Strings are split over their character lists; the constants (`maxTopicLen`, `maxSegments`, the two
wildcards, the `acc` namespace) are the ones regenerated from the Go source.
-/
namespace AnySync.PubSub
open Generated.PubSub

/-- `splitTopic` loop: `k` further splits are allowed (`n < maxSegments`), `acc` is the current
segment (reversed). Once `k = 0` the remainder stays one segment ("over-length slice"). -/
def splitN : Nat → List Char → List Char → List String
  | _, [], acc => [String.ofList acc.reverse]
  | 0, c :: cs, acc => splitN 0 cs (c :: acc)
  | k + 1, c :: cs, acc =>
    if c = '/' then String.ofList acc.reverse :: splitN k cs [] else splitN (k + 1) cs (c :: acc)

/-- `splitTopic(topic)`: at most `maxSegments` splits, hence at most `maxSegments + 1` segments. -/
def splitTopic (topic : String) : List String := splitN maxSegments topic.toList []

/-- segments joined by `/` (as a character list) -/
def joinChars : List String → List Char
  | [] => []
  | [s] => s.toList
  | s :: t :: rest => s.toList ++ '/' :: joinChars (t :: rest)

def joinTopic (segs : List String) : String := String.ofList (joinChars segs)

/-- `strings.ContainsAny(s, "*>")` -/
def hasWildChar (s : String) : Bool := s.toList.any (fun c => c = '*' || c = '>')

/-- `validateSegments`: non-empty, at most `maxTopicLen` bytes, at most `maxSegments` segments, no
empty segment. `len` is the byte length of the string. -/
def validateSegments (len : Nat) (segs : List String) : Bool :=
  !(len = 0 || len > maxTopicLen) && !(segs.length > maxSegments) && segs.all (· ≠ "")

def validTopicSegs (len : Nat) (segs : List String) : Bool :=
  validateSegments len segs && segs.all (fun s => !hasWildChar s)

/-- the per-segment switch of `ValidatePattern`; `last` says whether the segment is the last one -/
def patternSegOk (s : String) (last : Bool) : Bool :=
  if s = wildcardOne then true
  else if s = wildcardTail then last
  else !hasWildChar s

def patternSegsOk : List String → Bool
  | [] => true
  | [s] => patternSegOk s true
  | s :: t :: rest => patternSegOk s false && patternSegsOk (t :: rest)

def validPatternSegs (len : Nat) (segs : List String) : Bool :=
  validateSegments len segs && patternSegsOk segs

def validateTopic (topic : String) : Bool := validTopicSegs topic.utf8ByteSize (splitTopic topic)
def validatePattern (pattern : String) : Bool := validPatternSegs pattern.utf8ByteSize (splitTopic pattern)

/-- `validateSpaceId`: non-empty and no `/` -/
def validSpaceId (space : String) : Bool := space ≠ "" && !(space.toList.contains '/')

/-- `TopicOwner` over segments: last segment of an `acc/…` topic with at least two segments -/
def ownerOfSegs (segs : List String) : String :=
  match segs with
  | a :: _ :: _ => if a = accNamespace then segs.getLast?.getD "" else ""
  | _ => ""

def topicOwner (topic : String) : String := ownerOfSegs (splitTopic topic)

end AnySync.PubSub
