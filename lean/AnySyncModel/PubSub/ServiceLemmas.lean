import AnySyncModel.PubSub.Lemmas
import AnySyncModel.PubSub.AssocLemmas
/-! the serving-side invariant (`NodeSt.Agree`) and its preservation by every handler.
The trie is used only through its interface: `Reachable` constructors, `Trie.count_add`,
`Trie.count_remove`, `Trie.count_removeAll`, `Trie.size_eq_zero_iff`, `match_exact_aux`. -/
namespace AnySync.PubSub
open Generated.PubSub

/-! ### counting over association lists -/

section
variable {κ β : Type} [DecidableEq κ]

theorem countP_aset (f : κ × β → Bool) (k : κ) (v : β) (l : List (κ × β)) :
    (aset k v l).countP f + (alookup k l).elim 0 (fun o => if f (k, o) then 1 else 0) =
      l.countP f + (if f (k, v) then 1 else 0) := by
  induction l with
  | nil => simp [aset]
  | cons e rest ih =>
    obtain ⟨k₀, v₀⟩ := e
    by_cases h0 : k₀ = k
    · subst h0; simp only [aset, if_true, alookup, List.countP_cons, Option.elim_some]; omega
    · simp only [aset, h0, if_false, alookup, List.countP_cons]; omega

theorem countP_aerase (f : κ × β → Bool) (k : κ) {l : List (κ × β)} (hn : (l.map Prod.fst).Nodup) :
    (aerase k l).countP f + (alookup k l).elim 0 (fun o => if f (k, o) then 1 else 0) =
      l.countP f := by
  induction l with
  | nil => simp [aerase]
  | cons e rest ih =>
    obtain ⟨k₀, v₀⟩ := e
    simp only [List.map_cons, List.nodup_cons] at hn
    by_cases h0 : k₀ = k
    · subst h0
      simp only [aerase, if_true, alookup, List.countP_cons, Option.elim_some]
      rw [aerase_of_not_mem hn.1]
    · simp only [aerase, h0, if_false, alookup, List.countP_cons]
      have := ih hn.2; omega

omit [DecidableEq κ] in
theorem countP_filterMap' {γ : Type} (f : κ × β → Option γ) (g : γ → Bool) (l : List (κ × β)) :
    (l.filterMap f).countP g = l.countP (fun e => (f e).any g) := by
  induction l with
  | nil => rfl
  | cons e rest ih =>
    simp only [List.filterMap_cons, List.countP_cons]
    cases hfe : f e with
    | none => simp [ih]
    | some e' => simp [List.countP_cons, ih]

theorem countP_congr_mem {α : Type} (f g : α → Bool) (l : List α) (h : ∀ x, x ∈ l → f x = g x) :
    l.countP f = l.countP g := by
  induction l with
  | nil => rfl
  | cons e rest ih =>
    simp only [List.countP_cons]
    rw [ih (fun x hx => h x (List.mem_cons_of_mem _ hx)), h e List.mem_cons_self]

theorem countP_split {α : Type} (f g : α → Bool) (l : List α) :
    l.countP f = l.countP (fun x => f x && g x) + l.countP (fun x => f x && !g x) := by
  induction l with
  | nil => rfl
  | cons e rest ih =>
    simp only [List.countP_cons, ih]
    cases f e <;> cases g e <;> simp <;> omega

theorem countP_pos_iff {α : Type} (f : α → Bool) (l : List α) : l.countP f > 0 ↔ ∃ x, x ∈ l ∧ f x = true := by
  simpa using (List.countP_pos_iff (p := f) (l := l))

end

/-! ### stream records -/

theorem has_iff (r : StreamRec) (sp p : String) : r.has sp p = true ↔ p ∈ r.pats sp := by
  simp [StreamRec.has]

theorem pats_aset (r : StreamRec) (sp sp' : String) (ps : List String) (tot : Nat) :
    ({ r with total := tot, bySpace := aset sp ps r.bySpace } : StreamRec).pats sp' =
      if sp' = sp then ps else r.pats sp' := by
  simp only [StreamRec.pats, alookup_aset]
  split <;> simp

theorem pats_aerase (r : StreamRec) (sp sp' : String) (tot : Nat) :
    ({ r with total := tot, bySpace := aerase sp r.bySpace } : StreamRec).pats sp' =
      if sp' = sp then [] else r.pats sp' := by
  simp only [StreamRec.pats, alookup_aerase]
  split <;> simp

theorem mem_bySpace_of_pats_ne {r : StreamRec} {sp : String} (h : r.pats sp ≠ []) :
    (sp, r.pats sp) ∈ r.bySpace := by
  simp only [StreamRec.pats] at h ⊢
  cases hl : alookup sp r.bySpace with
  | none => simp [hl] at h
  | some ps => simpa using mem_of_alookup hl

theorem RecOK0.pats_nodup {r : StreamRec} (h : RecOK0 r) (sp : String) : (r.pats sp).Nodup := by
  by_cases hp : r.pats sp = []
  · simp [hp]
  · exact (h.entries _ _ (mem_bySpace_of_pats_ne hp)).1

theorem RecOK0.alookup_ne_nil {r : StreamRec} (h : RecOK0 r) {sp : String} {ps : List String}
    (hl : alookup sp r.bySpace = some ps) : ps ≠ [] := (h.entries _ _ (mem_of_alookup hl)).2

/-- sum of entry sizes under `m[k] = v` and `delete(m, k)` -/
theorem sum_len_aset (k : String) (v : List String) {l : List (String × List String)} :
    ((aset k v l).map (fun e => e.2.length)).sum + ((alookup k l).getD []).length =
      (l.map (fun e => e.2.length)).sum + v.length := by
  induction l with
  | nil => simp [aset]
  | cons e rest ih =>
    obtain ⟨k₀, v₀⟩ := e
    by_cases h0 : k₀ = k
    · subst h0; simp [aset, alookup]; omega
    · simp only [aset, h0, if_false, alookup, List.map_cons, List.sum_cons]; omega

theorem sum_len_aerase (k : String) {l : List (String × List String)} (hn : (l.map Prod.fst).Nodup) :
    ((aerase k l).map (fun e => e.2.length)).sum + ((alookup k l).getD []).length =
      (l.map (fun e => e.2.length)).sum := by
  induction l with
  | nil => simp [aerase]
  | cons e rest ih =>
    obtain ⟨k₀, v₀⟩ := e
    simp only [List.map_cons, List.nodup_cons] at hn
    by_cases h0 : k₀ = k
    · subst h0
      simp only [aerase, if_true, alookup, List.map_cons, List.sum_cons, Option.getD_some]
      rw [aerase_of_not_mem hn.1]; omega
    · simp only [aerase, h0, if_false, alookup, List.map_cons, List.sum_cons]
      have := ih hn.2; omega

theorem RecOK0.total_zero_iff {r : StreamRec} (h : RecOK0 r) : r.total = 0 ↔ r.bySpace = [] := by
  rw [h.total]
  constructor
  · intro hz
    cases hb : r.bySpace with
    | nil => rfl
    | cons e rest =>
      obtain ⟨sp, ps⟩ := e
      have := (h.entries sp ps (by simp [hb])).2
      rw [hb] at hz
      simp at hz
      exact absurd hz.1 this
  · intro hb; simp [hb]

theorem RecOK0.pats_nil_of_total_zero {r : StreamRec} (h : RecOK0 r) (hz : r.total = 0) (sp : String) :
    r.pats sp = [] := by
  simp [StreamRec.pats, h.total_zero_iff.mp hz]

/-- the record after `delete(strm.bySpace, spaceId)` with `total` lowered by the entry size -/
theorem RecOK0.drop {r : StreamRec} (h : RecOK0 r) (space : String) : RecOK0 (NodeSt.dropSpaceRec space r) where
  keys := nodup_aerase h.keys
  entries := fun sp ps hm => h.entries sp ps (mem_aerase.mp hm).1
  total := by
    have := sum_len_aerase space h.keys
    simp only [NodeSt.dropSpaceRec, StreamRec.pats]
    have ht := h.total
    omega

theorem pats_drop (space : String) (r : StreamRec) (sp : String) :
    (NodeSt.dropSpaceRec space r).pats sp = if sp = space then [] else r.pats sp := by
  simp only [NodeSt.dropSpaceRec]; exact pats_aerase r space sp _

/-! ### the registered relation and its count -/

theorem regCount_pos_iff {l : List (Nat × StreamRec)} (hn : (l.map Prod.fst).Nodup) (sp p : String) :
    regCount l sp p > 0 ↔ ∃ sid r, alookup sid l = some r ∧ p ∈ r.pats sp := by
  simp only [regCount, countP_pos_iff, has_iff]
  constructor
  · rintro ⟨⟨sid, r⟩, hm, hp⟩; exact ⟨sid, r, alookup_of_mem hn hm, hp⟩
  · rintro ⟨sid, r, hl, hp⟩; exact ⟨(sid, r), mem_of_alookup hl, hp⟩

theorem NodeSt.AgreeCore.regCount_pos_iff {s : NodeSt} (h : s.AgreeCore) (sp p : String) :
    regCount s.streams sp p > 0 ↔ ∃ sid, s.Reg sid sp p := by
  rw [AnySync.PubSub.regCount_pos_iff h.streamsNodup]; rfl

theorem NodeSt.AgreeCore.count_pos_iff {s : NodeSt} (h : s.AgreeCore) {sp : String} {t : Trie}
    (ht : alookup sp s.remote = some t) (p : String) : t.count p > 0 ↔ ∃ sid, s.Reg sid sp p := by
  rw [h.trieCount sp t ht p]; exact h.regCount_pos_iff sp p

theorem Reg_congr {s s' : NodeSt} (h : s'.streams = s.streams) (sid : Nat) (sp p : String) :
    s'.Reg sid sp p ↔ s.Reg sid sp p := by simp [NodeSt.Reg, h]

theorem AgreeCore_congr {s s' : NodeSt} (hr : s'.remote = s.remote) (hs : s'.streams = s.streams)
    (hp : s'.pool = s.pool) (h : s.AgreeCore) : s'.AgreeCore where
  poolNodup := by rw [hp]; exact h.poolNodup
  streamsNodup := by rw [hs]; exact h.streamsNodup
  recOK := fun sid r hl => h.recOK sid r (by rw [← hs]; exact hl)
  trieReach := fun sp t ht => h.trieReach sp t (by rw [← hr]; exact ht)
  trieCount := fun sp t ht p => by rw [hs]; exact h.trieCount sp t (by rw [← hr]; exact ht) p
  trieLive := fun sp t ht => h.trieLive sp t (by rw [← hr]; exact ht)
  tags := fun st hst tag => by
    have := h.tags st (by rw [← hp]; exact hst) tag
    simpa [Reg_congr hs] using this
  validReg := fun sid sp p hreg => h.validReg sid sp p ((Reg_congr hs sid sp p).mp hreg)

theorem Agree_congr {s s' : NodeSt} (hr : s'.remote = s.remote) (hs : s'.streams = s.streams)
    (hp : s'.pool = s.pool) (h : s.Agree) : s'.Agree where
  toAgreeCore := AgreeCore_congr hr hs hp h.toAgreeCore
  trieHas := fun sid sp p hreg => by
    rw [hr]; exact h.trieHas sid sp p ((Reg_congr hs sid sp p).mp hreg)

theorem Agree_empty (a b c : Nat) : ({ capSpace := a, capStream := b, burst := c } : NodeSt).Agree where
  poolNodup := by simp
  streamsNodup := by simp
  recOK := by intro sid r h; simp at h
  trieReach := by intro sp t h; simp at h
  trieCount := by intro sp t h; simp at h
  trieLive := by intro sp t h; simp at h
  trieHas := by rintro sid sp p ⟨r, h, _⟩; simp at h
  tags := by intro st h; simp at h
  validReg := by rintro sid sp p ⟨r, h, _⟩; simp at h

theorem poolStream_none_iff (s : NodeSt) (sid : Nat) :
    s.poolStream sid = none ↔ ∀ st, st ∈ s.pool → st.sid ≠ sid := by
  simp [NodeSt.poolStream, List.find?_eq_none]

theorem Agree_openStream {s : NodeSt} (h : s.Agree) (sid : Nat) (peer ident : String)
    (hf : s.poolStream sid = none) (hr : alookup sid s.streams = none) : (s.openStream sid peer ident).Agree where
  poolNodup := by
    have hf' := (poolStream_none_iff s sid).mp hf
    simp only [NodeSt.openStream, List.map_append, List.map_cons, List.map_nil]
    refine List.nodup_append.mpr ⟨h.poolNodup, by simp, ?_⟩
    intro a ha b hb hab
    simp at hb; subst hb; subst hab
    obtain ⟨st, hst, hsid⟩ := List.mem_map.mp ha
    exact hf' st hst hsid
  streamsNodup := h.streamsNodup
  recOK := h.recOK
  trieReach := h.trieReach
  trieCount := h.trieCount
  trieLive := h.trieLive
  trieHas := h.trieHas
  tags := by
    intro st hst tag
    simp only [NodeSt.openStream, List.mem_append, List.mem_singleton] at hst
    rcases hst with hst | hst
    · exact h.tags st hst tag
    · subst hst
      simp only [List.not_mem_nil, false_iff]
      rintro ⟨sp, p, ⟨r, hl, _⟩, _⟩
      have hl' : alookup sid s.streams = some r := hl
      rw [hr] at hl'; cases hl'
  validReg := h.validReg

/-- a kept record registers something -/
theorem RecOK.exists_pat {r : StreamRec} (h : RecOK r) : ∃ sp p, p ∈ r.pats sp := by
  cases hb : r.bySpace with
  | nil => exact absurd hb h.nonempty
  | cons e rest =>
    obtain ⟨sp, ps⟩ := e
    have hne := (h.entries sp ps (by simp [hb])).2
    cases ps with
    | nil => exact absurd rfl hne
    | cons p ps' => exact ⟨sp, p, by simp [StreamRec.pats, hb, alookup]⟩

/-- with the invariant in place, "nothing is registered any more" means every view is empty -/
theorem clean_of_no_reg {s : NodeSt} (ha : s.Agree) (hw : ∀ sid sp p, ¬ s.Reg sid sp p) : s.Clean := by
  have h1 : s.streams = [] := by
    apply Classical.byContradiction
    intro hne
    obtain ⟨sid, r, hl⟩ := exists_alookup_of_ne_nil hne
    obtain ⟨sp, p, hp⟩ := (ha.recOK sid r hl).exists_pat
    exact hw sid sp p ⟨r, hl, hp⟩
  have h2 : s.remote = [] := by
    apply Classical.byContradiction
    intro hne
    obtain ⟨sp, t, hl⟩ := exists_alookup_of_ne_nil hne
    have hz : t.size = 0 := by
      rw [Trie.size_eq_zero_iff (ha.trieReach sp t hl)]
      intro p
      apply Classical.byContradiction
      intro hp
      obtain ⟨sid, hreg⟩ := (ha.toAgreeCore.count_pos_iff hl p).mp (by omega)
      exact hw sid sp p hreg
    exact ha.trieLive sp t hl hz
  have h3 : ∀ st, st ∈ s.pool → st.tags = [] := by
    intro st hst
    apply List.eq_nil_iff_forall_not_mem.mpr
    intro tag htag
    obtain ⟨sp, p, hreg, _⟩ := (ha.tags st hst tag).mp htag
    exact hw _ sp p hreg
  simp only [NodeSt.Clean, NodeSt.cleanB, Bool.and_eq_true, List.isEmpty_iff, List.all_eq_true]
  exact ⟨⟨h2, h1⟩, fun st hst => by simp [h3 st hst]⟩

theorem fanout_spec (s : NodeSt) (h : s.Agree) (space topic : String) :
    (s.fanout space topic).Nodup ∧
    ∀ sid, sid ∈ s.fanout space topic ↔
      ((∃ st, st ∈ s.pool ∧ st.sid = sid) ∧
        ∃ p, s.Reg sid space p ∧ segMatches (splitTopic p) (splitTopic topic) = true) := by
  simp only [NodeSt.fanout, NodeSt.getTrie]
  cases ht : alookup space s.remote with
  | none =>
    refine ⟨by simp, fun sid => ?_⟩
    simp only [List.not_mem_nil, false_iff]
    rintro ⟨_, p, hr, _⟩
    obtain ⟨t, ht'⟩ := h.trieHas sid space p hr
    rw [ht] at ht'; cases ht'
  | some t =>
    have hme := fun p => (match_exact_aux t (h.trieReach space t ht) topic).2 p
    simp only
    split
    · rename_i hemp
      refine ⟨by simp, fun sid => ?_⟩
      simp only [List.not_mem_nil, false_iff]
      rintro ⟨_, p, hr, hm⟩
      have : p ∈ t.matchTopic topic := (hme p).mpr ⟨(h.toAgreeCore.count_pos_iff ht p).mpr ⟨sid, hr⟩, hm⟩
      simp [List.isEmpty_iff] at hemp
      rw [hemp] at this; simp at this
    · refine ⟨nodup_broadcast s h.poolNodup _, fun sid => ?_⟩
      rw [mem_broadcast]
      constructor
      · rintro ⟨tag, htag, st, hst, hin, hsid⟩
        obtain ⟨p', hp', rfl⟩ := List.mem_map.mp htag
        obtain ⟨hc, hm⟩ := (hme p').mp hp'
        obtain ⟨sid', hr'⟩ := (h.toAgreeCore.count_pos_iff ht p').mp hc
        obtain ⟨sp'', p'', hr'', heq⟩ := (h.tags st hst _).mp hin
        have := interestTag_inj (h.validReg _ _ _ hr') (h.validReg _ _ _ hr'') heq
        obtain ⟨rfl, rfl⟩ := this
        subst hsid
        exact ⟨⟨st, hst, rfl⟩, p', hr'', hm⟩
      · rintro ⟨⟨st, hst, hsid⟩, p, hr, hm⟩
        have hp : p ∈ t.matchTopic topic := (hme p).mpr ⟨(h.toAgreeCore.count_pos_iff ht p).mpr ⟨sid, hr⟩, hm⟩
        subst hsid
        exact ⟨interestTag space p, List.mem_map.mpr ⟨p, hp, rfl⟩, st, hst,
          (h.tags st hst _).mpr ⟨space, p, hr, rfl⟩, rfl⟩


/-! ### `pruneSpace`, trie folds -/

theorem alookup_pruneSpace (rem : List (String × Trie)) (space sp : String) :
    alookup sp (NodeSt.pruneSpace rem space) =
      if sp = space then (alookup space rem).bind (fun t => if t.size = 0 then none else some t)
      else alookup sp rem := by
  simp only [NodeSt.pruneSpace]
  cases ht : alookup space rem with
  | none =>
    by_cases h : sp = space
    · subst h; simp [ht]
    · simp [h]
  | some t =>
    by_cases hz : t.size = 0
    · simp only [hz, if_true, alookup_aerase, Option.bind_some]
    · simp only [hz, if_false, Option.bind_some]
      by_cases h : sp = space
      · subst h; simp [ht]
      · simp [h]

theorem reachable_foldl_removeAll (vs : List (Nat × StreamRec)) (space : String) {t : Trie} (h : t.Reachable) :
    (vs.foldl (fun (t : Trie) e => t.removeAll (e.2.pats space)) t).Reachable := by
  induction vs generalizing t with
  | nil => exact h
  | cons e rest ih => exact ih (h.removeAll _)

theorem count_foldl_removeAll (vs : List (Nat × StreamRec)) (space p : String) (t : Trie)
    (hnd : ∀ e, e ∈ vs → (e.2.pats space).Nodup) :
    (vs.foldl (fun (t : Trie) e => t.removeAll (e.2.pats space)) t).count p =
      t.count p - vs.countP (fun e => e.2.has space p) := by
  induction vs generalizing t with
  | nil => simp
  | cons e rest ih =>
    simp only [List.foldl_cons, List.countP_cons]
    rw [ih _ (fun e' he' => hnd e' (List.mem_cons_of_mem _ he')), Trie.count_removeAll,
      (hnd e List.mem_cons_self).count]
    simp only [StreamRec.has, List.contains_eq_mem, decide_eq_true_eq]
    split <;> omega

/-! ### `evictSpaceStreams` (also the body of `CloseSpace`) -/

/-- the stream is hit by the eviction: it has patterns in the space and satisfies the predicate -/
def hitP (space : String) (evict : StreamRec → Bool) (e : Nat × StreamRec) : Bool :=
  !(e.2.pats space).isEmpty && evict e.2

/-- what the loop does to one stream record -/
def evictF (space : String) (evict : StreamRec → Bool) (e : Nat × StreamRec) : Option (Nat × StreamRec) :=
  if hitP space evict e then
    (if (NodeSt.dropSpaceRec space e.2).total = 0 then none else some (e.1, NodeSt.dropSpaceRec space e.2))
  else some e

theorem evictF_key (space : String) (evict : StreamRec → Bool) (e e' : Nat × StreamRec)
    (h : evictF space evict e = some e') : e'.1 = e.1 := by
  simp only [evictF] at h
  split at h
  · split at h
    · cases h
    · cases h; rfl
  · cases h; rfl

/-- effect on "holds `p` under `sp`" for one record -/
theorem evictF_has (space : String) (evict : StreamRec → Bool) (e : Nat × StreamRec) (hr : RecOK0 e.2)
    (sp p : String) :
    (evictF space evict e).any (fun e' => e'.2.has sp p) =
      (e.2.has sp p && !(decide (sp = space) && hitP space evict e)) := by
  simp only [evictF]
  by_cases hh : hitP space evict e = true
  · simp only [hh, if_true, Bool.and_true]
    by_cases hz : (NodeSt.dropSpaceRec space e.2).total = 0
    · simp only [hz, if_true]
      by_cases hs : sp = space
      · simp [hs]
      · have := (hr.drop space).pats_nil_of_total_zero hz sp
        rw [pats_drop] at this
        simp only [hs, if_false] at this
        simp [StreamRec.has, this]
    · simp only [hz, if_false, Option.any_some, StreamRec.has]
      rw [pats_drop]
      by_cases hs : sp = space <;> simp [hs]
  · simp [hh]

theorem evict_unfold (s : NodeSt) (space : String) (evict : StreamRec → Bool) :
    s.evictSpaceStreams space evict =
      { s with
        streams := s.streams.filterMap (evictF space evict),
        remote := NodeSt.pruneSpace
          (match alookup space s.remote with
           | some t => aset space ((s.streams.filter (hitP space evict)).foldl
                (fun (t : Trie) e => t.removeAll (e.2.pats space)) t) s.remote
           | none => s.remote) space,
        pool := s.pool.map (fun st =>
          match alookup st.sid (s.streams.filter (hitP space evict)) with
          | some r => { st with tags := st.tags.filter (fun tg => !((r.pats space).map (interestTag space)).contains tg) }
          | none => st) } := rfl

theorem alookup_evict_streams {l : List (Nat × StreamRec)} (hn : (l.map Prod.fst).Nodup)
    (space : String) (evict : StreamRec → Bool) (sid : Nat) :
    alookup sid (l.filterMap (evictF space evict)) =
      (alookup sid l).bind (fun r => (evictF space evict (sid, r)).map Prod.snd) :=
  alookup_filterMap _ (evictF_key space evict) hn sid

theorem Reg_evict {s : NodeSt} (hc : s.AgreeCore) (space : String) (evict : StreamRec → Bool)
    (sid : Nat) (sp p : String) :
    (s.evictSpaceStreams space evict).Reg sid sp p ↔
      ∃ r, alookup sid s.streams = some r ∧ p ∈ r.pats sp ∧
        ¬(sp = space ∧ hitP space evict (sid, r) = true) := by
  rw [evict_unfold]
  simp only [NodeSt.Reg]
  rw [alookup_evict_streams hc.streamsNodup]
  cases hl : alookup sid s.streams with
  | none => simp
  | some r =>
    have hh := evictF_has space evict (sid, r) (hc.recOK sid r hl).toRecOK0 sp p
    simp only [Option.bind_some]
    have hL : (∃ r', (evictF space evict (sid, r)).map Prod.snd = some r' ∧ p ∈ r'.pats sp) ↔
        (evictF space evict (sid, r)).any (fun e' => e'.2.has sp p) = true := by
      cases evictF space evict (sid, r) with
      | none => simp
      | some e' => simp [has_iff]
    have hR : (∃ r', some r = some r' ∧ p ∈ r'.pats sp ∧ ¬(sp = space ∧ hitP space evict (sid, r') = true)) ↔
        (r.has sp p && !(decide (sp = space) && hitP space evict (sid, r))) = true := by
      simp only [Option.some.injEq, exists_eq_left', Bool.and_eq_true, has_iff, Bool.not_eq_true',
        Bool.and_eq_false_iff, decide_eq_false_iff_not]
      constructor
      · rintro ⟨h1, h2⟩
        refine ⟨h1, ?_⟩
        by_cases hs : sp = space
        · right
          cases hx : hitP space evict (sid, r) with
          | false => rfl
          | true => exact absurd ⟨hs, hx⟩ h2
        · exact Or.inl hs
      · rintro ⟨h1, h2⟩
        refine ⟨h1, ?_⟩
        rintro ⟨h3, h4⟩
        rcases h2 with h2 | h2
        · exact h2 h3
        · rw [h4] at h2; cases h2
    rw [hL, hR, hh]

theorem Reg_of_Reg_evict {s : NodeSt} (hc : s.AgreeCore) {space : String} {evict : StreamRec → Bool}
    {sid : Nat} {sp p : String} (h : (s.evictSpaceStreams space evict).Reg sid sp p) : s.Reg sid sp p := by
  obtain ⟨r, hl, hp, _⟩ := (Reg_evict hc space evict sid sp p).mp h
  exact ⟨r, hl, hp⟩

theorem regCount_evict {s : NodeSt} (hc : s.AgreeCore) (space : String) (evict : StreamRec → Bool)
    (sp p : String) :
    regCount (s.streams.filterMap (evictF space evict)) sp p =
      s.streams.countP (fun e => e.2.has sp p && !(decide (sp = space) && hitP space evict e)) := by
  simp only [regCount]
  rw [countP_filterMap']
  apply countP_congr_mem
  rintro ⟨sid, r⟩ hm
  exact evictF_has space evict (sid, r) (hc.recOK sid r (alookup_of_mem hc.streamsNodup hm)).toRecOK0 sp p

theorem alookup_evict_remote_ne (s : NodeSt) (space : String) (evict : StreamRec → Bool) {sp : String}
    (h : sp ≠ space) : alookup sp (s.evictSpaceStreams space evict).remote = alookup sp s.remote := by
  rw [evict_unfold]
  simp only [alookup_pruneSpace, h, if_false]
  cases h' : alookup space s.remote with
  | none => rfl
  | some t => simp only [alookup_aset_ne h]

theorem alookup_evict_remote_eq (s : NodeSt) (space : String) (evict : StreamRec → Bool) :
    alookup space (s.evictSpaceStreams space evict).remote =
      (alookup space s.remote).bind (fun t =>
        let t1 := (s.streams.filter (hitP space evict)).foldl (fun (t : Trie) e => t.removeAll (e.2.pats space)) t
        if t1.size = 0 then none else some t1) := by
  rw [evict_unfold]
  simp only [alookup_pruneSpace, if_true]
  cases h : alookup space s.remote with
  | none => simp [h]
  | some t => simp only [alookup_aset_same, Option.bind_some]

/-- **`evictSpaceStreams` keeps the invariant** — stated so that it also serves `CloseSpace`, which
deletes the space trie first: the core invariant, a trie for every registered space other than the
evicted one, and for the evicted space either its trie or the promise that every holder is evicted. -/
theorem Agree_evict {s : NodeSt} (hc : s.AgreeCore) (space : String) (evict : StreamRec → Bool)
    (hH : ∀ sid sp p, s.Reg sid sp p → sp ≠ space → ∃ t, alookup sp s.remote = some t)
    (hS : (∃ t, alookup space s.remote = some t) ∨
      ∀ sid r, alookup sid s.streams = some r → r.pats space ≠ [] → evict r = true) :
    (s.evictSpaceStreams space evict).Agree := by
  have hstreams : (s.evictSpaceStreams space evict).streams = s.streams.filterMap (evictF space evict) := rfl
  have hpool : (s.evictSpaceStreams space evict).pool = s.pool.map (fun st =>
      match alookup st.sid (s.streams.filter (hitP space evict)) with
      | some r => { st with tags := st.tags.filter (fun tg => !((r.pats space).map (interestTag space)).contains tg) }
      | none => st) := rfl
  have hsid : ∀ st : PoolStream, (match alookup st.sid (s.streams.filter (hitP space evict)) with
      | some r => ({ st with tags := st.tags.filter (fun tg => !((r.pats space).map (interestTag space)).contains tg) } : PoolStream)
      | none => st).sid = st.sid := by
    intro st; cases alookup st.sid (s.streams.filter (hitP space evict)) <;> rfl
  have hnd : ∀ e, e ∈ s.streams.filter (hitP space evict) → (e.2.pats space).Nodup := by
    rintro ⟨sid, r⟩ he
    have hm := (List.mem_filter.mp he).1
    exact (hc.recOK sid r (alookup_of_mem hc.streamsNodup hm)).toRecOK0.pats_nodup space
  -- the count in the evicted space after the pass
  have hcount : ∀ t, alookup space s.remote = some t → ∀ p,
      ((s.streams.filter (hitP space evict)).foldl (fun (t : Trie) e => t.removeAll (e.2.pats space)) t).count p =
        regCount (s.streams.filterMap (evictF space evict)) space p := by
    intro t ht p
    rw [count_foldl_removeAll _ _ _ _ hnd, hc.trieCount space t ht p, regCount_evict hc, List.countP_filter]
    simp only [regCount, decide_true, Bool.true_and]
    have := countP_split (fun e : Nat × StreamRec => e.2.has space p) (hitP space evict) s.streams
    omega
  refine { poolNodup := ?_, streamsNodup := ?_, recOK := ?_, trieReach := ?_, trieCount := ?_,
           trieLive := ?_, tags := ?_, validReg := ?_, trieHas := ?_ }
  · -- poolNodup
    rw [hpool, List.map_map]
    have : ((fun st : PoolStream => st.sid) ∘ fun st : PoolStream =>
        match alookup st.sid (s.streams.filter (hitP space evict)) with
        | some r => ({ st with tags := st.tags.filter (fun tg => !((r.pats space).map (interestTag space)).contains tg) } : PoolStream)
        | none => st) = fun st => st.sid := by
      funext st; exact hsid st
    rw [this]; exact hc.poolNodup
  · -- streamsNodup
    rw [hstreams]
    exact List.Nodup.sublist (keys_filterMap_sublist _ (evictF_key space evict) _) hc.streamsNodup
  · -- recOK
    intro sid r' hl
    rw [hstreams, alookup_evict_streams hc.streamsNodup] at hl
    cases hl0 : alookup sid s.streams with
    | none => simp [hl0] at hl
    | some r =>
      simp only [hl0, Option.bind_some, evictF] at hl
      have hr := hc.recOK sid r hl0
      split at hl
      · split at hl
        · simp at hl
        · rename_i hz
          simp at hl; subst hl
          exact { toRecOK0 := hr.toRecOK0.drop space,
                  nonempty := fun hb => hz ((hr.toRecOK0.drop space).total_zero_iff.mpr hb) }
      · simp at hl; subst hl; exact hr
  · -- trieReach
    intro sp t ht
    by_cases h : sp = space
    · subst h
      rw [alookup_evict_remote_eq] at ht
      cases ht0 : alookup sp s.remote with
      | none => simp [ht0] at ht
      | some t0 =>
        simp only [ht0, Option.bind_some] at ht
        split at ht
        · cases ht
        · cases ht; exact reachable_foldl_removeAll _ _ (hc.trieReach sp t0 ht0)
    · rw [alookup_evict_remote_ne s space evict h] at ht
      exact hc.trieReach sp t ht
  · -- trieCount
    intro sp t ht p
    rw [hstreams]
    by_cases h : sp = space
    · subst h
      rw [alookup_evict_remote_eq] at ht
      cases ht0 : alookup sp s.remote with
      | none => simp [ht0] at ht
      | some t0 =>
        simp only [ht0, Option.bind_some] at ht
        split at ht
        · cases ht
        · cases ht; exact hcount t0 ht0 p
    · rw [alookup_evict_remote_ne s space evict h] at ht
      rw [hc.trieCount sp t ht p, regCount_evict hc]
      simp [regCount, h]
  · -- trieLive
    intro sp t ht
    by_cases h : sp = space
    · subst h
      rw [alookup_evict_remote_eq] at ht
      cases ht0 : alookup sp s.remote with
      | none => simp [ht0] at ht
      | some t0 =>
        simp only [ht0, Option.bind_some] at ht
        split at ht
        · cases ht
        · rename_i hz; cases ht; exact hz
    · rw [alookup_evict_remote_ne s space evict h] at ht
      exact hc.trieLive sp t ht
  · -- tags
    intro st' hst' tag
    rw [hpool] at hst'
    obtain ⟨st, hst, rfl⟩ := List.mem_map.mp hst'
    have htags := hc.tags st hst tag
    rw [hsid st]
    rw [alookup_filter _ hc.streamsNodup]
    cases hl0 : alookup st.sid s.streams with
    | none =>
      simp only [Option.bind_none]
      rw [htags]
      constructor
      · rintro ⟨sp, p, ⟨r, hl, _⟩, _⟩; rw [hl0] at hl; cases hl
      · rintro ⟨sp, p, hreg, _⟩
        obtain ⟨r, hl, _⟩ := Reg_of_Reg_evict hc hreg; rw [hl0] at hl; cases hl
    | some r =>
      simp only [Option.bind_some]
      by_cases hh : hitP space evict (st.sid, r) = true
      · simp only [hh, if_true, List.mem_filter, Bool.not_eq_true', List.contains_eq_mem,
          decide_eq_false_iff_not, List.mem_map, not_exists, not_and]
        constructor
        · rintro ⟨hin, hnot⟩
          obtain ⟨sp, p, ⟨r0, hl, hp⟩, rfl⟩ := htags.mp hin
          rw [hl0] at hl; cases hl
          refine ⟨sp, p, (Reg_evict hc space evict st.sid sp p).mpr ⟨r, hl0, hp, ?_⟩, rfl⟩
          rintro ⟨h1, _⟩
          subst h1
          exact hnot p hp rfl
        · rintro ⟨sp, p, hreg, rfl⟩
          obtain ⟨r0, hl, hp, hn⟩ := (Reg_evict hc space evict st.sid sp p).mp hreg
          rw [hl0] at hl; cases hl
          refine ⟨htags.mpr ⟨sp, p, ⟨r, hl0, hp⟩, rfl⟩, ?_⟩
          intro p' hp' heq
          have v1 := hc.validReg st.sid space p' ⟨r, hl0, hp'⟩
          have v2 := hc.validReg st.sid sp p ⟨r, hl0, hp⟩
          have := (interestTag_inj v1 v2 heq).1
          exact hn ⟨this.symm, hh⟩
      · simp only [hh, Bool.false_eq_true, if_false]
        rw [htags]
        constructor
        · rintro ⟨sp, p, ⟨r0, hl, hp⟩, rfl⟩
          rw [hl0] at hl; cases hl
          exact ⟨sp, p, (Reg_evict hc space evict st.sid sp p).mpr ⟨r, hl0, hp, fun h => hh h.2⟩, rfl⟩
        · rintro ⟨sp, p, hreg, rfl⟩
          exact ⟨sp, p, Reg_of_Reg_evict hc hreg, rfl⟩
  · -- validReg
    intro sid sp p hreg
    exact hc.validReg sid sp p (Reg_of_Reg_evict hc hreg)
  · -- trieHas
    intro sid sp p hreg
    by_cases h : sp = space
    · subst h
      obtain ⟨r, hl, hp, hn⟩ := (Reg_evict hc sp evict sid sp p).mp hreg
      rcases hS with ⟨t0, ht0⟩ | hall
      · rw [alookup_evict_remote_eq, ht0]
        simp only [Option.bind_some]
        have hpos : regCount (s.streams.filterMap (evictF sp evict)) sp p > 0 := by
          have hn' : ((s.streams.filterMap (evictF sp evict)).map Prod.fst).Nodup :=
            List.Nodup.sublist (keys_filterMap_sublist _ (evictF_key sp evict) _) hc.streamsNodup
          rw [regCount_pos_iff hn']
          obtain ⟨r', hl', hp'⟩ := hreg
          exact ⟨sid, r', hl', hp'⟩
        rw [← hcount t0 ht0 p] at hpos
        have hreach := reachable_foldl_removeAll (s.streams.filter (hitP sp evict)) sp (hc.trieReach sp t0 ht0)
        split
        · rename_i hz
          have := (Trie.size_eq_zero_iff hreach).mp hz p
          omega
        · exact ⟨_, rfl⟩
      · exfalso
        apply hn
        refine ⟨rfl, ?_⟩
        have hne : r.pats sp ≠ [] := fun he => by rw [he] at hp; cases hp
        simp only [hitP, Bool.and_eq_true, Bool.not_eq_true', List.isEmpty_eq_false_iff]
        exact ⟨hne, hall sid r hl hne⟩
    · rw [alookup_evict_remote_ne s space evict h]
      exact hH sid sp p (Reg_of_Reg_evict hc hreg) h

theorem Agree_evictSpaceStreams {s : NodeSt} (h : s.Agree) (space : String) (evict : StreamRec → Bool) :
    (s.evictSpaceStreams space evict).Agree := by
  refine Agree_evict h.toAgreeCore space evict (fun sid sp p hr _ => h.trieHas sid sp p hr) ?_
  cases ht : alookup space s.remote with
  | some t => exact Or.inl ⟨t, rfl⟩
  | none =>
    right
    intro sid r hl hne
    exfalso
    cases hp : r.pats space with
    | nil => exact hne hp
    | cons p ps =>
      obtain ⟨t, ht'⟩ := h.trieHas sid space p ⟨r, hl, by simp [hp]⟩
      rw [ht] at ht'; cases ht'

theorem Agree_evictMember {s : NodeSt} (h : s.Agree) (space acct : String) : (s.evictMember space acct).Agree :=
  Agree_evictSpaceStreams h space _

theorem Agree_revalidate {s : NodeSt} (h : s.Agree) (space : String) : (s.revalidate space).Agree :=
  Agree_evictSpaceStreams h space _

theorem Agree_closeSpace {s : NodeSt} (h : s.Agree) (space : String) : (s.closeSpace space).Agree := by
  have hc : ({ s with remote := aerase space s.remote } : NodeSt).AgreeCore :=
    { poolNodup := h.poolNodup
      streamsNodup := h.streamsNodup
      recOK := h.recOK
      trieReach := fun sp t ht => by
        simp only [alookup_aerase] at ht
        split at ht
        · cases ht
        · exact h.trieReach sp t ht
      trieCount := fun sp t ht p => by
        simp only [alookup_aerase] at ht
        split at ht
        · cases ht
        · exact h.trieCount sp t ht p
      trieLive := fun sp t ht => by
        simp only [alookup_aerase] at ht
        split at ht
        · cases ht
        · exact h.trieLive sp t ht
      tags := h.tags
      validReg := h.validReg }
  refine Agree_evict hc space (fun _ => true) ?_ (Or.inr (fun _ _ _ _ => rfl))
  intro sid sp p hr hne
  obtain ⟨t, ht⟩ := h.trieHas sid sp p hr
  exact ⟨t, by simp only [alookup_aerase_ne hne]; exact ht⟩

/-! ### stream close (`removeStream` + `onStreamClose`) -/

/-- one iteration of `for spaceId, patterns := range strm.bySpace` in `onStreamClose` -/
def stepClose (rem : List (String × Trie)) (e : String × List String) : List (String × Trie) :=
  match alookup e.1 rem with
  | none => rem
  | some t => NodeSt.pruneSpace (aset e.1 (t.removeAll e.2) rem) e.1

/-- what a trie becomes when the closing stream's patterns are withdrawn: gone if that empties it -/
def afterClose (ps : List String) (t : Trie) : Option Trie :=
  if (t.removeAll ps).size = 0 then none else some (t.removeAll ps)

theorem alookup_stepClose (rem : List (String × Trie)) (e : String × List String) (sp : String) :
    alookup sp (stepClose rem e) =
      if sp = e.1 then (alookup sp rem).bind (afterClose e.2) else alookup sp rem := by
  simp only [stepClose]
  cases ht : alookup e.1 rem with
  | none =>
    by_cases h : sp = e.1
    · subst h; simp [ht]
    · simp [h]
  | some t =>
    simp only [alookup_pruneSpace, alookup_aset_same, Option.bind_some]
    by_cases h : sp = e.1
    · subst h; simp [ht, afterClose]
    · simp [h, alookup_aset_ne h]

theorem alookup_foldl_stepClose (bs : List (String × List String)) (hn : (bs.map Prod.fst).Nodup)
    (rem : List (String × Trie)) (sp : String) :
    alookup sp (bs.foldl stepClose rem) =
      (alookup sp bs).elim (alookup sp rem) (fun ps => (alookup sp rem).bind (afterClose ps)) := by
  induction bs generalizing rem with
  | nil => simp
  | cons e rest ih =>
    obtain ⟨sp0, ps0⟩ := e
    simp only [List.map_cons, List.nodup_cons] at hn
    simp only [List.foldl_cons]
    rw [ih hn.2]
    by_cases h : sp0 = sp
    · subst h
      have : alookup sp0 rest = none := alookup_eq_none_iff.mpr hn.1
      simp [this, alookup, alookup_stepClose]
    · have h' : ¬ sp = sp0 := fun hh => h hh.symm
      simp only [alookup, h, if_false, alookup_stepClose, h']

theorem Agree_poolRemove {s : NodeSt} (h : s.Agree) (sid : Nat) : (s.poolRemove sid).Agree := by
  have hfilter : ∀ st, st ∈ s.pool.filter (·.sid ≠ sid) → st ∈ s.pool := by
    intro st hst; exact (List.mem_filter.mp hst).1
  exact {
    poolNodup := List.Nodup.sublist (List.Sublist.map _ List.filter_sublist) h.poolNodup
    streamsNodup := h.streamsNodup
    recOK := h.recOK
    trieReach := h.trieReach
    trieCount := h.trieCount
    trieLive := h.trieLive
    trieHas := h.trieHas
    validReg := h.validReg
    tags := fun st hst tag => h.tags st (hfilter st hst) tag }

theorem not_mem_pool_poolRemove (s : NodeSt) (sid : Nat) : ∀ st, st ∈ (s.poolRemove sid).pool → st.sid ≠ sid := by
  intro st hst
  have := (List.mem_filter.mp hst).2
  simpa using this

theorem onStreamClose_unfold (s : NodeSt) (sid : Nat) (r : StreamRec) (hl : alookup sid s.streams = some r) :
    s.onStreamClose sid =
      { s with remote := r.bySpace.foldl stepClose s.remote, streams := aerase sid s.streams } := by
  simp only [NodeSt.onStreamClose, hl]
  rfl

/-- the close hook of a stream the pool has already dropped keeps the invariant -/
theorem Agree_onStreamClose {s : NodeSt} (h : s.Agree) (sid : Nat)
    (hnp : ∀ st, st ∈ s.pool → st.sid ≠ sid) : (s.onStreamClose sid).Agree := by
  cases hl : alookup sid s.streams with
  | none => simpa [NodeSt.onStreamClose, hl] using h
  | some r =>
    rw [onStreamClose_unfold s sid r hl]
    have hr := h.recOK sid r hl
    have hreg' : ∀ sid' sp p, (∃ r', alookup sid' (aerase sid s.streams) = some r' ∧ p ∈ r'.pats sp) ↔
        (sid' ≠ sid ∧ s.Reg sid' sp p) := by
      intro sid' sp p
      simp only [alookup_aerase, NodeSt.Reg]
      by_cases hs : sid' = sid
      · simp [hs]
      · simp [hs]
    have hcnt : ∀ sp p, regCount (aerase sid s.streams) sp p + (if r.has sp p then 1 else 0) =
        regCount s.streams sp p := by
      intro sp p
      have := countP_aerase (fun e : Nat × StreamRec => e.2.has sp p) sid h.streamsNodup
      simpa [regCount, hl] using this
    have hsn : ((aerase sid s.streams).map Prod.fst).Nodup := nodup_aerase h.streamsNodup
    -- a trie of the new state: either untouched (the stream had nothing in that space) or the old
    -- one minus the stream's patterns, and then not empty
    have hremote : ∀ sp t', alookup sp (r.bySpace.foldl stepClose s.remote) = some t' →
        ∃ t, alookup sp s.remote = some t ∧ t' = t.removeAll (r.pats sp) ∧ t'.size ≠ 0 := by
      intro sp t' ht'
      rw [alookup_foldl_stepClose _ hr.keys] at ht'
      cases hb : alookup sp r.bySpace with
      | none =>
        simp only [hb, Option.elim_none] at ht'
        exact ⟨t', ht', by simp [StreamRec.pats, hb, Trie.removeAll], h.trieLive sp t' ht'⟩
      | some ps =>
        simp only [hb, Option.elim_some] at ht'
        cases ht : alookup sp s.remote with
        | none => simp [ht] at ht'
        | some t =>
          simp only [ht, Option.bind_some, afterClose] at ht'
          split at ht'
          · cases ht'
          · rename_i hz
            cases ht'
            exact ⟨t, rfl, by simp [StreamRec.pats, hb], by simpa [StreamRec.pats, hb] using hz⟩
    exact {
      poolNodup := h.poolNodup
      streamsNodup := hsn
      recOK := fun sid' r' hl' => by
        simp only [alookup_aerase] at hl'
        split at hl'
        · cases hl'
        · exact h.recOK sid' r' hl'
      trieReach := fun sp t' ht' => by
        obtain ⟨t, ht, rfl, _⟩ := hremote sp t' ht'
        exact (h.trieReach sp t ht).removeAll _
      trieCount := fun sp t' ht' p => by
        obtain ⟨t, ht, rfl, _⟩ := hremote sp t' ht'
        rw [Trie.count_removeAll, h.trieCount sp t ht p, (hr.toRecOK0.pats_nodup sp).count]
        have := hcnt sp p
        simp only [StreamRec.has, List.contains_eq_mem, decide_eq_true_eq] at this
        split <;> simp_all <;> omega
      trieLive := fun sp t' ht' => (hremote sp t' ht').choose_spec.2.2
      trieHas := fun sid' sp p hreg => by
        obtain ⟨hne, hreg0⟩ := (hreg' sid' sp p).mp hreg
        obtain ⟨t, ht⟩ := h.trieHas sid' sp p hreg0
        rw [alookup_foldl_stepClose _ hr.keys, ht]
        cases hb : alookup sp r.bySpace with
        | none => exact ⟨t, by simp⟩
        | some ps =>
          simp only [Option.elim_some, Option.bind_some, afterClose]
          have hpos : regCount (aerase sid s.streams) sp p > 0 := by
            rw [regCount_pos_iff hsn]
            obtain ⟨r', hl', hp'⟩ := hreg
            exact ⟨sid', r', hl', hp'⟩
          have hps : ps = r.pats sp := by simp [StreamRec.pats, hb]
          have hc : (t.removeAll ps).count p > 0 := by
            rw [Trie.count_removeAll, h.trieCount sp t ht p, hps, (hr.toRecOK0.pats_nodup sp).count]
            have := hcnt sp p
            simp only [StreamRec.has, List.contains_eq_mem, decide_eq_true_eq] at this
            split <;> simp_all <;> omega
          split
          · rename_i hz
            have := (Trie.size_eq_zero_iff ((h.trieReach sp t ht).removeAll ps)).mp hz p
            omega
          · exact ⟨_, rfl⟩
      tags := fun st hst tag => by
        have hst0 : st ∈ s.pool := hst
        have hne := hnp st hst
        rw [h.tags st hst0 tag]
        constructor
        · rintro ⟨sp, p, hreg0, he⟩
          exact ⟨sp, p, (hreg' st.sid sp p).mpr ⟨hne, hreg0⟩, he⟩
        · rintro ⟨sp, p, hreg1, he⟩
          exact ⟨sp, p, ((hreg' st.sid sp p).mp hreg1).2, he⟩
      validReg := fun sid' sp p hreg => h.validReg sid' sp p ((hreg' sid' sp p).mp hreg).2 }


theorem Agree_closeStream {s : NodeSt} (h : s.Agree) (sid : Nat) : (s.closeStream sid).Agree :=
  Agree_onStreamClose (Agree_poolRemove h sid) sid (not_mem_pool_poolRemove s sid)

/-! ### `pruneStream` / `pruneSpace` after a map write -/

theorem alookup_pruneStream_aset (l : List (Nat × StreamRec)) (sid sid' : Nat) (r1 : StreamRec) :
    alookup sid' (NodeSt.pruneStream (aset sid r1 l) sid) =
      if sid' = sid then (if r1.total = 0 then none else some r1) else alookup sid' l := by
  simp only [NodeSt.pruneStream, alookup_aset_same]
  by_cases hz : r1.total = 0
  · simp only [hz, if_true, alookup_aerase]
    by_cases h : sid' = sid
    · simp [h]
    · simp [h, alookup_aset_ne h]
  · simp only [hz, if_false, alookup_aset]

theorem nodup_pruneStream_aset {l : List (Nat × StreamRec)} (hn : (l.map Prod.fst).Nodup) (sid : Nat)
    (r1 : StreamRec) : ((NodeSt.pruneStream (aset sid r1 l) sid).map Prod.fst).Nodup := by
  simp only [NodeSt.pruneStream, alookup_aset_same]
  split
  · exact nodup_aerase (nodup_aset hn)
  · exact nodup_aset hn

theorem regCount_pruneStream_aset {l : List (Nat × StreamRec)} (hn : (l.map Prod.fst).Nodup) (sid : Nat)
    (r1 : StreamRec) (h1 : RecOK0 r1) (sp p : String) :
    regCount (NodeSt.pruneStream (aset sid r1 l) sid) sp p +
        (alookup sid l).elim 0 (fun r0 => if r0.has sp p then 1 else 0) =
      regCount l sp p + (if r1.has sp p then 1 else 0) := by
  have ha := countP_aset (fun e : Nat × StreamRec => e.2.has sp p) sid r1 l
  simp only [NodeSt.pruneStream, alookup_aset_same, regCount]
  by_cases hz : r1.total = 0
  · simp only [hz, if_true]
    have he := countP_aerase (fun e : Nat × StreamRec => e.2.has sp p) sid (nodup_aset (k := sid) (v := r1) hn)
    simp only [alookup_aset_same, Option.elim_some] at he
    have : r1.has sp p = false := by simp [StreamRec.has, h1.pats_nil_of_total_zero hz sp]
    simp only [this, Bool.false_eq_true, if_false] at ha he ⊢
    omega
  · simp only [hz, if_false]; exact ha

theorem alookup_pruneSpace_aset (rem : List (String × Trie)) (space sp : String) (t1 : Trie) :
    alookup sp (NodeSt.pruneSpace (aset space t1 rem) space) =
      if sp = space then (if t1.size = 0 then none else some t1) else alookup sp rem := by
  rw [alookup_pruneSpace]
  by_cases h : sp = space
  · simp [h, alookup_aset_same]
  · simp [h, alookup_aset_ne h]

/-! ### `removeStreamPattern` and the unsubscribe loop -/

theorem rsp_absent (r : StreamRec) (t : Trie) (space p : String) (h : p ∉ r.pats space) :
    removeStreamPattern r t space p = (r, t, false) := by
  simp only [removeStreamPattern]
  cases hl : alookup space r.bySpace with
  | none => rfl
  | some pats =>
    have : p ∉ pats := by simpa [StreamRec.pats, hl] using h
    simp [this]

theorem rsp_present (r : StreamRec) (t : Trie) (space p : String) (h0 : RecOK0 r) (h : p ∈ r.pats space) :
    (removeStreamPattern r t space p).2.1 = (t.remove p).1 ∧
    (removeStreamPattern r t space p).2.2 = true ∧
    RecOK0 (removeStreamPattern r t space p).1 ∧
    ∀ sp q, q ∈ (removeStreamPattern r t space p).1.pats sp ↔ q ∈ r.pats sp ∧ ¬(sp = space ∧ q = p) := by
  simp only [removeStreamPattern]
  cases hl : alookup space r.bySpace with
  | none => simp [StreamRec.pats, hl] at h
  | some pats =>
    have hp : p ∈ pats := by simpa [StreamRec.pats, hl] using h
    have hpats : r.pats space = pats := by simp [StreamRec.pats, hl]
    have hnd : pats.Nodup := by rw [← hpats]; exact h0.pats_nodup space
    have hlen := List.length_erase_of_mem hp
    have hpos : pats.length ≥ 1 := by cases pats with | nil => simp at hp | cons a b => simp
    simp only [hp, List.contains_eq_mem, decide_true, if_true, true_and]
    by_cases he : (pats.erase p).isEmpty = true
    · simp only [he, if_true]
      have he' : pats.erase p = [] := List.isEmpty_iff.mp he
      refine ⟨?_, ?_⟩
      · exact {
          keys := nodup_aerase h0.keys
          entries := fun sp ps hm => h0.entries sp ps (mem_aerase.mp hm).1
          total := by
            have := sum_len_aerase space h0.keys
            simp only [hl, Option.getD_some] at this
            have ht := h0.total
            rw [he'] at hlen; simp at hlen
            simp only; omega }
      · intro sp q
        rw [pats_aerase]
        by_cases hs : sp = space
        · subst hs
          simp only [if_true, List.not_mem_nil, false_iff, hpats, true_and, not_and, Decidable.not_not]
          intro hq
          apply Classical.byContradiction
          intro hne
          have : q ∈ pats.erase p := (hnd.mem_erase_iff).mpr ⟨hne, hq⟩
          rw [he'] at this; simp at this
        · simp [hs]
    · simp only [he, Bool.false_eq_true, if_false]
      have he' : pats.erase p ≠ [] := fun h' => he (List.isEmpty_iff.mpr h')
      refine ⟨?_, ?_⟩
      · exact {
          keys := nodup_aset h0.keys
          entries := fun sp ps hm => by
            rcases (mem_aset h0.keys).mp hm with ⟨_, rfl⟩ | ⟨hm', _⟩
            · exact ⟨hnd.erase p, he'⟩
            · exact h0.entries sp ps hm'
          total := by
            have := sum_len_aset space (pats.erase p) (l := r.bySpace)
            simp only [hl, Option.getD_some] at this
            have ht := h0.total
            simp only; omega }
      · intro sp q
        rw [pats_aset]
        by_cases hs : sp = space
        · subst hs
          simp only [if_true, hpats, true_and]
          rw [hnd.mem_erase_iff]
          constructor
          · rintro ⟨h1, h2⟩; exact ⟨h2, h1⟩
          · rintro ⟨h1, h2⟩; exact ⟨h2, h1⟩
        · simp [hs]

/-- the body of the `for _, pattern := range patterns` loop of `handleUnsubscribe` -/
def unsubStep (space : String) (acc : StreamRec × Trie × List String) (p : String) :
    StreamRec × Trie × List String :=
  ((removeStreamPattern acc.1 acc.2.1 space p).1, (removeStreamPattern acc.1 acc.2.1 space p).2.1,
    if (removeStreamPattern acc.1 acc.2.1 space p).2.2 then acc.2.2 ++ [p] else acc.2.2)

theorem unsubFold_spec (space : String) (ps : List String) (r : StreamRec) (t : Trie) (acc : List String)
    (h : RecOK0 r) (ht : t.Reachable) :
    RecOK0 (ps.foldl (unsubStep space) (r, t, acc)).1 ∧
    (ps.foldl (unsubStep space) (r, t, acc)).2.1.Reachable ∧
    (∀ sp q, q ∈ (ps.foldl (unsubStep space) (r, t, acc)).1.pats sp ↔
        q ∈ r.pats sp ∧ ¬(sp = space ∧ q ∈ ps)) ∧
    (∀ q, (ps.foldl (unsubStep space) (r, t, acc)).2.1.count q =
        t.count q - (if q ∈ r.pats space ∧ q ∈ ps then 1 else 0)) ∧
    (∀ q, q ∈ (ps.foldl (unsubStep space) (r, t, acc)).2.2 ↔ q ∈ acc ∨ (q ∈ r.pats space ∧ q ∈ ps)) := by
  induction ps generalizing r t acc with
  | nil => simp [h, ht]
  | cons p rest ih =>
    simp only [List.foldl_cons]
    by_cases hp : p ∈ r.pats space
    · obtain ⟨e1, e2, e3, e4⟩ := rsp_present r t space p h hp
      have hstep : unsubStep space (r, t, acc) p =
          ((removeStreamPattern r t space p).1, (t.remove p).1, acc ++ [p]) := by
        simp only [unsubStep, e1, e2, if_true]
      rw [hstep]
      obtain ⟨i1, i2, i3, i4, i5⟩ := ih (removeStreamPattern r t space p).1 (t.remove p).1 (acc ++ [p]) e3
        (Trie.Reachable.remove p ht)
      refine ⟨i1, i2, ?_, ?_, ?_⟩
      · intro sp q
        rw [i3, e4]
        simp only [List.mem_cons]
        constructor
        · rintro ⟨⟨a, b⟩, c⟩; exact ⟨a, fun ⟨x, y⟩ => y.elim (fun y => b ⟨x, y⟩) (fun y => c ⟨x, y⟩)⟩
        · rintro ⟨a, b⟩; exact ⟨⟨a, fun ⟨x, y⟩ => b ⟨x, Or.inl y⟩⟩, fun ⟨x, y⟩ => b ⟨x, Or.inr y⟩⟩
      · intro q
        rw [i4, Trie.count_remove]
        have hq := e4 space q
        by_cases hqp : q = p
        · subst hqp
          have : ¬ q ∈ (removeStreamPattern r t space q).1.pats space := by rw [hq]; simp
          simp [this, hp]
        · have : (q ∈ (removeStreamPattern r t space p).1.pats space) ↔ q ∈ r.pats space := by
            rw [hq]; simp [hqp]
          simp only [this, hqp, if_false, Nat.sub_zero, List.mem_cons, false_or]
      · intro q
        rw [i5]
        have hq := e4 space q
        simp only [List.mem_append, List.mem_singleton, List.mem_cons]
        by_cases hqp : q = p
        · subst hqp
          have : ¬ q ∈ (removeStreamPattern r t space q).1.pats space := by rw [hq]; simp
          simp [this, hp]
        · have : (q ∈ (removeStreamPattern r t space p).1.pats space) ↔ q ∈ r.pats space := by
            rw [hq]; simp [hqp]
          simp [this, hqp]
    · have hstep : unsubStep space (r, t, acc) p = (r, t, acc) := by
        simp only [unsubStep, rsp_absent r t space p hp]; simp
      rw [hstep]
      obtain ⟨i1, i2, i3, i4, i5⟩ := ih r t acc h ht
      refine ⟨i1, i2, ?_, ?_, ?_⟩
      · intro sp q
        rw [i3]
        simp only [List.mem_cons]
        constructor
        · rintro ⟨a, b⟩
          refine ⟨a, fun ⟨x, y⟩ => y.elim (fun y => ?_) (fun y => b ⟨x, y⟩)⟩
          subst x; subst y; exact hp a
        · rintro ⟨a, b⟩; exact ⟨a, fun ⟨x, y⟩ => b ⟨x, Or.inr y⟩⟩
      · intro q
        rw [i4]
        by_cases hqp : q = p
        · subst hqp; simp [hp]
        · simp [hqp]
      · intro q
        rw [i5]
        by_cases hqp : q = p
        · subst hqp; simp [hp]
        · simp [hqp]

/-! ### one stream's record, one space's trie and that stream's tags change together -/

/-- The common shape of subscribe and unsubscribe: the record of stream `sid` becomes `rec1` (pruned
if empty), the trie of `space` becomes `t1` (pruned if empty), and only the tags of `sid` change.
If the new trie counts and the new tags account exactly for the change of the record in `space`,
the invariant is kept. -/
theorem Agree_update {s s' : NodeSt} (h : s.Agree) (sid : Nat) (space : String) (rec1 : StreamRec) (t1 : Trie)
    (hs : s'.streams = NodeSt.pruneStream (aset sid rec1 s.streams) sid)
    (hr : s'.remote = NodeSt.pruneSpace (aset space t1 s.remote) space)
    (hrec : RecOK0 rec1) (ht1 : t1.Reachable)
    (hother : ∀ sp, sp ≠ space → rec1.pats sp = (alookup sid s.streams).elim [] (fun r0 => r0.pats sp))
    (hcount : ∀ q, t1.count q + (if q ∈ (alookup sid s.streams).elim [] (fun r0 => r0.pats space) then 1 else 0) =
        (alookup space s.remote).elim 0 (fun t => t.count q) + (if q ∈ rec1.pats space then 1 else 0))
    (hsids : s'.pool.map (·.sid) = s.pool.map (·.sid))
    (hpool_ne : ∀ st', st' ∈ s'.pool → st'.sid ≠ sid → st' ∈ s.pool)
    (hpool_eq : ∀ st', st' ∈ s'.pool → st'.sid = sid → ∀ tag,
        (tag ∈ st'.tags ↔ ∃ sp q, q ∈ rec1.pats sp ∧ tag = interestTag sp q))
    (hvalid : rec1.pats space ≠ [] → validSpaceId space = true) : s'.Agree := by
  have hreg : ∀ sid' sp q, s'.Reg sid' sp q ↔ (if sid' = sid then q ∈ rec1.pats sp else s.Reg sid' sp q) := by
    intro sid' sp q
    simp only [NodeSt.Reg, hs, alookup_pruneStream_aset]
    by_cases he : sid' = sid
    · simp only [he, if_true]
      by_cases hz : rec1.total = 0
      · simp [hz, hrec.pats_nil_of_total_zero hz sp]
      · simp [hz]
    · simp [he]
  have hold_reg : ∀ sp q, q ∈ (alookup sid s.streams).elim [] (fun r0 => r0.pats sp) ↔ s.Reg sid sp q := by
    intro sp q
    simp only [NodeSt.Reg]
    cases alookup sid s.streams with
    | none => simp
    | some r0 => simp
  have hsn : (s'.streams.map Prod.fst).Nodup := by rw [hs]; exact nodup_pruneStream_aset h.streamsNodup sid rec1
  have hrc : ∀ sp q, regCount s'.streams sp q +
      (if q ∈ (alookup sid s.streams).elim [] (fun r0 => r0.pats sp) then 1 else 0) =
      regCount s.streams sp q + (if q ∈ rec1.pats sp then 1 else 0) := by
    intro sp q
    have := regCount_pruneStream_aset h.streamsNodup sid rec1 hrec sp q
    rw [hs]
    cases ho : alookup sid s.streams with
    | none =>
      simp only [ho, Option.elim_none, Nat.add_zero] at this
      by_cases h2 : q ∈ rec1.pats sp <;> simp [StreamRec.has, h2] at this ⊢ <;> omega
    | some r0 =>
      simp only [ho, Option.elim_some] at this
      by_cases h1 : q ∈ r0.pats sp <;> by_cases h2 : q ∈ rec1.pats sp <;>
        simp [StreamRec.has, h1, h2] at this ⊢ <;> omega
  -- refcounts of the rewritten trie are the new registration counts
  have hcnt1 : ∀ q, t1.count q = regCount s'.streams space q := by
    intro q
    have h1 := hcount q
    have h2 := hrc space q
    cases ht : alookup space s.remote with
    | some t =>
      have := h.trieCount space t ht q
      simp only [ht, Option.elim_some] at h1
      omega
    | none =>
      have hz : regCount s.streams space q = 0 := by
        apply Classical.byContradiction
        intro hne
        obtain ⟨sid0, hreg0⟩ := (h.toAgreeCore.regCount_pos_iff space q).mp (by omega)
        obtain ⟨t, ht'⟩ := h.trieHas sid0 space q hreg0
        rw [ht] at ht'; cases ht'
      simp only [ht, Option.elim_none] at h1
      omega
  have hremote : ∀ sp t', alookup sp s'.remote = some t' →
      (sp = space ∧ t' = t1 ∧ t1.size ≠ 0) ∨ (sp ≠ space ∧ alookup sp s.remote = some t') := by
    intro sp t' ht'
    rw [hr, alookup_pruneSpace_aset] at ht'
    by_cases he : sp = space
    · left
      simp only [he, if_true] at ht'
      split at ht'
      · cases ht'
      · rename_i hz; cases ht'; exact ⟨he, rfl, hz⟩
    · right; simp only [he, if_false] at ht'; exact ⟨he, ht'⟩
  exact {
    poolNodup := by rw [hsids]; exact h.poolNodup
    streamsNodup := hsn
    recOK := fun sid' r' hl' => by
      rw [hs, alookup_pruneStream_aset] at hl'
      by_cases he : sid' = sid
      · simp only [he, if_true] at hl'
        split at hl'
        · cases hl'
        · rename_i hz
          cases hl'
          exact { toRecOK0 := hrec, nonempty := fun hb => hz (hrec.total_zero_iff.mpr hb) }
      · simp only [he, if_false] at hl'; exact h.recOK sid' r' hl'
    trieReach := fun sp t' ht' => by
      rcases hremote sp t' ht' with ⟨_, rfl, _⟩ | ⟨_, ht0⟩
      · exact ht1
      · exact h.trieReach sp t' ht0
    trieCount := fun sp t' ht' q => by
      rcases hremote sp t' ht' with ⟨rfl, rfl, _⟩ | ⟨hne, ht0⟩
      · exact hcnt1 q
      · have h2 := hrc sp q
        rw [hother sp hne] at h2
        rw [h.trieCount sp t' ht0 q]; omega
    trieLive := fun sp t' ht' => by
      rcases hremote sp t' ht' with ⟨_, rfl, hz⟩ | ⟨_, ht0⟩
      · exact hz
      · exact h.trieLive sp t' ht0
    trieHas := fun sid' sp q hreg1 => by
      rw [hr, alookup_pruneSpace_aset]
      by_cases he : sp = space
      · subst he
        simp only [if_true]
        have hpos : regCount s'.streams sp q > 0 := by
          rw [regCount_pos_iff hsn]
          obtain ⟨r', hl', hp'⟩ := hreg1
          exact ⟨sid', r', hl', hp'⟩
        rw [← hcnt1 q] at hpos
        split
        · rename_i hz
          have := (Trie.size_eq_zero_iff ht1).mp hz q
          omega
        · exact ⟨_, rfl⟩
      · simp only [he, if_false]
        have hreg0 : ∃ sid0, s.Reg sid0 sp q := by
          have := (hreg sid' sp q).mp hreg1
          by_cases hsd : sid' = sid
          · simp only [hsd, if_true] at this
            rw [hother sp he] at this
            exact ⟨sid, (hold_reg sp q).mp this⟩
          · simp only [hsd, if_false] at this; exact ⟨sid', this⟩
        obtain ⟨sid0, hr0⟩ := hreg0
        exact h.trieHas sid0 sp q hr0
    tags := fun st' hst' tag => by
      by_cases hsd : st'.sid = sid
      · rw [hpool_eq st' hst' hsd tag]
        constructor
        · rintro ⟨sp, q, hq, he⟩; exact ⟨sp, q, (hreg st'.sid sp q).mpr (by simp [hsd, hq]), he⟩
        · rintro ⟨sp, q, hq, he⟩
          have := (hreg st'.sid sp q).mp hq
          simp only [hsd, if_true] at this
          exact ⟨sp, q, this, he⟩
      · rw [h.tags st' (hpool_ne st' hst' hsd) tag]
        constructor
        · rintro ⟨sp, q, hq, he⟩; exact ⟨sp, q, (hreg st'.sid sp q).mpr (by simp [hsd, hq]), he⟩
        · rintro ⟨sp, q, hq, he⟩
          have := (hreg st'.sid sp q).mp hq
          simp only [hsd, if_false] at this
          exact ⟨sp, q, this, he⟩
    validReg := fun sid' sp q hreg1 => by
      have := (hreg sid' sp q).mp hreg1
      by_cases hsd : sid' = sid
      · simp only [hsd, if_true] at this
        by_cases he : sp = space
        · subst he
          exact hvalid (fun hnil => by rw [hnil] at this; cases this)
        · rw [hother sp he] at this
          exact h.validReg sid sp q ((hold_reg sp q).mp this)
      · simp only [hsd, if_false] at this; exact h.validReg sid' sp q this }

/-! ### `handleUnsubscribe` -/

theorem rsp_pats_ne (r : StreamRec) (t : Trie) (space p sp : String) (h : sp ≠ space) :
    (removeStreamPattern r t space p).1.pats sp = r.pats sp := by
  simp only [removeStreamPattern]
  cases alookup space r.bySpace with
  | none => rfl
  | some pats =>
    simp only
    split
    · split
      · rw [pats_aerase]; simp [h]
      · rw [pats_aset]; simp [h]
    · rfl

theorem unsubFold_pats_ne (space : String) (ps : List String) (r : StreamRec) (t : Trie) (acc : List String)
    (sp : String) (h : sp ≠ space) : (ps.foldl (unsubStep space) (r, t, acc)).1.pats sp = r.pats sp := by
  induction ps generalizing r t acc with
  | nil => rfl
  | cons p rest ih =>
    simp only [List.foldl_cons, unsubStep]
    rw [ih, rsp_pats_ne _ _ _ _ _ h]

theorem handleUnsubscribe_some (s : NodeSt) (sid : Nat) (space : String) (topics : List String)
    (rec0 : StreamRec) (t : Trie) (hl : alookup sid s.streams = some rec0) (ht : alookup space s.remote = some t) :
    s.handleUnsubscribe sid space topics =
      (if ((if topics.isEmpty then rec0.pats space else topics).foldl (unsubStep space) (rec0, t, [])).2.2.isEmpty
       then ({ s with
          streams := NodeSt.pruneStream (aset sid ((if topics.isEmpty then rec0.pats space else topics).foldl (unsubStep space) (rec0, t, [])).1 s.streams) sid,
          remote := NodeSt.pruneSpace (aset space ((if topics.isEmpty then rec0.pats space else topics).foldl (unsubStep space) (rec0, t, [])).2.1 s.remote) space } : NodeSt)
       else ({ s with
          streams := NodeSt.pruneStream (aset sid ((if topics.isEmpty then rec0.pats space else topics).foldl (unsubStep space) (rec0, t, [])).1 s.streams) sid,
          remote := NodeSt.pruneSpace (aset space ((if topics.isEmpty then rec0.pats space else topics).foldl (unsubStep space) (rec0, t, [])).2.1 s.remote) space } : NodeSt).removeTags sid
            (((if topics.isEmpty then rec0.pats space else topics).foldl (unsubStep space) (rec0, t, [])).2.2.map (interestTag space))) := by
  simp only [NodeSt.handleUnsubscribe, NodeSt.getTrie, hl, ht]
  rfl

theorem Agree_handleUnsubscribe {s : NodeSt} (h : s.Agree) (sid : Nat) (space : String) (topics : List String) :
    (s.handleUnsubscribe sid space topics).Agree := by
  cases hl : alookup sid s.streams with
  | none => simpa [NodeSt.handleUnsubscribe, hl] using h
  | some rec0 =>
  cases ht : alookup space s.remote with
  | none => simpa [NodeSt.handleUnsubscribe, NodeSt.getTrie, hl, ht] using h
  | some t =>
  rw [handleUnsubscribe_some s sid space topics rec0 t hl ht]
  generalize hps : (if topics.isEmpty then rec0.pats space else topics) = ps
  have hr0 := (h.recOK sid rec0 hl).toRecOK0
  obtain ⟨R1, R2, R3, R4, R5⟩ := unsubFold_spec space ps rec0 t [] hr0 (h.trieReach space t ht)
  have R6 := fun sp hne => unsubFold_pats_ne space ps rec0 t [] sp hne
  generalize hres : ps.foldl (unsubStep space) (rec0, t, []) = res at R1 R2 R3 R4 R5 R6
  obtain ⟨rec1, t1, removed⟩ := res
  simp only at R1 R2 R3 R4 R5 R6 ⊢
  simp only [List.not_mem_nil, false_or] at R5
  -- the tags of the stream after the removal
  have key : ∀ st, st ∈ s.pool → st.sid = sid → ∀ tag,
      ((tag ∈ st.tags ∧ tag ∉ removed.map (interestTag space)) ↔
        ∃ sp q, q ∈ rec1.pats sp ∧ tag = interestTag sp q) := by
    intro st hst hsid tag
    rw [h.tags st hst tag]
    constructor
    · rintro ⟨⟨sp, q, ⟨r0, hl0, hq⟩, rfl⟩, hnot⟩
      rw [hsid, hl] at hl0; cases hl0
      refine ⟨sp, q, (R3 sp q).mpr ⟨hq, ?_⟩, rfl⟩
      rintro ⟨rfl, hqps⟩
      exact hnot (List.mem_map.mpr ⟨q, (R5 q).mpr ⟨hq, hqps⟩, rfl⟩)
    · rintro ⟨sp, q, hq, rfl⟩
      obtain ⟨hq0, hn⟩ := (R3 sp q).mp hq
      refine ⟨⟨sp, q, ⟨rec0, by rw [hsid]; exact hl, hq0⟩, rfl⟩, ?_⟩
      intro hm
      obtain ⟨q', hq', heq⟩ := List.mem_map.mp hm
      obtain ⟨hq'0, hq'ps⟩ := (R5 q').mp hq'
      have v1 := h.validReg sid space q' ⟨rec0, hl, hq'0⟩
      have v2 := h.validReg sid sp q ⟨rec0, hl, hq0⟩
      obtain ⟨e1, e2⟩ := interestTag_inj v1 v2 heq
      subst e1; subst e2
      exact hn ⟨rfl, hq'ps⟩
  have hcount : ∀ q, t1.count q + (if q ∈ (alookup sid s.streams).elim [] (fun r0 => r0.pats space) then 1 else 0) =
      (alookup space s.remote).elim 0 (fun t => t.count q) + (if q ∈ rec1.pats space then 1 else 0) := by
    intro q
    simp only [hl, ht, Option.elim_some]
    have h4 := R4 q
    have h3 := R3 space q
    by_cases hq0 : q ∈ rec0.pats space
    · have hge : t.count q ≥ 1 := by
        rw [h.trieCount space t ht q]
        have := (h.toAgreeCore.regCount_pos_iff space q).mpr ⟨sid, rec0, hl, hq0⟩
        omega
      by_cases hqps : q ∈ ps
      · have : ¬ q ∈ rec1.pats space := by rw [h3]; simp [hqps]
        simp [hq0, hqps, this] at h4 ⊢; omega
      · have : q ∈ rec1.pats space := by rw [h3]; simp [hq0, hqps]
        simp [hq0, hqps, this] at h4 ⊢; omega
    · have : ¬ q ∈ rec1.pats space := by rw [h3]; simp [hq0]
      simp [hq0, this] at h4 ⊢; omega
  have hother : ∀ sp, sp ≠ space → rec1.pats sp = (alookup sid s.streams).elim [] (fun r0 => r0.pats sp) := by
    intro sp hne; simp only [hl, Option.elim_some]; exact R6 sp hne
  have hvalid : rec1.pats space ≠ [] → validSpaceId space = true := by
    intro hne
    cases hp : rec1.pats space with
    | nil => exact absurd hp hne
    | cons q qs =>
      have : q ∈ rec1.pats space := by simp [hp]
      exact h.validReg sid space q ⟨rec0, hl, ((R3 space q).mp this).1⟩
  by_cases hrem : removed.isEmpty = true
  · simp only [hrem, if_true]
    have hrem' : removed = [] := List.isEmpty_iff.mp hrem
    refine Agree_update h sid space rec1 t1 rfl rfl R1 R2 hother hcount rfl (fun st' hst' _ => hst') ?_ hvalid
    intro st' hst' hsid tag
    have := key st' hst' hsid tag
    simpa [hrem'] using this
  · simp only [hrem, Bool.false_eq_true, if_false]
    refine Agree_update h sid space rec1 t1 rfl rfl R1 R2 hother hcount ?_ ?_ ?_ hvalid
    · simp only [NodeSt.removeTags, List.map_map]
      congr 1
      funext st
      simp only [Function.comp]
      split <;> rfl
    · intro st' hst' hne
      simp only [NodeSt.removeTags, List.mem_map] at hst'
      obtain ⟨st, hst, rfl⟩ := hst'
      by_cases hs : st.sid = sid
      · simp [hs] at hne
      · simpa [hs] using hst
    · intro st' hst' hsid tag
      simp only [NodeSt.removeTags, List.mem_map] at hst'
      obtain ⟨st, hst, rfl⟩ := hst'
      by_cases hs : st.sid = sid
      · simp only [hs, if_true, List.mem_filter, Bool.not_eq_true', List.contains_eq_mem, decide_eq_false_iff_not]
        exact key st hst hs tag
      · simp [hs] at hsid

/-! ### `handleSubscribe` -/

/-- the patterns the accept loop adds to the trie, as one fold -/
def Trie.addAll (t : Trie) (ps : List String) : Trie := ps.foldl (fun t p => (t.add p).1) t

theorem Trie.Reachable.addAll {t : Trie} (h : t.Reachable) (ps : List String) : (t.addAll ps).Reachable := by
  induction ps generalizing t with
  | nil => exact h
  | cons p rest ih => exact ih (Trie.Reachable.add p h)

theorem Trie.count_addAll (t : Trie) (ps : List String) (q : String) :
    (t.addAll ps).count q = t.count q + ps.count q := by
  induction ps generalizing t with
  | nil => simp [Trie.addAll]
  | cons p rest ih =>
    simp only [Trie.addAll, List.foldl_cons] at ih ⊢
    rw [ih, Trie.count_add, List.count_cons]
    by_cases h : q = p
    · subst h; simp; omega
    · have : ¬ p = q := fun hh => h hh.symm
      simp [h, this]

/-- the accept loop appends a duplicate-free list of new patterns (none of them present before, all
taken from the frame) to the record and adds exactly those to the trie -/
theorem acceptLoop_spec (cS cT : Nat) (topics pats : List String) (total : Nat) (t : Trie) (acc : List String) :
    ∃ new rej, acceptLoop cS cT topics pats total t acc =
        (pats ++ new, total + new.length, t.addAll new, acc ++ new, rej) ∧
      new.Nodup ∧ ∀ q, q ∈ new → q ∉ pats ∧ q ∈ topics := by
  induction topics generalizing pats total t acc with
  | nil => exact ⟨[], [], by simp [acceptLoop, Trie.addAll], by simp, by simp⟩
  | cons p rest ih =>
    simp only [acceptLoop]
    by_cases hc : pats.contains p = true
    · simp only [hc, if_true]
      obtain ⟨new, rej, he, hn, hd⟩ := ih pats total t acc
      exact ⟨new, rej, he, hn, fun q hq => ⟨(hd q hq).1, List.mem_cons_of_mem _ (hd q hq).2⟩⟩
    · simp only [hc, Bool.false_eq_true, if_false]
      by_cases hcap : pats.length ≥ cS ∨ total ≥ cT
      · simp only [hcap, if_true]
        exact ⟨[], p :: rest, by simp [Trie.addAll], by simp, by simp⟩
      · simp only [hcap, if_false]
        obtain ⟨new, rej, he, hn, hd⟩ := ih (pats ++ [p]) (total + 1) (t.add p).1 (acc ++ [p])
        have hp : p ∉ pats := by simpa using hc
        refine ⟨p :: new, rej, ?_, ?_, ?_⟩
        · rw [he]
          simp only [List.append_assoc, List.singleton_append, List.length_cons, Trie.addAll, List.foldl_cons]
          have : total + 1 + new.length = total + (new.length + 1) := by omega
          rw [this]
        · refine List.nodup_cons.mpr ⟨fun hin => ?_, hn⟩
          exact (hd p hin).1 (by simp)
        · intro q hq
          rcases List.mem_cons.mp hq with rfl | hq
          · exact ⟨hp, List.mem_cons_self⟩
          · exact ⟨fun hin => (hd q hq).1 (by simp [hin]), List.mem_cons_of_mem _ (hd q hq).2⟩

theorem mem_addTagsFold (tags init : List String) (x : String) :
    x ∈ tags.foldl (fun acc t => if acc.contains t then acc else acc ++ [t]) init ↔ x ∈ init ∨ x ∈ tags := by
  induction tags generalizing init with
  | nil => simp
  | cons t rest ih =>
    simp only [List.foldl_cons, ih, List.mem_cons]
    by_cases hc : init.contains t = true
    · simp only [hc, if_true]
      have : t ∈ init := by simpa using hc
      constructor
      · rintro (h | h); exact Or.inl h; exact Or.inr (Or.inr h)
      · rintro (h | h | h); exact Or.inl h; exact Or.inl (h ▸ this); exact Or.inr h
    · simp only [hc, Bool.false_eq_true, if_false, List.mem_append, List.mem_singleton]
      constructor
      · rintro ((h | h) | h); exact Or.inl h; exact Or.inr (Or.inl h); exact Or.inr (Or.inr h)
      · rintro (h | h | h); exact Or.inl (Or.inl h); exact Or.inl (Or.inr h); exact Or.inr h

theorem rollback_eq_unsub (space : String) (ps : List String) (r : StreamRec) (t : Trie) (acc : List String) :
    ps.foldl (NodeSt.rollbackStep space) (r, t) =
      ((ps.foldl (unsubStep space) (r, t, acc)).1, (ps.foldl (unsubStep space) (r, t, acc)).2.1) := by
  induction ps generalizing r t acc with
  | nil => rfl
  | cons p rest ih =>
    simp only [List.foldl_cons, NodeSt.rollbackStep, unsubStep]
    exact ih _ _ _

theorem pruneStream_aset_of_ne (l : List (Nat × StreamRec)) (sid : Nat) (r1 : StreamRec) (h : r1.total ≠ 0) :
    NodeSt.pruneStream (aset sid r1 l) sid = aset sid r1 l := by
  simp [NodeSt.pruneStream, alookup_aset_same, h]

theorem pruneSpace_aset_of_ne (rem : List (String × Trie)) (space : String) (t1 : Trie) (h : t1.size ≠ 0) :
    NodeSt.pruneSpace (aset space t1 rem) space = aset space t1 rem := by
  simp [NodeSt.pruneSpace, alookup_aset_same, h]

theorem eq_nil_of_forall_not_mem' {α : Type} {l : List α} (h : ∀ x, x ∉ l) : l = [] :=
  List.eq_nil_iff_forall_not_mem.mpr h

theorem Agree_subscribeCore {s : NodeSt} (h : s.Agree) (sid : Nat) (space : String) (topics : List String)
    (acct : String) (hv : validSpaceId space = true) :
    (s.subscribeCore sid space topics acct).1.Agree := by
  obtain ⟨rec0, hrec0⟩ : ∃ r, r = (alookup sid s.streams).getD ⟨acct, 0, []⟩ := ⟨_, rfl⟩
  obtain ⟨t, ht⟩ : ∃ t, t = (alookup space s.remote).getD Trie.empty := ⟨_, rfl⟩
  obtain ⟨new, rej, hacc, hnd, hdis⟩ := acceptLoop_spec s.capSpace s.capStream topics
      (rec0.pats space) rec0.total t []
  simp only [NodeSt.subscribeCore, NodeSt.getTrie, ← hrec0, ← ht, hacc, List.nil_append]
  have hr0 : RecOK0 rec0 := by
    rw [hrec0]
    cases ho : alookup sid s.streams with
    | none => exact ⟨by simp, by simp, by simp⟩
    | some r => exact (h.recOK sid r ho).toRecOK0
  have hold : ∀ sp, rec0.pats sp = (alookup sid s.streams).elim [] (fun r0 => r0.pats sp) := by
    intro sp; rw [hrec0]
    cases alookup sid s.streams with
    | none => simp [StreamRec.pats]
    | some r => simp
  have hregs : ∀ sp q, q ∈ rec0.pats sp → s.Reg sid sp q := by
    intro sp q hq
    rw [hold] at hq
    cases ho : alookup sid s.streams with
    | none => simp [ho] at hq
    | some r => simp only [ho, Option.elim_some] at hq; exact ⟨r, ho, hq⟩
  have htr : t.Reachable := by
    rw [ht]
    cases ho : alookup space s.remote with
    | none => exact Trie.Reachable.empty
    | some t0 => exact h.trieReach space t0 ho
  have htc : ∀ q, t.count q = (alookup space s.remote).elim 0 (fun t => t.count q) := by
    intro q; rw [ht]
    cases alookup space s.remote with
    | none => simp [Trie.count_empty]
    | some t0 => simp
  by_cases hnew : new = []
  · subst hnew
    simp only [List.isEmpty_nil, if_true, List.append_nil, List.length_nil, Nat.add_zero, Trie.addAll, List.foldl_nil]
    have hrec2 : (if (rec0.pats space).isEmpty = true then
          ({ account := rec0.account, total := rec0.total,
             bySpace := aerase space (aset space (rec0.pats space) rec0.bySpace) } : StreamRec)
        else { account := rec0.account, total := rec0.total, bySpace := aset space (rec0.pats space) rec0.bySpace }) = rec0 := by
      cases hb : alookup space rec0.bySpace with
      | none =>
        have hp : rec0.pats space = [] := by simp [StreamRec.pats, hb]
        have habs : space ∉ rec0.bySpace.map Prod.fst := alookup_eq_none_iff.mp hb
        simp only [hp, List.isEmpty_nil, if_true, aerase_aset_of_absent habs]
      | some ps =>
        have hp : rec0.pats space = ps := by simp [StreamRec.pats, hb]
        have hne : ps ≠ [] := hr0.alookup_ne_nil hb
        have : ps.isEmpty = false := by cases ps with | nil => exact absurd rfl hne | cons a b => rfl
        simp only [hp, this, Bool.false_eq_true, if_false, aset_self hb]
    rw [hrec2, aset_aset]
    refine Agree_update h sid space rec0 t rfl rfl hr0 htr (fun sp _ => hold sp) ?_ rfl (fun st' hst' _ => hst') ?_
      (fun _ => hv)
    · intro q; rw [htc q, ← hold space]
    · intro st' hst' hsid tag
      rw [h.tags st' hst' tag]
      constructor
      · rintro ⟨sp, q, ⟨r, hl, hq⟩, he⟩
        refine ⟨sp, q, ?_, he⟩
        rw [hold, hsid.symm, hl]; exact hq
      · rintro ⟨sp, q, hq, he⟩
        exact ⟨sp, q, by rw [hsid]; exact hregs sp q hq, he⟩
  · have hne : new.isEmpty = false := by
      cases new with
      | nil => exact absurd rfl hnew
      | cons a b => rfl
    simp only [hne, Bool.false_eq_true, if_false, NodeSt.addTags, NodeSt.poolStream]
    obtain ⟨rec1, hrec1⟩ : ∃ r : StreamRec, r = ⟨rec0.account, rec0.total + new.length, aset space (rec0.pats space ++ new) rec0.bySpace⟩ := ⟨_, rfl⟩
    simp only [← hrec1]
    have hp1 : ∀ sp, rec1.pats sp = if sp = space then rec0.pats space ++ new else rec0.pats sp := by
      intro sp; rw [hrec1]; exact pats_aset rec0 space sp _ _
    have hlenpos : new.length ≥ 1 := by
      cases new with
      | nil => exact absurd rfl hnew
      | cons a b => simp
    have htot1 : rec1.total ≠ 0 := by rw [hrec1]; simp only; omega
    have hr1 : RecOK0 rec1 := by
      rw [hrec1]
      exact {
        keys := nodup_aset hr0.keys
        entries := fun sp ps hm => by
          rcases (mem_aset hr0.keys).mp hm with ⟨_, rfl⟩ | ⟨hm', _⟩
          · refine ⟨List.nodup_append.mpr ⟨hr0.pats_nodup space, hnd, ?_⟩, ?_⟩
            · intro a ha b hb hab; subst hab; exact (hdis a hb).1 ha
            · intro he
              have : new = [] := (List.append_eq_nil_iff.mp he).2
              exact hnew this
          · exact hr0.entries sp ps hm'
        total := by
          have := sum_len_aset space (rec0.pats space ++ new) (l := rec0.bySpace)
          have ht0 := hr0.total
          simp only [StreamRec.pats] at this ⊢
          simp only [List.length_append] at this
          omega }
    have htr' : (t.addAll new).Reachable := htr.addAll new
    have hcnt' : ∀ q, (t.addAll new).count q = t.count q + (if q ∈ new then 1 else 0) := by
      intro q; rw [Trie.count_addAll, hnd.count]
    have hsize : (t.addAll new).size ≠ 0 := by
      intro hz
      cases hn' : new with
      | nil => exact hnew hn'
      | cons a b =>
        have := (Trie.size_eq_zero_iff htr').mp hz a
        rw [hcnt' a, hn'] at this
        simp at this
    cases hp : s.pool.find? (fun st => st.sid = sid) with
    | some st0 =>
      simp only
      have hst0 : st0 ∈ s.pool ∧ st0.sid = sid := by
        have h1 := List.mem_of_find?_eq_some hp
        have h2 := List.find?_some hp
        exact ⟨h1, by simpa using h2⟩
      refine Agree_update h sid space rec1 (t.addAll new) (pruneStream_aset_of_ne _ _ _ htot1).symm
        (pruneSpace_aset_of_ne _ _ _ hsize).symm hr1 htr' ?_ ?_ ?_ ?_ ?_ (fun _ => hv)
      · intro sp hsp; rw [hp1]; simp only [hsp, if_false]; exact hold sp
      · intro q
        rw [hcnt' q, htc q, ← hold space, hp1]
        simp only [if_true, List.mem_append]
        by_cases h1 : q ∈ rec0.pats space
        · have h2 : ¬ q ∈ new := fun hq => (hdis q hq).1 h1
          simp [h1, h2]
        · by_cases h2 : q ∈ new <;> simp [h1, h2]
      · simp only [List.map_map]
        congr 1
        funext st
        simp only [Function.comp]
        split <;> rfl
      · intro st' hst' hne'
        simp only [List.mem_map] at hst'
        obtain ⟨st, hst, rfl⟩ := hst'
        by_cases hs : st.sid = sid
        · simp [hs] at hne'
        · simpa [hs] using hst
      · intro st' hst' hsid tag
        simp only [List.mem_map] at hst'
        obtain ⟨st, hst, rfl⟩ := hst'
        by_cases hs : st.sid = sid
        · simp only [hs, if_true, mem_addTagsFold, List.mem_map]
          rw [h.tags st hst tag]
          constructor
          · rintro (⟨sp, q, ⟨r, hl, hq⟩, he⟩ | ⟨q, hq, he⟩)
            · refine ⟨sp, q, ?_, he⟩
              have : q ∈ rec0.pats sp := by rw [hold, ← hs, hl]; exact hq
              rw [hp1]; split
              · rename_i hsp; subst hsp; exact List.mem_append_left _ this
              · exact this
            · exact ⟨space, q, by rw [hp1]; simp [hq], he.symm⟩
          · rintro ⟨sp, q, hq, he⟩
            rw [hp1] at hq
            by_cases hsp : sp = space
            · subst hsp
              simp only [if_true, List.mem_append] at hq
              rcases hq with hq | hq
              · exact Or.inl ⟨sp, q, by rw [hs]; exact hregs sp q hq, he⟩
              · exact Or.inr ⟨q, hq, he.symm⟩
            · simp only [hsp, if_false] at hq
              exact Or.inl ⟨sp, q, by rw [hs]; exact hregs sp q hq, he⟩
        · simp [hs] at hsid
    | none =>
      simp only
      have hnopool : ∀ st, st ∈ s.pool → st.sid ≠ sid := by
        intro st hst heq
        have := List.find?_eq_none.mp hp st hst
        simp [heq] at this
      rw [rollback_eq_unsub space new rec1 (t.addAll new) []]
      obtain ⟨R1, R2, R3, R4, R5⟩ := unsubFold_spec space new rec1 (t.addAll new) [] hr1 htr'
      have R6 := fun sp hne => unsubFold_pats_ne space new rec1 (t.addAll new) [] sp hne
      generalize new.foldl (unsubStep space) (rec1, t.addAll new, []) = res at R1 R2 R3 R4 R5 R6
      obtain ⟨rec2, t2, removed⟩ := res
      simp only at R1 R2 R3 R4 R5 R6 ⊢
      rw [aset_aset, aset_aset]
      -- the rollback restores exactly what the record held before the frame
      have hp2 : ∀ q, q ∈ rec2.pats space ↔ q ∈ rec0.pats space := by
        intro q
        rw [R3 space q, hp1]
        simp only [if_true, List.mem_append, true_and]
        constructor
        · rintro ⟨h1 | h1, h2⟩
          · exact h1
          · exact absurd h1 h2
        · intro h1; exact ⟨Or.inl h1, fun h2 => (hdis q h2).1 h1⟩
      refine Agree_update h sid space rec2 t2 rfl rfl R1 R2 ?_ ?_ rfl (fun st' hst' _ => hst') ?_ (fun _ => hv)
      · intro sp hsp
        rw [R6 sp hsp, hp1]; simp only [hsp, if_false]; exact hold sp
      · intro q
        rw [R4 q, hcnt' q, htc q, ← hold space, hp1]
        have h2 := hp2 q
        simp only [if_true, List.mem_append]
        by_cases h1 : q ∈ rec0.pats space
        · have h3 : ¬ q ∈ new := fun hq => (hdis q hq).1 h1
          have h4 : q ∈ rec2.pats space := h2.mpr h1
          simp [h1, h3, h4]
        · have h4 : ¬ q ∈ rec2.pats space := fun hq => h1 (h2.mp hq)
          by_cases h3 : q ∈ new <;> simp [h1, h3, h4]
      · intro st' hst' hsid
        exact absurd hsid (hnopool st' hst')

theorem Agree_handleSubscribe {s : NodeSt} (h : s.Agree) (sid : Nat) (peer ident space : String)
    (topics : List String) : (s.handleSubscribe sid peer ident space topics).1.Agree := by
  simp only [NodeSt.handleSubscribe]
  split
  · exact h
  · split
    · exact h
    · rename_i hv
      split
      · exact h
      · split
        · exact h
        · split
          · exact h
          · exact Agree_subscribeCore h sid space topics _ (by simpa using hv)

theorem subscribeCore_pool_sids (s : NodeSt) (sid : Nat) (space : String) (topics : List String) (acct : String) :
    (s.subscribeCore sid space topics acct).1.pool.map (·.sid) = s.pool.map (·.sid) := by
  simp only [NodeSt.subscribeCore]
  split
  · rfl
  · simp only [NodeSt.addTags, NodeSt.poolStream]
    split
    · rename_i heq
      split at heq
      · cases heq
      · cases heq
        simp only [List.map_map]
        congr 1
        funext st
        simp only [Function.comp]
        split <;> rfl
    · rfl

theorem handleSubscribe_pool_sids (s : NodeSt) (sid : Nat) (peer ident space : String) (topics : List String) :
    (s.handleSubscribe sid peer ident space topics).1.pool.map (·.sid) = s.pool.map (·.sid) := by
  simp only [NodeSt.handleSubscribe]
  split
  · rfl
  · split
    · rfl
    · split
      · rfl
      · split
        · rfl
        · split
          · rfl
          · exact subscribeCore_pool_sids s sid space topics _

end AnySync.PubSub
